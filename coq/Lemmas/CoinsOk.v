(* C08 -- proofs about the coin tables regenerated from /repo (Gen/Coins.v, Gen/CoinsConsts.v).

   Two kinds of statements:
   (1) table theorems: the domain is the finite list of all members of the seven coin
       enumerations ([all_coins]) resp. all CoinsConf entries.  They are decided EXHAUSTIVELY by
       [vm_compute] on a [forallb] over the whole list and lifted with [forallb_forall]; nothing
       is sampled.  They are re-proved on every run over the freshly generated table, so an edit
       of /repo that breaks a side condition breaks the build of every theorem that needs it.
   (2) general lemmas ("what the boolean check gives you"): for ANY coin record, [coin_ok] implies
       the propositional side conditions the round-trip theorems of C05/C09/C13 take as premises. *)
From Coq Require Import NArith PeanoNat List Bool Lia.
From Coq Require String.
From BU Require Import Base.Exn Base.Bytes Gen.CoinsConsts Model.Coins Gen.Coins.
From BU Require Import Lemmas.CoinsExpected.
From BU Require Lemmas.Registry.
Import ListNotations.
Open Scope N_scope.

Definition the_env : env :=
  {| e_infos := addr_cls_table; e_accepts := key_accepts_table; e_refused := toaddress_refused |}.

(* ------------------------------------------------------------------ constants *)

Lemma hardened_bit_pos : 0 < hardened_bit.
Proof. vm_compute. reflexivity. Qed.

(* the largest hardened index is the largest key index: 2 * 2^31 - 1 = 2^32 - 1 *)
Lemma hardened_range : 2 * hardened_bit - 1 = key_index_max.
Proof. vm_compute. reflexivity. Qed.

Lemma purposes_hardened :
  forallb is_hardened [purpose_bip44; purpose_bip49; purpose_bip84; purpose_bip86; purpose_cip1852] = true.
Proof. vm_compute. reflexivity. Qed.

Lemma witness_versions : p2wpkh_witness_ver = 0 /\ p2tr_witness_ver = 1.
Proof. vm_compute. split; reflexivity. Qed.

(* ------------------------------------------------------------------ general lemmas *)

Lemma is_hardened_harden i : is_hardened (harden i) = true.
Proof. unfold is_hardened, harden. apply N.leb_le. lia. Qed.

Lemma is_hardened_small i : i < hardened_bit -> is_hardened i = false.
Proof. unfold is_hardened. intros H. apply N.leb_gt. exact H. Qed.

Lemma unharden_harden i : unharden (harden i) = i.
Proof. unfold unharden. rewrite is_hardened_harden. unfold harden. lia. Qed.

Lemma harden_inj i j : harden i = harden j -> i = j.
Proof. unfold harden. lia. Qed.

Lemma bytes_len_ok_spec n b : bytes_len_ok n b = true <-> bytes_ok b /\ length b = n.
Proof.
  unfold bytes_len_ok. rewrite andb_true_iff, bytes_okb_spec, Nat.eqb_eq. tauto.
Qed.

Lemma key_ver_ok_spec p q : key_ver_ok p q = true ->
  bytes_ok p /\ bytes_ok q /\ length p = key_net_ver_len /\ length q = key_net_ver_len /\ p <> q.
Proof.
  unfold key_ver_ok. rewrite !andb_true_iff, !bytes_len_ok_spec, negb_true_iff.
  intros [[[H1 H2] [H3 H4]] H5]. repeat split; auto.
  intros E. apply list_eqb_spec in E. congruence.
Qed.

Lemma hrp_ok_spec h : hrp_ok h = true ->
  h <> [] /\ (length h <= 83)%nat /\
  Forall (fun c => 33 <= c <= 126 /\ ~ (65 <= c <= 90)) h.
Proof.
  unfold hrp_ok. rewrite !andb_true_iff. intros [[H1 H2] H3]. repeat split.
  - destruct h; [discriminate|congruence].
  - apply N.leb_le in H2. lia.
  - rewrite forallb_forall in H3. apply Forall_forall. intros c Hc. specialize (H3 c Hc).
    rewrite !andb_true_iff, negb_true_iff in H3. destruct H3 as [[A B] C].
    apply N.leb_le in A. apply N.leb_le in B. split; [lia|].
    unfold is_upper in C. apply andb_false_iff in C.
    destruct C as [C|C]; apply N.leb_gt in C; lia.
Qed.

Lemma ss58_ok_spec f : ss58_ok f = true -> f <= ss58_format_max /\ ~ In f ss58_reserved.
Proof.
  unfold ss58_ok. rewrite andb_true_iff, negb_true_iff. intros [A B]. split.
  - apply N.leb_le. exact A.
  - intros I. apply memb_In in I. congruence.
Qed.

Lemma wif_ok_spec w b : wif_ok w = true -> w = Some b -> bytes_ok b /\ length b = 1%nat.
Proof. intros H ->. apply bytes_len_ok_spec. exact H. Qed.

(* every index of a parsed path is a legal key index, whatever the string *)
Lemma parse_elem_range e i : parse_elem e = Ok i -> i <= key_index_max.
Proof.
  unfold parse_elem. destruct (split_suffix e) as [body hard].
  destruct body as [|c t]; [discriminate|].
  destruct (dec_val 0 (c :: t)) as [v|]; [|discriminate].
  destruct (v <? hardened_bit) eqn:E; [|discriminate].
  apply N.ltb_lt in E. intros H. inversion H; subst. rewrite <- hardened_range.
  destruct hard; unfold harden; lia.
Qed.

Lemma mapM_Forall {A B} (f : A -> res B) (P : B -> Prop) :
  (forall a b, f a = Ok b -> P b) -> forall l r, mapM f l = Ok r -> Forall P r.
Proof.
  intros Hf. induction l as [|x t IH]; simpl; intros r H.
  - inversion H. constructor.
  - destruct (f x) as [y|e] eqn:E; [|discriminate]. simpl in H.
    destruct (mapM f t) as [ys|e] eqn:E2; [|discriminate]. simpl in H.
    inversion H; subst. constructor; [eapply Hf; eauto|apply IH; reflexivity].
Qed.

Lemma parse_path_range s a p : parse_path s = Ok (a, p) -> Forall (fun i => i <= key_index_max) p.
Proof.
  unfold parse_path. destruct (filter nonempty (split_on 47 s [])) as [|e t].
  - intros H. inversion H. constructor.
  - destruct (list_eqb e path_master_char).
    + destruct (mapM parse_elem t) as [r|x] eqn:E; [|discriminate]. simpl. intros H. inversion H; subst.
      eapply mapM_Forall; [apply parse_elem_range|exact E].
    + destruct (mapM parse_elem (e :: t)) as [r|x] eqn:E; [|discriminate]. simpl. intros H.
      inversion H; subst. eapply mapM_Forall; [apply parse_elem_range|exact E].
Qed.

(* string-list membership / inclusion, reflected *)
Lemma str_mem_iff x l : str_mem x l = true <-> In x l.
Proof.
  induction l as [|y t IH]; simpl; [split; [discriminate|tauto]|].
  rewrite orb_true_iff, IH, list_eqb_spec. split; intros [H|H]; auto.
Qed.

Lemma str_subset_spec a b : str_subset a b = true <-> incl a b.
Proof.
  unfold str_subset, incl. rewrite forallb_forall. split; intros H x Hx.
  - apply str_mem_iff. auto.
  - apply str_mem_iff. auto.
Qed.

(* what [addr_conf_ok] gives, for ANY address configuration: the encoder class is known, its
   parameters are well-formed, every keyword its EncodeKey requires is passed by the
   configuration (or by the owning wallet class when ToAddress refuses the encoder), nothing is
   passed that it does not read, and every keyword its decoder's DecodeAddr requires is one of
   the configuration's static keywords -- so `Decoder.DecodeAddr(addr, **static_params)` is a
   well-formed call, which is how the end-to-end check calls it *)
Lemma addr_conf_ok_keys ev cv a : addr_conf_ok ev cv a = true ->
  exists i, find_info (a_cls a) (e_infos ev) = Some i /\
    addr_params_ok (a_params a) = true /\
    let wallet := if refused ev (a_cls a) then caller_keys (a_cls a) else [] in
    incl (ai_enc_req i) ((a_keys a ++ a_call_keys a) ++ wallet) /\
    incl (a_keys a ++ a_call_keys a) (ai_enc_req i ++ ai_enc_opt i) /\
    incl (ai_dec_req i) (a_keys a ++ wallet) /\
    incl (a_keys a) (ai_dec_req i ++ ai_dec_opt i) /\
    (refused ev (a_cls a) = false -> key_accepts (e_accepts ev) (ai_key i) cv = true).
Proof.
  unfold addr_conf_ok. destruct (find_info (a_cls a) (e_infos ev)) as [i|]; [|discriminate].
  rewrite !andb_true_iff, !str_subset_spec. intros [[[[[[[[P _] _] _] E1] E2] D1] D2] K].
  exists i. repeat split; auto.
  intros R. rewrite R in K. exact K.
Qed.

(* what [coin_ok] gives for the key material of a BIP coin *)
Lemma coin_ok_bip ev c b : coin_ok ev c = true -> c_body c = CBip b ->
  bytes_ok (b_key_pub b) /\ bytes_ok (b_key_priv b) /\
  length (b_key_pub b) = key_net_ver_len /\ length (b_key_priv b) = key_net_ver_len /\
  b_key_pub b <> b_key_priv b /\
  (forall w, b_wif b = Some w -> bytes_ok w /\ length w = 1%nat) /\
  b_curve b = curve_of_bip32 (b_bip32 b) /\
  (exists p, full_default_path (c_family c) b = Ok p /\
             (hardened_only (b_bip32 b) = true -> Forall (fun i => is_hardened i = true) p)).
Proof.
  unfold coin_ok. intros H Hb. rewrite Hb in H.
  rewrite !andb_true_iff in H. destruct H as [_ [_ H]].
  unfold bip_conf_ok in H. rewrite !andb_true_iff in H.
  destruct H as [[[[[[[K _] W] C] P] _] _] _].
  destruct (key_ver_ok_spec _ _ K) as (A1 & A2 & A3 & A4 & A5).
  repeat split; auto.
  - eapply wif_ok_spec; eauto.
  - eapply wif_ok_spec; eauto.
  - unfold curve_eqb in C. apply N.eqb_eq in C.
    destruct (b_curve b), (b_bip32 b); simpl in C; try discriminate; reflexivity.
  - unfold path_ok in P. destruct (full_default_path (c_family c) b) as [p|e]; [|discriminate].
    exists p. split; [reflexivity|]. intros Hh. rewrite Hh in P. apply andb_true_iff in P.
    destruct P as [P _]. apply Forall_forall. rewrite forallb_forall in P. exact P.
Qed.

(* ------------------------------------------------------------------ table theorems *)

(* finite and exhaustive: all 140 members (92 + 19 + 5 + 3 + 4 + 14 + 3) *)
Lemma all_coins_ok_b : forallb (coin_ok the_env) all_coins = true.
Proof. vm_compute. reflexivity. Qed.

Lemma all_coins_ok : forall c, In c all_coins -> coin_ok the_env c = true.
Proof. apply forallb_forall. exact all_coins_ok_b. Qed.

(* members are distinct per family (the lookup by name is unambiguous) *)
Definition member_keys : list (list N) :=
  map (fun c => family_code (c_family c) :: c_member c) all_coins.
Lemma members_distinct : str_nodupb member_keys = true.
Proof. vm_compute. reflexivity. Qed.

Lemma net_versions_distinct : forall c b, In c all_coins -> c_body c = CBip b ->
  length (b_key_pub b) = key_net_ver_len /\ length (b_key_priv b) = key_net_ver_len /\
  b_key_pub b <> b_key_priv b.
Proof.
  intros c b Hc Hb. destruct (coin_ok_bip _ _ _ (all_coins_ok c Hc) Hb) as (_ & _ & A & B & C & _).
  auto.
Qed.

Lemma default_path_shape_b : forallb default_path_shape_ok all_coins = true.
Proof. vm_compute. reflexivity. Qed.

(* unpacked: the path DeriveDefaultPath walks is purpose' / coin' / 0' / tail where the tail has
   at most two levels, all of index 0, either all hardened or exactly (change, address) both
   non-hardened; SLIP-0010 ed25519 coins have an all-hardened path *)
Lemma default_path_shape : forall c b, In c all_coins -> c_body c = CBip b ->
  exists pu rest,
    purpose_of (c_family c) = Some pu /\ is_hardened pu = true /\
    full_default_path (c_family c) b = Ok (pu :: harden (b_coin_idx b) :: harden 0 :: rest) /\
    (length rest <= 2)%nat /\ Forall (fun i => unharden i = 0) rest /\
    (Forall (fun i => is_hardened i = true) rest \/
     (Forall (fun i => is_hardened i = false) rest /\ length rest = 2%nat)) /\
    (hardened_only (b_bip32 b) = true -> Forall (fun i => is_hardened i = true) rest).
Proof.
  intros c b Hc Hb.
  pose proof (proj1 (forallb_forall _ _) default_path_shape_b c Hc) as H.
  destruct (coin_ok_bip _ _ _ (all_coins_ok c Hc) Hb) as (_ & _ & _ & _ & _ & _ & _ & p & Hp & Hh).
  unfold default_path_shape_ok in H. rewrite Hb in H.
  destruct (purpose_of (c_family c)) as [pu|]; [|discriminate].
  rewrite Hp in H.
  destruct p as [|p0 [|p1 [|acct rest]]]; cbv beta iota delta [Ok] in H; try discriminate.
  rewrite !andb_true_iff in H. destruct H as [[[[[[E0 Hpu] E1] E2] L] Z] S].
  apply N.eqb_eq in E0, E1, E2. subst p0 p1 acct.
  exists pu, rest. repeat split; auto.
  - apply N.leb_le in L. lia.
  - apply Forall_forall. rewrite forallb_forall in Z. intros i Hi. apply N.eqb_eq. auto.
  - apply orb_true_iff in S. destruct S as [S|S].
    + left. apply Forall_forall. rewrite forallb_forall in S. exact S.
    + right. apply andb_true_iff in S. destruct S as [S1 S2]. split.
      * apply Forall_forall. rewrite forallb_forall in S1. intros i Hi.
        apply negb_true_iff. auto.
      * apply Nat.eqb_eq. exact S2.
  - intros Hho. specialize (Hh Hho). inversion Hh; subst. inversion H2; subst. inversion H4; subst.
    assumption.
Qed.

(* every default path of the table is spelled canonically: it is the printed form of the indices
   it parses to (so string and index list determine each other, cf. Lemmas/CoinsPath.v) *)
Definition def_path_canonical (c : coin) : bool :=
  match c_body c with
  | CBip b => match parse_path (b_def_path b) with
              | inl (false, p) => list_eqb (show_path false p) (b_def_path b)
              | _ => false
              end
  | _ => true
  end.
Lemma def_paths_canonical : forallb def_path_canonical all_coins = true.
Proof. vm_compute. reflexivity. Qed.

(* ------------------------------------------------------------------ coherence of the tables *)

Definition off_entry (t : list N * list N * pval * pval) : list N := fst (fst (fst t)).
Definition off_key (t : list N * list N * pval * pval) : list N := snd (fst (fst t)).
Definition off_wrong (t : list N * list N * pval * pval) : pval := snd (fst t).
Definition off_right (t : list N * list N * pval * pval) : pval := snd t.
Definition offender_names : list (list N) := map off_entry cconf_offenders.

(* THE GOAL (full strength).  False today because of F19; see [table_coherent_refuted]. *)
Definition table_coherent_stmt : Prop :=
  (forall e, In e coins_conf_table -> cconf_coherent e = true) /\
  (forall c, In c all_coins ->
     coin_coherent coins_conf_table slip44_table testnet_keeps_index c = true).

(* every listed offender exists, has exactly the listed wrong value and violates the rule
   (by vm_compute over the list in Lemmas/CoinsExpected.v) -- this also makes the list tight *)
Definition pval_eqb (x y : pval) : bool :=
  match x, y with
  | PI a, PI b => a =? b
  | PB a, PB b => list_eqb a b
  | PS a, PS b => list_eqb a b
  | _, _ => false
  end.

(* the entry exists, violates the rule, holds the listed wrong value under the listed key, and the
   listed right value would satisfy the rule for that key *)
Definition offender_real (t : list N * list N * pval * pval) : bool :=
  match find_cc (off_entry t) coins_conf_table with
  | Some e =>
      negb (cconf_coherent e) &&
      match assoc (off_key t) (cc_params e) with
      | Some v => pval_eqb v (off_wrong t)
      | None => false
      end &&
      negb (cc_param_ok (off_key t, off_wrong t)) && cc_param_ok (off_key t, off_right t)
  | None => false
  end.

Lemma cconf_offenders_tight : forallb offender_real cconf_offenders = true.
Proof. vm_compute. reflexivity. Qed.

Lemma find_cc_In a t e : find_cc a t = Some e -> In e t /\ cc_attr e = a.
Proof.
  induction t as [|x r IH]; simpl; [discriminate|].
  destruct (list_eqb a (cc_attr x)) eqn:E.
  - intros H. inversion H; subst. apply list_eqb_spec in E. auto.
  - intros H. destruct (IH H). auto.
Qed.

Lemma table_coherent_refuted : cconf_offenders <> [] -> ~ table_coherent_stmt.
Proof.
  intros Hne [H _]. pose proof cconf_offenders_tight as T.
  destruct cconf_offenders as [|t r]; [congruence|].
  simpl in T. apply andb_true_iff in T. destruct T as [T _].
  unfold offender_real in T. destruct (find_cc (off_entry t) coins_conf_table) as [e|] eqn:F; [|discriminate].
  rewrite !andb_true_iff in T. destruct T as [[[T _] _] _]. apply negb_true_iff in T.
  destruct (find_cc_In _ _ _ F) as [I _]. rewrite (H e I) in T. discriminate.
Qed.

(* the concrete witness as a closed statement (names the entry, the key and the value) *)
Lemma table_coherent_witness : forall t, In t cconf_offenders ->
  exists e, In e coins_conf_table /\ cc_attr e = off_entry t /\ cconf_coherent e = false /\
            exists v, assoc (off_key t) (cc_params e) = Some v /\ pval_eqb v (off_wrong t) = true.
Proof.
  intros t Ht. pose proof (proj1 (forallb_forall _ _) cconf_offenders_tight t Ht) as T.
  unfold offender_real in T. destruct (find_cc (off_entry t) coins_conf_table) as [e|] eqn:F; [|discriminate].
  rewrite !andb_true_iff in T. destruct T as [[[T1 T2] _] _]. apply negb_true_iff in T1.
  destruct (find_cc_In _ _ _ F) as [I A]. exists e. repeat split; auto.
  destruct (assoc (off_key t) (cc_params e)) as [v|]; [eauto|discriminate].
Qed.

(* everything except the listed offenders *)
Lemma cconf_partial_b :
  forallb (fun e => cconf_coherent e || str_mem (cc_attr e) offender_names) coins_conf_table = true.
Proof. vm_compute. reflexivity. Qed.
Lemma coins_coherent_b :
  forallb (coin_coherent coins_conf_table slip44_table testnet_keeps_index) all_coins = true.
Proof. vm_compute. reflexivity. Qed.

Lemma str_mem_In x l : str_mem x l = true -> In x l.
Proof. apply str_mem_iff. Qed.

Lemma table_coherent_partial :
  (forall e, In e coins_conf_table -> cconf_coherent e = true \/ In (cc_attr e) offender_names) /\
  (forall c, In c all_coins ->
     coin_coherent coins_conf_table slip44_table testnet_keeps_index c = true).
Proof.
  split.
  - intros e He. pose proof (proj1 (forallb_forall _ _) cconf_partial_b e He) as H.
    apply orb_true_iff in H. destruct H as [H|H]; [left; exact H|right; apply str_mem_In; exact H].
  - apply forallb_forall. exact coins_coherent_b.
Qed.

(* the list of test nets that keep their main-net index is tight as well: each listed member
   exists, is a test net and does not use Slip44.TESTNET *)
Definition keeps_index_real (fm : family * list N) : bool :=
  match find_coin (fst fm) (snd fm) all_coins with
  | Some c => match c_body c with
              | CBip b => b_testnet b && negb (b_coin_idx b =? slip44_testnet)
              | _ => false
              end
  | None => false
  end.
Lemma testnet_keeps_index_tight : forallb keeps_index_real testnet_keeps_index = true.
Proof. vm_compute. reflexivity. Qed.

(* P2WPKH / P2TR: the witness versions are constants of the encoder classes (0 and 1), the same
   for every network, and every coin configured with these encoders passes only an HRP *)
Definition segwit_conf_ok (c : coin) : bool :=
  match c_body c with
  | CBip b => match a_cls (b_addr b) with
              | A_P2WPKH | A_P2TR => match a_params (b_addr b) with APHrp _ => true | _ => false end
              | _ => true
              end
  | _ => true
  end.
Lemma segwit_confs : forallb segwit_conf_ok all_coins = true.
Proof. vm_compute. reflexivity. Qed.

(* ------------------------------------------------------------------ aliases *)

Definition alias_ok (t : family * list N * list N) : bool :=
  match find_coin (fst (fst t)) (snd (fst t)) all_coins, find_coin (fst (fst t)) (snd t) all_coins with
  | Some a, Some b => negb (list_eqb (c_member a) (c_member b))
  | _, _ => false
  end.

(* both members exist, are different members, and denote equal configuration records *)
Lemma aliases_same : forall f a b, In (f, a, b) enum_aliases ->
  exists ca cb, find_coin f a all_coins = Some ca /\ find_coin f b all_coins = Some cb /\
                c_member ca <> c_member cb /\ conf_of ca = conf_of cb.
Proof.
  intros f a b H.
  repeat (destruct H as [H|H];
          [inversion H; subst; clear H; do 2 eexists;
           split; [vm_compute; reflexivity|split; [vm_compute; reflexivity|split;
           [vm_compute; discriminate|vm_compute; reflexivity]]]|]).
  destruct H.
Qed.

(* the alias list is complete with respect to the table: two members of one family with the same
   configuration attribute are listed (in one of the two orders) *)
Definition same_conf_listed (c d : coin) : bool :=
  negb (family_eqb (c_family c) (c_family d) && list_eqb (c_conf_attr c) (c_conf_attr d) &&
        negb (list_eqb (c_member c) (c_member d))) ||
  existsb (fun t => family_eqb (fst (fst t)) (c_family c) &&
                    ((list_eqb (snd (fst t)) (c_member c) && list_eqb (snd t) (c_member d)) ||
                     (list_eqb (snd (fst t)) (c_member d) && list_eqb (snd t) (c_member c))))
          enum_aliases.
Lemma aliases_complete :
  forallb (fun c => forallb (same_conf_listed c) all_coins) all_coins = true.
Proof. vm_compute. reflexivity. Qed.

(* CoinsConf.A = CoinsConf.B compatibility aliases: B is an entry, A is not a second definition *)
Lemma cconf_aliases_ok :
  forallb (fun ab => match find_cc (snd ab) coins_conf_table, find_cc (fst ab) coins_conf_table with
                     | Some _, None => true | _, _ => false end) cconf_aliases = true.
Proof. vm_compute. reflexivity. Qed.

(* <Conf>.A = <Conf>.B compatibility aliases of the configuration containers: B is the attribute
   some member of that family resolves to, A is never used as a resolution target itself (the
   generator resolves an alias to its definition, and checks `A is B` on the live objects) *)
Definition conf_attr_alias_ok (t : family * list N * list N) : bool :=
  existsb (fun c => family_eqb (c_family c) (fst (fst t)) && list_eqb (c_conf_attr c) (snd t)) all_coins &&
  negb (existsb (fun c => family_eqb (c_family c) (fst (fst t)) && list_eqb (c_conf_attr c) (snd (fst t))) all_coins).
Lemma conf_attr_aliases_ok : forallb conf_attr_alias_ok conf_attr_aliases = true.
Proof. vm_compute. reflexivity. Qed.

(* ------------------------------------------------------------------ registry *)

Lemma registry_equal : all_coins = Registry.golden.
Proof. vm_compute. reflexivity. Qed.
(* The snapshot holds the values the external registries prescribe.  The source table is compared
   with it after repairing exactly the listed offenders (entry, key, wrong -> right); with the
   offender list empty this is plain equality. *)
Definition repair_params (a : list N) (ps : list (list N * pval)) : list (list N * pval) :=
  map (fun kv =>
         match find (fun t => list_eqb (off_entry t) a && list_eqb (off_key t) (fst kv) &&
                              pval_eqb (off_wrong t) (snd kv)) cconf_offenders with
         | Some t => (fst kv, off_right t)
         | None => kv
         end) ps.
Definition repair (e : cconf) : cconf :=
  {| cc_attr := cc_attr e; cc_name := cc_name e; cc_abbr := cc_abbr e;
     cc_params := repair_params (cc_attr e) (cc_params e) |}.

Lemma registry_coins_conf_equal : map repair coins_conf_table = Registry.golden_coins_conf.
Proof. vm_compute. reflexivity. Qed.

(* and the repaired table is coherent throughout: the listed repairs are sufficient *)
Lemma repaired_table_coherent : forallb cconf_coherent (map repair coins_conf_table) = true.
Proof. vm_compute. reflexivity. Qed.
Lemma registry_slip44_equal : slip44_table = Registry.golden_slip44.
Proof. vm_compute. reflexivity. Qed.

(* ------------------------------------------------------------------ non-vacuity *)

Import String.   (* string literals for [str]; kept down here because String.length shadows List.length *)

(* a non-trivial instance of the premises used above: Bitcoin (BIP-84) *)
Example bitcoin84_default_path :
  exists c b, find_coin FBip84 (str "BITCOIN"%string) all_coins = Some c /\ c_body c = CBip b /\
    coin_ok the_env c = true /\ addr_conf_ok the_env (b_curve b) (b_addr b) = true /\
    full_default_path FBip84 b = Ok [purpose_bip84; harden 0; harden 0; 0; 0] /\
    b_key_pub b = [4; 178; 71; 70] /\ b_wif b = Some [128] /\
    a_params (b_addr b) = APHrp (str "bc"%string).
Proof. do 2 eexists. repeat split; vm_compute; reflexivity. Qed.

Example side_conditions_examples :
  hrp_ok (str "bc"%string) = true /\ hrp_ok (str "Bc"%string) = false /\ hrp_ok [] = false /\
  ss58_ok 42 = true /\ ss58_ok 46 = false /\ ss58_ok 16384 = false /\
  In (FBip44, str "ELROND"%string, str "MULTIVERSX"%string) enum_aliases /\
  In (FBip44, str "NEO"%string, str "NEO_LEGACY"%string) enum_aliases.
Proof. repeat split; vm_compute; auto. Qed.

Example parse_path_example :
  parse_path (str "m/44'/0h/1p/2/3"%string) = Ok (true, [harden 44; harden 0; harden 1; 2; 3]) /\
  parse_path (str "0'/0/0"%string) = Ok (false, [harden 0; 0; 0]) /\
  parse_path (str "0'/x"%string) = Err (LibError Bip32PathError) /\
  parse_path (str "2147483648"%string) = Err (LibError Bip32PathError).
Proof. repeat split; vm_compute; reflexivity. Qed.

(* The CashAddr distance certificate (40-bit polymod), evaluated by the kernel on the generator words
   regenerated from the source (Gen/Bech32Consts.v: cash_gen), for windows of 160 symbols
   (about 0.8 million look-ups after normalising by symbol scaling, about 20 s in the VM).  Kept in its own file: it is the expensive step. *)
From Coq Require Import NArith List.
From BU Require Import Gen.Bech32Consts Model.Bech32 Lemmas.Bech32ConstsOk Lemmas.Bech32Detect.
Open Scope N_scope.

Definition cash_window : nat := 160.

(* CashAddr uses the same symbol field as Bech32 *)
Definition cash_mul : N -> N -> N := gf_mul 41 5.

Lemma cash_certificate : certificate cash_gen cash_pm_shift cash_pm_symbits cash_mul cash_window = true.
Proof. vm_cast_no_check (eq_refl true). Qed.

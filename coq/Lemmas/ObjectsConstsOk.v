(* Facts about Gen/Bip44Params.v (regenerated from /repo on every run), re-proved by the kernel.
   The level numbers, constructor bounds and hardening rules below are the ones the property
   (BIP-44: m / purpose' / coin_type' / account' / change / address_index; public-only objects
   from account level to address level) prescribes: a source edit that changes a guard, a bound,
   a rule, a purpose or a coin row so that one of them stops holding breaks every C07 theorem. *)
From Coq Require Import NArith ZArith List Bool Lia.
From BU Require Import Base.Exn Gen.Bip44Params Model.Bip44.
Import ListNotations.
Open Scope N_scope.

Lemma guards_ok :
  guard_purpose = 0 /\ guard_coin = 1 /\ guard_account = 2 /\ guard_change = 3 /\ guard_addr = 4.
Proof. vm_compute. repeat split. Qed.

Lemma levels_ok :
  lvl_master = 0 /\ lvl_purpose = 1 /\ lvl_coin = 2 /\ lvl_account = 3 /\ lvl_change = 4 /\
  lvl_address_index = 5 /\ bip44_levels = [0; 1; 2; 3; 4; 5].
Proof. vm_compute. repeat split. Qed.

(* purpose as given (it is already a hardened constant, see coins_wf), coin and account always
   hardened, change and address index hardened iff the curve lacks public derivation *)
Lemma rules_ok :
  harden_rule_purpose = 0 /\ harden_rule_coin = 2 /\ harden_rule_account = 2 /\
  harden_rule_change = 1 /\ harden_rule_addr = 1.
Proof. vm_compute. repeat split. Qed.

Lemma init_bounds_ok : init_pub_min = 3 /\ init_pub_max = 5 /\ init_priv_max = 5.
Proof. vm_compute. repeat split. Qed.

Lemma key_index_ok : key_index_max = 4294967295 /\ key_index_hardened_bit = 31 /\ depth_byte_len = 1.
Proof. vm_compute. repeat split. Qed.

Lemma hbitN_val : hbitN = 2 ^ 31.
Proof. vm_compute. reflexivity. Qed.

Lemma change_values_ok : change_values <> [] /\ forallb (fun ch => ch <? hbitN) change_values = true.
Proof. split. - vm_compute. discriminate. - vm_compute. reflexivity. Qed.

Lemma default_key_data_ok :
  from_private_default_depth = 0 /\ from_private_default_index = 0 /\
  from_public_default_depth = 3 /\ from_public_default_index = 0.
Proof. vm_compute. repeat split. Qed.

(* every enum member of the five hierarchies resolved to a coin (its hierarchy has a purpose) *)
Lemma all_coins_complete : length all_coins = length coin_rows.
Proof. vm_compute. reflexivity. Qed.

(* every coin: relative default path made of admissible account/change/index elements, at most
   three of them; hardened purpose; coin index below 2^31; indices in range *)
Lemma coins_wf : forallb coin_wf all_coins = true.
Proof. vm_compute. reflexivity. Qed.

(* every coin's default path has an equivalent sequence of Account/Change/AddressIndex calls *)
Lemma coins_manual :
  forallb (fun c => match manual_ops c 2 (c_defpath c) with Some _ => true | None => false end) all_coins = true.
Proof. vm_compute. reflexivity. Qed.

Lemma purposes_ok :
  purposes = [(0, hardenN 44); (1, hardenN 49); (2, hardenN 84); (3, hardenN 86); (4, hardenN 1852)].
Proof. vm_compute. reflexivity. Qed.

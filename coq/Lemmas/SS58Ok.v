(* SS58 on the constants regenerated from /repo: the two exhaustive sweeps over the format prefix packing
   (all 16384 formats; all 256 / 65536 one- and two-byte prefixes) and the instantiated theorems. *)
From Coq Require Import NArith ZArith Arith List Lia Bool.
From BU Require Import Base.Exn Base.Radix Base.Bytes Gen.Consts Gen.CodecConsts Model.SS58 Model.Codecs.
From BU Require Lemmas.ConstsOk Lemmas.SS58.
Import ListNotations.
Open Scope N_scope.

(* [n-1; ...; 0] *)
Definition nrange (n : N) : list N := N.peano_rect (fun _ => list N) [] (fun k acc => k :: acc) n.

Lemma nrange_spec n : forall k, k < n -> In k (nrange n).
Proof.
  induction n as [|n IH] using N.peano_ind; intros k Hk; [lia|].
  unfold nrange. rewrite N.peano_rect_succ. fold (nrange n).
  destruct (N.eq_dec k n) as [->|]; [left; reflexivity|right; apply IH; lia].
Qed.

Lemma forallb_nrange (f : N -> bool) n : forallb f (nrange n) = true -> forall k, k < n -> f k = true.
Proof. intros H k Hk. rewrite forallb_forall in H. apply H, nrange_spec, Hk. Qed.

Definition res_eqb (r : res (list N)) (l : list N) : bool :=
  match r with inl x => list_eqb x l | inr _ => false end.
Lemma res_eqb_spec r l : res_eqb r l = true -> r = Ok l.
Proof. destruct r; simpl; [|discriminate]. intros H. apply list_eqb_spec in H. subst. reflexivity. Qed.

(* ---- forward sweep: every format 0..FORMAT_MAX_VAL ---- *)
Definition fwd_check (f : N) : bool :=
  match ss58_format_bytes f with
  | inl fb => bytes_okb fb &&
              match ss58_parse_header fb with
              | inl (f', n) => (f' =? f) && (n =? length fb)%nat
              | inr _ => false
              end
  | inr _ => false
  end.

Lemma fwd_sweep : forallb fwd_check (nrange (ss58_format_max + 1)) = true.
Proof. vm_compute. reflexivity. Qed.

Lemma ss58_fwd : forall f, f <= ss58_format_max ->
  exists fb, ss58_format_bytes f = Ok fb /\ bytes_ok fb /\ ss58_parse_header fb = Ok (f, length fb).
Proof.
  intros f Hf. pose proof (forallb_nrange _ _ fwd_sweep f ltac:(lia)) as C. unfold fwd_check in C.
  destruct (ss58_format_bytes f) as [fb|]; [|discriminate]. exists fb.
  apply andb_true_iff in C. destruct C as [C1 C2]. apply bytes_okb_spec in C1.
  destruct (ss58_parse_header fb) as [[f' n]|]; [|discriminate].
  apply andb_true_iff in C2. destruct C2 as [C2 C3]. apply N.eqb_eq in C2. apply Nat.eqb_eq in C3. subst.
  auto.
Qed.

(* ---- backward sweep: every prefix the decoder can read ---- *)
Definition bwd_check (pre : list N) : bool :=
  match ss58_parse_header pre with
  | inl (f, n) => (f <=? ss58_format_max) && (n <=? length pre)%nat && res_eqb (ss58_format_bytes f) (firstn n pre)
  | inr _ => true
  end.

Lemma bwd_sweep1 : forallb (fun b0 => bwd_check [b0]) (nrange 256) = true.
Proof. vm_compute. reflexivity. Qed.
Lemma bwd_sweep2 : forallb (fun b0 => forallb (fun b1 => bwd_check [b0; b1]) (nrange 256)) (nrange 256) = true.
Proof. vm_compute. reflexivity. Qed.

Lemma parse_header_two b0 b1 r : ss58_parse_header (b0 :: b1 :: r) = ss58_parse_header [b0; b1].
Proof. reflexivity. Qed.

Lemma ss58_bwd : forall dec f flen, bytes_ok dec -> ss58_parse_header dec = Ok (f, flen) ->
  f <= ss58_format_max /\ (flen <= length dec)%nat /\ ss58_format_bytes f = Ok (firstn flen dec).
Proof.
  intros dec f flen Hb P.
  assert (G : forall pre, bwd_check pre = true -> ss58_parse_header pre = Ok (f, flen) ->
              f <= ss58_format_max /\ (flen <= length pre)%nat /\ ss58_format_bytes f = Ok (firstn flen pre)).
  { intros pre C Q. unfold bwd_check in C. rewrite Q in C. unfold Ok in C.
    apply andb_true_iff in C. destruct C as [C C3]. apply andb_true_iff in C. destruct C as [C1 C2].
    apply N.leb_le in C1. apply Nat.leb_le in C2. apply res_eqb_spec in C3. auto. }
  destruct dec as [|b0 [|b1 r]]; [discriminate| |].
  - assert (H0 : b0 < 256) by (inversion Hb; auto).
    apply G; [|exact P]. exact (forallb_nrange _ _ bwd_sweep1 b0 H0).
  - assert (H0 : b0 < 256) by (inversion Hb; auto).
    assert (H1 : b1 < 256) by (inversion Hb as [|? ? ? Ht]; inversion Ht; auto).
    rewrite parse_header_two in P.
    pose proof (forallb_nrange _ _ bwd_sweep2 b0 H0) as C. cbv beta in C.
    pose proof (forallb_nrange _ _ C b1 H1) as C'. cbv beta in C'.
    destruct (G [b0; b1] C' P) as (A1 & A2 & A3). split; [exact A1|]. split; [simpl in *; lia|].
    rewrite A3. unfold Ok. f_equal. destruct flen as [|[|[|n]]]; try reflexivity. simpl in A2. lia.
Qed.

Lemma ss58_cklen_le : (ss58_cklen <= 64)%nat. Proof. vm_compute. lia. Qed.
Lemma ss58_data_len_pos : (0 < ss58_data_len)%nat. Proof. vm_compute. lia. Qed.

(* the bound of the sweeps, stated: formats are 0..16383, the reserved ones are 46 and 47 *)
Lemma ss58_bounds : ss58_format_max = 16383 /\ ss58_simple_max = 63 /\ ss58_reserved = [46; 47] /\
                    ss58_data_len = 32%nat /\ ss58_cklen = 2%nat.
Proof. repeat split; reflexivity. Qed.

Section Inst.
  Variable blake2b512 : list N -> list N.
  Hypothesis hash_len : forall x, length (blake2b512 x) = 64%nat.
  Hypothesis hash_ok : forall x, bytes_ok (blake2b512 x).

  Ltac inst L := apply L; eauto using ConstsOk.b58_alph_btc_nodup, ConstsOk.b58_alph_btc_len,
    ConstsOk.b58_radix_ge2, ss58_cklen_le, ss58_data_len_pos, ss58_fwd, ss58_bwd.

  Theorem ss58_roundtrip : forall data fmt, bytes_ok data -> length data = ss58_data_len ->
    (0 <= fmt <= Z.of_N ss58_format_max)%Z -> ~ In (Z.to_N fmt) ss58_reserved ->
    exists s, ss58_encode blake2b512 data fmt = Ok s /\ ss58_decode blake2b512 s = Ok (Z.to_N fmt, data).
  Proof. unfold ss58_encode, ss58_decode. inst Lemmas.SS58.decode_encode. Qed.

  Theorem ss58_encode_decode : forall s f data, ss58_decode blake2b512 s = Ok (f, data) ->
    ss58_encode blake2b512 data (Z.of_N f) = Ok s /\ bytes_ok data /\ length data = ss58_data_len /\
    f <= ss58_format_max /\ ~ In f ss58_reserved.
  Proof. unfold ss58_encode, ss58_decode. inst Lemmas.SS58.encode_decode. Qed.

  Theorem ss58_accepts_iff : forall s f data,
    ss58_decode blake2b512 s = Ok (f, data) <->
    (ss58_encode blake2b512 data (Z.of_N f) = Ok s /\ bytes_ok data).
  Proof. unfold ss58_encode, ss58_decode. inst Lemmas.SS58.decode_accepts_iff. Qed.

  Theorem ss58_decode_err : forall s e, ss58_decode blake2b512 s = Err e ->
    e = ValueError \/ e = LibError SS58ChecksumError.
  Proof. unfold ss58_decode. intros s e. apply Lemmas.SS58.decode_err. Qed.
End Inst.

(* the former defect F3, as rejected inputs of the decoder's header parser: empty body, one-byte body with the
   two-byte flag, reserved first byte >= 0x80, two-byte encoding of a one-byte format (5) *)
Lemma ss58_f3_rejected :
  ss58_parse_header [] = Err ValueError /\ ss58_parse_header [64] = Err ValueError /\
  ss58_parse_header [128; 0] = Err ValueError /\ ss58_parse_header [65; 64] = Err ValueError.
Proof. repeat split; reflexivity. Qed.

(* LINK: the two transcriptions of SubstrateScaleCUintEncoder.Encode -- Model/SubstrateScale.v [cuint_encode] (the C19
   chain-code model: mode table from Gen/PathConsts.v, N arithmetic) and Model/Scale.v [compact_encode] (the C11 codec:
   thresholds from Gen/CodecConsts.v, Z arithmetic through IntegerUtils.ToBytes) -- are one function on every
   non-negative integer, including the big-integer mode that C19's own [cuint_encode_spec] leaves out.  C11's
   decode-after-encode and unique-decodability theorems therefore hold of the prefix the chain-code model emits;
   likewise for the bytes/str encoder (SCALE compact length || UTF-8 text). *)
From Coq Require Import NArith ZArith Arith List Bool Lia.
From BU Require Import Base.Exn Base.Radix Base.Bytes Gen.PathConsts Gen.CodecConsts.
From BU Require Import Model.IntBytes Model.Scale Model.Codecs Model.SubstrateScale.
From BU Require Lemmas.IntBytes Lemmas.Scale Lemmas.ScaleOk Lemmas.SubstrateScale Lemmas.ChunkMnemonic.
Import ListNotations.
Open Scope N_scope.

Lemma scale_consts_agree :
  scale_single_byte_max = scale_single_max /\ scale_two_byte_max = scale_two_max /\
  scale_four_byte_max = scale_four_max /\ scale_big_int_max = scale_big_max /\
  scale_cuint_modes = [(2, 0, 1%nat); (2, 1, 2%nat); (2, 2, 4%nat)] /\
  scale_cuint_big_shift = 2 /\ scale_cuint_big_flag = 3.
Proof. repeat split; vm_compute; reflexivity. Qed.

Lemma to_bytes_N x n : n <> 0 -> to_bytes (Z.of_N x) n false = int_to_le_fixed (N.to_nat n) x.
Proof.
  intros Hn. unfold to_bytes. destruct (N.eqb_spec n 0); [contradiction|].
  destruct (Z.ltb_spec (Z.of_N x) 0); [lia|]. rewrite N2Z.id. reflexivity.
Qed.

(* IntegerUtils.GetBytesNumber: the two transcriptions agree *)
Lemma bytes_number_gbn v : N.to_nat (bytes_number (Z.of_N v)) = get_bytes_number v.
Proof.
  destruct (Lemmas.IntBytes.bytes_number_spec v) as (W1 & W2 & W3). set (w := bytes_number (Z.of_N v)) in *.
  pose proof (Lemmas.ChunkMnemonic.gbn_pos v) as G1. set (g := get_bytes_number v) in *.
  assert (A : (g <= N.to_nat w)%nat).
  { apply (Lemmas.ChunkMnemonic.gbn_le (N.to_nat w) v); [lia|]. rewrite N2Nat.id. exact W2. }
  assert (B : v < 256 ^ N.of_nat g) by (apply (Lemmas.ChunkMnemonic.gbn_le g v); [lia|reflexivity]).
  destruct (N.eq_dec w 1) as [E|E]; [lia|].
  assert (C : 256 ^ (w - 1) <= v) by (apply W3; lia).
  destruct (Nat.le_gt_cases (N.to_nat w) g) as [|Hlt]; [lia|].
  assert (D : 256 ^ N.of_nat g <= 256 ^ (w - 1)) by (apply N.pow_le_mono_r; lia). lia.
Qed.

Lemma to_bytes_auto_N v : to_bytes (Z.of_N v) 0 false = Ok (int_to_le_auto v).
Proof.
  unfold to_bytes. cbn [N.eqb]. destruct (Z.ltb_spec (Z.of_N v) 0); [lia|]. rewrite N2Z.id, bytes_number_gbn.
  unfold int_to_le_auto. destruct (Lemmas.ChunkMnemonic.int_to_le_fixed_gbn v) as (b & E). rewrite E. reflexivity.
Qed.

Lemma int_to_le_auto_length v : length (int_to_le_auto v) = get_bytes_number v.
Proof.
  unfold int_to_le_auto. destruct (Lemmas.ChunkMnemonic.int_to_le_fixed_gbn v) as (b & E). rewrite E.
  apply (int_to_le_fixed_ok _ _ _ E).
Qed.

Theorem cuint_encode_eq v : cuint_encode v = scale_compact_encode (Z.of_N v).
Proof.
  unfold cuint_encode, scale_compact_encode, Scale.compact_encode, Scale.compact_encode_N.
  destruct scale_consts_agree as (-> & -> & -> & -> & -> & -> & ->).
  destruct (Z.ltb_spec (Z.of_N v) 0); [lia|]. rewrite N2Z.id. unfold cuint_fixed.
  destruct (v <=? scale_single_max); [rewrite N.lor_0_r, to_bytes_N by discriminate; reflexivity|].
  destruct (v <=? scale_two_max); [rewrite to_bytes_N by discriminate; reflexivity|].
  destruct (N.leb_spec v scale_four_max) as [|H4]; [rewrite to_bytes_N by discriminate; reflexivity|].
  destruct (v <=? scale_big_max); [|reflexivity].
  rewrite to_bytes_auto_N. cbn [bind Ok]. rewrite int_to_le_auto_length.
  set (g := get_bytes_number v).
  assert (G : (4 <= g)%nat).
  { destruct (Nat.le_gt_cases g 3) as [L|L]; [|lia].
    apply (Lemmas.ChunkMnemonic.gbn_le 3 v) in L; [|lia]. rewrite Lemmas.ScaleOk.scale_four_def in H4.
    change (256 ^ N.of_nat 3) with 16777216 in L. change (2 ^ 30 - 1) with 1073741823 in H4. lia. }
  rewrite (Lemmas.Scale.z_tag (Z.of_nat g - 4)) by lia.
  rewrite (Lemmas.SubstrateScale.shift2_flag (N.of_nat g - 4) 3) by lia.
  replace (4 * (Z.of_nat g - 4) + 3)%Z with (Z.of_N (4 * (N.of_nat g - 4) + 3)) by lia.
  rewrite to_bytes_N by discriminate. reflexivity.
Qed.

(* the bytes encoder on text: compact length || UTF-8 *)
Theorem bytes_encode_str_eq s u : utf8_encode s = Ok u -> bytes_encode_str s = scale_bytes_encode u.
Proof.
  intros U. unfold bytes_encode_str, scale_bytes_encode, Scale.bytes_encode. rewrite U. cbn [bind Ok].
  rewrite cuint_encode_eq, nat_N_Z. reflexivity.
Qed.

(* ---- transported from C11 *)
Theorem cuint_dec_enc v rest : v <= scale_big_max ->
  exists b, cuint_encode v = Ok b /\ compact_decode (b ++ rest) = Ok (v, rest) /\ bytes_ok b.
Proof. rewrite cuint_encode_eq. apply Lemmas.ScaleOk.scale_compact_dec_enc. Qed.

Theorem cuint_inj v1 v2 b1 b2 r1 r2 : v1 <= scale_big_max -> v2 <= scale_big_max ->
  cuint_encode v1 = Ok b1 -> cuint_encode v2 = Ok b2 -> b1 ++ r1 = b2 ++ r2 -> v1 = v2 /\ r1 = r2.
Proof. rewrite !cuint_encode_eq. apply Lemmas.ScaleOk.scale_compact_inj. Qed.

Theorem cuint_range v : scale_big_max < v -> cuint_encode v = Err ValueError.
Proof. intros H. rewrite cuint_encode_eq. apply Lemmas.ScaleOk.scale_compact_range. lia. Qed.

(* the text of a junction is recoverable from its SCALE encoding: the bytes encoder is injective on strings *)
Theorem bytes_encode_str_inj s1 s2 b : bytes_encode_str s1 = Ok b -> bytes_encode_str s2 = Ok b -> s1 = s2.
Proof.
  unfold bytes_encode_str.
  destruct (utf8_encode s1) as [u1|] eqn:U1; cbn [bind Ok]; [|discriminate].
  destruct (utf8_encode s2) as [u2|] eqn:U2; cbn [bind Ok]; [|discriminate].
  destruct (cuint_encode (N.of_nat (length u1))) as [p1|] eqn:P1; cbn [bind Ok]; [|discriminate].
  destruct (cuint_encode (N.of_nat (length u2))) as [p2|] eqn:P2; cbn [bind Ok]; [|discriminate].
  intros E1 E2. assert (E : p1 ++ u1 = p2 ++ u2) by (unfold Ok in *; congruence).
  assert (B1 : N.of_nat (length u1) <= scale_big_max).
  { destruct (N.le_gt_cases (N.of_nat (length u1)) scale_big_max); [assumption|]. rewrite cuint_range in P1 by assumption. discriminate. }
  assert (B2 : N.of_nat (length u2) <= scale_big_max).
  { destruct (N.le_gt_cases (N.of_nat (length u2)) scale_big_max); [assumption|]. rewrite cuint_range in P2 by assumption. discriminate. }
  destruct (cuint_inj _ _ _ _ _ _ B1 B2 P1 P2 E) as [_ Eu]. subst u2.
  apply (Lemmas.SubstrateScale.utf8_encode_inj s1 s2 u1 U1 U2).
Qed.

(* C14, Monero area: the address decoders of Model/AddrXmr.v, the key containers and the wallet constructors of
   Model/Monero.v never leave the documented exception family -- for every input and ARBITRARY oracles (Keccak, the
   group operations, point decoding): no hypothesis at all.
   The error sites that are not syntactically in the family and are shown unreachable:
     * XmrB58.dec_blocks's OutOfFuel (the fuel is the input length + 1 and every round consumes enc_max > 0 symbols);
     * EdLib.mul_base_bytes's TypeError (a scalar that is not 32 bytes long): the scalars handed to it come out of
       MoneroPrivateKey.FromBytes, which only lets 32-byte strings through. *)
From Coq Require Import NArith ZArith Arith List Lia Bool.
From BU Require Import Base.Exn Base.Radix Base.Bytes Gen.ConstsCardmon.
From BU Require Import Model.EdLib Model.XmrB58 Model.AddrXmr Model.Monero.
From BU Require Import Lemmas.NoEscape Lemmas.CardmonConstsOk Lemmas.EdLib.
From BU Require Lemmas.XmrB58 Lemmas.Base58.
Import ListNotations.
Open Scope N_scope.

(* ------------------------------------------------------------------ Monero block Base58 (Model/XmrB58.v) *)
Section B58.
  Variable alph : list N.
  Variable radix : N.
  Variable dec_max enc_max : nat.
  Variable enc_lens : list nat.
  Hypothesis enc_max_pos : (0 < enc_max)%nat.

  Lemma unpad_family d u : in_family (XmrB58.unpad d u) = true.
  Proof. unfold XmrB58.unpad. destruct (_ <=? _)%nat; reflexivity. Qed.

  Lemma b58dec_family s : in_family (XmrB58.b58dec alph radix s) = true.
  Proof. apply family_of_errs. intros e E. rewrite (Lemmas.Base58.decode_err alph radix s e E). reflexivity. Qed.

  Lemma dec_blocks_family fuel : forall ld s, (length s < fuel)%nat ->
    in_family (XmrB58.dec_blocks alph radix dec_max enc_max fuel ld s) = true.
  Proof.
    induction fuel as [|f IH]; intros ld s H; [lia|]. cbn [XmrB58.dec_blocks].
    destruct (Nat.ltb_spec (length s) enc_max) as [Hs|Hs].
    - destruct s as [|c s]; [reflexivity|].
      apply fam_bind; [apply b58dec_family|]. intros d _. apply unpad_family.
    - apply fam_bind; [apply b58dec_family|]. intros d _.
      apply fam_bind; [apply unpad_family|]. intros blk _.
      apply fam_bind; [|reflexivity].
      apply IH. rewrite skipn_length. lia.
  Qed.

  Lemma xmrb58_decode_family s : in_family (XmrB58.decode alph radix dec_max enc_max enc_lens s) = true.
  Proof.
    unfold XmrB58.decode. apply fam_bind; [apply fam_of_option; reflexivity|]. intros ld _.
    apply dec_blocks_family. lia.
  Qed.
End B58.

Lemma b58x_decode_family s : in_family (AddrXmr.b58x_decode s) = true.
Proof. unfold AddrXmr.b58x_decode. apply xmrb58_decode_family. exact xb58_enc_max_pos. Qed.

(* ------------------------------------------------------------------ XmrAddrDecoder / XmrIntegratedAddrDecoder *)
Lemma xmr_decode_addr_family (keccak : list N -> list N) (G : Type) (pdec : list N -> option G) addr net payid :
  in_family (AddrXmr.decode_addr keccak G pdec addr net payid) = true.
Proof.
  unfold AddrXmr.decode_addr.
  apply fam_bind; [apply b58x_decode_family|]. intros dec _.
  destruct (list_eqb _ _); [|reflexivity].
  destruct (list_eqb _ _); [|reflexivity].
  apply fam_bind.
  - destruct payid as [p|].
    + destruct (_ =? _)%nat; [|reflexivity].
      destruct (_ =? _)%nat; [|reflexivity].
      destruct (list_eqb _ _); reflexivity.
    + destruct (_ =? _)%nat; reflexivity.
  - intros _ _. destruct (pub_is_valid _ _ _); [|reflexivity]. destruct (pub_is_valid _ _ _); reflexivity.
Qed.

(* ------------------------------------------------------------------ key containers *)
Lemma monero_key_err_family {A} (r : res A) : in_family r = true -> in_family (Monero.key_err r) = true.
Proof. destruct r as [a|e]; [reflexivity|]. destruct e; simpl; intros H; try discriminate; reflexivity. Qed.

Lemma ed_monero_priv_family b : in_family (EdLib.monero_priv_from_bytes b) = true.
Proof. unfold monero_priv_from_bytes. destruct (scalar_is_valid b); [|reflexivity]. destruct (_ =? _)%nat; reflexivity. Qed.

Lemma ed_pub_from_bytes_family (G : Type) (pdec : list N -> option G) b : in_family (EdLib.pub_from_bytes G pdec b) = true.
Proof. unfold EdLib.pub_from_bytes. fam. Qed.

(* MoneroPrivateKey.FromBytes / MoneroPublicKey.FromBytes *)
Lemma monero_priv_from_bytes_family b : in_family (Monero.priv_from_bytes b) = true.
Proof. apply monero_key_err_family, ed_monero_priv_family. Qed.
Lemma monero_pub_from_bytes_family (G : Type) (pdec : list N -> option G) b : in_family (Monero.pub_from_bytes G pdec b) = true.
Proof. apply monero_key_err_family, ed_pub_from_bytes_family. Qed.

Lemma monero_priv_from_bytes_len b k : Monero.priv_from_bytes b = Ok k -> length k = ed_coord_len.
Proof.
  unfold Monero.priv_from_bytes, monero_priv_from_bytes. destruct (scalar_is_valid b); [|discriminate].
  destruct (Nat.eqb_spec (length b) ed_priv_len) as [L|]; [|discriminate].
  cbn. intros H; inversion H; subst. rewrite L, ed_priv_len_32, ed_coord_len_32. reflexivity.
Qed.

Section Wallet.
  Variable keccak : list N -> list N.
  Variable G : Type.
  Variable gmul : N -> G -> G.
  Variable gbase : G.
  Variable g_is_zero : G -> bool.
  Variable penc : G -> list N.
  Variable pdec : list N -> option G.

  (* MoneroPrivateKey.PublicKey() of a 32-byte scalar: libsodium's refusal is a ValueError, the TypeError is unreachable *)
  Lemma priv_public_family k : length k = ed_coord_len ->
    in_family (Monero.priv_public G gmul gbase g_is_zero penc k) = true.
  Proof.
    intros L. unfold Monero.priv_public, mul_base_bytes. rewrite L, Nat.eqb_refl.
    unfold mul_base_n. destruct (_ || _); reflexivity.
  Qed.

  (* Monero.FromPrivateSpendKey *)
  Lemma from_priv_spend_family b net :
    in_family (Monero.from_priv_spend keccak G gmul gbase g_is_zero penc b net) = true.
  Proof.
    unfold Monero.from_priv_spend.
    apply fam_bind; [apply monero_priv_from_bytes_family|]. intros sk Hsk.
    apply fam_bind; [apply monero_priv_from_bytes_family|]. intros vk Hvk.
    apply fam_bind; [apply priv_public_family; exact (monero_priv_from_bytes_len _ _ Hsk)|]. intros ps _.
    apply fam_bind; [apply priv_public_family; exact (monero_priv_from_bytes_len _ _ Hvk)|]. intros pv _.
    reflexivity.
  Qed.

  (* Monero.FromSeed / Monero.FromBip44PrivateKey(bytes) *)
  Lemma from_seed_family seed net : in_family (Monero.from_seed keccak G gmul gbase g_is_zero penc seed net) = true.
  Proof. apply from_priv_spend_family. Qed.
  Lemma from_bip44_priv_family k net : in_family (Monero.from_bip44_priv keccak G gmul gbase g_is_zero penc k net) = true.
  Proof. apply from_priv_spend_family. Qed.

  (* Monero.FromWatchOnly *)
  Lemma from_watch_only_family vb pb net :
    in_family (Monero.from_watch_only G gmul gbase g_is_zero penc pdec vb pb net) = true.
  Proof.
    unfold Monero.from_watch_only.
    apply fam_bind; [apply monero_priv_from_bytes_family|]. intros vk Hvk.
    apply fam_bind; [apply monero_pub_from_bytes_family|]. intros ps _.
    apply fam_bind; [apply priv_public_family; exact (monero_priv_from_bytes_len _ _ Hvk)|]. intros pv _.
    reflexivity.
  Qed.
End Wallet.

(* Facts about the Unicode / int() tables measured on the running interpreter (Gen/Unicode.v).
   Each is decided by vm_compute over the RANGE tables (a few hundred entries), never over the
   1.1 M individual code points, and lifted to all code points by the soundness lemmas of
   Lemmas/PyText.v.  Re-proved on every run: a different interpreter / Unicode version that
   breaks one of them breaks every theorem that depends on it. *)
From Coq Require Import NArith ZArith List Bool Lia.
From BU Require Import Base.Exn Base.Radix Base.Bytes Gen.Unicode Model.PyText Lemmas.PyText.
Import ListNotations.
Open Scope N_scope.

(* ---- computed table facts ---- *)

Lemma strip_is_isspace : uc_strip_ranges = uc_isspace_ranges.
Proof. vm_compute. reflexivity. Qed.
Lemma split_is_isspace : uc_split_ranges = uc_isspace_ranges.
Proof. vm_compute. reflexivity. Qed.

Lemma decimal_sub_numeric_t : ranges_subset uc_isdecimal_ranges uc_isnumeric_ranges = true.
Proof. vm_compute. reflexivity. Qed.
Lemma decimal_sub_digit_t : ranges_subset uc_isdecimal_ranges uc_isdigit_ranges = true.
Proof. vm_compute. reflexivity. Qed.
Lemma digit_sub_numeric_t : ranges_subset uc_isdigit_ranges uc_isnumeric_ranges = true.
Proof. vm_compute. reflexivity. Qed.
Lemma int_space_sub_space_t : ranges_subset uc_int_space_ranges uc_isspace_ranges = true.
Proof. vm_compute. reflexivity. Qed.
Lemma numeric_disj_space_t : ranges_disjoint uc_isnumeric_ranges uc_isspace_ranges = true.
Proof. vm_compute. reflexivity. Qed.
Lemma runs_sub_decimal_t : ranges_subset (runs_ranges uc_decimal_runs) uc_isdecimal_ranges = true.
Proof. vm_compute. reflexivity. Qed.
Lemma decimal_sub_runs_t : ranges_subset uc_isdecimal_ranges (runs_ranges uc_decimal_runs) = true.
Proof. vm_compute. reflexivity. Qed.
Lemma runs_small_t : runs_small uc_decimal_runs = true.
Proof. vm_compute. reflexivity. Qed.
Lemma tables_below_t :
  forallb (ranges_below uc_code_space)
    [uc_isnumeric_ranges; uc_isdecimal_ranges; uc_isdigit_ranges; uc_isspace_ranges; uc_int_space_ranges] = true.
Proof. vm_compute. reflexivity. Qed.

(* ASCII: '0'..'9' have the values 0..9; the characters the parsers treat specially are in no numeric class *)
Lemma ascii_digit_vals_t :
  forallb (fun d => match cp_digit_val (ascii_zero + d) with Some d' => d' =? d | None => false end)
          [0; 1; 2; 3; 4; 5; 6; 7; 8; 9] = true.
Proof. vm_compute. reflexivity. Qed.
(* + - _ ' h p m / *)
Lemma special_not_numeric_t :
  forallb (fun c => negb (cp_isnumeric c) && negb (cp_isspace c)) [43; 45; 95; 39; 104; 112; 109; 47] = true.
Proof. vm_compute. reflexivity. Qed.
Lemma int_limit_small_t : int_limit_ok 10 = true.
Proof. vm_compute. reflexivity. Qed.
(* U+00B2 SUPERSCRIPT TWO: numeric (and a "digit") but not decimal *)
Lemma sup2_t : cp_isnumeric 178 = true /\ cp_isdigit 178 = true /\ cp_isdecimal 178 = false.
Proof. vm_compute. auto. Qed.
(* U+00BD VULGAR FRACTION ONE HALF, U+4E00 CJK "one": numeric only *)
Lemma half_cjk_t : cp_isnumeric 189 = true /\ cp_isdigit 189 = false /\ cp_isnumeric 19968 = true /\ cp_isdecimal 19968 = false.
Proof. vm_compute. auto. Qed.

(* ---- lifted to every code point ---- *)

Lemma cp_strip_ws_eq c : cp_strip_ws c = cp_isspace c.
Proof. unfold cp_strip_ws, cp_isspace. rewrite strip_is_isspace. reflexivity. Qed.
Lemma cp_split_ws_eq c : cp_split_ws c = cp_isspace c.
Proof. unfold cp_split_ws, cp_isspace. rewrite split_is_isspace. reflexivity. Qed.

Lemma cp_decimal_numeric c : cp_isdecimal c = true -> cp_isnumeric c = true.
Proof. apply ranges_subset_sound, decimal_sub_numeric_t. Qed.
Lemma cp_decimal_digit c : cp_isdecimal c = true -> cp_isdigit c = true.
Proof. apply ranges_subset_sound, decimal_sub_digit_t. Qed.
Lemma cp_digit_numeric c : cp_isdigit c = true -> cp_isnumeric c = true.
Proof. apply ranges_subset_sound, digit_sub_numeric_t. Qed.
Lemma cp_numeric_not_space c : cp_isnumeric c = true -> cp_isspace c = false.
Proof. apply ranges_disjoint_sound, numeric_disj_space_t. Qed.
Lemma cp_numeric_not_int_space c : cp_isnumeric c = true -> cp_int_space c = false.
Proof.
  intros H. destruct (cp_int_space c) eqn:E; [|reflexivity].
  apply (ranges_subset_sound _ _ int_space_sub_space_t) in E.
  apply cp_numeric_not_space in H. unfold cp_isspace in H. congruence.
Qed.
Lemma cp_numeric_below c : cp_isnumeric c = true -> c < uc_code_space.
Proof.
  apply ranges_below_sound. pose proof tables_below_t as H. cbn [forallb] in H.
  apply andb_true_iff in H. tauto.
Qed.

Lemma cp_decimal_is_dec c : cp_isdecimal c = true <-> is_dec c = true.
Proof.
  unfold is_dec, cp_digit_val. split.
  - intros H. apply (ranges_subset_sound _ _ decimal_sub_runs_t) in H. apply run_value_dom in H.
    destruct (run_value uc_decimal_runs c); [reflexivity|congruence].
  - intros H. apply (ranges_subset_sound _ _ runs_sub_decimal_t). apply run_value_dom.
    destruct (run_value uc_decimal_runs c); [discriminate|discriminate].
Qed.

Lemma cp_digit_val_lt c d : cp_digit_val c = Some d -> d < 10.
Proof. apply run_value_lt, runs_small_t. Qed.

Lemma dv_lt c : dv c < 10.
Proof.
  unfold dv. destruct (cp_digit_val c) eqn:E; [eapply cp_digit_val_lt; eauto|lia].
Qed.

Lemma cp_digit_val_ascii d : d < 10 -> cp_digit_val (ascii_zero + d) = Some d.
Proof.
  intros H. pose proof ascii_digit_vals_t as T. rewrite forallb_forall in T.
  assert (I : In d [0; 1; 2; 3; 4; 5; 6; 7; 8; 9]).
  { destruct d as [|p]; [simpl; auto|].
    do 9 (destruct p as [p|p|]; try lia; simpl; auto 12). }
  specialize (T d I). destruct (cp_digit_val (ascii_zero + d)); [|discriminate].
  apply N.eqb_eq in T. congruence.
Qed.

Lemma special_chars c : In c [43; 45; 95; 39; 104; 112; 109; 47] -> cp_isnumeric c = false /\ cp_isspace c = false.
Proof.
  intros I. pose proof special_not_numeric_t as T. rewrite forallb_forall in T. specialize (T c I).
  apply andb_true_iff in T. rewrite !negb_true_iff in T. exact T.
Qed.

Lemma cp_special_not_decimal c : In c [43; 45; 95; 39; 104; 112; 109; 47] -> cp_isdecimal c = false.
Proof.
  intros I. destruct (cp_isdecimal c) eqn:E; [|reflexivity].
  apply cp_decimal_numeric in E. apply special_chars in I. destruct I. congruence.
Qed.

Lemma underscore_no_digit : cp_digit_val ch_underscore = None.
Proof.
  pose proof (cp_special_not_decimal 95 ltac:(simpl; auto)) as H.
  destruct (cp_digit_val ch_underscore) eqn:E; [|reflexivity].
  assert (is_dec 95 = true) by (unfold is_dec; change 95 with ch_underscore; rewrite E; reflexivity).
  apply cp_decimal_is_dec in H0. congruence.
Qed.

(* ---- int() on a string that passed str.isnumeric() ---- *)

(* value of a numeral written with decimal digits of any script *)
Definition numeral_value (ds : list N) : N := from_be 10 (map dv ds).

Lemma forallb_isdecimal_is_dec s : forallb cp_isdecimal s = forallb is_dec s.
Proof.
  induction s as [|c t IH]; [reflexivity|]. simpl. rewrite IH. f_equal.
  destruct (cp_isdecimal c) eqn:E.
  - symmetry. apply cp_decimal_is_dec. exact E.
  - destruct (is_dec c) eqn:F; [|reflexivity]. apply cp_decimal_is_dec in F. congruence.
Qed.

Theorem py_int_numeric s : forallb cp_isnumeric s = true ->
  py_int s = if nonempty s && forallb cp_isdecimal s && int_limit_ok (length s)
             then Ok (Z.of_N (numeral_value s)) else Err ValueError.
Proof.
  intros Hn. rewrite forallb_forall in Hn. unfold py_int.
  rewrite strip_by_noop by (intros c I; apply cp_numeric_not_int_space, Hn, I).
  assert (Hsp : forall c, In c [43; 45; 95] -> ~ In c s).
  { intros c I J. apply Hn in J. assert (In c [43; 45; 95; 39; 104; 112; 109; 47]) by (simpl in *; tauto).
    apply special_chars in H. destruct H. congruence. }
  assert (Hbody : (let '(neg, body) := match s with
                      | c :: r => if c =? ch_plus then (false, r)
                                  else if c =? ch_minus then (true, r) else (false, s)
                      | [] => (false, s) end in (neg, body)) = (false, s)).
  { destruct s as [|c r]; [reflexivity|].
    destruct (N.eqb_spec c ch_plus) as [->|_]; [exfalso; apply (Hsp 43); simpl; auto|].
    destruct (N.eqb_spec c ch_minus) as [->|_]; [exfalso; apply (Hsp 45); simpl; auto|reflexivity]. }
  destruct (match s with
            | c :: r => if c =? ch_plus then (false, r) else if c =? ch_minus then (true, r) else (false, s)
            | [] => (false, s) end) as [neg body].
  inversion Hbody; subst neg body.
  rewrite int_digits_no_us by (apply (Hsp 95); simpl; auto).
  rewrite forallb_isdecimal_is_dec.
  destruct (nonempty s && forallb is_dec s); [|reflexivity]. cbn [andb].
  rewrite map_dv_length. reflexivity.
Qed.

(* numerals written with str(): ASCII digits, value n *)
Lemma map_dv_ascii ds : Forall (fun d => d < 10) ds -> map dv (map (fun d => ascii_zero + d) ds) = ds.
Proof.
  induction 1 as [|d t Hd _ IH]; [reflexivity|]. cbn [map]. rewrite IH. f_equal.
  unfold dv. rewrite cp_digit_val_ascii by exact Hd. reflexivity.
Qed.

Lemma str_of_N_decimal n : forallb cp_isdecimal (str_of_N n) = true.
Proof.
  rewrite str_of_N_digits. destruct (ascii_digits_ok n) as (H & _ & _).
  rewrite forallb_isdecimal_is_dec. apply forallb_forall. intros c I. apply in_map_iff in I.
  destruct I as (d & <- & Id). rewrite Forall_forall in H. unfold is_dec.
  rewrite cp_digit_val_ascii by (apply H; exact Id). reflexivity.
Qed.

Lemma str_of_N_value n : numeral_value (str_of_N n) = n.
Proof.
  unfold numeral_value. rewrite str_of_N_digits. destruct (ascii_digits_ok n) as (H & _ & E).
  rewrite map_dv_ascii by exact H. exact E.
Qed.

Lemma str_of_N_nonempty n : str_of_N n <> [].
Proof.
  rewrite str_of_N_digits. destruct (ascii_digits_ok n) as (_ & H & _).
  destruct (ascii_digits n); [congruence|discriminate].
Qed.

Lemma str_of_N_length n k : (1 <= k)%nat -> n < 10 ^ N.of_nat k -> (length (str_of_N n) <= k)%nat.
Proof. intros. rewrite str_of_N_digits, map_length. apply ascii_digits_length; assumption. Qed.

(* int(str(n)) = n, for every n whose decimal form is within the interpreter's digit limit *)
Theorem py_int_str_of_N n : int_limit_ok (length (str_of_N n)) = true -> py_int (str_of_N n) = Ok (Z.of_N n).
Proof.
  intros L. rewrite py_int_numeric.
  - rewrite str_of_N_decimal, L, str_of_N_value. destruct (str_of_N n) eqn:E; [|reflexivity].
    exfalso. eapply str_of_N_nonempty; eauto.
  - apply forallb_forall. intros c I. apply cp_decimal_numeric.
    pose proof (str_of_N_decimal n) as D. rewrite forallb_forall in D. auto.
Qed.

(* ---- the F5 set: what str.isnumeric() admits and int() refuses ---- *)

Theorem numeric_cp_int_iff c : cp_isnumeric c = true ->
  ((exists v, py_int [c] = Ok v) <-> cp_isdecimal c = true).
Proof.
  intros H. rewrite py_int_numeric by (cbn [forallb]; rewrite H; reflexivity).
  assert (L : int_limit_ok (length [c]) = true) by (apply (int_limit_ok_le _ 10); [simpl; lia|exact int_limit_small_t]).
  rewrite L. cbn [nonempty forallb andb]. rewrite !andb_true_r.
  destruct (cp_isdecimal c); split; eauto; try discriminate.
  intros (v & E); discriminate.
Qed.

Theorem isnumeric_not_int_nonempty :
  exists c, c < uc_code_space /\ cp_isnumeric c = true /\ py_int [c] = Err ValueError.
Proof.
  exists 178. destruct sup2_t as (H1 & _ & H3). split; [apply cp_numeric_below; exact H1|].
  split; [exact H1|]. rewrite py_int_numeric by (cbn [forallb]; rewrite H1; reflexivity).
  cbn [nonempty forallb andb]. rewrite H3. reflexivity.
Qed.

(* Proofs about Model/MnemWords.v: word <-> index lookup, language finder, grouping. *)
From Coq Require Import NArith Arith List Lia Bool.
From BU Require Import Base.Exn Base.Bytes Model.MnemWords.
Import ListNotations.
Open Scope N_scope.

(* ---- generic res / mapM facts (local copies; Lemmas/Base58.v has some of them for its own use) ---- *)
Lemma mapM_ok_inv {A B} (f : A -> res B) l r :
  mapM f l = Ok r -> Forall2 (fun x y => f x = Ok y) l r.
Proof.
  revert r; induction l as [|h t IH]; simpl; intros r E.
  - inversion E; constructor.
  - destruct (f h) eqn:F; simpl in E; [|discriminate].
    destruct (mapM f t) eqn:M; simpl in E; [|discriminate]. inversion E; subst.
    constructor; auto.
Qed.

Lemma mapM_ok_intro {A B} (f : A -> res B) l r :
  Forall2 (fun x y => f x = Ok y) l r -> mapM f l = Ok r.
Proof.
  induction 1 as [|x y l r H _ IH]; simpl; [reflexivity|]. rewrite H. simpl. rewrite IH. reflexivity.
Qed.

Lemma mapM_err_inv {A B} (f : A -> res B) l e :
  mapM f l = Err e -> exists x, In x l /\ f x = Err e.
Proof.
  induction l as [|h t IH]; simpl; intros E; [discriminate|].
  destruct (f h) eqn:F; simpl in E.
  - destruct (mapM f t) eqn:M; simpl in E; [discriminate|]. inversion E; subst.
    destruct (IH eq_refl) as (x & I & Fx). exists x; auto.
  - inversion E; subst. exists h; auto.
Qed.

Lemma mapM_app_local {A B} (f : A -> res B) a b :
  mapM f (a ++ b) = (x <- mapM f a ;; y <- mapM f b ;; Ok (x ++ y)).
Proof.
  induction a as [|h a IH]; simpl.
  - destruct (mapM f b); reflexivity.
  - destruct (f h); simpl; [|reflexivity]. rewrite IH.
    destruct (mapM f a); simpl; [|reflexivity]. destruct (mapM f b); reflexivity.
Qed.

Lemma Forall2_length' {A B} (R : A -> B -> Prop) l r : Forall2 R l r -> length l = length r.
Proof. induction 1; simpl; congruence. Qed.

(* ---- word lookup ---- *)
Lemma widx_nth w wl : forall i, widx_opt w wl = Some i -> nth_error wl i = Some w.
Proof.
  induction wl as [|x t IH]; intros i E; [discriminate|]. simpl in E.
  destruct (list_eqb x w) eqn:Q.
  - apply list_eqb_spec in Q. inversion E; subst. reflexivity.
  - destruct (widx_opt w t) as [j|]; [|discriminate]. inversion E; subst. simpl. auto.
Qed.

Lemma widx_lt w wl i : widx_opt w wl = Some i -> (i < length wl)%nat.
Proof. intros H. apply widx_nth in H. apply nth_error_Some. congruence. Qed.

Lemma widx_of_nth wl : NoDup wl -> forall i w, nth_error wl i = Some w -> widx_opt w wl = Some i.
Proof.
  induction 1 as [|x t Hx Hnd IH]; intros i w E; [destruct i; discriminate|].
  destruct i as [|i]; simpl in *.
  - inversion E; subst. rewrite list_eqb_refl. reflexivity.
  - destruct (list_eqb x w) eqn:Q.
    + apply list_eqb_spec in Q. subst. exfalso. apply Hx. eapply nth_error_In; eauto.
    + rewrite (IH _ _ E). reflexivity.
Qed.

Lemma widx_none w wl : widx_opt w wl = None <-> ~ In w wl.
Proof.
  induction wl as [|x t IH]; simpl; [tauto|].
  destruct (list_eqb x w) eqn:Q.
  - apply list_eqb_spec in Q. subst. split; [discriminate|intros H; exfalso; apply H; auto].
  - assert (x <> w) by (intro; subst; rewrite list_eqb_refl in Q; discriminate).
    destruct (widx_opt w t) as [k|]; simpl.
    + split; [discriminate|]. intros Hn. exfalso. apply Hn. right.
      destruct (in_dec (list_eq_dec N.eq_dec) w t) as [|Hni]; auto.
      apply IH in Hni. discriminate.
    + split; [|reflexivity]. intros _ [E|I]; [congruence|]. apply IH in I; auto.
Qed.

Lemma in_wl_In wl w : in_wl wl w = true <-> In w wl.
Proof.
  unfold in_wl. destruct (widx_opt w wl) eqn:E.
  - split; [|reflexivity]. intros _. apply widx_nth in E. eapply nth_error_In; eauto.
  - split; [discriminate|]. intros I. apply widx_none in E. contradiction.
Qed.

Lemma all_in_Forall wl ws : all_in wl ws = true <-> Forall (fun w => In w wl) ws.
Proof.
  unfold all_in. rewrite forallb_forall, Forall_forall.
  split; intros H x Hx; apply in_wl_In; auto.
Qed.

Lemma word_idx_ok_iff wl w : (exists i, word_idx wl w = Ok i) <-> In w wl.
Proof.
  unfold word_idx. rewrite <- in_wl_In. unfold in_wl.
  destruct (widx_opt w wl); split; intros H; try reflexivity; try discriminate.
  - eauto.
  - destruct H; discriminate.
Qed.

Lemma word_idx_err wl w e : word_idx wl w = Err e -> e = ValueError /\ ~ In w wl.
Proof.
  unfold word_idx. destruct (widx_opt w wl) eqn:E; [discriminate|]. intros H. inversion H.
  split; [reflexivity|]. apply widx_none; assumption.
Qed.

Lemma word_idx_at wl w i : word_idx wl w = Ok i -> word_at wl i = Ok w /\ i < wl_len wl.
Proof.
  unfold word_idx, word_at, wl_len. destruct (widx_opt w wl) as [k|] eqn:E; [|discriminate].
  intros H. inversion H; subst. rewrite Nnat.Nat2N.id, (widx_nth _ _ _ E). split; [reflexivity|].
  apply widx_lt in E. lia.
Qed.

Lemma word_at_idx wl i w : NoDup wl -> word_at wl i = Ok w -> word_idx wl w = Ok i /\ i < wl_len wl.
Proof.
  unfold word_idx, word_at, wl_len. intros Hnd H.
  destruct (nth_error wl (N.to_nat i)) eqn:E; [|discriminate]. inversion H; subst.
  rewrite (widx_of_nth wl Hnd _ _ E), Nnat.N2Nat.id. split; [reflexivity|].
  assert (N.to_nat i < length wl)%nat by (apply nth_error_Some; congruence). lia.
Qed.

Lemma word_at_total wl i : i < wl_len wl -> exists w, word_at wl i = Ok w.
Proof.
  unfold word_at, wl_len. intros H. destruct (nth_error wl (N.to_nat i)) eqn:E; [simpl; eauto|].
  apply nth_error_None in E. lia.
Qed.

Lemma word_at_err wl i e : word_at wl i = Err e -> wl_len wl <= i.
Proof.
  unfold word_at, wl_len. destruct (nth_error wl (N.to_nat i)) eqn:E; [discriminate|].
  intros _. apply nth_error_None in E. lia.
Qed.

Lemma wmemb_In w l : wmemb w l = true <-> In w l.
Proof.
  induction l as [|y t IH]; simpl; [split; [discriminate|tauto]|].
  rewrite orb_true_iff, list_eqb_spec, IH. split; intros [H|H]; auto.
Qed.

Lemma wnodupb_sound l : wnodupb l = true -> NoDup l.
Proof.
  induction l as [|x t IH]; simpl; [constructor|].
  rewrite andb_true_iff, negb_true_iff. intros [H1 H2]. constructor; auto.
  intro I. apply wmemb_In in I. congruence.
Qed.

(* ---- language finder ---- *)
Lemma find_language_ok {A} (wl_of : A -> list (list N)) langs ws L :
  find_language wl_of langs ws = Ok L ->
  In L langs /\ Forall (fun w => In w (wl_of L)) ws.
Proof.
  unfold find_language. destruct (find _ langs) eqn:F; [|discriminate]. intros E; inversion E; subst.
  apply find_some in F. destruct F as [I Hall]. split; [assumption|]. apply all_in_Forall; assumption.
Qed.

Lemma find_language_err {A} (wl_of : A -> list (list N)) langs ws e :
  find_language wl_of langs ws = Err e ->
  e = ValueError /\ forall L, In L langs -> ~ Forall (fun w => In w (wl_of L)) ws.
Proof.
  unfold find_language. destruct (find _ langs) eqn:F; [discriminate|]. intros E; inversion E; subst.
  split; [reflexivity|]. intros L I Hall. apply all_in_Forall in Hall.
  pose proof (find_none _ _ F L I) as Hn. simpl in Hn. congruence.
Qed.

(* the finder returns the first language containing all the words *)
Lemma find_language_first {A} (wl_of : A -> list (list N)) pre L post ws :
  (forall L', In L' pre -> ~ Forall (fun w => In w (wl_of L')) ws) ->
  Forall (fun w => In w (wl_of L)) ws ->
  find_language wl_of (pre ++ L :: post) ws = Ok L.
Proof.
  intros Hpre HL. unfold find_language.
  induction pre as [|P pre IH]; simpl.
  - apply all_in_Forall in HL. rewrite HL. reflexivity.
  - destruct (all_in (wl_of P) ws) eqn:Q.
    + exfalso. apply (Hpre P (or_introl eq_refl)). apply all_in_Forall; assumption.
    + apply IH. intros L' I. apply Hpre. right; assumption.
Qed.

(* ---- grouping ---- *)
Lemma groups_length {A} k m (l : list A) : length (groups k m l) = m.
Proof. revert l; induction m; simpl; intros; [reflexivity|]. rewrite IHm. reflexivity. Qed.

Lemma groups_concat {A} k (gs : list (list A)) rest :
  Forall (fun g => length g = k) gs ->
  groups k (length gs) (concat gs ++ rest) = gs.
Proof.
  induction 1 as [|g gs Hg _ IH]; simpl; [reflexivity|].
  rewrite <- app_assoc. subst k.
  rewrite firstn_app, Nat.sub_diag, firstn_O, app_nil_r, firstn_all. f_equal.
  rewrite skipn_app, Nat.sub_diag, skipn_all. simpl. exact IH.
Qed.

Lemma groups_concat' {A} k (gs : list (list A)) :
  Forall (fun g => length g = k) gs -> groups k (length gs) (concat gs) = gs.
Proof. intros H. rewrite <- (app_nil_r (concat gs)). apply groups_concat; assumption. Qed.

Lemma concat_length_const {A} k (gs : list (list A)) :
  Forall (fun g => length g = k) gs -> length (concat gs) = (k * length gs)%nat.
Proof. induction 1 as [|g gs Hg _ IH]; simpl; [lia|]. rewrite app_length, IH, Hg. lia. Qed.

Lemma concat_groups {A} k m (l : list A) :
  (k * m <= length l)%nat -> concat (groups k m l) = firstn (k * m) l.
Proof.
  revert l; induction m as [|m IH]; intros l H; simpl.
  - rewrite Nat.mul_0_r. reflexivity.
  - rewrite Nat.mul_succ_r in *.
    rewrite IH by (rewrite skipn_length; lia).
    replace (k * m + k)%nat with (k + k * m)%nat by lia.
    rewrite <- (firstn_skipn k l) at 3.
    rewrite firstn_app, firstn_length, Nat.min_l by lia.
    rewrite firstn_firstn, Nat.min_r by lia.
    replace (k + k * m - k)%nat with (k * m)%nat by lia. reflexivity.
Qed.

Lemma groups_all_len {A} k m (l : list A) :
  (k * m <= length l)%nat -> Forall (fun g => length g = k) (groups k m l).
Proof.
  revert l; induction m as [|m IH]; intros l H; simpl; constructor; rewrite Nat.mul_succ_r in *.
  - rewrite firstn_length. lia.
  - apply IH. rewrite skipn_length. lia.
Qed.

Lemma groups_app_irrel {A} k m (a b : list A) :
  (k * m <= length a)%nat -> groups k m (a ++ b) = groups k m a.
Proof.
  revert a; induction m as [|m IH]; intros a H; simpl; [reflexivity|]. rewrite Nat.mul_succ_r in *.
  rewrite firstn_app, skipn_app.
  replace (k - length a)%nat with 0%nat by lia. simpl. rewrite app_nil_r. f_equal.
  apply IH. rewrite skipn_length. lia.
Qed.

(* ---- a language is found first: it sits at position [pos] of the finder's list and shares no word with
        the languages before it (decidable; instances are computed on the generated lists) ---- *)
Fixpoint wl_eqb (a b : list (list N)) : bool :=
  match a, b with
  | [], [] => true
  | x :: a', y :: b' => list_eqb x y && wl_eqb a' b'
  | _, _ => false
  end.

Lemma wl_eqb_eq a : forall b, wl_eqb a b = true -> a = b.
Proof.
  induction a as [|x a IH]; destruct b as [|y b]; simpl; try discriminate; [reflexivity|].
  rewrite andb_true_iff, list_eqb_spec. intros [-> H]. f_equal. apply IH; assumption.
Qed.

Definition disjointb (a b : list (list N)) : bool := forallb (fun w => negb (wmemb w b)) a.

Lemma disjointb_sound a b : disjointb a b = true -> forall w, In w a -> ~ In w b.
Proof.
  unfold disjointb. rewrite forallb_forall. intros H w Ia Ib. specialize (H w Ia).
  apply negb_true_iff in H. apply wmemb_In in Ib. congruence.
Qed.

Definition lang_first_okb (finder : list (list (list N))) (wp : list (list N) * nat) : bool :=
  match nth_error finder (snd wp) with
  | Some wl' => wl_eqb wl' (fst wp)
  | None => false
  end && forallb (disjointb (fst wp)) (firstn (snd wp) finder).

Lemma lang_first_sound finder wl pos : lang_first_okb finder (wl, pos) = true ->
  exists pre post, finder = pre ++ wl :: post /\ forall L' w, In L' pre -> In w wl -> ~ In w L'.
Proof.
  unfold lang_first_okb. cbn [fst snd]. rewrite andb_true_iff. intros [A B].
  destruct (nth_error finder pos) as [wl'|] eqn:E; [|discriminate]. apply wl_eqb_eq in A. subst wl'.
  destruct (nth_error_split _ _ E) as (pre & post & -> & Lp). exists pre, post. split; [reflexivity|].
  rewrite <- Lp in B. rewrite firstn_app, Nat.sub_diag, firstn_O, app_nil_r, firstn_all in B.
  rewrite forallb_forall in B. intros L' w IL' Iw. exact (disjointb_sound wl L' (B L' IL') w Iw).
Qed.

Lemma in_combine_of_in {A B} (a : list A) (b : list B) x : length a = length b -> In x a ->
  exists y, In (x, y) (combine a b).
Proof.
  revert b; induction a as [|h a IH]; intros [|k b] L I; simpl in *; try discriminate; [contradiction|].
  destruct I as [->|I]; [exists k; left; reflexivity|].
  destruct (IH b ltac:(congruence) I) as [y Hy]. exists y. right; assumption.
Qed.

(* General lemmas used by the derivation proofs: BIP-32's byte/integer conventions (as transcribed
   in Model/SpecSlip10.v) against the library's codecs (Base/Bytes.v), and small facts on [res]. *)
From Coq Require Import NArith Arith List Lia Bool.
From BU Require Import Base.Exn Base.Radix Base.Bytes Model.SpecSlip10.
Import ListNotations.
Open Scope N_scope.

(* ---- parse256 = big-endian value ---- *)
Lemma fold_be_acc b : forall a,
  fold_left (fun acc x => acc * 256 + x) b a = a * 256 ^ N.of_nat (length b) + be_to_int b.
Proof.
  induction b as [|x t IH]; intros a.
  - cbn. lia.
  - cbn [fold_left]. rewrite IH. unfold be_to_int, from_be. cbn [rev length].
    rewrite from_le_app by lia. rewrite rev_length. cbn [from_le].
    rewrite Nnat.Nat2N.inj_succ, N.pow_succ_r'. lia.
Qed.

Lemma parse256_be b : parse256 b = be_to_int b.
Proof. unfold parse256. rewrite fold_be_acc. lia. Qed.

(* ---- fixed-width little-endian digit lists ---- *)
Lemma le_digits_length w : forall v, length (le_digits w v) = w.
Proof. induction w; intros; cbn; [reflexivity|]. rewrite IHw. reflexivity. Qed.

Lemma le_digits_ok w : forall v, bytes_ok (le_digits w v).
Proof.
  induction w; intros v; cbn; constructor; [|apply IHw].
  apply N.mod_lt. lia.
Qed.

Lemma le_digits_value w : forall v, from_le 256 (le_digits w v) = v mod 256 ^ N.of_nat w.
Proof.
  induction w as [|w IH]; intros v.
  - cbn. rewrite N.mod_1_r. reflexivity.
  - cbn [le_digits from_le]. rewrite IH, Nnat.Nat2N.inj_succ, N.pow_succ_r'.
    assert (P : 256 ^ N.of_nat w <> 0) by (apply N.pow_nonzero; lia).
    rewrite N.mod_mul_r by lia. lia.
Qed.

Lemma from_le_inj_len a : forall b, length a = length b -> bytes_ok a -> bytes_ok b ->
  from_le 256 a = from_le 256 b -> a = b.
Proof.
  induction a as [|x a IH]; intros [|y b] L Ha Hb E; try discriminate; [reflexivity|].
  cbn [from_le] in E. inversion Ha; inversion Hb; subst.
  destruct (N.div_mod_unique 256 (from_le 256 a) (from_le 256 b) x y) as [Eq Er]; [assumption..|lia|].
  subst. f_equal. apply IH; auto.
Qed.

Lemma ser_be_length w v : length (ser_be w v) = w.
Proof. unfold ser_be. rewrite rev_length. apply le_digits_length. Qed.

Lemma ser_be_ok w v : bytes_ok (ser_be w v).
Proof. unfold ser_be. apply bytes_ok_rev, le_digits_ok. Qed.

Lemma ser_be_value w v : v < 256 ^ N.of_nat w -> be_to_int (ser_be w v) = v.
Proof.
  intros H. unfold be_to_int, from_be, ser_be. rewrite rev_involutive, le_digits_value.
  apply N.mod_small, H.
Qed.

(* the library's int.to_bytes(w, "big") is BIP-32's ser *)
Lemma int_to_be_fixed_ser w v : v < 256 ^ N.of_nat w -> int_to_be_fixed w v = Ok (ser_be w v).
Proof.
  intros H. destruct (int_to_le_fixed_fits w v H) as [b Hb].
  unfold int_to_be_fixed. rewrite Hb. cbn. unfold Ok. f_equal.
  destruct (int_to_le_fixed_ok _ _ _ Hb) as (B1 & B2 & B3).
  unfold ser_be. f_equal. apply from_le_inj_len.
  - rewrite le_digits_length. exact B2.
  - exact B1.
  - apply le_digits_ok.
  - unfold le_to_int in B3. rewrite B3, le_digits_value. symmetry. apply N.mod_small, H.
Qed.

Lemma int_to_be_fixed_inv w v b : int_to_be_fixed w v = Ok b ->
  bytes_ok b /\ length b = w /\ be_to_int b = v.
Proof.
  unfold int_to_be_fixed. destruct (int_to_le_fixed w v) as [l|e] eqn:E; cbn; [|discriminate].
  intros H. inversion H; subst; clear H.
  destruct (int_to_le_fixed_ok _ _ _ E) as (B1 & B2 & B3).
  split; [apply bytes_ok_rev; exact B1|]. split; [rewrite rev_length; exact B2|].
  unfold be_to_int, from_be. rewrite rev_involutive. exact B3.
Qed.

Lemma int_to_be_fixed_err w v e : int_to_be_fixed w v = Err e -> 256 ^ N.of_nat w <= v.
Proof.
  intros H. destruct (N.lt_ge_cases v (256 ^ N.of_nat w)) as [L|]; [|assumption].
  rewrite (int_to_be_fixed_ser _ _ L) in H. discriminate.
Qed.

Lemma be_to_int_lt b : bytes_ok b -> be_to_int b < 256 ^ N.of_nat (length b).
Proof.
  intros H. unfold be_to_int, from_be. rewrite <- (rev_length b).
  apply (from_le_lt 256 r256). apply bytes_ok_rev, H.
Qed.

(* ser256(parse256 b) = b for well-formed b of the right length *)
Lemma ser_be_of_bytes b : bytes_ok b -> ser_be (length b) (be_to_int b) = b.
Proof.
  intros H. pose proof (be_fixed_roundtrip b H) as R.
  rewrite (int_to_be_fixed_ser _ _ (be_to_int_lt b H)) in R. injection R as R. exact R.
Qed.

Lemma pow256_32 : 256 ^ N.of_nat 32 = 2 ^ 256.
Proof. reflexivity. Qed.
Lemma pow256_4 : 256 ^ N.of_nat 4 = 2 ^ 32.
Proof. reflexivity. Qed.

(* ---- hardened bit ---- *)
Lemma testbit31_ge i : i < 2 ^ 32 -> N.testbit i 31 = (2 ^ 31 <=? i).
Proof.
  intros H. rewrite N.testbit_eqb.
  assert (D : i / 2 ^ 31 < 2) by (apply N.div_lt_upper_bound; [lia|]; change (2 ^ 31 * 2) with (2 ^ 32); exact H).
  destruct (N.leb_spec (2 ^ 31) i) as [L|L].
  - assert (1 <= i / 2 ^ 31) by (apply N.div_le_lower_bound; lia).
    replace (i / 2 ^ 31) with 1 by lia. reflexivity.
  - rewrite N.div_small by exact L. reflexivity.
Qed.

(* ---- firstn / skipn on fixed-length data ---- *)
Lemma firstn_length_exact {A} k (l : list A) : (k <= length l)%nat -> length (firstn k l) = k.
Proof. intros. rewrite firstn_length. lia. Qed.

Lemma skipn_length_exact {A} k (l : list A) : length (skipn k l) = (length l - k)%nat.
Proof. apply skipn_length. Qed.

(* ---- res ---- *)
Lemma bind_ok_inv {A B} (r : res A) (f : A -> res B) b :
  bind r f = Ok b -> exists a, r = Ok a /\ f a = Ok b.
Proof. destruct r as [a|e]; cbn; [intros H; exists a; split; [reflexivity|exact H]|discriminate]. Qed.

Lemma bind_err_inv {A B} (r : res A) (f : A -> res B) e :
  bind r f = Err e -> r = Err e \/ exists a, r = Ok a /\ f a = Err e.
Proof. destruct r as [a|e']; cbn; [intros H; right; exists a; split; [reflexivity|exact H]|intros H; left; injection H as ->; reflexivity]. Qed.

Lemma rmap_bind {A B} (f : A -> B) (r : res A) : rmap f r = bind r (fun a => Ok (f a)).
Proof. destruct r; reflexivity. Qed.

(* Proofs about Model/SS58.v. *)
From Coq Require Import NArith ZArith Arith List Lia Bool.
From BU Require Import Base.Exn Base.Radix Base.Bytes Model.SS58 Lemmas.CodecsAux.
From BU Require Model.Base58 Lemmas.Base58 Lemmas.Base58Xmr.
Import ListNotations.
Open Scope N_scope.

Lemma skipn_add {A} a b (l : list A) : skipn a (skipn b l) = skipn (b + a) l.
Proof.
  revert l; induction b as [|b IH]; intros l; [reflexivity|].
  destruct l as [|x l]; [simpl; apply skipn_nil|]. simpl. apply IH.
Qed.

Section SS58Proofs.
  Variable alph : list N.
  Variable radix : N.
  Variable simple_max format_max : N.
  Variable reserved : list N.
  Variable data_len cklen : nat.
  Variable ck_prefix : list N.
  Variable blake2b512 : list N -> list N.

  Hypothesis alph_nodup : NoDup alph.
  Hypothesis alph_len : length alph = N.to_nat radix.
  Hypothesis radix_ge2 : 2 <= radix.
  (* the hash oracle: only its output length and byte range are used *)
  Hypothesis hash_len : forall x, length (blake2b512 x) = 64%nat.
  Hypothesis hash_ok : forall x, bytes_ok (blake2b512 x).
  Hypothesis cklen_le : (cklen <= 64)%nat.
  Hypothesis data_len_pos : (0 < data_len)%nat.
  (* the two sweeps over the format packing (decided by vm_compute on the generated constants) *)
  Hypothesis fwd : forall f, f <= format_max ->
    exists fb, format_bytes simple_max f = Ok fb /\ bytes_ok fb /\ parse_header simple_max fb = Ok (f, length fb).
  Hypothesis bwd : forall dec f flen, bytes_ok dec -> parse_header simple_max dec = Ok (f, flen) ->
    f <= format_max /\ (flen <= length dec)%nat /\ format_bytes simple_max f = Ok (firstn flen dec).

  Notation checksum := (checksum cklen ck_prefix blake2b512).
  Notation encode := (SS58.encode alph radix simple_max format_max reserved data_len cklen ck_prefix blake2b512).
  Notation decode := (SS58.decode alph radix simple_max reserved data_len cklen ck_prefix blake2b512).
  Notation parse_header := (parse_header simple_max).
  Notation format_bytes := (format_bytes simple_max).

  Lemma checksum_length b : length (checksum b) = cklen.
  Proof. unfold SS58.checksum. rewrite firstn_length, hash_len. lia. Qed.
  Lemma checksum_ok b : bytes_ok (checksum b).
  Proof. unfold SS58.checksum. apply bytes_ok_firstn, hash_ok. Qed.

  (* the decoder's header parser looks only at the bytes the format occupies *)
  Lemma parse_header_prefix fb f tail : parse_header fb = Ok (f, length fb) ->
    parse_header (fb ++ tail) = Ok (f, length fb).
  Proof.
    destruct fb as [|b0 [|b1 r]]; cbn [app SS58.parse_header length]; [discriminate| |].
    - destruct (negb (N.land b0 128 =? 0)); [auto|].
      destruct (negb (N.land b0 64 =? 0)); [discriminate|]. auto.
    - destruct (negb (N.land b0 128 =? 0)); [auto|].
      destruct (negb (N.land b0 64 =? 0)); [|intros E; unfold Ok in E; injection E as _ E; discriminate].
      destruct (_ <=? simple_max); [auto|]. destruct r; [auto|].
      intros E; unfold Ok in E; injection E as _ E; discriminate.
  Qed.

  Lemma parse_header_err dec e : parse_header dec = Err e -> e = ValueError.
  Proof.
    destruct dec as [|b0 r]; cbn [SS58.parse_header]; [unfold Err; congruence|].
    destruct (negb (N.land b0 128 =? 0)); [unfold Err; congruence|].
    destruct (negb (N.land b0 64 =? 0)); [|discriminate].
    destruct r as [|b1 r]; [unfold Err; congruence|].
    destruct (_ <=? simple_max); [unfold Err; congruence|discriminate].
  Qed.

  (* SS58Decoder.Decode (SS58Encoder.Encode (data, format)) = (format, data) *)
  Theorem decode_encode data fmt : bytes_ok data -> length data = data_len ->
    (0 <= fmt <= Z.of_N format_max)%Z -> ~ In (Z.to_N fmt) reserved ->
    exists s, encode data fmt = Ok s /\ decode s = Ok (Z.to_N fmt, data).
  Proof.
    intros Hd Hl Hf Hr. set (f := Z.to_N fmt).
    assert (Hfm : f <= format_max) by (unfold f; lia).
    destruct (fwd f Hfm) as (fb & Efb & Bfb & Hp).
    assert (Mr : memb f reserved = false).
    { destruct (memb f reserved) eqn:M; [|reflexivity]. apply memb_In in M. contradiction. }
    unfold SS58.encode. rewrite Hl, Nat.eqb_refl. cbn [negb].
    destruct (Z.ltb_spec fmt 0); [lia|]. destruct (Z.ltb_spec (Z.of_N format_max) fmt); [lia|]. cbn [orb].
    fold f. rewrite Mr, Efb. cbn [bind Ok].
    eexists. split; [reflexivity|].
    set (payload := fb ++ data). set (ck := checksum payload).
    assert (Lck : length ck = cklen) by apply checksum_length.
    unfold SS58.decode.
    rewrite (Lemmas.Base58.decode_encode alph radix alph_nodup alph_len radix_ge2).
    2:{ apply bytes_ok_app. split; [apply bytes_ok_app; split; assumption|apply checksum_ok]. }
    cbn [bind Ok]. unfold payload at 1. rewrite <- app_assoc, (parse_header_prefix fb f _ Hp). cbn [bind Ok].
    rewrite Mr.
    rewrite (take_last_app' cklen _ _ Lck), (drop_last_app' cklen _ _ Lck).
    assert (Es : slice (length fb) (length (payload ++ ck) - cklen) (payload ++ ck) = data).
    { unfold slice, payload. rewrite !app_length, Lck.
      replace (length fb + length data + cklen - cklen - length fb)%nat with (length data) by lia.
      rewrite <- app_assoc, (Lemmas.Base58Xmr.skipn_app_exact (length fb)) by reflexivity.
      apply Lemmas.Base58Xmr.firstn_app_exact. reflexivity. }
    rewrite Es, Hl, Nat.eqb_refl. cbn [negb]. fold ck. rewrite list_eqb_refl. reflexivity.
  Qed.

  (* canonicity: an accepted string is the encoding of the (format, data) it decodes to *)
  Theorem encode_decode s f data : decode s = Ok (f, data) ->
    encode data (Z.of_N f) = Ok s /\ bytes_ok data /\ length data = data_len /\
    f <= format_max /\ ~ In f reserved.
  Proof.
    unfold SS58.decode.
    destruct (Base58.decode alph radix s) as [dec|] eqn:D; cbn [bind]; [|discriminate].
    pose proof (Lemmas.Base58.decode_ok_bytes alph radix s dec D) as Bdec.
    destruct (parse_header dec) as [[f' flen]|] eqn:P; cbn [bind]; [|discriminate].
    destruct (memb f' reserved) eqn:Mr; [discriminate|].
    set (dat := slice flen (length dec - cklen) dec).
    destruct (Nat.eqb_spec (length dat) data_len) as [Ld|]; cbn [negb]; [|discriminate].
    destruct (list_eqb _ _) eqn:Ck; [|discriminate].
    intros E. assert (f' = f /\ dat = data) by (unfold Ok in E; split; congruence). destruct H as [-> Edat].
    clear E. apply list_eqb_spec in Ck.
    destruct (bwd dec f flen Bdec P) as (Hfm & Hflen & Efb).
    (* shape of dec: header ++ data ++ checksum *)
    assert (Ldec : length dec = (flen + data_len + cklen)%nat).
    { unfold dat, slice in Ld. rewrite firstn_length, skipn_length in Ld. lia. }
    assert (Sh : dec = firstn flen dec ++ dat ++ take_last cklen dec).
    { unfold dat, slice, take_last.
      rewrite <- (firstn_skipn flen dec) at 1. f_equal.
      replace (length dec - cklen - flen)%nat with data_len by lia.
      rewrite <- (firstn_skipn data_len (skipn flen dec)) at 1. f_equal.
      rewrite skipn_add. f_equal. lia. }
    assert (Dl : drop_last cklen dec = firstn flen dec ++ dat).
    { rewrite Sh at 1. rewrite app_assoc. apply drop_last_app'.
      unfold take_last. rewrite skipn_length. lia. }
    assert (Bdat : bytes_ok dat) by (unfold dat, slice; apply bytes_ok_firstn, bytes_ok_skipn, Bdec).
    assert (Nr : ~ In f reserved).
    { intro I. apply memb_In in I. congruence. }
    subst data. split; [|auto].
    unfold SS58.encode. rewrite Ld, Nat.eqb_refl. cbn [negb].
    destruct (Z.ltb_spec (Z.of_N f) 0); [lia|]. destruct (Z.ltb_spec (Z.of_N format_max) (Z.of_N f)); [lia|].
    cbn [orb]. rewrite N2Z.id, Mr, Efb. cbn [bind Ok]. unfold Ok. f_equal.
    rewrite <- Dl, <- Ck, drop_take_last.
    apply (Lemmas.Base58.encode_decode alph radix alph_nodup alph_len radix_ge2). exact D.
  Qed.

  (* acceptance: exactly the image of the encoder *)
  Theorem decode_accepts_iff s f data :
    decode s = Ok (f, data) <->
    (encode data (Z.of_N f) = Ok s /\ bytes_ok data).
  Proof.
    split.
    - intros D. destruct (encode_decode _ _ _ D) as (E & B & _). auto.
    - intros [E B].
      assert (G : length data = data_len /\ f <= format_max /\ ~ In f reserved).
      { revert E. unfold SS58.encode.
        destruct (Nat.eqb_spec (length data) data_len); cbn [negb]; [|discriminate].
        destruct (Z.ltb_spec (Z.of_N f) 0); [discriminate|].
        destruct (Z.ltb_spec (Z.of_N format_max) (Z.of_N f)); [discriminate|]. cbn [orb].
        rewrite N2Z.id. destruct (memb f reserved) eqn:M; [discriminate|]. intros _.
        split; [assumption|]. split; [lia|]. intro I. apply memb_In in I. congruence. }
      destruct G as (G1 & G2 & G3).
      destruct (decode_encode data (Z.of_N f) B G1 ltac:(lia) ltac:(rewrite N2Z.id; exact G3)) as (s' & E' & D').
      rewrite E in E'. assert (s = s') by (unfold Ok in E'; congruence). subst s'.
      rewrite N2Z.id in D'. exact D'.
  Qed.

  (* error classes: only ValueError or SS58ChecksumError (no IndexError: the former defect F3) *)
  Theorem decode_err s e : decode s = Err e -> e = ValueError \/ e = LibError SS58ChecksumError.
  Proof.
    unfold SS58.decode.
    destruct (Base58.decode alph radix s) as [dec|e1] eqn:D; cbn [bind].
    - destruct (parse_header dec) as [[f flen]|e2] eqn:P; cbn [bind].
      + destruct (memb f reserved); [unfold Err; left; congruence|].
        destruct (negb _); [unfold Err; left; congruence|].
        destruct (list_eqb _ _); [discriminate|]. unfold Err; right; congruence.
      + intros E. assert (e2 = e) by (unfold Err in E; congruence). subst. left. eapply parse_header_err; eauto.
    - intros E. assert (e1 = e) by (unfold Err in E; congruence). subst. left.
      eapply Lemmas.Base58.decode_err; eauto.
  Qed.

  (* encoder argument validation *)
  Theorem encode_err data fmt e : encode data fmt = Err e -> e = ValueError \/ e = OverflowError.
  Proof.
    unfold SS58.encode.
    destruct (negb _); [unfold Err; left; congruence|].
    destruct (_ || _); [unfold Err; left; congruence|].
    destruct (memb _ reserved); [unfold Err; left; congruence|].
    destruct (format_bytes (Z.to_N fmt)) as [fb|e1] eqn:F; cbn [bind]; [discriminate|].
    intros E. assert (e1 = e) by (unfold Err in E; congruence). subst.
    unfold SS58.format_bytes in F. destruct (_ <=? simple_max).
    - unfold IntBytes.to_bytes in F. destruct (_ <? 0)%Z; [unfold Err in F; right; congruence|].
      unfold int_to_be_fixed, int_to_le_fixed in F. destruct (_ <=? _)%nat; cbn in F; [discriminate|].
      unfold Err in F; right; congruence.
    - unfold bytes_of_ints in F. destruct (forallb _ _); [discriminate|]. unfold Err in F; left; congruence.
  Qed.
End SS58Proofs.

(* C08 -- the hand-maintained exception lists of the coin-table theorems.

   MAINTAINER: this is the only file to edit when a listed defect is repaired in /repo.
   Every list is checked to be TIGHT by a theorem (Lemmas/CoinsOk.v): an entry that does not
   (or no longer) denote a real exception breaks the build, so a stale list cannot hide a new
   problem behind an old excuse. *)
From Coq Require Import NArith List String Ascii.
From BU Require Import Model.Coins.
Import ListNotations.

(* readable string literals for the lists below: code points of an ASCII string *)
Definition str (s : string) : list N :=
  map (fun a => N.of_nat (nat_of_ascii a)) (list_ascii_of_string s).

(* Test-net members that deliberately keep their main net's SLIP-44 coin index instead of
   Slip44.TESTNET (1): Ergo's and Cardano's wallets derive test-net keys on the main-net path. *)
Definition testnet_keeps_index : list (family * list N) := [
  (FBip44, str "ERGO_TESTNET");
  (FCip1852, str "CARDANO_ICARUS_TESTNET");
  (FCip1852, str "CARDANO_LEDGER_TESTNET")
].

(* Entries of CoinsConf (bip_utils/coin_conf/coins_conf.py) that violate [cconf_coherent] today,
   with the offending key, the value it has and the value the external registries prescribe:
   (entry, key, wrong value, right value).  The committed snapshot (Lemmas/Registry.v) holds the
   RIGHT value; `registry_tables_equal` compares it with the source table repaired at exactly
   these places.

   F19: CoinsConf.BitcoinRegTest has p2wpkh_wit_ver = 1 (copied from the Taproot constant:
   `_BTC_P2WPKH_WIT_VER_RT = _BTC_P2TR_WIT_VER_TN`); P2WPKH is witness version 0 on every
   network.  The value is read by nothing (the encoders use P2WPKHAddrConst.WITNESS_VER), so no
   address changes, but the registry constant is wrong.  Repair: fixes/F19.diff.
   >>> EMPTY THIS LIST (`:= [].`) once fixes/F19.diff is applied to /repo. <<< *)
Definition cconf_offenders : list (list N * list N * pval * pval) := [].
(* F19 was repaired in /repo ("fix: BitcoinRegTest P2WPKH witness version constant is 0"); the
   former entry was (str "BitcoinRegTest", str "p2wpkh_wit_ver", PI 1, PI 0). *)

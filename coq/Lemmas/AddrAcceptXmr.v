(* Acceptance characterisation of the Monero address decoder (Model/AddrXmr.v: _XmrAddrUtils.DecodeAddr behind
   XmrAddrDecoder and XmrIntegratedAddrDecoder) -- property C10, address level.

   The model is the library's code as it stands, and the full statement the property wants for the integrated
   decoder -- "an accepted string carries the expected payment id" -- is FALSE of it: the length test is a
   try/except that first accepts the plain length, whatever payment id was asked for (finding C10-XMR-INTEG-LEN). *)
From Coq Require Import NArith Arith List Lia Bool.
From BU Require Import Base.Exn Base.Radix Base.Bytes Gen.ConstsCardmon.
From BU Require Import Model.EdLib Model.AddrXmr Lemmas.CardmonConstsOk Lemmas.EdLib Lemmas.AddrXmr.
From BU Require Import Lemmas.AddrAcceptB58.
Import ListNotations.
Open Scope N_scope.

Lemma skipn_add {A} a : forall b (l : list A), skipn a (skipn b l) = skipn (b + a) l.
Proof.
  induction b as [|b IH]; intros l; [reflexivity|]. destruct l as [|x l]; [rewrite !skipn_nil; reflexivity|].
  cbn [skipn Nat.add]. apply IH.
Qed.

Lemma Some_inj {A} (a b : A) : Some a = Some b -> a = b.
Proof. intros H. injection H. auto. Qed.

Section Accept.
  Variable keccak : list N -> list N.
  Variable G : Type.
  Variable pdec : list N -> option G.
  Hypothesis keccak_len : forall x, length (keccak x) = 32%nat.

  Notation checksum := (checksum keccak).
  Notation decode_addr := (decode_addr keccak G pdec).
  Notation encode_key := (encode_key keccak G pdec).
  Notation valid := (pub_is_valid G pdec).

  Lemma ck_len p : length (checksum p) = xmr_addr_cklen.
  Proof. apply (checksum_length keccak keccak_len). Qed.

  (* a body of 64 or 72 bytes splits into spend key, view key and the rest *)
  Lemma body_split (body : list N) : (64 <= length body)%nat ->
    body = firstn 32 body ++ slice 32 (2 * 32) body ++ skipn 64 body /\
    length (firstn 32 body) = 32%nat /\ length (slice 32 (2 * 32) body) = 32%nat /\
    length (skipn 64 body) = (length body - 64)%nat.
  Proof.
    intros L. unfold slice. change (2 * 32 - 32)%nat with 32%nat. split.
    - rewrite <- (firstn_skipn 32 body) at 1. f_equal.
      rewrite <- (firstn_skipn 32 (skipn 32 body)) at 1. f_equal. apply skipn_add.
    - rewrite !firstn_length, !skipn_length. lia.
  Qed.

  (* accepted iff: block-Base58 text of  net ‖ spend ‖ view ‖ rest ‖ Keccak checksum,  both keys valid, and the
     rest is EMPTY (whatever payment id is expected) or the expected 8-byte payment id *)
  Theorem decode_addr_accepts_iff s net payid out :
    decode_addr s net payid = Ok out <->
    exists ps pv rest,
      b58x_decode s = Ok ((net ++ ps ++ pv ++ rest) ++ checksum (net ++ ps ++ pv ++ rest)) /\
      length ps = 32%nat /\ length pv = 32%nat /\ valid ps = true /\ valid pv = true /\ out = ps ++ pv /\
      (rest = [] \/ (length rest = xmr_payid_len /\ payid = Some rest)).
  Proof.
    unfold AddrXmr.decode_addr. rewrite ed_pub_len_32. split.
    - destruct (b58x_decode s) as [dec|] eqn:D; cbn [bind]; [|discriminate].
      set (payload := drop_last xmr_addr_cklen dec).
      destruct (list_eqb (take_last xmr_addr_cklen dec) (checksum payload)) eqn:C; [|discriminate].
      destruct (list_eqb net (firstn (length net) payload)) eqn:Pn; [|discriminate].
      apply list_eqb_spec in C, Pn. set (body := skipn (length net) payload).
      assert (Epl : payload = net ++ body) by (unfold body; rewrite Pn at 1; symmetry; apply firstn_skipn).
      assert (Edec : dec = payload ++ checksum payload) by (rewrite <- C; symmetry; apply drop_take_last).
      destruct (Nat.eqb_spec (length body) (2 * 32)) as [L64|N64]; cbn [bind].
      + destruct (valid (firstn 32 body)) eqn:V1; [|discriminate].
        destruct (valid (slice 32 (2 * 32) body)) eqn:V2; [|discriminate]. intros H. apply Ok_inj in H. subst out.
        destruct (body_split body ltac:(lia)) as (Eb & L1 & L2 & L3).
        exists (firstn 32 body), (slice 32 (2 * 32) body), (skipn 64 body).
        assert (Z : skipn 64 body = []) by (apply length_zero_iff_nil; lia).
        rewrite <- Eb, <- Epl, <- Edec. repeat split; auto.
      + destruct (Nat.eqb_spec (length body) (2 * 32 + xmr_payid_len)) as [L72|]; cbn [bind]; [|discriminate].
        destruct payid as [p|]; [|discriminate].
        destruct (Nat.eqb_spec (length p) xmr_payid_len) as [Lp|]; [|discriminate].
        destruct (list_eqb p (take_last xmr_payid_len body)) eqn:Ep; cbn [bind]; [|discriminate].
        destruct (valid (firstn 32 body)) eqn:V1; [|discriminate].
        destruct (valid (slice 32 (2 * 32) body)) eqn:V2; [|discriminate]. intros H. apply Ok_inj in H. subst out.
        apply list_eqb_spec in Ep. pose proof xmr_payid_len_8 as P8.
        destruct (body_split body ltac:(lia)) as (Eb & L1 & L2 & L3).
        exists (firstn 32 body), (slice 32 (2 * 32) body), (skipn 64 body).
        rewrite <- Eb, <- Epl, <- Edec. repeat split; auto. right.
        assert (T : take_last xmr_payid_len body = skipn 64 body) by (unfold take_last; f_equal; lia).
        split; [lia|]. rewrite <- T, <- Ep. reflexivity.
    - intros (ps & pv & rest & D & L1 & L2 & V1 & V2 & -> & R). rewrite D. cbn [bind Ok].
      set (payload := net ++ ps ++ pv ++ rest).
      rewrite (drop_last_app' xmr_addr_cklen payload _ (ck_len payload)).
      rewrite (take_last_app' xmr_addr_cklen payload _ (ck_len payload)). rewrite list_eqb_refl.
      assert (F : firstn (length net) payload = net).
      { unfold payload. rewrite firstn_app, Nat.sub_diag, firstn_all. simpl. apply app_nil_r. }
      assert (S : skipn (length net) payload = ps ++ pv ++ rest).
      { unfold payload. rewrite skipn_app, Nat.sub_diag, skipn_all. reflexivity. }
      rewrite F, list_eqb_refl, S.
      assert (Fs : firstn 32 (ps ++ pv ++ rest) = ps).
      { rewrite <- L1. rewrite firstn_app, Nat.sub_diag, firstn_all. simpl. apply app_nil_r. }
      assert (Fv : slice 32 (2 * 32) (ps ++ pv ++ rest) = pv).
      { unfold slice. rewrite <- L1 at 3. rewrite skipn_app, Nat.sub_diag, skipn_all. simpl app.
        replace (2 * 32 - 32)%nat with (length pv) by lia.
        rewrite firstn_app, Nat.sub_diag, firstn_all. simpl. apply app_nil_r. }
      rewrite Fs, Fv, V1, V2.
      assert (LB : length (ps ++ pv ++ rest) = (64 + length rest)%nat) by (rewrite !app_length; lia).
      rewrite LB. pose proof xmr_payid_len_8 as P8. destruct R as [->|[Lr ->]].
      + reflexivity.
      + rewrite Lr, P8. replace (64 + 8 =? 2 * 32)%nat with false by reflexivity.
        replace (64 + 8 =? 2 * 32 + 8)%nat with true by reflexivity. cbn [bind].
        rewrite <- P8, <- Lr, Nat.eqb_refl.
        replace (take_last (length rest) (ps ++ pv ++ rest)) with rest.
        2:{ rewrite app_assoc. symmetry. apply take_last_app. }
        rewrite list_eqb_refl. reflexivity.
  Qed.

  (* the standard decoder (no payment id): only the plain layout *)
  Theorem decode_standard_accepts_iff s net out :
    decode_addr s net None = Ok out <->
    exists ps pv, b58x_decode s = Ok ((net ++ ps ++ pv) ++ checksum (net ++ ps ++ pv)) /\
      length ps = 32%nat /\ length pv = 32%nat /\ valid ps = true /\ valid pv = true /\ out = ps ++ pv.
  Proof.
    rewrite decode_addr_accepts_iff. split.
    - intros (ps & pv & rest & D & L1 & L2 & V1 & V2 & E & [->|[_ X]]); [|discriminate].
      rewrite !app_nil_r in D. exists ps, pv. repeat split; assumption.
    - intros (ps & pv & D & L1 & L2 & V1 & V2 & E). exists ps, pv, []. rewrite !app_nil_r. repeat split; auto.
  Qed.

  (* what DOES hold for the integrated decoder: the payload is the plain one (NO payment id at all) or the one
     carrying the expected id; the 77-byte (with-id) length is the exact extra condition *)
  Theorem decode_integrated_partial s net p out dec :
    decode_addr s net (Some p) = Ok out -> b58x_decode s = Ok dec ->
    length dec = (length net + 2 * 32 + xmr_payid_len + xmr_addr_cklen)%nat ->
    exists ps pv, dec = (net ++ ps ++ pv ++ p) ++ checksum (net ++ ps ++ pv ++ p) /\ length p = xmr_payid_len /\
      length ps = 32%nat /\ length pv = 32%nat /\ valid ps = true /\ valid pv = true /\ out = ps ++ pv.
  Proof.
    intros H D L. apply decode_addr_accepts_iff in H. destruct H as (ps & pv & rest & D' & L1 & L2 & V1 & V2 & E & R).
    rewrite D in D'. apply Ok_inj in D'. subst dec. exists ps, pv.
    destruct R as [->|[Lr Ep]].
    - exfalso. rewrite !app_length, ck_len in L. simpl in L. pose proof xmr_payid_len_8. lia.
    - apply Some_inj in Ep. subst rest. repeat split; auto.
  Qed.
End Accept.

(* Full statement for XmrIntegratedAddrDecoder:
     decode_addr s net (Some p) = Ok out  ->  the decoded payload ends in the payment id p
   is FALSE (finding C10-XMR-INTEG-LEN).  Instance: constant-zero "Keccak", every 32-byte string a key; the STANDARD
   address text of (spend, view) = (0^32, 0^32) under net byte 19 -- which carries no payment id -- is accepted
   by the integrated decoder for EVERY expected payment id. *)
Definition zero_keccak (_ : list N) : list N := repeat 0 32.
Definition all_keys (_ : list N) : option unit := Some tt.

Theorem integrated_payment_id_refuted : exists s net dec,
  encode_key zero_keccak unit all_keys (repeat 0 32) (repeat 0 32) net None = Ok s /\
  b58x_decode s = Ok dec /\ length dec = (length net + 2 * 32 + xmr_addr_cklen)%nat /\
  forall p, decode_addr zero_keccak unit all_keys s net (Some p) = Ok (repeat 0 64).
Proof.
  exists (b58x_encode (addr_bytes zero_keccak [19] (repeat 0 32) (repeat 0 32) [])), [19],
         (addr_bytes zero_keccak [19] (repeat 0 32) (repeat 0 32) []).
  split; [vm_compute; reflexivity|]. split; [vm_compute; reflexivity|]. split; [vm_compute; reflexivity|].
  intros p. apply (decode_addr_accepts_iff zero_keccak unit all_keys (fun _ => eq_refl)).
  exists (repeat 0 32), (repeat 0 32), []. split; [vm_compute; reflexivity|].
  repeat split; auto.
Qed.

(* Acceptance characterisation of the Monero address decoder (Model/AddrXmr.v: _XmrAddrUtils.DecodeAddr behind
   XmrAddrDecoder and XmrIntegratedAddrDecoder) -- property C10, address level.

   The model follows the repaired code (finding C10-XMR-INTEG-LEN, fixed: before, the length test was a try/except
   that first accepted the plain length whatever payment id was asked for): without an expected payment id the payload
   has the plain layout; with one, the id has 8 bytes, the payload the with-id length and it ends in that id.
   So: accepted <-> the decoded bytes are [addr_bytes net spend view id] for two valid keys; and, given canonicity of
   the block Base58 decoder of Model/XmrB58.v (proved by the contributor "link" in Lemmas/LinkXmr.v,
   b58x_encode_decode; taken as a hypothesis here), accepted <-> the string is the address encoder's output. *)
From Coq Require Import NArith Arith List Lia Bool.
From BU Require Import Base.Exn Base.Radix Base.Bytes Gen.ConstsCardmon.
From BU Require Import Model.EdLib Model.AddrXmr Lemmas.CardmonConstsOk Lemmas.EdLib Lemmas.AddrXmr.
From BU Require Import Lemmas.AddrAcceptB58.
Import ListNotations.
Open Scope N_scope.

Lemma skipn_add {A} a : forall b (l : list A), skipn a (skipn b l) = skipn (b + a) l.
Proof.
  induction b as [|b IH]; intros l; [reflexivity|]. destruct l as [|x l]; [rewrite !skipn_nil; reflexivity|].
  cbn [skipn Nat.add]. apply IH.
Qed.

Lemma Some_inj {A} (a b : A) : Some a = Some b -> a = b.
Proof. intros H. injection H. auto. Qed.

Section Accept.
  Variable keccak : list N -> list N.
  Variable G : Type.
  Variable pdec : list N -> option G.
  Hypothesis keccak_len : forall x, length (keccak x) = 32%nat.

  Notation checksum := (checksum keccak).
  Notation decode_addr := (decode_addr keccak G pdec).
  Notation encode_key := (encode_key keccak G pdec).
  Notation addr_bytes := (addr_bytes keccak).
  Notation valid := (pub_is_valid G pdec).

  Lemma ck_len p : length (checksum p) = xmr_addr_cklen.
  Proof. apply (checksum_length keccak keccak_len). Qed.

  (* a body of 64 or 72 bytes splits into spend key, view key and the rest *)
  Lemma body_split (body : list N) : (64 <= length body)%nat ->
    body = firstn 32 body ++ slice 32 (2 * 32) body ++ skipn 64 body /\
    length (firstn 32 body) = 32%nat /\ length (slice 32 (2 * 32) body) = 32%nat /\
    length (skipn 64 body) = (length body - 64)%nat.
  Proof.
    intros L. unfold slice. change (2 * 32 - 32)%nat with 32%nat. split.
    - rewrite <- (firstn_skipn 32 body) at 1. f_equal.
      rewrite <- (firstn_skipn 32 (skipn 32 body)) at 1. f_equal. apply skipn_add.
    - rewrite !firstn_length, !skipn_length. lia.
  Qed.

  Definition pid_of (payid : option (list N)) : list N := match payid with Some p => p | None => [] end.
  Definition pid_ok (payid : option (list N)) : Prop :=
    match payid with Some p => length p = xmr_payid_len | None => True end.

  (* accepted iff: block-Base58 text of  net ‖ spend ‖ view ‖ expected payment id (if any) ‖ Keccak checksum,
     both keys valid, the expected id 8 bytes long *)
  Theorem decode_addr_accepts_iff s net payid out :
    decode_addr s net payid = Ok out <->
    exists ps pv,
      b58x_decode s = Ok (addr_bytes net ps pv (pid_of payid)) /\ pid_ok payid /\
      length ps = 32%nat /\ length pv = 32%nat /\ valid ps = true /\ valid pv = true /\ out = ps ++ pv.
  Proof.
    unfold AddrXmr.decode_addr, AddrXmr.addr_bytes. rewrite ed_pub_len_32. split.
    - destruct (b58x_decode s) as [dec|] eqn:D; cbn [bind]; [|discriminate].
      set (payload := drop_last xmr_addr_cklen dec).
      destruct (list_eqb (take_last xmr_addr_cklen dec) (checksum payload)) eqn:C; [|discriminate].
      destruct (list_eqb net (firstn (length net) payload)) eqn:Pn; [|discriminate].
      apply list_eqb_spec in C, Pn. set (body := skipn (length net) payload).
      assert (Epl : payload = net ++ body) by (unfold body; rewrite Pn at 1; symmetry; apply firstn_skipn).
      assert (Edec : dec = payload ++ checksum payload) by (rewrite <- C; symmetry; apply drop_take_last).
      destruct payid as [p|]; cbn [pid_of pid_ok].
      + destruct (Nat.eqb_spec (length p) xmr_payid_len) as [Lp|]; [|discriminate].
        destruct (Nat.eqb_spec (length body) (2 * 32 + xmr_payid_len)) as [L72|]; [|discriminate].
        destruct (list_eqb p (take_last xmr_payid_len body)) eqn:Ep; cbn [bind]; [|discriminate].
        destruct (valid (firstn 32 body)) eqn:V1; [|discriminate].
        destruct (valid (slice 32 (2 * 32) body)) eqn:V2; [|discriminate]. intros H. apply Ok_inj in H. subst out.
        apply list_eqb_spec in Ep. pose proof xmr_payid_len_8 as P8.
        destruct (body_split body ltac:(lia)) as (Eb & L1 & L2 & L3).
        exists (firstn 32 body), (slice 32 (2 * 32) body).
        assert (T : take_last xmr_payid_len body = skipn 64 body) by (unfold take_last; f_equal; lia).
        rewrite Ep, T, <- Eb, <- Epl, <- Edec. repeat split; auto; lia.
      + destruct (Nat.eqb_spec (length body) (2 * 32)) as [L64|]; cbn [bind]; [|discriminate].
        destruct (valid (firstn 32 body)) eqn:V1; [|discriminate].
        destruct (valid (slice 32 (2 * 32) body)) eqn:V2; [|discriminate]. intros H. apply Ok_inj in H. subst out.
        destruct (body_split body ltac:(lia)) as (Eb & L1 & L2 & L3).
        exists (firstn 32 body), (slice 32 (2 * 32) body).
        assert (Z : skipn 64 body = []) by (apply length_zero_iff_nil; lia).
        rewrite Z in Eb. rewrite <- Eb, <- Epl, <- Edec. repeat split; auto.
    - intros (ps & pv & D & Hp & L1 & L2 & V1 & V2 & ->). rewrite D. cbn [bind Ok].
      set (rest := pid_of payid) in *. set (payload := net ++ ps ++ pv ++ rest).
      rewrite (drop_last_app' xmr_addr_cklen payload _ (ck_len payload)).
      rewrite (take_last_app' xmr_addr_cklen payload _ (ck_len payload)). rewrite list_eqb_refl.
      assert (F : firstn (length net) payload = net).
      { unfold payload. rewrite firstn_app, Nat.sub_diag, firstn_all. simpl. apply app_nil_r. }
      assert (S : skipn (length net) payload = ps ++ pv ++ rest).
      { unfold payload. rewrite skipn_app, Nat.sub_diag, skipn_all. reflexivity. }
      rewrite F, list_eqb_refl, S.
      assert (Fs : firstn 32 (ps ++ pv ++ rest) = ps).
      { rewrite <- L1. rewrite firstn_app, Nat.sub_diag, firstn_all. simpl. apply app_nil_r. }
      assert (Fv : slice 32 (2 * 32) (ps ++ pv ++ rest) = pv).
      { unfold slice. rewrite <- L1 at 3. rewrite skipn_app, Nat.sub_diag, skipn_all. simpl app.
        replace (2 * 32 - 32)%nat with (length pv) by lia.
        rewrite firstn_app, Nat.sub_diag, firstn_all. simpl. apply app_nil_r. }
      rewrite Fs, Fv, V1, V2.
      assert (LB : length (ps ++ pv ++ rest) = (64 + length rest)%nat) by (rewrite !app_length; lia).
      rewrite LB. pose proof xmr_payid_len_8 as P8. unfold rest. destruct payid as [p|]; cbn [pid_of pid_ok] in *.
      + rewrite Hp, Nat.eqb_refl, P8. replace (64 + 8 =? 2 * 32 + 8)%nat with true by reflexivity.
        rewrite <- P8, <- Hp.
        replace (take_last (length p) (ps ++ pv ++ p)) with p.
        2:{ rewrite app_assoc. symmetry. apply take_last_app. }
        rewrite list_eqb_refl. reflexivity.
      + reflexivity.
  Qed.

  (* a valid 32-byte key is what the key layer of the encoder returns unchanged *)
  Lemma valid_from_bytes k : length k = 32%nat -> valid k = true -> pub_from_bytes G pdec k = Ok k.
  Proof.
    intros L V. unfold pub_is_valid in V. destruct (pub_from_bytes G pdec k) as [k'|] eqn:E; [|discriminate].
    destruct (pub_from_bytes_ok G pdec _ _ E) as (-> & _). unfold strip_pub_prefix.
    rewrite L, ed_pub_len_32. reflexivity.
  Qed.

  (* the corollary the property wants, exact equality (Base58 has no case rule): every accepted string IS the
     address encoder's output -- XmrAddrEncoder for payid = None, XmrIntegratedAddrEncoder for payid = Some p --
     for the returned keys; and conversely.  [b58x_canon] is canonicity of the block Base58 decoder. *)
  Hypothesis keccak_ok : forall x, bytes_ok (keccak x).
  Hypothesis b58x_canon : forall s b, b58x_decode s = Ok b -> b58x_encode b = s /\ bytes_ok b.

  Lemma strip_32 k : length k = 32%nat -> strip_pub_prefix k = k.
  Proof. intros L. unfold strip_pub_prefix. rewrite L, ed_pub_len_32. reflexivity. Qed.

  Theorem decode_addr_accepts_iff_encoder s net payid out : bytes_ok net ->
    (match payid with Some p => bytes_ok p | None => True end) ->
    (decode_addr s net payid = Ok out <->
     exists ps pv, out = ps ++ pv /\ length ps = 32%nat /\ length pv = 32%nat /\ bytes_ok ps /\ bytes_ok pv /\
                   valid ps = true /\ valid pv = true /\ encode_key ps pv net payid = Ok s).
  Proof.
    intros Hn Hb. split.
    - intros H. apply decode_addr_accepts_iff in H. destruct H as (ps & pv & D & Hp & L1 & L2 & V1 & V2 & ->).
      exists ps, pv. destruct (b58x_canon _ _ D) as [C B].
      unfold AddrXmr.addr_bytes in B. apply bytes_ok_app in B. destruct B as [B _].
      apply bytes_ok_app in B. destruct B as [_ B]. apply bytes_ok_app in B. destruct B as [B1 B].
      apply bytes_ok_app in B. destruct B as [B2 _].
      repeat split; auto. unfold AddrXmr.encode_key.
      assert (G1 : match payid with Some p => (length p =? xmr_payid_len)%nat | None => true end = true).
      { destruct payid as [p|]; [apply Nat.eqb_eq; exact Hp|reflexivity]. }
      rewrite G1, (valid_from_bytes ps L1 V1), (valid_from_bytes pv L2 V2). cbn [bind Ok]. rewrite <- C. reflexivity.
    - intros (ps & pv & -> & L1 & L2 & B1 & B2 & V1 & V2 & E).
      pose proof (decode_encode_key keccak G pdec keccak_len keccak_ok ps pv net payid s Hn B1 B2 Hb E) as R.
      rewrite (strip_32 ps L1), (strip_32 pv L2) in R. exact R.
  Qed.
End Accept.

(* The witness of the former refutation (finding C10-XMR-INTEG-LEN): the STANDARD address text of (0^32, 0^32) under
   net byte 19 -- 69 bytes, no room for a payment id -- was accepted by the integrated decoder for every expected id;
   it is now refused for every expected id.  Instance: constant-zero Keccak, every 32-byte string a key. *)
Definition zero_keccak (_ : list N) : list N := repeat 0 32.
Definition all_keys (_ : list N) : option unit := Some tt.

Theorem integrated_rejects_plain_payload : exists s net,
  encode_key zero_keccak unit all_keys (repeat 0 32) (repeat 0 32) net None = Ok s /\
  decode_addr zero_keccak unit all_keys s net None = Ok (repeat 0 64) /\
  forall p, decode_addr zero_keccak unit all_keys s net (Some p) = Err ValueError.
Proof.
  exists (b58x_encode (addr_bytes zero_keccak [19] (repeat 0 32) (repeat 0 32) [])), [19].
  split; [vm_compute; reflexivity|]. split; [vm_compute; reflexivity|].
  intros p. unfold AddrXmr.decode_addr.
  replace (b58x_decode (b58x_encode (addr_bytes zero_keccak [19] (repeat 0 32) (repeat 0 32) [])))
    with (@Ok (list N) (addr_bytes zero_keccak [19] (repeat 0 32) (repeat 0 32) [])) by (vm_compute; reflexivity).
  cbn [bind Ok].
  replace (list_eqb _ _) with true by (vm_compute; reflexivity).
  replace (list_eqb [19] _) with true by (vm_compute; reflexivity).
  destruct (length p =? xmr_payid_len)%nat; [|reflexivity].
  replace (length _ =? 2 * ed_pub_len + xmr_payid_len)%nat with false by (vm_compute; reflexivity). reflexivity.
Qed.

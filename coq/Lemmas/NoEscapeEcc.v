(* C14 no-escape lemmas: the byte constructors of the EC key layer (PrivateKey/PublicKey/Point .FromBytes,
   IsValidBytes) of all seven curve classes, and ed25519_lib's point decoder.  All for arbitrary constants and
   oracles (third-party acceptance tests, square roots), both for the model the property demands (cur = false) and
   for the variant faithful to today's code (cur = true).
   The one delicate site: Ed25519Point.FromBytes of the 64-byte coordinate form re-encodes the coordinates with
   int.to_bytes(32) (OverflowError) and indexes the result (IndexError): unreachable because both coordinates were
   read from 32 bytes each -- this needs the input to be a byte string (bytes_ok) and a coordinate length >= 1. *)
From Coq Require Import NArith ZArith List Bool Lia.
From BU Require Import Base.Exn Base.Radix Base.Bytes Model.Ed25519Lib Model.EccAdapter.
From BU Require Lemmas.Ed25519Lib.
From BU Require Import Lemmas.NoEscape.
Import ListNotations.

(* ------------------------------------------------------------------ secp256k1 (coincurve / ecdsa), nist256p1 *)
(* Secp256k1PrivateKey.FromBytes / Nist256p1PrivateKey.FromBytes *)
Lemma w_priv_from_bytes_family priv_len acc be k : in_family (Weier.priv_from_bytes priv_len acc be k) = true.
Proof. unfold Weier.priv_from_bytes. fam. Qed.

(* Secp256k1PublicKey.FromBytes / Nist256p1PublicKey.FromBytes *)
Lemma w_pub_from_bytes_family p a b cl pcl pul pre lift be bs :
  in_family (Weier.pub_from_bytes p a b cl pcl pul pre lift be bs) = true.
Proof. unfold Weier.pub_from_bytes, to_value_error. fam. Qed.

(* Secp256k1Point.FromBytes / Nist256p1Point.FromBytes *)
Lemma w_point_from_bytes_family p a b cl pcl pul pre lift cur be bs :
  in_family (Weier.point_from_bytes p a b cl pcl pul pre lift cur be bs) = true.
Proof. unfold Weier.point_from_bytes, to_value_error. destruct be, cur; fam. Qed.

(* IsValidBytes: catches ValueError, so with a constructor in the family it never raises *)
Lemma is_valid_total {A} (r : res A) : in_family r = true -> in_family (is_valid r) = true.
Proof. destruct r as [x|e]; [reflexivity|]. destruct e; simpl; auto. Qed.

(* ------------------------------------------------------------------ ed25519 family *)
(* ed25519_lib.point_decode / point_bytes_to_coord / point_is_on_curve (bytes) *)
Lemma ed_point_decode_no_check_family q clen clamp sb xrec b :
  in_family (point_decode_no_check q clen clamp sb xrec b) = true.
Proof. unfold point_decode_no_check. fam. Qed.
Lemma ed_point_decode_family q d clen clamp sb xrec b : in_family (point_decode q d clen clamp sb xrec b) = true.
Proof. unfold point_decode. fam. apply ed_point_decode_no_check_family. Qed.
Lemma ed_point_bytes_to_coord_family q clen clamp sb xrec b :
  in_family (point_bytes_to_coord q clen clamp sb xrec b) = true.
Proof. unfold point_bytes_to_coord. fam. apply ed_point_decode_no_check_family. Qed.
Lemma ed_on_curve_bytes_family q d clen clamp sb xrec b :
  in_family (point_is_on_curve_bytes q d clen clamp sb xrec b) = true.
Proof. unfold point_is_on_curve_bytes. fam. apply ed_point_bytes_to_coord_family. Qed.

(* Ed25519PrivateKey / Ed25519Blake2bPrivateKey / Ed25519KholawPrivateKey / Ed25519MoneroPrivateKey .FromBytes *)
Lemma ed_priv_from_bytes_family l pl nacl b2b cur k bs : in_family (Edw.priv_from_bytes l pl nacl b2b cur k bs) = true.
Proof. unfold Edw.priv_from_bytes. fam. Qed.

(* Ed25519PublicKey (+ Kholaw, Monero) / Ed25519Blake2bPublicKey .FromBytes *)
Lemma ed_pub_from_bytes_family q d clen clamp sb pre pl xrec vk cur k bs :
  in_family (Edw.pub_from_bytes q d clen clamp sb pre pl xrec vk cur k bs) = true.
Proof.
  unfold Edw.pub_from_bytes. fam. apply ed_on_curve_bytes_family.
Qed.

Lemma bytes_ok_split n b : bytes_ok b -> bytes_ok (firstn n b) /\ bytes_ok (skipn n b).
Proof. unfold bytes_ok. intros H. rewrite <- (firstn_skipn n b) in H. apply Forall_app in H. exact H. Qed.

Lemma or_last_family m b : b <> [] -> in_family (or_last m b) = true.
Proof.
  intros H. unfold or_last. destruct (rev b) eqn:E; [|reflexivity].
  exfalso. apply H. rewrite <- (rev_involutive b), E. reflexivity.
Qed.

Lemma ed_point_encode_family_of_bytes clen sign_byte (xb yb : list N) :
  clen = 32%nat -> bytes_ok xb -> bytes_ok yb -> length xb = clen -> length yb = clen ->
  in_family (point_encode clen sign_byte (int_decode xb, int_decode yb)) = true.
Proof.
  intros Hc Bx By Lx Ly. unfold point_encode, point_coord_to_bytes. cbn [fst snd].
  rewrite (Lemmas.Ed25519Lib.int_decode_encode clen Hc xb Bx Lx), (Lemmas.Ed25519Lib.int_decode_encode clen Hc yb By Ly).
  cbn [bind Ok].
  destruct xb as [|x0 xt]; [simpl in Lx; lia|]. cbn [app nth_error of_option bind Ok].
  destruct (N.odd x0); [|reflexivity].
  apply or_last_family. 
  replace (skipn clen (x0 :: xt ++ yb)) with yb.
  - intros ->. simpl in Ly. lia.
  - change (x0 :: xt ++ yb) with ((x0 :: xt) ++ yb). rewrite <- Lx, skipn_app, skipn_all, Nat.sub_diag. reflexivity.
Qed.

(* Ed25519Point.FromBytes (and the Blake2b / Kholaw / Monero subclasses) *)
Lemma ed_point_from_bytes_family q d clen clamp sb sbyte xrec cur bs :
  clen = 32%nat -> bytes_ok bs ->
  in_family (Edw.point_from_bytes q d clen clamp sb sbyte xrec cur bs) = true.
Proof.
  intros Hc Hb. unfold Edw.point_from_bytes.
  apply fam_bind; [apply ed_on_curve_bytes_family|]. intros oc _.
  destruct (negb oc); [reflexivity|].
  apply fam_bind; [|intros; fam].
  destruct (point_is_decoded_bytes clen bs) eqn:D; [|reflexivity].
  unfold Edw.to_coord, point_bytes_to_coord. rewrite D. cbn [bind Ok].
  destruct (negb cur && _); [reflexivity|].
  unfold Edw.encode. unfold point_is_decoded_bytes in D. apply Nat.eqb_eq in D.
  destruct (bytes_ok_split clen bs Hb) as [B1 B2].
  apply ed_point_encode_family_of_bytes; auto.
  - rewrite firstn_length. lia.
  - rewrite skipn_length. lia.
Qed.

(* ------------------------------------------------------------------ sr25519 (length checks only) *)
Lemma sr_priv_from_bytes_family pl bs : in_family (Sr.sr_priv_from_bytes pl bs) = true.
Proof. unfold Sr.sr_priv_from_bytes. fam. Qed.
Lemma sr_pub_from_bytes_family pl bs : in_family (Sr.sr_pub_from_bytes pl bs) = true.
Proof. unfold Sr.sr_pub_from_bytes. fam. Qed.

(* C04, Electrum v1: the key a watch-only ElectrumV1 object derives is the public key of the key the
   private object derives -- (master + sha256d(...)) mod n on the private side, point addition on
   the public side -- including the (cryptographically unreachable) case where both refuse. *)
From Coq Require Import NArith Arith List Lia Bool.
From BU Require Import Base.Exn Base.Radix Base.Bytes Model.Group Gen.DerivConsts.
From BU Require Import Model.Bip32Slip10 Model.Electrum.
From BU Require Import Lemmas.DerivAux Lemmas.DerivConstsOk Lemmas.GroupLaws Lemmas.Bip32Base.
Import ListNotations.
Open Scope N_scope.

Section ElectrumV1Proofs.
  Variable G : group_ops.
  Variable sha256 : list N -> list N.
  Notation n := (order G).
  Hypothesis n_pos : 0 < n.
  Hypothesis n_small : n <= 2 ^ 256.
  Hypothesis L : group_laws G.
  Hypothesis X : order_exact G.

  Definition ev1_wf (o : ev1 G) (kb : list N) : Prop :=
    e_priv G o = Some kb /\ length kb = 32%nat /\ 0 < be_to_int kb < n /\
    e_pub G o = point_of (be_to_int kb).

  Lemma ev1_from_private_key_wf kb o : ev1_from_private_key G kb = Ok o -> ev1_wf o kb.
  Proof.
    unfold ev1_from_private_key, ecdsa_priv_of_bytes. destruct (ecdsa_priv_valid G kb) eqn:V; [|discriminate].
    cbn [bind]. intros E. injection E as <-. apply ecdsa_valid_iff in V. destruct V as [V1 V2].
    repeat split; try assumption; apply V2.
  Qed.

  Theorem electrum_v1_commutes o kb change addr : ev1_wf o kb ->
    ev1_get_public_key G sha256 (ev1_to_public G o) change addr =
    ev1_get_public_key G sha256 o change addr.
  Proof.
    intros (W1 & W2 & W3 & W4). unfold ev1_get_public_key, ev1_get_private_key.
    change (ev1_sequence G sha256 (ev1_to_public G o) change addr) with (ev1_sequence G sha256 o change addr).
    cbn [ev1_to_public e_priv e_pub]. rewrite W1.
    destruct (ev1_indexes_ok change addr); [|reflexivity].
    set (s := be_to_int (ev1_sequence G sha256 o change addr)). set (k := be_to_int kb).
    assert (Hv : (k + s) mod n < n) by (apply N.mod_lt; lia).
    set (v := (k + s) mod n) in *.
    rewrite ecdsa_priv_len_32, int_to_be_fixed_ser by (rewrite pow256_32; lia). rewrite bind_ok.
    unfold ecdsa_pub_check, ecdsa_priv_of_bytes. rewrite W4. fold k.
    pose proof (is_zero_sum_iff G L X k s) as Z. unfold point_of.
    destruct (N.eq_dec v 0) as [E0|E0].
    - replace (is_zero (add (smul k base) (smul s base))) with true by (symmetry; apply Z; exact E0).
      replace (ecdsa_priv_valid G (SpecSlip10.ser_be 32 v)) with false; [reflexivity|].
      symmetry. apply not_true_is_false. intros T. apply ecdsa_valid_iff in T. destruct T as [_ T].
      rewrite ser_be_value in T by (rewrite pow256_32; lia). lia.
    - replace (is_zero (add (smul k base) (smul s base))) with false.
      + replace (ecdsa_priv_valid G (SpecSlip10.ser_be 32 v)) with true.
        * rewrite bind_ok. rewrite ser_be_value by (rewrite pow256_32; lia).
          unfold point_of, v. rewrite (smul_add_mod G L). reflexivity.
        * symmetry. apply ecdsa_valid_iff. split; [apply ser_be_length|].
          rewrite ser_be_value by (rewrite pow256_32; lia). lia.
      + symmetry. apply not_true_is_false. intros T. apply Z in T. contradiction.
  Qed.

  (* a watch-only object never yields a private key *)
  Theorem electrum_v1_public_only_refuses o change addr :
    ev1_get_private_key G sha256 (ev1_to_public G o) change addr = Err ValueError.
  Proof. reflexivity. Qed.
End ElectrumV1Proofs.

(* Vocabulary of Props/C16.v: the oracle bundle ([backend]), the laws theorems may assume about it, the
   model's entry points over a back-end, and a small concrete back-end satisfying all the laws (for the
   companion Examples). *)
From Coq Require Import NArith ZArith List Lia.
From BU Require Import Base.Exn Base.Bytes Gen.ConstsCardmon.
From BU Require Import Model.EdLib Model.AddrXmr Model.Monero.
From BU Require Lemmas.MoneroToy.
Import ListNotations.
Open Scope N_scope.

Record backend := {
  keccak : list N -> list N;
  G : Type;
  gadd : G -> G -> G;
  gmul : N -> G -> G;
  gbase : G;
  g_is_zero : G -> bool;
  penc : G -> list N;
  pdec : list N -> option G;
  p_refused : list N -> bool }.

Definition keccak_laws (o : backend) : Prop :=
  (forall x, length (keccak o x) = 32%nat) /\ (forall x, bytes_ok (keccak o x)).
Definition encoding_laws (o : backend) : Prop :=
  (forall P, length (penc o P) = 32%nat) /\ (forall P, bytes_ok (penc o P)) /\
  (forall P, pdec o (penc o P) = Some P).
Definition module_laws (o : backend) : Prop :=
  (forall x y P, gmul o (x + y) P = gadd o (gmul o x P) (gmul o y P)) /\
  (forall x y P, gmul o x (gmul o y P) = gmul o (x * y) P).

(* the model's entry points over a back-end *)
Definition from_seed o := Monero.from_seed (keccak o) (G o) (gmul o) (gbase o) (g_is_zero o) (penc o).
Definition from_priv_spend o := Monero.from_priv_spend (keccak o) (G o) (gmul o) (gbase o) (g_is_zero o) (penc o).
Definition from_bip44_priv o := Monero.from_bip44_priv (keccak o) (G o) (gmul o) (gbase o) (g_is_zero o) (penc o).
Definition from_watch_only o := Monero.from_watch_only (G o) (gmul o) (gbase o) (g_is_zero o) (penc o) (pdec o).
Definition compute_keys o :=
  Monero.compute_keys (keccak o) (G o) (gadd o) (gmul o) (gbase o) (g_is_zero o) (penc o) (pdec o) (p_refused o).
Definition primary_address o :=
  Monero.primary_address (keccak o) (G o) (gadd o) (gmul o) (gbase o) (g_is_zero o) (penc o) (pdec o) (p_refused o).
Definition subaddress o :=
  Monero.subaddress (keccak o) (G o) (gadd o) (gmul o) (gbase o) (g_is_zero o) (penc o) (pdec o) (p_refused o).
Definition integrated_address o := Monero.integrated_address (keccak o) (G o) (pdec o).
Definition encode_key o := AddrXmr.encode_key (keccak o) (G o) (pdec o).
Definition decode_addr o := AddrXmr.decode_addr (keccak o) (G o) (pdec o).
Definition addr_bytes o := AddrXmr.addr_bytes (keccak o).

(* n*G encoded *)
Definition pub_of o (n : N) : list N := penc o (gmul o n (gbase o)).
(* H_s: Keccak-256 read little-endian, reduced mod l *)
Definition hash_to_scalar o (b : list N) : N := le_to_int (keccak o b) mod ed_order.
(* the configured (address, integrated, sub-address) net bytes: mainnet, stagenet, testnet *)
Definition networks : list netconf := xmr_nets.


(* ---- a concrete back-end satisfying the laws ---- *)
Definition toy : backend := {|
  keccak := MoneroToy.toy_hash32; G := MoneroToy.z3; gadd := MoneroToy.z3_add; gmul := MoneroToy.z3_mul;
  gbase := MoneroToy.A1; g_is_zero := MoneroToy.z3_is_zero; penc := MoneroToy.z3_enc; pdec := MoneroToy.z3_dec;
  p_refused := fun _ => false |}.

Definition toy_net : netconf := nth 0 networks ([], [], []).
Definition toy_spend : list N := 5 :: repeat 0 31.


Lemma toy_wallet_ok_proof :
  In toy_net networks /\
  exists w, from_priv_spend toy toy_spend toy_net = Ok w /\
    from_seed toy toy_spend toy_net = Ok w /\
    (exists B, pdec toy (w_pub_s w) = Some B) /\ le_to_int (w_priv_v w) < ed_order /\
    (exists ds cs, compute_keys toy w 7 (2 ^ 32 - 1) = Ok (ds, cs) /\ ds <> w_pub_s w) /\
    (exists s, primary_address toy w = Ok s /\ decode_addr toy s (net_addr toy_net) None = Ok (w_pub_s w ++ w_pub_v w)) /\
    (exists s, subaddress toy w 7 (2 ^ 32 - 1) = Ok s /\
               exists k, decode_addr toy s (net_sub toy_net) None = Ok k /\ k <> w_pub_s w ++ w_pub_v w) /\
    (exists s, integrated_address toy w [1; 2; 3; 4; 5; 6; 7; 8] = Ok s /\
               decode_addr toy s (net_int toy_net) (Some [1; 2; 3; 4; 5; 6; 7; 8]) = Ok (w_pub_s w ++ w_pub_v w)) /\
    (exists w', from_watch_only toy (w_priv_v w) (w_pub_s w) toy_net = Ok w' /\
                private_spend_key w' = Err (LibError MoneroKeyError) /\
                subaddress toy w' 7 (2 ^ 32 - 1) = subaddress toy w 7 (2 ^ 32 - 1)).
Proof.
  split; [left; reflexivity|].
  destruct (from_priv_spend toy toy_spend toy_net) as [w|] eqn:E; [|vm_compute in E; discriminate].
  exists w. split; [reflexivity|].
  vm_compute in E. inversion E; subst w; clear E.
  split; [vm_compute; reflexivity|].
  split; [eexists; vm_compute; reflexivity|].
  split; [vm_compute; reflexivity|].
  split; [do 2 eexists; split; [vm_compute; reflexivity|vm_compute; discriminate]|].
  split; [eexists; split; vm_compute; reflexivity|].
  split; [eexists; split; [vm_compute; reflexivity|eexists; split; [vm_compute; reflexivity|vm_compute; discriminate]]|].
  split; [eexists; split; vm_compute; reflexivity|].
  eexists; split; [vm_compute; reflexivity|split; vm_compute; reflexivity].
Qed.

(* Proofs about Model/SubstratePath.v. *)
From Coq Require Import NArith ZArith List Bool Lia.
From BU Require Import Base.Exn Base.Radix Base.Bytes Gen.Unicode Gen.PathConsts Model.PyText Model.SubstrateScale
  Model.SubstratePath Lemmas.PyText Lemmas.UnicodeOk Lemmas.PathConstsOk Lemmas.SubstrateScale.
From BU Require Lemmas.Bip32Path.
Import ListNotations.
Open Scope N_scope.

Definition slash : N := 47.
Lemma sl_eq : sl = slash.
Proof. unfold sl. rewrite sub_body_slash_ok. reflexivity. Qed.

(* a well-formed junction: non-empty text without a slash *)
Definition elem_ok (el : elem) : Prop := e_body el <> [] /\ ~ In slash (e_body el).

(* ------------------------------------------------------------------ the regex scanner *)

Lemma re_scan_slashes acc k l :
  re_scan (InSlashes acc) (repeat sl k ++ l) = re_scan (InSlashes (acc ++ repeat sl k)) l.
Proof.
  revert acc. induction k as [|k IH]; intros acc; [rewrite app_nil_r; reflexivity|].
  cbn [repeat app re_scan]. rewrite N.eqb_refl, IH, <- app_assoc. reflexivity.
Qed.

Lemma re_scan_body acc body l : ~ In sl body ->
  re_scan (InBody acc) (body ++ l) = re_scan (InBody (acc ++ body)) l.
Proof.
  revert acc. induction body as [|x b IH]; intros acc H; [rewrite app_nil_r; reflexivity|].
  cbn [app re_scan]. destruct (N.eqb_spec x sl) as [->|_]; [exfalso; apply H; left; reflexivity|].
  rewrite IH by (intros I; apply H; right; exact I). rewrite <- app_assoc. reflexivity.
Qed.

(* a token: k+1 slashes and a body *)
Definition tok (kb : nat * list N) : list N := repeat sl (S (fst kb)) ++ snd kb.
Definition body_ok (b : list N) : Prop := b <> [] /\ ~ In sl b.

Lemma re_scan_tok k body rest : body_ok body ->
  re_scan (InSlashes [sl]) (repeat sl k ++ body ++ rest) = re_scan (InBody (tok (k, body))) rest.
Proof.
  intros [Hne Hns]. rewrite re_scan_slashes. destruct body as [|x b]; [congruence|].
  cbn [app re_scan]. destruct (N.eqb_spec x sl) as [->|_]; [exfalso; apply Hns; left; reflexivity|].
  rewrite re_scan_body by (intros I; apply Hns; right; exact I).
  unfold tok. cbn [fst snd repeat app]. rewrite <- !app_assoc. reflexivity.
Qed.

Lemma re_scan_trailing acc t : re_scan (InBody acc) (repeat sl t) = [acc].
Proof.
  destruct t as [|t]; [reflexivity|]. cbn [repeat re_scan]. rewrite N.eqb_refl. f_equal.
  rewrite <- (app_nil_r (repeat sl t)), re_scan_slashes. reflexivity.
Qed.

Lemma re_scan_toks toks t : Forall body_ok (map snd toks) ->
  forall acc, re_scan (InBody acc) (flat_map tok toks ++ repeat sl t) = acc :: map tok toks.
Proof.
  induction toks as [|[k body] r IH]; intros H acc.
  - apply re_scan_trailing.
  - inversion H; subst. cbn [flat_map map]. unfold tok at 1. cbn [fst snd repeat]. rewrite <- !app_assoc.
    cbn [app re_scan]. rewrite N.eqb_refl. f_equal.
    rewrite re_scan_tok by assumption. apply IH. assumption.
Qed.

Theorem re_findall_toks toks t : Forall body_ok (map snd toks) ->
  re_findall (flat_map tok toks ++ repeat sl t) = map tok toks.
Proof.
  intros H. unfold re_findall. destruct toks as [|[k body] r].
  - cbn [flat_map map app]. destruct t as [|t]; [reflexivity|]. cbn [repeat re_scan]. rewrite N.eqb_refl.
    rewrite <- (app_nil_r (repeat sl t)), re_scan_slashes. reflexivity.
  - inversion H; subst. cbn [flat_map map]. unfold tok at 1. cbn [fst snd repeat]. rewrite <- !app_assoc.
    cbn [app re_scan]. rewrite N.eqb_refl. rewrite re_scan_tok by assumption.
    apply re_scan_toks. assumption.
Qed.

(* ------------------------------------------------------------------ elements *)

Lemma remove_char_none c l : ~ In c l -> remove_char c l = l.
Proof.
  induction l as [|x t IH]; intros H; [reflexivity|]. simpl.
  destruct (N.eqb_spec x c) as [->|_]; [exfalso; apply H; left; reflexivity|].
  simpl. rewrite IH; [reflexivity|]. intros I; apply H; right; exact I.
Qed.

Lemma remove_char_app c a b : remove_char c (a ++ b) = remove_char c a ++ remove_char c b.
Proof. apply filter_app. Qed.

Lemma remove_char_not_in c l : ~ In c (remove_char c l).
Proof.
  unfold remove_char. rewrite filter_In. intros [_ H]. rewrite N.eqb_refl in H. discriminate.
Qed.

Lemma rfind_none c l : ~ In c l -> rfind c l = None.
Proof.
  induction l as [|x t IH]; intros H; [reflexivity|]. simpl.
  rewrite IH by (intros I; apply H; right; exact I).
  destruct (N.eqb_spec x c) as [->|_]; [exfalso; apply H; left; reflexivity|reflexivity].
Qed.

Lemma elem_to_str_tok el : elem_to_str el = tok ((if e_hard el then 1 else 0)%nat, e_body el).
Proof.
  unfold elem_to_str, tok. destruct sub_prefixes_ok as [-> ->]. rewrite sl_eq.
  destruct (e_hard el); reflexivity.
Qed.

Lemma elem_ok_body el : elem_ok el -> body_ok (e_body el).
Proof. unfold elem_ok, body_ok. rewrite sl_eq. auto. Qed.

Lemma make_elem_to_str el : elem_ok el -> make_elem (elem_to_str el) = Ok el.
Proof.
  intros [Hne Hns]. unfold make_elem, elem_valid, elem_to_str.
  destruct sub_prefixes_ok as [-> ->]. rewrite sub_rfind_bound_ok, sl_eq.
  destruct el as [body hard]. cbn [e_body e_hard] in *.
  assert (R : rfind slash body = None) by (apply rfind_none, Hns).
  assert (Hx : match body with x :: _ => x <> slash | [] => False end).
  { destruct body as [|x b]; [congruence|]. intros ->. apply Hns. left. reflexivity. }
  destruct hard.
  - cbn [app starts_with rfind]. rewrite R. change (47 =? slash) with true. cbn [andb orb].
    change (remove_char slash (47 :: 47 :: body)) with (remove_char slash body).
    rewrite remove_char_none by exact Hns. destruct body; [congruence|reflexivity].
  - cbn [app starts_with rfind]. rewrite R. change (47 =? slash) with true. cbn [andb orb].
    change (remove_char slash (47 :: body)) with (remove_char slash body).
    rewrite remove_char_none by exact Hns. destruct body as [|x b]; [congruence|].
    cbn [nonempty]. destruct (N.eqb_spec 47 x) as [<-|_]; [exfalso; apply Hx; reflexivity|reflexivity].
Qed.

Lemma make_elem_ok e el : make_elem e = Ok el -> elem_ok el.
Proof.
  unfold make_elem, elem_valid. rewrite sl_eq.
  destruct (_ && nonempty (remove_char slash e)) eqn:V; [|discriminate].
  intros H. inversion H; subst. apply andb_true_iff in V. destruct V as [_ V]. split; cbn [e_body].
  - destruct (remove_char slash e); [discriminate|discriminate].
  - apply remove_char_not_in.
Qed.

Lemma make_elem_err e x : make_elem e = Err x -> x = LibError SubstratePathError.
Proof. unfold make_elem. destruct (elem_valid e); [discriminate|intros H; inversion H; reflexivity]. Qed.

(* ------------------------------------------------------------------ parse / to_str *)

Lemma to_str_toks p : to_str p = flat_map tok (map (fun el => ((if e_hard el then 1 else 0)%nat, e_body el)) p).
Proof.
  unfold to_str. induction p as [|el r IH]; [reflexivity|]. cbn [flat_map map]. rewrite IH, elem_to_str_tok. reflexivity.
Qed.

Lemma starts_nonempty_ok (l : list N) t :
  (l = [] \/ exists r, l = slash :: r) ->
  nonempty (l ++ repeat slash t) && negb (starts_with sub_body_slash (l ++ repeat slash t)) = false.
Proof.
  rewrite sub_body_slash_ok. intros [->|(r & ->)].
  - destruct t; reflexivity.
  - reflexivity.
Qed.

Theorem parse_to_str_slashes p t : Forall elem_ok p -> parse (to_str p ++ repeat slash t) = Ok p.
Proof.
  intros H. unfold parse. rewrite starts_nonempty_ok.
  - rewrite to_str_toks. rewrite <- sl_eq. rewrite re_findall_toks.
    + rewrite map_map. apply Lemmas.Bip32Path.mapM_ok.
      induction H as [|el r Hel _ IH]; constructor; [|exact IH].
      cbn beta. rewrite <- elem_to_str_tok. apply make_elem_to_str, Hel.
    + rewrite map_map. cbn [snd]. induction H; constructor; [apply elem_ok_body; assumption|assumption].
  - destruct p as [|el r]; [left; reflexivity|right].
    unfold to_str. cbn [flat_map]. rewrite elem_to_str_tok. unfold tok. cbn [fst repeat]. rewrite sl_eq.
    eexists. reflexivity.
Qed.

Theorem parse_to_str p : Forall elem_ok p -> parse (to_str p) = Ok p.
Proof. intros H. rewrite <- (app_nil_r (to_str p)). apply (parse_to_str_slashes p 0 H). Qed.

Lemma parse_elems_ok s p : parse s = Ok p -> Forall elem_ok p.
Proof.
  unfold parse. destruct (_ && _); [discriminate|]. intros H. apply Lemmas.Bip32Path.mapM_ok in H.
  induction H; constructor; [eapply make_elem_ok; eauto|assumption].
Qed.

Theorem parse_print_parse s p : parse s = Ok p -> parse (to_str p) = Ok p.
Proof. intros H. apply parse_to_str. eapply parse_elems_ok; eauto. Qed.

Theorem parse_err s e : parse s = Err e -> e = LibError SubstratePathError.
Proof.
  unfold parse. destruct (_ && _); [intros H; inversion H; reflexivity|].
  intros H. apply Lemmas.Bip32Path.mapM_err in H. destruct H as (x & _ & Hx). eapply make_elem_err; eauto.
Qed.

(* ------------------------------------------------------------------ completeness: what the parser accepts *)

(* re-association of [fields_decomp]'s "token, then slashes" form into "slashes, then token" form *)
Fixpoint shift (k : nat) (toks : list (list N * nat)) : list (nat * list N) * nat :=
  match toks with
  | [] => ([], S k)
  | (t, g) :: r => match r with
                   | [] => ([(k, t)], g)
                   | _ => let '(l, tr) := shift g r in ((k, t) :: l, tr)
                   end
  end.

Lemma shift_spec toks : forall k,
  repeat sl (S k) ++ joined sl toks = flat_map tok (fst (shift k toks)) ++ repeat sl (snd (shift k toks)).
Proof.
  induction toks as [|[t g] r IH]; intros k.
  - cbn [joined shift fst snd flat_map app]. rewrite app_nil_r. reflexivity.
  - destruct r as [|p r'].
    + cbn [joined shift fst snd flat_map]. unfold tok. cbn [fst snd]. rewrite app_nil_r. apply app_assoc.
    + rewrite joined_cons. unfold jtail. specialize (IH g).
      change (shift k ((t, g) :: p :: r')) with (let '(l, tr) := shift g (p :: r') in ((k, t) :: l, tr)).
      destruct (shift g (p :: r')) as [l tr] eqn:E. cbn [fst snd] in *.
      cbn [flat_map]. unfold tok at 1. cbn [fst snd]. rewrite <- !app_assoc. do 2 f_equal. exact IH.
Qed.

Lemma shift_bodies toks k : Forall (tok_ok sl) (map fst toks) -> Forall body_ok (map snd (fst (shift k toks))).
Proof.
  revert k. induction toks as [|[t g] r IH]; intros k H; [constructor|].
  inversion H; subst. destruct r as [|p r'].
  - cbn. constructor; [assumption|constructor].
  - change (shift k ((t, g) :: p :: r')) with (let '(l, tr) := shift g (p :: r') in ((k, t) :: l, tr)).
    specialize (IH g H3). destruct (shift g (p :: r')) as [l tr]. cbn [fst snd map] in *.
    constructor; assumption.
Qed.

(* every string that is empty or starts with a slash is a sequence of tokens plus trailing slashes *)
Lemma slash_string_decomp s : (s = [] \/ exists r, s = sl :: r) ->
  exists toks t, s = flat_map tok toks ++ repeat sl t /\ Forall body_ok (map snd toks).
Proof.
  intros Hs. destruct (fields_decomp sl s) as (k0 & jt & E & _ & Hok).
  destruct k0 as [|k0].
  - destruct jt as [|[t g] r].
    + exists [], 0%nat. split; [exact E|constructor].
    + exfalso. cbn [repeat app] in E. rewrite joined_cons in E.
      assert (Ht : tok_ok sl t) by (inversion Hok; assumption). destruct Ht as [Hne Hns].
      destruct t as [|x t']; [congruence|].
      destruct Hs as [Hs|(r0 & Hs)]; rewrite Hs in E; [discriminate|].
      inversion E as [[Ex Et]]. apply Hns. left. symmetry. exact Ex.
  - exists (fst (shift k0 jt)), (snd (shift k0 jt)). split; [rewrite E; apply shift_spec|apply shift_bodies, Hok].
Qed.

Lemma rfind_tok k body : ~ In sl body -> rfind sl (repeat sl (S k) ++ body) = Some k.
Proof.
  intros H. induction k as [|k IH].
  - cbn [repeat app rfind]. rewrite (rfind_none sl body H), N.eqb_refl. reflexivity.
  - change (repeat sl (S (S k)) ++ body) with (sl :: (repeat sl (S k) ++ body)). cbn [rfind]. rewrite IH. reflexivity.
Qed.

Lemma remove_char_repeat c k : remove_char c (repeat c k) = [].
Proof. induction k; [reflexivity|]. simpl. rewrite N.eqb_refl. simpl. exact IHk. Qed.

Lemma make_elem_tok k body el : body_ok body -> make_elem (tok (k, body)) = Ok el ->
  elem_to_str el = tok (k, body) /\ elem_ok el.
Proof.
  intros [Hne Hns] H. pose proof (make_elem_ok _ _ H) as Hok. split; [|exact Hok]. clear Hok.
  unfold make_elem, elem_valid, elem_to_str, tok in *. cbn [fst snd] in *.
  destruct sub_prefixes_ok as [Es Eh]. rewrite Es, Eh in *. rewrite sub_rfind_bound_ok in H.
  rewrite (rfind_tok k body Hns) in H.
  rewrite remove_char_app, remove_char_repeat, remove_char_none in H by exact Hns. cbn [app] in H.
  destruct body as [|x b]; [congruence|].
  assert (Hx : (47 =? x) = false).
  { apply N.eqb_neq. intros <-. apply Hns. left. rewrite sl_eq. reflexivity. }
  rewrite sl_eq in *. unfold slash in *.
  destruct k as [|[|k]].
  - cbn [repeat app starts_with] in H. rewrite Hx in H. simpl in H. inversion H. reflexivity.
  - cbn [repeat app starts_with] in H. simpl in H. inversion H. reflexivity.
  - exfalso. destruct (Nat.ltb_spec (S (S k)) 2) as [L|_]; [lia|]. rewrite andb_false_r in H. discriminate.
Qed.

Theorem parse_complete s p : parse s = Ok p ->
  exists t, s = to_str p ++ repeat slash t /\ Forall elem_ok p.
Proof.
  unfold parse. rewrite sub_body_slash_ok.
  destruct (nonempty s && negb (starts_with [47] s)) eqn:G; [discriminate|]. intros H.
  assert (Hs : s = [] \/ exists r, s = sl :: r).
  { destruct s as [|x r]; [left; reflexivity|right]. cbn [nonempty starts_with andb] in G.
    destruct (N.eqb_spec 47 x) as [<-|]; [|discriminate]. exists r. rewrite sl_eq. reflexivity. }
  destruct (slash_string_decomp s Hs) as (toks & t & E & Hb).
  rewrite E, re_findall_toks in H by exact Hb. apply Lemmas.Bip32Path.mapM_ok in H.
  exists t. rewrite <- sl_eq, E.
  assert (G2 : to_str p = flat_map tok toks /\ Forall elem_ok p).
  { clear E G Hs. revert p H. induction toks as [|[k body] r IH]; intros p H; inversion H; subst.
    - split; [reflexivity|constructor].
    - cbn [map] in Hb. inversion Hb; subst.
      destruct (make_elem_tok k body y H3 H2) as [E1 E2].
      destruct (IH H5 l' H4) as [E3 E4]. split; [|constructor; assumption].
      unfold to_str in *. cbn [flat_map]. rewrite E1, E3. reflexivity. }
  destruct G2 as [-> F]. auto.
Qed.

Theorem parse_accepts_iff s p :
  parse s = Ok p <-> exists t, s = to_str p ++ repeat slash t /\ Forall elem_ok p.
Proof.
  split; [apply parse_complete|]. intros (t & -> & F). apply parse_to_str_slashes, F.
Qed.

(* ------------------------------------------------------------------ chain codes: integers *)

Lemma lt_of_size_le v k : N.size v <= k -> v < 2 ^ k.
Proof.
  intros H. apply N.lt_le_trans with (2 ^ N.size v); [apply N.size_gt|]. apply N.pow_le_mono_r; lia.
Qed.

Lemma size_le_of_lt v k : v < 2 ^ k -> N.size v <= k.
Proof.
  intros H. destruct (N.le_gt_cases (N.size v) k) as [|Hgt]; [assumption|exfalso].
  pose proof (N.size_le v) as S. rewrite N.succ_double_spec in S.
  assert (2 ^ (k + 1) <= 2 ^ N.size v) by (apply N.pow_le_mono_r; lia).
  rewrite N.pow_add_r in H0. change (2 ^ 1) with 2 in H0. lia.
Qed.

Lemma pow256 n : 256 ^ N.of_nat n = 2 ^ (8 * N.of_nat n).
Proof. rewrite N.pow_mul_r. reflexivity. Qed.

Definition enc_table : list (N * nat) :=
  [(8, 1%nat); (16, 2%nat); (32, 4%nat); (64, 8%nat); (128, 16%nat); (256, 32%nat)].

Lemma find_enc_some v : v < 2 ^ 256 -> exists bits n,
  find (fun be => N.size v <=? fst be) enc_table = Some (bits, n) /\ v < 2 ^ bits /\
  bits = 8 * N.of_nat n /\ (n <= 32)%nat.
Proof.
  intros H. apply size_le_of_lt in H. unfold enc_table. cbn [find fst].
  destruct (N.leb_spec (N.size v) 8) as [L|_]; [exists 8, 1%nat; repeat split; [apply lt_of_size_le, L|lia]|].
  destruct (N.leb_spec (N.size v) 16) as [L|_]; [exists 16, 2%nat; repeat split; [apply lt_of_size_le, L|lia]|].
  destruct (N.leb_spec (N.size v) 32) as [L|_]; [exists 32, 4%nat; repeat split; [apply lt_of_size_le, L|lia]|].
  destruct (N.leb_spec (N.size v) 64) as [L|_]; [exists 64, 8%nat; repeat split; [apply lt_of_size_le, L|lia]|].
  destruct (N.leb_spec (N.size v) 128) as [L|_]; [exists 128, 16%nat; repeat split; [apply lt_of_size_le, L|lia]|].
  destruct (N.leb_spec (N.size v) 256) as [L|L]; [exists 256, 32%nat; repeat split; [apply lt_of_size_le, L|lia]|lia].
Qed.

Lemma find_enc_none v : 2 ^ 256 <= v -> find (fun be => N.size v <=? fst be) enc_table = None.
Proof.
  intros H. assert (S : 256 < N.size v).
  { destruct (N.le_gt_cases (N.size v) 256) as [L|]; [|assumption]. apply lt_of_size_le in L. lia. }
  unfold enc_table. cbn [find fst].
  repeat match goal with |- context [N.size v <=? ?b] => destruct (N.leb_spec (N.size v) b); [lia|] end.
  reflexivity.
Qed.

(* int() on a junction that passed str.isdecimal(): it can fail only on the interpreter's digit limit *)
Lemma py_int_decimal body : py_isdecimal body = true ->
  py_int body = if int_limit_ok (length body) then Ok (Z.of_N (numeral_value body)) else Err ValueError.
Proof.
  unfold py_isdecimal. rewrite andb_true_iff. intros [Hne Hd].
  assert (Hn : forallb cp_isnumeric body = true).
  { apply forallb_forall. intros c I. apply cp_decimal_numeric. rewrite forallb_forall in Hd. auto. }
  rewrite (py_int_numeric body Hn), Hne, Hd. reflexivity.
Qed.

Section ChainCodeLemmas.
  Variable blake : list N -> list N.

  Lemma chain_code_int body : py_isdecimal body = true -> int_limit_ok (length body) = true ->
    chain_code blake body =
    (enc <- match find (fun be => N.size (numeral_value body) <=? fst be) enc_table with
            | Some (_, nbytes) => uint_encode_str nbytes body
            | None => Err (LibError SubstratePathError)
            end ;;
     if (sub_enc_elem_max_len <? length enc)%nat then Ok (blake enc)
     else Ok (enc ++ repeat 0 (sub_enc_elem_max_len - length enc))).
  Proof.
    intros H1 H2. unfold chain_code. rewrite H1, (py_int_decimal body H1), H2, sub_scale_int_encoders_ok.
    fold enc_table. unfold Ok. cbv beta iota. unfold bit_length. rewrite Zabs2N.id. reflexivity.
  Qed.

  Theorem chain_code_numeric body : py_isdecimal body = true ->
    (int_limit_ok (length body) = true -> numeral_value body < 2 ^ 256 ->
       exists b, chain_code blake body = Ok b /\ length b = 32%nat /\ bytes_ok b /\ le_to_int b = numeral_value body) /\
    (int_limit_ok (length body) = true -> 2 ^ 256 <= numeral_value body ->
       chain_code blake body = Err (LibError SubstratePathError)) /\
    (int_limit_ok (length body) = false -> chain_code blake body = Err (LibError SubstratePathError)).
  Proof.
    intros Hd. set (v := numeral_value body). split; [|split].
    - intros Hl Hv. rewrite (chain_code_int body Hd Hl). fold v.
      pose proof (py_int_decimal body Hd) as Hint. rewrite Hl in Hint. fold v in Hint.
      destruct (find_enc_some v Hv) as (bits & n & -> & Hb & -> & Hn).
      unfold uint_encode_str. rewrite Hint, bind_ok.
      assert (E1 : (Z.of_N v <? 0)%Z = false) by (apply Z.ltb_ge; lia).
      assert (E2 : (Z.of_N (2 ^ (8 * N.of_nat n)) - 1 <? Z.of_N v)%Z = false) by (apply Z.ltb_ge; lia).
      rewrite E1, E2, N2Z.id. cbn [orb].
      destruct (int_to_le_fixed_fits n v) as (l & El); [rewrite pow256; exact Hb|].
      destruct (int_to_le_fixed_ok n v l El) as (B1 & B2 & B3).
      rewrite El, bind_ok, sub_enc_elem_max_len_ok, B2.
      destruct (Nat.ltb_spec 32 n); [lia|].
      exists (l ++ repeat 0 (32 - n)). split; [reflexivity|].
      split; [rewrite app_length, repeat_length; lia|].
      split; [apply bytes_ok_app; split; [exact B1|apply bytes_ok_repeat0]|].
      unfold le_to_int in *. rewrite (from_le_pad 256 r256). exact B3.
    - intros Hl Hv. rewrite (chain_code_int body Hd Hl). fold v. rewrite (find_enc_none v Hv). reflexivity.
    - intros Hl. unfold chain_code. rewrite Hd, (py_int_decimal body Hd), Hl. reflexivity.
  Qed.

  (* ---------------------------------------------------------------- chain codes: text *)

  Theorem chain_code_text body u : py_isdecimal body = false -> utf8_encode body = Ok u ->
    let n := N.of_nat (length u) in
    ((length u <= 31)%nat ->
       chain_code blake body = Ok (4 * n :: u ++ repeat 0 (31 - length u))) /\
    ((32 <= length u)%nat -> n < 2 ^ 6 -> chain_code blake body = Ok (blake (4 * n :: u))) /\
    (2 ^ 6 <= n < 2 ^ 14 -> exists pre, length pre = 2%nat /\ bytes_ok pre /\ le_to_int pre = 4 * n + 1 /\
       chain_code blake body = Ok (blake (pre ++ u))) /\
    (2 ^ 14 <= n < 2 ^ 30 -> exists pre, length pre = 4%nat /\ bytes_ok pre /\ le_to_int pre = 4 * n + 2 /\
       chain_code blake body = Ok (blake (pre ++ u))).
  Proof.
    intros Hn Hu n. unfold chain_code, bytes_encode_str. rewrite Hn, Hu, bind_ok. fold n.
    destruct (cuint_encode_spec n) as (C1 & C2 & C3). rewrite sub_enc_elem_max_len_ok.
    split; [|split; [|split]].
    - intros L. rewrite C1 by (unfold n; change (2 ^ 6) with 64; lia). rewrite !bind_ok. cbn [app length].
      destruct (Nat.ltb_spec 32 (S (length u))); [lia|].
      replace (32 - S (length u))%nat with (31 - length u)%nat by lia. reflexivity.
    - intros L Hs. rewrite C1 by exact Hs. rewrite !bind_ok. cbn [app length].
      destruct (Nat.ltb_spec 32 (S (length u))); [reflexivity|lia].
    - intros Hr. destruct (C2 Hr) as (pre & -> & P1 & P2 & P3). rewrite !bind_ok. exists pre.
      repeat split; auto. rewrite app_length, P1.
      destruct (Nat.ltb_spec 32 (2 + length u)); [reflexivity|].
      unfold n in Hr. change (2 ^ 6) with 64 in Hr. lia.
    - intros Hr. destruct (C3 Hr) as (pre & -> & P1 & P2 & P3). rewrite !bind_ok. exists pre.
      repeat split; auto. rewrite app_length, P1.
      destruct (Nat.ltb_spec 32 (4 + length u)); [reflexivity|].
      unfold n in Hr. change (2 ^ 14) with 16384 in Hr. lia.
  Qed.

  Theorem chain_code_text_unencodable body e : py_isdecimal body = false -> utf8_encode body = Err e ->
    chain_code blake body = Err UnicodeError.
  Proof.
    intros Hn Hu. unfold chain_code, bytes_encode_str. rewrite Hn, Hu. cbn [bind].
    rewrite (utf8_encode_err _ _ Hu). reflexivity.
  Qed.

  (* every refusal is the path error, or the encoding error of a lone surrogate
     (for junction texts shorter than 2^30 encoded bytes, the range of the fixed-width compact modes) *)
  Theorem chain_code_err body e :
    (forall u, utf8_encode body = Ok u -> N.of_nat (length u) < 2 ^ 30) ->
    chain_code blake body = Err e ->
    e = LibError SubstratePathError \/ (e = UnicodeError /\ py_isdecimal body = false).
  Proof.
    intros Hshort H. destruct (py_isdecimal body) eqn:Hd.
    - left. destruct (chain_code_numeric body Hd) as (A & B & C).
      destruct (int_limit_ok (length body)) eqn:Hl.
      + destruct (N.lt_ge_cases (numeral_value body) (2 ^ 256)) as [Hv|Hv].
        * destruct (A eq_refl Hv) as (b & E & _). rewrite E in H. discriminate.
        * rewrite (B eq_refl Hv) in H. inversion H. reflexivity.
      + rewrite (C eq_refl) in H. inversion H. reflexivity.
    - right. split; [|reflexivity]. destruct (utf8_encode body) as [u|e'] eqn:Hu.
      + exfalso. destruct (chain_code_text body u Hd Hu) as (T1 & T2 & T3 & T4).
        set (n := N.of_nat (length u)) in *.
        destruct (Nat.le_gt_cases (length u) 31) as [L|L]; [rewrite (T1 L) in H; discriminate|].
        destruct (N.lt_ge_cases n (2 ^ 6)) as [L1|L1]; [rewrite (T2 ltac:(lia) L1) in H; discriminate|].
        destruct (N.lt_ge_cases n (2 ^ 14)) as [L2|L2].
        { destruct (T3 (conj L1 L2)) as (pre & _ & _ & _ & E). rewrite E in H. discriminate. }
        destruct (N.lt_ge_cases n (2 ^ 30)) as [L3|L3].
        { destruct (T4 (conj L2 L3)) as (pre & _ & _ & _ & E). rewrite E in H. discriminate. }
        specialize (Hshort u eq_refl). fold n in Hshort. lia.
      + rewrite (chain_code_text_unencodable body e' Hd Hu) in H. inversion H. reflexivity.
  Qed.

  (* ---------------------------------------------------------------- derivation *)
  Variable hard_derive soft_derive : list N -> list N -> list N -> list N * list N.
  Variable soft_derive_pub : list N -> list N -> list N.

  Notation child_key := (child_key blake hard_derive soft_derive soft_derive_pub).
  Notation derive_path := (derive_path blake hard_derive soft_derive soft_derive_pub).

  Theorem derive_app p q k : derive_path k (p ++ q) = (k' <- derive_path k p ;; derive_path k' q).
  Proof.
    revert k. induction p as [|el p IH]; intros k; [reflexivity|]. cbn [app SubstratePath.derive_path].
    destruct (child_key k el) as [k'|e]; [apply IH|reflexivity].
  Qed.

  Lemma derive_fold p k : derive_path k p = fold_left (fun r el => k' <- r ;; child_key k' el) p (Ok k).
  Proof.
    assert (G : forall r, (k' <- r ;; derive_path k' p) = fold_left (fun r el => k' <- r ;; child_key k' el) p r).
    { induction p as [|el p IH]; intros r; [destruct r; reflexivity|]. cbn [fold_left]. rewrite <- IH.
      destruct r as [k'|e]; reflexivity. }
    rewrite <- G. reflexivity.
  Qed.

  Theorem hard_refused_public k el : k_priv k = None -> e_hard el = true ->
    child_key k el = Err (LibError SubstrateKeyError).
  Proof. intros Hk He. unfold SubstratePath.child_key. rewrite Hk, He. reflexivity. Qed.

  Lemma public_stays_public p : forall k k', k_priv k = None -> derive_path k p = Ok k' -> k_priv k' = None.
  Proof.
    induction p as [|el p IH]; intros k k' Hk H; cbn [SubstratePath.derive_path] in H.
    - inversion H; subst; exact Hk.
    - destruct (child_key k el) as [k1|] eqn:E; [|discriminate]. cbn [bind] in H.
      apply (IH k1 k'); [|exact H]. unfold SubstratePath.child_key in E. rewrite Hk in E.
      destruct (e_hard el); [discriminate|]. destruct (chain_code blake (e_body el)); [|discriminate].
      inversion E; reflexivity.
  Qed.

  (* a hard junction anywhere in the path is refused once the object is public-only *)
  Theorem hard_refused_public_path k p el q k' : k_priv k = None -> derive_path k p = Ok k' ->
    e_hard el = true -> derive_path k (p ++ el :: q) = Err (LibError SubstrateKeyError).
  Proof.
    intros Hk Hp He. rewrite derive_app, Hp, bind_ok. cbn [SubstratePath.derive_path].
    rewrite (hard_refused_public k' el (public_stays_public p k k' Hk Hp) He). reflexivity.
  Qed.

  Section SoftLaw.
    (* the schnorrkel law: the public half of a soft-derived key pair is the soft-derived public key *)
    Hypothesis soft_law : forall cc pk sk, fst (soft_derive cc pk sk) = soft_derive_pub cc pk.

    Theorem soft_commutes_public_step k el : e_hard el = false ->
      rmap to_public (child_key k el) = child_key (to_public k) el.
    Proof.
      intros He. unfold SubstratePath.child_key, to_public. cbn [k_priv k_pub k_path]. rewrite He.
      destruct (k_priv k) as [sk|]; destruct (chain_code blake (e_body el)) as [cc|e]; cbn [bind rmap]; try reflexivity.
      specialize (soft_law cc (k_pub k) sk). destruct (soft_derive cc (k_pub k) sk) as [pk' sk'].
      cbn [fst] in soft_law. subst pk'. reflexivity.
    Qed.

    Theorem soft_commutes_public p : forall k, Forall (fun el => e_hard el = false) p ->
      rmap to_public (derive_path k p) = derive_path (to_public k) p.
    Proof.
      induction p as [|el p IH]; intros k H; [reflexivity|]. inversion H; subst.
      cbn [SubstratePath.derive_path]. rewrite <- soft_commutes_public_step by assumption.
      destruct (child_key k el) as [k1|e]; cbn [bind rmap]; [apply IH; assumption|reflexivity].
    Qed.
  End SoftLaw.
End ChainCodeLemmas.

(* Base32 theorems on the library constants regenerated from /repo. *)
From Coq Require Import NArith Arith List.
From BU Require Import Base.Exn Base.Bytes Gen.CodecConsts Model.Base32 Model.Codecs.
From BU Require Lemmas.Base32.
Import ListNotations.
Open Scope N_scope.

(* obligations on the generated constants: the library's alphabet is the RFC 4648 one (needed because the
   custom alphabet is translated to Base32Const.ALPHABET while b32decode uses the stdlib's), its pad is "=" *)
Lemma b32_alphabet_rfc : b32_alphabet = rfc_alphabet.
Proof. reflexivity. Qed.
Lemma b32_pad_char_rfc : b32_pad_char = [rfc_pad].
Proof. reflexivity. Qed.

Theorem b32_roundtrip : forall b custom, bytes_ok b -> Lemmas.Base32.custom_ok custom ->
  exists s, b32_encode b custom = Ok s /\ b32_decode s custom = Ok b.
Proof.
  unfold b32_encode, b32_decode. rewrite b32_alphabet_rfc, b32_pad_char_rfc. exact Lemmas.Base32.decode_encode.
Qed.

Theorem b32_roundtrip_no_padding : forall b custom, bytes_ok b -> Lemmas.Base32.custom_ok custom ->
  exists s, b32_encode_no_padding b custom = Ok s /\ b32_decode s custom = Ok b /\ ~ In rfc_pad s.
Proof.
  unfold b32_encode_no_padding, b32_decode. rewrite b32_alphabet_rfc, b32_pad_char_rfc.
  exact Lemmas.Base32.decode_encode_no_padding.
Qed.

Theorem b32_encode_standard : forall b custom s, bytes_ok b -> Lemmas.Base32.custom_ok custom ->
  b32_encode b custom = Ok s ->
  (length s mod 8)%nat = 0%nat /\
  exists ds, Lemmas.Base32.digits5 b ds /\
    s = map (sym32 (Lemmas.Base32.eff custom)) ds ++ repeat rfc_pad (Lemmas.Base32.padcount (length ds)).
Proof.
  unfold b32_encode. rewrite b32_alphabet_rfc. exact Lemmas.Base32.encode_standard.
Qed.

Theorem b32_decode_custom_foreign : forall s c ch, In ch s -> ~ In ch c -> ch <> rfc_pad ->
  b32_decode s (Some c) = Err ValueError.
Proof.
  unfold b32_decode. rewrite b32_alphabet_rfc, b32_pad_char_rfc. exact Lemmas.Base32.decode_custom_foreign.
Qed.

Theorem b32_decode_err : forall s custom e, b32_decode s custom = Err e -> e = ValueError.
Proof. unfold b32_decode. rewrite b32_alphabet_rfc, b32_pad_char_rfc. exact Lemmas.Base32.decode_err. Qed.

Theorem b32_canonical_refuted :
  b32_decode [65; 66] None = Ok [0] /\ b32_encode_no_padding [0] None = Ok [65; 65].
Proof. split; vm_compute; reflexivity. Qed.

(* SCALE theorems on the thresholds regenerated from /repo. *)
From Coq Require Import NArith ZArith List Lia.
From BU Require Import Base.Exn Base.Bytes Gen.CodecConsts Model.Scale Model.Codecs.
From BU Require Lemmas.Scale.
Import ListNotations.
Open Scope N_scope.

(* obligations on the generated constants *)
Lemma scale_single_def : scale_single_max = 2 ^ 6 - 1. Proof. reflexivity. Qed.
Lemma scale_two_def : scale_two_max = 2 ^ 14 - 1. Proof. reflexivity. Qed.
Lemma scale_four_def : scale_four_max = 2 ^ 30 - 1. Proof. reflexivity. Qed.
Lemma scale_big_def : scale_big_max = 2 ^ 536 - 1. Proof. vm_compute. reflexivity. Qed.
Lemma scale_uint_lens : scale_uint_byte_lens = [1; 2; 4; 8; 16; 32]. Proof. reflexivity. Qed.

Theorem scale_compact_dec_enc : forall v rest, v <= scale_big_max ->
  exists b, scale_compact_encode (Z.of_N v) = Ok b /\ compact_decode (b ++ rest) = Ok (v, rest) /\ bytes_ok b.
Proof.
  exact (Lemmas.Scale.compact_decode_encode _ _ _ _ scale_single_def scale_two_def scale_four_def scale_big_def).
Qed.

Theorem scale_compact_inj : forall v1 v2 b1 b2 r1 r2, v1 <= scale_big_max -> v2 <= scale_big_max ->
  scale_compact_encode (Z.of_N v1) = Ok b1 -> scale_compact_encode (Z.of_N v2) = Ok b2 ->
  b1 ++ r1 = b2 ++ r2 -> v1 = v2 /\ r1 = r2.
Proof.
  exact (Lemmas.Scale.compact_encode_inj _ _ _ _ scale_single_def scale_two_def scale_four_def scale_big_def).
Qed.

Theorem scale_compact_range : forall v,
  ((Z.of_N scale_big_max < v)%Z -> scale_compact_encode v = Err ValueError) /\
  ((v < 0)%Z -> scale_compact_encode v = Err OverflowError).
Proof.
  intros v. split.
  - exact (Lemmas.Scale.compact_encode_range _ _ _ _ scale_single_def scale_two_def scale_four_def scale_big_def v).
  - intros H. unfold scale_compact_encode, Scale.compact_encode. destruct (Z.ltb_spec v 0); [reflexivity|lia].
Qed.

Theorem scale_bytes_dec_enc : forall b rest, bytes_ok b -> N.of_nat (length b) <= scale_big_max ->
  exists s, scale_bytes_encode b = Ok s /\ bytes_decode (s ++ rest) = Ok (b, rest).
Proof.
  exact (Lemmas.Scale.bytes_decode_encode _ _ _ _ scale_single_def scale_two_def scale_four_def scale_big_def).
Qed.

Lemma uint_width kind w : nth_error scale_uint_byte_lens kind = Some w -> w <> 0.
Proof.
  rewrite scale_uint_lens. intros H.
  do 6 (destruct kind as [|kind]; [inversion H; discriminate|]). destruct kind; discriminate.
Qed.

Theorem scale_uint_dec_enc : forall kind w v rest, nth_error scale_uint_byte_lens kind = Some w -> v < 256 ^ w ->
  exists b, scale_uint_encode kind (Z.of_N v) = Ok b /\ uint_decode (N.to_nat w) (b ++ rest) = Ok (v, rest) /\
            length b = N.to_nat w.
Proof.
  intros kind w v rest Hk Hv. unfold scale_uint_encode. rewrite Hk.
  destruct (Lemmas.Scale.uint_decode_encode w v rest (uint_width _ _ Hk) Hv) as (b & E & D).
  destruct (Lemmas.Scale.uint_encode_ok w v (uint_width _ _ Hk) Hv) as (b' & E' & _ & L & _).
  rewrite E in E'. assert (b = b') by (unfold Ok in E'; congruence). subst. eauto.
Qed.

Theorem scale_uint_inj : forall kind w v1 v2 b, nth_error scale_uint_byte_lens kind = Some w ->
  v1 < 256 ^ w -> v2 < 256 ^ w ->
  scale_uint_encode kind (Z.of_N v1) = Ok b -> scale_uint_encode kind (Z.of_N v2) = Ok b -> v1 = v2.
Proof.
  intros kind w v1 v2 b Hk. unfold scale_uint_encode. rewrite Hk.
  apply Lemmas.Scale.uint_encode_inj. exact (uint_width _ _ Hk).
Qed.

Theorem scale_uint_range : forall kind w v, nth_error scale_uint_byte_lens kind = Some w ->
  (v < 0 \/ Z.of_N (256 ^ w) <= v)%Z -> scale_uint_encode kind v = Err ValueError.
Proof.
  intros kind w v Hk H. unfold scale_uint_encode. rewrite Hk. apply Lemmas.Scale.uint_encode_range. exact H.
Qed.

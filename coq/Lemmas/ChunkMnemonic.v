(* Proofs about Model/ChunkMnemonic.v. *)
From Coq Require Import NArith Arith List Lia Bool.
From BU Require Import Base.Exn Base.Radix Base.Bytes Model.MnemWords Model.ChunkMnemonic Lemmas.MnemWords Gen.MnemConsts.
Import ListNotations.
Open Scope N_scope.

(* ------------------------------------------------------------------ index arithmetic *)
Section ChunkArith.
  Variable n : N.
  Hypothesis n_pos : 0 < n.

  Lemma mod_2n x : x < 2 * n -> x mod n = if x <? n then x else x - n.
  Proof.
    intros H. destruct (N.ltb_spec x n) as [L|L].
    - apply N.mod_small; assumption.
    - symmetry. apply (N.mod_unique x n 1 (x - n)); lia.
  Qed.

  Lemma sub_mod_lt a b : sub_mod n a b < n.
  Proof. unfold sub_mod. apply N.mod_lt. lia. Qed.

  (* ((d + a) - a) mod n = d *)
  Lemma sub_mod_add a d : a < n -> d < n -> sub_mod n ((d + a) mod n) a = d.
  Proof.
    intros Ha Hd. unfold sub_mod. rewrite (mod_2n (d + a)) by lia.
    destruct (N.ltb_spec (d + a) n) as [L|L].
    - symmetry. apply (N.mod_unique (d + a + n - a) n 1 d); lia.
    - symmetry. apply (N.mod_unique (d + a - n + n - a) n 0 d); lia.
  Qed.

  (* ((a - b) mod n + b) mod n = a *)
  Lemma add_sub_mod a b : a < n -> b < n -> (sub_mod n a b + b) mod n = a.
  Proof.
    intros Ha Hb. unfold sub_mod. rewrite (mod_2n (a + n - b)) by lia.
    destruct (N.ltb_spec (a + n - b) n) as [L|L].
    - symmetry. apply (N.mod_unique (a + n - b + b) n 1 a); lia.
    - symmetry. apply (N.mod_unique (a + n - b - n + b) n 0 a); lia.
  Qed.

  Lemma chunk_to_idx_lt x w1 w2 w3 :
    chunk_to_idx n x = (w1, w2, w3) -> w1 < n /\ w2 < n /\ w3 < n.
  Proof.
    unfold chunk_to_idx. intros E. inversion E; subst.
    repeat split; apply N.mod_lt; lia.
  Qed.

  (* every index triple is recovered from its packed value: WordsToBytesChunk then BytesChunkToWords
     at the level of integers, for ALL triples (also those that do not fit 32 bits) *)
  Lemma chunk_packed w1 w2 w3 : w1 < n -> w2 < n -> w3 < n ->
    chunk_to_idx n (packed n w1 w2 w3) = (w1, w2, w3).
  Proof.
    intros H1 H2 H3. unfold packed, chunk_to_idx.
    rewrite (N.mod_small w2 n H2), (N.mod_small w3 n H3).
    set (d1 := sub_mod n w2 w1). set (d2 := sub_mod n w3 w2).
    assert (Hd1 : d1 < n) by apply sub_mod_lt.
    assert (Hd2 : d2 < n) by apply sub_mod_lt.
    set (x := w1 + n * d1 + n * n * d2).
    assert (Xm : x mod n = w1).
    { symmetry. apply (N.mod_unique x n (d1 + n * d2) w1); unfold x; lia. }
    assert (Xd : x / n = d1 + n * d2).
    { symmetry. apply (N.div_unique x n (d1 + n * d2) w1); unfold x; lia. }
    assert (Xdd : (d1 + n * d2) / n = d2).
    { symmetry. apply (N.div_unique (d1 + n * d2) n d2 d1); lia. }
    rewrite Xm, Xd, Xdd.
    assert (W2 : (d1 + n * d2 + w1) mod n = w2).
    { replace (d1 + n * d2 + w1) with (d1 + w1 + d2 * n) by lia.
      rewrite N.mod_add by lia. unfold d1. apply add_sub_mod; assumption. }
    rewrite W2. unfold d2. rewrite (add_sub_mod w3 w2 H3 H2). reflexivity.
  Qed.

  (* BytesChunkToWords then WordsToBytesChunk at the level of integers, below n^3 *)
  Lemma packed_chunk x w1 w2 w3 : x < n * n * n ->
    chunk_to_idx n x = (w1, w2, w3) -> packed n w1 w2 w3 = x.
  Proof.
    intros Hx E. unfold chunk_to_idx in E. inversion E; subst; clear E. unfold packed.
    set (q := x / n). set (w1 := x mod n).
    assert (Hw1 : w1 < n) by (apply N.mod_lt; lia).
    assert (Hq2 : q / n < n).
    { apply N.div_lt_upper_bound; [lia|]. unfold q. apply N.div_lt_upper_bound; [lia|]. lia. }
    rewrite !N.mod_mod by lia.
    replace ((q + w1) mod n) with ((q mod n + w1) mod n) by (rewrite N.add_mod_idemp_l by lia; reflexivity).
    rewrite (sub_mod_add w1 (q mod n) Hw1) by (apply N.mod_lt; lia).
    set (w2 := (q mod n + w1) mod n).
    assert (Hw2 : w2 < n) by (apply N.mod_lt; lia).
    replace ((q / n + w2) mod n) with ((q / n + w2) mod n) by reflexivity.
    rewrite (sub_mod_add w2 (q / n) Hw2 Hq2).
    pose proof (N.div_mod x n ltac:(lia)) as D1. pose proof (N.div_mod q n ltac:(lia)) as D2.
    fold q in D1. fold w1 in D1. nia.
  Qed.
End ChunkArith.

(* ------------------------------------------------------------------ bytes <-> integers *)
Lemma bytes_to_int_lt e b : bytes_ok b -> bytes_to_int e b < 256 ^ N.of_nat (length b).
Proof.
  intros Hb. destruct e; simpl.
  - apply (from_le_lt 256 r256); assumption.
  - unfold be_to_int, from_be. rewrite <- rev_length. apply (from_le_lt 256 r256).
    apply bytes_ok_rev; assumption.
Qed.

Lemma int_to_bytes_fixed_roundtrip e b :
  bytes_ok b -> int_to_bytes_fixed e (length b) (bytes_to_int e b) = Ok b.
Proof. intros Hb. destruct e; simpl; [apply le_fixed_roundtrip|apply be_fixed_roundtrip]; assumption. Qed.

Lemma int_to_bytes_fixed_ok e w v b :
  int_to_bytes_fixed e w v = Ok b -> bytes_ok b /\ length b = w /\ bytes_to_int e b = v.
Proof.
  destruct e; simpl; [apply int_to_le_fixed_ok|].
  unfold int_to_be_fixed. destruct (int_to_le_fixed w v) as [l|] eqn:E; simpl; [|discriminate].
  intros H; inversion H; subst. apply int_to_le_fixed_ok in E. destruct E as (A & B & C).
  split; [apply bytes_ok_rev; assumption|]. split; [rewrite rev_length; assumption|].
  unfold be_to_int, from_be. rewrite rev_involutive. exact C.
Qed.

Lemma int_to_bytes_fixed_err e w v x : int_to_bytes_fixed e w v = Err x -> 256 ^ N.of_nat w <= v.
Proof.
  intros H. destruct (N.le_gt_cases (256 ^ N.of_nat w) v) as [|L]; [assumption|exfalso].
  destruct (int_to_le_fixed_fits w v L) as [b Hb].
  destruct e; simpl in H; [rewrite Hb in H; discriminate|]. unfold int_to_be_fixed in H. rewrite Hb in H. discriminate.
Qed.

Lemma int_to_bytes_fixed_fits e w v : v < 256 ^ N.of_nat w -> exists b, int_to_bytes_fixed e w v = Ok b.
Proof.
  intros H. destruct (int_to_bytes_fixed e w v) eqn:E; [eexists; reflexivity|].
  apply int_to_bytes_fixed_err in E. lia.
Qed.

(* IntegerUtils.GetBytesNumber *)
Lemma gbn_le w v : (1 <= w)%nat -> ((get_bytes_number v <= w)%nat <-> v < 256 ^ N.of_nat w).
Proof.
  intros Hw. unfold get_bytes_number. split.
  - intros H. assert (L : (length (to_le 256 v) <= w)%nat) by lia.
    pose proof (from_le_lt 256 r256 (to_le 256 v) (to_le_digits 256 r256 v)) as B.
    rewrite (from_to_le 256 r256) in B.
    eapply N.lt_le_trans; [exact B|]. apply N.pow_le_mono_r; lia.
  - intros H. pose proof (to_le_length_le 256 r256 v w H). lia.
Qed.

Lemma gbn_pos v : (1 <= get_bytes_number v)%nat.
Proof. unfold get_bytes_number. lia. Qed.

Lemma int_to_le_fixed_gbn v : exists b, int_to_le_fixed (get_bytes_number v) v = Ok b.
Proof.
  unfold int_to_le_fixed, get_bytes_number.
  destruct (Nat.leb_spec (length (to_le 256 v)) (Nat.max 1 (length (to_le 256 v)))); [eauto|lia].
Qed.

Lemma int_to_bytes_auto_spec e v :
  int_to_bytes_fixed e (get_bytes_number v) v = Ok (int_to_bytes_auto e v).
Proof.
  destruct (int_to_le_fixed_gbn v) as [b Hb].
  destruct e; simpl; unfold int_to_be_auto, int_to_be_fixed; rewrite Hb; simpl.
  - rewrite rev_involutive. reflexivity.
  - reflexivity.
Qed.

Lemma int_to_bytes_auto_length e v : length (int_to_bytes_auto e v) = get_bytes_number v.
Proof. pose proof (int_to_bytes_auto_spec e v) as H. apply int_to_bytes_fixed_ok in H. tauto. Qed.

(* ------------------------------------------------------------------ the two decoders *)
Lemma chunk_limit_eq : chunk_limit = 256 ^ N.of_nat chunk_byte_len.
Proof. reflexivity. Qed.

(* below 2^32 the current code and the conformant decoder coincide *)
Lemma w2c_current_small wl e a b c v :
  words_packed wl a b c = Ok v -> v < chunk_limit ->
  words_to_chunk_current wl e a b c = words_to_chunk wl e a b c.
Proof.
  intros P L. unfold words_to_chunk_current, words_to_chunk. rewrite P. simpl.
  destruct (N.ltb_spec v chunk_limit) as [_|]; [|lia].
  destruct (Nat.ltb_spec 3 (get_bytes_number v)) as [G|G]; [|reflexivity].
  assert (G4 : get_bytes_number v = 4%nat).
  { pose proof (proj2 (gbn_le 4 v ltac:(lia)) L). lia. }
  rewrite <- (int_to_bytes_auto_spec e v), G4. reflexivity.
Qed.

(* at or above 2^32 the current code returns more than four bytes: finding F8 *)
Lemma w2c_current_big wl e a b c v :
  words_packed wl a b c = Ok v -> chunk_limit <= v ->
  exists r, words_to_chunk_current wl e a b c = Ok r /\ (4 < length r)%nat /\ bytes_to_int e r = v /\
            words_to_chunk wl e a b c = Err ValueError.
Proof.
  intros P L. unfold words_to_chunk_current, words_to_chunk. rewrite P. simpl.
  destruct (N.ltb_spec v chunk_limit) as [|_]; [lia|].
  assert (G : (4 < get_bytes_number v)%nat).
  { destruct (Nat.leb_spec (get_bytes_number v) 4) as [Q|Q]; [|assumption].
    apply (gbn_le 4 v ltac:(lia)) in Q. change chunk_limit with (256 ^ N.of_nat 4) in L. lia. }
  destruct (Nat.ltb_spec 3 (get_bytes_number v)) as [_|]; [|lia].
  exists (int_to_bytes_auto e v). rewrite int_to_bytes_auto_length.
  pose proof (int_to_bytes_auto_spec e v) as S. apply int_to_bytes_fixed_ok in S.
  repeat split; try tauto; lia.
Qed.

Section ChunkWords.
  Variable wl : list (list N).
  Hypothesis wl_nodup : NoDup wl.
  Hypothesis wl_pos : 0 < wl_len wl.

  Notation n := (wl_len wl).

  Lemma words_packed_ok a b c v :
    words_packed wl a b c = Ok v ->
    exists i1 i2 i3, word_idx wl a = Ok i1 /\ word_idx wl b = Ok i2 /\ word_idx wl c = Ok i3 /\
                     i1 < n /\ i2 < n /\ i3 < n /\ v = packed n i1 i2 i3.
  Proof.
    unfold words_packed. destruct (word_idx wl a) as [i1|] eqn:A; simpl; [|discriminate].
    destruct (word_idx wl b) as [i2|] eqn:B; simpl; [|discriminate].
    destruct (word_idx wl c) as [i3|] eqn:C; simpl; [|discriminate].
    intros E; inversion E; subst. exists i1, i2, i3.
    pose proof (word_idx_at _ _ _ A). pose proof (word_idx_at _ _ _ B). pose proof (word_idx_at _ _ _ C).
    repeat split; tauto.
  Qed.

  Lemma words_packed_err a b c e :
    words_packed wl a b c = Err e -> e = ValueError /\ ~ (In a wl /\ In b wl /\ In c wl).
  Proof.
    unfold words_packed. destruct (word_idx wl a) as [i1|] eqn:A; simpl.
    2:{ intros E; inversion E; subst. apply word_idx_err in A. tauto. }
    destruct (word_idx wl b) as [i2|] eqn:B; simpl.
    2:{ intros E; inversion E; subst. apply word_idx_err in B. tauto. }
    destruct (word_idx wl c) as [i3|] eqn:C; simpl; [discriminate|].
    intros E; inversion E; subst. apply word_idx_err in C. tauto.
  Qed.

  Lemma words_packed_total a b c :
    In a wl -> In b wl -> In c wl -> exists v, words_packed wl a b c = Ok v.
  Proof.
    intros A B C. apply word_idx_ok_iff in A, B, C. destruct A as [i1 A], B as [i2 B], C as [i3 C].
    unfold words_packed. rewrite A, B, C. simpl. eauto.
  Qed.

  (* BytesChunkToWords never fails and yields list words *)
  Lemma b2w_total e x : exists a b c, bytes_chunk_to_words wl e x = Ok [a; b; c] /\
    word_idx wl a = Ok (fst (fst (chunk_to_idx n (bytes_to_int e x)))) /\
    word_idx wl b = Ok (snd (fst (chunk_to_idx n (bytes_to_int e x)))) /\
    word_idx wl c = Ok (snd (chunk_to_idx n (bytes_to_int e x))).
  Proof.
    unfold bytes_chunk_to_words.
    destruct (chunk_to_idx n (bytes_to_int e x)) as [[i1 i2] i3] eqn:E.
    destruct (chunk_to_idx_lt n wl_pos _ _ _ _ E) as (L1 & L2 & L3).
    destruct (word_at_total wl i1 L1) as [a A], (word_at_total wl i2 L2) as [b B],
             (word_at_total wl i3 L3) as [c C].
    exists a, b, c. rewrite A, B, C. simpl.
    repeat split; try reflexivity; eapply word_at_idx; eauto.
  Qed.

  (* chunk_dec_enc: decoding the three words of a 4-byte chunk gives the chunk back *)
  Lemma w2c_b2w e x ws : chunk_limit <= n * n * n -> bytes_ok x -> length x = chunk_byte_len ->
    bytes_chunk_to_words wl e x = Ok ws ->
    exists a b c, ws = [a; b; c] /\ words_to_chunk wl e a b c = Ok x /\
                  words_to_chunk_current wl e a b c = Ok x.
  Proof.
    intros Hn3 Hx Hl E. destruct (b2w_total e x) as (a & b & c & E' & A & B & C).
    rewrite E in E'. inversion E'; subst ws. exists a, b, c. split; [reflexivity|].
    pose proof (bytes_to_int_lt e x Hx) as Lt. rewrite Hl in Lt. change (256 ^ N.of_nat chunk_byte_len) with chunk_limit in Lt.
    destruct (chunk_to_idx n (bytes_to_int e x)) as [[i1 i2] i3] eqn:Q. simpl in A, B, C.
    assert (P : words_packed wl a b c = Ok (bytes_to_int e x)).
    { unfold words_packed. rewrite A, B, C. simpl. f_equal.
      apply (packed_chunk n wl_pos); [lia|assumption]. }
    assert (W : words_to_chunk wl e a b c = Ok x).
    { unfold words_to_chunk. rewrite P. simpl.
      destruct (N.ltb_spec (bytes_to_int e x) chunk_limit); [|lia].
      rewrite <- Hl. apply int_to_bytes_fixed_roundtrip; assumption. }
    split; [exact W|]. rewrite (w2c_current_small _ _ _ _ _ _ P Lt). exact W.
  Qed.

  (* accepted_is_canonical for one chunk: what the conformant decoder accepts re-encodes to the same words *)
  Lemma b2w_w2c e a b c x :
    words_to_chunk wl e a b c = Ok x ->
    bytes_ok x /\ length x = chunk_byte_len /\ bytes_chunk_to_words wl e x = Ok [a; b; c].
  Proof.
    unfold words_to_chunk. destruct (words_packed wl a b c) as [v|] eqn:P; simpl; [|discriminate].
    destruct (N.ltb_spec v chunk_limit) as [L|]; [|discriminate]. intros F.
    apply int_to_bytes_fixed_ok in F. destruct F as (Ok1 & Len & Val). split; [assumption|]. split; [assumption|].
    destruct (words_packed_ok _ _ _ _ P) as (i1 & i2 & i3 & A & B & C & L1 & L2 & L3 & ->).
    unfold bytes_chunk_to_words. rewrite Val, (chunk_packed n wl_pos i1 i2 i3 L1 L2 L3).
    apply word_idx_at in A, B, C. destruct A as [A _], B as [B _], C as [C _]. rewrite A, B, C. reflexivity.
  Qed.

  Lemma w2c_ok_iff e a b c :
    (exists x, words_to_chunk wl e a b c = Ok x) <->
    (exists v, words_packed wl a b c = Ok v /\ v < chunk_limit).
  Proof.
    unfold words_to_chunk. split.
    - intros [x H]. destruct (words_packed wl a b c) as [v|]; simpl in H; [|discriminate].
      destruct (N.ltb_spec v chunk_limit); [exists v; split; [reflexivity|assumption]|discriminate].
    - intros (v & P & L). rewrite P. simpl. destruct (N.ltb_spec v chunk_limit); [|lia].
      apply int_to_bytes_fixed_fits. assumption.
  Qed.

  Lemma w2c_err e a b c x : words_to_chunk wl e a b c = Err x -> x = ValueError.
  Proof.
    unfold words_to_chunk. destruct (words_packed wl a b c) as [v|] eqn:P; simpl.
    - destruct (N.ltb_spec v chunk_limit) as [L|]; [|intros Q; inversion Q; reflexivity].
      intros H. apply int_to_bytes_fixed_err in H. change chunk_limit with (256 ^ N.of_nat chunk_byte_len) in L. lia.
    - intros H; inversion H; subst. apply words_packed_err in P. tauto.
  Qed.

  Lemma w2c_current_ok_iff e a b c :
    (exists x, words_to_chunk_current wl e a b c = Ok x) <-> (In a wl /\ In b wl /\ In c wl).
  Proof.
    split.
    - intros [x H]. unfold words_to_chunk_current in H.
      destruct (words_packed wl a b c) as [v|] eqn:P; simpl in H; [|discriminate].
      destruct (words_packed_ok _ _ _ _ P) as (i1 & i2 & i3 & A & B & C & _).
      repeat split; apply word_idx_ok_iff; eauto.
    - intros (A & B & C). destruct (words_packed_total a b c A B C) as [v P].
      destruct (N.lt_ge_cases v chunk_limit) as [L|L].
      + rewrite (w2c_current_small _ _ _ _ _ _ P L). apply w2c_ok_iff. eauto.
      + destruct (w2c_current_big wl e _ _ _ _ P L) as (r & H & _). eauto.
  Qed.
End ChunkWords.

(* Obligations over the object table regenerated from /repo (Gen/Objects.v) and their link to the
   abstract memo model (Lemmas/Memo.v). *)
From Coq Require Import List String Bool NArith Lia.
From BU Require Import Base.Bytes Gen.Objects Model.Memo Model.Objects Lemmas.Memo Lemmas.ObjectsExpected.
Import ListNotations.
Open Scope string_scope.

Lemma smem_In : forall x l, smem x l = true <-> In x l.
Proof.
  intros x l. unfold smem. rewrite existsb_exists. split.
  - intros (y & Hy & E). apply String.eqb_eq in E. subst. assumption.
  - intros H. exists x. split; [assumption|apply String.eqb_refl].
Qed.

Lemma disjointb_filter : forall a mut, disjointb a mut = true <-> filter (fun f => smem f mut) a = [].
Proof.
  induction a as [|x t IH]; intros mut; cbn; [tauto|].
  destruct (smem x mut); cbn.
  - split; discriminate.
  - apply IH.
Qed.

Lemma obligation_iff_no_offenders : forall cs mut,
  caches_over_immutable_b cs mut = true <-> offenders_of cs mut = [].
Proof.
  induction cs as [|m t IH]; intros mut; [cbn; tauto|].
  change (caches_over_immutable_b (m :: t) mut) with (disjointb (reads_of m) mut && caches_over_immutable_b t mut).
  change (offenders_of (m :: t) mut) with
    (map (fun f => (name_of m, f)) (filter (fun f => smem f mut) (reads_of m)) ++ offenders_of t mut)%list.
  rewrite andb_true_iff, IH, disjointb_filter. split.
  - intros [A B]. rewrite A, B. reflexivity.
  - intros H. apply app_eq_nil in H. destruct H as [A B]. split; [|assumption].
    destruct (filter (fun f => smem f mut) (reads_of m)); [reflexivity|discriminate].
Qed.

(* computed on the regenerated table *)
Lemma offenders_exact : offenders = expected_offenders.
Proof. vm_compute. reflexivity. Qed.

Lemma mutable_fields_exact : mutable_fields = expected_mutable_fields.
Proof. vm_compute. reflexivity. Qed.

Lemma caches_over_immutable_iff :
  caches_over_immutable_b cached mutable_fields = true <-> expected_offenders = [].
Proof. rewrite obligation_iff_no_offenders. fold offenders. rewrite offenders_exact. tauto. Qed.

Definition non_offending (m : centry) : bool := negb (smem (name_of m) (map fst expected_offenders)).

Lemma caches_over_immutable_partial :
  caches_over_immutable_b (filter non_offending cached) mutable_fields = true.
Proof. vm_compute. reflexivity. Qed.

(* lazily initialised fields are read through their initialisers only: no memoised method (nor
   anything it calls) looks at one directly *)
Lemma lazy_fields_private : caches_over_immutable_b cached lazy_fields = true.
Proof. vm_compute. reflexivity. Qed.

(* conf narrowing: the configuration classes the analysis allowed behind each m_coin_conf holder
   cover every coin of the hierarchies that feed it *)
Definition narrowing_ok_b : bool :=
  forallb (fun h => let '(_, hids, allowed) := h in
     forallb (fun r => let '(hid, _, cls) := r in
                if existsb (N.eqb hid) hids then smem cls allowed else true) coin_conf_classes) conf_holders.
Lemma narrowing_ok : narrowing_ok_b = true.
Proof. vm_compute. reflexivity. Qed.

Lemma cip1852_confs_plain :
  forallb (fun r => let '(hid, _, cls) := r in if N.eqb hid 4 then String.eqb cls "BipCoinConf" else true)
          coin_conf_classes = true.
Proof. vm_compute. reflexivity. Qed.

(* derivations write nothing but lazily initialised fields *)
Definition writes_of (m : string) : list string :=
  match find (fun e => String.eqb (fst e) m) method_writes with Some e => snd e | None => [] end.
Definition derive_leaves_parent_b : bool :=
  forallb (fun m => smem m all_methods && forallb (fun f => smem f lazy_fields) (writes_of m)) derivation_methods.
Lemma derive_leaves_parent_ok : derive_leaves_parent_b = true.
Proof. vm_compute. reflexivity. Qed.

(* every mutator is a method that exists, every mutable field is a declared or recorded field *)
Lemma mutators_known :
  forallb (fun e => smem (snd e) all_methods && (smem (fst e) declared_fields || smem (fst e) undeclared_fields
                                                  || smem (fst e) ["Sha256.handle"; "AesEcbEncrypter.auto_pad"]))
          mutators = true.
Proof. vm_compute. reflexivity. Qed.

(* ------------------------------------------------------------------ instance of the memo model
   method key = (object, method name, arguments); field = (object, "Class.field") *)
Definition writable_key (f : fkey) : Prop := In (snd f) mutable_fields.

Lemma mkeyb_spec : forall a b, mkeyb a b = true <-> a = b.
Proof.
  intros [[o1 n1] a1] [[o2 n2] a2]. unfold mkeyb. rewrite !andb_true_iff, N.eqb_eq, String.eqb_eq, list_eqb_spec.
  split; [intros [[-> ->] ->]; reflexivity|intros H; inversion H; auto].
Qed.
Lemma fkeyb_spec : forall a b, fkeyb a b = true <-> a = b.
Proof.
  intros [o1 n1] [o2 n2]. unfold fkeyb. cbn. rewrite andb_true_iff, N.eqb_eq, String.eqb_eq.
  split; [intros [-> ->]; reflexivity|intros H; inversion H; auto].
Qed.

Lemma gen_reads_disjoint : forall n, smem n (map fst expected_offenders) = false ->
  disjointb (gen_reads n) mutable_fields = true.
Proof.
  intros n H. unfold gen_reads. destruct (find (fun e => String.eqb (name_of e) n) cached) as [e|] eqn:F; [|reflexivity].
  apply find_some in F. destruct F as [Hin He]. apply String.eqb_eq in He.
  pose proof caches_over_immutable_partial as P. unfold caches_over_immutable_b in P. rewrite forallb_forall in P.
  apply P. apply filter_In. split; [assumption|]. unfold non_offending. rewrite He, H. reflexivity.
Qed.

Section Instance.
  Variable V : Type.
  Variable sem : mkey -> (fkey -> V) -> V.
  Variable reads : mkey -> list fkey.
  (* trusted: the read-sets of the static analysis are sound for the method bodies ... *)
  Hypothesis reads_sound : forall m s1 s2, (forall f, In f (reads m) -> s1 f = s2 f) -> sem m s1 = sem m s2.
  (* ... and the generated table lists every mutable field a memoised method reads *)
  Hypothesis gen_covers : forall m f, is_cached_key m = true -> In f (reads m) -> In (snd f) mutable_fields ->
    In (snd f) (gen_reads (mname m)).

  Lemma non_offending_good : forall m, smem (mname m) (map fst expected_offenders) = false ->
    good fkey mkey is_cached_key reads writable_key m.
  Proof.
    intros m H. destruct (is_cached_key m) eqn:C; [right|left; exact C].
    intros f Hf Hw. unfold writable_key in Hw.
    pose proof (gen_covers m f C Hf Hw) as G.
    pose proof (gen_reads_disjoint _ H) as D. unfold disjointb in D. rewrite forallb_forall in D.
    specialize (D _ G). apply negb_true_iff in D. apply smem_In in Hw. congruence.
  Qed.

  (* HISTORY INDEPENDENCE for the library's object table: a call of any method other than the
     listed offenders, after any history of calls, conversions and toggle flips, returns what a
     fresh object (empty caches) in the same logical state returns. *)
  Theorem history_independence_objects : forall s h m,
    cache_valid fkey mkey mkeyb V sem is_cached_key reads writable_key s ->
    Forall (write_ok fkey mkey V writable_key) h ->
    smem (mname m) (map fst expected_offenders) = false ->
    result_after fkey fkeyb mkey mkeyb V sem is_cached_key s h m =
    result_after fkey fkeyb mkey mkeyb V sem is_cached_key (fst s, []) (only_writes fkey mkey V h) m.
  Proof.
    intros s h m Hv Hw H.
    apply (history_independence fkey fkeyb mkey mkeyb V sem is_cached_key fkeyb_spec mkeyb_spec reads reads_sound writable_key);
      try assumption. apply non_offending_good; assumption.
  Qed.

  Theorem toggle_restore_neutral_objects : forall s f v h m,
    cache_valid fkey mkey mkeyb V sem is_cached_key reads writable_key s ->
    writable_key f -> Forall (is_call fkey mkey V) h ->
    smem (mname m) (map fst expected_offenders) = false ->
    result_after fkey fkeyb mkey mkeyb V sem is_cached_key s (Write f v :: (h ++ [Write f (fst s f)])%list) m =
    result_after fkey fkeyb mkey mkeyb V sem is_cached_key s [] m.
  Proof.
    intros s f v h m Hv Wf Hc H.
    apply (toggle_restore_neutral fkey fkeyb mkey mkeyb V sem is_cached_key fkeyb_spec mkeyb_spec reads reads_sound writable_key);
      try assumption. apply non_offending_good; assumption.
  Qed.
End Instance.

(* caller-supplied inputs: the only function that mutates a parameter in place is the Bech32 encoder's
   `data += checksum`, and each of its call sites passes a list created for the call *)
Lemma param_mutators_exact :
  map (fun e => (fst (fst e), snd (fst e))) param_mutators = expected_param_mutators.
Proof. vm_compute. reflexivity. Qed.
Lemma param_mutator_sites_fresh :
  forallb (fun s => snd s) param_mutator_call_sites = true /\
  forallb (fun s => smem (snd (fst (fst s))) (map fst expected_param_mutators)) param_mutator_call_sites = true.
Proof. split; vm_compute; reflexivity. Qed.

(* the hypotheses of the instance theorems are satisfiable: a semantics that reads, on the receiver,
   exactly the generated fields *)
Definition own_reads (m : mkey) : list fkey := map (fun f => (fst (fst m), f)) (gen_reads (mname m)).
Definition own_sem (m : mkey) (st : fkey -> N) : N := fold_right N.add 0%N (map st (own_reads m)).

Lemma own_reads_sound : forall m s1 s2, (forall f, In f (own_reads m) -> s1 f = s2 f) -> own_sem m s1 = own_sem m s2.
Proof. intros m s1 s2 H. unfold own_sem. f_equal. apply map_ext_in. exact H. Qed.

Lemma own_gen_covers : forall m f, is_cached_key m = true -> In f (own_reads m) -> In (snd f) mutable_fields ->
  In (snd f) (gen_reads (mname m)).
Proof.
  intros m f _ H _. unfold own_reads in H. apply in_map_iff in H. destruct H as (g & <- & Hg). exact Hg.
Qed.

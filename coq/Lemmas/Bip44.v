(* Proofs about the Bip44 level automaton (Model/Bip44.v). *)
From Coq Require Import NArith ZArith List Bool Lia.
From BU Require Import Base.Exn Gen.Bip44Params Model.Bip44 Lemmas.ObjectsConstsOk.
Import ListNotations.
Open Scope N_scope.

(* ------------------------------------------------------------------ indices *)

Lemma hbitN_pow : hbitN = 2 ^ key_index_hardened_bit.
Proof. unfold hbitN. apply N.shiftl_1_l. Qed.

Lemma hardenN_idem : forall x, is_hardened x = true -> hardenN x = x.
Proof.
  intros x H. unfold hardenN, is_hardened in *. rewrite hbitN_pow.
  apply N.bits_inj. intro m. rewrite N.lor_spec, N.pow2_bits_eqb.
  destruct (N.eqb_spec key_index_hardened_bit m) as [<-|_].
  - rewrite H. reflexivity.
  - apply orb_false_r.
Qed.

Lemma hardenN_hardened : forall x, is_hardened (hardenN x) = true.
Proof.
  intros x. unfold hardenN, is_hardened. rewrite hbitN_pow, N.lor_spec, N.pow2_bits_eqb, N.eqb_refl.
  apply orb_true_r.
Qed.

Lemma mk_index_ok : forall iz i, mk_index iz = Ok i -> (0 <= iz)%Z /\ i = Z.to_N iz /\ i <= key_index_max.
Proof.
  unfold mk_index. intros iz i H.
  destruct (iz <? 0)%Z eqn:E1; [discriminate|].
  destruct (Z.of_N key_index_max <? iz)%Z eqn:E2; [discriminate|].
  cbn in H. inversion H. apply Z.ltb_ge in E1. apply Z.ltb_ge in E2. repeat split; lia.
Qed.

Lemma mk_index_err : forall iz e, mk_index iz = Err e -> e = ValueError.
Proof.
  unfold mk_index. intros iz e H.
  destruct ((iz <? 0)%Z || (Z.of_N key_index_max <? iz)%Z); [inversion H; reflexivity|discriminate].
Qed.

Lemma mk_index_of_N : forall x, x <= key_index_max -> mk_index (Z.of_N x) = Ok x.
Proof.
  intros x H. unfold mk_index.
  destruct (Z.of_N x <? 0)%Z eqn:E1. { apply Z.ltb_lt in E1. lia. }
  destruct (Z.of_N key_index_max <? Z.of_N x)%Z eqn:E2. { apply Z.ltb_lt in E2. lia. }
  cbn. rewrite N2Z.id. reflexivity.
Qed.

Lemma N2Z_inj_lor : forall a b, Z.of_N (N.lor a b) = Z.lor (Z.of_N a) (Z.of_N b).
Proof. intros a b. destruct a, b; reflexivity. Qed.

Lemma hardenZ_nonneg : forall iz, (0 <= hardenZ iz)%Z -> (0 <= iz)%Z.
Proof. unfold hardenZ. intros iz H. apply Z.lor_nonneg in H. tauto. Qed.

Lemma hardenZ_to_N : forall iz, (0 <= iz)%Z -> Z.to_N (hardenZ iz) = hardenN (Z.to_N iz).
Proof.
  intros iz H. unfold hardenZ, hardenN, hbitZ.
  rewrite <- (Z2N.id iz) at 1 by assumption.
  rewrite <- N2Z_inj_lor. apply N2Z.id.
Qed.

Lemma hardenZ_of_N : forall x, hardenZ (Z.of_N x) = Z.of_N (hardenN x).
Proof. intros x. unfold hardenZ, hardenN, hbitZ. rewrite N2Z_inj_lor. reflexivity. Qed.

(* index produced by a hardening rule *)
Lemma rule_index : forall rule pd iz i, mk_index (apply_rule rule pd iz) = Ok i ->
  (0 <= iz)%Z /\
  i = (if rule =? 2 then hardenN (Z.to_N iz)
       else if rule =? 1 then (if pd then Z.to_N iz else hardenN (Z.to_N iz))
       else Z.to_N iz).
Proof.
  intros rule pd iz i H. apply mk_index_ok in H. destruct H as (H0 & H1 & _).
  unfold apply_rule in *.
  destruct (rule =? 2). { pose proof (hardenZ_nonneg _ H0). split; [assumption|]. rewrite H1. apply hardenZ_to_N; assumption. }
  destruct (rule =? 1); [destruct pd|]; try (split; assumption).
  pose proof (hardenZ_nonneg _ H0). split; [assumption|]. rewrite H1. apply hardenZ_to_N; assumption.
Qed.

(* ------------------------------------------------------------------ slots *)

Lemma slot_okb_sound : forall c pos x, slot_okb c pos x = true -> slot_ok c pos x.
Proof.
  intros c pos x H. unfold slot_okb in H. unfold slot_ok.
  destruct (N.eqb_spec pos 0). { apply N.eqb_eq in H. left; split; assumption. }
  destruct (N.eqb_spec pos 1). { apply N.eqb_eq in H. right; left; split; assumption. }
  destruct (N.eqb_spec pos 2). { right; right; left; split; [assumption|]. exists x. symmetry. apply hardenN_idem; assumption. }
  destruct (N.eqb_spec pos 3).
  { right; right; right; left; split; [assumption|]. apply existsb_exists in H. destruct H as (ch & Hin & E).
    apply N.eqb_eq in E. exists ch. split; assumption. }
  destruct (N.eqb_spec pos 4); [|discriminate].
  right; right; right; right; split; [assumption|]. exists x. unfold hard_if.
  destruct (c_pubderiv c); [reflexivity|]. cbn in H. symmetry. apply hardenN_idem; assumption.
Qed.

Definition path_ok (c : coin) (o : N) (p : list N) : Prop :=
  forall k x, nth_error p k = Some x -> slot_ok c (o + N.of_nat k) x.

Lemma slots_okb_sound : forall c p pos, slots_okb c pos p = true -> path_ok c pos p.
Proof.
  intros c p. induction p as [|y t IH]; intros pos H k x Hk.
  - destruct k; discriminate.
  - cbn in H. apply andb_prop in H. destruct H as [H1 H2]. destruct k as [|k].
    + cbn in Hk. inversion Hk; subst. replace (pos + N.of_nat 0) with pos by lia. apply slot_okb_sound; assumption.
    + cbn in Hk. replace (pos + N.of_nat (S k)) with ((pos + 1) + N.of_nat k) by lia. apply (IH _ H2 _ _ Hk).
Qed.

Lemma path_ok_nil : forall c o, path_ok c o [].
Proof. intros c o k x H. destruct k; discriminate. Qed.

Lemma path_ok_app : forall c o p q, path_ok c o p -> path_ok c (o + N.of_nat (length p)) q -> path_ok c o (p ++ q).
Proof.
  intros c o p q Hp Hq k x Hk.
  destruct (Nat.lt_ge_cases k (length p)) as [L|L].
  - rewrite nth_error_app1 in Hk by assumption. apply Hp; assumption.
  - rewrite nth_error_app2 in Hk by assumption. specialize (Hq _ _ Hk).
    replace (o + N.of_nat k) with (o + N.of_nat (length p) + N.of_nat (k - length p)) by lia. assumption.
Qed.

Lemma path_ok_one : forall c o x, slot_ok c o x -> path_ok c o [x].
Proof.
  intros c o x H k y Hk. destruct k as [|k]; cbn in Hk.
  - inversion Hk; subst. replace (o + N.of_nat 0) with o by lia. assumption.
  - destruct k; discriminate.
Qed.

Section Automaton.
  Variable K : Type.
  Variable ckd_priv ckd_pub : K -> N -> res K.
  Notation st := (state K).
  Notation init_check := (@init_check K).
  Notation child_key := (child_key K ckd_priv ckd_pub).
  Notation level_op := (level_op K ckd_priv ckd_pub).
  Notation derive_path := (derive_path K ckd_priv ckd_pub).
  Notation default_path := (default_path K ckd_priv ckd_pub).
  Notation step := (step K ckd_priv ckd_pub).
  Notation exec := (exec K ckd_priv ckd_pub).
  Notation run := (run K ckd_priv ckd_pub).
  Notation chain := (chain K ckd_priv ckd_pub).
  Notation plain_derive := (plain_derive K ckd_priv).

  (* ---------------------------------------------------------------- constructor check *)

  Lemma init_check_ok : forall s s', init_check s = Ok s' ->
    s' = s /\ depth s <= 5 /\ (pub_only s = true -> 3 <= depth s).
  Proof.
    intros s s' H. unfold Bip44.init_check in H.
    destruct init_bounds_ok as (B1 & B2 & B3). rewrite B1, B2, B3 in H.
    destruct (pub_only s).
    - destruct (depth s <? 3) eqn:E1; [discriminate|]. destruct (5 <? depth s) eqn:E2; [discriminate|].
      cbn in H. inversion H; subst. apply N.ltb_ge in E1. apply N.ltb_ge in E2. repeat split; auto.
    - destruct (5 <? depth s) eqn:E2; [discriminate|]. inversion H; subst. apply N.ltb_ge in E2.
      repeat split; auto. discriminate.
  Qed.

  Lemma init_check_err : forall s e, init_check s = Err e -> e = LibError Bip44DepthError.
  Proof.
    intros s e H. unfold Bip44.init_check in H.
    destruct (pub_only s).
    - destruct ((depth s <? init_pub_min) || (init_pub_max <? depth s)); [inversion H; reflexivity|discriminate].
    - destruct (init_priv_max <? depth s); [inversion H; reflexivity|discriminate].
  Qed.

  Lemma init_check_pass : forall s, depth s <= 5 -> (pub_only s = true -> 3 <= depth s) -> init_check s = Ok s.
  Proof.
    intros s H1 H2. unfold Bip44.init_check.
    destruct init_bounds_ok as (B1 & B2 & B3). rewrite B1, B2, B3.
    destruct (pub_only s).
    - specialize (H2 eq_refl). destruct (depth s <? 3) eqn:E1. { apply N.ltb_lt in E1. lia. }
      destruct (5 <? depth s) eqn:E2. { apply N.ltb_lt in E2. lia. } reflexivity.
    - destruct (5 <? depth s) eqn:E2. { apply N.ltb_lt in E2. lia. } reflexivity.
  Qed.

  (* ---------------------------------------------------------------- ChildKey *)

  Definition ckd_of (s : st) := if pub_only s then ckd_pub else ckd_priv.

  Lemma child_key_ok : forall c s iz s', child_key c s iz = Ok s' ->
    exists i, mk_index iz = Ok i /\ child_refused (c_pubderiv c) (pub_only s) i = false /\
      ckd_of s (key s) i = Ok (key s') /\
      depth s' = depth s + 1 /\ pub_only s' = pub_only s /\ index s' = i /\ origin s' = origin s /\
      path s' = path s ++ [i].
  Proof.
    intros c s iz s' H. unfold Bip44.child_key in H.
    destruct (mk_index iz) as [i|e] eqn:E; [|discriminate]. cbn [bind] in H.
    destruct (child_refused (c_pubderiv c) (pub_only s) i) eqn:R; [discriminate|]. cbn [negb] in H.
    unfold ckd_of. destruct ((if pub_only s then ckd_pub else ckd_priv) (key s) i) as [k|e] eqn:D; [|discriminate].
    cbn [bind] in H. inversion H; subst; cbn. exists i. repeat split; auto.
  Qed.

  (* the only ways ChildKey fails *)
  Lemma child_key_err : forall c s iz e, child_key c s iz = Err e ->
    (e = ValueError /\ mk_index iz = Err ValueError) \/
    (e = LibError Bip32KeyError /\ exists i, mk_index iz = Ok i /\ child_refused (c_pubderiv c) (pub_only s) i = true) \/
    (exists i, mk_index iz = Ok i /\ child_refused (c_pubderiv c) (pub_only s) i = false /\ ckd_of s (key s) i = Err e).
  Proof.
    intros c s iz e H. unfold Bip44.child_key in H.
    destruct (mk_index iz) as [i|e0] eqn:E.
    - cbn [bind] in H. destruct (child_refused (c_pubderiv c) (pub_only s) i) eqn:R.
      + cbn in H. inversion H. right; left. split; [reflexivity|]. exists i; split; auto.
      + cbn [negb] in H. unfold ckd_of. right; right. exists i. repeat split; auto.
        destruct ((if pub_only s then ckd_pub else ckd_priv) (key s) i); [discriminate|]. cbn in H. inversion H. reflexivity.
    - cbn in H. inversion H; subst. pose proof (mk_index_err _ _ E); subst. left; split; reflexivity.
  Qed.

  (* ---------------------------------------------------------------- the invariant *)

  Record inv (c : coin) (s : st) : Prop := {
    inv_depth : depth s = origin s + N.of_nat (length (path s));
    inv_max : depth s <= 5;
    inv_pub : pub_only s = true -> 3 <= depth s;
    inv_path : path_ok c (origin s) (path s);
    inv_index : path s <> [] -> index s = last (path s) 0 }.

  Lemma child_key_inv : forall c s iz s' lvl,
    inv c s -> depth s = lvl -> child_key c s iz = Ok s' ->
    (forall i, mk_index iz = Ok i -> slot_ok c lvl i) ->
    depth s' <= 5 -> (pub_only s' = true -> 3 <= depth s') -> inv c s'.
  Proof.
    intros c s iz s' lvl I Hl H Hs Hm Hp.
    apply child_key_ok in H. destruct H as (i & Hi & _ & _ & Hd & Hpo & Hidx & Ho & Hpath).
    destruct I as [I1 I2 I3 I4 I5]. split; auto.
    - rewrite Hd, Ho, Hpath, app_length, I1. cbn. lia.
    - rewrite Ho, Hpath. apply path_ok_app; [assumption|]. apply path_ok_one. rewrite <- I1, Hl. apply Hs; assumption.
    - intros _. rewrite Hpath, last_last. assumption.
  Qed.

  Lemma level_op_ok : forall c s lvl rule iz s', level_op c s lvl rule iz = Ok s' ->
    depth s = lvl /\ child_key c s (apply_rule rule (c_pubderiv c) iz) = Ok s' /\
    depth s' <= 5 /\ (pub_only s' = true -> 3 <= depth s').
  Proof.
    intros c s lvl rule iz s' H. unfold Bip44.level_op in H.
    destruct (N.eqb_spec (depth s) lvl) as [E|E]; [|discriminate].
    destruct (child_key c s (apply_rule rule (c_pubderiv c) iz)) as [s1|e] eqn:C; [|discriminate].
    cbn [bind] in H. apply init_check_ok in H. destruct H as (-> & H1 & H2). auto.
  Qed.

  Lemma level_op_inv : forall c s lvl rule iz s',
    inv c s -> level_op c s lvl rule iz = Ok s' ->
    (forall i, mk_index (apply_rule rule (c_pubderiv c) iz) = Ok i -> slot_ok c lvl i) -> inv c s'.
  Proof.
    intros c s lvl rule iz s' I H Hs. apply level_op_ok in H. destruct H as (Hl & Hc & Hm & Hp).
    eapply child_key_inv; eauto.
  Qed.

  Lemma derive_path_ok : forall c p s s', derive_path c s p = Ok s' ->
    depth s' = depth s + N.of_nat (length p) /\ pub_only s' = pub_only s /\ origin s' = origin s /\
    path s' = path s ++ p /\ (p <> [] -> index s' = last p 0) /\ (p = [] -> s' = s).
  Proof.
    intros c p. induction p as [|i t IH]; intros s s' H.
    - cbn in H. inversion H; subst. rewrite app_nil_r. repeat split; auto; cbn; try lia. intros X; contradiction X; reflexivity.
    - cbn [Bip44.derive_path] in H. destruct (child_key c s (Z.of_N i)) as [s1|e] eqn:C; [|discriminate].
      cbn [bind] in H. apply IH in H. destruct H as (H1 & H2 & H3 & H4 & H5 & H6).
      apply child_key_ok in C. destruct C as (j & Hj & _ & _ & Hd & Hpo & Hidx & Ho & Hpath).
      apply mk_index_ok in Hj. destruct Hj as (_ & Hj & _). rewrite N2Z.id in Hj. subst j.
      repeat split.
      + rewrite H1, Hd. cbn [length]. lia.
      + congruence.
      + congruence.
      + rewrite H4, Hpath, <- app_assoc. reflexivity.
      + intros _. destruct t as [|i2 t2].
        * rewrite (H6 eq_refl). cbn. assumption.
        * rewrite H5 by discriminate. reflexivity.
      + discriminate.
  Qed.

  (* a well-formed coin: facts extracted from the boolean *)
  Lemma coin_wf_facts : forall c, coin_wf c = true ->
    c_defabs c = false /\ path_ok c 2 (c_defpath c) /\ (length (c_defpath c) <= 3)%nat /\
    c_purpose c <= key_index_max /\ is_hardened (c_purpose c) = true /\ c_index c < hbitN /\
    Forall (fun x => x <= key_index_max) (c_defpath c).
  Proof.
    intros c H. unfold coin_wf in H. repeat (apply andb_prop in H; destruct H as [H ?]).
    repeat split.
    - destruct (c_defabs c); [discriminate|reflexivity].
    - apply slots_okb_sound; assumption.
    - apply N.leb_le in H4. lia.
    - apply N.leb_le; assumption.
    - assumption.
    - apply N.ltb_lt; assumption.
    - apply Forall_forall. intros x Hx. rewrite forallb_forall in H0. apply N.leb_le. apply H0; assumption.
  Qed.

  Lemma purpose_slot : forall c i, mk_index (apply_rule harden_rule_purpose (c_pubderiv c) (Z.of_N (c_purpose c))) = Ok i ->
    slot_ok c guard_purpose i.
  Proof.
    intros c i H. apply rule_index in H. destruct H as (_ & H).
    destruct rules_ok as (R & _). destruct guards_ok as (G & _). rewrite R in H. rewrite G. cbn in H.
    rewrite N2Z.id in H. left. split; [reflexivity|assumption].
  Qed.

  Lemma coin_slot : forall c i, mk_index (apply_rule harden_rule_coin (c_pubderiv c) (Z.of_N (c_index c))) = Ok i ->
    slot_ok c guard_coin i.
  Proof.
    intros c i H. apply rule_index in H. destruct H as (_ & H).
    destruct rules_ok as (_ & R & _). destruct guards_ok as (_ & G & _). rewrite R in H. rewrite G. cbn in H.
    rewrite N2Z.id in H. right; left. split; [reflexivity|assumption].
  Qed.

  Lemma account_slot : forall c iz i, mk_index (apply_rule harden_rule_account (c_pubderiv c) iz) = Ok i ->
    slot_ok c guard_account i.
  Proof.
    intros c iz i H. apply rule_index in H. destruct H as (_ & H).
    destruct rules_ok as (_ & _ & R & _). destruct guards_ok as (_ & _ & G & _). rewrite R in H. rewrite G. cbn in H.
    right; right; left. split; [reflexivity|]. eexists; eassumption.
  Qed.

  Lemma change_slot : forall c ch i, In ch change_values ->
    mk_index (apply_rule harden_rule_change (c_pubderiv c) (Z.of_N ch)) = Ok i -> slot_ok c guard_change i.
  Proof.
    intros c ch i Hin H. apply rule_index in H. destruct H as (_ & H).
    destruct rules_ok as (_ & _ & _ & R & _). destruct guards_ok as (_ & _ & _ & G & _). rewrite R in H. rewrite G. cbn in H.
    rewrite N2Z.id in H. right; right; right; left. split; [reflexivity|]. exists ch. split; [assumption|].
    unfold hard_if. assumption.
  Qed.

  Lemma addr_slot : forall c iz i, mk_index (apply_rule harden_rule_addr (c_pubderiv c) iz) = Ok i ->
    slot_ok c guard_addr i.
  Proof.
    intros c iz i H. apply rule_index in H. destruct H as (_ & H).
    destruct rules_ok as (_ & _ & _ & _ & R). destruct guards_ok as (_ & _ & _ & _ & G). rewrite R in H. rewrite G. cbn in H.
    right; right; right; right. split; [reflexivity|]. exists (Z.to_N iz). unfold hard_if. assumption.
  Qed.

  Lemma default_path_ok : forall c s s', default_path c s = Ok s' ->
    exists s1 s2 s3, purpose_op K ckd_priv ckd_pub c s = Ok s1 /\ coin_op K ckd_priv ckd_pub c s1 = Ok s2 /\
      (c_defabs c && (0 <? depth s2)) = false /\
      derive_path c s2 (c_defpath c) = Ok s3 /\ init_check s3 = Ok s'.
  Proof.
    intros c s s' H. unfold Bip44.default_path in H.
    destruct (purpose_op K ckd_priv ckd_pub c s) as [s1|e] eqn:E1; [|discriminate]. cbn [bind] in H.
    destruct (coin_op K ckd_priv ckd_pub c s1) as [s2|e] eqn:E2; [|discriminate]. cbn [bind] in H.
    destruct (c_defabs c && (0 <? depth s2)) eqn:A; [discriminate|]. cbn [negb] in H.
    destruct (derive_path c s2 (c_defpath c)) as [s3|e] eqn:E3; [|discriminate]. cbn [bind] in H.
    exists s1, s2, s3. auto.
  Qed.

  Lemma reimport_ok : forall ext s as_pub meta s', reimport K ext s as_pub meta = Ok s' ->
    depth s' <= 5 /\ (pub_only s' = true -> 3 <= depth s') /\ key s' = key s /\ pub_only s' = as_pub /\
    ((origin s' = depth s' /\ path s' = []) \/
     (meta = None /\ ext = true /\ depth s' = depth s /\ origin s' = origin s /\ path s' = path s /\ index s' = index s)).
  Proof.
    intros ext s as_pub meta s' H. unfold reimport in H.
    destruct meta as [[d i]|]; [|destruct ext; [|destruct as_pub]];
    repeat match type of H with
           | (if ?b then _ else _) = _ => destruct b; [|discriminate]
           end;
    apply init_check_ok in H; destruct H as (-> & H1 & H2); cbn in *; repeat split; auto.
    right. repeat split; reflexivity.
  Qed.

  Lemma reimport_own : forall s as_pub s', reimport K true s as_pub None = Ok s' ->
    depth s' = depth s /\ origin s' = origin s /\ path s' = path s /\ index s' = index s /\ key s' = key s.
  Proof.
    intros s as_pub s' H. unfold reimport in H.
    repeat match type of H with
           | (if ?b then _ else _) = _ => destruct b; [|discriminate]
           end.
    apply init_check_ok in H; destruct H as (-> & _); cbn; repeat split; reflexivity.
  Qed.

  Lemma step_inv : forall c s o s', coin_wf c = true -> inv c s -> api_op o = true ->
    step c s o = Ok s' -> inv c s'.
  Proof.
    intros c s o s' W I A H. destruct o; cbn [Bip44.step] in H.
    - eapply level_op_inv; eauto. apply purpose_slot.
    - eapply level_op_inv; eauto. apply coin_slot.
    - eapply level_op_inv; eauto. apply account_slot.
    - destruct (existsb (N.eqb c0) change_values) eqn:E; [|discriminate].
      apply existsb_exists in E. destruct E as (x & Hx & Ex). apply N.eqb_eq in Ex. subst x.
      eapply level_op_inv; eauto. intros i. apply change_slot; assumption.
    - eapply level_op_inv; eauto. apply addr_slot.
    - apply default_path_ok in H. destruct H as (s1 & s2 & s3 & H1 & H2 & _ & H3 & H4).
      assert (I1 : inv c s1). { eapply level_op_inv; eauto. apply purpose_slot. }
      assert (I2 : inv c s2). { eapply level_op_inv; eauto. apply coin_slot. }
      apply level_op_ok in H2. destruct H2 as (_ & H2 & _). apply child_key_ok in H2.
      destruct H2 as (i2 & _ & _ & _ & Hd2 & _ & _ & _ & Hp2).
      apply level_op_ok in H1. destruct H1 as (Hd0 & H1 & _). apply child_key_ok in H1.
      destruct H1 as (_ & _ & _ & _ & Hd1 & _).
      assert (D2 : depth s2 = 2).
      { destruct guards_ok as (G & _). rewrite G in Hd0. lia. }
      apply derive_path_ok in H3. destruct H3 as (P1 & P2 & P3 & P4 & P5 & P6).
      apply init_check_ok in H4. destruct H4 as (-> & M1 & M2).
      apply coin_wf_facts in W. destruct W as (_ & Wp & _).
      destruct I2 as [J1 J2 J3 J4 J5]. split; auto.
      + rewrite P1, P3, P4, app_length, J1. lia.
      + rewrite P3, P4. apply path_ok_app; [assumption|]. rewrite <- J1, D2. assumption.
      + intros _. destruct (c_defpath c) as [|x t] eqn:Ed.
        * rewrite (P6 eq_refl). rewrite app_nil_r in *. apply J5.
          intro X. rewrite X in Hp2. symmetry in Hp2. apply app_eq_nil in Hp2. destruct Hp2; discriminate.
        * rewrite P5 by discriminate. rewrite P4.
          assert (X : x :: t <> []) by discriminate. revert X. generalize (x :: t). intros l X.
          destruct (exists_last X) as (l' & a & ->). rewrite app_assoc, !last_last. reflexivity.
    - apply reimport_ok in H. destruct H as (M1 & M2 & _ & _ & [[Ho Hp]|(_ & _ & Hd & Ho & Hp & Hi)]).
      + split; auto; rewrite ?Hp; cbn; try lia. apply path_ok_nil. intros X; contradiction X; reflexivity.
      + destruct I as [J1 J2 J3 J4 J5]. split; auto; rewrite ?Hd, ?Ho, ?Hp, ?Hi; auto.
    - apply reimport_ok in H. destruct H as (M1 & M2 & _ & _ & [[Ho Hp]|(_ & Hx & _)]); [|discriminate].
      split; auto; rewrite ?Hp; cbn; try lia. apply path_ok_nil. intros X; contradiction X; reflexivity.
    - discriminate.
  Qed.

  Lemma exec_inv : forall c s o, coin_wf c = true -> inv c s -> api_op o = true -> inv c (exec c s o).
  Proof.
    intros c s o W I A. unfold Bip44.exec. destruct (step c s o) as [s'|e] eqn:E; [|assumption].
    eapply step_inv; eauto.
  Qed.

  Lemma run_inv : forall c ops s, coin_wf c = true -> inv c s -> forallb api_op ops = true -> inv c (run c s ops).
  Proof.
    intros c ops. induction ops as [|o t IH]; intros s W I A; [assumption|].
    cbn in A. apply andb_prop in A. destruct A as [A1 A2]. cbn. apply IH; auto. apply exec_inv; assumption.
  Qed.

  Lemma from_seed_inv : forall c k0 s0, from_seed K k0 = Ok s0 -> inv c s0 /\ origin s0 = 0 /\ key s0 = k0 /\ path s0 = [].
  Proof.
    intros c k0 s0 H. unfold from_seed in H. apply init_check_ok in H. destruct H as (-> & _ & _).
    repeat split; cbn; try lia; try discriminate; try apply path_ok_nil; try (intros X; contradiction X; reflexivity).
  Qed.

  Lemma inv_level : forall c s, inv c s -> level K s = Ok (depth s).
  Proof.
    intros c s [_ M _ _ _]. unfold level. destruct levels_ok as (_ & _ & _ & _ & _ & _ & L). rewrite L.
    assert (X : depth s = 0 \/ depth s = 1 \/ depth s = 2 \/ depth s = 3 \/ depth s = 4 \/ depth s = 5) by lia.
    destruct X as [X|[X|[X|[X|[X|X]]]]]; rewrite X; reflexivity.
  Qed.

  (* ---------------------------------------------------------------- op_guard *)

  Lemma child_then_init : forall c s iz s', child_key c s iz = Ok s' ->
    depth s <= 4 -> (pub_only s = true -> 3 <= depth s) -> init_check s' = Ok s'.
  Proof.
    intros c s iz s' H D P. apply child_key_ok in H.
    destruct H as (i & _ & _ & _ & Hd & Hpo & _). apply init_check_pass.
    - rewrite Hd. lia.
    - rewrite Hpo, Hd. intros X. specialize (P X). lia.
  Qed.

  Lemma level_op_guarded : forall c s lvl rule iz, depth s = lvl -> lvl <= 4 ->
    (pub_only s = true -> 3 <= depth s) ->
    level_op c s lvl rule iz = child_key c s (apply_rule rule (c_pubderiv c) iz).
  Proof.
    intros c s lvl rule iz D L P. unfold Bip44.level_op. rewrite <- D, N.eqb_refl.
    destruct (child_key c s (apply_rule rule (c_pubderiv c) iz)) as [s'|e] eqn:E; [|reflexivity].
    cbn [bind]. eapply child_then_init; eauto. lia.
  Qed.

  Lemma level_op_wrong_level : forall c s lvl rule iz, depth s <> lvl ->
    level_op c s lvl rule iz = Err (LibError Bip44DepthError).
  Proof.
    intros c s lvl rule iz D. unfold Bip44.level_op. destruct (N.eqb_spec (depth s) lvl); [contradiction|reflexivity].
  Qed.

  Lemma op_index_level : forall c o l iz, op_index c o = Some (l, iz) -> l <= 4.
  Proof.
    intros c o l iz H. destruct guards_ok as (G1 & G2 & G3 & G4 & G5).
    destruct o; cbn in H; inversion H; subst; rewrite ?G1, ?G2, ?G3, ?G4, ?G5; lia.
  Qed.

  Lemma op_guard : forall c s o l iz, op_index c o = Some (l, iz) ->
    (well_typed o = false -> step c s o = Err TypeError) /\
    (well_typed o = true -> depth s <> l -> step c s o = Err (LibError Bip44DepthError) /\ exec c s o = s) /\
    (well_typed o = true -> depth s = l -> (pub_only s = true -> 3 <= depth s) ->
       step c s o = child_key c s iz).
  Proof.
    intros c s o l iz H. pose proof (op_index_level _ _ _ _ H) as L.
    destruct o; cbn in H; inversion H; subst; cbn [well_typed Bip44.step]; unfold Bip44.exec; cbn [Bip44.step];
      unfold purpose_op, coin_op;
      (split; [discriminate || idtac|split; intros W D; [rewrite ?W; cbn [negb]; rewrite level_op_wrong_level by assumption; split; reflexivity
                                         |intros P; rewrite ?W; cbn [negb]; apply level_op_guarded; assumption]]).
    intros W. rewrite W. reflexivity.
  Qed.

  (* what ChildKey does, as a decision table *)
  Lemma child_key_outcomes : forall c s iz,
    match child_key c s iz with
    | inl s' => exists i, mk_index iz = Ok i /\ child_refused (c_pubderiv c) (pub_only s) i = false /\
                  depth s' = depth s + 1 /\ pub_only s' = pub_only s /\ index s' = i /\ path s' = path s ++ [i]
    | inr e => (e = ValueError /\ mk_index iz = Err ValueError) \/
               (e = LibError Bip32KeyError /\ exists i, mk_index iz = Ok i /\ child_refused (c_pubderiv c) (pub_only s) i = true) \/
               (exists i, mk_index iz = Ok i /\ ckd_of s (key s) i = Err e)
    end.
  Proof.
    intros c s iz. destruct (child_key c s iz) as [s'|e] eqn:E.
    - apply child_key_ok in E. destruct E as (i & H1 & H2 & _ & H4 & H5 & H6 & _ & H8). exists i. repeat split; assumption.
    - apply child_key_err in E. destruct E as [E|[E|(i & E1 & _ & E3)]]; auto. right; right. exists i; auto.
  Qed.

  Lemma default_path_wrong_level : forall c s, depth s <> guard_purpose ->
    step c s DeriveDefaultPath = Err (LibError Bip44DepthError).
  Proof.
    intros c s D. cbn [Bip44.step]. unfold Bip44.default_path, purpose_op. rewrite level_op_wrong_level by assumption. reflexivity.
  Qed.

  (* ---------------------------------------------------------------- default path = manual *)

  Lemma hardenZ_fix : forall x, is_hardened x = true -> hardenZ (Z.of_N x) = Z.of_N x.
  Proof. intros x H. rewrite hardenZ_of_N, hardenN_idem by assumption. reflexivity. Qed.

  Lemma manual_step : forall c s o x pos, pub_only s = false -> depth s = pos ->
    manual_op c pos x = Some o -> slot_okb c pos x = true ->
    step c s o = (s' <- child_key c s (Z.of_N x) ;; init_check s').
  Proof.
    intros c s o x pos P D M S. unfold manual_op in M. unfold slot_okb in S.
    destruct guards_ok as (G1 & G2 & G3 & G4 & G5). destruct rules_ok as (R1 & R2 & R3 & R4 & R5).
    destruct (N.eqb_spec pos 2) as [E2|N2].
    { injection M as <-. rewrite E2 in S. cbn in S. cbn [Bip44.step]. unfold Bip44.level_op.
      rewrite G3, R3, D, E2. cbn [N.eqb Pos.eqb negb].
      unfold apply_rule. cbn [N.eqb Pos.eqb]. rewrite hardenZ_fix by exact S. reflexivity. }
    destruct (N.eqb_spec pos 3) as [E3|N3].
    { destruct (find (fun ch => x =? hard_if c ch) change_values) as [ch|] eqn:F; [|discriminate].
      injection M as <-. apply find_some in F. destruct F as [Hin Hx]. apply N.eqb_eq in Hx.
      cbn [Bip44.step].
      assert (X : existsb (N.eqb ch) change_values = true).
      { apply existsb_exists. exists ch. split; [assumption|apply N.eqb_refl]. }
      rewrite X. cbn [negb]. unfold Bip44.level_op. rewrite G4, R4, D, E3. cbn [N.eqb Pos.eqb negb].
      unfold apply_rule. cbn [N.eqb Pos.eqb]. rewrite Hx. unfold hard_if.
      destruct (c_pubderiv c); [reflexivity|]. rewrite hardenZ_of_N. reflexivity. }
    destruct (N.eqb_spec pos 4) as [E4|N4]; [|discriminate].
    injection M as <-. rewrite E4 in S. cbn in S. cbn [Bip44.step]. unfold Bip44.level_op.
    rewrite G5, R5, D, E4. cbn [N.eqb Pos.eqb negb].
    unfold apply_rule. cbn [N.eqb Pos.eqb].
    destruct (c_pubderiv c); [reflexivity|]. cbn in S. rewrite hardenZ_fix by assumption. reflexivity.
  Qed.

  Lemma manual_tail : forall c p pos s ops, pub_only s = false -> depth s = pos -> 2 <= pos ->
    pos + N.of_nat (length p) <= 5 -> slots_okb c pos p = true -> manual_ops c pos p = Some ops ->
    (s3 <- derive_path c s p ;; init_check s3) = chain c s ops.
  Proof.
    intros c p. induction p as [|x t IH]; intros pos s ops P D L2 L5 S M.
    - cbn in M. inversion M; subst ops. cbn. apply init_check_pass. { cbn in L5. lia. } rewrite P. discriminate.
    - cbn [manual_ops] in M. destruct (manual_op c pos x) as [o|] eqn:Mo; [|discriminate].
      destruct (manual_ops c (pos + 1) t) as [l|] eqn:Ml; [|discriminate]. inversion M; subst ops.
      cbn [slots_okb] in S. apply andb_prop in S. destruct S as [S1 S2].
      cbn [Bip44.derive_path Bip44.chain]. rewrite (manual_step c s o x pos P D Mo S1).
      destruct (child_key c s (Z.of_N x)) as [s'|e] eqn:C; [|reflexivity]. cbn [bind].
      cbn [length] in L5.
      rewrite (child_then_init _ _ _ _ C) by (try lia; rewrite P; discriminate). cbn [bind].
      apply child_key_ok in C. destruct C as (i & _ & _ & _ & Hd & Hpo & _).
      apply IH with (pos := pos + 1); auto; try lia. congruence.
  Qed.

  Lemma default_path_is_manual : forall c s ops, coin_wf c = true ->
    manual_ops c 2 (c_defpath c) = Some ops ->
    step c s DeriveDefaultPath = chain c s (Purpose :: Coin :: ops).
  Proof.
    intros c s ops W M. cbn [Bip44.step Bip44.chain]. unfold Bip44.default_path.
    destruct (purpose_op K ckd_priv ckd_pub c s) as [s1|e] eqn:E1; [|reflexivity]. cbn [bind].
    destruct (coin_op K ckd_priv ckd_pub c s1) as [s2|e] eqn:E2; [|reflexivity]. cbn [bind].
    pose proof W as W'. apply coin_wf_facts in W'. destruct W' as (Wa & _ & Wl & _).
    rewrite Wa. cbn [andb negb].
    unfold coin_wf in W. repeat (apply andb_prop in W; destruct W as [W ?]).
    apply level_op_ok in E1. destruct E1 as (D0 & C1 & _). apply child_key_ok in C1.
    destruct C1 as (_ & _ & _ & _ & D1 & _).
    apply level_op_ok in E2. destruct E2 as (D1' & C2 & M2 & P2). apply child_key_ok in C2.
    destruct C2 as (_ & _ & _ & _ & D2 & _).
    destruct guards_ok as (G1 & G2 & _). rewrite G2 in D1'.
    assert (X : depth s2 = 2) by lia.
    apply manual_tail with (pos := 2); auto; try lia.
    destruct (pub_only s2); [specialize (P2 eq_refl); lia|reflexivity].
  Qed.

  (* ---------------------------------------------------------------- canonical prefix *)

  Ltac slot_cases H :=
    cbn in H; unfold slot_ok in H;
    destruct H as [[? H]|[[? H]|[[? H]|[[? H]|[? H]]]]]; try discriminate.

  Lemma canonical_prefix : forall c s, inv c s -> origin s = 0 ->
    exists a ch i, In ch change_values /\ path s = firstn (N.to_nat (depth s)) (canonical c a ch i).
  Proof.
    intros c s [I1 I2 _ I4 _] O. rewrite O in *. cbn in I1.
    assert (X : exists ch0, In ch0 change_values).
    { destruct change_values_ok as (Cne & _). destruct change_values as [|ch0 cl]; [contradiction Cne; reflexivity|].
      exists ch0. left; reflexivity. }
    destruct X as (ch0 & In0).
    rewrite I1, Nnat.Nat2N.id. unfold path_ok in I4.
    destruct (path s) as [|x0 [|x1 [|x2 [|x3 [|x4 [|x5 t]]]]]] eqn:Ep; cbn [length firstn canonical].
    - exists 0, ch0, 0. split; [assumption|reflexivity].
    - pose proof (I4 0%nat _ eq_refl) as Q0. slot_cases Q0.
      exists 0, ch0, 0. split; [assumption|]. subst; reflexivity.
    - pose proof (I4 0%nat _ eq_refl) as Q0. slot_cases Q0.
      pose proof (I4 1%nat _ eq_refl) as Q1. slot_cases Q1.
      exists 0, ch0, 0. split; [assumption|]. subst; reflexivity.
    - pose proof (I4 0%nat _ eq_refl) as Q0. slot_cases Q0.
      pose proof (I4 1%nat _ eq_refl) as Q1. slot_cases Q1.
      pose proof (I4 2%nat _ eq_refl) as Q2. slot_cases Q2. destruct Q2 as (a & Q2).
      exists a, ch0, 0. split; [assumption|]. subst; reflexivity.
    - pose proof (I4 0%nat _ eq_refl) as Q0. slot_cases Q0.
      pose proof (I4 1%nat _ eq_refl) as Q1. slot_cases Q1.
      pose proof (I4 2%nat _ eq_refl) as Q2. slot_cases Q2. destruct Q2 as (a & Q2).
      pose proof (I4 3%nat _ eq_refl) as Q3. slot_cases Q3. destruct Q3 as (ch & Hc & Q3).
      exists a, ch, 0. split; [assumption|]. subst; reflexivity.
    - pose proof (I4 0%nat _ eq_refl) as Q0. slot_cases Q0.
      pose proof (I4 1%nat _ eq_refl) as Q1. slot_cases Q1.
      pose proof (I4 2%nat _ eq_refl) as Q2. slot_cases Q2. destruct Q2 as (a & Q2).
      pose proof (I4 3%nat _ eq_refl) as Q3. slot_cases Q3. destruct Q3 as (ch & Hc & Q3).
      pose proof (I4 4%nat _ eq_refl) as Q4. slot_cases Q4. destruct Q4 as (i & Q4).
      exists a, ch, i. split; [assumption|]. subst; reflexivity.
    - cbn in I1. lia.
  Qed.

  (* ---------------------------------------------------------------- keys *)

  Lemma plain_derive_app : forall p q k, plain_derive k (p ++ q) = (k' <- plain_derive k p ;; plain_derive k' q).
  Proof.
    induction p as [|i t IH]; intros q k; [reflexivity|]. cbn.
    destruct (ckd_priv k i) as [k'|e]; [|reflexivity]. cbn. apply IH.
  Qed.

  Section Keys.
    (* C04: public derivation yields the (public view of the) key private derivation yields *)
    Hypothesis ckd_pub_agrees : forall k i, is_hardened i = false -> ckd_pub k i = ckd_priv k i.

    Lemma child_key_lineage : forall c s iz s', child_key c s iz = Ok s' ->
      origin s' = origin s /\ exists i, path s' = path s ++ [i] /\ plain_derive (key s) [i] = Ok (key s').
    Proof.
      intros c s iz s' H. apply child_key_ok in H. destruct H as (i & _ & R & D & _ & _ & _ & Ho & Hp).
      split; [assumption|]. exists i. split; [assumption|]. cbn. unfold ckd_of in D.
      destruct (pub_only s).
      - cbn in R. apply orb_false_elim in R. destruct R as [R _]. rewrite <- ckd_pub_agrees by assumption. rewrite D. reflexivity.
      - rewrite D. reflexivity.
    Qed.

    Lemma level_op_lineage : forall c s lvl rule iz s', level_op c s lvl rule iz = Ok s' ->
      origin s' = origin s /\ exists p, path s' = path s ++ p /\ plain_derive (key s) p = Ok (key s').
    Proof.
      intros c s lvl rule iz s' H. apply level_op_ok in H. destruct H as (_ & H & _).
      apply child_key_lineage in H. destruct H as (Ho & i & Hp & Hk). split; [assumption|]. exists [i]. auto.
    Qed.

    Lemma derive_path_lineage : forall c p s s', derive_path c s p = Ok s' ->
      plain_derive (key s) p = Ok (key s').
    Proof.
      intros c p. induction p as [|i t IH]; intros s s' H.
      - cbn in H. inversion H. reflexivity.
      - cbn [Bip44.derive_path] in H. destruct (child_key c s (Z.of_N i)) as [s1|e] eqn:C; [|discriminate].
        cbn [bind] in H. apply IH in H. pose proof C as C'. apply child_key_lineage in C. destruct C as (_ & j & Hp & Hk).
        apply child_key_ok in C'. destruct C' as (j' & Hj & _ & _ & _ & _ & _ & _ & Hp').
        rewrite Hp in Hp'. apply app_inv_head in Hp'. inversion Hp'; subst j'.
        apply mk_index_ok in Hj. destruct Hj as (_ & Hj & _). rewrite N2Z.id in Hj. subst j.
        cbn in Hk |- *. destruct (ckd_priv (key s) i) as [k1|e]; [|discriminate]. cbn in Hk |- *. inversion Hk; subst. assumption.
    Qed.

    Lemma chain_lineage_join : forall k0 k1 k2 p q, plain_derive k0 p = Ok k1 -> plain_derive k1 q = Ok k2 ->
      plain_derive k0 (p ++ q) = Ok k2.
    Proof. intros. rewrite plain_derive_app, H. cbn. assumption. Qed.

    Lemma step_lineage : forall c s o s', lineage_op o = true -> step c s o = Ok s' ->
      origin s' = origin s /\ exists p, path s' = path s ++ p /\ plain_derive (key s) p = Ok (key s').
    Proof.
      intros c s o s' L H. destruct o; cbn [Bip44.step] in H; try discriminate L.
      - eapply level_op_lineage; eauto.
      - eapply level_op_lineage; eauto.
      - eapply level_op_lineage; eauto.
      - destruct (existsb (N.eqb c0) change_values); [|discriminate]. eapply level_op_lineage; eauto.
      - eapply level_op_lineage; eauto.
      - apply default_path_ok in H. destruct H as (s1 & s2 & s3 & H1 & H2 & _ & H3 & H4).
        apply level_op_lineage in H1. destruct H1 as (O1 & p1 & P1 & K1).
        apply level_op_lineage in H2. destruct H2 as (O2 & p2 & P2 & K2).
        pose proof (derive_path_lineage _ _ _ _ H3) as K3. apply derive_path_ok in H3.
        destruct H3 as (_ & _ & O3 & P3 & _). apply init_check_ok in H4. destruct H4 as (-> & _).
        split; [congruence|]. exists (p1 ++ p2 ++ c_defpath c). split.
        + rewrite P3, P2, P1, <- !app_assoc. reflexivity.
        + eapply chain_lineage_join; eauto. eapply chain_lineage_join; eauto.
      - destruct meta as [m|]; [discriminate|]. apply reimport_own in H.
        destruct H as (_ & Ho & Hp & _ & Hk).
        split; [assumption|]. exists []. rewrite app_nil_r. split; [assumption|]. cbn. rewrite Hk. reflexivity.
      - inversion H; subst; cbn. split; [reflexivity|]. exists []. rewrite app_nil_r. split; reflexivity.
    Qed.

    Lemma run_lineage : forall c ops s, forallb lineage_op ops = true ->
      origin (run c s ops) = origin s /\
      exists p, path (run c s ops) = path s ++ p /\ plain_derive (key s) p = Ok (key (run c s ops)).
    Proof.
      intros c ops. induction ops as [|o t IH]; intros s L.
      - cbn. split; [reflexivity|]. exists []. rewrite app_nil_r. split; reflexivity.
      - cbn in L. apply andb_prop in L. destruct L as [L1 L2]. cbn [Bip44.run fold_left].
        fold (run c (exec c s o) t). destruct (IH (exec c s o) L2) as (O & p & P & D).
        unfold Bip44.exec in *. destruct (step c s o) as [s'|e] eqn:E.
        + apply step_lineage in E; [|assumption]. destruct E as (O' & q & Q & D').
          split; [congruence|]. exists (q ++ p). split.
          * rewrite P, Q, app_assoc. reflexivity.
          * eapply chain_lineage_join; eauto.
        + split; [assumption|]. exists p. split; assumption.
    Qed.

    Lemma keys_from_seed : forall c k0 s0 ops, coin_wf c = true -> from_seed K k0 = Ok s0 ->
      forallb api_op ops = true -> forallb lineage_op ops = true ->
      exists a ch i, In ch change_values /\
        plain_derive k0 (firstn (N.to_nat (depth (run c s0 ops))) (canonical c a ch i)) = Ok (key (run c s0 ops)).
    Proof.
      intros c k0 s0 ops W F A L. destruct (from_seed_inv c _ _ F) as (I0 & O0 & K0 & P0).
      pose proof (run_inv c ops s0 W I0 A) as I.
      destruct (run_lineage c ops s0 L) as (O & p & P & D).
      rewrite O0 in O. destruct (canonical_prefix c _ I O) as (a & ch & i & Hin & Hp).
      exists a, ch, i. split; [assumption|]. rewrite <- Hp, P, P0. cbn. rewrite <- K0. assumption.
    Qed.
  End Keys.

  Lemma all_coins_wf : forall c, In c all_coins -> coin_wf c = true.
  Proof. intros c H. pose proof coins_wf as W. rewrite forallb_forall in W. apply W; assumption. Qed.

  Lemma all_coins_manual : forall c, In c all_coins -> exists ops, manual_ops c 2 (c_defpath c) = Some ops.
  Proof.
    intros c H. pose proof coins_manual as W. rewrite forallb_forall in W. specialize (W c H).
    destruct (manual_ops c 2 (c_defpath c)) as [ops|]; [exists ops; reflexivity|discriminate].
  Qed.

  (* the level discipline after any history through the Bip44 API, from the seed constructor *)
  Lemma level_invariant : forall c k0 s0 ops, In c all_coins -> from_seed K k0 = Ok s0 ->
    forallb api_op ops = true -> inv c (run c s0 ops) /\ level K (run c s0 ops) = Ok (depth (run c s0 ops)).
  Proof.
    intros c k0 s0 ops Hc F A. destruct (from_seed_inv c _ _ F) as (I0 & _).
    pose proof (run_inv c ops s0 (all_coins_wf c Hc) I0 A) as I. split; [assumption|]. eapply inv_level; eauto.
  Qed.

  Lemma default_path_guard : forall c s, depth s <> 0 ->
    step c s DeriveDefaultPath = Err (LibError Bip44DepthError) /\ exec c s DeriveDefaultPath = s.
  Proof.
    intros c s D. assert (X : step c s DeriveDefaultPath = Err (LibError Bip44DepthError)).
    { apply default_path_wrong_level. destruct guards_ok as (G & _). rewrite G. assumption. }
    split; [assumption|]. unfold Bip44.exec. rewrite X. reflexivity.
  Qed.

  Lemma level_invariant_full : forall c k0 s0 ops, In c all_coins -> from_seed K k0 = Ok s0 ->
    forallb api_op ops = true ->
    let s := run c s0 ops in
    level K s = Ok (depth s) /\ depth s <= 5 /\
    depth s = origin s + N.of_nat (length (path s)) /\
    (forall k x, nth_error (path s) k = Some x -> slot_ok c (origin s + N.of_nat k) x) /\
    (path s <> [] -> index s = last (path s) 0) /\
    (origin s = 0 -> exists a ch i, In ch change_values /\
                       path s = firstn (N.to_nat (depth s)) (canonical c a ch i)).
  Proof.
    intros c k0 s0 ops Hc F A s. destruct (level_invariant c k0 s0 ops Hc F A) as (I & L).
    fold s in I, L. repeat split; try assumption; try apply I.
    intros O. apply canonical_prefix; assumption.
  Qed.

  Lemma public_only_levels : forall c k0 s0 ops, In c all_coins -> from_seed K k0 = Ok s0 ->
    forallb api_op ops = true ->
    pub_only (run c s0 ops) = true -> 3 <= depth (run c s0 ops) <= 5.
  Proof.
    intros c k0 s0 ops Hc F A P. destruct (level_invariant c k0 s0 ops Hc F A) as (I & _).
    split; [apply I; assumption|apply I].
  Qed.
End Automaton.

(* F20: with the accessor's ConvertToPublic in the history the public-only bound fails *)
Lemma public_only_levels_refuted : forall c,
  exists ops, match from_seed unit tt with
              | inl s0 => let s := run unit (fun _ _ => Ok tt) (fun _ _ => Ok tt) c s0 ops in
                          pub_only s = true /\ depth s = 0
              | inr _ => False end.
Proof. intros c. exists [Bip32ObjConvertToPublic]. vm_compute. split; reflexivity. Qed.


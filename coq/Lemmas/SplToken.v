(* Proofs about Model/SplToken.v and Model/Brainwallet.v (C20). *)
From Coq Require Import NArith Arith List Lia Bool.
From BU Require Import Base.Exn Base.Radix Base.Bytes Gen.SerbipConsts Model.Base58 Model.SplToken Model.Brainwallet.
From BU Require Import Lemmas.SerbipAux Lemmas.SerbipConstsOk.
Import ListNotations.
Open Scope N_scope.

(* IntegerUtils.ToBytes(bump) is the single byte [bump] for every bump the search can reach *)
Lemma bump_byte_table : forallb (fun b => list_eqb (int_to_be_auto b) [b]) (map N.of_nat (seq 1 255)) = true.
Proof. vm_compute. reflexivity. Qed.

Lemma bump_byte b : 1 <= b <= 255 -> int_to_be_auto b = [b].
Proof.
  intros H. pose proof bump_byte_table as T. rewrite forallb_forall in T.
  apply list_eqb_spec, T. apply in_map_iff. exists (N.to_nat b). split; [apply Nnat.N2Nat.id|]. apply in_seq. lia.
Qed.

Section Pda.
  Set Default Proof Using "Type".
  Variable sha256 : list N -> list N.
  Variable on_curve : list N -> bool.

  Notation H := (pda_hash sha256).
  Notation loop := (find_pda_loop sha256 on_curve).

  (* the candidate for a bump: sha256(seeds || [bump] || program_id || "ProgramDerivedAddress") *)
  Theorem pda_hash_layout cat b prog : 1 <= b <= 255 ->
    H cat b prog = sha256 (cat ++ [b] ++ prog ++ spl_pda_marker).
  Proof. intros Hb. unfold pda_hash. rewrite bump_byte by assumption. reflexivity. Qed.

  (* induction over the search: the result is the candidate of the first bump, counting down, that is off the curve *)
  Lemma loop_spec cat prog : forall fuel bump, N.of_nat fuel <= bump ->
    match loop cat prog bump fuel with
    | inl h => exists k, (k < fuel)%nat /\ h = H cat (bump - N.of_nat k) prog /\ on_curve h = false /\
                         forall j, (j < k)%nat -> on_curve (H cat (bump - N.of_nat j) prog) = true
    | inr e => e = ValueError /\ forall j, (j < fuel)%nat -> on_curve (H cat (bump - N.of_nat j) prog) = true
    end.
  Proof.
    induction fuel as [|f IH]; intros bump Hb; cbn [find_pda_loop].
    - split; [reflexivity|]. intros j Hj. lia.
    - destruct (on_curve (H cat bump prog)) eqn:C.
      + assert (Hb' : N.of_nat f <= bump - 1) by lia. specialize (IH (bump - 1) Hb').
        destruct (loop cat prog (bump - 1) f) as [h|e].
        * destruct IH as (k & Hk & Eh & Ch & Hprev). exists (S k). split; [lia|].
          replace (bump - N.of_nat (S k)) with (bump - 1 - N.of_nat k) by lia. split; [exact Eh|]. split; [exact Ch|].
          intros j Hj. destruct j as [|j]; [rewrite N.sub_0_r; exact C|].
          replace (bump - N.of_nat (S j)) with (bump - 1 - N.of_nat j) by lia. apply Hprev. lia.
        * destruct IH as [-> Hall]. split; [reflexivity|]. intros j Hj. destruct j as [|j]; [rewrite N.sub_0_r; exact C|].
          replace (bump - N.of_nat (S j)) with (bump - 1 - N.of_nat j) by lia. apply Hall. lia.
      + exists 0%nat. split; [lia|]. rewrite N.sub_0_r. split; [reflexivity|]. split; [exact C|]. intros j Hj. lia.
  Qed.

  (* pda_is_first_off_curve: bumps 255, 254, ..., 1 (never 0) *)
  Theorem pda_is_first_off_curve cat prog h :
    loop cat prog 255 255 = Ok h <->
    exists b, 1 <= b <= 255 /\ h = H cat b prog /\ on_curve (H cat b prog) = false /\
              forall b', b < b' <= 255 -> on_curve (H cat b' prog) = true.
  Proof.
    pose proof (loop_spec cat prog 255 255 ltac:(cbn; lia)) as S. split.
    - intros E. rewrite E in S. destruct S as (k & Hk & Eh & Ch & Hprev).
      exists (255 - N.of_nat k). split; [lia|]. split; [exact Eh|]. split; [rewrite <- Eh; exact Ch|].
      intros b' Hb'. replace b' with (255 - N.of_nat (N.to_nat (255 - b'))) by lia. apply Hprev. lia.
    - intros (b & Hb & Eh & Cb & Hprev). destruct (loop cat prog 255 255) as [h'|e].
      + destruct S as (k & Hk & Eh' & Ch' & Hprev'). unfold Ok. f_equal. rewrite Eh, Eh'. f_equal.
        (* both are "first off-curve": compare positions *)
        destruct (N.lt_trichotomy b (255 - N.of_nat k)) as [L|[E|L]]; [| exact (eq_sym E) |].
        * specialize (Hprev (255 - N.of_nat k) ltac:(lia)). rewrite <- Eh' in Hprev. congruence.
        * specialize (Hprev' (N.to_nat (255 - b)) ltac:(lia)).
          replace (255 - N.of_nat (N.to_nat (255 - b))) with b in Hprev' by lia. congruence.
      + destruct S as [_ Hall]. specialize (Hall (N.to_nat (255 - b)) ltac:(lia)).
        replace (255 - N.of_nat (N.to_nat (255 - b))) with b in Hall by lia. congruence.
  Qed.

  Theorem pda_none_iff cat prog e :
    loop cat prog 255 255 = Err e <-> (e = ValueError /\ forall b, 1 <= b <= 255 -> on_curve (H cat b prog) = true).
  Proof.
    pose proof (loop_spec cat prog 255 255 ltac:(cbn; lia)) as S. split.
    - intros E. rewrite E in S. destruct S as [-> Hall]. split; [reflexivity|]. intros b Hb.
      replace b with (255 - N.of_nat (N.to_nat (255 - b))) by lia. apply Hall. lia.
    - intros [-> Hall]. destruct (loop cat prog 255 255) as [h|e'].
      + destruct S as (k & Hk & Eh & Ch & _). rewrite Eh in Ch. rewrite Hall in Ch by lia. discriminate.
      + destruct S as [-> _]. reflexivity.
  Qed.

  (* FindPda / the associated token account *)
  Variable alph : list N.
  Variable radix : N.
  Variable sol_decode : list N -> res (list N).

  Notation find_pda := (find_pda alph radix sha256 on_curve sol_decode).
  Notation get_ata := (get_ata alph radix sha256 on_curve sol_decode).
  Notation get_ata_with_program := (get_ata_with_program alph radix sha256 on_curve sol_decode).

  Theorem find_pda_spec seeds program_id prog : (length seeds <= 16)%nat ->
    Forall (fun s => (length s <= 32)%nat) seeds -> sol_decode program_id = Ok prog ->
    find_pda seeds program_id = (h <- loop (concat seeds) prog 255 255 ;; Ok (encode alph radix h)).
  Proof.
    intros L F D. unfold SplToken.find_pda. destruct c_spl as (B & M & P1 & P2 & _).
    rewrite M. destruct (Nat.ltb_spec 16 (length seeds)); [lia|].
    assert (X : existsb (fun s => (seed_max_len <? length s)%nat) seeds = false).
    { unfold seed_max_len. rewrite P1, P2. cbn [length Nat.add Nat.sub]. clear - F.
      induction F as [|s t Hs Ht IH]; [reflexivity|]. cbn [existsb]. rewrite IH.
      destruct (Nat.ltb_spec 32 (length s)); [lia|reflexivity]. }
    rewrite X, D, B. reflexivity.
  Qed.

  Theorem find_pda_rejects seeds program_id :
    ((16 < length seeds)%nat \/ Exists (fun s => (32 < length s)%nat) seeds) -> find_pda seeds program_id = Err ValueError.
  Proof.
    intros Hbad. unfold SplToken.find_pda. destruct c_spl as (B & M & P1 & P2 & _). rewrite M.
    destruct (Nat.ltb_spec 16 (length seeds)); [reflexivity|]. destruct Hbad as [|E]; [lia|].
    assert (X : existsb (fun s => (seed_max_len <? length s)%nat) seeds = true).
    { unfold seed_max_len. rewrite P1, P2. cbn [length Nat.add Nat.sub]. apply existsb_exists.
      apply Exists_exists in E. destruct E as (s & I & Hs). exists s. split; [exact I|]. apply Nat.ltb_lt. exact Hs. }
    rewrite X. reflexivity.
  Qed.

  (* ata_seeds_order: seeds are wallet, token program, mint (decoded in that order), program = the ATA program id *)
  Theorem ata_seeds_order wallet mint token_program :
    get_ata_with_program wallet mint token_program =
      (w <- sol_decode wallet ;; t <- sol_decode token_program ;; m <- sol_decode mint ;;
       find_pda [w; t; m] spl_def_program_id) /\
    get_ata wallet mint = get_ata_with_program wallet mint spl_def_token_program_id.
  Proof. split; reflexivity. Qed.

  Theorem ata_formula wallet mint w t m prog :
    sol_decode wallet = Ok w -> sol_decode spl_def_token_program_id = Ok t -> sol_decode mint = Ok m ->
    sol_decode spl_def_program_id = Ok prog ->
    length w = 32%nat -> length t = 32%nat -> length m = 32%nat ->
    get_ata wallet mint = (h <- loop (w ++ t ++ m) prog 255 255 ;; Ok (encode alph radix h)).
  Proof.
    intros Dw Dt Dm Dp Lw Lt Lm. unfold SplToken.get_ata, SplToken.get_ata_with_program.
    rewrite Dw, Dt, Dm. cbn [bind Ok]. rewrite (find_pda_spec [w; t; m] _ prog); auto.
    - cbn [concat]. rewrite app_nil_r. reflexivity.
    - cbn; lia.
    - constructor; [lia|]. constructor; [lia|]. constructor; [lia|]. constructor.
  Qed.
End Pda.

(* ---------------------------------------------------------------- brainwallet (definitional) *)
Section Bw.
  Set Default Proof Using "Type".
  Variable sha256 : list N -> list N.
  Variable pbkdf2_sha512 : list N -> list N -> N -> N -> list N.
  Variable scrypt : list N -> list N -> N -> N -> N -> N -> list N.
  Variable utf8 : list N -> res (list N).
  Variable priv_ok : list N -> bool.

  Notation compute := (bw_compute sha256 pbkdf2_sha512 scrypt utf8).
  Notation generate := (bw_generate sha256 pbkdf2_sha512 scrypt utf8 priv_ok).

  Theorem brainwallet_key_def pass pw : utf8 pass = Ok pw ->
    compute BwSha256 pass = Ok (sha256 pw) /\
    compute BwDoubleSha256 pass = Ok (sha256 (sha256 pw)) /\
    (forall salt itr, compute (BwPbkdf2 salt (Some itr)) pass = Ok (pbkdf2_sha512 pw salt itr 32)) /\
    (forall salt, compute (BwPbkdf2 salt None) pass = Ok (pbkdf2_sha512 pw salt 2097152 32)) /\
    (forall salt n r p, compute (BwScrypt salt (Some n) (Some r) (Some p)) pass = Ok (scrypt pw salt n r p 32)) /\
    (forall salt, compute (BwScrypt salt None None None) pass = Ok (scrypt pw salt 131072 8 8 32)).
  Proof. intros U. unfold bw_compute. rewrite U. repeat split; reflexivity. Qed.

  Theorem brainwallet_generate_def a pass k : compute a pass = Ok k ->
    generate a pass = if priv_ok k then Ok k else Err (LibError Bip32KeyError).
  Proof. intros E. unfold bw_generate. rewrite E. reflexivity. Qed.
End Bw.

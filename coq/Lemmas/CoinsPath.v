(* C08 -- the path grammar of Model/Coins.v: the parser is a left inverse of the printer.
   For every index list p with legal key indices (<= 2^32 - 1) and either flag,
       parse_path (show_path a p) = Ok (a, p)
   so every BIP-32 path has a spelling in the strict grammar, the printer loses nothing, and the
   default paths of the coin table (strings) and the index lists derived from them determine each
   other.  Real inductions (decimal digits, split/join); only a few facts about generated
   constants are decided by computation. *)
From Coq Require Import NArith PeanoNat List Bool Lia.
From BU Require Import Base.Exn Base.Radix Base.Bytes Gen.CoinsConsts Model.Coins.
Import ListNotations.
Open Scope N_scope.

(* ---- facts about the generated constants (re-checked on every run) *)
Lemma tick_is_hardened_char : memb 39 path_hardened_chars = true.
Proof. vm_compute. reflexivity. Qed.
Lemma master_char_shape :
  match path_master_char with
  | c :: _ => negb ((48 <=? c) && (c <=? 57)) && negb (memb 47 path_master_char)
  | [] => false
  end = true.
Proof. vm_compute. reflexivity. Qed.
Lemma hardened_range' : 2 * hardened_bit - 1 = key_index_max.
Proof. vm_compute. reflexivity. Qed.

Lemma hardened_bit_pos' : 0 < hardened_bit.
Proof. vm_compute. reflexivity. Qed.

Lemma r10 : 2 <= 10. Proof. lia. Qed.

(* ---- decimal digits *)
Definition is_digit (c : N) : Prop := 48 <= c <= 57.

Lemma digit_val_add d : d < 10 -> digit_val (d + 48) = Some d.
Proof.
  intros H. unfold digit_val.
  replace (48 <=? d + 48) with true by (symmetry; apply N.leb_le; lia).
  replace (d + 48 <=? 57) with true by (symmetry; apply N.leb_le; lia).
  simpl. f_equal. lia.
Qed.

Lemma dec_val_digits ds : digits_ok 10 ds -> forall acc,
  dec_val acc (map (fun d => d + 48) ds) = Some (acc * 10 ^ N.of_nat (length ds) + from_be 10 ds).
Proof.
  induction ds as [|d t IH]; intros H acc.
  - simpl. unfold from_be. simpl. f_equal. lia.
  - inversion H as [|? ? Hd Ht]; subst. cbn [map dec_val]. rewrite (digit_val_add d Hd).
    rewrite (IH Ht). f_equal. unfold from_be. cbn [rev]. rewrite (from_le_app 10 r10). cbn [from_le].
    rewrite rev_length. cbn [length]. rewrite Nat2N.inj_succ, N.pow_succ_r'. lia.
Qed.

Lemma show_dec_parse v : dec_val 0 (show_dec v) = Some v.
Proof.
  unfold show_dec. destruct (v =? 0) eqn:E.
  - apply N.eqb_eq in E. subst. reflexivity.
  - rewrite dec_val_digits.
    + f_equal. unfold from_be, to_be. rewrite rev_involutive, (from_to_le 10 r10). lia.
    + unfold to_be. apply digits_ok_rev. apply (to_le_digits 10 r10).
Qed.

Lemma show_dec_shape v : exists c t, show_dec v = c :: t /\ Forall is_digit (c :: t).
Proof.
  unfold show_dec. destruct (v =? 0) eqn:E.
  - exists 48, []. split; [reflexivity|]. repeat constructor; unfold is_digit; lia.
  - apply N.eqb_neq in E.
    assert (D : digits_ok 10 (to_be 10 v)) by (apply digits_ok_rev, (to_le_digits 10 r10)).
    assert (NE : to_be 10 v <> []).
    { unfold to_be. intros H. apply (f_equal (@rev N)) in H. rewrite rev_involutive in H.
      simpl in H. exact (to_le_nonzero 10 r10 v E H). }
    destruct (to_be 10 v) as [|d t]; [congruence|].
    exists (d + 48), (map (fun d => d + 48) t). split; [reflexivity|].
    change (Forall is_digit (map (fun d => d + 48) (d :: t))).
    apply Forall_map. eapply Forall_impl; [|exact D]. intros x Hx. unfold is_digit. simpl in Hx. lia.
Qed.

Lemma digit_not_hardened_char c : is_digit c -> memb c path_hardened_chars = false.
Proof.
  intros [A B].
  assert (D : c = 48 \/ c = 49 \/ c = 50 \/ c = 51 \/ c = 52 \/ c = 53 \/ c = 54 \/ c = 55 \/
              c = 56 \/ c = 57) by lia.
  repeat (destruct D as [D|D]; [subst c; vm_compute; reflexivity|]).
  subst c; vm_compute; reflexivity.
Qed.

(* ---- one element *)
Lemma split_suffix_digits e : e <> [] -> Forall is_digit e -> split_suffix e = (e, false).
Proof.
  intros NE F. unfold split_suffix. destruct (rev e) as [|c r] eqn:R.
  - reflexivity.
  - assert (I : In c e) by (apply in_rev; rewrite R; left; reflexivity).
    rewrite Forall_forall in F. rewrite (digit_not_hardened_char c (F c I)). reflexivity.
Qed.

Lemma split_suffix_tick e : split_suffix (e ++ [39]) = (e, true).
Proof.
  unfold split_suffix. rewrite rev_app_distr. cbn [rev app]. rewrite tick_is_hardened_char.
  rewrite rev_involutive. reflexivity.
Qed.

Lemma parse_show_elem i : i <= key_index_max -> parse_elem (show_elem i) = Ok i.
Proof.
  intros Hi. rewrite <- hardened_range' in Hi. pose proof hardened_bit_pos' as Hpos.
  unfold parse_elem, show_elem.
  destruct (is_hardened i) eqn:Hh; unfold is_hardened in Hh.
  - apply N.leb_le in Hh. rewrite split_suffix_tick.
    destruct (show_dec_shape (i - hardened_bit)) as (c & t & E & _). rewrite E, <- E.
    rewrite show_dec_parse.
    replace (i - hardened_bit <? hardened_bit) with true by (symmetry; apply N.ltb_lt; lia).
    unfold harden. f_equal. lia.
  - apply N.leb_gt in Hh.
    destruct (show_dec_shape i) as (c & t & E & F).
    rewrite split_suffix_digits; [|rewrite E; discriminate|rewrite E; exact F].
    rewrite E, <- E. rewrite show_dec_parse.
    replace (i <? hardened_bit) with true by (symmetry; apply N.ltb_lt; lia). reflexivity.
Qed.

(* first character and separator-freeness of a printed element *)
Lemma show_elem_shape i : exists c t, show_elem i = c :: t /\ is_digit c /\ ~ In 47 (c :: t).
Proof.
  unfold show_elem. destruct (is_hardened i).
  - destruct (show_dec_shape (i - hardened_bit)) as (c & t & E & F). rewrite E.
    exists c, (t ++ [39]). split; [reflexivity|]. split; [inversion F; assumption|].
    change (~ In 47 ((c :: t) ++ [39])). rewrite in_app_iff. intros [I|I].
    + rewrite Forall_forall in F. specialize (F _ I). unfold is_digit in F. lia.
    + simpl in I. destruct I as [I|[]]. discriminate.
  - destruct (show_dec_shape i) as (c & t & E & F). rewrite E. exists c, t.
    split; [reflexivity|]. split; [inversion F; assumption|].
    intros I. rewrite Forall_forall in F. specialize (F _ I). unfold is_digit in F. lia.
Qed.

(* ---- split / join *)
Lemma split_on_app sep x : ~ In sep x -> forall s cur,
  split_on sep (x ++ s) cur = split_on sep s (rev x ++ cur).
Proof.
  induction x as [|c t IH]; intros NI s cur; [reflexivity|].
  cbn [app split_on]. destruct (c =? sep) eqn:E.
  - apply N.eqb_eq in E. exfalso. apply NI. left. exact E.
  - rewrite IH by (intros I; apply NI; right; exact I). cbn [rev]. rewrite <- app_assoc. reflexivity.
Qed.

Lemma split_on_join sep es : es <> [] -> Forall (fun e => ~ In sep e) es ->
  split_on sep (join sep es) [] = es.
Proof.
  induction es as [|x t IH]; intros NE F; [congruence|].
  inversion F as [|? ? Hx Ht]; subst. destruct t as [|y t'].
  - cbn [join]. rewrite <- (app_nil_r x) at 1. rewrite split_on_app by exact Hx.
    cbn [split_on]. rewrite app_nil_r, rev_involutive. reflexivity.
  - cbn [join]. cbn [join] in IH. rewrite split_on_app by exact Hx. cbn [split_on].
    rewrite N.eqb_refl. rewrite app_nil_r, rev_involutive. f_equal. apply IH; [discriminate|exact Ht].
Qed.

Lemma filter_nonempty_id es : Forall (fun e => e <> []) es -> filter nonempty es = es.
Proof.
  induction 1 as [|e t He _ IH]; [reflexivity|]. simpl. destruct e; [congruence|]. simpl. f_equal. exact IH.
Qed.

Lemma mapM_parse_show p : Forall (fun i => i <= key_index_max) p ->
  mapM parse_elem (map show_elem p) = Ok p.
Proof.
  induction 1 as [|i t Hi _ IH]; [reflexivity|].
  cbn [map mapM]. rewrite (parse_show_elem i Hi). cbn [bind Ok]. rewrite IH. reflexivity.
Qed.

Lemma master_char_facts :
  path_master_char <> [] /\ ~ In 47 path_master_char /\
  forall i, list_eqb (show_elem i) path_master_char = false.
Proof.
  pose proof master_char_shape as H. destruct path_master_char as [|c t] eqn:E; [discriminate|].
  rewrite andb_true_iff, !negb_true_iff in H. destruct H as [H1 H2]. repeat split.
  - discriminate.
  - intros I. apply memb_In in I. congruence.
  - intros i. destruct (show_elem_shape i) as (d & r & Es & [D1 D2] & _). rewrite Es.
    destruct (list_eqb (d :: r) (c :: t)) eqn:L; [|reflexivity].
    apply list_eqb_spec in L. inversion L; subst.
    replace (48 <=? c) with true in H1 by (symmetry; apply N.leb_le; lia).
    replace (c <=? 57) with true in H1 by (symmetry; apply N.leb_le; lia). discriminate.
Qed.

(* ---- the theorem *)
Theorem parse_show_path : forall a p, Forall (fun i => i <= key_index_max) p ->
  parse_path (show_path a p) = Ok (a, p).
Proof.
  intros a p Hp. destruct master_char_facts as (M1 & M2 & M3).
  assert (Fsep : Forall (fun e => ~ In 47 e) (map show_elem p)).
  { apply Forall_map. apply Forall_forall. intros i _.
    destruct (show_elem_shape i) as (c & t & E & _ & N47). rewrite E. exact N47. }
  assert (Fne : Forall (fun e => e <> []) (map show_elem p)).
  { apply Forall_map. apply Forall_forall. intros i _.
    destruct (show_elem_shape i) as (c & t & E & _). rewrite E. discriminate. }
  unfold parse_path, show_path. destruct a.
  - cbn [app]. rewrite split_on_join; [|discriminate|constructor; assumption].
    rewrite filter_nonempty_id by (constructor; assumption).
    rewrite list_eqb_refl. rewrite (mapM_parse_show p Hp). reflexivity.
  - cbn [app]. destruct p as [|i t].
    + reflexivity.
    + rewrite split_on_join; [|discriminate|exact Fsep].
      rewrite filter_nonempty_id by exact Fne. cbn [map]. rewrite M3.
      change (show_elem i :: map show_elem t) with (map show_elem (i :: t)).
      rewrite (mapM_parse_show (i :: t) Hp). reflexivity.
Qed.

(* the printer is injective on legal index lists (a consequence) *)
Corollary show_path_inj : forall a b p q,
  Forall (fun i => i <= key_index_max) p -> Forall (fun i => i <= key_index_max) q ->
  show_path a p = show_path b q -> a = b /\ p = q.
Proof.
  intros a b p q Hp Hq E. pose proof (parse_show_path a p Hp) as P. rewrite E, (parse_show_path b q Hq) in P.
  inversion P. auto.
Qed.

(* The Bech32 distance certificate, evaluated by the kernel on the generator words regenerated from the
   source (Gen/Bech32Consts.v: bech32_gen).  Kept in its own file: it is the expensive step. *)
From Coq Require Import NArith List.
From BU Require Import Gen.Bech32Consts Model.Bech32 Lemmas.Bech32ConstsOk Lemmas.Bech32Detect.
Open Scope N_scope.

Definition b32_window : nat := 89.

(* the symbol field of Bech32: GF(32) = GF(2)[x]/(x^5 + x^3 + 1); only used through the checks inside the certificate *)
Definition b32_mul : N -> N -> N := gf_mul 41 5.

(* about 0.3 million look-ups (after normalising by symbol scaling), evaluated by the kernel when this Qed is
   checked (about 5 s in the VM).  It is false for 90 (a weight-4 codeword spans 90 positions): 89 is tight. *)
Lemma b32_certificate : certificate b32_gens bech32_pm_shift bech32_pm_symbits b32_mul b32_window = true.
Proof. vm_cast_no_check (eq_refl true). Qed.


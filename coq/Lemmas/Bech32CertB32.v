(* The Bech32 distance certificate, evaluated by the kernel on the generator words regenerated from the
   source (Gen/Bech32Consts.v: bech32_gen).  Kept in its own file: it is the expensive step. *)
From Coq Require Import NArith List.
From BU Require Import Gen.Bech32Consts Model.Bech32 Lemmas.Bech32ConstsOk Lemmas.Bech32Detect.
Open Scope N_scope.

Definition b32_window : nat := 89.

(* 3.7 million look-ups, evaluated by the kernel's VM when this Qed is checked (about 25 s).
   It is false for 90 (a weight-4 codeword spans 90 positions), so 89 is tight. *)
Lemma b32_certificate : certificate b32_gens bech32_pm_shift bech32_pm_symbits b32_window = true.
Proof. vm_cast_no_check (eq_refl true). Qed.


(* Proofs about Model/Seeds.v.  The seed generators are a validation followed by one KDF call, so
   the "definition" theorems are thin by nature (unfolding and the regenerated constants); the
   content is (a) that the statement is the published definition, (b) str.split() really discards
   every white-space variation (induction), (c) the UTF-8 encoder on ASCII prefixes, (d) the
   fold-invariance under the two NFKD laws, (e) the Electrum-v1 loop recurrence. *)
From Coq Require Import NArith Arith List Lia Bool.
From BU Require Import Base.Exn Base.Bytes Model.BinStr Model.Bip39 Model.Seeds Gen.Bip39Consts.
From BU Require Export Lemmas.Bip39Norm.
Import ListNotations.
Open Scope N_scope.

(* ------------------------------------------------------------------ UTF-8 *)

Definition ascii (s : list N) : Prop := Forall (fun c => c < 128) s.

Lemma mapM_app {A B} (f : A -> res B) a b :
  mapM f (a ++ b) = (x <- mapM f a ;; y <- mapM f b ;; Ok (x ++ y)).
Proof.
  induction a as [|c t IH]; cbn [app mapM].
  - cbn [bind Ok]. destruct (mapM f b); reflexivity.
  - destruct (f c) as [u|e]; [|reflexivity]. cbn [bind Ok]. rewrite IH.
    destruct (mapM f t) as [ut|e]; [|reflexivity]. cbn [bind Ok].
    destruct (mapM f b); reflexivity.
Qed.

Lemma utf8_app a b : utf8 (a ++ b) = (x <- utf8 a ;; y <- utf8 b ;; Ok (x ++ y)).
Proof.
  unfold utf8. rewrite mapM_app.
  destruct (mapM utf8_char a) as [ua|e]; [|reflexivity]. cbn [bind Ok rmap].
  destruct (mapM utf8_char b) as [ub|e]; [|reflexivity]. cbn [bind Ok rmap].
  rewrite concat_app. reflexivity.
Qed.

Lemma utf8_ascii s : ascii s -> utf8 s = Ok s.
Proof.
  unfold utf8. induction 1 as [|c t Hc Ht IH]; [reflexivity|]. cbn [mapM]. unfold utf8_char at 1.
  destruct (N.ltb_spec c 128); [|lia]. cbn [bind Ok].
  destruct (mapM utf8_char t) as [ut|e]; cbn [rmap bind Ok concat app] in *; [|discriminate].
  inversion IH as [E]. rewrite E. reflexivity.
Qed.

Lemma utf8_ascii_prefix a b : ascii a -> utf8 (a ++ b) = rmap (fun y => a ++ y) (utf8 b).
Proof.
  intros Ha. rewrite utf8_app, (utf8_ascii a Ha). cbn [bind Ok]. destruct (utf8 b); reflexivity.
Qed.

Lemma utf8_char_bytes' c : match utf8_char c with inl u => bytes_ok u | inr _ => True end.
Proof.
  unfold utf8_char, Ok, Err.
  destruct (N.ltb_spec c 128); [repeat constructor; lia|].
  destruct (N.ltb_spec c 2048).
  { assert (c / 64 < 32) by (apply N.div_lt_upper_bound; lia).
    assert (c mod 64 < 64) by (apply N.mod_lt; lia). repeat constructor; lia. }
  destruct ((55296 <=? c) && (c <=? 57343)); [exact I|].
  destruct (N.ltb_spec c 65536).
  { assert (c / 4096 < 16) by (apply N.div_lt_upper_bound; lia).
    assert ((c / 64) mod 64 < 64) by (apply N.mod_lt; lia).
    assert (c mod 64 < 64) by (apply N.mod_lt; lia). repeat constructor; lia. }
  destruct (N.ltb_spec c 1114112); [|exact I].
  assert (c / 262144 < 5) by (apply N.div_lt_upper_bound; lia).
  assert ((c / 4096) mod 64 < 64) by (apply N.mod_lt; lia).
  assert ((c / 64) mod 64 < 64) by (apply N.mod_lt; lia).
  assert (c mod 64 < 64) by (apply N.mod_lt; lia). repeat constructor; lia.
Qed.

Lemma utf8_char_bytes c u : utf8_char c = Ok u -> bytes_ok u.
Proof. intros E. pose proof (utf8_char_bytes' c) as H. rewrite E in H. exact H. Qed.

Lemma utf8_bytes s u : utf8 s = Ok u -> bytes_ok u.
Proof.
  unfold utf8. revert u. induction s as [|c t IH]; intros u E; cbn [mapM] in E.
  - inversion E. constructor.
  - destruct (utf8_char c) as [uc|e] eqn:Ec; [|discriminate]. cbn [bind Ok] in E.
    destruct (mapM utf8_char t) as [ut|e]; [|discriminate]. cbn [bind Ok rmap concat] in E.
    inversion E; subst. apply bytes_ok_app. split; [eapply utf8_char_bytes; eauto|]. apply IH. reflexivity.
Qed.

(* a Python str (no lone surrogate, code points below 0x110000) always encodes *)
Definition scalar (c : N) : Prop := c < 1114112 /\ ~ (55296 <= c <= 57343).
Lemma utf8_total s : Forall scalar s -> exists u, utf8 s = Ok u.
Proof.
  unfold utf8. induction 1 as [|c t [Hc Hs] Ht (u & IH)]; [eexists; reflexivity|]. cbn [mapM].
  assert (exists uc, utf8_char c = Ok uc) as [uc Ec].
  { unfold utf8_char. destruct (c <? 128); [eauto|]. destruct (c <? 2048); [eauto|].
    destruct (N.leb_spec 55296 c); destruct (N.leb_spec c 57343); cbn [andb]; try lia;
      (destruct (c <? 65536); [eauto|]); destruct (N.ltb_spec c 1114112); eauto; lia. }
  rewrite Ec. cbn [bind Ok]. destruct (mapM utf8_char t) as [ut|e]; [|discriminate].
  eexists. reflexivity.
Qed.

(* ------------------------------------------------------------------ constants = published numerals *)

Definition str_mnemonic : list N := [109; 110; 101; 109; 111; 110; 105; 99].   (* "mnemonic" *)
Definition str_electrum : list N := [101; 108; 101; 99; 116; 114; 117; 109].   (* "electrum" *)

Lemma salt_mod_eq : bip39_seed_salt_mod = str_mnemonic. Proof. reflexivity. Qed.
Lemma rounds_eq : bip39_seed_pbkdf2_rounds = 2048. Proof. reflexivity. Qed.
Lemma ev2_salt_mod_eq : ev2_seed_salt_mod = str_electrum. Proof. reflexivity. Qed.
Lemma ev2_rounds_eq : ev2_seed_pbkdf2_rounds = 2048. Proof. reflexivity. Qed.
Lemma dklen_eq : sha512_digest_size = 64. Proof. reflexivity. Qed.
Lemma ev1_itr_eq : ev1_hash_itr_num = 100000. Proof. reflexivity. Qed.
Lemma ascii_mnemonic : ascii str_mnemonic. Proof. repeat constructor. Qed.
Lemma ascii_electrum : ascii str_electrum. Proof. repeat constructor. Qed.

(* ------------------------------------------------------------------ the generators *)

Section Seeds.
  Variable sha256 : list N -> list N.
  Variable nfkd lower : list N -> list N.
  Variable pbkdf2 : list N -> list N -> N -> N -> list N.
  Variable langs : list (list (list N)).

  Notation normalize := (Bip39.normalize nfkd lower).
  Notation decode := (Bip39.decode sha256 langs).

  (* the two Unicode laws of the property (section 3 of DESIGN.md): assumed of the oracle *)
  Hypothesis nfkd_idem : forall s, nfkd (nfkd s) = nfkd s.
  Hypothesis nfkd_ascii_prefix : forall a b, ascii a -> nfkd (a ++ b) = a ++ nfkd b.

  (* BIP-39: seed = PBKDF2-HMAC-SHA512(password = UTF-8 of the normalised words joined by single
     spaces, salt = UTF-8 of "mnemonic" + NFKD(passphrase), 2048 rounds, 64 bytes), after validation *)
  Theorem bip39_seed_def lang s p :
    bip39_seed_str sha256 nfkd lower pbkdf2 langs lang s p =
    (_ <- decode lang (normalize s) ;;
     pw <- utf8 (join_sp (normalize s)) ;;
     salt <- utf8 (str_mnemonic ++ nfkd p) ;;
     Ok (pbkdf2 pw salt 2048 64)).
  Proof.
    unfold bip39_seed_str, bip39_seed, derive_key_str.
    rewrite salt_mod_eq, rounds_eq, dklen_eq, (nfkd_ascii_prefix _ _ ascii_mnemonic). reflexivity.
  Qed.

  (* the salt bytes begin with the ASCII bytes of "mnemonic" *)
  Theorem bip39_seed_def_bytes lang s p :
    bip39_seed_str sha256 nfkd lower pbkdf2 langs lang s p =
    (_ <- decode lang (normalize s) ;;
     pw <- utf8 (join_sp (normalize s)) ;;
     ps <- utf8 (nfkd p) ;;
     Ok (pbkdf2 pw (str_mnemonic ++ ps) 2048 64)).
  Proof.
    rewrite bip39_seed_def, (utf8_ascii_prefix _ _ ascii_mnemonic).
    destruct (decode lang (normalize s)); [|reflexivity]. cbn [bind].
    destruct (utf8 (join_sp (normalize s))); [|reflexivity]. cbn [bind].
    destruct (utf8 (nfkd p)); reflexivity.
  Qed.

  Theorem seed_fold_invariant lang s1 s2 p1 p2 :
    normalize s1 = normalize s2 -> nfkd p1 = nfkd p2 ->
    bip39_seed_str sha256 nfkd lower pbkdf2 langs lang s1 p1 =
    bip39_seed_str sha256 nfkd lower pbkdf2 langs lang s2 p2.
  Proof. intros Hs Hp. rewrite !bip39_seed_def, Hs, Hp. reflexivity. Qed.

  (* a passphrase and its NFKD form (hence its NFC/NFD/NFKC forms, which have the same NFKD) *)
  Corollary seed_passphrase_nfkd lang s p :
    bip39_seed_str sha256 nfkd lower pbkdf2 langs lang s (nfkd p) =
    bip39_seed_str sha256 nfkd lower pbkdf2 langs lang s p.
  Proof. apply seed_fold_invariant; [reflexivity|apply nfkd_idem]. Qed.

  (* any white-space layout of the same words *)
  Corollary seed_whitespace_invariant lang ws seps lead trail p :
    Forall plain ws -> Forall (fun sp => sp <> [] /\ all_space sp) seps -> all_space lead -> all_space trail ->
    bip39_seed_str sha256 nfkd lower pbkdf2 langs lang (lead ++ join_with seps ws ++ trail) p =
    bip39_seed_str sha256 nfkd lower pbkdf2 langs lang (join_sp ws) p.
  Proof.
    intros Hw Hs Hl Ht. apply seed_fold_invariant; [|reflexivity]. unfold Bip39.normalize.
    rewrite split_join_with, split_join_sp by assumption. reflexivity.
  Qed.

  (* two spellings whose words agree after lower-casing and NFKD (case, NFC/NFD/NFKC variants) *)
  Corollary seed_spelling_invariant lang s1 s2 p :
    Forall2 (fun a b => nfkd (lower a) = nfkd (lower b)) (split_ws s1) (split_ws s2) ->
    bip39_seed_str sha256 nfkd lower pbkdf2 langs lang s1 p =
    bip39_seed_str sha256 nfkd lower pbkdf2 langs lang s2 p.
  Proof.
    intros H. apply seed_fold_invariant; [|reflexivity]. unfold Bip39.normalize, normalize_list, norm_word.
    induction H as [|a b ta tb E _ IH]; [reflexivity|]. cbn [map]. rewrite E, IH. reflexivity.
  Qed.

  Theorem invalid_sentence_no_seed lang s p x :
    decode lang (normalize s) = Err x -> bip39_seed_str sha256 nfkd lower pbkdf2 langs lang s p = Err x.
  Proof. intros H. unfold bip39_seed_str, bip39_seed. rewrite H. reflexivity. Qed.

  Theorem seed_only_if_valid lang s p seed :
    bip39_seed_str sha256 nfkd lower pbkdf2 langs lang s p = Ok seed ->
    exists e pw salt, decode lang (normalize s) = Ok e /\ utf8 (join_sp (normalize s)) = Ok pw /\
                      utf8 (str_mnemonic ++ nfkd p) = Ok salt /\ seed = pbkdf2 pw salt 2048 64.
  Proof.
    rewrite bip39_seed_def. destruct (decode lang (normalize s)) as [e|]; [|discriminate]. cbn [bind].
    destruct (utf8 (join_sp (normalize s))) as [pw|]; [|discriminate]. cbn [bind].
    destruct (utf8 (str_mnemonic ++ nfkd p)) as [salt|]; [|discriminate]. cbn [bind].
    intros E. injection E as <-. exists e, pw, salt. repeat split; reflexivity.
  Qed.

  (* ---- Substrate: password = entropy bytes ---- *)
  Theorem substrate_seed_def lang s p :
    substrate_seed_str sha256 nfkd lower pbkdf2 langs lang s p =
    (ent <- decode lang (normalize s) ;;
     salt <- utf8 (str_mnemonic ++ nfkd p) ;;
     Ok (pbkdf2 ent salt 2048 64)).
  Proof.
    unfold substrate_seed_str, substrate_seed, derive_key_bytes.
    rewrite salt_mod_eq, rounds_eq, dklen_eq, (nfkd_ascii_prefix _ _ ascii_mnemonic). reflexivity.
  Qed.

  (* the Substrate seed depends on the sentence only through its entropy: any two accepted
     sentences (any spelling, any language) with the same entropy give the same seed *)
  Theorem substrate_seed_fold lang1 lang2 s1 s2 p1 p2 e :
    decode lang1 (normalize s1) = Ok e -> decode lang2 (normalize s2) = Ok e -> nfkd p1 = nfkd p2 ->
    substrate_seed_str sha256 nfkd lower pbkdf2 langs lang1 s1 p1 =
    substrate_seed_str sha256 nfkd lower pbkdf2 langs lang2 s2 p2.
  Proof. intros H1 H2 Hp. rewrite !substrate_seed_def, H1, H2, Hp. reflexivity. Qed.

  Theorem substrate_invalid_no_seed lang s p x :
    decode lang (normalize s) = Err x -> substrate_seed_str sha256 nfkd lower pbkdf2 langs lang s p = Err x.
  Proof. intros H. unfold substrate_seed_str, substrate_seed. rewrite H. reflexivity. Qed.

  (* ---- Electrum v2: "electrum" salt; validity is a parameter ---- *)
  Variable ev2_validate : list (list N) -> res unit.

  Theorem electrum_v2_seed_def s p :
    electrum_v2_seed_str nfkd lower pbkdf2 ev2_validate s p =
    (_ <- ev2_validate (normalize s) ;;
     pw <- utf8 (join_sp (normalize s)) ;;
     salt <- utf8 (str_electrum ++ nfkd p) ;;
     Ok (pbkdf2 pw salt 2048 64)).
  Proof.
    unfold electrum_v2_seed_str, electrum_v2_seed, derive_key_str.
    rewrite ev2_salt_mod_eq, ev2_rounds_eq, dklen_eq, (nfkd_ascii_prefix _ _ ascii_electrum). reflexivity.
  Qed.

  Theorem electrum_v2_seed_fold s1 s2 p1 p2 :
    normalize s1 = normalize s2 -> nfkd p1 = nfkd p2 ->
    electrum_v2_seed_str nfkd lower pbkdf2 ev2_validate s1 p1 =
    electrum_v2_seed_str nfkd lower pbkdf2 ev2_validate s2 p2.
  Proof. intros Hs Hp. rewrite !electrum_v2_seed_def, Hs, Hp. reflexivity. Qed.

  Theorem electrum_v2_invalid_no_seed s p x :
    ev2_validate (normalize s) = Err x -> electrum_v2_seed_str nfkd lower pbkdf2 ev2_validate s p = Err x.
  Proof. intros H. unfold electrum_v2_seed_str, electrum_v2_seed. rewrite H. reflexivity. Qed.

  (* ---- Electrum v1: the iterated hash ---- *)
  Variable ev1_decode : list (list N) -> res (list N).

  Lemma ev1_stretch_0 hex : ev1_stretch sha256 hex 0 = hex.
  Proof. reflexivity. Qed.
  Lemma ev1_stretch_succ hex n : ev1_stretch sha256 hex (N.succ n) = sha256 (ev1_stretch sha256 hex n ++ hex).
  Proof. unfold ev1_stretch. apply N.iter_succ. Qed.

  Theorem electrum_v1_seed_def s :
    electrum_v1_seed_str sha256 nfkd lower ev1_decode s =
    (ent <- ev1_decode (normalize s) ;; Ok (N.iter 100000 (fun h => sha256 (h ++ hexlify ent)) (hexlify ent))).
  Proof. unfold electrum_v1_seed_str, electrum_v1_seed, ev1_stretch. rewrite ev1_itr_eq. reflexivity. Qed.

  Theorem electrum_v1_seed_fold s1 s2 :
    normalize s1 = normalize s2 ->
    electrum_v1_seed_str sha256 nfkd lower ev1_decode s1 = electrum_v1_seed_str sha256 nfkd lower ev1_decode s2.
  Proof. intros H. unfold electrum_v1_seed_str. rewrite H. reflexivity. Qed.

  Theorem electrum_v1_invalid_no_seed s x :
    ev1_decode (normalize s) = Err x -> electrum_v1_seed_str sha256 nfkd lower ev1_decode s = Err x.
  Proof. intros H. unfold electrum_v1_seed_str, electrum_v1_seed. rewrite H. reflexivity. Qed.

  Theorem electrum_v1_seed_len s seed : (forall x, length (sha256 x) = 32%nat) ->
    electrum_v1_seed_str sha256 nfkd lower ev1_decode s = Ok seed -> length seed = 32%nat.
  Proof.
    intros Hlen. unfold electrum_v1_seed_str, electrum_v1_seed.
    destruct (ev1_decode (normalize s)) as [ent|]; [|discriminate]. cbn [bind].
    change ev1_hash_itr_num with (N.succ 99999). rewrite ev1_stretch_succ.
    intros E.
    apply (f_equal (fun r : res (list N) => match r with inl v => length v | inr _ => 0%nat end)) in E.
    unfold Ok in E. cbv beta iota in E. rewrite <- E. apply Hlen.
  Qed.

  (* the extracted model asks one oracle for the whole loop; if that oracle is the loop, the two
     definitions coincide (the harness compares them on small iteration counts) *)
  Variable sha256_iter : list N -> N -> list N.
  Hypothesis sha256_iter_spec : forall hex n, sha256_iter hex n = ev1_stretch sha256 hex n.

  Theorem electrum_v1_seed_oracle s :
    electrum_v1_seed_o_str nfkd lower ev1_decode sha256_iter s = electrum_v1_seed_str sha256 nfkd lower ev1_decode s.
  Proof.
    unfold electrum_v1_seed_o_str, electrum_v1_seed_o, electrum_v1_seed_str, electrum_v1_seed.
    destruct (ev1_decode (normalize s)); [|reflexivity]. cbn [bind]. rewrite sha256_iter_spec. reflexivity.
  Qed.
End Seeds.

Lemma nfkd_laws_id : (forall s : list N, (fun s => s) ((fun s => s) s) = (fun s => s) s) /\
  (forall a b : list N, ascii a -> (fun s => s) (a ++ b) = a ++ (fun s => s) b).
Proof. split; reflexivity. Qed.
Lemma split_example : split_ws [32; 32; 65; 98; 9; 99; 12288; 32] = [[65; 98]; [99]].
Proof. vm_compute. reflexivity. Qed.
Lemma utf8_example :
  utf8 [233; 8364; 128512] = Ok [195; 169; 226; 130; 172; 240; 159; 152; 128] /\
  utf8 [97; 55296] = Err UnicodeError.
Proof. vm_compute. split; reflexivity. Qed.

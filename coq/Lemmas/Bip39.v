(* Proofs about Model/Bip39.v: the binary-string encoder/decoder equal the bit-level BIP-39
   specification of Model/Bip39Spec.v; round trips; acceptance; language auto-detection. *)
From Coq Require Import NArith Arith List Lia Bool.
From BU Require Import Base.Exn Base.Radix Base.Bytes Model.BinStr Model.Bip39 Model.Bip39Spec
                       Gen.Bip39Consts Lemmas.BinStr.
Import ListNotations.
Open Scope N_scope.

(* ------------------------------------------------------------------ library constants = BIP-39 numerals *)

Lemma word_bit_len_eq : bip39_word_bit_len = 11%nat. Proof. reflexivity. Qed.
Lemma cksum_divisor_eq : bip39_cksum_divisor = 33%nat. Proof. reflexivity. Qed.
Lemma enc_cksum_divisor_eq : bip39_enc_cksum_divisor = 4%nat. Proof. reflexivity. Qed.
Lemma sha256_digest_size_eq : sha256_digest_size = 32%nat. Proof. reflexivity. Qed.

Lemma mem_nat_existsb x l : mem_nat x l = existsb (Nat.eqb x) l.
Proof. induction l as [|y t IH]; [reflexivity|]. simpl. rewrite IH. reflexivity. Qed.

Lemma word_nums_eq n : mem_nat n bip39_word_nums = legal_word_count n.
Proof. rewrite mem_nat_existsb. reflexivity. Qed.

Lemma eqb_mul8 n m : Nat.eqb (n * 8) (m * 8) = Nat.eqb n m.
Proof.
  destruct (Nat.eqb_spec n m) as [->|Hn]; [apply Nat.eqb_refl|].
  apply Nat.eqb_neq. lia.
Qed.

Lemma entropy_lens_eq n : valid_entropy_byte_len n = legal_entropy_len n.
Proof.
  unfold valid_entropy_byte_len. rewrite mem_nat_existsb.
  change bip39_entropy_bit_lens with [16 * 8; 20 * 8; 24 * 8; 28 * 8; 32 * 8]%nat.
  unfold legal_entropy_len. cbn [existsb]. rewrite !eqb_mul8. reflexivity.
Qed.

(* a legal entropy length is 4c bytes, 4 <= c <= 8; the sentence then has 3c words *)
Lemma legal_entropy_len_c n : legal_entropy_len n = true -> exists c, n = (4 * c)%nat /\ (4 <= c <= 8)%nat.
Proof.
  unfold legal_entropy_len. cbn [existsb]. rewrite !orb_true_iff, !Nat.eqb_eq.
  intros [->|[->|[->|[->|[->|H]]]]]; [exists 4%nat|exists 5%nat|exists 6%nat|exists 7%nat|exists 8%nat|discriminate]; lia.
Qed.
Lemma legal_entropy_len_of_c c : (4 <= c <= 8)%nat -> legal_entropy_len (4 * c) = true.
Proof.
  intros H. assert (c = 4 \/ c = 5 \/ c = 6 \/ c = 7 \/ c = 8)%nat as [->|[->|[->|[->| ->]]]] by lia; reflexivity.
Qed.
Lemma legal_word_count_c n : legal_word_count n = true -> exists c, n = (3 * c)%nat /\ (4 <= c <= 8)%nat.
Proof.
  unfold legal_word_count. cbn [existsb]. rewrite !orb_true_iff, !Nat.eqb_eq.
  intros [->|[->|[->|[->|[->|H]]]]]; [exists 4%nat|exists 5%nat|exists 6%nat|exists 7%nat|exists 8%nat|discriminate]; lia.
Qed.
Lemma legal_word_count_of_c c : (4 <= c <= 8)%nat -> legal_word_count (3 * c) = true.
Proof.
  intros H. assert (c = 4 \/ c = 5 \/ c = 6 \/ c = 7 \/ c = 8)%nat as [->|[->|[->|[->| ->]]]] by lia; reflexivity.
Qed.

(* ------------------------------------------------------------------ generic *)

Lemma mapM_ok_map {A B} (f : A -> res B) (g : A -> B) l :
  (forall x, In x l -> f x = Ok (g x)) -> mapM f l = Ok (map g l).
Proof.
  induction l as [|a t IH]; intros H; [reflexivity|]. cbn [mapM map].
  rewrite H by (left; reflexivity). cbn [bind Ok]. rewrite IH; [reflexivity|].
  intros x Hx. apply H. right. exact Hx.
Qed.

Lemma mapM_map {A B C} (f : B -> res C) (g : A -> B) l : mapM f (map g l) = mapM (fun x => f (g x)) l.
Proof. induction l as [|a t IH]; [reflexivity|]. cbn [map mapM]. rewrite IH. reflexivity. Qed.

Lemma chunk_map (f : N -> N) k m : forall l, chunk k m (map f l) = map (map f) (chunk k m l).
Proof.
  induction m as [|m IH]; intros l; [reflexivity|]. cbn [chunk map].
  rewrite firstn_map, skipn_map, IH. reflexivity.
Qed.

Lemma list_eqb_map_digit a b : digits_ok 2 a -> digits_ok 2 b ->
  list_eqb (map digit_char a) (map digit_char b) = list_eqb a b.
Proof.
  intros Ha Hb. destruct (list_eqb a b) eqn:E.
  - apply list_eqb_spec in E. subst. apply list_eqb_refl.
  - destruct (list_eqb (map digit_char a) (map digit_char b)) eqn:E'; [|reflexivity].
    apply list_eqb_spec in E'. apply map_digit_char_inj in E'; auto. subst.
    rewrite list_eqb_refl in E. discriminate.
Qed.

Lemma digits_ok_firstn r k l : digits_ok r l -> digits_ok r (firstn k l).
Proof. intros H. rewrite <- (firstn_skipn k l) in H. apply Forall_app in H. tauto. Qed.
Lemma digits_ok_skipn r k l : digits_ok r l -> digits_ok r (skipn k l).
Proof. intros H. rewrite <- (firstn_skipn k l) in H. apply Forall_app in H. tauto. Qed.

(* ------------------------------------------------------------------ word_index *)

Lemma word_index_from_some wl : forall i w j, word_index_from i wl w = Some j ->
  (i <= j)%nat /\ nth_error wl (j - i) = Some w.
Proof.
  induction wl as [|x t IH]; intros i w j H; [discriminate|]. cbn [word_index_from] in H.
  destruct (word_index_from (S i) t w) as [j'|] eqn:E.
  - inversion H; subst. apply IH in E as [L Hn]. split; [lia|].
    replace (j - i)%nat with (S (j - S i)) by lia. exact Hn.
  - destruct (list_eqb x w) eqn:Ex; [|discriminate]. inversion H; subst.
    apply list_eqb_spec in Ex. subst. rewrite Nat.sub_diag. split; [lia|reflexivity].
Qed.

Lemma word_index_from_none wl : forall i w, word_index_from i wl w = None <-> ~ In w wl.
Proof.
  induction wl as [|x t IH]; intros i w; cbn [word_index_from In]; [tauto|].
  destruct (word_index_from (S i) t w) as [j|] eqn:E.
  - split; [discriminate|]. intros H. exfalso. apply H. right.
    destruct (in_dec (list_eq_dec N.eq_dec) w t) as [|Hn]; [assumption|].
    apply (IH (S i)) in Hn. congruence.
  - apply IH in E. destruct (list_eqb x w) eqn:Ex.
    + apply list_eqb_spec in Ex. split; [discriminate|]. intros H. exfalso. apply H. auto.
    + split; [|reflexivity]. intros _ [H|H]; [|contradiction].
      subst. rewrite list_eqb_refl in Ex. discriminate.
Qed.

Lemma word_index_from_nodup wl : forall i w k, NoDup wl -> nth_error wl k = Some w ->
  word_index_from i wl w = Some (i + k)%nat.
Proof.
  induction wl as [|x t IH]; intros i w k ND E; [destruct k; discriminate|].
  inversion ND as [|? ? Hx NDt]; subst. cbn [word_index_from]. destruct k as [|k]; simpl in E.
  - inversion E; subst. assert (Hn : word_index_from (S i) t w = None) by (apply word_index_from_none; exact Hx).
    rewrite Hn, list_eqb_refl. f_equal. lia.
  - rewrite (IH (S i) w k NDt E). f_equal. lia.
Qed.

Lemma word_index_some wl w j : word_index wl w = Some j -> nth_error wl j = Some w.
Proof.
  intros H. apply word_index_from_some in H as [_ H]. rewrite Nat.sub_0_r in H. exact H.
Qed.
Lemma word_index_lt wl w j : word_index wl w = Some j -> (j < length wl)%nat.
Proof. intros H. apply word_index_some in H. apply nth_error_Some. congruence. Qed.
Lemma word_index_none wl w : word_index wl w = None <-> ~ In w wl.
Proof. apply word_index_from_none. Qed.
Lemma word_index_nodup wl w k : NoDup wl -> nth_error wl k = Some w -> word_index wl w = Some k.
Proof. intros ND E. apply (word_index_from_nodup wl 0 w k ND E). Qed.
Lemma word_index_in wl w : In w wl -> exists j, word_index wl w = Some j.
Proof.
  intros H. destruct (word_index wl w) as [j|] eqn:E; [eauto|].
  apply word_index_none in E. contradiction.
Qed.

(* ------------------------------------------------------------------ sentence_indices *)

Lemma sentence_indices_some wl ws idxs : sentence_indices wl ws = Some idxs ->
  Forall2 (fun w i => exists j, i = N.of_nat j /\ word_index wl w = Some j) ws idxs.
Proof.
  revert idxs. induction ws as [|w t IH]; intros idxs H; cbn [sentence_indices] in H.
  - inversion H. constructor.
  - destruct (word_index wl w) as [j|] eqn:E; [|discriminate].
    destruct (sentence_indices wl t) as [r|]; [|discriminate]. inversion H; subst.
    constructor; [eauto|]. apply IH. reflexivity.
Qed.

Lemma sentence_indices_none wl ws : sentence_indices wl ws = None <-> ~ Forall (fun w => In w wl) ws.
Proof.
  induction ws as [|w t IH]; cbn [sentence_indices].
  - split; [discriminate|]. intros H. exfalso. apply H. constructor.
  - destruct (word_index wl w) as [j|] eqn:E.
    + assert (Hw : In w wl) by (apply word_index_some in E; eapply nth_error_In; eauto).
      destruct (sentence_indices wl t) as [r|].
      * split; [discriminate|]. intros H. exfalso. apply H. constructor; [exact Hw|].
        destruct (Forall_dec (fun w => In w wl) (fun w => in_dec (list_eq_dec N.eq_dec) w wl) t) as [F|F]; [exact F|].
        apply IH in F. discriminate.
      * split; [|reflexivity]. intros _ H. inversion H; subst. destruct IH as [IH _].
        apply IH; [reflexivity|assumption].
    + apply word_index_none in E. split; [|reflexivity]. intros _ H. inversion H; subst. contradiction.
Qed.

Lemma sentence_indices_length wl ws idxs : sentence_indices wl ws = Some idxs -> length idxs = length ws.
Proof.
  intros H. apply sentence_indices_some in H. induction H; simpl; congruence.
Qed.

Lemma sentence_indices_lt wl ws idxs : sentence_indices wl ws = Some idxs ->
  Forall (fun i => i < N.of_nat (length wl)) idxs.
Proof.
  intros H. apply sentence_indices_some in H. induction H as [|w i ws' is' (j & -> & Hj) _ IH]; constructor; [|exact IH].
  apply word_index_lt in Hj. lia.
Qed.

Lemma sentence_indices_words wl ws idxs : sentence_indices wl ws = Some idxs ->
  map (word_of wl) idxs = ws.
Proof.
  intros H. apply sentence_indices_some in H. induction H as [|w i ws' is' (j & -> & Hj) _ IH]; [reflexivity|].
  cbn [map]. rewrite IH. f_equal. unfold word_of. rewrite Nnat.Nat2N.id.
  apply word_index_some in Hj. apply nth_error_nth. exact Hj.
Qed.

Lemma sentence_indices_of_groups wl gs : NoDup wl -> Forall (fun g => g < N.of_nat (length wl)) gs ->
  sentence_indices wl (map (word_of wl) gs) = Some gs.
Proof.
  intros ND. induction 1 as [|g t Hg Ht IH]; [reflexivity|]. cbn [map sentence_indices].
  rewrite IH. unfold word_of at 1.
  assert (E : nth_error wl (N.to_nat g) = Some (nth (N.to_nat g) wl [])) by (apply nth_error_nth'; lia).
  rewrite (word_index_nodup wl _ _ ND E), Nnat.N2Nat.id. reflexivity.
Qed.

Lemma sentence_bits_length idxs : length (sentence_bits idxs) = (11 * length idxs)%nat.
Proof. apply flat_map_length_const. intros. apply fixed_be_length. Qed.

Lemma sentence_bits_digits idxs : digits_ok 2 (sentence_bits idxs).
Proof.
  unfold digits_ok, sentence_bits. apply Forall_forall. intros x Hx.
  apply in_flat_map in Hx as (d & _ & Hx).
  pose proof (fixed_be_digits 2 r2 11 d) as H. unfold digits_ok in H. rewrite Forall_forall in H. auto.
Qed.

(* ------------------------------------------------------------------ encoder = specification *)

Section Codec.
  Variable sha256 : list N -> list N.
  Variable nfkd lower : list N -> list N.
  Hypothesis sha256_len : forall x, length (sha256 x) = 32%nat.
  Hypothesis sha256_bytes : forall x, bytes_ok (sha256 x).
  Variable wl : list (list N).
  Hypothesis wl_len : length wl = 2048%nat.

  Lemma mbs_bits ent : ent <> [] -> bytes_ok ent ->
    bytes_to_binstr ent (length ent * 8) ++
      firstn (length ent / bip39_enc_cksum_divisor) (bytes_to_binstr (sha256 ent) (sha256_digest_size * 8))
    = map digit_char (mnemonic_bits sha256 ent).
  Proof.
    intros Hne Hb. rewrite bytes_to_binstr_bits by assumption.
    rewrite sha256_digest_size_eq, <- (sha256_len ent).
    rewrite bytes_to_binstr_bits; [|intro E; pose proof (sha256_len ent) as L; rewrite E in L; discriminate|apply sha256_bytes].
    rewrite enc_cksum_divisor_eq, firstn_map, <- map_app. reflexivity.
  Qed.

  Lemma mnemonic_bits_length c ent : length ent = (4 * c)%nat -> (c <= 8)%nat ->
    length (mnemonic_bits sha256 ent) = (11 * (3 * c))%nat.
  Proof.
    intros Hl Hc. unfold mnemonic_bits.
    rewrite app_length, firstn_length, !bits_of_bytes_length, sha256_len, Hl.
    rewrite (Nat.mul_comm 4 c), Nat.div_mul by lia. lia.
  Qed.

  Lemma mnemonic_bits_digits ent : digits_ok 2 (mnemonic_bits sha256 ent).
  Proof.
    unfold mnemonic_bits. apply digits_ok_app. split; [apply bits_of_bytes_digits|].
    apply digits_ok_firstn, bits_of_bytes_digits.
  Qed.

  Lemma get_word_at_ok g : g < 2048 -> get_word_at wl g = Ok (word_of wl g).
  Proof.
    intros Hg. unfold get_word_at, word_of.
    rewrite (nth_error_nth' wl []) by (rewrite wl_len; lia). reflexivity.
  Qed.

  Theorem encode_eq_spec ent : bytes_ok ent ->
    encode sha256 nfkd lower wl ent = rmap (map (norm_word nfkd lower)) (encode_spec sha256 wl ent).
  Proof.
    intros Hb. unfold encode, encode_spec. rewrite entropy_lens_eq.
    destruct (legal_entropy_len (length ent)) eqn:Hlegal; [|reflexivity].
    destruct (legal_entropy_len_c _ Hlegal) as (c & Hl & Hc).
    assert (Hne : ent <> []) by (intro E; rewrite E in Hl; simpl in Hl; lia).
    rewrite (mbs_bits ent Hne Hb). set (bits := mnemonic_bits sha256 ent).
    assert (Lb : length bits = (11 * (3 * c))%nat) by (apply mnemonic_bits_length; [exact Hl|lia]).
    assert (Db : digits_ok 2 bits) by apply mnemonic_bits_digits.
    rewrite map_length, word_bit_len_eq, Lb, (Nat.mul_comm 11), Nat.div_mul by lia.
    assert (E : mapM (fun i : nat => idx <- int_of_binstr (slice (i * 11) ((i + 1) * 11) (map digit_char bits)) ;;
                                  get_word_at wl idx) (seq 0 (3 * c))
                = Ok (map (word_of wl) (groups 11 bits))).
    { transitivity (mapM (fun s => idx <- int_of_binstr s ;; get_word_at wl idx)
                         (chunk 11 (3 * c) (map digit_char bits))).
      - rewrite <- slices_chunk, mapM_map. reflexivity.
      - rewrite chunk_map, mapM_map. unfold groups. rewrite Lb, (Nat.mul_comm 11), Nat.div_mul by lia.
        rewrite map_map. apply mapM_ok_map. intros ch Hch.
        destruct (chunk_each 11 (3 * c) bits ch Lb Hch) as [Lc Ic].
        assert (Dc : digits_ok 2 ch) by (unfold digits_ok in *; rewrite Forall_forall in *; auto).
        rewrite int_of_binstr_bits; [|destruct ch; [discriminate|discriminate]|exact Dc].
        cbn [bind Ok]. apply get_word_at_ok.
        pose proof (from_be_lt 2 r2 ch Dc) as H. rewrite Lc in H. exact H. }
    rewrite E. reflexivity.
  Qed.

  (* ---------------------------------------------------------------- decoder = specification *)

  Lemma mapM_word_bins (l : list (list N)) ws :
    mapM (fun w => i <- get_word_idx l w ;; Ok (int_to_binstr i bip39_word_bit_len)) ws
    = match sentence_indices l ws with
      | Some idxs => Ok (map (fun i => int_to_binstr i 11) idxs)
      | None => Err ValueError
      end.
  Proof.
    induction ws as [|w t IH]; [reflexivity|]. cbn [mapM sentence_indices]. unfold get_word_idx at 1.
    destruct (word_index l w) as [j|]; [|reflexivity]. cbn [bind Ok]. rewrite IH.
    destruct (sentence_indices l t); reflexivity.
  Qed.

  Lemma concat_word_bins idxs : Forall (fun i => i < 2048) idxs ->
    concat (map (fun i => int_to_binstr i 11) idxs) = map digit_char (sentence_bits idxs).
  Proof.
    intros H. unfold sentence_bits. rewrite map_flat_map, <- flat_map_concat_map.
    apply flat_map_ext_in. intros i Hi. rewrite Forall_forall in H.
    apply int_to_binstr_fixed; [lia|]. apply H. exact Hi.
  Qed.

  Lemma entropy_of_binstr_bits c bits : (4 <= c <= 8)%nat -> digits_ok 2 bits -> length bits = (33 * c)%nat ->
    entropy_of_binstr (map digit_char bits) = Ok (bytes_of_bits (firstn (32 * c) bits)).
  Proof.
    intros Hc Hd Hl. unfold entropy_of_binstr, cksum_len.
    rewrite map_length, cksum_divisor_eq, Hl, (Nat.mul_comm 33), Nat.div_mul by lia.
    unfold py_drop_last. destruct c as [|c']; [lia|]. set (c := S c') in *.
    unfold drop_last. rewrite map_length, Hl, firstn_map.
    replace (33 * c - c)%nat with (32 * c)%nat by lia.
    replace (c * 8)%nat with (2 * (4 * c))%nat by lia.
    apply bytes_of_binstr_bits; [lia|apply digits_ok_firstn; exact Hd|].
    rewrite firstn_length, Hl. lia.
  Qed.

  Lemma sha_binstr x : bytes_to_binstr (sha256 x) (sha256_digest_size * 8) = map digit_char (bits_of_bytes (sha256 x)).
  Proof.
    rewrite sha256_digest_size_eq, <- (sha256_len x). apply bytes_to_binstr_bits; [|apply sha256_bytes].
    intro E. pose proof (sha256_len x) as L. rewrite E in L. discriminate.
  Qed.

  (* the verified binary string: the specification's outcome with the bit string attached *)
  Lemma decode_bin_spec ws :
    decode_bin sha256 [] (Some wl) ws =
    match decode_spec sha256 wl ws, sentence_indices wl ws with
    | inl _, Some idxs => Ok (map digit_char (sentence_bits idxs))
    | inl _, None => Err ValueError
    | inr e, _ => Err e
    end.
  Proof.
    unfold decode_bin, decode_spec. rewrite word_nums_eq.
    destruct (legal_word_count (length ws)) eqn:Hlegal; [|reflexivity].
    cbn [find_language bind Ok]. rewrite mapM_word_bins.
    destruct (sentence_indices wl ws) as [idxs|] eqn:Hs; [|reflexivity]. cbn [bind Ok].
    destruct (legal_word_count_c _ Hlegal) as (c & Hl & Hc).
    assert (Hi : Forall (fun i => i < 2048) idxs).
    { pose proof (sentence_indices_lt wl ws idxs Hs) as H. rewrite wl_len in H. exact H. }
    rewrite (concat_word_bins idxs Hi). set (bits := sentence_bits idxs).
    assert (Lb : length bits = (33 * c)%nat).
    { unfold bits. rewrite sentence_bits_length, (sentence_indices_length wl ws idxs Hs), Hl. lia. }
    assert (Db : digits_ok 2 bits) by apply sentence_bits_digits.
    unfold compute_cksum. rewrite (entropy_of_binstr_bits c bits Hc Db Lb). cbn [bind Ok].
    unfold cksum_len. rewrite map_length, cksum_divisor_eq, Lb, (Nat.mul_comm 33), Nat.div_mul by lia.
    rewrite Hl, (Nat.mul_comm 3), Nat.div_mul by lia.
    replace (33 * c - c)%nat with (32 * c)%nat by lia.
    rewrite sha_binstr, firstn_map.
    unfold py_take_last. destruct c as [|c']; [lia|]. set (c := S c') in *.
    unfold take_last. rewrite map_length, Lb, skipn_map.
    replace (33 * c - c)%nat with (32 * c)%nat by lia.
    replace (c * 33 - c)%nat with (32 * c)%nat by lia.
    rewrite list_eqb_map_digit by (try (apply digits_ok_skipn; exact Db); apply digits_ok_firstn, bits_of_bytes_digits).
    destruct (list_eqb _ _); reflexivity.
  Qed.

  Theorem decode_eq_spec ws : decode sha256 [] (Some wl) ws = decode_spec sha256 wl ws.
  Proof.
    unfold decode. rewrite decode_bin_spec.
    destruct (decode_spec sha256 wl ws) as [e|x] eqn:E; [|reflexivity].
    unfold decode_spec in E.
    destruct (legal_word_count (length ws)) eqn:Hlegal; [|discriminate].
    destruct (sentence_indices wl ws) as [idxs|] eqn:Hs; [|discriminate]. cbn [bind Ok].
    destruct (legal_word_count_c _ Hlegal) as (c & Hl & Hc).
    set (bits := sentence_bits idxs) in *.
    assert (Lb : length bits = (33 * c)%nat).
    { unfold bits. rewrite sentence_bits_length, (sentence_indices_length wl ws idxs Hs), Hl. lia. }
    assert (Db : digits_ok 2 bits) by apply sentence_bits_digits.
    rewrite (entropy_of_binstr_bits c bits Hc Db Lb).
    cbv zeta in E. rewrite Hl, (Nat.mul_comm 3), Nat.div_mul, Lb in E by lia.
    replace (33 * c - c)%nat with (32 * c)%nat in E by lia.
    destruct (list_eqb _ _) in E; [|discriminate]. exact E.
  Qed.

  (* ---------------------------------------------------------------- round trips at the specification level *)

  Lemma pow2_11 : 2 ^ N.of_nat 11 = 2048. Proof. reflexivity. Qed.

  Lemma mnemonic_groups_lt c ent : length ent = (4 * c)%nat -> (c <= 8)%nat ->
    Forall (fun g => g < 2048) (groups 11 (mnemonic_bits sha256 ent)).
  Proof.
    intros Hl Hc. apply Forall_forall. intros g Hg. rewrite <- pow2_11.
    apply (groups_lt 11 (3 * c) (mnemonic_bits sha256 ent)); try assumption; [lia|apply mnemonic_bits_digits|].
    apply mnemonic_bits_length; assumption.
  Qed.

  Theorem decode_encode_spec ent ws : NoDup wl -> bytes_ok ent ->
    encode_spec sha256 wl ent = Ok ws -> decode_spec sha256 wl ws = Ok ent.
  Proof.
    intros ND Hb. unfold encode_spec.
    destruct (legal_entropy_len (length ent)) eqn:Hlegal; [|discriminate].
    intros E. inversion E as [Hws]; clear E.
    destruct (legal_entropy_len_c _ Hlegal) as (c & Hl & Hc).
    set (bits := mnemonic_bits sha256 ent) in *.
    assert (Lb : length bits = (11 * (3 * c))%nat) by (apply mnemonic_bits_length; [exact Hl|lia]).
    assert (Db : digits_ok 2 bits) by apply mnemonic_bits_digits.
    assert (Lg : length (groups 11 bits) = (3 * c)%nat) by (apply groups_length; [lia|exact Lb]).
    unfold decode_spec. rewrite map_length, Lg, legal_word_count_of_c by exact Hc.
    rewrite sentence_indices_of_groups; [|exact ND|].
    2:{ rewrite wl_len. change (N.of_nat 2048) with 2048. apply (mnemonic_groups_lt c); [exact Hl|lia]. }
    unfold sentence_bits. rewrite (flat_groups 11 (3 * c) bits) by (try assumption; lia).
    cbv zeta. rewrite Lb, (Nat.mul_comm 3 c), Nat.div_mul by lia.
    replace (11 * (c * 3) - c)%nat with (8 * length ent)%nat by lia.
    unfold bits, mnemonic_bits.
    rewrite firstn_app_exact, skipn_app_exact by apply bits_of_bytes_length.
    rewrite bytes_of_bits_of_bytes by exact Hb.
    rewrite Hl, (Nat.mul_comm 4 c), Nat.div_mul by lia. rewrite list_eqb_refl. reflexivity.
  Qed.

  Theorem encode_decode_spec ws e : decode_spec sha256 wl ws = Ok e ->
    encode_spec sha256 wl e = Ok ws /\ bytes_ok e /\ legal_entropy_len (length e) = true.
  Proof.
    unfold decode_spec.
    destruct (legal_word_count (length ws)) eqn:Hlegal; [|discriminate].
    destruct (sentence_indices wl ws) as [idxs|] eqn:Hs; [|discriminate].
    destruct (legal_word_count_c _ Hlegal) as (c & Hl & Hc).
    set (bits := sentence_bits idxs).
    assert (Lb : length bits = (33 * c)%nat).
    { unfold bits. rewrite sentence_bits_length, (sentence_indices_length wl ws idxs Hs), Hl. lia. }
    assert (Db : digits_ok 2 bits) by apply sentence_bits_digits.
    cbv zeta. rewrite Hl, (Nat.mul_comm 3 c), Nat.div_mul, Lb by lia.
    replace (33 * c - c)%nat with (32 * c)%nat by lia.
    set (eb := firstn (32 * c) bits).
    assert (Leb : length eb = (8 * (4 * c))%nat) by (unfold eb; rewrite firstn_length, Lb; lia).
    assert (Deb : digits_ok 2 eb) by (apply digits_ok_firstn; exact Db).
    destruct (bytes_of_bits_ok (4 * c) eb Deb Leb) as (Bok & Blen & Bbits).
    destruct (list_eqb _ _) eqn:Eck; [|discriminate]. intros E. inversion E; subst e; clear E.
    apply list_eqb_spec in Eck.
    split; [|split; [exact Bok|rewrite Blen; apply legal_entropy_len_of_c; exact Hc]].
    unfold encode_spec. rewrite Blen, legal_entropy_len_of_c by exact Hc. unfold Ok. f_equal.
    assert (Emb : mnemonic_bits sha256 (bytes_of_bits eb) = bits).
    { unfold mnemonic_bits. rewrite Bbits, Blen, (Nat.mul_comm 4 c), Nat.div_mul by lia.
      rewrite <- Eck. apply firstn_skipn. }
    rewrite Emb. unfold bits, sentence_bits. rewrite groups_flat by lia.
    rewrite map_id_in.
    - apply sentence_indices_words. exact Hs.
    - intros i Hi. apply N.mod_small. rewrite pow2_11.
      pose proof (sentence_indices_lt wl ws idxs Hs) as H. rewrite wl_len, Forall_forall in H.
      apply H. exact Hi.
  Qed.

  (* ---------------------------------------------------------------- the same for the code's functions *)

  Hypothesis wl_nodup : NoDup wl.
  Hypothesis wl_normal : forall w, In w wl -> norm_word nfkd lower w = w.

  Lemma encode_spec_words_in ent ws : encode_spec sha256 wl ent = Ok ws -> Forall (fun w => In w wl) ws.
  Proof.
    unfold encode_spec. destruct (legal_entropy_len (length ent)) eqn:Hlegal; [|discriminate].
    intros E. inversion E; subst ws; clear E.
    destruct (legal_entropy_len_c _ Hlegal) as (c & Hl & Hc).
    apply Forall_forall. intros w Hw. apply in_map_iff in Hw as (g & <- & Hg).
    pose proof (mnemonic_groups_lt c ent Hl ltac:(lia)) as H. rewrite Forall_forall in H.
    specialize (H g Hg). unfold word_of. apply nth_In. rewrite wl_len. lia.
  Qed.

  Theorem encode_is_spec ent : bytes_ok ent ->
    encode sha256 nfkd lower wl ent = encode_spec sha256 wl ent.
  Proof.
    intros Hb. rewrite encode_eq_spec by exact Hb.
    destruct (encode_spec sha256 wl ent) as [ws|e] eqn:E; [|reflexivity].
    cbn [rmap]. unfold Ok. f_equal. apply map_id_in. intros w Hw. apply wl_normal.
    pose proof (encode_spec_words_in ent ws E) as H. rewrite Forall_forall in H. auto.
  Qed.

  Theorem decode_encode ent ws : bytes_ok ent ->
    encode sha256 nfkd lower wl ent = Ok ws -> decode sha256 [] (Some wl) ws = Ok ent.
  Proof.
    intros Hb E. rewrite encode_is_spec in E by exact Hb. rewrite decode_eq_spec.
    apply decode_encode_spec; assumption.
  Qed.

  Theorem encode_total ent : bytes_ok ent -> legal_entropy_len (length ent) = true ->
    exists ws, encode sha256 nfkd lower wl ent = Ok ws /\ length ws = (length ent * 3 / 4)%nat.
  Proof.
    intros Hb Hlegal. rewrite encode_is_spec by exact Hb. unfold encode_spec. rewrite Hlegal.
    eexists. split; [reflexivity|].
    destruct (legal_entropy_len_c _ Hlegal) as (c & Hl & Hc).
    rewrite map_length, (groups_length 11 (3 * c)); [|lia|apply mnemonic_bits_length; [exact Hl|lia]].
    rewrite Hl. replace (4 * c * 3)%nat with (3 * c * 4)%nat by lia. rewrite Nat.div_mul by lia. reflexivity.
  Qed.

  Theorem encode_decode_canonical ws e : decode sha256 [] (Some wl) ws = Ok e ->
    encode sha256 nfkd lower wl e = Ok ws /\ bytes_ok e /\ legal_entropy_len (length e) = true.
  Proof.
    rewrite decode_eq_spec. intros H. apply encode_decode_spec in H as (A & B & C).
    rewrite encode_is_spec by exact B. auto.
  Qed.

  (* ---------------------------------------------------------------- acceptance and error classes *)

  Lemma sentence_indices_iff ws : (exists idxs, sentence_indices wl ws = Some idxs) <-> Forall (fun w => In w wl) ws.
  Proof.
    destruct (sentence_indices wl ws) as [idxs|] eqn:E.
    - split; [|eauto]. intros _.
      destruct (Forall_dec (fun w => In w wl) (fun w => in_dec (list_eq_dec N.eq_dec) w wl) ws) as [F|F]; [exact F|].
      apply sentence_indices_none in F. congruence.
    - split; [intros [i H]; discriminate|]. intros F. apply sentence_indices_none in E. contradiction.
  Qed.

  Theorem decode_accepts_iff ws e :
    decode sha256 [] (Some wl) ws = Ok e <->
    legal_word_count (length ws) = true /\
    exists idxs, sentence_indices wl ws = Some idxs /\
      let bits := sentence_bits idxs in
      let cl := (length ws / 3)%nat in
      e = bytes_of_bits (firstn (length bits - cl) bits) /\
      skipn (length bits - cl) bits = firstn cl (bits_of_bytes (sha256 e)).
  Proof.
    rewrite decode_eq_spec. unfold decode_spec.
    destruct (legal_word_count (length ws)); [|split; [discriminate|intros [H _]; discriminate]].
    destruct (sentence_indices wl ws) as [idxs|].
    - cbv zeta. destruct (list_eqb _ _) eqn:Eck.
      + apply list_eqb_spec in Eck. split.
        * intros E. inversion E; subst e. split; [reflexivity|]. exists idxs. auto.
        * intros (_ & i & Hi & -> & _). inversion Hi; subst i. reflexivity.
      + split; [discriminate|]. intros (_ & i & Hi & He & Hck). inversion Hi; subst i. subst e.
        rewrite Hck, list_eqb_refl in Eck. discriminate.
    - split; [discriminate|]. intros (_ & i & Hi & _). discriminate.
  Qed.

  Theorem decode_error_classes ws x : decode sha256 [] (Some wl) ws = Err x ->
    (x = ValueError /\ (legal_word_count (length ws) = false \/ ~ Forall (fun w => In w wl) ws)) \/
    (x = LibError MnemonicChecksumError /\ legal_word_count (length ws) = true /\ Forall (fun w => In w wl) ws).
  Proof.
    rewrite decode_eq_spec. unfold decode_spec.
    destruct (legal_word_count (length ws)); [|intros E; inversion E; left; auto].
    destruct (sentence_indices wl ws) as [idxs|] eqn:Hs.
    - cbv zeta. destruct (list_eqb _ _); [discriminate|]. intros E. inversion E. right.
      split; [reflexivity|]. split; [reflexivity|]. apply sentence_indices_iff. eauto.
    - intros E. inversion E. left. split; [reflexivity|]. right. apply sentence_indices_none. exact Hs.
  Qed.

  Theorem is_valid_spec ws :
    is_valid sha256 [] (Some wl) ws = Ok (match decode_spec sha256 wl ws with inl _ => true | inr _ => false end).
  Proof.
    unfold is_valid. destruct (decode sha256 [] (Some wl) ws) as [e|x] eqn:E.
    - rewrite decode_eq_spec in E. rewrite E. reflexivity.
    - pose proof E as E'. rewrite decode_eq_spec in E'. rewrite E'.
      apply decode_error_classes in E as [[-> _]|[-> _]]; reflexivity.
  Qed.

  (* ---------------------------------------------------------------- DecodeWithChecksum *)

  Lemma pad_arith c : (4 <= c <= 8)%nat -> exists n, (0 < n)%nat /\
    ((if Nat.eqb ((33 * c) mod 8) 0 then 33 * c else 33 * c + (8 - (33 * c) mod 8)) / 4 = 2 * n)%nat /\
    ((8 - (33 * c) mod 8) mod 8 + 33 * c = 8 * n)%nat.
  Proof.
    intros H. assert (c = 4 \/ c = 5 \/ c = 6 \/ c = 7 \/ c = 8)%nat as [->|[->|[->|[->| ->]]]] by lia;
      [exists 17%nat|exists 21%nat|exists 25%nat|exists 29%nat|exists 33%nat]; repeat split; try reflexivity; lia.
  Qed.

  Theorem decode_with_checksum_eq_spec ws :
    decode_with_checksum sha256 [] (Some wl) ws = decode_with_checksum_spec sha256 wl ws.
  Proof.
    unfold decode_with_checksum, decode_with_checksum_spec. rewrite decode_bin_spec.
    destruct (decode_spec sha256 wl ws) as [e|x] eqn:E; [|reflexivity]. cbn [bind Ok].
    unfold decode_spec in E.
    destruct (legal_word_count (length ws)) eqn:Hlegal; [|discriminate].
    destruct (sentence_indices wl ws) as [idxs|] eqn:Hs; [|reflexivity]. cbn [bind Ok]. clear E.
    destruct (legal_word_count_c _ Hlegal) as (c & Hl & Hc).
    set (bits := sentence_bits idxs).
    assert (Lb : length bits = (33 * c)%nat).
    { unfold bits. rewrite sentence_bits_length, (sentence_indices_length wl ws idxs Hs), Hl. lia. }
    assert (Db : digits_ok 2 bits) by apply sentence_bits_digits.
    rewrite map_length, Lb. destruct (pad_arith c Hc) as (n & Hn & P1 & P2). rewrite P1.
    assert (Hne : bits <> []) by (intro E; rewrite E in Lb; simpl in Lb; lia).
    set (p := ((8 - (33 * c) mod 8) mod 8)%nat) in *.
    assert (Hz : digits_ok 2 (repeat 0 p ++ bits)).
    { apply digits_ok_app. split; [apply digits_ok_zeros; lia|exact Db]. }
    assert (Lz : length (repeat 0 p ++ bits) = (8 * n)%nat) by (rewrite app_length, repeat_length, Lb; exact P2).
    rewrite bytes_of_binstr_value; try assumption.
    - rewrite <- (from_be_zeros 2 p bits) by lia. rewrite (fixed_be_256_bits n _ Hz Lz). reflexivity.
    - pose proof (from_be_lt 2 r2 _ Hz) as H. rewrite from_be_zeros, Lz in H by lia.
      replace (256 ^ N.of_nat n) with (2 ^ N.of_nat (8 * n)); [exact H|].
      rewrite Nnat.Nat2N.inj_mul. change 256 with (2 ^ 8). rewrite <- N.pow_mul_r. reflexivity.
  Qed.
End Codec.

(* ------------------------------------------------------------------ language auto-detection *)

Section Auto.
  Variable sha256 : list N -> list N.
  Variable langs : list (list (list N)).

  (* with an explicit list the configured languages play no role *)
  Lemma decode_explicit_langs wl ws : decode sha256 langs (Some wl) ws = decode sha256 [] (Some wl) ws.
  Proof. reflexivity. Qed.
  Lemma decode_ck_explicit_langs wl ws :
    decode_with_checksum sha256 langs (Some wl) ws = decode_with_checksum sha256 [] (Some wl) ws.
  Proof. reflexivity. Qed.
  Lemma is_valid_explicit_langs wl ws : is_valid sha256 langs (Some wl) ws = is_valid sha256 [] (Some wl) ws.
  Proof. reflexivity. Qed.

  Lemma all_found_iff wl ws : all_found wl ws = true <-> Forall (fun w => In w wl) ws.
  Proof.
    unfold all_found. rewrite forallb_forall, Forall_forall. split; intros H w Hw; specialize (H w Hw).
    - destruct (word_index wl w) as [j|] eqn:E; [|discriminate].
      apply word_index_some in E. eapply nth_error_In; eauto.
    - destruct (word_index_in wl w H) as [j ->]. reflexivity.
  Qed.

  (* the decoder depends on the list only through the indices of the sentence's words *)
  Lemma decode_bin_indices wl1 wl2 ws : sentence_indices wl1 ws = sentence_indices wl2 ws ->
    decode_bin sha256 langs (Some wl1) ws = decode_bin sha256 langs (Some wl2) ws.
  Proof.
    intros H. unfold decode_bin. cbn [find_language bind Ok]. rewrite !mapM_word_bins, H. reflexivity.
  Qed.

  Lemma decode_bin_auto wl ws : find_language_in langs ws = Ok wl ->
    decode_bin sha256 langs None ws = decode_bin sha256 langs (Some wl) ws.
  Proof. intros H. unfold decode_bin. cbn [find_language]. rewrite H. reflexivity. Qed.

  Lemma find_language_in_first ls ws : forall k wl, nth_error ls k = Some wl -> all_found wl ws = true ->
    exists j wl', (j <= k)%nat /\ nth_error ls j = Some wl' /\ find_language_in ls ws = Ok wl' /\
                  all_found wl' ws = true.
  Proof.
    induction ls as [|l t IH]; intros k wl Hk Hf; [destruct k; discriminate|].
    cbn [find_language_in]. destruct (all_found l ws) eqn:El.
    - exists 0%nat, l. repeat split; auto. lia.
    - destruct k as [|k]; [simpl in Hk; inversion Hk; subst; congruence|]. simpl in Hk.
      destruct (IH k wl Hk Hf) as (j & wl' & Hj & Hn & Hfl & Ha).
      exists (S j), wl'. repeat split; auto. lia.
  Qed.

  Lemma find_language_in_none ls ws : (forall wl, In wl ls -> all_found wl ws = false) ->
    find_language_in ls ws = Err ValueError.
  Proof.
    induction ls as [|l t IH]; intros H; [reflexivity|]. cbn [find_language_in].
    rewrite (H l) by (left; reflexivity). apply IH. intros wl Hw. apply H. right. exact Hw.
  Qed.

  (* the three entry points under auto-detection vs. an explicit list *)
  Definition same_outcomes (wl : list (list N)) (ws : list (list N)) : Prop :=
    decode sha256 langs None ws = decode sha256 langs (Some wl) ws /\
    decode_with_checksum sha256 langs None ws = decode_with_checksum sha256 langs (Some wl) ws /\
    is_valid sha256 langs None ws = is_valid sha256 langs (Some wl) ws.

  Lemma same_outcomes_of_bin wl ws :
    decode_bin sha256 langs None ws = decode_bin sha256 langs (Some wl) ws -> same_outcomes wl ws.
  Proof.
    intros H. unfold same_outcomes, is_valid, decode, decode_with_checksum. rewrite H. auto.
  Qed.

  Theorem autodetect_partial k wl ws :
    nth_error langs k = Some wl -> Forall (fun w => In w wl) ws ->
    (forall j wlj, (j < k)%nat -> nth_error langs j = Some wlj -> Forall (fun w => In w wlj) ws ->
                   sentence_indices wlj ws = sentence_indices wl ws) ->
    same_outcomes wl ws.
  Proof.
    intros Hk Hf Hearlier. apply same_outcomes_of_bin. apply all_found_iff in Hf.
    destruct (find_language_in_first langs ws k wl Hk Hf) as (j & wl' & Hj & Hn & Hfl & Ha).
    rewrite (decode_bin_auto wl' ws Hfl). apply decode_bin_indices.
    destruct (Nat.eq_dec j k) as [->|Hne]; [congruence|].
    apply Hearlier with (j := j); [lia|exact Hn|apply all_found_iff; exact Ha].
  Qed.

  Lemma compatible_indices (A B : list (list N)) ws :
    (forall w i j, nth_error A i = Some w -> nth_error B j = Some w -> i = j) ->
    Forall (fun w => In w A) ws -> Forall (fun w => In w B) ws ->
    sentence_indices A ws = sentence_indices B ws.
  Proof.
    intros HC HA HB. induction ws as [|w t IH]; [reflexivity|].
    inversion HA; subst. inversion HB; subst. cbn [sentence_indices]. rewrite IH by assumption.
    destruct (word_index_in A w) as [i Hi]; [assumption|]. destruct (word_index_in B w) as [j Hj]; [assumption|].
    rewrite Hi, Hj. rewrite (HC w i j); [reflexivity|apply word_index_some; exact Hi|apply word_index_some; exact Hj].
  Qed.

  (* auto-detection is exact for a list all of whose predecessors are index-compatible with it *)
  Theorem autodetect_compatible k wl ws :
    nth_error langs k = Some wl -> Forall (fun w => In w wl) ws ->
    (forall j wlj, (j < k)%nat -> nth_error langs j = Some wlj ->
                   forall w a b, nth_error wlj a = Some w -> nth_error wl b = Some w -> a = b) ->
    same_outcomes wl ws.
  Proof.
    intros Hk Hf HC. apply (autodetect_partial k wl ws Hk Hf).
    intros j wlj Hj Hn Hfj. apply compatible_indices; auto. exact (HC j wlj Hj Hn).
  Qed.

  (* no configured list contains the sentence: ValueError (legal or illegal count alike) *)
  Theorem autodetect_unknown ws : (forall wl, In wl langs -> ~ Forall (fun w => In w wl) ws) ->
    decode sha256 langs None ws = Err ValueError.
  Proof.
    intros H. unfold decode, decode_bin. cbn [find_language].
    rewrite find_language_in_none.
    - destruct (mem_nat (length ws) bip39_word_nums); reflexivity.
    - intros wl Hw. destruct (all_found wl ws) eqn:E; [|reflexivity].
      apply all_found_iff in E. exfalso. exact (H wl Hw E).
  Qed.
End Auto.

(* A small concrete back-end (the group Z/3, a length-based "hash") satisfying every oracle law the
   C16/C18 theorems assume.  Used only by the companion Examples that show the theorems' premises are
   satisfiable on non-trivial values. *)
From Coq Require Import NArith Arith List Lia Bool.
From BU Require Import Base.Exn Base.Radix Base.Bytes.
Import ListNotations.
Open Scope N_scope.

Inductive z3 := A0 | A1 | A2.
Definition z3_of (n : N) : z3 := match n mod 3 with 0 => A0 | 1 => A1 | _ => A2 end.
Definition z3_to (p : z3) : N := match p with A0 => 0 | A1 => 1 | A2 => 2 end.
Definition z3_add (p q : z3) : z3 := z3_of (z3_to p + z3_to q).
Definition z3_mul (n : N) (p : z3) : z3 := z3_of (n * z3_to p).
Definition z3_is_zero (p : z3) : bool := match p with A0 => true | _ => false end.
Definition z3_enc (p : z3) : list N := z3_to p :: repeat 0 31.
Definition z3_dec (b : list N) : option z3 := Some (z3_of (hd 0 b)).
Definition toy_hash32 (x : list N) : list N := (2 + N.of_nat (length x) mod 200) :: repeat 0 31.
Definition toy_hash (len : nat) (x : list N) : list N := (2 + N.of_nat (length x) mod 200) :: repeat 0 (len - 1).

Lemma z3_to_of n : z3_to (z3_of n) = n mod 3.
Proof.
  unfold z3_of. pose proof (N.mod_lt n 3 ltac:(discriminate)) as H.
  destruct (n mod 3) as [|p]; [reflexivity|].
  destruct p as [[q|q|]|[q|q|]|]; simpl; try reflexivity; lia.
Qed.

Lemma z3_of_mod n : z3_of (n mod 3) = z3_of n.
Proof. unfold z3_of. rewrite N.mod_mod by discriminate. reflexivity. Qed.

Lemma z3_of_to p : z3_of (z3_to p) = p.
Proof. destruct p; reflexivity. Qed.

Lemma z3_mul_add x y P : z3_mul (x + y) P = z3_add (z3_mul x P) (z3_mul y P).
Proof.
  unfold z3_mul, z3_add. rewrite !z3_to_of.
  rewrite <- (z3_of_mod (x * z3_to P mod 3 + y * z3_to P mod 3)).
  rewrite <- N.add_mod by discriminate. rewrite z3_of_mod. f_equal. lia.
Qed.

Lemma z3_mul_mul x y P : z3_mul x (z3_mul y P) = z3_mul (x * y) P.
Proof.
  unfold z3_mul. rewrite z3_to_of.
  rewrite <- (z3_of_mod (x * (y * z3_to P mod 3))). rewrite N.mul_mod_idemp_r by discriminate.
  rewrite z3_of_mod. f_equal. lia.
Qed.

Lemma z3_add_comm P Q : z3_add P Q = z3_add Q P.
Proof. destruct P, Q; reflexivity. Qed.
Lemma z3_add_assoc P Q R : z3_add P (z3_add Q R) = z3_add (z3_add P Q) R.
Proof. destruct P, Q, R; reflexivity. Qed.
Lemma z3_add_zero P : z3_add A0 P = P.
Proof. destruct P; reflexivity. Qed.
Lemma z3_mul_zero n : z3_mul n A0 = A0.
Proof. unfold z3_mul. simpl. rewrite N.mul_0_r. reflexivity. Qed.
Lemma z3_is_zero_spec P : z3_is_zero P = true <-> P = A0.
Proof. destruct P; simpl; split; congruence. Qed.

Lemma z3_enc_len P : length (z3_enc P) = 32%nat.
Proof. reflexivity. Qed.
Lemma z3_enc_ok P : bytes_ok (z3_enc P).
Proof. unfold z3_enc. constructor; [destruct P; simpl; lia|apply bytes_ok_repeat0]. Qed.
Lemma z3_dec_enc P : z3_dec (z3_enc P) = Some P.
Proof. unfold z3_dec, z3_enc. simpl. rewrite z3_of_to. reflexivity. Qed.
Lemma z3_enc_inj P Q : z3_enc P = z3_enc Q -> P = Q.
Proof. destruct P, Q; intros H; try reflexivity; inversion H. Qed.

Lemma toy_hash32_len x : length (toy_hash32 x) = 32%nat.
Proof. reflexivity. Qed.
Lemma toy_hash32_ok x : bytes_ok (toy_hash32 x).
Proof.
  unfold toy_hash32. constructor; [|apply bytes_ok_repeat0].
  pose proof (N.mod_lt (N.of_nat (length x)) 200 ltac:(discriminate)). lia.
Qed.
Lemma toy_hash_len len x : (0 < len)%nat -> length (toy_hash len x) = len.
Proof. intros H. unfold toy_hash. simpl. rewrite repeat_length. lia. Qed.
Lemma toy_hash_ok len x : bytes_ok (toy_hash len x).
Proof.
  unfold toy_hash. constructor; [|apply bytes_ok_repeat0].
  pose proof (N.mod_lt (N.of_nat (length x)) 200 ltac:(discriminate)). lia.
Qed.

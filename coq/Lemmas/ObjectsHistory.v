(* History independence in the general shape the C15 history check tests (harness/props/C15.py,
   reflective part): a process is a state machine; if every result is a function of the immutable
   fields and the arguments only, then ANY two histories ending with the same call, run on processes
   whose objects were built from the same constructor arguments, give the same result -- in particular
   the value at any position of any history equals the value first thing in a fresh process.  The
   contrapositive is the failing-history criterion: one observed difference refutes every such
   function.  Second criterion (snapshots): results may depend on hidden state, if the history leaves
   the hidden state unchanged up to cache fills that results are insensitive to.
   Then the instances: the memo model (Model/Memo.v) and the object table regenerated from the source
   (Gen/Objects.v via Lemmas/ObjectsOk.v). *)
From Coq Require Import List String Bool NArith Lia.
From BU Require Import Base.Bytes Gen.Objects Model.Memo Model.Objects Lemmas.Memo Lemmas.ObjectsExpected Lemmas.ObjectsOk.
Import ListNotations.

Section Machine.
  Variable S Op R : Type.
  Variable step : S -> Op -> S * R.
  Notation exec := (exec S Op R step).
  Notation result_at := (result_at S Op R step).
  Notation results := (results S Op R step).

  Variable I : Type.
  Variable imm : S -> I.          (* the immutable fields: what the constructor arguments determine *)
  Variable Inv : S -> Prop.       (* invariant of reachable states (e.g. the caches are consistent) *)
  Variable okop : Op -> Prop.     (* operations a history may contain *)
  Variable obs : Op -> Prop.      (* operations whose result is claimed history-independent *)

  Definition inv_step := forall s o, Inv s -> okop o -> Inv (fst (step s o)).
  Definition imm_step := forall s o, Inv s -> okop o -> imm (fst (step s o)) = imm s.
  (* results are a function of (immutable fields, arguments) only *)
  Definition res_fn (f : I -> Op -> R) := forall s o, Inv s -> obs o -> snd (step s o) = f (imm s) o.

  Lemma exec_app : forall h1 h2 s, exec s (h1 ++ h2)%list = exec (exec s h1) h2.
  Proof. intros h1 h2 s. unfold Memo.exec. apply fold_left_app. Qed.

  Lemma exec_cons : forall o t s, exec s (o :: t) = exec (fst (step s o)) t.
  Proof. reflexivity. Qed.

  Lemma exec_inv : inv_step -> forall h s, Inv s -> Forall okop h -> Inv (exec s h).
  Proof.
    intros HI. induction h as [|o t IH]; intros s Hs Hh; [exact Hs|].
    inversion Hh; subst. rewrite exec_cons. apply IH; [|assumption]. apply HI; assumption.
  Qed.

  Lemma exec_imm : inv_step -> imm_step -> forall h s, Inv s -> Forall okop h -> imm (exec s h) = imm s.
  Proof.
    intros HI HM. induction h as [|o t IH]; intros s Hs Hh; [reflexivity|].
    inversion Hh; subst. rewrite exec_cons, IH; [|apply HI; assumption|assumption]. apply HM; assumption.
  Qed.

  (* TWO HISTORIES: both arbitrary, both processes arbitrary reachable states with the same immutable
     fields; the same final call returns the same value. *)
  Theorem two_histories : inv_step -> imm_step -> forall f, res_fn f ->
    forall s1 s2 h1 h2 o, Inv s1 -> Inv s2 -> imm s1 = imm s2 -> Forall okop h1 -> Forall okop h2 -> obs o ->
    result_at s1 h1 o = result_at s2 h2 o.
  Proof.
    intros HI HM f HF s1 s2 h1 h2 o I1 I2 E H1 H2 Ho. unfold Memo.result_at.
    rewrite (HF _ _ (exec_inv HI h1 s1 I1 H1) Ho), (HF _ _ (exec_inv HI h2 s2 I2 H2) Ho).
    rewrite (exec_imm HI HM h1 s1 I1 H1), (exec_imm HI HM h2 s2 I2 H2), E. reflexivity.
  Qed.

  (* THE ORACLE of the check: the value at the end of any history is the value first thing in a fresh
     process (empty history). *)
  Corollary fresh_oracle : inv_step -> imm_step -> forall f, res_fn f ->
    forall s h o, Inv s -> Forall okop h -> obs o -> result_at s h o = result_at s [] o.
  Proof.
    intros HI HM f HF s h o Is Hh Ho.
    apply (two_histories HI HM f HF s s h [] o); auto.
  Qed.

  (* ... at every position of the history, not only the last *)
  Corollary every_position : inv_step -> imm_step -> forall f, res_fn f ->
    forall s h1 o h2, Inv s -> Forall okop (h1 ++ o :: h2)%list -> obs o ->
    nth_error (results s (h1 ++ o :: h2)%list) (List.length h1) = Some (result_at s [] o).
  Proof.
    intros HI HM f HF s h1. revert s. induction h1 as [|a t IH]; intros s o h2 Is Hh Ho.
    - reflexivity.
    - inversion Hh; subst. cbn [app Memo.results List.length nth_error].
      rewrite (IH (fst (step s a)) o h2); [|apply HI; assumption|assumption|assumption].
      f_equal. unfold Memo.result_at. cbn.
      rewrite (HF _ _ (HI _ _ Is H1) Ho), (HF _ _ Is Ho), (HM _ _ Is H1). reflexivity.
  Qed.

  (* FAILING-HISTORY CRITERION (contrapositive): one history at whose end a call returns something else
     than first thing in a fresh process refutes EVERY function of (immutable fields, arguments). *)
  Theorem failing_history_refutes : inv_step -> imm_step ->
    forall s h o, Inv s -> Forall okop h -> obs o -> result_at s h o <> result_at s [] o ->
    forall f, ~ res_fn f.
  Proof.
    intros HI HM s h o Is Hh Ho D f HF. apply D. exact (fresh_oracle HI HM f HF s h o Is Hh Ho).
  Qed.

  (* a sub-history that still fails is as good a witness: what delta debugging returns is a failing
     history in its own right (no monotonicity is assumed: every candidate is re-run) *)
  Theorem shrunk_history_refutes : inv_step -> imm_step ->
    forall s h' o, Inv s -> Forall okop h' -> obs o -> result_at s h' o <> result_at s [] o ->
    forall f, ~ res_fn f.
  Proof. exact failing_history_refutes. Qed.

  (* SNAPSHOT CRITERION.  Results may depend on hidden state [hid]; [fill] is the "pure fill of a
     memoisation cache" relation on hidden states that results are insensitive to.  If the hidden state
     after the history is the initial one up to a fill, the final call returns the fresh value. *)
  Variable Hd : Type.
  Variable hid : S -> Hd.
  Variable fill : Hd -> Hd -> Prop.
  Definition res_hid (g : I -> Hd -> Op -> R) := forall s o, Inv s -> obs o -> snd (step s o) = g (imm s) (hid s) o.
  Definition fill_insensitive (g : I -> Hd -> Op -> R) := forall i x y o, fill x y -> g i x o = g i y o.

  Theorem snapshot_criterion : inv_step -> imm_step -> forall g, res_hid g -> fill_insensitive g ->
    forall s h o, Inv s -> Forall okop h -> obs o -> fill (hid s) (hid (exec s h)) ->
    result_at s h o = result_at s [] o.
  Proof.
    intros HI HM g HG HF s h o Is Hh Ho Hf. unfold Memo.result_at.
    rewrite (HG _ _ (exec_inv HI h s Is Hh) Ho). cbn. rewrite (HG _ _ Is Ho).
    rewrite (exec_imm HI HM h s Is Hh). symmetry. apply HF. exact Hf.
  Qed.

  (* contrapositive: a failing history has changed the hidden state beyond a fill *)
  Theorem failing_history_changes_state : inv_step -> imm_step -> forall g, res_hid g -> fill_insensitive g ->
    forall s h o, Inv s -> Forall okop h -> obs o -> result_at s h o <> result_at s [] o ->
    ~ fill (hid s) (hid (exec s h)).
  Proof.
    intros HI HM g HG HF s h o Is Hh Ho D Hf. apply D.
    exact (snapshot_criterion HI HM g HG HF s h o Is Hh Ho Hf).
  Qed.
End Machine.

(* ------------------------------------------------------------------ witnesses *)

(* premises satisfiable: [clean_step] keeps a hidden "last argument" but never shows it *)
Lemma clean_machine_ok :
  inv_step (nat * nat) nat nat clean_step (fun _ => True) (fun _ => True) /\
  imm_step (nat * nat) nat nat clean_step nat fst (fun _ => True) (fun _ => True) /\
  res_fn (nat * nat) nat nat clean_step nat fst (fun _ => True) (fun _ => True) (fun i o => (i + o)%nat).
Proof. repeat split. Qed.

(* the criterion fires on [leaky_step] (a "last used" cache that leaks into results): history [5],
   then call 1, against call 1 first thing *)
Lemma leaky_machine_refuted :
  result_at (nat * nat) nat nat leaky_step (7, 0)%nat [5%nat] 1%nat <> result_at (nat * nat) nat nat leaky_step (7, 0)%nat [] 1%nat /\
  forall f, ~ res_fn (nat * nat) nat nat leaky_step nat fst (fun _ => True) (fun _ => True) f.
Proof.
  assert (D : result_at (nat * nat) nat nat leaky_step (7, 0)%nat [5%nat] 1%nat <> result_at (nat * nat) nat nat leaky_step (7, 0)%nat [] 1%nat)
    by (vm_compute; discriminate).
  split; [exact D|].
  apply (failing_history_refutes (nat * nat) nat nat leaky_step nat fst (fun _ => True) (fun _ => True) (fun _ => True))
    with (s := (7, 0)%nat) (h := [5%nat]) (o := 1%nat); try exact D; try exact I.
  - intros s o _ _. exact I.
  - intros s o _ _. reflexivity.
  - repeat constructor.
Qed.

(* ------------------------------------------------------------------ instance: the memo model *)
Section MemoInstance.
  Variable F : Type.
  Variable feqb : F -> F -> bool.
  Variable M : Type.
  Variable meqb : M -> M -> bool.
  Variable V : Type.
  Variable sem : M -> (F -> V) -> V.
  Variable is_cached : M -> bool.
  Hypothesis feqb_spec : forall a b, feqb a b = true <-> a = b.
  Hypothesis meqb_spec : forall a b, meqb a b = true <-> a = b.
  Variable reads : M -> list F.
  Hypothesis reads_sound : forall m s1 s2, (forall f, In f (reads m) -> s1 f = s2 f) -> sem m s1 = sem m s2.
  Variable writable : F -> Prop.

  Notation mstep := (step F feqb M meqb V sem is_cached).
  Notation mstate := (state F M V).
  Notation mop := (op F M V).

  (* [run] of the memo model is the fold *)
  Lemma run_is_exec : forall h s, run F feqb M meqb V sem is_cached s h = exec mstate mop (option V) mstep s h.
  Proof. induction h as [|o t IH]; intros s; [reflexivity|]. cbn. apply IH. Qed.

  Lemma result_after_is_result_at : forall s h m,
    result_after F feqb M meqb V sem is_cached s h m = result_at mstate mop (option V) mstep s h (Call m).
  Proof. intros s h m. unfold Memo.result_after, Memo.result_at. rewrite run_is_exec. reflexivity. Qed.

  Definition good_call (o : mop) : Prop :=
    match o with Call m => good F M is_cached reads writable m | Write _ _ => False end.

  (* histories of calls (any methods, cached or not, offending or not): the store is the immutable view *)
  Lemma memo_inv_step : inv_step mstate mop (option V) mstep
    (cache_valid F M meqb V sem is_cached reads writable) (is_call F M V).
  Proof.
    intros s o Hv Hc. apply (step_valid F feqb M meqb V sem is_cached feqb_spec meqb_spec reads reads_sound writable); [exact Hv|].
    destruct o; [exact I|contradiction].
  Qed.

  Lemma memo_imm_step : imm_step mstate mop (option V) mstep (F -> V) fst
    (cache_valid F M meqb V sem is_cached reads writable) (is_call F M V).
  Proof.
    intros s o _ Hc. destruct o as [m|f v]; [|contradiction].
    apply (call_leaves_store F feqb M meqb V sem is_cached).
  Qed.

  Lemma memo_res_fn : res_fn mstate mop (option V) mstep (F -> V) fst
    (cache_valid F M meqb V sem is_cached reads writable) good_call
    (fun st o => match o with Call m => Some (sem m st) | Write _ _ => None end).
  Proof.
    intros s o Hv Hg. destruct o as [m|f v]; [|contradiction].
    apply (step_result F feqb M meqb V sem is_cached reads writable); assumption.
  Qed.

  (* the memo model satisfies the general theorem: two arbitrary call histories on two processes whose
     objects have the same field values (same constructor arguments), caches in any consistent state *)
  Theorem memo_two_histories : forall s1 s2 h1 h2 m,
    cache_valid F M meqb V sem is_cached reads writable s1 ->
    cache_valid F M meqb V sem is_cached reads writable s2 ->
    fst s1 = fst s2 -> Forall (is_call F M V) h1 -> Forall (is_call F M V) h2 ->
    good F M is_cached reads writable m ->
    result_after F feqb M meqb V sem is_cached s1 h1 m = result_after F feqb M meqb V sem is_cached s2 h2 m.
  Proof.
    intros s1 s2 h1 h2 m V1 V2 E H1 H2 G. rewrite !result_after_is_result_at.
    apply (two_histories mstate mop (option V) mstep (F -> V) fst
             (cache_valid F M meqb V sem is_cached reads writable) (is_call F M V) good_call
             memo_inv_step memo_imm_step _ memo_res_fn); assumption.
  Qed.

  (* with mutators in the histories: equal logical values of the fields the method reads suffice *)
  Theorem memo_two_histories_writes : forall s1 s2 h1 h2 m,
    cache_valid F M meqb V sem is_cached reads writable s1 ->
    cache_valid F M meqb V sem is_cached reads writable s2 ->
    Forall (write_ok F M V writable) h1 -> Forall (write_ok F M V writable) h2 ->
    good F M is_cached reads writable m ->
    (forall f, In f (reads m) -> logical F feqb M V (fst s1) h1 f = logical F feqb M V (fst s2) h2 f) ->
    result_after F feqb M meqb V sem is_cached s1 h1 m = result_after F feqb M meqb V sem is_cached s2 h2 m.
  Proof.
    intros s1 s2 h1 h2 m V1 V2 W1 W2 G E.
    rewrite (memo_transparent F feqb M meqb V sem is_cached feqb_spec meqb_spec reads reads_sound writable s1 h1 m V1 W1 G).
    rewrite (memo_transparent F feqb M meqb V sem is_cached feqb_spec meqb_spec reads reads_sound writable s2 h2 m V2 W2 G).
    f_equal. apply reads_sound. exact E.
  Qed.
End MemoInstance.

(* ------------------------------------------------------------------ instance: the generated object table *)
Section ObjectsInstance.
  Variable V : Type.
  Variable sem : mkey -> (fkey -> V) -> V.
  Variable reads : mkey -> list fkey.
  Hypothesis reads_sound : forall m s1 s2, (forall f, In f (reads m) -> s1 f = s2 f) -> sem m s1 = sem m s2.
  Hypothesis gen_covers : forall m f, is_cached_key m = true -> In f (reads m) -> In (snd f) mutable_fields ->
    In (snd f) (gen_reads (mname m)).

  (* Method keys (object, "Class.Method", arguments) over Gen/Objects.v: any two histories of calls --
     of ANY methods of ANY objects, in any order, with repetitions -- on two processes whose objects hold the
     same field values end with the same result of every method that is not a listed offender. *)
  Theorem two_histories_objects : forall s1 s2 h1 h2 m,
    cache_valid fkey mkey mkeyb V sem is_cached_key reads writable_key s1 ->
    cache_valid fkey mkey mkeyb V sem is_cached_key reads writable_key s2 ->
    fst s1 = fst s2 -> Forall (is_call fkey mkey V) h1 -> Forall (is_call fkey mkey V) h2 ->
    smem (mname m) (map fst expected_offenders) = false ->
    result_after fkey fkeyb mkey mkeyb V sem is_cached_key s1 h1 m =
    result_after fkey fkeyb mkey mkeyb V sem is_cached_key s2 h2 m.
  Proof.
    intros s1 s2 h1 h2 m V1 V2 E H1 H2 N.
    apply (memo_two_histories fkey fkeyb mkey mkeyb V sem is_cached_key fkeyb_spec mkeyb_spec reads reads_sound writable_key);
      try assumption.
    apply (non_offending_good reads gen_covers); assumption.
  Qed.

  (* ... and with conversions / toggle flips in the histories, as soon as the fields the method reads have the
     same logical values at the end of both *)
  Theorem two_histories_objects_writes : forall s1 s2 h1 h2 m,
    cache_valid fkey mkey mkeyb V sem is_cached_key reads writable_key s1 ->
    cache_valid fkey mkey mkeyb V sem is_cached_key reads writable_key s2 ->
    Forall (write_ok fkey mkey V writable_key) h1 -> Forall (write_ok fkey mkey V writable_key) h2 ->
    smem (mname m) (map fst expected_offenders) = false ->
    (forall f, In f (reads m) -> logical fkey fkeyb mkey V (fst s1) h1 f = logical fkey fkeyb mkey V (fst s2) h2 f) ->
    result_after fkey fkeyb mkey mkeyb V sem is_cached_key s1 h1 m =
    result_after fkey fkeyb mkey mkeyb V sem is_cached_key s2 h2 m.
  Proof.
    intros s1 s2 h1 h2 m V1 V2 W1 W2 N E.
    apply (memo_two_histories_writes fkey fkeyb mkey mkeyb V sem is_cached_key fkeyb_spec mkeyb_spec reads reads_sound writable_key);
      try assumption.
    apply (non_offending_good reads gen_covers); assumption.
  Qed.

  (* the failing-history criterion on the table: a call history after which a non-offending method returns
     something else than on the fresh process refutes the soundness of the read-sets (i.e. there is state the
     table does not know) -- stated as: under the two trusted hypotheses no such history exists *)
  Theorem no_failing_history_objects : forall s h m,
    cache_valid fkey mkey mkeyb V sem is_cached_key reads writable_key s ->
    Forall (is_call fkey mkey V) h ->
    smem (mname m) (map fst expected_offenders) = false ->
    result_after fkey fkeyb mkey mkeyb V sem is_cached_key s h m =
    result_after fkey fkeyb mkey mkeyb V sem is_cached_key s [] m.
  Proof.
    intros s h m Vs Hh N. apply two_histories_objects; auto.
  Qed.
End ObjectsInstance.

(* ------------------------------------------------------------------ check-then-fill in place: the race *)
(* two entries, both threads look up key 2 (present in the source): alone, or one after the other, both find it;
   if thread 1 runs its test after thread 0 inserted the first entry only, it looks 2 up in a partial table *)
Definition two_words : list (nat * nat) := [(1, 10); (2, 20)]%nat.

Lemma fill_sequential_ok :
  let c := frun two_words 2 2 [false; false; false; false; true; true] in
  f0 c = FDone (Some 20%nat) /\ f1 c = FDone (Some 20%nat).
Proof. split; reflexivity. Qed.

Lemma fill_race_loses :
  let c := frun two_words 2 2 [false; false; true; true] in
  f1 c = FDone None /\ tfind 2 two_words = Some 20%nat.
Proof. split; reflexivity. Qed.

(* whatever the schedule, a thread that passes its test on an EMPTY table and fills alone gets the right answer:
   single-threaded behaviour is unchanged (why only a concurrent first use in a fresh process can show it) *)
Lemma fill_single_thread_ok : forall k, In k (map fst two_words) ->
  f0 (frun two_words k k [false; false; false; false]) = FDone (tfind k two_words).
Proof. intros k [<-|[<-|[]]]; reflexivity. Qed.

(* Proofs about Model/IntBytes.v: integer <-> bytes, binary strings, hex. *)
From Coq Require Import NArith ZArith Arith List Lia Bool.
From BU Require Import Base.Exn Base.Radix Base.Bytes Model.IntBytes Lemmas.CodecsAux.
Import ListNotations.
Open Scope N_scope.

(* ================================================================== hex *)

Lemma hexval_hexdig d : d < 16 -> hexval (hexdig d) = Ok d.
Proof.
  intros H. unfold hexval, hexdig. destruct (N.ltb_spec d 10).
  - destruct (N.leb_spec 48 (48 + d)); [|exfalso; lia]. destruct (N.leb_spec (48 + d) 57); [|exfalso; lia].
    cbn [andb]. unfold Ok. f_equal. lia.
  - destruct (N.leb_spec 48 (87 + d)); [|exfalso; lia]. destruct (N.leb_spec (87 + d) 57); [exfalso; lia|].
    destruct (N.leb_spec 97 (87 + d)); [|exfalso; lia]. destruct (N.leb_spec (87 + d) 102); [|exfalso; lia].
    cbn [andb]. unfold Ok. f_equal. lia.
Qed.

Lemma nibbles x : x < 256 -> x / 16 < 16 /\ x mod 16 < 16 /\ 16 * (x / 16) + x mod 16 = x.
Proof.
  intros H. split; [apply N.div_lt_upper_bound; lia|]. split; [apply N.mod_lt; lia|].
  symmetry. apply N.div_mod. lia.
Qed.

Theorem unhexlify_hexlify b : bytes_ok b -> unhexlify (hexlify b) = Ok b.
Proof.
  unfold unhexlify. induction 1 as [|x t Hx Ht IH]; [reflexivity|].
  destruct (nibbles x Hx) as (A & B & C).
  cbn [hexlify flat_map app unhex_pairs]. rewrite (hexval_hexdig _ A), (hexval_hexdig _ B).
  cbn [bind Ok]. fold (hexlify t). rewrite IH. cbn [bind Ok]. rewrite C. reflexivity.
Qed.

(* what unhexlify accepts, and canonicity: accepted text is the hex of the result up to case *)
Definition hex_lower (c : N) : N := if (65 <=? c) && (c <=? 70) then c + 32 else c.
Definition is_hex (c : N) : bool :=
  ((48 <=? c) && (c <=? 57)) || ((97 <=? c) && (c <=? 102)) || ((65 <=? c) && (c <=? 70)).

Lemma hexval_spec c x : hexval c = Ok x -> x < 16 /\ hexdig x = hex_lower c /\ is_hex c = true.
Proof.
  unfold hexval. intros E.
  destruct ((48 <=? c) && (c <=? 57)) eqn:R1; [|destruct ((97 <=? c) && (c <=? 102)) eqn:R2;
    [|destruct ((65 <=? c) && (c <=? 70)) eqn:R3; [|discriminate]]];
  inversion E; subst x; clear E; unfold is_hex; rewrite ?R1, ?R2, ?R3;
  (split; [|split; [|rewrite ?orb_true_r; reflexivity]]);
  match goal with R : (_ && _) = true |- _ =>
    apply andb_true_iff in R; destruct R as [A B]; apply N.leb_le in A, B end;
  try lia; unfold hexdig, hex_lower.
  - destruct (N.ltb_spec (c - 48) 10); [|exfalso; lia].
    destruct (N.leb_spec 65 c); [exfalso; lia|]. cbn [andb]. lia.
  - destruct (N.ltb_spec (c - 87) 10); [exfalso; lia|].
    destruct (N.leb_spec c 70); [exfalso; lia|]. rewrite andb_false_r. lia.
  - destruct (N.ltb_spec (c - 55) 10); [exfalso; lia|].
    destruct (N.leb_spec 65 c); [|exfalso; lia]. destruct (N.leb_spec c 70); [|exfalso; lia].
    cbn [andb]. lia.
Qed.

Lemma hexval_err c e : hexval c = Err e -> e = ValueError /\ is_hex c = false.
Proof.
  unfold hexval, is_hex.
  destruct ((48 <=? c) && (c <=? 57)); [discriminate|].
  destruct ((97 <=? c) && (c <=? 102)); [discriminate|].
  destruct ((65 <=? c) && (c <=? 70)); [discriminate|].
  intros E; inversion E; auto.
Qed.

Lemma unhex_pairs_ind (P : list N -> Prop) :
  P [] -> (forall a, P [a]) -> (forall a b t, P t -> P (a :: b :: t)) -> forall s, P s.
Proof.
  intros H0 H1 H2. fix IH 1. intros [|a [|b t]]; [exact H0|apply H1|apply H2, IH].
Qed.

Theorem unhexlify_ok_spec s b : unhexlify s = Ok b ->
  bytes_ok b /\ hexlify b = map hex_lower s /\ length s = (2 * length b)%nat.
Proof.
  unfold unhexlify. revert b. induction s as [| a | a c t IH] using unhex_pairs_ind; intros b E.
  - inversion E; subst. repeat split; constructor.
  - discriminate.
  - cbn [unhex_pairs] in E.
    destruct (hexval a) as [x|] eqn:Ha; cbn [bind] in E; [|discriminate].
    destruct (hexval c) as [y|] eqn:Hc; cbn [bind] in E; [|discriminate].
    destruct (unhex_pairs t) as [r|] eqn:Hr; cbn [bind] in E; [|discriminate].
    assert (Eb : b = 16 * x + y :: r) by (unfold Ok in E; congruence). subst b. clear E.
    destruct (hexval_spec _ _ Ha) as (X1 & X2 & _). destruct (hexval_spec _ _ Hc) as (Y1 & Y2 & _).
    destruct (IH r eq_refl) as (I1 & I2 & I3).
    assert (D : (16 * x + y) / 16 = x /\ (16 * x + y) mod 16 = y).
    { split; [symmetry; apply (N.div_unique _ 16 x y); lia|symmetry; apply (N.mod_unique _ 16 x y); lia]. }
    destruct D as [D1 D2]. split; [|split].
    + apply Forall_cons; [change (16 * x + y < 256); lia|exact I1].
    + cbn [hexlify flat_map app map]. rewrite D1, D2, X2, Y2. fold (hexlify r). rewrite I2. reflexivity.
    + simpl. lia.
Qed.

Theorem unhexlify_ok_iff s : (exists b, unhexlify s = Ok b) <-> (Nat.even (length s) = true /\ forallb is_hex s = true).
Proof.
  unfold unhexlify. induction s as [| a | a c t IH] using unhex_pairs_ind.
  - split; [intros _; auto|intros _; exists []; reflexivity].
  - split; [intros [b E]; discriminate|intros [E _]; discriminate].
  - cbn [unhex_pairs length forallb]. change (Nat.even (S (S (length t)))) with (Nat.even (length t)).
    split.
    + intros [b E].
      destruct (hexval a) as [x|] eqn:Ha; cbn [bind] in E; [|discriminate].
      destruct (hexval c) as [y|] eqn:Hc; cbn [bind] in E; [|discriminate].
      destruct (unhex_pairs t) as [r|] eqn:Hr; cbn [bind] in E; [|discriminate].
      destruct (hexval_spec _ _ Ha) as (_ & _ & A). destruct (hexval_spec _ _ Hc) as (_ & _ & C).
      destruct IH as [IH _]. destruct (IH (ex_intro _ r eq_refl)) as [I1 I2].
      rewrite A, C, I2. auto.
    + intros [E F]. apply andb_true_iff in F. destruct F as [Fa F]. apply andb_true_iff in F. destruct F as [Fc Ft].
      destruct IH as [_ IH]. destruct (IH (conj E Ft)) as [r Hr]. rewrite Hr.
      destruct (hexval a) as [x|e] eqn:Ha; [|apply hexval_err in Ha; destruct Ha; congruence].
      destruct (hexval c) as [y|e] eqn:Hc; [|apply hexval_err in Hc; destruct Hc; congruence].
      cbn [bind Ok]. eauto.
Qed.

Theorem unhexlify_err s e : unhexlify s = Err e -> e = ValueError.
Proof.
  unfold unhexlify. induction s as [| a | a c t IH] using unhex_pairs_ind; intros E.
  - discriminate.
  - inversion E; auto.
  - cbn [unhex_pairs] in E.
    destruct (hexval a) as [x|e1] eqn:Ha; cbn [bind] in E; [|apply hexval_err in Ha; destruct Ha; unfold Err in E; congruence].
    destruct (hexval c) as [y|e2] eqn:Hc; cbn [bind] in E; [|apply hexval_err in Hc; destruct Hc; unfold Err in E; congruence].
    destruct (unhex_pairs t) as [r|e3] eqn:Hr; cbn [bind] in E; [discriminate|].
    unfold Err in E. injection E as E. subst. auto.
Qed.

Lemma hexlify_length b : length (hexlify b) = (2 * length b)%nat.
Proof. induction b; simpl; [reflexivity|]. fold (hexlify b). lia. Qed.

(* ================================================================== integers <-> bytes *)

Lemma pow256 k : 256 ^ k = 2 ^ (8 * k).
Proof. change 256 with (2 ^ 8). rewrite <- N.pow_mul_r. reflexivity. Qed.

Lemma bytes_number_0 : bytes_number 0%Z = 1.
Proof. reflexivity. Qed.

Lemma bytes_number_neg v : (v <= 0)%Z -> bytes_number v = 1.
Proof.
  intros H. unfold bytes_number. destruct (Z.ltb_spec 0 v); [lia|]. reflexivity.
Qed.

(* GetBytesNumber n is the least w >= 1 with n < 256^w *)
Theorem bytes_number_spec n : let w := bytes_number (Z.of_N n) in
  1 <= w /\ n < 256 ^ w /\ (1 < w -> 256 ^ (w - 1) <= n).
Proof.
  destruct (N.eq_dec n 0) as [->|Hn].
  - cbv zeta. change (Z.of_N 0) with 0%Z. rewrite bytes_number_0. split; [lia|]. split; [reflexivity|lia].
  - cbv zeta. unfold bytes_number. destruct (Z.ltb_spec 0 (Z.of_N n)); [|lia]. rewrite N2Z.id.
    set (s := N.size n).
    pose proof (N.size_gt n) as G. fold s in G.
    pose proof (N.size_le n) as L. fold s in L. rewrite N.succ_double_spec in L.
    assert (Hs : 1 <= s).
    { destruct (N.eq_dec s 0) as [E|]; [|lia]. rewrite E in G. simpl in G. lia. }
    assert (L2 : 2 ^ (s - 1) <= n).
    { replace s with (N.succ (s - 1)) in L by lia. rewrite N.pow_succ_r' in L. lia. }
    set (w := (s + 7) / 8).
    pose proof (N.div_mod (s + 7) 8 ltac:(lia)) as DM. fold w in DM.
    pose proof (N.mod_lt (s + 7) 8 ltac:(lia)) as ML. set (r := (s + 7) mod 8) in *. clearbody r.
    assert (W1 : 1 <= w) by lia.
    split; [exact W1|]. rewrite !pow256. split.
    + clearbody w s. assert (2 ^ s <= 2 ^ (8 * w)) by (apply N.pow_le_mono_r; lia). lia.
    + intros _. clearbody w s. assert (2 ^ (8 * (w - 1)) <= 2 ^ (s - 1)) by (apply N.pow_le_mono_r; lia). lia.
Qed.

Lemma fixed_lt_pow w v b : int_to_le_fixed w v = Ok b -> v < 256 ^ N.of_nat w.
Proof.
  unfold int_to_le_fixed. destruct (Nat.leb_spec (length (to_le 256 v)) w) as [Hl|]; [|discriminate].
  intros _. pose proof (from_le_lt 256 r256 (to_le 256 v) (to_le_digits 256 r256 v)) as L.
  rewrite (from_to_le 256 r256) in L.
  assert (256 ^ N.of_nat (length (to_le 256 v)) <= 256 ^ N.of_nat w) by (apply N.pow_le_mono_r; lia).
  lia.
Qed.

Lemma fixed_overflow w v : 256 ^ N.of_nat w <= v -> int_to_le_fixed w v = Err OverflowError.
Proof.
  intros H. destruct (int_to_le_fixed w v) as [b|e] eqn:E.
  - apply fixed_lt_pow in E. lia.
  - unfold int_to_le_fixed in E. destruct (length (to_le 256 v) <=? w)%nat; [discriminate|symmetry; exact E].
Qed.

Lemma to_integer_rev b big : to_integer (rev b) big = to_integer b (negb big).
Proof.
  destruct big; unfold to_integer, be_to_int, le_to_int, from_be; cbn [negb]; [rewrite rev_involutive|]; reflexivity.
Qed.

(* fixed width that fits *)
Lemma fixed_fits (big : bool) w v : v < 256 ^ N.of_nat w ->
  exists b, (if big then int_to_be_fixed else int_to_le_fixed) w v = Ok b /\
            to_integer b big = v /\ length b = w /\ bytes_ok b.
Proof.
  intros H. destruct (int_to_le_fixed_fits w v H) as [b Hb].
  destruct (int_to_le_fixed_ok _ _ _ Hb) as (B1 & B2 & B3).
  destruct big.
  - exists (rev b). unfold int_to_be_fixed. rewrite Hb. split; [reflexivity|].
    split; [rewrite to_integer_rev; exact B3|]. split; [rewrite rev_length; exact B2|apply bytes_ok_rev; exact B1].
  - exists b. auto.
Qed.

Theorem to_bytes_fixed n w big : w <> 0 -> n < 256 ^ w ->
  exists b, to_bytes (Z.of_N n) w big = Ok b /\ to_integer b big = n /\ length b = N.to_nat w /\ bytes_ok b.
Proof.
  intros Hw H. unfold to_bytes. destruct (N.eqb_spec w 0); [contradiction|].
  destruct (Z.ltb_spec (Z.of_N n) 0); [lia|]. rewrite N2Z.id.
  apply fixed_fits. rewrite Nnat.N2Nat.id. exact H.
Qed.

Theorem to_bytes_overflow n w big : w <> 0 -> 256 ^ w <= n -> to_bytes (Z.of_N n) w big = Err OverflowError.
Proof.
  intros Hw H. unfold to_bytes. destruct (N.eqb_spec w 0); [contradiction|].
  destruct (Z.ltb_spec (Z.of_N n) 0); [lia|]. rewrite N2Z.id.
  assert (E : int_to_le_fixed (N.to_nat w) n = Err OverflowError)
    by (apply fixed_overflow; rewrite Nnat.N2Nat.id; exact H).
  destruct big; [unfold int_to_be_fixed; rewrite E; reflexivity|exact E].
Qed.

Theorem to_bytes_negative v w big : (v < 0)%Z -> to_bytes v w big = Err OverflowError.
Proof. intros H. unfold to_bytes. destruct (Z.ltb_spec v 0); [reflexivity|lia]. Qed.

(* automatic (minimal) width: always succeeds, GetBytesNumber bytes, value preserved *)
Theorem to_bytes_auto n big :
  exists b, to_bytes (Z.of_N n) 0 big = Ok b /\ to_integer b big = n /\
            length b = N.to_nat (bytes_number (Z.of_N n)) /\ bytes_ok b.
Proof.
  destruct (bytes_number_spec n) as (W1 & W2 & _).
  unfold to_bytes. rewrite N.eqb_refl. destruct (Z.ltb_spec (Z.of_N n) 0); [lia|]. rewrite N2Z.id.
  apply fixed_fits. rewrite Nnat.N2Nat.id. exact W2.
Qed.

(* bytes -> integer -> bytes, same width (for a non-empty string: width 0 means "automatic") *)
Theorem to_bytes_to_integer b big : bytes_ok b -> b <> [] ->
  to_bytes (Z.of_N (to_integer b big)) (N.of_nat (length b)) big = Ok b.
Proof.
  intros Hb Hne. unfold to_bytes.
  destruct (N.eqb_spec (N.of_nat (length b)) 0) as [E|_]; [destruct b; [congruence|discriminate]|].
  destruct (Z.ltb_spec (Z.of_N (to_integer b big)) 0); [lia|]. rewrite N2Z.id, Nnat.Nat2N.id.
  destruct big; unfold to_integer; [apply be_fixed_roundtrip|apply le_fixed_roundtrip]; exact Hb.
Qed.

(* the empty string is the one exception: ToBytes(ToInteger(b""), 0) = b"\x00" *)
Example to_bytes_empty_refuted : to_bytes (Z.of_N (to_integer [] true)) 0 true = Ok [0].
Proof. reflexivity. Qed.

(* ================================================================== binary strings *)

Definition bin_char (c : N) : Prop := c = 48 \/ c = 49.

Lemma scan2_bin s : Forall bin_char s -> forall acc any,
  scan2 s acc any false =
  Some (acc * 2 ^ N.of_nat (length s) + from_be 2 (map (fun c => c - 48) s),
        match s with [] => any | _ => true end, []).
Proof.
  induction 1 as [|c t Hc Ht IH]; intros acc any.
  - cbn [scan2 length map]. change (from_be 2 []) with 0. change (N.of_nat 0) with 0.
    rewrite N.pow_0_r. do 3 f_equal. lia.
  - assert (B : (c =? 48) || (c =? 49) = true) by (destruct Hc as [->| ->]; reflexivity).
    cbn [scan2]. rewrite B, IH.
    assert (V : from_be 2 (map (fun c => c - 48) (c :: t)) =
                (c - 48) * 2 ^ N.of_nat (length t) + from_be 2 (map (fun c => c - 48) t)).
    { unfold from_be. cbn [map rev]. rewrite (from_le_app 2 ltac:(lia)), rev_length, map_length.
      cbn [from_le]. lia. }
    rewrite V. cbn [length]. rewrite Nnat.Nat2N.inj_succ, N.pow_succ_r'.
    destruct t; do 3 f_equal; lia.
Qed.

Lemma parse_int2_bin s : Forall bin_char s -> s <> [] ->
  parse_int2 s = Ok (Z.of_N (from_be 2 (map (fun c => c - 48) s))).
Proof.
  intros Hs Hne. destruct s as [|c t]; [congruence|].
  assert (Hc : bin_char c) by (inversion Hs; auto).
  assert (Ht : Forall bin_char t) by (inversion Hs; auto).
  unfold parse_int2.
  assert (E1 : lstrip_ws (c :: t) = c :: t) by (destruct Hc as [->| ->]; reflexivity).
  rewrite E1.
  assert (E2 : split_sign (c :: t) = (false, c :: t)) by (destruct Hc as [->| ->]; reflexivity).
  rewrite E2.
  assert (E3 : strip_prefix2 (c :: t) = c :: t).
  { destruct Hc as [->| ->]; [|reflexivity]. destruct t as [|c2 t2]; [reflexivity|].
    assert (H2 : bin_char c2) by (inversion Ht; auto). destruct H2 as [->| ->]; reflexivity. }
  rewrite E3.
  assert (E4 : starts_with_us (c :: t) = false) by (destruct Hc as [->| ->]; reflexivity).
  rewrite E4, (scan2_bin _ Hs). cbn [lstrip_ws]. rewrite N.mul_0_l, N.add_0_l. reflexivity.
Qed.

Lemma bin_digits_chars n : Forall bin_char (bin_digits n) /\ bin_digits n <> [] /\
  from_be 2 (map (fun c => c - 48) (bin_digits n)) = n.
Proof.
  unfold bin_digits. destruct (N.eqb_spec n 0) as [->|Hn].
  - split; [repeat constructor|]. split; [discriminate|reflexivity].
  - assert (D : digits_ok 2 (to_be 2 n)) by (apply digits_ok_rev, (to_le_digits 2); lia).
    split; [|split].
    + apply Forall_map. eapply Forall_impl; [|exact D]. cbv beta. intros d Hd. unfold bin_char. lia.
    + intros E. apply map_eq_nil in E. unfold to_be in E.
      apply (f_equal (@rev N)) in E. rewrite rev_involutive in E. simpl in E.
      apply (to_le_nonzero 2 ltac:(lia) n Hn). exact E.
    + rewrite map_map. rewrite (map_ext _ (fun d => d)) by (intros; lia). rewrite map_id.
      unfold from_be, to_be. rewrite rev_involutive. apply from_to_le. lia.
Qed.

Lemma zfill_bin w s : Forall bin_char s -> s <> [] ->
  Forall bin_char (zfill w s) /\ zfill w s <> [] /\
  from_be 2 (map (fun c => c - 48) (zfill w s)) = from_be 2 (map (fun c => c - 48) s).
Proof.
  intros Hs Hne. unfold zfill. split; [|split].
  - apply Forall_app. split; [|exact Hs]. apply Forall_forall. intros x Hx.
    apply repeat_spec in Hx. left; exact Hx.
  - destruct (repeat 48 (w - length s)); [exact Hne|discriminate].
  - rewrite map_app. unfold from_be. rewrite rev_app_distr.
    replace (rev (map (fun c => c - 48) (repeat 48 (w - length s)))) with (repeat 0 (w - length s)).
    + apply (from_le_pad 2). lia.
    + rewrite map_repeat_N, rev_repeat. reflexivity.
Qed.

(* IntegerUtils.FromBinaryStr (IntegerUtils.ToBinaryStr n pad) = n, for every n >= 0 and every pad *)
Theorem int_binstr_roundtrip n pad : int_from_binstr (int_to_binstr n pad) = Ok (Z.of_N n).
Proof.
  unfold int_from_binstr, int_to_binstr.
  destruct (bin_digits_chars n) as (A & B & C).
  destruct (zfill_bin pad _ A B) as (A' & B' & C').
  rewrite (parse_int2_bin _ A' B'), C', C. reflexivity.
Qed.

Lemma int_to_binstr_length n pad : (pad <= length (int_to_binstr n pad))%nat.
Proof. unfold int_to_binstr, zfill. rewrite app_length, repeat_length. lia. Qed.

(* ---- bytes <-> binary string, through hex as the code does ---- *)

Definition nibs (b : list N) : list N := flat_map (fun x => [x / 16; x mod 16]) b.
Definition nibs_le (b : list N) : list N := flat_map (fun x => [x mod 16; x / 16]) b.

Lemma hexlify_nibs b : hexlify b = map hexdig (nibs b).
Proof. induction b as [|x t IH]; [reflexivity|]. cbn [hexlify nibs flat_map app map]. f_equal. f_equal. exact IH. Qed.

Lemma rev_nibs b : rev (nibs b) = nibs_le (rev b).
Proof.
  induction b as [|x t IH]; [reflexivity|].
  change (nibs (x :: t)) with ([x / 16; x mod 16] ++ nibs t).
  rewrite rev_app_distr, IH. cbn [rev]. unfold nibs_le. rewrite flat_map_app. reflexivity.
Qed.

Lemma nibs_le_value l : bytes_ok l -> from_le 16 (nibs_le l) = from_le 256 l /\ digits_ok 16 (nibs_le l).
Proof.
  induction 1 as [|x t Hx Ht [IH1 IH2]]; [split; [reflexivity|constructor]|].
  destruct (nibbles x Hx) as (A & B & C).
  change (nibs_le (x :: t)) with (x mod 16 :: x / 16 :: nibs_le t). split.
  - cbn [from_le]. rewrite IH1. lia.
  - constructor; [exact B|]. constructor; [exact A|exact IH2].
Qed.

Lemma nibs_length b : length (nibs b) = (2 * length b)%nat.
Proof. induction b; simpl; [reflexivity|]. fold (nibs b). lia. Qed.

Definition hex_ds (v : N) : list N := if v =? 0 then [0] else to_be 16 v.

Lemma hex_digits_ds v : hex_digits v = map hexdig (hex_ds v).
Proof. unfold hex_digits, hex_ds. destruct (v =? 0); reflexivity. Qed.

Lemma hex_ds_spec v : from_be 16 (hex_ds v) = v /\ digits_ok 16 (hex_ds v) /\
  (forall w, (1 <= w)%nat -> v < 16 ^ N.of_nat w -> (length (hex_ds v) <= w)%nat).
Proof.
  unfold hex_ds. destruct (N.eqb_spec v 0) as [->|Hv].
  - split; [reflexivity|]. split; [repeat constructor|]. intros; simpl; lia.
  - split; [|split].
    + unfold from_be, to_be. rewrite rev_involutive. apply from_to_le. lia.
    + apply digits_ok_rev, (to_le_digits 16). lia.
    + intros w _ H. unfold to_be. rewrite rev_length. apply (to_le_length_le 16); [lia|exact H].
Qed.

Lemma zfill_hex w X : zfill w (map hexdig X) = map hexdig (repeat 0 (w - length X) ++ X).
Proof. unfold zfill. rewrite map_app, map_length, map_repeat_N. reflexivity. Qed.

Lemma pow16 k : 256 ^ N.of_nat k = 16 ^ N.of_nat (2 * k).
Proof.
  change 256 with (16 ^ 2). rewrite <- N.pow_mul_r. f_equal. lia.
Qed.

(* the hex text of a non-empty byte string is the zero-filled hex numeral of its big-endian value *)
Theorem hexlify_is_hex_numeral b : bytes_ok b -> b <> [] ->
  hexlify b = zfill (2 * length b) (hex_digits (be_to_int b)).
Proof.
  intros Hb Hne. rewrite hexlify_nibs, hex_digits_ds, zfill_hex. f_equal.
  set (v := be_to_int b). set (w := (2 * length b)%nat).
  destruct (hex_ds_spec v) as (V1 & V2 & V3).
  assert (Lw : (length (hex_ds v) <= w)%nat).
  { apply V3; [destruct b; [congruence|simpl in *; lia]|].
    unfold w. rewrite <- pow16. unfold v. unfold be_to_int, from_be. rewrite <- (rev_length b).
    apply (from_le_lt 256 r256). apply bytes_ok_rev; exact Hb. }
  rewrite <- (rev_involutive (nibs b)), <- (rev_involutive (repeat 0 _ ++ hex_ds v)). f_equal.
  destruct (nibs_le_value (rev b) (bytes_ok_rev _ Hb)) as [N1 N2].
  apply (from_le_inj_len 16 ltac:(lia)).
  - rewrite rev_nibs. exact N2.
  - apply digits_ok_rev. apply digits_ok_app. split; [apply digits_ok_zeros; lia|exact V2].
  - rewrite !rev_length, nibs_length, app_length, repeat_length. unfold w in *. lia.
  - rewrite rev_nibs, N1. rewrite rev_app_distr, rev_repeat, (from_le_pad 16 ltac:(lia)).
    fold (from_be 16 (hex_ds v)). rewrite V1. reflexivity.
Qed.

(* BytesUtils.FromBinaryStr(BytesUtils.ToBinaryStr(b, p), 2*len(b)) = b for every non-empty b and every p
   (the second argument of FromBinaryStr counts hex digits although it is named zero_pad_byte_len) *)
Theorem bytes_binstr_roundtrip b p : bytes_ok b -> b <> [] ->
  bytes_from_binstr (bytes_to_binstr b p) (2 * length b) = Ok b.
Proof.
  intros Hb Hne. unfold bytes_from_binstr, bytes_to_binstr.
  pose proof (int_binstr_roundtrip (be_to_int b) p) as R. unfold int_from_binstr in R. rewrite R.
  cbn [bind Ok]. destruct (Z.ltb_spec (Z.of_N (be_to_int b)) 0); [lia|]. rewrite N2Z.id.
  rewrite <- (hexlify_is_hex_numeral b Hb Hne). apply unhexlify_hexlify. exact Hb.
Qed.

(* without a sufficient pad the library's FromBinaryStr fails on values with an odd number of hex digits *)
Example bytes_from_binstr_odd_refuted : bytes_from_binstr (bytes_to_binstr [1] 8) 0 = Err ValueError.
Proof. vm_compute. reflexivity. Qed.

(* the binary-string parsers fail only with ValueError *)
Theorem int_from_binstr_err s e : int_from_binstr s = Err e -> e = ValueError.
Proof.
  unfold int_from_binstr, parse_int2. destruct (split_sign _) as [neg s2].
  destruct (starts_with_us _); [unfold Err; congruence|].
  destruct (scan2 _ _ _ _) as [[[v any] rest]|]; [|unfold Err; congruence].
  destruct any; [|unfold Err; congruence]. destruct (lstrip_ws rest); [discriminate|unfold Err; congruence].
Qed.

Theorem bytes_from_binstr_err s pad e : bytes_from_binstr s pad = Err e -> e = ValueError.
Proof.
  unfold bytes_from_binstr. destruct (parse_int2 s) as [v|e1] eqn:P; cbn [bind].
  - destruct (v <? 0)%Z; [unfold Err; congruence|]. apply unhexlify_err.
  - intros E. assert (e1 = e) by (unfold Err in E; congruence). subst. eapply int_from_binstr_err. exact P.
Qed.

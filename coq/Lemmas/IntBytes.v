(* Proofs about Model/IntBytes.v: integer <-> bytes, binary strings, hex. *)
From Coq Require Import NArith ZArith Arith List Lia Bool.
From BU Require Import Base.Exn Base.Radix Base.Bytes Model.IntBytes.
Import ListNotations.
Open Scope N_scope.

(* ================================================================== hex *)

Lemma hexval_hexdig d : d < 16 -> hexval (hexdig d) = Ok d.
Proof.
  intros H. unfold hexval, hexdig. destruct (N.ltb_spec d 10).
  - destruct (N.leb_spec 48 (48 + d)); [|exfalso; lia]. destruct (N.leb_spec (48 + d) 57); [|exfalso; lia].
    cbn [andb]. unfold Ok. f_equal. lia.
  - destruct (N.leb_spec 48 (87 + d)); [|exfalso; lia]. destruct (N.leb_spec (87 + d) 57); [exfalso; lia|].
    destruct (N.leb_spec 97 (87 + d)); [|exfalso; lia]. destruct (N.leb_spec (87 + d) 102); [|exfalso; lia].
    cbn [andb]. unfold Ok. f_equal. lia.
Qed.

Lemma nibbles x : x < 256 -> x / 16 < 16 /\ x mod 16 < 16 /\ 16 * (x / 16) + x mod 16 = x.
Proof.
  intros H. split; [apply N.div_lt_upper_bound; lia|]. split; [apply N.mod_lt; lia|].
  symmetry. apply N.div_mod. lia.
Qed.

Theorem unhexlify_hexlify b : bytes_ok b -> unhexlify (hexlify b) = Ok b.
Proof.
  unfold unhexlify. induction 1 as [|x t Hx Ht IH]; [reflexivity|].
  destruct (nibbles x Hx) as (A & B & C).
  cbn [hexlify flat_map app unhex_pairs]. rewrite (hexval_hexdig _ A), (hexval_hexdig _ B).
  cbn [bind Ok]. fold (hexlify t). rewrite IH. cbn [bind Ok]. rewrite C. reflexivity.
Qed.

(* what unhexlify accepts, and canonicity: accepted text is the hex of the result up to case *)
Definition hex_lower (c : N) : N := if (65 <=? c) && (c <=? 70) then c + 32 else c.
Definition is_hex (c : N) : bool :=
  ((48 <=? c) && (c <=? 57)) || ((97 <=? c) && (c <=? 102)) || ((65 <=? c) && (c <=? 70)).

Lemma hexval_spec c x : hexval c = Ok x -> x < 16 /\ hexdig x = hex_lower c /\ is_hex c = true.
Proof.
  unfold hexval. intros E.
  destruct ((48 <=? c) && (c <=? 57)) eqn:R1; [|destruct ((97 <=? c) && (c <=? 102)) eqn:R2;
    [|destruct ((65 <=? c) && (c <=? 70)) eqn:R3; [|discriminate]]];
  inversion E; subst x; clear E; unfold is_hex; rewrite ?R1, ?R2, ?R3;
  (split; [|split; [|rewrite ?orb_true_r; reflexivity]]);
  match goal with R : (_ && _) = true |- _ =>
    apply andb_true_iff in R; destruct R as [A B]; apply N.leb_le in A, B end;
  try lia; unfold hexdig, hex_lower.
  - destruct (N.ltb_spec (c - 48) 10); [|exfalso; lia].
    destruct (N.leb_spec 65 c); [exfalso; lia|]. cbn [andb]. lia.
  - destruct (N.ltb_spec (c - 87) 10); [exfalso; lia|].
    destruct (N.leb_spec c 70); [exfalso; lia|]. rewrite andb_false_r. lia.
  - destruct (N.ltb_spec (c - 55) 10); [exfalso; lia|].
    destruct (N.leb_spec 65 c); [|exfalso; lia]. destruct (N.leb_spec c 70); [|exfalso; lia].
    cbn [andb]. lia.
Qed.

Lemma hexval_err c e : hexval c = Err e -> e = ValueError /\ is_hex c = false.
Proof.
  unfold hexval, is_hex.
  destruct ((48 <=? c) && (c <=? 57)); [discriminate|].
  destruct ((97 <=? c) && (c <=? 102)); [discriminate|].
  destruct ((65 <=? c) && (c <=? 70)); [discriminate|].
  intros E; inversion E; auto.
Qed.

Lemma unhex_pairs_ind (P : list N -> Prop) :
  P [] -> (forall a, P [a]) -> (forall a b t, P t -> P (a :: b :: t)) -> forall s, P s.
Proof.
  intros H0 H1 H2. fix IH 1. intros [|a [|b t]]; [exact H0|apply H1|apply H2, IH].
Qed.

Theorem unhexlify_ok_spec s b : unhexlify s = Ok b ->
  bytes_ok b /\ hexlify b = map hex_lower s /\ length s = (2 * length b)%nat.
Proof.
  unfold unhexlify. revert b. induction s as [| a | a c t IH] using unhex_pairs_ind; intros b E.
  - inversion E; subst. repeat split; constructor.
  - discriminate.
  - cbn [unhex_pairs] in E.
    destruct (hexval a) as [x|] eqn:Ha; cbn [bind] in E; [|discriminate].
    destruct (hexval c) as [y|] eqn:Hc; cbn [bind] in E; [|discriminate].
    destruct (unhex_pairs t) as [r|] eqn:Hr; cbn [bind] in E; [|discriminate].
    assert (Eb : b = 16 * x + y :: r) by (unfold Ok in E; congruence). subst b. clear E.
    destruct (hexval_spec _ _ Ha) as (X1 & X2 & _). destruct (hexval_spec _ _ Hc) as (Y1 & Y2 & _).
    destruct (IH r eq_refl) as (I1 & I2 & I3).
    assert (D : (16 * x + y) / 16 = x /\ (16 * x + y) mod 16 = y).
    { split; [symmetry; apply (N.div_unique _ 16 x y); lia|symmetry; apply (N.mod_unique _ 16 x y); lia]. }
    destruct D as [D1 D2]. split; [|split].
    + apply Forall_cons; [change (16 * x + y < 256); lia|exact I1].
    + cbn [hexlify flat_map app map]. rewrite D1, D2, X2, Y2. fold (hexlify r). rewrite I2. reflexivity.
    + simpl. lia.
Qed.

Theorem unhexlify_ok_iff s : (exists b, unhexlify s = Ok b) <-> (Nat.even (length s) = true /\ forallb is_hex s = true).
Proof.
  unfold unhexlify. induction s as [| a | a c t IH] using unhex_pairs_ind.
  - split; [intros _; auto|intros _; exists []; reflexivity].
  - split; [intros [b E]; discriminate|intros [E _]; discriminate].
  - cbn [unhex_pairs length forallb]. change (Nat.even (S (S (length t)))) with (Nat.even (length t)).
    split.
    + intros [b E].
      destruct (hexval a) as [x|] eqn:Ha; cbn [bind] in E; [|discriminate].
      destruct (hexval c) as [y|] eqn:Hc; cbn [bind] in E; [|discriminate].
      destruct (unhex_pairs t) as [r|] eqn:Hr; cbn [bind] in E; [|discriminate].
      destruct (hexval_spec _ _ Ha) as (_ & _ & A). destruct (hexval_spec _ _ Hc) as (_ & _ & C).
      destruct IH as [IH _]. destruct (IH (ex_intro _ r eq_refl)) as [I1 I2].
      rewrite A, C, I2. auto.
    + intros [E F]. apply andb_true_iff in F. destruct F as [Fa F]. apply andb_true_iff in F. destruct F as [Fc Ft].
      destruct IH as [_ IH]. destruct (IH (conj E Ft)) as [r Hr]. rewrite Hr.
      destruct (hexval a) as [x|e] eqn:Ha; [|apply hexval_err in Ha; destruct Ha; congruence].
      destruct (hexval c) as [y|e] eqn:Hc; [|apply hexval_err in Hc; destruct Hc; congruence].
      cbn [bind Ok]. eauto.
Qed.

Theorem unhexlify_err s e : unhexlify s = Err e -> e = ValueError.
Proof.
  unfold unhexlify. induction s as [| a | a c t IH] using unhex_pairs_ind; intros E.
  - discriminate.
  - inversion E; auto.
  - cbn [unhex_pairs] in E.
    destruct (hexval a) as [x|e1] eqn:Ha; cbn [bind] in E; [|apply hexval_err in Ha; destruct Ha; unfold Err in E; congruence].
    destruct (hexval c) as [y|e2] eqn:Hc; cbn [bind] in E; [|apply hexval_err in Hc; destruct Hc; unfold Err in E; congruence].
    destruct (unhex_pairs t) as [r|e3] eqn:Hr; cbn [bind] in E; [discriminate|].
    unfold Err in E. injection E as E. subst. auto.
Qed.

Lemma hexlify_length b : length (hexlify b) = (2 * length b)%nat.
Proof. induction b; simpl; [reflexivity|]. fold (hexlify b). lia. Qed.

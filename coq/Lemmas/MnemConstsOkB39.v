(* Facts about the BIP-39 word lists (own copy, Gen/WlMnem_B39_*.v) used by Algorand and Electrum v2. *)
From Coq Require Import NArith Arith List Lia Bool.
From BU Require Import Base.Exn Base.Bytes Model.MnemWords Lemmas.MnemWords.
From BU Require Import Gen.MnemConsts Gen.MnemLangs.
Import ListNotations.
Open Scope N_scope.

Definition wl_okb0 (n : N) (wl : list (list N)) : bool := wnodupb wl && (wl_len wl =? n).

Lemma wl_okb0_sound n wl : wl_okb0 n wl = true -> NoDup wl /\ wl_len wl = n.
Proof.
  unfold wl_okb0. rewrite andb_true_iff, N.eqb_eq. intros [A B].
  split; [apply wnodupb_sound; assumption|assumption].
Qed.

Lemma b39_langs_okb : forallb (wl_okb0 b39_words_num) b39_langs = true.
Proof. vm_compute. reflexivity. Qed.

Lemma b39_langs_ok wl : In wl b39_langs -> NoDup wl /\ wl_len wl = b39_words_num.
Proof.
  intros H. apply wl_okb0_sound. pose proof b39_langs_okb as Q. rewrite forallb_forall in Q. auto.
Qed.

Lemma b39_words_num_eq : b39_words_num = 2048.
Proof. reflexivity. Qed.

Lemma algo_wl_in : In algo_wl b39_langs.
Proof. unfold algo_wl, b39_langs. simpl. tauto. Qed.

Lemma algo_wl_ok : NoDup algo_wl /\ wl_len algo_wl = 2048.
Proof. apply (b39_langs_ok _ algo_wl_in). Qed.

Lemma algo_nums_eq : algo_word_nums = [25]. Proof. reflexivity. Qed.
Lemma algo_cklen_eq : algo_cklen = 2%nat. Proof. reflexivity. Qed.
Lemma algo_ent_eq : algo_entropy_bit_lens = [256]. Proof. reflexivity. Qed.
Lemma algo_bits_eq : algo_word_bits = 11. Proof. reflexivity. Qed.

(* Proofs about Model/Cbor.v. *)
From Coq Require Import NArith ZArith Arith List Lia Bool.
From BU Require Import Base.Exn Base.Radix Base.Bytes Model.Cbor Lemmas.CodecsAux.
From BU Require Lemmas.Base58Xmr.
Import ListNotations.
Open Scope N_scope.

(* big-endian fixed width, when the value fits *)
Lemma be_fixed_spec w n : n < 256 ^ N.of_nat w ->
  length (be_fixed_or_nil w n) = w /\ be_to_int (be_fixed_or_nil w n) = n /\ bytes_ok (be_fixed_or_nil w n).
Proof.
  intros H. unfold be_fixed_or_nil, int_to_be_fixed.
  destruct (int_to_le_fixed_fits w n H) as [b Hb]. rewrite Hb. cbn [rmap Ok].
  destruct (int_to_le_fixed_ok _ _ _ Hb) as (B1 & B2 & B3).
  rewrite rev_length. split; [exact B2|]. split; [|apply bytes_ok_rev; exact B1].
  unfold be_to_int, from_be. rewrite rev_involutive. exact B3.
Qed.

Definition u64 (n : N) : Prop := n < 2 ^ 64.

Lemma dumps_uint n : u64 n -> cbor_dumps_int (Z.of_N n) = cbor_head 0 n.
Proof.
  intros H. unfold cbor_dumps_int. destruct (Z.ltb_spec (Z.of_N n) 0); [lia|]. rewrite N2Z.id.
  destruct (N.ltb_spec n (2 ^ 64)); [reflexivity|unfold u64 in H; lia].
Qed.

(* one element: its head starts with a byte <= 27, and cbor2.loads of exactly that many bytes gives it back *)
Lemma head_loads n (rest : list N) : u64 n ->
  exists fb tl, cbor_head 0 n = fb :: tl /\ fb <= 27 /\
    (fb < 24 -> tl = []) /\ (fb = 24 -> length tl = 1%nat) /\ (fb = 25 -> length tl = 2%nat) /\
    (fb = 26 -> length tl = 4%nat) /\ (fb = 27 -> length tl = 8%nat) /\
    forall extra, cbor_loads (fb :: tl ++ extra) = Ok (CInt (Z.of_N n)).
Proof.
  intros H. unfold cbor_head. change (32 * 0) with 0. rewrite !N.add_0_l.
  destruct (N.ltb_spec n 24) as [H0|H0].
  - exists n, []. repeat split; try lia; try reflexivity.
    intros extra. cbn [app cbor_loads]. rewrite (N.div_small n 32), (N.mod_small n 32) by lia.
    destruct (N.ltb_spec n 24); [|lia]. reflexivity.
  - assert (G : forall w info, (w = 1 /\ info = 24 \/ w = 2 /\ info = 25 \/ w = 4 /\ info = 26 \/ w = 8 /\ info = 27)%nat ->
              n < 256 ^ N.of_nat w ->
              length (be_fixed_or_nil w n) = w /\
              forall extra, cbor_loads (N.of_nat info :: be_fixed_or_nil w n ++ extra) = Ok (CInt (Z.of_N n))).
    { intros w info Hw Hn. destruct (be_fixed_spec w n Hn) as (L & V & _). split; [exact L|].
      intros extra. cbn [cbor_loads].
      assert (E : N.of_nat info / 32 = 0 /\ N.of_nat info mod 32 = N.of_nat info /\
                  N.to_nat (2 ^ (N.of_nat info - 24)) = w).
      { destruct Hw as [[-> ->]|[[-> ->]|[[-> ->]|[-> ->]]]]; repeat split; reflexivity. }
      destruct E as (E1 & E2 & E3). rewrite E1, E2, E3.
      destruct (N.ltb_spec (N.of_nat info) 24); [lia|]. destruct (N.ltb_spec (N.of_nat info) 28); [|lia].
      rewrite app_length, L. destruct (Nat.ltb_spec (w + length extra) w); [lia|].
      rewrite (Lemmas.Base58Xmr.firstn_app_exact _ _ _ L), V. reflexivity. }
    destruct (N.ltb_spec n (2 ^ 8)) as [H1|H1].
    { destruct (G 1%nat 24%nat ltac:(auto) H1) as [L R].
      exists 24, (be_fixed_or_nil 1 n). repeat split; try lia; try exact L. exact R. }
    destruct (N.ltb_spec n (2 ^ 16)) as [H2|H2].
    { destruct (G 2%nat 25%nat ltac:(auto) H2) as [L R].
      exists 25, (be_fixed_or_nil 2 n). repeat split; try lia; try exact L. exact R. }
    destruct (N.ltb_spec n (2 ^ 32)) as [H3|H3].
    { destruct (G 4%nat 26%nat ltac:(auto) H3) as [L R].
      exists 26, (be_fixed_or_nil 4 n). repeat split; try lia; try exact L. exact R. }
    destruct (G 8%nat 27%nat ltac:(auto 6) H) as [L R].
    exists 27, (be_fixed_or_nil 8 n). repeat split; try lia; try exact L. exact R.
Qed.

Lemma cbor_loads_err b e : cbor_loads b = Err e -> e = ValueError.
Proof.
  destruct b as [|fb r]; cbn [cbor_loads]; [unfold Err; congruence|].
  repeat match goal with
         | |- (if ?c then _ else _) = _ -> _ => destruct c
         end; unfold Err, Ok; congruence.
Qed.

Section CborProofs.
  Variables arr_start arr_end : N.
  Variable ids_to_len : list (N * nat).

  (* facts about the generated constants (proved by computation in Lemmas/CborOk.v) *)
  Hypothesis end_gt : 27 < arr_end.
  Hypothesis tab_small : forall k, k < 24 -> lookup_len k ids_to_len = 1%nat.
  Hypothesis tab_24 : lookup_len 24 ids_to_len = 2%nat.
  Hypothesis tab_25 : lookup_len 25 ids_to_len = 3%nat.
  Hypothesis tab_26 : lookup_len 26 ids_to_len = 5%nat.
  Hypothesis tab_27 : lookup_len 27 ids_to_len = 9%nat.
  Hypothesis tab_pos : forall k, (1 <= lookup_len k ids_to_len)%nat.

  Notation encode := (Cbor.encode arr_start arr_end).
  Notation decode := (Cbor.decode arr_start arr_end ids_to_len).
  Notation dec_loop := (Cbor.dec_loop arr_end ids_to_len).

  Definition body (l : list N) : list N := concat (map (cbor_head 0) l).

  Lemma encode_uints l : Forall u64 l -> encode (map Z.of_N l) = [arr_start] ++ body l ++ [arr_end].
  Proof.
    intros H. unfold Cbor.encode, body. do 3 f_equal. rewrite map_map. apply map_ext_in.
    intros n Hn. apply dumps_uint. rewrite Forall_forall in H. auto.
  Qed.

  Lemma dec_loop_body l : Forall u64 l -> forall fuel acc junk, (length (body l) < fuel)%nat ->
    dec_loop fuel (body l ++ arr_end :: junk) acc = Ok (rev acc ++ map (fun n => CInt (Z.of_N n)) l).
  Proof.
    induction 1 as [|n l Hn Hl IH]; intros fuel acc junk Hf.
    - destruct fuel; [simpl in Hf; lia|]. cbn [body map concat app Cbor.dec_loop].
      rewrite N.eqb_refl, app_nil_r. reflexivity.
    - destruct fuel as [|f]; [lia|].
      destruct (head_loads n [] Hn) as (fb & tl & Eh & Hfb & T0 & T1 & T2 & T3 & T4 & Ld).
      assert (Eb : body (n :: l) = fb :: tl ++ body l).
      { unfold body. cbn [map concat]. rewrite Eh. reflexivity. }
      rewrite Eb in *. cbn [app Cbor.dec_loop].
      destruct (N.eqb_spec fb arr_end); [lia|].
      assert (Ll : lookup_len fb ids_to_len = S (length tl)).
      { destruct (N.lt_ge_cases fb 24) as [A|A]; [rewrite (tab_small fb A), (T0 A); reflexivity|].
        assert (C : fb = 24 \/ fb = 25 \/ fb = 26 \/ fb = 27) by lia.
        destruct C as [->|[->|[->| ->]]];
          [rewrite tab_24, T1|rewrite tab_25, T2|rewrite tab_26, T3|rewrite tab_27, T4]; reflexivity. }
      rewrite Ll. cbn [firstn skipn].
      rewrite <- app_assoc, (Lemmas.Base58Xmr.firstn_app_exact _ _ _ eq_refl),
        (Lemmas.Base58Xmr.skipn_app_exact _ _ _ eq_refl).
      specialize (Ld []). rewrite app_nil_r in Ld. rewrite Ld. cbn [bind Ok].
      rewrite IH by (cbn [length] in Hf; rewrite app_length in Hf; lia).
      cbn [rev map]. rewrite <- app_assoc. reflexivity.
  Qed.

  (* CborIndefiniteLenArrayDecoder.Decode (Encoder.Encode l) = l for every list of uint64 *)
  Theorem decode_encode l : Forall u64 l ->
    decode (encode (map Z.of_N l)) = Ok (map (fun n => CInt (Z.of_N n)) l).
  Proof.
    intros H. rewrite (encode_uints l H).
    unfold Cbor.decode. cbn [app]. cbn [length nth skipn]. rewrite app_length. cbn [length].
    destruct (Nat.ltb_spec (S (length (body l) + 1)) 2); [lia|].
    rewrite N.eqb_refl. cbn [negb].
    assert (La : last (arr_start :: body l ++ [arr_end]) 0 = arr_end).
    { change (arr_start :: body l ++ [arr_end]) with ((arr_start :: body l) ++ [arr_end]). apply last_last. }
    rewrite La, N.eqb_refl. cbn [negb].
    rewrite (dec_loop_body l H _ [] []) by lia. reflexivity.
  Qed.

  (* the loop always ends within its fuel: no OutOfFuel outcome *)
  Lemma dec_loop_fuel fuel : forall rest acc, (length rest < fuel)%nat -> dec_loop fuel rest acc <> Err OutOfFuel.
  Proof.
    induction fuel as [|f IH]; intros rest acc Hf; [lia|]. cbn [Cbor.dec_loop].
    destruct rest as [|curr r]; [discriminate|].
    destruct (curr =? arr_end); [discriminate|].
    destruct (cbor_loads _) as [it|e] eqn:L; cbn [bind].
    - apply IH. pose proof (tab_pos curr). rewrite skipn_length. cbn [length] in *. lia.
    - apply cbor_loads_err in L. subst. discriminate.
  Qed.

  Lemma dec_loop_err fuel : forall rest acc e, dec_loop fuel rest acc = Err e -> e = ValueError \/ e = OutOfFuel.
  Proof.
    induction fuel as [|f IH]; intros rest acc e; cbn [Cbor.dec_loop]; [unfold Err; right; congruence|].
    destruct rest as [|curr r]; [unfold Err; left; congruence|].
    destruct (curr =? arr_end); [discriminate|].
    destruct (cbor_loads _) as [it|e1] eqn:L; cbn [bind].
    - apply IH.
    - intros E. apply cbor_loads_err in L. subst. unfold Err in E. left; congruence.
  Qed.

  Theorem decode_err enc e : decode enc = Err e -> e = ValueError.
  Proof.
    unfold Cbor.decode. destruct (Nat.ltb_spec (length enc) 2); [unfold Err; congruence|].
    destruct (negb _); [unfold Err; congruence|]. destruct (negb _); [unfold Err; congruence|].
    intros E. destruct (dec_loop_err _ _ _ _ E) as [->| ->]; [reflexivity|].
    exfalso. eapply dec_loop_fuel; [|exact E]. rewrite skipn_length. lia.
  Qed.
End CborProofs.

(* Proofs about Model/ElectrumWallet.v (C20). *)
From Coq Require Import NArith ZArith Arith List Lia Bool.
From BU Require Import Base.Exn Base.Radix Base.Bytes Gen.SerbipConsts Model.Bip32Data Model.WifCodec Model.Bip38 Model.ElectrumWallet.
From BU Require Import Lemmas.Base58 Lemmas.SerbipAux Lemmas.SerbipConstsOk Lemmas.Bip32Ser Lemmas.WifCodec.
Import ListNotations.
Open Scope N_scope.

(* ---------------------------------------------------------------- decimal rendering *)
Lemma r10 : 2 <= 10. Proof. lia. Qed.

Definition is_digit (c : N) : Prop := 48 <= c <= 57.
Definition digit_val (c : N) : N := c - 48.

Lemma to_be10_digits n : Forall (fun d => d < 10) (to_be 10 n).
Proof. apply (digits_ok_rev 10), (to_le_digits 10 r10). Qed.

Theorem dec_str_digits n : Forall is_digit (dec_str n).
Proof.
  unfold dec_str. destruct (n =? 0); [repeat constructor; unfold is_digit; lia|].
  pose proof (to_be10_digits n) as H. induction H as [|d t Hd Ht IH]; [constructor|].
  cbn [map]. constructor; [unfold is_digit; lia|exact IH].
Qed.

Lemma map_digit_val l : Forall (fun d => d < 10) l -> map digit_val (map (fun d => 48 + d) l) = l.
Proof.
  induction 1 as [|d t Hd Ht IH]; [reflexivity|]. cbn [map]. rewrite IH. f_equal. unfold digit_val. lia.
Qed.

(* the rendered digits read back as the number: str() is injective *)
Theorem dec_str_value n : from_be 10 (map digit_val (dec_str n)) = n.
Proof.
  unfold dec_str. destruct (N.eqb_spec n 0) as [->|Hn]; [reflexivity|].
  rewrite map_digit_val by apply to_be10_digits. unfold from_be, to_be. rewrite rev_involutive.
  apply (from_to_le 10 r10).
Qed.

Theorem dec_str_inj a b : dec_str a = dec_str b -> a = b.
Proof. intros H. rewrite <- (dec_str_value a), <- (dec_str_value b), H. reflexivity. Qed.

Theorem dec_str_nonempty n : dec_str n <> [].
Proof.
  unfold dec_str. destruct (N.eqb_spec n 0) as [->|Hn]; [discriminate|].
  intro E. apply map_eq_nil in E. unfold to_be in E.
  assert (to_le 10 n = []) by (rewrite <- (rev_involutive (to_le 10 n)), E; reflexivity).
  apply (to_le_nonzero 10 r10 n Hn). assumption.
Qed.

(* canonical: no leading zero except for 0 itself *)
Theorem dec_str_no_leading_zero n c t : n <> 0 -> dec_str n = c :: t -> c <> 48.
Proof.
  intros Hn E. unfold dec_str in E. destruct (N.eqb_spec n 0); [contradiction|].
  destruct (to_be 10 n) as [|d ds] eqn:T; [discriminate|].
  change (map (fun d : N => 48 + d) (d :: ds)) with ((48 + d) :: map (fun d : N => 48 + d) ds) in E.
  assert (E1 : 48 + d = c) by (apply (f_equal (fun l => hd 0 l)) in E; exact E).
  pose proof (Lemmas.Base58.to_be_hd 10 r10 n d ds T) as Hd. lia.
Qed.

Lemma dec_str_no_sep n : ~ In 58 (dec_str n).
Proof.
  intro I. pose proof (dec_str_digits n) as D. rewrite Forall_forall in D. specialize (D _ I). unfold is_digit in D. lia.
Qed.

(* splitting at the first separator is unambiguous *)
Lemma split_at_sep (s : N) a : forall a' r r', ~ In s a -> ~ In s a' -> a ++ s :: r = a' ++ s :: r' -> a = a' /\ r = r'.
Proof.
  induction a as [|x a IH]; intros [|y a'] r r' Ha Ha' E; cbn [app] in E.
  - inversion E; auto.
  - inversion E; subst. exfalso. apply Ha'. left; reflexivity.
  - inversion E; subst. exfalso. apply Ha. left; reflexivity.
  - inversion E; subst. destruct (IH a' r r') as [-> ->]; auto.
    + intro I; apply Ha; right; exact I.
    + intro I; apply Ha'; right; exact I.
Qed.

(* the hashed text "index:change:" || pub determines the pair of indices *)
Theorem seq_preimage_inj i c t i' c' t' :
  dec_str i ++ [58] ++ dec_str c ++ [58] ++ t = dec_str i' ++ [58] ++ dec_str c' ++ [58] ++ t' ->
  i = i' /\ c = c' /\ t = t'.
Proof.
  intros E. cbn [app] in E.
  apply split_at_sep in E; try apply dec_str_no_sep. destruct E as [E1 E].
  apply split_at_sep in E; try apply dec_str_no_sep. destruct E as [E2 E].
  split; [apply dec_str_inj; exact E1|]. split; [apply dec_str_inj; exact E2|exact E].
Qed.

(* ---------------------------------------------------------------- Electrum v1 *)

Section V1.
  Set Default Proof Using "Type".
  Variable sha256 : list N -> list N.
  Variable G : Type.
  Variable base : G.
  Variable smul : N -> G -> G.
  Variable add : G -> G -> G.
  Variable is_inf : G -> bool.
  Variable ser_u : G -> list N.
  Variable deser : list N -> option G.
  Variable p2pkh_u : G -> list N.

  Notation get_priv := (v1_get_private_key sha256 G base smul ser_u).
  Notation get_pub := (v1_get_public_key sha256 G base smul add is_inf ser_u).
  Notation get_addr := (v1_get_address sha256 G base smul add is_inf ser_u p2pkh_u).

  (* sha256d("index:change:" || master_pub_uncompressed[1:]) as an integer *)
  Definition std_seq (mpub : G) (change index : N) : N :=
    be_to_int (sha256 (sha256 (dec_str index ++ [58] ++ dec_str change ++ [58] ++ skipn 1 (ser_u mpub)))).

  Lemma v1_sequence_std mpub c i : be_to_int (v1_sequence sha256 G ser_u mpub c i) = std_seq mpub c i.
  Proof. reflexivity. Qed.

  Lemma v1_indexes_ok c i : c <= bip32_index_max -> i <= bip32_index_max ->
    v1_indexes (Z.of_N c) (Z.of_N i) = Ok (c, i).
  Proof. intros Hc Hi. unfold v1_indexes. rewrite !mk_index_N by assumption. reflexivity. Qed.


  (* electrum_v1_child: the child key is (master + sequence) mod n as 32 big-endian bytes; refused iff that is 0 *)
  Theorem electrum_v1_child k c i : secp_priv_valid k = true -> c <= bip32_index_max -> i <= bip32_index_max ->
    let v := (be_to_int k + std_seq (smul (be_to_int k) base) c i) mod secp256k1_order in
    (v = 0 -> get_priv (V1Priv G k) (Z.of_N c) (Z.of_N i) = Err ValueError) /\
    (v <> 0 -> exists kb, get_priv (V1Priv G k) (Z.of_N c) (Z.of_N i) = Ok kb /\ length kb = 32%nat /\
                          be_to_int kb = v /\ secp_priv_valid kb = true).
  Proof.
    intros V Hc Hi v.
    assert (Hv : v < secp256k1_order) by (apply N.mod_lt; pose proof c_order_pos; lia).
    destruct (fixed32 v Hv) as (b & E & L & B & I).
    unfold v1_get_private_key. rewrite v1_indexes_ok by assumption. cbn [bind Ok fst snd v1_master_pub].
    rewrite v1_sequence_std, c_ecdsa_priv_len. fold v. rewrite E. cbn [bind Ok].
    split; intros H.
    - assert (X : secp_priv_valid b = false).
      { unfold secp_priv_valid. rewrite I, H. cbn. rewrite andb_false_r. reflexivity. }
      rewrite X. reflexivity.
    - assert (X : secp_priv_valid b = true).
      { apply secp_priv_valid_spec. rewrite I. repeat split; auto. lia. }
      rewrite X. exists b. auto.
  Qed.

  Theorem electrum_v1_index_range w c i : (c < 0 \/ 4294967295 < c \/ i < 0 \/ 4294967295 < i)%Z ->
    get_pub w c i = Err ValueError.
  Proof.
    intros H.
    assert (X : v1_indexes c i = Err ValueError).
    { unfold v1_indexes, mk_index. rewrite c_index_max.
      destruct (Z.ltb_spec c 0); [reflexivity|]. destruct (Z.ltb_spec (Z.of_N 4294967295) c); [reflexivity|].
      cbn [orb bind Ok]. destruct (Z.ltb_spec i 0); [reflexivity|].
      destruct (Z.ltb_spec (Z.of_N 4294967295) i); [reflexivity|]. lia. }
    destruct w; unfold v1_get_public_key, v1_get_private_key; rewrite X; reflexivity.
  Qed.

  (* group laws needed for the private/public agreement *)
  Hypothesis smul_add : forall a b P, smul (a + b) P = add (smul a P) (smul b P).
  Hypothesis smul_mod_order : forall a, smul (a mod secp256k1_order) base = smul a base.

  (* electrum_v1_commutes: whenever both sides succeed they give the same public key *)
  Theorem electrum_v1_commutes k c i kb R :
    get_priv (V1Priv G k) c i = Ok kb ->
    get_pub (V1Pub G (smul (be_to_int k) base)) c i = Ok R ->
    smul (be_to_int kb) base = R.
  Proof using smul_add smul_mod_order.
    unfold v1_get_private_key, v1_get_public_key. destruct (v1_indexes c i) as [[c' i']|]; cbn [bind Ok fst snd]; [|discriminate].
    cbn [v1_master_pub]. rewrite c_ecdsa_priv_len.
    set (s := be_to_int (v1_sequence sha256 G ser_u (smul (be_to_int k) base) c' i')).
    destruct (int_to_be_fixed 32 ((be_to_int k + s) mod secp256k1_order)) as [b|] eqn:E; cbn [bind Ok]; [|discriminate].
    apply int_to_be_fixed_ok in E. destruct E as (_ & _ & I).
    destruct (secp_priv_valid b); [|discriminate]. intros H; inversion H; subst kb; clear H.
    unfold point_mul. destruct ((s =? 0) || (secp256k1_order <=? s)); cbn [bind Ok]; [discriminate|].
    destruct (is_inf _); [discriminate|]. intros H; inversion H; subst R.
    rewrite I, smul_mod_order, smul_add. reflexivity.
  Qed.

  (* a private wallet's public key is the public key of its child private key *)
  Theorem electrum_v1_pub_of_priv k c i : get_pub (V1Priv G k) c i =
    (kb <- get_priv (V1Priv G k) c i ;; Ok (smul (be_to_int kb) base)).
  Proof. reflexivity. Qed.

  (* v1_address_uncompressed: the address is the uncompressed-mode P2PKH encoding of the child public key *)
  Theorem v1_address_uncompressed w c i : get_addr w c i = (P <- get_pub w c i ;; Ok (p2pkh_u P)).
  Proof. reflexivity. Qed.

  Theorem v1_public_only_no_private P c i : get_priv (V1Pub G P) c i = Err ValueError.
  Proof. reflexivity. Qed.
End V1.

(* ---------------------------------------------------------------- Electrum v2 *)
Section V2.
  Set Default Proof Using "Type".
  Variable obj : Type.
  Variable ckd : obj -> N -> res obj.
  Variable obj_depth : obj -> N.

  Notation std_derive := (v2_std_derive obj ckd).
  Notation segwit_new := (v2_segwit_new obj ckd obj_depth).
  Notation segwit_derive := (v2_segwit_derive obj ckd).
  Notation derive := (derive obj ckd).

  Lemma v2_index_int z : (0 <= z <= 4294967295)%Z -> v2_index (IdxInt z) = Ok (Z.to_N z).
  Proof.
    intros H. unfold v2_index, idx_z. rewrite c_index_max.
    destruct (Z.ltb_spec z 0); [lia|]. destruct (Z.ltb_spec (Z.of_N 4294967295) z); [lia|]. reflexivity.
  Qed.

  Lemma v2_index_out z : (z < 0 \/ 4294967295 < z)%Z -> v2_index (IdxInt z) = Err (LibError Bip32PathError).
  Proof.
    intros H. unfold v2_index, idx_z. rewrite c_index_max.
    destruct (Z.ltb_spec z 0); [reflexivity|]. destruct (Z.ltb_spec (Z.of_N 4294967295) z); [reflexivity|]. lia.
  Qed.

  (* electrum_v2_std_path: the key is the BIP-32 child m/change/index *)
  Theorem electrum_v2_std_path m c i : c <= 4294967295 -> i <= 4294967295 ->
    std_derive m (IdxInt (Z.of_N c)) (IdxInt (Z.of_N i)) = (o1 <- ckd m c ;; ckd o1 i).
  Proof.
    intros Hc Hi. unfold v2_std_derive. rewrite !v2_index_int by lia. rewrite !N2Z.id. cbn [bind Ok].
    destruct c_v2_paths as (-> & _). cbn [v2_path derive]. destruct (ckd m c) as [o1|]; cbn [bind Ok]; [|reflexivity].
    destruct (ckd o1 i); reflexivity.
  Qed.

  (* segwit_path: the key is m/0'/change/index *)
  Theorem electrum_v2_segwit_path m c i : obj_depth m = 0 -> c <= 4294967295 -> i <= 4294967295 ->
    (acc <- segwit_new m ;; segwit_derive acc (IdxInt (Z.of_N c)) (IdxInt (Z.of_N i))) =
    derive m [2147483648; c; i].
  Proof.
    intros D Hc Hi. unfold v2_segwit_new, v2_new. rewrite D. cbn [N.ltb N.compare bind Ok].
    destruct c_v2_paths as (_ & E2 & E3). rewrite E3. cbn [derive].
    destruct (ckd m 2147483648) as [acc|]; cbn [bind Ok]; [|reflexivity].
    unfold v2_segwit_derive. rewrite !v2_index_int by lia. rewrite !N2Z.id. cbn [bind Ok]. rewrite E2. reflexivity.
  Qed.

  Theorem electrum_v2_master_only m : 0 < obj_depth m -> segwit_new m = Err ValueError /\ v2_new obj obj_depth m = Err ValueError.
  Proof.
    intros H. unfold v2_segwit_new, v2_new. destruct (N.ltb_spec 0 (obj_depth m)); [split; reflexivity|lia].
  Qed.

  (* index_types_honoured: an index object is treated exactly like the int it carries *)
  Theorem index_types_honoured m n1 n2 :
    std_derive m (IdxObj n1) (IdxObj n2) = std_derive m (IdxInt (Z.of_N n1)) (IdxInt (Z.of_N n2)) /\
    std_derive m (IdxObj n1) (IdxInt (Z.of_N n2)) = std_derive m (IdxInt (Z.of_N n1)) (IdxInt (Z.of_N n2)) /\
    segwit_derive m (IdxObj n1) (IdxObj n2) = segwit_derive m (IdxInt (Z.of_N n1)) (IdxInt (Z.of_N n2)).
  Proof. repeat split; reflexivity. Qed.

  Theorem electrum_v2_index_range m c i : (c < 0 \/ 4294967295 < c \/ i < 0 \/ 4294967295 < i)%Z ->
    std_derive m (IdxInt c) (IdxInt i) = Err (LibError Bip32PathError) /\
    segwit_derive m (IdxInt c) (IdxInt i) = Err (LibError Bip32PathError).
  Proof.
    intros H. unfold v2_std_derive, v2_segwit_derive.
    destruct (Z.ltb_spec c 0) as [C1|C1]; [rewrite (v2_index_out c) by lia; split; reflexivity|].
    destruct (Z.ltb_spec 4294967295 c) as [C2|C2]; [rewrite (v2_index_out c) by lia; split; reflexivity|].
    rewrite (v2_index_int c) by lia. cbn [bind Ok]. rewrite (v2_index_out i) by lia. split; reflexivity.
  Qed.
End V2.

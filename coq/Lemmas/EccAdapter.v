(* Proofs about Model/EccAdapter.v: the adapter logic around an ABSTRACT group.
   Hypotheses (named, inside the sections, never axioms):
     - the byte lengths / prefix of EcdsaKeysConst (discharged in Props/C12.v from Gen/Ecc.v);
     - H_acc: the third-party private-key acceptance test is "0 < k < n" on 32-byte strings
       (coincurve.PrivateKey / ecdsa.SigningKey.from_string; validated by the correspondence only);
     - lift_complete / lift_sound: SEC1 decompression is a square root consistent with the curve equation
       (number theory in GF(p): assumed).
   No group law is used or claimed. *)
From Coq Require Import NArith ZArith Arith List Lia Bool.
From BU Require Import Base.Exn Base.Radix Base.Bytes Model.Ed25519Lib Model.EccAdapter Lemmas.EccAux.
Import ListNotations.
Open Scope N_scope.

Lemma is_valid_ok {A} (r : res A) b : is_valid r = Ok b ->
  (b = true <-> exists a, r = Ok a).
Proof.
  destruct r as [a|e]; cbn.
  - intros H; inversion H; subst. split; [intros _; exists a; reflexivity|reflexivity].
  - destruct e; cbn; intros H; inversion H; subst; split; try discriminate; intros [a' E]; discriminate.
Qed.

Lemma parity_prefix y : (2 + y mod 2 =? 3) = N.odd y /\ (2 + y mod 2 = 2 \/ 2 + y mod 2 = 3).
Proof.
  rewrite <- N.bit0_mod, N.bit0_odd. destruct (N.odd y); cbn; auto.
Qed.

Section W.
  Variables (p a b n : N) (base : wpt).
  Variables (coord_len priv_len pub_c_len pub_u_len : nat) (unc_prefix : list N).
  Variable add : wpt -> wpt -> wpt.
  Variable smul : N -> wpt -> wpt.
  Variable lift_x : N -> bool -> option (N * N).
  Variable lib_accepts_priv : list N -> bool.

  Notation on_curve := (Weier.on_curve p a b).
  Notation ser_c := (Weier.ser_c coord_len).
  Notation ser_u := (Weier.ser_u coord_len unc_prefix).
  Notation ser_raw := (Weier.ser_raw coord_len).
  Notation deser_c := (Weier.deser_c pub_c_len lift_x).
  Notation deser_raw := (Weier.deser_raw p a b coord_len).
  Notation deser_u := (Weier.deser_u p a b coord_len pub_u_len unc_prefix).
  Notation deser_h := (Weier.deser_h p a b coord_len pub_u_len).
  Notation priv_from_bytes := (Weier.priv_from_bytes priv_len lib_accepts_priv).
  Notation priv_public := (Weier.priv_public base smul).
  Notation pub_from_bytes := (Weier.pub_from_bytes p a b coord_len pub_c_len pub_u_len unc_prefix lift_x).
  Notation point_from_bytes := (Weier.point_from_bytes p a b coord_len pub_c_len pub_u_len unc_prefix lift_x).
  Notation point_from_coords := (Weier.point_from_coords p a b).
  Notation point_mul := (Weier.point_mul n smul).
  Notation point_add := (Weier.point_add add).
  Notation pub_raw_compressed := (Weier.pub_raw_compressed coord_len).

  (* ---------------- private keys ---------------- *)
  Hypothesis H_acc : forall k, length k = priv_len -> lib_accepts_priv k = Weier.accepts_priv_spec n k.

  Theorem priv_from_bytes_accepts_iff be k :
    ((exists key, priv_from_bytes be k = Ok key) <-> length k = priv_len /\ 0 < be_to_int k < n) /\
    (forall key, priv_from_bytes be k = Ok key -> key = k) /\
    (forall e, priv_from_bytes be k = Err e -> e = ValueError).
  Proof.
    assert (Hform : priv_from_bytes be k =
                    if Nat.eqb (length k) priv_len && lib_accepts_priv k then Ok k else Err ValueError).
    { unfold Weier.priv_from_bytes, nat_eqb.
      destruct be, (Nat.eqb (length k) priv_len), (lib_accepts_priv k); reflexivity. }
    rewrite Hform. clear Hform.
    assert (Reject : forall Q : Prop, ~ Q ->
      ((exists key, @Err (list N) ValueError = Ok key) <-> Q) /\
      (forall key, @Err (list N) ValueError = Ok key -> key = k) /\
      (forall e, @Err (list N) ValueError = Err e -> e = ValueError)).
    { intros Q HQ. split; [split; [intros [? E]; discriminate E|intros; contradiction]|].
      split; [intros ? E; discriminate E|intros ? E; inversion E; reflexivity]. }
    destruct (Nat.eqb_spec (length k) priv_len) as [L|L]; cbn [andb].
    - rewrite (H_acc k L). unfold Weier.accepts_priv_spec.
      destruct (N.ltb_spec 0 (be_to_int k)), (N.ltb_spec (be_to_int k) n); cbn [andb];
        try (apply Reject; lia).
      split; [split; [intros _; lia|intros _; exists k; reflexivity]|].
      split; [intros key E; inversion E; reflexivity|intros e E; discriminate].
    - apply Reject. lia.
  Qed.

  (* the two back-ends accept exactly the same private keys -- for ALL byte strings, no hypothesis *)
  Theorem priv_backends_equal k : priv_from_bytes Coincurve k = priv_from_bytes Ecdsa k.
  Proof.
    unfold Weier.priv_from_bytes, nat_eqb. destruct (Nat.eqb (length k) priv_len), (lib_accepts_priv k); reflexivity.
  Qed.

  (* ---------------- SEC1 formats ---------------- *)
  Hypothesis Hcl : coord_len = 32%nat.
  Hypothesis Hc : pub_c_len = 33%nat.
  Hypothesis Hu : pub_u_len = 65%nat.
  Hypothesis Hpre : unc_prefix = [4].
  Hypothesis Hp : p <= 2 ^ 256.

  Lemma on_curve_range x y : on_curve x y = true -> x < p /\ y < p.
  Proof.
    unfold Weier.on_curve. rewrite !andb_true_iff, !N.ltb_lt. tauto.
  Qed.

  Lemma be_coord_ok v : v < p -> exists vb, Weier.be_coord coord_len v = Ok vb /\ bytes_ok vb /\
                                             length vb = 32%nat /\ be_to_int vb = v.
  Proof.
    intros Hv. unfold Weier.be_coord. rewrite Hcl.
    destruct (int_to_be_fixed_fits 32 v) as [vb E].
    { change (256 ^ N.of_nat 32) with (2 ^ 256). lia. }
    exists vb. split; [exact E|]. apply int_to_be_fixed_ok in E. tauto.
  Qed.

  Definition first_some_cons {A} (o : option A) l :
    Weier.first_some (o :: l) = match o with Some x => Some x | None => Weier.first_some l end.
  Proof. reflexivity. Qed.

  Lemma deser_c_len bs : length bs <> 33%nat -> deser_c bs = None.
  Proof.
    intros H. unfold Weier.deser_c, nat_eqb. destruct bs as [|pre xb]; [reflexivity|].
    rewrite Hc. destruct (Nat.eqb_spec (length (pre :: xb)) 33); [contradiction|reflexivity].
  Qed.
  Lemma deser_raw_len bs : length bs <> 64%nat -> deser_raw bs = None.
  Proof.
    intros H. unfold Weier.deser_raw, nat_eqb. rewrite Hcl.
    destruct (Nat.eqb_spec (length bs) (32 * 2)); [contradiction|reflexivity].
  Qed.
  Lemma deser_u_len bs : length bs <> 65%nat -> deser_u bs = None.
  Proof.
    intros H. unfold Weier.deser_u, nat_eqb. destruct bs as [|pre r]; [reflexivity|].
    rewrite Hu. destruct (Nat.eqb_spec (length (pre :: r)) 65); [contradiction|reflexivity].
  Qed.
  Lemma deser_h_len bs : length bs <> 65%nat -> deser_h bs = None.
  Proof.
    intros H. unfold Weier.deser_h, nat_eqb. destruct bs as [|pre r]; [reflexivity|].
    rewrite Hu. destruct (Nat.eqb_spec (length (pre :: r)) 65); [contradiction|reflexivity].
  Qed.

  Lemma deser_raw_app xb yb x y : length xb = 32%nat -> length yb = 32%nat ->
    be_to_int xb = x -> be_to_int yb = y -> on_curve x y = true -> deser_raw (xb ++ yb) = Some (x, y).
  Proof.
    intros Lx Ly Vx Vy C. unfold Weier.deser_raw, Weier.split_xy, nat_eqb.
    rewrite app_length, Lx, Ly, Hcl. cbn [Nat.eqb Nat.mul Nat.add].
    rewrite (firstn_app_exact xb yb 32 Lx), (skipn_app_exact xb yb 32 Lx), Vx, Vy, C. reflexivity.
  Qed.

  Hypothesis lift_complete : forall x y, on_curve x y = true -> lift_x x (N.odd y) = Some (x, y).

  (* compressed, uncompressed and raw encodings of a curve point exist and decode -- through every
     constructor that takes them, on both back-ends -- to that same point *)
  Theorem compressed_uncompressed_same_point be x y : on_curve x y = true ->
    exists c u r,
      ser_c (x, y) = Ok c /\ ser_u (x, y) = Ok u /\ ser_raw (x, y) = Ok r /\
      length c = 33%nat /\ length u = 65%nat /\ length r = 64%nat /\
      pub_from_bytes be c = Ok (Some (x, y)) /\ pub_from_bytes be u = Ok (Some (x, y)) /\
      point_from_bytes false be c = Ok (Some (x, y)) /\ point_from_bytes false be r = Ok (Some (x, y)) /\
      pub_from_bytes Ecdsa r = Ok (Some (x, y)) /\ point_from_bytes false Ecdsa u = Ok (Some (x, y)).
  Proof.
    intros C. destruct (on_curve_range x y C) as [Rx Ry].
    destruct (be_coord_ok x Rx) as (xb & Ex & Bx & Lx & Vx).
    destruct (be_coord_ok y Ry) as (yb & Ey & By & Ly & Vy).
    exists ((2 + y mod 2) :: xb), (4 :: xb ++ yb), (xb ++ yb).
    unfold Weier.ser_c, Weier.ser_u, Weier.ser_raw. cbn [fst snd]. rewrite Ex, Ey. cbn [bind Ok].
    assert (Eu : unc_prefix ++ xb ++ yb = 4 :: xb ++ yb) by (rewrite Hpre; reflexivity). rewrite Eu.
    assert (Lr : length (xb ++ yb) = 64%nat) by (rewrite app_length, Lx, Ly; reflexivity).
    assert (Lc : length ((2 + y mod 2) :: xb) = 33%nat) by (cbn [length]; rewrite Lx; reflexivity).
    assert (Lu : length (4 :: xb ++ yb) = 65%nat) by (cbn [length]; rewrite Lr; reflexivity).
    assert (Dc : deser_c ((2 + y mod 2) :: xb) = Some (x, y)).
    { unfold Weier.deser_c, nat_eqb. rewrite Lc, Hc. cbn [Nat.eqb andb].
      destruct (parity_prefix y) as [P1 P2]. rewrite P1, Vx.
      assert ((2 + y mod 2 =? 2) || N.odd y = true) as ->.
      { destruct P2 as [E|E]; [rewrite E; reflexivity|]. rewrite <- P1, E. apply orb_true_r. }
      apply lift_complete; assumption. }
    assert (Dr : deser_raw (xb ++ yb) = Some (x, y)) by (apply deser_raw_app; assumption).
    assert (Du : deser_u (4 :: xb ++ yb) = Some (x, y)).
    { unfold Weier.deser_u, nat_eqb. rewrite Lu, Hu, Hpre. cbn [Nat.eqb list_eqb andb N.eqb Pos.eqb]. exact Dr. }
    assert (Nc_u : deser_c (4 :: xb ++ yb) = None) by (apply deser_c_len; lia).
    assert (Nc_r : deser_c (xb ++ yb) = None) by (apply deser_c_len; lia).
    assert (Nu_r : deser_u (xb ++ yb) = None) by (apply deser_u_len; lia).
    assert (Nh_r : deser_h (xb ++ yb) = None) by (apply deser_h_len; lia).
    assert (Nr_c : deser_raw ((2 + y mod 2) :: xb) = None) by (apply deser_raw_len; lia).
    assert (Nr_u : deser_raw (4 :: xb ++ yb) = None) by (apply deser_raw_len; lia).
    repeat split; try reflexivity; try assumption;
      unfold Weier.pub_from_bytes, Weier.point_from_bytes; try destruct be;
      rewrite ?first_some_cons, ?Dc, ?Nc_u, ?Nc_r, ?Nu_r, ?Nh_r, ?Nr_c, ?Nr_u, ?Du, ?Dr; reflexivity.
  Qed.

  (* ---------------- wrong lengths, error classes ---------------- *)
  Theorem wrong_length_value_error :
    (forall be k, length k <> priv_len -> priv_from_bytes be k = Err ValueError) /\
    (forall bs, length bs <> 33%nat -> length bs <> 65%nat -> pub_from_bytes Coincurve bs = Err ValueError) /\
    (forall bs, length bs <> 33%nat -> length bs <> 64%nat -> length bs <> 65%nat ->
                pub_from_bytes Ecdsa bs = Err ValueError) /\
    (forall bs, length bs <> 33%nat -> length bs <> 64%nat -> point_from_bytes false Coincurve bs = Err ValueError) /\
    (forall bs, length bs <> 33%nat -> length bs <> 64%nat -> length bs <> 65%nat ->
                point_from_bytes false Ecdsa bs = Err ValueError).
  Proof.
    refine (conj _ (conj _ (conj _ (conj _ _)))).
    - intros be k H. unfold Weier.priv_from_bytes, nat_eqb.
      destruct (Nat.eqb_spec (length k) priv_len); [contradiction|]. destruct be; reflexivity.
    - intros bs H1 H2. unfold Weier.pub_from_bytes.
      rewrite !first_some_cons, deser_c_len, deser_u_len, deser_h_len by assumption. reflexivity.
    - intros bs H1 H2 H3. unfold Weier.pub_from_bytes.
      rewrite !first_some_cons, deser_c_len, deser_u_len, deser_h_len, deser_raw_len by assumption. reflexivity.
    - intros bs H1 H2. unfold Weier.point_from_bytes.
      rewrite !first_some_cons, deser_c_len, deser_raw_len by assumption. reflexivity.
    - intros bs H1 H2 H3. unfold Weier.point_from_bytes.
      rewrite !first_some_cons, deser_c_len, deser_u_len, deser_h_len, deser_raw_len by assumption. reflexivity.
  Qed.

  (* whatever the bytes: the only failure of the byte constructors is ValueError *)
  Theorem from_bytes_value_error be bs e :
    (pub_from_bytes be bs = Err e -> e = ValueError) /\ (point_from_bytes false be bs = Err e -> e = ValueError).
  Proof.
    unfold Weier.pub_from_bytes, Weier.point_from_bytes, to_value_error, of_option.
    split; destruct be; match goal with |- rmap _ (match ?o with _ => _ end) = _ -> _ => destruct o end;
      cbn; intros H; inversion H; reflexivity.
  Qed.

  (* ---------------- not-a-point is rejected (main model) ---------------- *)
  Hypothesis lift_sound : forall x o P, lift_x x o = Some P -> on_curve (fst P) (snd P) = true.

  Lemma deser_c_on bs P : deser_c bs = Some P -> on_curve (fst P) (snd P) = true.
  Proof.
    unfold Weier.deser_c. destruct bs as [|pre xb]; [discriminate|].
    destruct (_ && _); [|discriminate]. apply lift_sound.
  Qed.
  Lemma deser_raw_on bs P : deser_raw bs = Some P -> on_curve (fst P) (snd P) = true.
  Proof.
    unfold Weier.deser_raw. destruct (nat_eqb _ _); [|discriminate].
    destruct (Weier.split_xy coord_len bs) as [x y]. destruct (on_curve x y) eqn:C; [|discriminate].
    intros H. injection H as <-. exact C.
  Qed.
  Lemma deser_u_on bs P : deser_u bs = Some P -> on_curve (fst P) (snd P) = true.
  Proof.
    unfold Weier.deser_u. destruct bs as [|pre r]; [discriminate|].
    destruct (_ && _); [|discriminate]. apply deser_raw_on.
  Qed.
  Lemma deser_h_on bs P : deser_h bs = Some P -> on_curve (fst P) (snd P) = true.
  Proof.
    unfold Weier.deser_h. destruct bs as [|pre r]; [discriminate|].
    destruct (_ && _); [|discriminate]. destruct (deser_raw r) as [[x y]|] eqn:D; [|discriminate].
    destruct (_ =? _); [|discriminate]. intros H. injection H as <-. apply (deser_raw_on r (x, y) D).
  Qed.

  Lemma first_some_on l P : (forall o, In o l -> forall Q, o = Some Q -> on_curve (fst Q) (snd Q) = true) ->
    Weier.first_some l = Some P -> on_curve (fst P) (snd P) = true.
  Proof.
    induction l as [|o l IH]; intros H E; [discriminate|]. rewrite first_some_cons in E.
    destruct o as [Q|].
    - injection E as ->. apply (H (Some P)); [left; reflexivity|reflexivity].
    - apply IH; [|exact E]. intros o Ho. apply H. right. exact Ho.
  Qed.

  Lemma all_on bs o : In o [deser_c bs; deser_u bs; deser_h bs; deser_raw bs] ->
    forall Q, o = Some Q -> on_curve (fst Q) (snd Q) = true.
  Proof.
    intros [<-|[<-|[<-|[<-|[]]]]] Q E;
      [eapply deser_c_on|eapply deser_u_on|eapply deser_h_on|eapply deser_raw_on]; exact E.
  Qed.
  Lemma first_some_sub l bs P : (forall o, In o l -> In o [deser_c bs; deser_u bs; deser_h bs; deser_raw bs]) ->
    Weier.first_some l = Some P -> on_curve (fst P) (snd P) = true.
  Proof. intros Hsub. apply first_some_on. intros o Ho. apply (all_on bs). apply Hsub. exact Ho. Qed.

  Theorem accepted_is_on_curve be bs P :
    (pub_from_bytes be bs = Ok P -> exists x y, P = Some (x, y) /\ on_curve x y = true) /\
    (point_from_bytes false be bs = Ok P -> exists x y, P = Some (x, y) /\ on_curve x y = true).
  Proof.
    unfold Weier.pub_from_bytes, Weier.point_from_bytes.
    split; destruct be;
      match goal with |- rmap _ (to_value_error (Weier.first_some ?l)) = _ -> _ =>
        destruct (Weier.first_some l) as [[x y]|] eqn:F end;
      cbn; intros H; try discriminate H; injection H as <-; exists x, y; (split; [reflexivity|]);
      apply (first_some_sub _ bs (x, y)) in F; try exact F;
      intros o Ho; cbn [In] in *; tauto.
  Qed.

  Theorem offcurve_value_error be x y : on_curve x y = false -> point_from_coords false be x y = Err ValueError.
  Proof. intros H. unfold Weier.point_from_coords. destruct be; rewrite H; reflexivity. Qed.
  Theorem oncurve_accepted be x y : on_curve x y = true -> point_from_coords false be x y = Ok (Some (x, y)).
  Proof. intros H. unfold Weier.point_from_coords. destruct be; rewrite H; reflexivity. Qed.

  (* today's python-ecdsa-backed FromCoordinates (F17): an AssertionError, and unreduced coordinates pass *)
  Theorem offcurve_current_assertion x y : (y * y) mod p <> (x * x * x + a * x + b) mod p ->
    point_from_coords true Ecdsa x y = Err AssertionError.
  Proof.
    intros H. unfold Weier.point_from_coords. destruct (N.eqb_spec ((y * y) mod p) ((x * x * x + a * x + b) mod p));
      [contradiction|reflexivity].
  Qed.

  (* ---------------- the public key of k is k*G ---------------- *)
  Theorem pub_is_k_G be k key x y :
    priv_from_bytes be k = Ok key -> smul (be_to_int k) base = Some (x, y) -> on_curve x y = true ->
    priv_public key = smul (be_to_int k) base /\
    exists c, pub_raw_compressed (priv_public key) = Ok c /\ pub_from_bytes be c = Ok (Some (x, y)).
  Proof.
    intros E S C. destruct (priv_from_bytes_accepts_iff be k) as (_ & Hk & _). rewrite (Hk key E).
    unfold Weier.priv_public. split; [reflexivity|]. rewrite S. cbn [Weier.pub_raw_compressed].
    destruct (compressed_uncompressed_same_point be x y C) as (c & u & r & Ec & _ & _ & _ & _ & _ & Pc & _).
    exists c. split; assumption.
  Qed.

  (* ---------------- back-end agreement ---------------- *)
  Theorem backends_equal_in_range :
    (forall k, priv_from_bytes Coincurve k = priv_from_bytes Ecdsa k) /\
    (forall P s, 0 < s < n -> point_mul Coincurve P s = point_mul Ecdsa P s) /\
    (forall P Q, add P Q <> None -> point_add Coincurve P Q = point_add Ecdsa P Q) /\
    (forall x y, point_from_coords false Coincurve x y = point_from_coords false Ecdsa x y) /\
    (forall bs, length bs <> 64%nat -> pub_from_bytes Coincurve bs = pub_from_bytes Ecdsa bs) /\
    (forall bs, length bs <> 65%nat -> point_from_bytes false Coincurve bs = point_from_bytes false Ecdsa bs).
  Proof.
    refine (conj _ (conj _ (conj _ (conj _ (conj _ _))))).
    - apply priv_backends_equal.
    - intros P s [H0 H1]. unfold Weier.point_mul.
      destruct (N.ltb_spec 0 s), (N.ltb_spec s n); try lia. reflexivity.
    - intros P Q H. unfold Weier.point_add. destruct (add P Q); [reflexivity|contradiction].
    - intros x y. reflexivity.
    - intros bs H. unfold Weier.pub_from_bytes. rewrite !first_some_cons, (deser_raw_len bs H).
      destruct (deser_c bs), (deser_u bs), (deser_h bs); reflexivity.
    - intros bs H. unfold Weier.point_from_bytes. rewrite !first_some_cons, (deser_u_len bs H), (deser_h_len bs H).
      destruct (deser_raw bs), (deser_c bs); reflexivity.
  Qed.

  (* F15: outside 0 < s < n the two back-ends differ -- for every point, whatever the group *)
  Theorem backends_equal_refuted : forall P, point_mul Coincurve P 0 <> point_mul Ecdsa P 0 /\
                                             point_mul Coincurve P n <> point_mul Ecdsa P n.
  Proof.
    intros P. unfold Weier.point_mul. split.
    - rewrite N.ltb_irrefl. cbn. discriminate.
    - rewrite (N.ltb_irrefl n), andb_false_r. discriminate.
  Qed.
End W.

(* =========================================================================== ed25519 family *)
Section Ed.
  Open Scope Z_scope.
  Variables (q l d : Z) (g : zpt) (g_enc : list N) (clen : nat) (clamp sign_bit : Z) (sign_byte : N).
  Variables (pub_prefix : list N) (pub_len priv_len : nat).
  Variable xrec : Z -> Z.
  Variable esmul : Z -> zpt -> zpt.
  Variables (sha512 blake2b512 : list N -> list N).
  Variables (nacl_sk_accepts nacl_vk_accepts b2b_sk_accepts : list N -> bool).
  Variable in_prime_subgroup : zpt -> bool.

  Notation priv_from_bytes := (Edw.priv_from_bytes l priv_len nacl_sk_accepts b2b_sk_accepts).
  Notation pub_from_bytes := (Edw.pub_from_bytes q d clen clamp sign_bit pub_prefix pub_len xrec nacl_vk_accepts).
  Notation strip_prefix := (Edw.strip_prefix pub_prefix pub_len).
  Notation on_curve_bytes := (Edw.on_curve_bytes q d clen clamp sign_bit xrec).
  Notation canonical_enc := (Edw.canonical_enc q clen clamp sign_bit xrec).
  Notation point_from_bytes := (Edw.point_from_bytes q d clen clamp sign_bit sign_byte xrec).

  Hypothesis Hclen : clen = 32%nat.
  Hypothesis Hplen : priv_len = 32%nat.
  Hypothesis Hpub : pub_len = 32%nat.
  Hypothesis Hprefix : pub_prefix = [0%N].
  (* third-party acceptance tests (validated by the correspondence run, not proved) *)
  Hypothesis H_sk : forall bs, nacl_sk_accepts bs = Edw.accepts_len32_spec bs.
  Hypothesis H_vk : forall bs, nacl_vk_accepts bs = Edw.accepts_len32_spec bs.

  Lemma len32 bs : Edw.accepts_len32_spec bs = true <-> length bs = 32%nat.
  Proof. unfold Edw.accepts_len32_spec, nat_eqb. apply Nat.eqb_eq. Qed.

  Lemma iff_ok_of_bool (c : bool) (bs : list N) (Q : Prop) : (c = true <-> Q) ->
    ((exists key, (if c then Ok bs else @Err (list N) ValueError) = Ok key) <-> Q) /\
    (forall key, (if c then Ok bs else @Err (list N) ValueError) = Ok key -> key = bs) /\
    (forall e, (if c then Ok bs else @Err (list N) ValueError) = Err e -> e = ValueError).
  Proof.
    intros H. destruct c.
    - split; [split; [intros _; apply H; reflexivity|intros _; exists bs; reflexivity]|].
      split; [intros key E; inversion E; reflexivity|intros e E; discriminate E].
    - split; [split; [intros [? E]; discriminate E|intros HQ; apply H in HQ; discriminate HQ]|].
      split; [intros ? E; discriminate E|intros ? E; inversion E; reflexivity].
  Qed.

  (* private keys: the real acceptance rules, read off the code.
     ed25519: any 32 bytes.  kholaw: any 64 bytes.  monero: 32 bytes whose little-endian value is < l
     (0 IS accepted; its PublicKey() is a ValueError).  blake2b: see the next two statements. *)
  Theorem ed_priv_from_bytes_accepts_iff cur bs :
    let P k Q := ((exists key, priv_from_bytes cur k bs = Ok key) <-> Q) /\
                 (forall key, priv_from_bytes cur k bs = Ok key -> key = bs) /\
                 (forall e, priv_from_bytes cur k bs = Err e -> e = ValueError) in
    P Ed25519 (length bs = 32%nat) /\
    P Ed25519Kholaw (length bs = 64%nat) /\
    P Ed25519Monero (length bs = 32%nat /\ int_decode bs < l).
  Proof.
    cbv zeta. refine (conj _ (conj _ _)).
    - unfold Edw.priv_from_bytes. apply iff_ok_of_bool. rewrite H_sk. apply len32.
    - unfold Edw.priv_from_bytes. rewrite H_sk.
      assert (E : (if negb (Edw.accepts_len32_spec (firstn priv_len bs)) then @Err (list N) ValueError
                   else if negb (nat_eqb (length (skipn priv_len bs)) priv_len) then Err ValueError else Ok bs) =
                  if Nat.eqb (length bs) 64 then Ok bs else Err ValueError).
      { unfold Edw.accepts_len32_spec, nat_eqb. rewrite firstn_length, skipn_length, Hplen.
        destruct (Nat.eqb_spec (Nat.min 32 (length bs)) 32), (Nat.eqb_spec (length bs - 32) 32),
          (Nat.eqb_spec (length bs) 64); cbn; try reflexivity; lia. }
      rewrite E. apply iff_ok_of_bool. apply Nat.eqb_eq.
    - unfold Edw.priv_from_bytes. rewrite H_sk. unfold scalar_is_valid_bytes.
      assert (E : (if negb (int_decode bs <? l) then @Err (list N) ValueError
                   else if Edw.accepts_len32_spec bs then Ok bs else Err ValueError) =
                  if (Edw.accepts_len32_spec bs && (int_decode bs <? l))%bool then Ok bs else Err ValueError).
      { destruct (int_decode bs <? l), (Edw.accepts_len32_spec bs); reflexivity. }
      rewrite E. apply iff_ok_of_bool. rewrite andb_true_iff, len32, Z.ltb_lt. reflexivity.
  Qed.

  (* blake2b, as the property demands (library accepts exactly 32 bytes) ... *)
  Theorem ed_priv_blake2b_accepts_iff cur bs : (forall x, b2b_sk_accepts x = Edw.accepts_len32_spec x) ->
    ((exists key, priv_from_bytes cur Ed25519Blake2b bs = Ok key) <-> length bs = 32%nat) /\
    (forall e, priv_from_bytes cur Ed25519Blake2b bs = Err e -> e = ValueError).
  Proof.
    intros Hb. unfold Edw.priv_from_bytes. rewrite Hb.
    destruct (iff_ok_of_bool (Edw.accepts_len32_spec bs) bs (length bs = 32%nat) (len32 bs)) as (A & _ & C).
    split; assumption.
  Qed.
  (* ... and as ed25519-blake2b behaves today: a 64-byte string is accepted and its second half is handed out
     as the public key, unchecked (finding C12-blake2b-64) *)
  Theorem ed_priv_blake2b_refuted bs : (forall x, b2b_sk_accepts x = Edw.b2b_accepts_current_spec x) ->
    length bs = 64%nat ->
    priv_from_bytes true Ed25519Blake2b bs = Ok bs /\
    Edw.priv_public q d g g_enc clen clamp sign_bit sign_byte priv_len xrec esmul sha512 blake2b512 in_prime_subgroup
      true Ed25519Blake2b bs = Ok (skipn 32 bs).
  Proof.
    intros Hb L. unfold Edw.priv_from_bytes, Edw.priv_public. rewrite Hb.
    unfold Edw.b2b_accepts_current_spec, nat_eqb. rewrite L. split; reflexivity.
  Qed.

  (* public keys *)
  Lemma on_curve_bytes_err bs e : on_curve_bytes bs = Err e -> e = ValueError.
  Proof.
    unfold Edw.on_curve_bytes, point_is_on_curve_bytes, point_bytes_to_coord, point_decode_no_check.
    destruct (point_is_decoded_bytes clen bs); cbn; [discriminate|].
    destruct (point_is_encoded_bytes clen bs); cbn; [discriminate|]. intros E; inversion E; reflexivity.
  Qed.
  Lemma on_curve_bytes_len bs : length bs <> 32%nat -> length bs <> 64%nat -> on_curve_bytes bs = Err ValueError.
  Proof.
    intros H1 H2.
    unfold Edw.on_curve_bytes, point_is_on_curve_bytes, point_bytes_to_coord, point_is_decoded_bytes, point_is_encoded_bytes.
    rewrite Hclen. destruct (Nat.eqb_spec (length bs) (32 * 2)); [cbn in *; lia|].
    destruct (Nat.eqb_spec (length bs) 32); [contradiction|reflexivity].
  Qed.

  Lemma strip_prefix_32 bs : length bs = 32%nat -> strip_prefix (pub_prefix ++ bs) = bs /\ strip_prefix bs = bs.
  Proof.
    intros L. unfold Edw.strip_prefix, nat_eqb. rewrite Hprefix, Hpub. split.
    - change ([0%N] ++ bs) with (0%N :: bs). cbn [length]. rewrite L. reflexivity.
    - destruct bs as [|pre t]; [reflexivity|]. rewrite L. reflexivity.
  Qed.

  (* a 32-byte key and its 0x00-prefixed 33-byte form are the same key, for all four curve types *)
  Theorem ed_pub_prefix_same_key cur k bs : length bs = 32%nat ->
    pub_from_bytes cur k (pub_prefix ++ bs) = pub_from_bytes cur k bs.
  Proof.
    intros L. unfold Edw.pub_from_bytes. destruct (strip_prefix_32 bs L) as [-> ->]. reflexivity.
  Qed.

  (* what acceptance means, and that the only failure is ValueError *)
  Theorem ed_pub_from_bytes_spec cur k bs :
    (forall key, pub_from_bytes cur k bs = Ok key ->
       key = strip_prefix bs /\ length key = 32%nat /\ on_curve_bytes key = Ok true /\
       (cur = false -> canonical_enc key = true)) /\
    (forall e, pub_from_bytes cur k bs = Err e -> e = ValueError).
  Proof.
    unfold Edw.pub_from_bytes. set (bs1 := strip_prefix bs).
    split.
    - intros key.
      destruct (match k with Ed25519Blake2b => negb (nat_eqb (length bs1) pub_len) | _ => false end) eqn:E0;
        [discriminate|].
      destruct (on_curve_bytes bs1) as [oc|e] eqn:E1; cbn [bind]; [|discriminate].
      destruct oc; cbn [negb]; [|discriminate].
      destruct (match k with Ed25519Blake2b => true | _ => nacl_vk_accepts bs1 end) eqn:E2; cbn [negb]; [|discriminate].
      destruct (negb cur && negb (canonical_enc bs1))%bool eqn:E3; [discriminate|].
      intros H; injection H as <-. split; [reflexivity|]. split; [|split; [exact E1|]].
      + destruct k; try (rewrite H_vk in E2; apply len32; exact E2).
        rewrite Hpub in E0. apply negb_false_iff, Nat.eqb_eq in E0. exact E0.
      + intros ->. cbn in E3. apply negb_false_iff in E3. exact E3.
    - intros e.
      destruct (match k with Ed25519Blake2b => negb (nat_eqb (length bs1) pub_len) | _ => false end);
        [intros H; inversion H; reflexivity|].
      destruct (on_curve_bytes bs1) as [oc|e'] eqn:E1; cbn [bind].
      + destruct (negb oc); [intros H; inversion H; reflexivity|].
        destruct (negb _); [intros H; inversion H; reflexivity|].
        destruct (_ && _)%bool; [intros H; inversion H; reflexivity|discriminate].
      + intros H. injection H as <-. apply (on_curve_bytes_err bs1). exact E1.
  Qed.

  Theorem ed_pub_wrong_length cur k bs : length (strip_prefix bs) <> 32%nat -> pub_from_bytes cur k bs = Err ValueError.
  Proof.
    intros H. destruct (pub_from_bytes cur k bs) as [key|e] eqn:E.
    - apply (proj1 (ed_pub_from_bytes_spec cur k bs)) in E. destruct E as (-> & L & _). contradiction.
    - apply (proj2 (ed_pub_from_bytes_spec cur k bs)) in E. rewrite E. reflexivity.
  Qed.

  (* points: wrong length *)
  Theorem ed_point_wrong_length cur bs : length bs <> 32%nat -> length bs <> 64%nat ->
    point_from_bytes cur bs = Err ValueError.
  Proof.
    intros H1 H2. unfold Edw.point_from_bytes. fold on_curve_bytes.
    rewrite (on_curve_bytes_len bs H1 H2). reflexivity.
  Qed.

  (* the scalar libsodium really multiplies by (finding C12-ed-scalar-bit255): bit 255 is dropped *)
  Theorem mul_scalar_current s : clamp = Z.ones 255 -> 0 <= s < 2 ^ 256 ->
    Edw.mul_scalar clamp false s = s /\
    Edw.mul_scalar clamp true s = (if 2 ^ 255 <=? s then s - 2 ^ 255 else s).
  Proof.
    intros Hc Hs. unfold Edw.mul_scalar. split; [reflexivity|].
    rewrite Hc, Z.land_ones by lia.
    destruct (Z.leb_spec (2 ^ 255) s).
    - replace s with ((s - 2 ^ 255) + 1 * 2 ^ 255) at 1 by lia. rewrite Z.mod_add by lia. apply Z.mod_small. lia.
    - apply Z.mod_small. lia.
  Qed.
End Ed.

Section SrProofs.
  Variables (pub_len priv_len : nat).
  Theorem sr_accepts_iff bs :
    ((exists k, Sr.sr_priv_from_bytes priv_len bs = Ok k) <-> length bs = priv_len) /\
    ((exists k, Sr.sr_pub_from_bytes pub_len bs = Ok k) <-> length bs = pub_len) /\
    (forall e, Sr.sr_priv_from_bytes priv_len bs = Err e -> e = ValueError) /\
    (forall e, Sr.sr_pub_from_bytes pub_len bs = Err e -> e = ValueError).
  Proof.
    unfold Sr.sr_priv_from_bytes, Sr.sr_pub_from_bytes, nat_eqb.
    assert (A : forall w : nat, ((exists k, (if Nat.eqb (length bs) w then Ok bs else @Err (list N) ValueError) = Ok k)
                                 <-> length bs = w) /\
                                (forall e, (if Nat.eqb (length bs) w then Ok bs else @Err (list N) ValueError) = Err e
                                           -> e = ValueError)).
    { intros w. destruct (Nat.eqb_spec (length bs) w) as [L|L]; split.
      - split; [intros _; exact L|intros _; exists bs; reflexivity].
      - intros e E; discriminate E.
      - split; [intros [? E]; discriminate E|intros; contradiction].
      - intros e E; inversion E; reflexivity. }
    destruct (A priv_len) as [A1 A2], (A pub_len) as [B1 B2]. tauto.
  Qed.
End SrProofs.

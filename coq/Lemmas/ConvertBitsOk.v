(* ConvertToBase32 / ConvertFromBase32 on the bit widths read from the source (Gen/CodecConsts.v). *)
From Coq Require Import NArith Arith List Lia Bool.
From BU Require Import Base.Exn Base.Radix Base.Bytes Gen.CodecConsts Model.ConvertBits Model.Codecs.
From BU Require Import Lemmas.CodecsAux.
From BU Require Lemmas.ConvertBits.
Import ListNotations.
Open Scope N_scope.

(* obligations on the generated constants *)
Lemma cb_widths : cb_to32_from = 8 /\ cb_to32_to = 5 /\ cb_from32_from = 5 /\ cb_from32_to = 8.
Proof. repeat split; reflexivity. Qed.

Definition sym5_ok (l : list N) : Prop := Forall (fun d => d < 32) l.

Lemma p8 : 0 < 8. Proof. reflexivity. Qed.
Lemma p5 : 0 < 5. Proof. reflexivity. Qed.

Lemma to_base32_unfold b : to_base32 b = none_is_value_error (convert_bits 8 5 b true).
Proof. reflexivity. Qed.
Lemma from_base32_unfold l : from_base32 l = none_is_value_error (convert_bits 5 8 l false).
Proof. reflexivity. Qed.

Lemma pad_spec b : bytes_ok b ->
  exists l p, convert_bits 8 5 b true = Ok (Some l) /\ sym5_ok l /\ p < 5 /\
    5 * N.of_nat (length l) = 8 * N.of_nat (length b) + p /\ from_be 32 l = be_to_int b * 2 ^ p.
Proof. intros H. exact (Lemmas.ConvertBits.convert_pad_spec 8 5 p8 p5 b H). Qed.

Lemma strict_spec l : sym5_ok l ->
  exists b bits pend, bits < 8 /\ pend < 2 ^ bits /\ bytes_ok b /\
    8 * N.of_nat (length b) + bits = 5 * N.of_nat (length l) /\
    be_to_int b * 2 ^ bits + pend = from_be 32 l /\
    convert_bits 5 8 l false = Ok (if (5 <=? bits) || negb (pend =? 0) then None else Some b).
Proof. intros H. exact (Lemmas.ConvertBits.convert_strict_spec 5 8 p5 p8 l H). Qed.

Lemma quot_unique X V c pend : 0 < c -> pend < c -> X * c + pend = V * c -> pend = 0 /\ X = V.
Proof.
  intros Hc Hp E.
  assert (X = V).
  { destruct (N.lt_trichotomy X V) as [L|[L|L]]; [|exact L|]; exfalso; nia. }
  subst. split; [lia|reflexivity].
Qed.

(* ConvertFromBase32 (ConvertToBase32 b) = b for every byte string *)
Theorem convertbits_8_5_8 b : bytes_ok b ->
  exists l, to_base32 b = Ok l /\ sym5_ok l /\ from_base32 l = Ok b.
Proof.
  intros Hb. destruct (pad_spec b Hb) as (l & p & E & Hl & Hp & Hlen & Hval).
  exists l. rewrite to_base32_unfold, E. split; [reflexivity|]. split; [exact Hl|].
  destruct (strict_spec l Hl) as (b' & bits & pend & Hbits & Hpend & Hb' & Hlen' & Hval' & E').
  assert (bits = p /\ length b' = length b) by lia. destruct H as [-> Lb].
  rewrite Hval in Hval'.
  destruct (quot_unique _ _ _ _ (pow2_pos p) Hpend Hval') as [-> EV].
  rewrite from_base32_unfold, E'.
  destruct (N.leb_spec 5 p); [lia|]. cbn. unfold Ok. f_equal.
  apply (from_be_inj_len 256 r256); auto.
Qed.

(* anything outside 5 bits makes ConvertFromBase32 raise ValueError; ditto 8 bits for ConvertToBase32 *)
Lemma from_base32_range l : ~ sym5_ok l -> from_base32 l = Err ValueError.
Proof.
  intros H. destruct (Lemmas.ConvertBits.range_dec 5 l) as [D|X]; [contradiction|].
  rewrite from_base32_unfold, (Lemmas.ConvertBits.convert_range 5 8 p5 p8 l false X). reflexivity.
Qed.
Lemma to_base32_range b : ~ bytes_ok b -> to_base32 b = Err ValueError.
Proof.
  intros H. destruct (Lemmas.ConvertBits.range_dec 8 b) as [D|X]; [contradiction|].
  rewrite to_base32_unfold, (Lemmas.ConvertBits.convert_range 8 5 p8 p5 b true X). reflexivity.
Qed.

Lemma sym5_dec l : sym5_ok l \/ ~ sym5_ok l.
Proof.
  destruct (Lemmas.ConvertBits.range_dec 5 l) as [D|X]; [left; exact D|right].
  intro H. apply Exists_exists in X. destruct X as (v & I & G).
  unfold sym5_ok in H. rewrite Forall_forall in H. specialize (H v I). change (2 ^ 5) with 32 in G. lia.
Qed.
Lemma bytes_dec b : bytes_ok b \/ ~ bytes_ok b.
Proof.
  destruct (Lemmas.ConvertBits.range_dec 8 b) as [D|X]; [left; exact D|right].
  intro H. apply Exists_exists in X. destruct X as (v & I & G).
  unfold bytes_ok in H. rewrite Forall_forall in H. specialize (H v I). change (2 ^ 8) with 256 in G. lia.
Qed.

(* canonicity: whatever the strict direction accepts is the padded regrouping of its result *)
Theorem from_base32_canonical l b : from_base32 l = Ok b -> bytes_ok b /\ sym5_ok l /\ to_base32 b = Ok l.
Proof.
  intros E. destruct (sym5_dec l) as [Hl|Hn]; [|rewrite (from_base32_range l Hn) in E; discriminate].
  destruct (strict_spec l Hl) as (b' & bits & pend & Hbits & Hpend & Hb' & Hlen' & Hval' & E').
  rewrite from_base32_unfold, E' in E. revert E.
  destruct (N.leb_spec 5 bits); [discriminate|]. destruct (N.eqb_spec pend 0) as [Ep|]; [|discriminate].
  cbn. intros E. subst pend. assert (b' = b) by (unfold Ok in E; congruence). subst b'. clear E E'.
  split; [exact Hb'|]. split; [exact Hl|].
  destruct (pad_spec b Hb') as (l2 & p & E2 & Hl2 & Hp & Hlen2 & Hval2).
  rewrite to_base32_unfold, E2. cbn. unfold Ok. f_equal.
  assert (p = bits /\ length l2 = length l) by lia. destruct H0 as [-> Ll].
  apply (from_be_inj_len 32 ltac:(lia)); auto. lia.
Qed.

(* strict mode rejects exactly over-long (>= 5 bits) or non-zero padding *)
Theorem from_base32_accepts_iff l : sym5_ok l ->
  ((exists b, from_base32 l = Ok b) <->
   (5 * N.of_nat (length l)) mod 8 < 5 /\ from_be 32 l mod 2 ^ ((5 * N.of_nat (length l)) mod 8) = 0).
Proof.
  intros Hl.
  destruct (strict_spec l Hl) as (b' & bits & pend & Hbits & Hpend & Hb' & Hlen' & Hval' & E').
  assert (Ebits : (5 * N.of_nat (length l)) mod 8 = bits).
  { symmetry. apply (N.mod_unique _ 8 (N.of_nat (length b'))); [exact Hbits|lia]. }
  assert (Epend : from_be 32 l mod 2 ^ bits = pend).
  { symmetry. apply (N.mod_unique _ _ (be_to_int b')); [exact Hpend|lia]. }
  rewrite Ebits, Epend, from_base32_unfold, E'.
  destruct (N.leb_spec 5 bits); destruct (N.eqb_spec pend 0); cbn; split;
    try (intros [b Hb]; discriminate); try (intros [A B]; lia); eauto.
Qed.

Theorem from_base32_err l e : from_base32 l = Err e -> e = ValueError.
Proof.
  destruct (sym5_dec l) as [Hl|Hn]; [|rewrite (from_base32_range l Hn); unfold Err; congruence].
  destruct (strict_spec l Hl) as (b' & bits & pend & _ & _ & _ & _ & _ & E').
  rewrite from_base32_unfold, E'. destruct ((5 <=? bits) || negb (pend =? 0)); cbn; [unfold Err; congruence|discriminate].
Qed.

Theorem to_base32_total b : (bytes_ok b -> exists l, to_base32 b = Ok l) /\ (~ bytes_ok b -> to_base32 b = Err ValueError).
Proof.
  split; [|apply to_base32_range]. intros H. destruct (convertbits_8_5_8 b H) as (l & E & _). eauto.
Qed.

(* the length of the 5-bit form: ceil(8n/5) symbols *)
Theorem to_base32_length b l : bytes_ok b -> to_base32 b = Ok l ->
  5 * N.of_nat (length l) < 8 * N.of_nat (length b) + 5 /\ 8 * N.of_nat (length b) <= 5 * N.of_nat (length l).
Proof.
  intros Hb E. destruct (pad_spec b Hb) as (l2 & p & E2 & _ & Hp & Hlen & _).
  rewrite to_base32_unfold, E2 in E. cbn in E. assert (l2 = l) by (unfold Ok in E; congruence). subst. lia.
Qed.

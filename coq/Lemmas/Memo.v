(* Proofs about Model/Memo.v: memoisation is transparent for every method whose read-set avoids the
   fields written after construction; set-and-restore of a toggle is neutral; calls leave the store
   alone; two threads racing on one cache slot obtain the sequential value under every schedule. *)
From Coq Require Import List Bool Arith Lia.
From BU Require Import Model.Memo.
Import ListNotations.

Section Memo.
  Variable F : Type.
  Variable feqb : F -> F -> bool.
  Variable M : Type.
  Variable meqb : M -> M -> bool.
  Variable V : Type.
  Variable sem : M -> (F -> V) -> V.
  Variable is_cached : M -> bool.
  Hypothesis feqb_spec : forall a b, feqb a b = true <-> a = b.
  Hypothesis meqb_spec : forall a b, meqb a b = true <-> a = b.

  (* read-sets: a method's result depends on the listed fields only *)
  Variable reads : M -> list F.
  Hypothesis reads_sound : forall m s1 s2, (forall f, In f (reads m) -> s1 f = s2 f) -> sem m s1 = sem m s2.

  (* the fields some operation may write after construction *)
  Variable writable : F -> Prop.

  Notation state := (state F M V).
  Notation step := (step F feqb M meqb V sem is_cached).
  Notation run := (run F feqb M meqb V sem is_cached).
  Notation result_after := (result_after F feqb M meqb V sem is_cached).
  Notation logical := (logical F feqb M V).
  Notation update := (update F feqb V).
  Notation lookup := (lookup M meqb V).

  (* not memoised, or memoised over immutable fields only *)
  Definition good (m : M) : Prop := is_cached m = false \/ forall f, In f (reads m) -> ~ writable f.

  Definition cache_valid (s : state) : Prop :=
    forall m v, lookup m (snd s) = Some v -> is_cached m = true /\ (good m -> v = sem m (fst s)).

  Lemma empty_cache_valid : forall st, cache_valid (st, []).
  Proof. intros st m v H. discriminate. Qed.

  Lemma update_other : forall st f v g, g <> f -> update st f v g = st g.
  Proof.
    intros st f v g H. unfold Memo.update. destruct (feqb g f) eqn:E; [|reflexivity].
    apply feqb_spec in E. contradiction.
  Qed.

  Lemma update_same : forall st f v, update st f v f = v.
  Proof.
    intros st f v. unfold Memo.update. destruct (feqb f f) eqn:E; [reflexivity|].
    assert (X : feqb f f = true) by (apply feqb_spec; reflexivity). congruence.
  Qed.

  Definition write_ok (o : op F M V) : Prop := match o with Write f _ => writable f | Call _ => True end.

  Lemma step_valid : forall s o, cache_valid s -> write_ok o -> cache_valid (fst (step s o)).
  Proof.
    intros [st c] o Hv Hw. destruct o as [m'|f v]; cbn.
    - destruct (is_cached m') eqn:C; [|exact Hv].
      destruct (lookup m' c) as [v'|] eqn:L; [exact Hv|]. cbn.
      intros m v H. cbn in H. destruct (meqb m' m) eqn:E.
      + apply meqb_spec in E. subst m'. inversion H; subst. split; [assumption|reflexivity].
      + apply (Hv m v H).
    - intros m w H. cbn in H |- *. destruct (Hv m w H) as [Hc Hg]. split; [assumption|].
      intros G. rewrite (Hg G). apply reads_sound. intros g Hg'.
      destruct G as [G|G]; [congruence|]. symmetry. apply update_other. intros ->.
      exact (G f Hg' Hw).
  Qed.

  Lemma step_result : forall s m, cache_valid s -> good m -> snd (step s (Call m)) = Some (sem m (fst s)).
  Proof.
    intros [st c] m Hv G. cbn. destruct (is_cached m) eqn:C; [|reflexivity].
    destruct (lookup m c) as [v|] eqn:L; [|reflexivity]. cbn.
    destruct (Hv m v L) as [_ H]. rewrite (H G). reflexivity.
  Qed.

  Lemma run_valid : forall h s, cache_valid s -> Forall write_ok h -> cache_valid (run s h).
  Proof.
    induction h as [|o t IH]; intros s Hv Hw; [assumption|].
    inversion Hw; subst. cbn. apply IH; [|assumption]. apply step_valid; assumption.
  Qed.

  Lemma run_store : forall h s, fst (run s h) = logical (fst s) h.
  Proof.
    induction h as [|o t IH]; intros [st c]; [reflexivity|]. cbn [Memo.run Memo.logical].
    rewrite IH. destruct o as [m|f v]; cbn.
    - destruct (is_cached m); [destruct (lookup m c)|]; reflexivity.
    - reflexivity.
  Qed.

  (* MEMO TRANSPARENCY: after any history whose writes touch writable fields only, a call of a
     good method returns the uncached function of the current logical state. *)
  Theorem memo_transparent : forall s h m, cache_valid s -> Forall write_ok h -> good m ->
    result_after s h m = Some (sem m (logical (fst s) h)).
  Proof.
    intros s h m Hv Hw G. unfold Memo.result_after. rewrite step_result; [|apply run_valid; assumption|assumption].
    rewrite run_store. reflexivity.
  Qed.

  (* HISTORY INDEPENDENCE: the result is what a fresh object (empty cache) in the same logical
     state returns -- the calls made before are irrelevant. *)
  Definition only_writes (h : list (op F M V)) : list (op F M V) :=
    filter (fun o => match o with Write _ _ => true | Call _ => false end) h.

  Lemma logical_only_writes : forall h st, logical st (only_writes h) = logical st h.
  Proof.
    induction h as [|o t IH]; intros st; [reflexivity|]. destruct o as [m|f v]; cbn; apply IH.
  Qed.

  Lemma only_writes_ok : forall h, Forall write_ok h -> Forall write_ok (only_writes h).
  Proof.
    intros h H. unfold only_writes. apply Forall_forall. intros o Ho. apply filter_In in Ho.
    rewrite Forall_forall in H. apply H. tauto.
  Qed.

  Theorem history_independence : forall s h m, cache_valid s -> Forall write_ok h -> good m ->
    result_after s h m = result_after (fst s, []) (only_writes h) m.
  Proof.
    intros s h m Hv Hw G. rewrite memo_transparent by assumption.
    rewrite memo_transparent; [|apply empty_cache_valid|apply only_writes_ok; assumption|assumption].
    cbn [fst]. rewrite logical_only_writes. reflexivity.
  Qed.

  (* TOGGLE SET + RESTORE IS NEUTRAL for good methods, whatever is called in between. *)
  Definition is_call (o : op F M V) : Prop := match o with Call _ => True | Write _ _ => False end.

  Lemma logical_calls : forall h st, Forall is_call h -> logical st h = st.
  Proof.
    induction h as [|o t IH]; intros st H; [reflexivity|]. inversion H; subst.
    destruct o; [|contradiction]. cbn. apply IH; assumption.
  Qed.

  Lemma logical_app : forall h1 h2 st, logical st (h1 ++ h2) = logical (logical st h1) h2.
  Proof.
    induction h1 as [|o t IH]; intros h2 st; [reflexivity|]. destruct o; cbn; apply IH.
  Qed.

  Theorem toggle_restore_neutral : forall s f v h m, cache_valid s -> writable f -> Forall is_call h -> good m ->
    result_after s (Write f v :: h ++ [Write f (fst s f)]) m = result_after s [] m.
  Proof.
    intros s f v h m Hv Wf Hc G.
    assert (W : Forall write_ok (Write f v :: h ++ [Write f (fst s f)])).
    { constructor; [exact Wf|]. apply Forall_app. split.
      + eapply Forall_impl; [|exact Hc]. intros o Ho. destruct o; [exact I|contradiction].
      + constructor; [exact Wf|constructor]. }
    pose proof (memo_transparent s _ m Hv W G) as E1.
    pose proof (memo_transparent s [] m Hv (Forall_nil _) G) as E2.
    rewrite E1, E2. f_equal.
    cbn [Memo.logical]. rewrite logical_app, (logical_calls h _ Hc). cbn.
    apply reads_sound. intros g _. destruct (feqb g f) eqn:E.
    + apply feqb_spec in E. subst g. apply update_same.
    + assert (g <> f) by (intros ->; assert (feqb f f = true) by (apply feqb_spec; reflexivity); congruence).
      rewrite !update_other by assumption. reflexivity.
  Qed.

  (* calls (derivations included) leave every field of every existing object as it was *)
  Theorem call_leaves_store : forall s m, fst (fst (step s (Call m))) = fst s.
  Proof.
    intros [st c] m. cbn. destruct (is_cached m); [destruct (lookup m c)|]; reflexivity.
  Qed.
End Memo.

(* ------------------------------------------------------------------ the race *)
Section Race.
  Variable V : Type.
  Variable fval : V.
  Notation config := (config V).
  Notation thread_step := (thread_step V fval).
  Notation sched_step := (sched_step V fval).
  Notation run_sched := (run_sched V fval).

  Definition pc_ok (p : pc V) : Prop := match p with Store r | Done r => r = fval | _ => True end.
  Definition slot_ok (s : option V) : Prop := match s with Some v => v = fval | None => True end.
  (* the slot holds nothing or the right value; stored/returned values are the right value; a
     thread has finished only if the slot is filled *)
  Definition cfg_ok (c : config) : Prop :=
    slot_ok (slot V c) /\ pc_ok (t0 V c) /\ pc_ok (t1 V c) /\
    (slot V c = None -> finished V (t0 V c) = None /\ finished V (t1 V c) = None).

  Lemma sched_step_ok : forall c who, cfg_ok c -> cfg_ok (sched_step c who).
  Proof.
    intros [s p0 p1] who (Hs & H0 & H1 & Hn). unfold cfg_ok, Memo.sched_step in *. cbn in *.
    destruct who; [destruct p1|destruct p0]; destruct s as [v|]; cbn in *;
      repeat split; auto; try discriminate; try (intros X; destruct (Hn X); auto; discriminate);
      try (intros X; discriminate X); try (destruct (Hn eq_refl); assumption).
  Qed.

  Lemma run_sched_ok : forall sch c, cfg_ok c -> cfg_ok (run_sched c sch).
  Proof.
    induction sch as [|w t IH]; intros c H; [assumption|]. cbn. apply IH. apply sched_step_ok; assumption.
  Qed.

  (* progress: a thread finishes within three of its own steps *)
  Definition rank (p : pc V) : nat := match p with Test => 3 | Compute => 2 | Store _ => 1 | Done _ => 0 end.

  Lemma thread_step_rank : forall s p, rank (snd (thread_step s p)) <= rank p - 1.
  Proof. intros s p. destruct p; cbn; try lia. destruct s; cbn; lia. Qed.

  Lemma run_sched_rank : forall sch c,
    rank (t0 V (run_sched c sch)) <= rank (t0 V c) - count_occ bool_dec sch false /\
    rank (t1 V (run_sched c sch)) <= rank (t1 V c) - count_occ bool_dec sch true.
  Proof.
    induction sch as [|w t IH]; intros c; [cbn; lia|].
    cbn [Memo.run_sched fold_left]. fold (run_sched (sched_step c w) t).
    destruct (IH (sched_step c w)) as [A B]. destruct c as [s p0 p1]. unfold Memo.sched_step in *. cbn in *.
    destruct w.
    - pose proof (thread_step_rank s p1) as R. destruct (thread_step s p1) as [s' p']. cbn in *.
      destruct (bool_dec true false) as [X|_]; [discriminate|]. destruct (bool_dec true true) as [_|X]; [|contradiction].
      split; lia.
    - pose proof (thread_step_rank s p0) as R. destruct (thread_step s p0) as [s' p']. cbn in *.
      destruct (bool_dec false true) as [X|_]; [discriminate|]. destruct (bool_dec false false) as [_|X]; [|contradiction].
      split; lia.
  Qed.

  Lemma rank0_done : forall p, rank p = 0 -> exists r, p = Done r.
  Proof. intros p H. destruct p; try discriminate. eexists; reflexivity. Qed.

  Definition init (s : option V) : config := mkConfig V s Test Test.

  (* INTERLEAVING CONFLUENCE: from an empty slot or one already filled with the right value, under
     EVERY schedule: whatever a thread returns is the value of the sequential run, the slot never
     holds anything else; and every schedule that gives each thread three steps finishes both with
     that value and the slot filled. *)
  Theorem interleaving_confluent : forall s sch, slot_ok s ->
    let c := run_sched (init s) sch in
    (forall r, finished V (t0 V c) = Some r -> r = fval) /\
    (forall r, finished V (t1 V c) = Some r -> r = fval) /\
    (forall v, slot V c = Some v -> v = fval) /\
    (3 <= count_occ bool_dec sch false -> 3 <= count_occ bool_dec sch true ->
       finished V (t0 V c) = Some fval /\ finished V (t1 V c) = Some fval /\ slot V c = Some fval).
  Proof.
    intros s sch Hs. cbv zeta. pose proof (run_sched_rank sch (init s)) as RK.
    remember (run_sched (init s) sch) as c eqn:Ec.
    assert (OK : cfg_ok c).
    { subst c. apply run_sched_ok. unfold cfg_ok, init. cbn. repeat split; auto. }
    destruct OK as (Os & O0 & O1 & On).
    split; [|split; [|split]].
    - intros r H. destruct (t0 V c); try discriminate. inversion H; subst. exact O0.
    - intros r H. destruct (t1 V c); try discriminate. inversion H; subst. exact O1.
    - intros v H. rewrite H in Os. exact Os.
    - intros H0 H1. destruct RK as [A B].
      change (rank (t0 V (init s))) with 3 in A. change (rank (t1 V (init s))) with 3 in B.
      assert (R0 : rank (t0 V c) = 0) by lia. assert (R1 : rank (t1 V c) = 0) by lia.
      destruct (rank0_done _ R0) as (r0 & E0). destruct (rank0_done _ R1) as (r1 & E1).
      rewrite E0 in O0. rewrite E1 in O1. cbn in O0, O1. subst r0 r1.
      rewrite E0, E1. cbn. repeat split.
      destruct (slot V c) as [v|] eqn:Es.
      + cbn in Os. subst v. reflexivity.
      + destruct (On eq_refl) as [X _]. rewrite E0 in X. discriminate.
  Qed.

  (* the sequential run, for reference: thread 0 computes and stores, thread 1 finds the value *)
  Lemma sequential_run : run_sched (init None) (sequential) = mkConfig V (Some fval) (Done fval) (Done fval).
  Proof. reflexivity. Qed.
End Race.

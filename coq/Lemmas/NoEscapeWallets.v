(* C14, wallet-level constructors and key containers of Model/C14b.v: Bip44 / Bip49 / Bip84 / Bip86 / Cip1852
   constructors, FromString of the mnemonic containers, the Cardano seed generators, the Sr25519 / Substrate key layers
   and the Electrum wallets from a seed.  All for every input and arbitrary oracles; the only relative statements are
   the ones whose model takes another layer as a parameter (master key of the coin's Bip32 class, child-key function),
   and those layers have their own lemmas (NoEscapeDeriv.v, NoEscapeCardano.v). *)
From Coq Require Import NArith ZArith Arith List Lia Bool.
From BU Require Import Base.Exn Base.Radix Base.Bytes Gen.Consts Gen.SerbipConsts Gen.Bip44Params Gen.Ecc Gen.C14bConsts.
From BU Require Model.Bip39 Model.Bip32Data Model.Bip32Ser Model.Bip44 Model.EccAdapter Model.ElectrumWallet Model.C14b.
From BU Require Import Lemmas.NoEscape Lemmas.NoEscapeDeriv.
From BU Require Lemmas.NoEscapeSer Lemmas.NoEscapeMnem Lemmas.NoEscapeEcc Lemmas.NoEscapeAddr.
Import ListNotations.
Open Scope N_scope.

(* ------------------------------------------------------------------ mnemonic containers: no error site *)
Lemma mnemonic_from_string_family s : in_family (C14b.mnemonic_from_string s) = true.
Proof. reflexivity. Qed.
Lemma bip39_mnemonic_from_string_family (nfkd lower : list N -> list N) s :
  in_family (C14b.bip39_mnemonic_from_string nfkd lower s) = true.
Proof. reflexivity. Qed.

(* ------------------------------------------------------------------ Cardano seed generators *)
Lemma icarus_seed_family (sha256 nfkd lower : list N -> list N) langs lang s :
  in_family (C14b.icarus_seed sha256 nfkd lower langs lang s) = true.
Proof. apply NoEscapeMnem.bip39_decode_str_family. Qed.
Lemma byron_legacy_seed_family (sha256 nfkd lower : list N -> list N) langs (blake2b_256 : list N -> list N) lang s :
  in_family (C14b.byron_legacy_seed sha256 nfkd lower langs blake2b_256 lang s) = true.
Proof. unfold C14b.byron_legacy_seed. apply fam_bind; [apply NoEscapeMnem.bip39_decode_str_family|reflexivity]. Qed.

(* ------------------------------------------------------------------ Bip44-family constructors *)
Lemma bip44_init_check_family (K : Type) (s : Bip44.state K) : in_family (Bip44.init_check K s) = true.
Proof. unfold Bip44.init_check. fam. Qed.

Section Bip44Ctors.
  Variable alph : list N.
  Variable radix : N.
  Variable cklen : nat.
  Variable sha256 : list N -> list N.
  Variable priv_ok : list N -> bool.
  Variable pub_parse : list N -> option (list N).

  Lemma bip44_init_family o : in_family (C14b.bip44_init o) = true.
  Proof. unfold C14b.bip44_init. apply fam_bind; [apply bip44_init_check_family|reflexivity]. Qed.

  (* Bip44 / Bip49 / Bip84 / Bip86 / Cip1852 .FromExtendedKey(str, coin) *)
  Lemma bip44_from_extended_family s v :
    in_family (C14b.bip44_from_extended alph radix cklen sha256 priv_ok pub_parse s v) = true.
  Proof.
    unfold C14b.bip44_from_extended. apply fam_bind; [apply NoEscapeSer.from_extended_family|]. intros o _. apply bip44_init_family.
  Qed.
  (* ... .FromPrivateKey(bytes, coin) / .FromPublicKey(bytes, coin) *)
  Lemma bip44_from_private_key_family raw : in_family (C14b.bip44_from_private_key priv_ok pub_parse raw) = true.
  Proof.
    unfold C14b.bip44_from_private_key. apply fam_bind; [apply NoEscapeSer.construct_family|]. intros o _. apply bip44_init_family.
  Qed.
  Lemma bip44_from_public_key_family pk : in_family (C14b.bip44_from_public_key priv_ok pub_parse pk) = true.
  Proof.
    unfold C14b.bip44_from_public_key. apply fam_bind; [apply NoEscapeSer.construct_family|]. intros o _. apply bip44_init_family.
  Qed.
End Bip44Ctors.

(* ... .FromSeed(bytes, coin): whatever the master-key function of the coin's Bip32 class returns, plus the (at depth 0
   vacuous) depth check *)
Lemma bip44_from_seed_fof (K : Type) (master : res K) :
  in_family_or_fuel master = true -> in_family_or_fuel (C14b.bip44_from_seed master) = true.
Proof.
  intros H. unfold C14b.bip44_from_seed. apply fof_bind; [exact H|]. intros k _.
  apply family_or_fuel_of_family. unfold Bip44.from_seed. apply bip44_init_check_family.
Qed.

(* ------------------------------------------------------------------ Sr25519 / Substrate key layers *)
Lemma sr_is_valid_family b : in_family (C14b.sr_priv_is_valid b) = true /\ in_family (C14b.sr_pub_is_valid b) = true.
Proof.
  split; [unfold C14b.sr_priv_is_valid|unfold C14b.sr_pub_is_valid]; apply NoEscapeEcc.is_valid_total;
    [apply NoEscapeEcc.sr_priv_from_bytes_family|apply NoEscapeEcc.sr_pub_from_bytes_family].
Qed.
Lemma sr_point_from_bytes_family b : in_family (C14b.sr_point_from_bytes b) = true.
Proof. reflexivity. Qed.

Lemma sub_key_err_family {A} (r : res A) : in_family r = true -> in_family (C14b.sub_key_err r) = true.
Proof. destruct r as [a|e]; [reflexivity|]. destruct e; simpl; intros H; try discriminate; reflexivity. Qed.

Lemma substrate_priv_from_bytes_family b : in_family (C14b.substrate_priv_from_bytes b) = true.
Proof. apply sub_key_err_family, NoEscapeEcc.sr_priv_from_bytes_family. Qed.
Lemma substrate_pub_from_bytes_family b : in_family (C14b.substrate_pub_from_bytes b) = true.
Proof. apply sub_key_err_family, NoEscapeEcc.sr_pub_from_bytes_family. Qed.

Section Substrate.
  Variable pub_of_secret : list N -> option (list N).
  Variable pair_from_seed : list N -> list N * list N.
  Lemma substrate_from_private_key_family b : in_family (C14b.substrate_from_private_key pub_of_secret b) = true.
  Proof.
    unfold C14b.substrate_from_private_key. apply fam_bind; [apply substrate_priv_from_bytes_family|]. intros k _.
    apply fam_bind; [apply fam_of_option; reflexivity|reflexivity].
  Qed.
  Lemma substrate_from_public_key_family b : in_family (C14b.substrate_from_public_key b) = true.
  Proof. unfold C14b.substrate_from_public_key. apply fam_bind; [apply substrate_pub_from_bytes_family|reflexivity]. Qed.
  Lemma substrate_from_seed_family seed : in_family (C14b.substrate_from_seed pair_from_seed seed) = true.
  Proof.
    unfold C14b.substrate_from_seed. destruct (_ <=? _)%nat; [|reflexivity].
    destruct (pair_from_seed _) as [pub sec].
    apply fam_bind; [apply substrate_priv_from_bytes_family|]. intros k _.
    apply fam_bind; [apply substrate_pub_from_bytes_family|reflexivity].
  Qed.
End Substrate.

(* ------------------------------------------------------------------ Electrum wallets from a seed *)
Lemma electrum_v1_from_seed_family (G : Type) seed : in_family (C14b.electrum_v1_from_seed G seed) = true.
Proof. apply NoEscapeAddr.electrum_v1_from_private_key_family. Qed.

Section ElectrumV2.
  Variable obj : Type.
  Variable ckd : obj -> N -> res obj.
  Variable obj_depth : obj -> N.
  Variable from_seed : list N -> res obj.
  Hypothesis from_seed_fof : forall seed, in_family_or_fuel (from_seed seed) = true.
  Hypothesis ckd_fof : forall o i, in_family_or_fuel (ckd o i) = true.

  Lemma electrum_v2_standard_from_seed_fof seed :
    in_family_or_fuel (C14b.electrum_v2_standard_from_seed obj obj_depth from_seed seed) = true.
  Proof.
    unfold C14b.electrum_v2_standard_from_seed. apply fof_bind; [apply from_seed_fof|]. intros m _.
    unfold ElectrumWallet.v2_new. destruct (_ <? _); reflexivity.
  Qed.
  Lemma electrum_v2_segwit_from_seed_fof seed :
    in_family_or_fuel (C14b.electrum_v2_segwit_from_seed obj ckd obj_depth from_seed seed) = true.
  Proof.
    unfold C14b.electrum_v2_segwit_from_seed. apply fof_bind; [apply from_seed_fof|]. intros m _.
    unfold ElectrumWallet.v2_segwit_new. apply fof_bind; [unfold ElectrumWallet.v2_new; destruct (_ <? _); reflexivity|].
    intros m' _. apply ckd_fof.
  Qed.
End ElectrumV2.

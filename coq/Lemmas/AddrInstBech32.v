(* The Bech32 / SegWit / CashAddr codec laws that Lemmas/AddrText.v takes as hypotheses, derived
   from the codec theorems of property C10 (Lemmas/Bech32.v), and the address pipelines on the
   concrete codecs. *)
From Coq Require Import NArith ZArith Arith List Bool Lia.
From BU Require Import Base.Exn Base.Bytes Gen.Consts Gen.AddrConsts Gen.AddrTextConsts Gen.Bech32Consts
  Model.Bech32 Model.AddrUtils Model.AddrB58 Model.AddrText.
From BU Require Lemmas.Bech32 Lemmas.AddrText Lemmas.AddrB58.
Import ListNotations.
Open Scope N_scope.

Notation hrp_enc_ok := Lemmas.Bech32.hrp_enc_ok.
Notation segwit_prog_ok := Lemmas.Bech32.segwit_prog_ok.

Lemma bech32_rt hrp d s : hrp_enc_ok hrp -> bytes_ok d -> d <> [] ->
  bech32_encode hrp d = Ok s -> bech32_decode hrp s = Ok d.
Proof.
  intros Hh Hd Hn E. destruct (Lemmas.Bech32.bech32_dec_enc hrp d Hh Hd (or_introl Hn)) as (s' & E1 & E2).
  rewrite E in E1. assert (s = s') by (unfold Ok in E1; congruence). subst s'. exact E2.
Qed.

Lemma segwit_rt hrp v p s : hrp_enc_ok hrp -> bytes_ok p -> segwit_prog_ok v p ->
  segwit_encode hrp v p = Ok s -> segwit_decode hrp s = Ok (v, p).
Proof.
  intros Hh Hp Hv E. destruct (Lemmas.Bech32.segwit_dec_enc hrp v p Hh Hp Hv) as (s' & E1 & E2).
  rewrite E in E1. assert (s = s') by (unfold Ok in E1; congruence). subst s'. exact E2.
Qed.

Lemma cash_rt hrp b d s : hrp_enc_ok hrp -> b < 256 -> bytes_ok d ->
  cash_encode hrp [b] d = Ok s -> cash_decode hrp s = Ok ([b], d).
Proof.
  intros Hh Hb Hd E. destruct (Lemmas.Bech32.cash_dec_enc hrp b d Hh Hb Hd) as (s' & E1 & E2).
  rewrite E in E1. assert (s = s') by (unfold Ok in E1; congruence). subst s'. exact E2.
Qed.

(* the witness-program rule holds for the programs the address encoders build *)
Lemma prog_ok_v0_20 p : length p = 20%nat -> segwit_prog_ok p2wpkh_wit_ver p.
Proof.
  intros L. unfold Lemmas.Bech32.segwit_prog_ok. rewrite L. split; [vm_compute; lia|]. split; [vm_compute; discriminate|].
  intros _. vm_compute. auto.
Qed.
Lemma prog_ok_v1_32 p : length p = 32%nat -> segwit_prog_ok p2tr_wit_ver p.
Proof.
  intros L. unfold Lemmas.Bech32.segwit_prog_ok. rewrite L. split; [vm_compute; lia|]. split; [vm_compute; discriminate|].
  intros H. vm_compute in H. discriminate.
Qed.

(* the HRPs fixed by the library are well-formed *)
Lemma lib_hrps_ok : Forall hrp_enc_ok [egld_hrp; inj_hrp; okex_hrp; one_hrp; zil_hrp; avax_p_hrp; avax_x_hrp].
Proof.
  repeat constructor; try discriminate;
    match goal with |- _ <= _ => apply N.leb_le; reflexivity | |- ~ _ => intros [A B]; apply N.leb_le in A, B; vm_compute in A, B; discriminate end.
Qed.

Section Inst.
  Variables sha256 ripemd160 keccak256 : list N -> list N.
  Variable valid_pub : N -> list N -> bool.
  Variable taproot_tweak : list N -> list N.
  Hypothesis rip_len : forall x, length (ripemd160 x) = 20%nat.
  Hypothesis rip_ok : forall x, bytes_ok (ripemd160 x).
  Hypothesis sha_len : forall x, length (sha256 x) = 32%nat.
  Hypothesis sha_ok : forall x, bytes_ok (sha256 x).
  Hypothesis kec_len : forall x, length (keccak256 x) = 32%nat.
  Hypothesis kec_ok : forall x, bytes_ok (keccak256 x).

  Notation h160 := (hash160 sha256 ripemd160).

  Theorem atom_rt hrp pub s : hrp_enc_ok hrp ->
    atom_encode sha256 ripemd160 bech32_encode hrp pub = Ok s -> atom_decode bech32_decode hrp s = Ok (h160 pub).
  Proof.
    exact (Lemmas.AddrText.atom_decode_encode sha256 ripemd160 bech32_encode bech32_decode rip_len rip_ok
             hrp_enc_ok bech32_rt hrp pub s).
  Qed.

  Theorem avax_rt prefix hrp pub s : hrp_enc_ok hrp ->
    avax_encode sha256 ripemd160 bech32_encode prefix hrp pub = Ok s ->
    avax_decode bech32_decode prefix hrp s = Ok (h160 pub).
  Proof.
    exact (Lemmas.AddrText.avax_decode_encode sha256 ripemd160 bech32_encode bech32_decode rip_len rip_ok
             hrp_enc_ok bech32_rt prefix hrp pub s).
  Qed.

  Theorem egld_rt pub s : bytes_ok pub -> egld_encode bech32_encode pub = Ok s ->
    length pub = (ed25519_compr_len - 1)%nat -> valid_pub 2 pub = true ->
    egld_decode valid_pub bech32_decode s = Ok pub.
  Proof.
    pose proof lib_hrps_ok as F. inversion F as [|? ? H1 _]; subst.
    exact (Lemmas.AddrText.egld_decode_encode valid_pub bech32_encode bech32_decode hrp_enc_ok bech32_rt pub s H1).
  Qed.

  Theorem zil_rt pub s : zil_encode sha256 bech32_encode pub = Ok s ->
    zil_decode bech32_decode s = Ok (take_last zil_hash_len (sha256 pub)).
  Proof.
    assert (H : hrp_enc_ok zil_hrp) by (pose proof lib_hrps_ok as F; rewrite Forall_forall in F; apply F; simpl; tauto).
    exact (Lemmas.AddrText.zil_decode_encode sha256 bech32_encode bech32_decode sha_len sha_ok hrp_enc_ok bech32_rt pub s H).
  Qed.

  Theorem inj_rt pub_u s : ethb32_encode keccak256 bech32_encode inj_hrp pub_u = Ok s ->
    inj_decode bech32_decode s = Ok (skipn 12 (keccak256 (tl pub_u))).
  Proof.
    assert (H : hrp_enc_ok inj_hrp) by (pose proof lib_hrps_ok as F; rewrite Forall_forall in F; apply F; simpl; tauto).
    exact (Lemmas.AddrText.inj_decode_encode keccak256 bech32_encode bech32_decode kec_len kec_ok hrp_enc_ok bech32_rt pub_u s H).
  Qed.

  Theorem ethb32_rt hrp pub_u s : In hrp [okex_hrp; one_hrp] ->
    ethb32_encode keccak256 bech32_encode hrp pub_u = Ok s ->
    ethb32_decode keccak256 bech32_decode hrp s = Ok (skipn 12 (keccak256 (tl pub_u))).
  Proof.
    intros I. assert (H : hrp_enc_ok hrp).
    { pose proof lib_hrps_ok as F. rewrite Forall_forall in F. apply F. simpl in *. tauto. }
    exact (Lemmas.AddrText.ethb32_decode_encode keccak256 bech32_encode bech32_decode kec_len kec_ok hrp_enc_ok bech32_rt hrp pub_u s H).
  Qed.

  Theorem p2wpkh_rt hrp pub s : hrp_enc_ok hrp ->
    p2wpkh_encode sha256 ripemd160 segwit_encode hrp pub = Ok s ->
    p2wpkh_decode segwit_decode hrp s = Ok (h160 pub).
  Proof.
    intros Hh. apply (Lemmas.AddrText.p2wpkh_decode_encode sha256 ripemd160 segwit_encode segwit_decode rip_len rip_ok
                        hrp_enc_ok segwit_prog_ok segwit_rt hrp pub s Hh).
    apply prog_ok_v0_20. unfold hash160. apply rip_len.
  Qed.

  Theorem p2tr_rt hrp pub s : hrp_enc_ok hrp -> bytes_ok (taproot_tweak pub) ->
    length (taproot_tweak pub) = (secp_compr_len - 1)%nat ->
    p2tr_encode segwit_encode taproot_tweak hrp pub = Ok s ->
    p2tr_decode segwit_decode hrp s = Ok (taproot_tweak pub).
  Proof.
    intros Hh Hb L. apply (Lemmas.AddrText.p2tr_decode_encode segwit_encode segwit_decode taproot_tweak
                             hrp_enc_ok segwit_prog_ok segwit_rt hrp pub s Hh Hb); [|exact L].
    apply prog_ok_v1_32. exact L.
  Qed.

  Theorem bch_p2pkh_rt hrp b pub s : hrp_enc_ok hrp -> b < 256 ->
    bch_p2pkh_encode sha256 ripemd160 cash_encode hrp [b] pub = Ok s ->
    bch_decode cash_decode hrp [b] s = Ok (h160 pub).
  Proof.
    exact (Lemmas.AddrText.bch_p2pkh_decode_encode sha256 ripemd160 cash_encode cash_decode rip_len rip_ok
             hrp_enc_ok cash_rt hrp b pub s).
  Qed.

  Theorem bch_p2sh_rt hrp b pub s : hrp_enc_ok hrp -> b < 256 ->
    bch_p2sh_encode sha256 ripemd160 cash_encode hrp [b] pub = Ok s ->
    bch_decode cash_decode hrp [b] s = Ok (p2sh_script_hash sha256 ripemd160 pub).
  Proof.
    exact (Lemmas.AddrText.bch_p2sh_decode_encode sha256 ripemd160 cash_encode cash_decode rip_len rip_ok
             hrp_enc_ok cash_rt hrp b pub s).
  Qed.
End Inst.

(* Proofs about Model/BinStr.v: fixed-width digits, k -> k*m bit regrouping, and the Python
   binary-/hex-string helpers expressed through them. *)
From Coq Require Import NArith Arith List Lia Bool.
From BU Require Import Base.Exn Base.Radix Base.Bytes Model.BinStr.
Import ListNotations.
Open Scope N_scope.

(* ------------------------------------------------------------------ generic list facts *)

Lemma rev_flat_map {A B} (f : A -> list B) l : rev (flat_map f l) = flat_map (fun x => rev (f x)) (rev l).
Proof.
  induction l as [|a t IH]; [reflexivity|]. cbn [flat_map rev].
  rewrite rev_app_distr, IH, flat_map_app. cbn [flat_map]. rewrite app_nil_r. reflexivity.
Qed.

Lemma flat_map_length_const {A B} (f : A -> list B) k l : (forall x, length (f x) = k) ->
  length (flat_map f l) = (k * length l)%nat.
Proof.
  intros H. induction l as [|a t IH]; cbn [flat_map length]; [lia|].
  rewrite app_length, H, IH. lia.
Qed.

Lemma flat_map_map {A B C} (g : A -> B) (f : B -> list C) l : flat_map f (map g l) = flat_map (fun x => f (g x)) l.
Proof. induction l as [|a t IH]; [reflexivity|]. cbn [map flat_map]. rewrite IH. reflexivity. Qed.

Lemma flat_map_id_concat {A} (l : list (list A)) : flat_map (fun x => x) l = concat l.
Proof. induction l as [|a t IH]; [reflexivity|]. cbn [flat_map concat]. rewrite IH. reflexivity. Qed.

Lemma flat_map_ext_in {A B} (f g : A -> list B) l : (forall x, In x l -> f x = g x) -> flat_map f l = flat_map g l.
Proof.
  induction l as [|a t IH]; intros H; [reflexivity|]. cbn [flat_map].
  rewrite H by (left; reflexivity). rewrite IH; [reflexivity|]. intros x Hx. apply H. right. exact Hx.
Qed.

Lemma map_flat_map {A B C} (g : B -> C) (f : A -> list B) l : map g (flat_map f l) = flat_map (fun x => map g (f x)) l.
Proof. induction l as [|a t IH]; [reflexivity|]. cbn [flat_map]. rewrite map_app, IH. reflexivity. Qed.

Lemma map_repeat {A B} (f : A -> B) x k : map f (repeat x k) = repeat (f x) k.
Proof. induction k; simpl; congruence. Qed.

Lemma map_id_in {A} (f : A -> A) l : (forall x, In x l -> f x = x) -> map f l = l.
Proof.
  induction l as [|a t IH]; intros H; [reflexivity|]. cbn [map].
  rewrite H by (left; reflexivity). rewrite IH; [reflexivity|]. intros x Hx. apply H. right. exact Hx.
Qed.

(* ------------------------------------------------------------------ chunk *)

Lemma chunk_length k m l : length (chunk k m l) = m.
Proof. revert l. induction m as [|m IH]; intros l; simpl; [reflexivity|]. rewrite IH. reflexivity. Qed.

Lemma firstn_app_exact {A} k (a b : list A) : length a = k -> firstn k (a ++ b) = a.
Proof. intros <-. rewrite firstn_app, Nat.sub_diag, firstn_all. cbn [firstn]. apply app_nil_r. Qed.
Lemma skipn_app_exact {A} k (a b : list A) : length a = k -> skipn k (a ++ b) = b.
Proof. intros <-. rewrite skipn_app, Nat.sub_diag, skipn_all. reflexivity. Qed.

Lemma chunk_flat_map {A} (f : A -> list N) k ds : (forall x, length (f x) = k) ->
  chunk k (length ds) (flat_map f ds) = map f ds.
Proof.
  intros H. induction ds as [|d t IH]; [reflexivity|]. cbn [length flat_map chunk map].
  rewrite firstn_app_exact, skipn_app_exact by apply H. f_equal. exact IH.
Qed.

Lemma concat_chunk k m : forall l, length l = (k * m)%nat -> concat (chunk k m l) = l.
Proof.
  induction m as [|m IH]; intros l Hl.
  - rewrite Nat.mul_0_r in Hl. destruct l; [reflexivity|discriminate].
  - cbn [chunk concat]. rewrite IH; [apply firstn_skipn|]. rewrite skipn_length. lia.
Qed.

Lemma chunk_each k m : forall l c, length l = (k * m)%nat -> In c (chunk k m l) ->
  length c = k /\ (forall x, In x c -> In x l).
Proof.
  induction m as [|m IH]; intros l c Hl Hin; [destruct Hin|]. cbn [chunk] in Hin.
  destruct Hin as [<-|Hin].
  - split; [rewrite firstn_length; lia|]. intros x Hx. rewrite <- (firstn_skipn k l). apply in_or_app. auto.
  - destruct (IH (skipn k l) c) as [A B]; [rewrite skipn_length; lia|exact Hin|].
    split; [exact A|]. intros x Hx. rewrite <- (firstn_skipn k l). apply in_or_app. right. auto.
Qed.

Lemma skipn_add {A} a : forall b (l : list A), skipn a (skipn b l) = skipn (b + a) l.
Proof.
  intros b. induction b as [|b IH]; intros l; [reflexivity|].
  destruct l as [|x t]; [rewrite !skipn_nil; reflexivity|]. cbn [skipn Nat.add]. apply IH.
Qed.

(* the slicing loop of the encoder is [chunk] *)
Lemma slices_chunk k m : forall l,
  map (fun i => slice (i * k) ((i + 1) * k) l) (seq 0 m) = chunk k m l.
Proof.
  induction m as [|m IH]; intros l; [reflexivity|].
  cbn [seq map chunk]. f_equal.
  - unfold slice. cbn. rewrite Nat.add_0_r, Nat.sub_0_r. reflexivity.
  - rewrite <- seq_shift, map_map, <- IH. apply map_ext. intros i. unfold slice.
    rewrite skipn_add.
    replace ((S i + 1) * k - S i * k)%nat with k by lia.
    replace ((i + 1) * k - i * k)%nat with k by lia.
    replace (k + i * k)%nat with (S i * k)%nat by lia. reflexivity.
Qed.

(* ------------------------------------------------------------------ fixed-width digits *)

Lemma fixed_le_length r w : forall v, length (fixed_le r w v) = w.
Proof. induction w as [|w IH]; intros v; simpl; [reflexivity|]. rewrite IH. reflexivity. Qed.

Lemma fixed_be_length r w v : length (fixed_be r w v) = w.
Proof. unfold fixed_be. rewrite rev_length. apply fixed_le_length. Qed.

Section Fixed.
  Variable r : N.
  Hypothesis r_ge2 : 2 <= r.

  Lemma fixed_le_digits w : forall v, digits_ok r (fixed_le r w v).
  Proof.
    induction w as [|w IH]; intros v; simpl; constructor; [apply N.mod_lt; lia|apply IH].
  Qed.

  Lemma fixed_be_digits w v : digits_ok r (fixed_be r w v).
  Proof. apply digits_ok_rev, fixed_le_digits. Qed.

  Lemma from_le_fixed w : forall v, from_le r (fixed_le r w v) = v mod r ^ N.of_nat w.
  Proof.
    induction w as [|w IH]; intros v.
    - simpl. rewrite N.mod_1_r. reflexivity.
    - cbn [fixed_le from_le]. rewrite IH, Nnat.Nat2N.inj_succ, N.pow_succ_r'.
      symmetry. apply N.mod_mul_r; [lia|]. apply N.pow_nonzero. lia.
  Qed.

  Lemma fixed_le_from_le ds : digits_ok r ds -> fixed_le r (length ds) (from_le r ds) = ds.
  Proof.
    induction 1 as [|d t Hd Ht IH]; [reflexivity|]. cbn [length fixed_le from_le].
    assert (E1 : (d + r * from_le r t) mod r = d).
    { rewrite (N.mul_comm r), N.mod_add by lia. apply N.mod_small. exact Hd. }
    assert (E2 : (d + r * from_le r t) / r = from_le r t).
    { rewrite (N.mul_comm r), N.div_add by lia. rewrite N.div_small by exact Hd. reflexivity. }
    rewrite E1, E2, IH. reflexivity.
  Qed.

  Lemma digits_unique a b : digits_ok r a -> digits_ok r b -> length a = length b ->
    from_le r a = from_le r b -> a = b.
  Proof.
    intros Ha Hb L E. rewrite <- (fixed_le_from_le a Ha), <- (fixed_le_from_le b Hb), L, E. reflexivity.
  Qed.

  Lemma fixed_le_mod w v : fixed_le r w (v mod r ^ N.of_nat w) = fixed_le r w v.
  Proof.
    apply digits_unique; try apply fixed_le_digits.
    - rewrite !fixed_le_length. reflexivity.
    - rewrite !from_le_fixed. apply N.mod_mod. apply N.pow_nonzero. lia.
  Qed.

  Lemma fixed_le_zero w : fixed_le r w 0 = repeat 0 w.
  Proof.
    induction w as [|w IH]; [reflexivity|]. cbn [fixed_le repeat].
    rewrite N.mod_0_l, N.div_0_l by lia. rewrite IH. reflexivity.
  Qed.

  Lemma to_le_pad w v : v < r ^ N.of_nat w ->
    to_le r v ++ repeat 0 (w - length (to_le r v)) = fixed_le r w v.
  Proof.
    intros Hv. pose proof (to_le_length_le r r_ge2 v w Hv) as L.
    set (ds := to_le r v ++ repeat 0 (w - length (to_le r v))).
    assert (Hl : length ds = w) by (unfold ds; rewrite app_length, repeat_length; lia).
    assert (Hd : digits_ok r ds).
    { unfold ds. apply digits_ok_app. split; [apply to_le_digits; exact r_ge2|apply digits_ok_zeros; exact r_ge2]. }
    assert (Hf : from_le r ds = v) by (unfold ds; rewrite from_le_pad by exact r_ge2; apply from_to_le; exact r_ge2).
    transitivity (fixed_le r (length ds) (from_le r ds)).
    - symmetry. apply fixed_le_from_le. exact Hd.
    - rewrite Hl, Hf. reflexivity.
  Qed.

  Lemma to_be_pad w v : v < r ^ N.of_nat w ->
    repeat 0 (w - length (to_be r v)) ++ to_be r v = fixed_be r w v.
  Proof.
    intros Hv. unfold to_be, fixed_be. rewrite <- (to_le_pad w v Hv), rev_app_distr, rev_repeat, rev_length.
    reflexivity.
  Qed.

  Lemma from_be_fixed w v : from_be r (fixed_be r w v) = v mod r ^ N.of_nat w.
  Proof. unfold from_be, fixed_be. rewrite rev_involutive. apply from_le_fixed. Qed.

  Lemma fixed_be_from_be ds : digits_ok r ds -> fixed_be r (length ds) (from_be r ds) = ds.
  Proof.
    intros H. unfold from_be, fixed_be. rewrite <- (rev_length ds).
    rewrite fixed_le_from_le by (apply digits_ok_rev; exact H). apply rev_involutive.
  Qed.

  Lemma from_be_lt ds : digits_ok r ds -> from_be r ds < r ^ N.of_nat (length ds).
  Proof.
    intros H. unfold from_be. rewrite <- (rev_length ds). apply from_le_lt; [exact r_ge2|].
    apply digits_ok_rev. exact H.
  Qed.

  Lemma fixed_be_zero w : fixed_be r w 0 = repeat 0 w.
  Proof. unfold fixed_be. rewrite fixed_le_zero. apply rev_repeat. Qed.

  (* ---- regrouping: m digits in radix r^k are k*m digits in radix r ---- *)
  Variable k : nat.
  Hypothesis k_pos : (0 < k)%nat.
  Let R := r ^ N.of_nat k.

  Lemma R_ge2 : 2 <= R.
  Proof.
    unfold R. destruct k as [|k']; [lia|].
    rewrite Nnat.Nat2N.inj_succ, N.pow_succ_r'.
    assert (1 <= r ^ N.of_nat k') by (apply N.lt_pred_le; simpl; apply N.neq_0_lt_0, N.pow_nonzero; lia).
    nia.
  Qed.

  Lemma from_le_flat ds : from_le r (flat_map (fixed_le r k) ds) = from_le R (map (fun d => d mod R) ds).
  Proof.
    induction ds as [|d t IH]; [reflexivity|]. cbn [flat_map map from_le].
    rewrite from_le_app by exact r_ge2. rewrite from_le_fixed, fixed_le_length, IH. reflexivity.
  Qed.

  Lemma regroup_le m v : flat_map (fixed_le r k) (fixed_le R m v) = fixed_le r (k * m) v.
  Proof.
    apply digits_unique.
    - unfold digits_ok. apply Forall_forall. intros x Hx. apply in_flat_map in Hx as (d & _ & Hx).
      pose proof (fixed_le_digits k d) as Hd. unfold digits_ok in Hd. rewrite Forall_forall in Hd. auto.
    - apply fixed_le_digits.
    - rewrite (flat_map_length_const _ k) by (intros; apply fixed_le_length).
      rewrite !fixed_le_length. reflexivity.
    - rewrite from_le_flat, from_le_fixed.
      rewrite map_id_in.
      + (* from_le R (fixed_le R m v) = v mod R^m *)
        assert (G : forall w u, from_le R (fixed_le R w u) = u mod R ^ N.of_nat w).
        { pose proof R_ge2 as HR. induction w as [|w IHw]; intros u.
          - simpl. rewrite N.mod_1_r. reflexivity.
          - cbn [fixed_le from_le]. rewrite IHw, Nnat.Nat2N.inj_succ, N.pow_succ_r'.
            symmetry. apply N.mod_mul_r; [lia|]. apply N.pow_nonzero. lia. }
        rewrite G. unfold R. rewrite <- N.pow_mul_r, <- Nnat.Nat2N.inj_mul. reflexivity.
      + intros x Hx. apply N.mod_small.
        assert (D : forall w u, Forall (fun d => d < R) (fixed_le R w u)).
        { pose proof R_ge2 as HR. induction w as [|w IHw]; intros u; simpl; constructor;
            [apply N.mod_lt; lia|apply IHw]. }
        specialize (D m v). rewrite Forall_forall in D. auto.
  Qed.

  Lemma regroup_be m v : flat_map (fixed_be r k) (fixed_be R m v) = fixed_be r (k * m) v.
  Proof.
    unfold fixed_be at 3. rewrite <- regroup_le, rev_flat_map. reflexivity.
  Qed.
End Fixed.

(* ------------------------------------------------------------------ bits, groups *)

Lemma r2 : 2 <= 2. Proof. lia. Qed.
Lemma r16 : 2 <= 16. Proof. lia. Qed.

Lemma groups_flat k ds : (0 < k)%nat ->
  groups k (flat_map (fixed_be 2 k) ds) = map (fun d => d mod 2 ^ N.of_nat k) ds.
Proof.
  intros Hk. unfold groups.
  rewrite (flat_map_length_const _ k) by (intros; apply fixed_be_length).
  rewrite Nat.mul_comm, Nat.div_mul by lia.
  rewrite chunk_flat_map by (intros; apply fixed_be_length).
  rewrite map_map. apply map_ext. intros d. unfold bits_to_N. apply from_be_fixed. exact r2.
Qed.

Lemma flat_groups k m bits : (0 < k)%nat -> digits_ok 2 bits -> length bits = (k * m)%nat ->
  flat_map (fixed_be 2 k) (groups k bits) = bits.
Proof.
  intros Hk Hd Hl. unfold groups. rewrite Hl, Nat.mul_comm, Nat.div_mul by lia.
  rewrite flat_map_map.
  rewrite (flat_map_ext_in _ (fun x => x)).
  - rewrite flat_map_id_concat. apply concat_chunk. exact Hl.
  - intros c Hc. destruct (chunk_each k m bits c Hl Hc) as [Lc Ic].
    unfold bits_to_N. rewrite <- Lc at 1. apply fixed_be_from_be; [exact r2|].
    unfold digits_ok in *. rewrite Forall_forall in *. auto.
Qed.

Lemma groups_length k m bits : (0 < k)%nat -> length bits = (k * m)%nat -> length (groups k bits) = m.
Proof.
  intros Hk Hl. unfold groups. rewrite map_length, chunk_length, Hl, Nat.mul_comm, Nat.div_mul by lia.
  reflexivity.
Qed.

Lemma groups_lt k m bits g : (0 < k)%nat -> digits_ok 2 bits -> length bits = (k * m)%nat ->
  In g (groups k bits) -> g < 2 ^ N.of_nat k.
Proof.
  intros Hk Hd Hl Hg. unfold groups in Hg. rewrite Hl, Nat.mul_comm, Nat.div_mul in Hg by lia.
  apply in_map_iff in Hg as (c & <- & Hc). destruct (chunk_each k m bits c Hl Hc) as [Lc Ic].
  unfold bits_to_N. rewrite <- Lc. apply from_be_lt; [exact r2|].
  unfold digits_ok in *. rewrite Forall_forall in *. auto.
Qed.

Lemma bits_of_bytes_length b : length (bits_of_bytes b) = (8 * length b)%nat.
Proof. apply flat_map_length_const. intros. apply fixed_be_length. Qed.

Lemma bits_of_bytes_digits b : digits_ok 2 (bits_of_bytes b).
Proof.
  unfold digits_ok, bits_of_bytes. apply Forall_forall. intros x Hx.
  apply in_flat_map in Hx as (d & _ & Hx).
  pose proof (fixed_be_digits 2 r2 8 d) as H. unfold digits_ok in H. rewrite Forall_forall in H. auto.
Qed.

Lemma pow2_8 : 2 ^ N.of_nat 8 = 256. Proof. reflexivity. Qed.
Lemma pow16_2 : 16 ^ N.of_nat 2 = 256. Proof. reflexivity. Qed.

Lemma bytes_of_bits_of_bytes b : bytes_ok b -> bytes_of_bits (bits_of_bytes b) = b.
Proof.
  intros Hb. unfold bytes_of_bits, bits_of_bytes. rewrite groups_flat by lia.
  apply map_id_in. intros x Hx. rewrite pow2_8. apply N.mod_small.
  unfold bytes_ok in Hb. rewrite Forall_forall in Hb. auto.
Qed.

(* the 8n-bit big-endian representation of int.from_bytes(b) is the concatenation of the bytes' bits *)
Lemma fixed_be_bytes b : bytes_ok b -> fixed_be 2 (8 * length b) (be_to_int b) = bits_of_bytes b.
Proof.
  intros Hb. rewrite <- (regroup_be 2 r2 8 ltac:(lia)). rewrite pow2_8.
  unfold be_to_int. rewrite (fixed_be_from_be 256 r256 b Hb). reflexivity.
Qed.

(* n bytes from 8n bits *)
Lemma fixed_be_256_bits n bits : digits_ok 2 bits -> length bits = (8 * n)%nat ->
  fixed_be 256 n (from_be 2 bits) = bytes_of_bits bits.
Proof.
  intros Hd Hl. unfold bytes_of_bits.
  assert (E : flat_map (fixed_be 2 8) (fixed_be 256 n (from_be 2 bits)) = bits).
  { rewrite <- pow2_8. rewrite (regroup_be 2 r2 8 ltac:(lia)). rewrite <- Hl.
    apply fixed_be_from_be; [exact r2|exact Hd]. }
  rewrite <- E at 2. rewrite groups_flat by lia. symmetry. apply map_id_in.
  intros x Hx. rewrite pow2_8. apply N.mod_small.
  pose proof (fixed_be_digits 256 r256 n (from_be 2 bits)) as H. unfold digits_ok in H.
  rewrite Forall_forall in H. auto.
Qed.

Lemma bytes_of_bits_ok n bits : digits_ok 2 bits -> length bits = (8 * n)%nat ->
  bytes_ok (bytes_of_bits bits) /\ length (bytes_of_bits bits) = n /\ bits_of_bytes (bytes_of_bits bits) = bits.
Proof.
  intros Hd Hl. rewrite <- (fixed_be_256_bits n bits Hd Hl). split; [|split].
  - apply (fixed_be_digits 256 r256).
  - apply fixed_be_length.
  - unfold bits_of_bytes. rewrite <- pow2_8. rewrite (regroup_be 2 r2 8 ltac:(lia)). rewrite <- Hl.
    apply fixed_be_from_be; [exact r2|exact Hd].
Qed.

(* ------------------------------------------------------------------ Python strings *)

Definition py_digits (r v : N) : list N := if v =? 0 then [48] else map digit_char (to_be r v).

Lemma py_bin_digits v : py_bin v = py_digits 2 v. Proof. reflexivity. Qed.
Lemma py_hex_digits v : py_hex v = py_digits 16 v. Proof. reflexivity. Qed.

Lemma zfill_py_digits r w v : 2 <= r -> (0 < w)%nat -> v < r ^ N.of_nat w ->
  zfill w (py_digits r v) = map digit_char (fixed_be r w v).
Proof.
  intros Hr Hw Hv. unfold zfill, py_digits. destruct (N.eqb_spec v 0) as [->|Hn].
  - rewrite (fixed_be_zero r Hr), map_repeat. change (digit_char 0) with 48. cbn [length].
    destruct w as [|w]; [lia|]. replace (S w - 1)%nat with w by lia.
    change [48] with (repeat 48 1). rewrite <- repeat_app. f_equal. lia.
  - rewrite map_length. rewrite <- (to_be_pad r Hr w v Hv), map_app, map_repeat. reflexivity.
Qed.

Lemma int_to_binstr_fixed w v : (0 < w)%nat -> v < 2 ^ N.of_nat w ->
  int_to_binstr v w = map digit_char (fixed_be 2 w v).
Proof. intros. unfold int_to_binstr. rewrite py_bin_digits. apply zfill_py_digits; auto. lia. Qed.

Lemma bin_digit_char d : d < 2 -> bin_digit (digit_char d) = Ok d.
Proof.
  intros H. assert (d = 0 \/ d = 1) as [-> | ->] by lia; reflexivity.
Qed.

Lemma mapM_bin_digits bits : digits_ok 2 bits -> mapM bin_digit (map digit_char bits) = Ok bits.
Proof.
  induction 1 as [|d t Hd Ht IH]; [reflexivity|]. cbn [map mapM].
  rewrite bin_digit_char by exact Hd. cbn [bind Ok]. rewrite IH. reflexivity.
Qed.

Lemma int_of_binstr_bits bits : bits <> [] -> digits_ok 2 bits ->
  int_of_binstr (map digit_char bits) = Ok (from_be 2 bits).
Proof.
  intros Hne Hd. unfold int_of_binstr. destruct bits as [|b t]; [congruence|].
  cbn [map]. change (digit_char b :: map digit_char t) with (map digit_char (b :: t)).
  rewrite mapM_bin_digits by exact Hd. reflexivity.
Qed.

Lemma hex_val_char d : d < 16 -> hex_val (digit_char d) = Ok d.
Proof.
  intros H. unfold digit_char, hex_val. destruct (N.ltb_spec d 10) as [Hl|Hl].
  - destruct (N.leb_spec 48 (48 + d)); [|lia]. destruct (N.leb_spec (48 + d) 57); [|lia].
    cbn [andb]. unfold Ok. f_equal. lia.
  - destruct (N.leb_spec 48 (87 + d)); [|lia]. destruct (N.leb_spec (87 + d) 57); [lia|].
    cbn [andb]. destruct (N.leb_spec 97 (87 + d)); [|lia]. destruct (N.leb_spec (87 + d) 102); [|lia].
    cbn [andb]. unfold Ok. f_equal. lia.
Qed.

Lemma unhexlify_bytes b : bytes_ok b ->
  unhexlify (map digit_char (flat_map (fixed_be 16 2) b)) = Ok b.
Proof.
  induction 1 as [|x t Hx Ht IH]; [reflexivity|].
  cbn [flat_map]. unfold fixed_be at 1. cbn [fixed_le rev app map unhexlify].
  rewrite !hex_val_char by (apply N.mod_lt; lia). cbn [bind Ok].
  change (unhexlify (map digit_char (flat_map (fixed_be 16 2) t))) with (unhexlify (map digit_char (flat_map (fixed_be 16 2) t))).
  rewrite IH. cbn [bind Ok]. unfold Ok. do 2 f_equal.
  assert (x / 16 < 16) by (apply N.div_lt_upper_bound; lia).
  rewrite (N.mod_small (x / 16)) by assumption.
  pose proof (N.div_mod x 16 ltac:(lia)). lia.
Qed.

(* BytesUtils.FromBinaryStr on a bit string whose value fits n bytes, padded to 2n hex digits *)
Lemma bytes_of_binstr_value n bits : (0 < n)%nat -> bits <> [] -> digits_ok 2 bits ->
  from_be 2 bits < 256 ^ N.of_nat n ->
  bytes_of_binstr (map digit_char bits) (2 * n) = Ok (fixed_be 256 n (from_be 2 bits)).
Proof.
  intros Hn Hne Hd Hv. unfold bytes_of_binstr.
  rewrite int_of_binstr_bits by assumption. cbn [bind Ok].
  assert (Hv' : from_be 2 bits < 16 ^ N.of_nat (2 * n)).
  { replace (16 ^ N.of_nat (2 * n)) with (256 ^ N.of_nat n); [exact Hv|].
    rewrite Nnat.Nat2N.inj_mul. change 256 with (16 ^ 2). rewrite <- N.pow_mul_r. reflexivity. }
  rewrite py_hex_digits, zfill_py_digits by (try exact Hv'; lia).
  rewrite <- (regroup_be 16 r16 2 ltac:(lia)). rewrite pow16_2.
  rewrite unhexlify_bytes by (apply (fixed_be_digits 256 r256)). reflexivity.
Qed.

(* ... on exactly 8n bits: the n bytes *)
Lemma bytes_of_binstr_bits n bits : (0 < n)%nat -> digits_ok 2 bits -> length bits = (8 * n)%nat ->
  bytes_of_binstr (map digit_char bits) (2 * n) = Ok (bytes_of_bits bits).
Proof.
  intros Hn Hd Hl. rewrite bytes_of_binstr_value; try assumption.
  - rewrite (fixed_be_256_bits n bits Hd Hl). reflexivity.
  - destruct bits; [simpl in Hl; lia|discriminate].
  - pose proof (from_be_lt 2 r2 bits Hd) as H. rewrite Hl in H.
    replace (256 ^ N.of_nat n) with (2 ^ N.of_nat (8 * n)); [exact H|].
    rewrite Nnat.Nat2N.inj_mul. change 256 with (2 ^ 8). rewrite <- N.pow_mul_r. reflexivity.
Qed.

Lemma from_be_zeros r k b : 2 <= r -> from_be r (repeat 0 k ++ b) = from_be r b.
Proof.
  intros Hr. unfold from_be. rewrite rev_app_distr, rev_repeat. apply from_le_pad. exact Hr.
Qed.

(* BytesUtils.ToBinaryStr(b, 8 * len(b)) is the concatenation of the bytes' bits *)
Lemma bytes_to_binstr_bits b : b <> [] -> bytes_ok b ->
  bytes_to_binstr b (length b * 8) = map digit_char (bits_of_bytes b).
Proof.
  intros Hne Hb. unfold bytes_to_binstr. rewrite Nat.mul_comm.
  rewrite int_to_binstr_fixed.
  - rewrite fixed_be_bytes by exact Hb. reflexivity.
  - destruct b; [congruence|simpl; lia].
  - unfold be_to_int. pose proof (from_be_lt 256 r256 b Hb) as H.
    replace (2 ^ N.of_nat (8 * length b)) with (256 ^ N.of_nat (length b)); [exact H|].
    rewrite Nnat.Nat2N.inj_mul. change 256 with (2 ^ 8). rewrite <- N.pow_mul_r. reflexivity.
Qed.

Lemma map_digit_char_inj a b : digits_ok 2 a -> digits_ok 2 b -> map digit_char a = map digit_char b -> a = b.
Proof.
  intros Ha. revert b. induction Ha as [|x t Hx Ht IH]; intros b Hb E; destruct b as [|y u]; try discriminate; [reflexivity|].
  inversion Hb; subst. cbn [map] in E. inversion E as [[E1 E2]]. f_equal; [|apply IH; auto].
  assert (x = 0 \/ x = 1) as [-> | ->] by lia; assert (y = 0 \/ y = 1) as [-> | ->] by lia;
    try reflexivity; vm_compute in E1; discriminate.
Qed.

(* the i-th group is the value of bits [k*i, k*i + k) *)
Lemma groups_seq k bits : (0 < k)%nat ->
  groups k bits = map (fun i => bits_to_N (firstn k (skipn (k * i) bits))) (seq 0 (length bits / k)).
Proof.
  intros Hk. unfold groups. rewrite <- slices_chunk, map_map. apply map_ext. intros i. unfold slice.
  replace ((i + 1) * k - i * k)%nat with k by lia. rewrite (Nat.mul_comm i k). reflexivity.
Qed.

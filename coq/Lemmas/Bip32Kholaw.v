(* Proofs about Model/Bip32Kholaw.v: master keys (Khovratovich-Law, Icarus) and children. *)
From Coq Require Import NArith ZArith Arith List Lia Bool.
From BU Require Import Base.Exn Base.Radix Base.Bytes Gen.ConstsCardmon.
From BU Require Import Model.EdLib Model.Bip32Kholaw Lemmas.CardmonConstsOk Lemmas.EdLib Lemmas.Tweak.
Import ListNotations.
Open Scope N_scope.

Lemma kh_consts : kh_half_len = 32%nat /\ kh_priv_len = 64%nat /\ kh_zl_len = 28%nat /\ kh_zl_mult = 8 /\
  kh_kr_modulus = 2 ^ 256 /\ b32_index_len = 4%nat /\ b32_hardened_bit = 31 /\ b32_index_max = (2 ^ 32 - 1)%Z /\
  ed_curve_order = ed_order /\ (kh_priv_len / 2 = 32)%nat.
Proof. repeat split; vm_compute; reflexivity. Qed.

Section KholawProofs.
  Variable hmac_sha512 : list N -> list N -> list N.
  Variable hmac_sha256 : list N -> list N -> list N.
  Variable pbkdf2_sha512 : list N -> list N -> N -> N -> list N.
  Variable G : Type.
  Variable gadd : G -> G -> G.
  Variable gmul : N -> G -> G.
  Variable gbase : G.
  Variable g_is_zero : G -> bool.
  Variable penc : G -> list N.
  Variable pdec : list N -> option G.

  Hypothesis hmac512_len : forall k m, length (hmac_sha512 k m) = 64%nat.
  Hypothesis hmac512_ok : forall k m, bytes_ok (hmac_sha512 k m).
  Hypothesis hmac256_len : forall k m, length (hmac_sha256 k m) = 32%nat.
  Hypothesis pbkdf2_len : forall p s r n, length (pbkdf2_sha512 p s r n) = N.to_nat n.
  Hypothesis pbkdf2_ok : forall p s r n, bytes_ok (pbkdf2_sha512 p s r n).
  Hypothesis penc_len : forall P, length (penc P) = 32%nat.
  Hypothesis pdec_penc : forall P, pdec (penc P) = Some P.

  Notation kh_hash_repeatedly := (kh_hash_repeatedly hmac_sha512).
  Notation kh_master := (kh_master hmac_sha512 hmac_sha256).
  Notation ic_master := (ic_master pbkdf2_sha512).
  Notation node_from_priv := (node_from_priv G gmul gbase g_is_zero penc).
  Notation node_from_pub := (node_from_pub G pdec).
  Notation ckd_priv := (ckd_priv hmac_sha512 G gmul gbase g_is_zero penc).
  Notation ckd_pub := (ckd_pub hmac_sha512 G gadd g_is_zero penc pdec).
  Notation child_key := (child_key hmac_sha512 G gadd gmul gbase g_is_zero penc pdec).
  Notation kh_derivator := (kh_derivator G gmul gbase g_is_zero penc).

  Lemma halves_props h : length h = 64%nat -> bytes_ok h ->
    length (fst (halves h)) = 32%nat /\ length (snd (halves h)) = 32%nat /\
    bytes_ok (fst (halves h)) /\ bytes_ok (snd (halves h)) /\ fst (halves h) ++ snd (halves h) = h.
  Proof.
    intros L H. unfold halves. destruct kh_consts as (-> & _). cbn [fst snd].
    rewrite firstn_length, skipn_length, L. repeat split; try lia.
    - apply bytes_ok_firstn; exact H.
    - apply bytes_ok_skipn; exact H.
    - apply firstn_skipn.
  Qed.

  (* ---------------- master keys ---------------- *)

  (* the loop returns the halves of an HMAC output whose byte 31 fails the repeat test *)
  Lemma kh_hash_repeatedly_spec fuel : forall data kl kr, kh_hash_repeatedly fuel data = Ok (kl, kr) ->
    (exists d, (kl, kr) = halves (hmac_sha512 kh_hmac_key d)) /\ bits_set kh_repeat_idx kh_repeat_mask kl = Ok false.
  Proof.
    induction fuel as [|f IH]; intros data kl kr H; cbn [Bip32Kholaw.kh_hash_repeatedly] in H; [discriminate|].
    destruct (halves (hmac_sha512 kh_hmac_key data)) as [l r] eqn:E.
    destruct (bits_set kh_repeat_idx kh_repeat_mask l) as [again|e] eqn:B; cbn [bind Ok Err] in H; [|discriminate].
    destruct again; [exact (IH _ _ _ H)|].
    inversion H; subst. split; [exists data; symmetry; exact E|exact B].
  Qed.

  Definition kl_of (k : list N) : N := le_to_int (firstn 32 k).
  Definition kr_of (k : list N) : N := le_to_int (skipn 32 k).

  Local Opaque tweak_byte.
  (* Khovratovich-Law master key: kL is a multiple of 8 with bit 255 clear, bit 254 set and bit 253 clear
     (the "third highest bit" the repeated hashing waits for) *)
  Theorem kh_master_bits fuel seed k cc : kh_master fuel seed = Ok (k, cc) ->
    (16 <= length seed)%nat /\ length k = 64%nat /\ length cc = 32%nat /\ bytes_ok k /\
    kl_of k mod 8 = 0 /\ 2 ^ 254 <= kl_of k < 2 ^ 254 + 2 ^ 253 /\
    cc = hmac_sha256 kh_hmac_key (kh_cc_prefix ++ seed).
  Proof.
    unfold Bip32Kholaw.kh_master.
    destruct (Nat.leb_spec kh_seed_min_len (length seed)) as [Hs|]; [|discriminate].
    destruct (kh_hash_repeatedly fuel seed) as [[kl kr]|] eqn:E; cbn [bind Ok Err fst snd]; [|discriminate].
    destruct (kh_hash_repeatedly_spec _ _ _ _ E) as ([d Ed] & B).
    pose proof (halves_props _ (hmac512_len kh_hmac_key d) (hmac512_ok kh_hmac_key d)) as (L1 & L2 & O1 & O2 & _).
    rewrite <- Ed in *. cbn [fst snd] in *.
    destruct (tweak kh_tweak_ops kl) as [kl'|] eqn:T; cbn [bind Ok Err]; [|discriminate].
    intros H; inversion H; subst k cc; clear H.
    destruct (tweak_bits kh_tweak_ops 128 kl kl' kh_tweak_cert ltac:(lia) O1 ltac:(lia) T) as (L' & O' & _ & M8 & Lo & _ & N31).
    assert (F : firstn 32 (kl' ++ kr) = kl').
    { rewrite firstn_app. replace (32 - length kl')%nat with 0%nat by lia. rewrite firstn_all2 by lia. simpl. apply app_nil_r. }
    split; [exact Hs|]. split; [rewrite app_length; lia|]. split; [apply hmac256_len|].
    split; [apply bytes_ok_app; split; assumption|].
    unfold kl_of. rewrite F. rewrite firstn_all2 in M8, Lo by lia.
    split; [exact M8|]. split; [split; [exact Lo|]|reflexivity].
    (* byte 31: failed the repeat test before the tweak, hence below 96 after it *)
    unfold bits_set in B. destruct repeat_idx_31 as [R31 _]. rewrite R31 in B.
    destruct (nth_error kl 31) as [v|] eqn:Ev; [|discriminate]. inversion B as [B'].
    assert (Hv : v < 256) by exact (bytes_ok_nth kl 31 v O1 Ev).
    pose proof kh_tweak_after_test as A. rewrite forallb_forall in A. specialize (A (N.to_nat v)).
    rewrite in_seq, Nnat.N2Nat.id in A. specialize (A ltac:(lia)).
    apply negb_false_iff in B'. rewrite B' in A. simpl in A. apply N.ltb_lt in A.
    cbn [option_map] in N31.
    destruct (nth_error_split32 kl' ltac:(lia)) as (a0 & mid & a31 & F2 & Lm & Z0 & Z31).
    rewrite firstn_all2 in F2 by lia. rewrite N31 in Z31. inversion Z31; subst a31.
    assert (Hmid : bytes_ok mid /\ a0 < 256).
    { rewrite F2 in O'. inversion O'; subst. apply bytes_ok_app in H2. tauto. }
    destruct (le_to_int_ends a0 mid (tweak_byte kh_tweak_ops 31 v) (proj1 Hmid) Lm) as (r & EQ & Hr).
    rewrite F2 at 1. rewrite EQ. change (2 ^ 254 + 2 ^ 253) with (256 ^ 31 * 96). change (256 ^ 31) with (256 * 256 ^ 30).
    destruct Hmid as [_ Ha0]. set (P := 256 ^ 30) in *. nia.
  Qed.

  (* Icarus master key: PBKDF2 output with byte 0 and byte 31 tweaked; bits 255 and 253 clear, 254 set *)
  Theorem ic_master_bits seed k cc : ic_master seed = Ok (k, cc) ->
    (16 <= length seed)%nat /\ length k = 64%nat /\ length cc = 32%nat /\ bytes_ok k /\
    kl_of k mod 8 = 0 /\ 2 ^ 254 <= kl_of k < 2 ^ 254 + 2 ^ 253 /\
    (let raw := pbkdf2_sha512 ic_pbkdf2_password seed ic_pbkdf2_rounds 96 in
     skipn 32 k = firstn 32 (skipn 32 raw) /\ cc = skipn 64 raw).
  Proof.
    unfold Bip32Kholaw.ic_master.
    destruct (Nat.leb_spec ic_seed_min_len (length seed)) as [Hs|]; [|discriminate].
    change (N.of_nat ic_pbkdf2_out_len) with 96.
    set (raw := pbkdf2_sha512 ic_pbkdf2_password seed ic_pbkdf2_rounds 96).
    assert (Lr : length raw = 96%nat) by (unfold raw; rewrite pbkdf2_len; reflexivity).
    assert (Or : bytes_ok raw) by apply pbkdf2_ok.
    destruct (tweak ic_tweak_ops raw) as [key|] eqn:T; cbn [bind Ok Err]; [|discriminate].
    destruct kh_consts as (_ & K64 & _). rewrite K64. clear K64.
    remember (firstn 64 key) as K eqn:EK. remember (skipn 64 key) as C eqn:EC.
    intros H. assert (EE : K = k /\ C = cc) by (unfold Ok in H; injection H; auto). destruct EE as [<- <-]. clear H. subst K C.
    destruct (tweak_bits ic_tweak_ops 96 raw key ic_tweak_cert ltac:(lia) Or ltac:(lia) T) as (L' & O' & S' & M8 & Lo & Hi & _).
    assert (F : firstn 32 (firstn 64 key) = firstn 32 key) by (rewrite firstn_firstn; reflexivity).
    split; [exact Hs|]. split; [rewrite firstn_length; lia|]. split; [rewrite skipn_length; lia|].
    split; [apply bytes_ok_firstn; exact O'|]. unfold kl_of. rewrite F.
    split; [exact M8|]. split; [split; [exact Lo|]|].
    - change (2 ^ 254 + 2 ^ 253) with (96 * 2 ^ 248). exact Hi.
    - cbv zeta. split.
      + assert (X : skipn 32 (firstn 64 key) = firstn 32 (skipn 32 key)) by (rewrite skipn_firstn_comm; reflexivity).
        rewrite X, S'. reflexivity.
      + change 64%nat with (32 + 32)%nat. rewrite <- !skipn_skipn', S'. reflexivity.
  Qed.

  (* ---------------- objects and children ---------------- *)

  (* a node whose public key is the point of its private key, with kL below 2^255 (every key derived from
     a seed at depth < 2^27; hand-made private keys may leave this range) *)
  Definition node_wf (n : node) : Prop :=
    match n_priv n with
    | Some k => length k = 64%nat /\ kl_of k < 2 ^ 255 /\ n_pub n = penc (gmul (kl_of k) gbase)
    | None => exists A, n_pub n = penc A
    end.

  Lemma sodium_scalar_lt n : n < 2 ^ 255 -> sodium_scalar n = n.
  Proof. intros H. unfold sodium_scalar. apply N.mod_small; exact H. Qed.

  Lemma node_from_priv_ok k cc d n : node_from_priv k cc d = Ok n ->
    length k = 64%nat /\ n_priv n = Some k /\ n_cc n = cc /\ n_depth n = d /\
    n_pub n = penc (gmul (sodium_scalar (kl_of k)) gbase).
  Proof.
    unfold Bip32Kholaw.node_from_priv, priv_check. rewrite ed_priv_len_32.
    destruct (Nat.eqb_spec (length (firstn 32 k)) 32) as [L1|]; cbn [key_err bind Ok]; [|discriminate].
    destruct (Nat.eqb_spec (length (skipn 32 k)) 32) as [L2|]; cbn [key_err bind Ok]; [|discriminate].
    unfold pub_of_priv, mul_base_bytes, mul_base_n, int_decode. rewrite ed_priv_len_32, L1, ed_coord_len_32, Nat.eqb_refl.
    destruct (_ || _); cbn [key_err is_value_error scalarmult_error bind Ok Err]; [discriminate|].
    intros H; inversion H; subst; clear H. cbn.
    rewrite skipn_length in L2. rewrite firstn_length in L1. repeat split; try lia.
  Qed.

  Lemma node_from_priv_wf k cc d n : node_from_priv k cc d = Ok n -> kl_of k < 2 ^ 255 -> node_wf n.
  Proof.
    intros H Hk. destruct (node_from_priv_ok _ _ _ _ H) as (L & P & _ & _ & Pub).
    unfold node_wf. rewrite P. rewrite (sodium_scalar_lt _ Hk) in Pub. auto.
  Qed.

  (* the little-endian index *)
  Lemma ser_index_le i : i < 2 ^ 32 -> ser_index kh_index_little i = Ok (le_pad 4 i).
  Proof. intros H. unfold ser_index. cbn. destruct kh_consts as (_ & _ & _ & _ & _ & -> & _). apply le_pad_fixed. exact H. Qed.

  Definition zl28 (z : list N) : N := le_to_int (firstn 28 (firstn 32 z)).

  Lemma zl8_val z : zl8 (firstn kh_half_len z) = 8 * zl28 z.
  Proof. unfold zl8, zl28. destruct kh_consts as (-> & _ & -> & -> & _). lia. Qed.

  (* the inputs of the two HMACs of a derivation step *)
  Definition step_z (n : node) (k : list N) (i : N) : list N :=
    if is_hardened i then hmac_sha512 (n_cc n) (kh_tag_hard_z ++ k ++ le_pad 4 i)
    else hmac_sha512 (n_cc n) (kh_tag_soft_z ++ n_pub n ++ le_pad 4 i).
  Definition step_cc (n : node) (k : list N) (i : N) : list N :=
    skipn 32 (if is_hardened i then hmac_sha512 (n_cc n) (kh_tag_hard_cc ++ k ++ le_pad 4 i)
              else hmac_sha512 (n_cc n) (kh_tag_soft_cc ++ n_pub n ++ le_pad 4 i)).

  (* child_formulas: private derivation is the BIP32-Ed25519 arithmetic *)
  Theorem ckd_priv_formulas n k i c : i < 2 ^ 32 -> length k = 64%nat -> bytes_ok k ->
    ckd_priv kh_derivator n k i = Ok c ->
    let z := step_z n k i in
    exists k', n_priv c = Some k' /\ length k' = 64%nat /\
      kl_of k' = kl_of k + 8 * zl28 z /\
      kr_of k' = (kr_of k + le_to_int (skipn 32 z)) mod 2 ^ 256 /\
      kl_of k' mod ed_order <> 0 /\ kl_of k' < 2 ^ 256 /\
      n_cc c = step_cc n k i /\ n_depth c = n_depth n + 1 /\
      n_pub c = penc (gmul (sodium_scalar (kl_of k')) gbase).
  Proof.
    intros Hi Lk Ok_k. unfold Bip32Kholaw.ckd_priv. cbn [d_ser_index d_new_left d_new_right kh_derivator Bip32Kholaw.kh_derivator].
    rewrite (ser_index_le i Hi). cbn [bind Ok Err].
    cbv zeta. unfold step_z, step_cc, halves.
    destruct (is_hardened i); cbn [fst snd];
      [set (z := hmac_sha512 (n_cc n) (kh_tag_hard_z ++ k ++ le_pad 4 i))
      |set (z := hmac_sha512 (n_cc n) (kh_tag_soft_z ++ n_pub n ++ le_pad 4 i))].
    all: unfold kh_new_left, kh_new_right; rewrite zl8_val.
    all: destruct kh_consts as (HL & _ & _ & _ & -> & _ & _ & _ & -> & ->); rewrite HL.
    all: fold (kl_of k); fold (kr_of k).
    all: destruct (N.eqb_spec ((8 * zl28 z + kl_of k) mod ed_order) 0) as [|NZ]; cbn [negb bind Ok Err]; [discriminate|].
    all: destruct (N.ltb_spec (8 * zl28 z + kl_of k) (256 ^ N.of_nat 32)) as [LT|]; cbn [bind Ok Err]; [|discriminate].
    all: destruct (int_to_le_fixed 32 (8 * zl28 z + kl_of k)) as [kl'|] eqn:E1; cbn [bind Ok Err]; [|discriminate].
    all: destruct (int_to_le_fixed_ok _ _ _ E1) as (O1 & L1 & V1).
    all: assert (Hkr : (le_to_int (skipn 32 z) + kr_of k) mod 2 ^ 256 < 256 ^ N.of_nat 32)
           by (rewrite pow256_32; apply N.mod_lt; discriminate).
    all: rewrite (le_pad_fixed _ _ Hkr); cbn [bind Ok Err].
    all: destruct (le_pad_props _ _ Hkr) as (O2 & L2 & V2).
    all: intros H; destruct (node_from_priv_ok _ _ _ _ H) as (L & P & C & D & Pub).
    all: exists (kl' ++ le_pad 32 ((le_to_int (skipn 32 z) + kr_of k) mod 2 ^ 256)).
    all: assert (F1 : firstn 32 (kl' ++ le_pad 32 ((le_to_int (skipn 32 z) + kr_of k) mod 2 ^ 256)) = kl')
           by (rewrite firstn_app, L1, Nat.sub_diag, firstn_all2 by lia; simpl; apply app_nil_r).
    all: assert (F2 : skipn 32 (kl' ++ le_pad 32 ((le_to_int (skipn 32 z) + kr_of k) mod 2 ^ 256)) =
                      le_pad 32 ((le_to_int (skipn 32 z) + kr_of k) mod 2 ^ 256))
           by (rewrite skipn_app, L1, Nat.sub_diag, skipn_all2 by lia; reflexivity).
    all: set (X := le_pad 32 ((le_to_int (skipn 32 z) + kr_of k) mod 2 ^ 256)) in *.
    all: assert (KL : kl_of (kl' ++ X) = 8 * zl28 z + kl_of k) by (unfold kl_of at 1; rewrite F1; exact V1).
    all: assert (KR : kr_of (kl' ++ X) = (le_to_int (skipn 32 z) + kr_of k) mod 2 ^ 256)
           by (unfold kr_of at 1; rewrite F2; exact V2).
    all: rewrite KL, KR.
    all: split; [exact P|]; split; [exact L|]; split; [lia|]; split; [f_equal; lia|]; split; [exact NZ|].
    all: split; [rewrite <- V1; rewrite <- pow256_32; rewrite <- L1; apply le_to_int_lt; exact O1|].
    all: split; [exact C|]; split; [exact D|].
    all: rewrite Pub, KL; reflexivity.
  Qed.

  (* child_low_bits: kL = 0 mod 8 is inherited *)
  Theorem child_low_bits n k i c : i < 2 ^ 32 -> length k = 64%nat -> bytes_ok k -> kl_of k mod 8 = 0 ->
    ckd_priv kh_derivator n k i = Ok c -> exists k', n_priv c = Some k' /\ kl_of k' mod 8 = 0.
  Proof.
    intros Hi Lk Ok_k M H. destruct (ckd_priv_formulas n k i c Hi Lk Ok_k H) as (k' & P & _ & V & _).
    exists k'. split; [exact P|]. rewrite V, (N.mul_comm 8), N.mod_add by discriminate. exact M.
  Qed.

  (* child_invalid_refused (private side): a child scalar that is a multiple of l is refused *)
  Theorem ckd_priv_refuses_zero n k i : i < 2 ^ 32 ->
    (kl_of k + 8 * zl28 (step_z n k i)) mod ed_order = 0 ->
    ckd_priv kh_derivator n k i = Err (LibError Bip32KeyError).
  Proof.
    intros Hi Z. unfold Bip32Kholaw.ckd_priv. cbn [d_ser_index d_new_left d_new_right kh_derivator Bip32Kholaw.kh_derivator].
    rewrite (ser_index_le i Hi). cbn [bind Ok Err].
    unfold step_z in Z. unfold kh_new_left.
    destruct (is_hardened i); cbn [fst snd]; rewrite zl8_val;
      destruct kh_consts as (HL & _ & _ & _ & _ & _ & _ & _ & -> & _); rewrite HL; fold (kl_of k);
      rewrite N.add_comm, Z; reflexivity.
  Qed.

  (* ... and so is a child whose left half does not fit 32 bytes (fix 71d2424; before it: OverflowError).  Only a
     parent with kL >= 2^256 - 2^227 gets here *)
  Theorem ckd_priv_refuses_overflow n k i : i < 2 ^ 32 ->
    2 ^ 256 <= kl_of k + 8 * zl28 (step_z n k i) ->
    ckd_priv kh_derivator n k i = Err (LibError Bip32KeyError).
  Proof.
    intros Hi Z. unfold Bip32Kholaw.ckd_priv. cbn [d_ser_index d_new_left d_new_right kh_derivator Bip32Kholaw.kh_derivator].
    rewrite (ser_index_le i Hi). cbn [bind Ok Err].
    unfold step_z in Z. unfold kh_new_left.
    destruct (is_hardened i); cbn [fst snd]; rewrite zl8_val;
      destruct kh_consts as (HL & _ & _ & _ & _ & _ & _ & _ & _ & ->); rewrite HL; fold (kl_of k);
      (match goal with |- context [negb ?c] => destruct (negb c) end; [|reflexivity]);
      rewrite pow256_32;
      (match goal with |- context [?a <? ?b] => destruct (N.ltb_spec a b) as [LT|] end; [lia|reflexivity]).
  Qed.

  (* hardened_from_public_refused *)
  Theorem hardened_from_public_refused d n i : n_priv n = None -> (2 ^ 31 <= i < 2 ^ 32)%Z ->
    child_key d n i = Err (LibError Bip32KeyError).
  Proof.
    intros P Hi. unfold Bip32Kholaw.child_key, index_ok. destruct kh_consts as (_ & _ & _ & _ & _ & _ & HB & -> & _).
    destruct (Z.leb_spec 0 i); [|lia]. destruct (Z.leb_spec i (2 ^ 32 - 1)); [|lia]. cbn [andb].
    rewrite P. unfold Bip32Kholaw.ckd_pub, is_hardened. rewrite HB.
    replace (N.testbit (Z.to_N i) 31) with true; [reflexivity|].
    symmetry. apply N.testbit_true.
    assert (A1 : 2 ^ 31 <= Z.to_N i) by (change (2 ^ 31) with (Z.to_N (2 ^ 31)); apply Z2N.inj_le; lia).
    assert (A2 : Z.to_N i < 2 ^ 32) by (change (2 ^ 32) with (Z.to_N (2 ^ 32)); apply Z2N.inj_lt; lia).
    assert (E : Z.to_N i / 2 ^ 31 = 1).
    { symmetry. apply N.div_unique with (r := Z.to_N i - 2 ^ 31).
      - change (2 ^ 32) with (2 ^ 31 + 2 ^ 31) in A2. lia.
      - lia. }
    rewrite E. reflexivity.
  Qed.

  (* an index outside [0, 2^32) is a ValueError *)
  Theorem child_key_bad_index d n i : ~ (0 <= i < 2 ^ 32)%Z -> child_key d n i = Err ValueError.
  Proof.
    intros H. unfold Bip32Kholaw.child_key, index_ok. destruct kh_consts as (_ & _ & _ & _ & _ & _ & _ & -> & _).
    destruct (Z.leb_spec 0 i); [|reflexivity]. destruct (Z.leb_spec i (2 ^ 32 - 1)); [lia|reflexivity].
  Qed.

  (* ---------------- public derivation and commutation ---------------- *)

  Lemma node_from_pub_enc P cc d : node_from_pub (penc P) cc d = Ok (mk_node None (penc P) cc d).
  Proof.
    unfold Bip32Kholaw.node_from_pub. rewrite (pub_from_bytes_valid G pdec _ _ (penc_len P) (pdec_penc P)). reflexivity.
  Qed.

  Theorem ckd_pub_formulas n i c A : i < 2 ^ 31 -> n_pub n = penc A ->
    ckd_pub kh_derivator n i = Ok c ->
    let z := hmac_sha512 (n_cc n) (kh_tag_soft_z ++ n_pub n ++ le_pad 4 i) in
    n_priv c = None /\ n_pub c = penc (gadd A (gmul (8 * zl28 z) gbase)) /\
    n_cc c = skipn 32 (hmac_sha512 (n_cc n) (kh_tag_soft_cc ++ n_pub n ++ le_pad 4 i)) /\
    g_is_zero (gadd A (gmul (8 * zl28 z) gbase)) = false.
  Proof.
    intros Hi HA. unfold Bip32Kholaw.ckd_pub.
    assert (Hh : is_hardened i = false).
    { unfold is_hardened. destruct kh_consts as (_ & _ & _ & _ & _ & _ & -> & _).
      apply N.testbit_false. rewrite N.div_small by exact Hi. reflexivity. }
    rewrite Hh. cbn [negb]. cbn [d_ser_index d_pub_scalar_mul kh_derivator Bip32Kholaw.kh_derivator].
    rewrite (ser_index_le i) by (assert (2 ^ 31 < 2 ^ 32) by reflexivity; lia). cbn [bind Ok Err].
    set (z := hmac_sha512 (n_cc n) (kh_tag_soft_z ++ n_pub n ++ le_pad 4 i)).
    unfold kh_pub_scalar_mul. rewrite zl8_val. unfold mul_base_int.
    assert (Hz : 8 * zl28 z < 2 ^ 255).
    { unfold zl28. assert (B : le_to_int (firstn 28 (firstn 32 z)) < 256 ^ N.of_nat 28).
      { eapply N.lt_le_trans; [apply le_to_int_lt; apply bytes_ok_firstn, bytes_ok_firstn, hmac512_ok|].
        apply N.pow_le_mono_r; [discriminate|]. rewrite !firstn_length. lia. }
      change (256 ^ N.of_nat 28) with (2 ^ 224) in B. change (2 ^ 255) with (8 * 2 ^ 252).
      assert (2 ^ 224 < 2 ^ 252) by reflexivity. lia. }
    assert (He : int_encode (8 * zl28 z) = Ok (le_pad ed_coord_len (8 * zl28 z))).
    { unfold int_encode. apply le_pad_fixed. rewrite ed_coord_len_32, pow256_32.
      assert (2 ^ 255 < 2 ^ 256) by reflexivity. lia. }
    rewrite He. cbn [bind Ok Err]. unfold mul_base_n. rewrite (sodium_scalar_lt _ Hz).
    destruct (_ || _); cbn [bind Ok Err]; [discriminate|].
    unfold add_bytes. rewrite HA, !pdec_penc. cbn [bind Ok Err]. rewrite pdec_penc. cbn [bind Ok Err].
    destruct (g_is_zero _) eqn:Zr; cbn [negb bind Ok Err]; [discriminate|].
    rewrite node_from_pub_enc. unfold halves. destruct kh_consts as (-> & _). cbn [fst snd].
    intros H; inversion H; subst c; clear H. cbn [n_priv n_pub n_cc]. auto.
  Qed.

  (* child_invalid_refused (public side): the identity point is refused *)
  Theorem ckd_pub_refuses_identity n i A : i < 2 ^ 31 -> n_pub n = penc A ->
    let z := hmac_sha512 (n_cc n) (kh_tag_soft_z ++ n_pub n ++ le_pad 4 i) in
    8 * zl28 z <> 0 -> g_is_zero (gmul (8 * zl28 z) gbase) = false ->
    g_is_zero (gadd A (gmul (8 * zl28 z) gbase)) = true ->
    ckd_pub kh_derivator n i = Err (LibError Bip32KeyError).
  Proof.
    intros Hi HA z NZ NZ2 Zr. unfold Bip32Kholaw.ckd_pub.
    assert (Hh : is_hardened i = false).
    { unfold is_hardened. destruct kh_consts as (_ & _ & _ & _ & _ & _ & -> & _).
      apply N.testbit_false. rewrite N.div_small by exact Hi. reflexivity. }
    rewrite Hh. cbn [negb]. cbn [d_ser_index d_pub_scalar_mul kh_derivator Bip32Kholaw.kh_derivator].
    rewrite (ser_index_le i) by (assert (2 ^ 31 < 2 ^ 32) by reflexivity; lia). cbn [bind Ok Err].
    fold z. unfold kh_pub_scalar_mul. rewrite zl8_val. unfold mul_base_int.
    assert (Hz : 8 * zl28 z < 2 ^ 255).
    { unfold zl28. assert (B : le_to_int (firstn 28 (firstn 32 z)) < 256 ^ N.of_nat 28).
      { eapply N.lt_le_trans; [apply le_to_int_lt; apply bytes_ok_firstn, bytes_ok_firstn, hmac512_ok|].
        apply N.pow_le_mono_r; [discriminate|]. rewrite !firstn_length. lia. }
      change (256 ^ N.of_nat 28) with (2 ^ 224) in B. change (2 ^ 255) with (8 * 2 ^ 252).
      assert (2 ^ 224 < 2 ^ 252) by reflexivity. lia. }
    assert (He : int_encode (8 * zl28 z) = Ok (le_pad ed_coord_len (8 * zl28 z))).
    { unfold int_encode. apply le_pad_fixed. rewrite ed_coord_len_32, pow256_32.
      assert (2 ^ 255 < 2 ^ 256) by reflexivity. lia. }
    rewrite He. cbn [bind Ok Err]. unfold mul_base_n. rewrite (sodium_scalar_lt _ Hz).
    destruct (N.eqb_spec (8 * zl28 z) 0); [contradiction|]. rewrite NZ2. cbn [orb bind Ok Err].
    unfold add_bytes. rewrite HA, !pdec_penc. cbn [bind Ok Err]. rewrite pdec_penc. cbn [bind Ok Err]. rewrite Zr. reflexivity.
  Qed.

  Section Laws.
    Hypothesis gmul_add : forall x y P, gmul (x + y) P = gadd (gmul x P) (gmul y P).

    (* ckd_commutes_kholaw: the soft child of the public half is the public half of the soft child,
       as long as the child's kL stays below 2^255 *)
    Theorem ckd_commutes n k i c1 c2 : i < 2 ^ 31 -> n_priv n = Some k -> node_wf n -> bytes_ok k ->
      ckd_priv kh_derivator n k i = Ok c1 ->
      ckd_pub kh_derivator (to_public n) i = Ok c2 ->
      (forall k', n_priv c1 = Some k' -> kl_of k' < 2 ^ 255) ->
      n_pub c1 = n_pub c2 /\ n_cc c1 = n_cc c2 /\ n_depth c1 = n_depth c2 /\ node_wf c1.
    Proof.
      intros Hi P W Ok_k H1 H2 Guard. unfold node_wf in W. rewrite P in W. destruct W as (Lk & Hk & Pub).
      assert (Hi32 : i < 2 ^ 32) by (assert (2 ^ 31 < 2 ^ 32) by reflexivity; lia).
      destruct (ckd_priv_formulas n k i c1 Hi32 Lk Ok_k H1) as (k' & P1 & L1 & V1 & _ & _ & _ & C1 & D1 & Pub1).
      assert (Hh : is_hardened i = false).
      { unfold is_hardened. destruct kh_consts as (_ & _ & _ & _ & _ & _ & -> & _).
        apply N.testbit_false. rewrite N.div_small by exact Hi. reflexivity. }
      unfold step_z, step_cc in *. rewrite Hh in *.
      assert (HA : n_pub (to_public n) = penc (gmul (kl_of k) gbase)) by exact Pub.
      destruct (ckd_pub_formulas (to_public n) i c2 _ Hi HA H2) as (_ & Pub2 & C2 & _).
      cbn [to_public n_pub n_cc] in Pub2, C2.
      specialize (Guard k' P1).
      rewrite Pub1, (sodium_scalar_lt _ Guard), V1, gmul_add, Pub2, C1, C2, D1.
      split; [reflexivity|]. split; [reflexivity|]. split.
      - unfold Bip32Kholaw.ckd_pub in H2. clear -H2 Hh pdec_penc penc_len.
        rewrite Hh in H2. cbn [negb] in H2.
        repeat match type of H2 with bind ?x _ = _ => destruct x; cbn [bind Ok Err] in H2; [|discriminate] end.
        match type of H2 with (if ?c then _ else _) = _ => destruct c; [|discriminate] end.
        unfold Bip32Kholaw.node_from_pub in H2. destruct (key_err _); cbn [bind Ok Err] in H2; [|discriminate].
        inversion H2; subst; reflexivity.
      - unfold node_wf. rewrite P1. split; [exact L1|]. split; [exact Guard|].
        rewrite Pub1, (sodium_scalar_lt _ Guard). reflexivity.
    Qed.
  End Laws.
End KholawProofs.

(* C07: "purpose and coin type fixed by the standard and the coin": the coin index every hierarchy
   row uses (regenerated from the source on every run) equals the committed registry snapshot
   (Lemmas/Registry.v, cross-checked once against SLIP-0044).  Re-proved on every run. *)
From Coq Require Import NArith List Bool.
From BU Require Import Base.Bytes Gen.Bip44Params Model.Coins Lemmas.Registry.
From BU Require Export Model.Bip44RegistryIdx.
Import ListNotations.
Open Scope N_scope.

Lemma coin_rows_match_registry : forallb row_matches_registry coin_rows = true.
Proof. vm_compute. reflexivity. Qed.

Lemma coin_row_registry r : In r coin_rows -> row_matches_registry r = true.
Proof. apply forallb_forall. exact coin_rows_match_registry. Qed.

(* C07: "purpose and coin type fixed by the standard and the coin": the coin index every hierarchy
   row uses (regenerated from the source on every run) equals the committed registry snapshot
   (Lemmas/Registry.v, cross-checked once against SLIP-0044).  Re-proved on every run. *)
From Coq Require Import NArith List Bool.
From BU Require Import Base.Bytes Gen.Bip44Params Model.Coins Lemmas.Registry.
Import ListNotations.
Open Scope N_scope.

Definition registry_coin_idx (hid : N) (member : list N) : option N :=
  match find (fun c => (family_code (c_family c) =? hid) && list_eqb (c_member c) member) golden with
  | Some c => match c_body c with CBip b => Some (b_coin_idx b) | _ => None end
  | None => None
  end.

Definition row_matches_registry (r : N * list N * N * bool * list N * bool) : bool :=
  let '(hid, member, idx, _, _, _) := r in
  match registry_coin_idx hid member with Some i => i =? idx | None => false end.

Lemma coin_rows_match_registry : forallb row_matches_registry coin_rows = true.
Proof. vm_compute. reflexivity. Qed.

Lemma coin_row_registry r : In r coin_rows -> row_matches_registry r = true.
Proof. apply forallb_forall. exact coin_rows_match_registry. Qed.

(* Facts about the constants regenerated from /repo (Gen/Consts.v).  Re-proved by the kernel on
   every run: a source edit that breaks one of them breaks every theorem that needs it. *)
From Coq Require Import NArith List Lia.
From BU Require Import Base.Bytes Gen.Consts.
Import ListNotations.
Open Scope N_scope.

Lemma b58_radix_ge2 : 2 <= b58_radix.
Proof. vm_compute. discriminate. Qed.

Lemma b58_alph_btc_nodup : NoDup b58_alph_btc.
Proof. apply nodupb_sound. vm_compute. reflexivity. Qed.
Lemma b58_alph_xrp_nodup : NoDup b58_alph_xrp.
Proof. apply nodupb_sound. vm_compute. reflexivity. Qed.
Lemma b58_alph_btc_len : length b58_alph_btc = N.to_nat b58_radix.
Proof. vm_compute. reflexivity. Qed.
Lemma b58_alph_xrp_len : length b58_alph_xrp = N.to_nat b58_radix.
Proof. vm_compute. reflexivity. Qed.
Lemma b58_cklen_le : (b58_cklen <= 32)%nat.
Proof. vm_compute. lia. Qed.

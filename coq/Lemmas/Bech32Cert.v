(* Error detection for Bech32 / Bech32m / SegWit strings: the distance certificate of
   Lemmas/Bech32Detect.v evaluated by the kernel on the generator words regenerated from the source
   (Gen/Bech32Consts.v: bech32_gen), for windows of 89 symbols, and its consequences for the decoders. *)
From Coq Require Import NArith Arith List Lia Bool.
From BU Require Import Base.Exn Base.Bytes Gen.Bech32Consts Model.Bech32Bits Model.Bech32Str Model.Bech32
  Lemmas.Bech32Bits Lemmas.Bech32Str Lemmas.Bech32Poly Lemmas.Bech32ConstsOk Lemmas.Bech32Code Lemmas.Bech32
  Lemmas.Bech32Detect Lemmas.Bech32CertB32 Lemmas.Bech32CertX.
Import ListNotations.
Open Scope N_scope.

(* a corrupted copy: same prefix up to and including the (last) separator, data parts of equal length
   at most [maxlen] differing in 1..4 positions; everything read after lower-casing, as the decoders do *)
Definition data_corrupted_n (k : nat) (sep : N) (maxlen : nat) (s1 s2 : list N) : Prop :=
  exists h t1 t2, py_lower s1 = h ++ sep :: t1 /\ py_lower s2 = h ++ sep :: t2 /\ ~ In sep t1 /\
    length t1 = length t2 /\ (length t1 <= maxlen)%nat /\ (1 <= hamming t1 t2 <= k)%nat.
Definition data_corrupted := data_corrupted_n 4.

Lemma data_corrupted_weaken k k' sep n s1 s2 : (k <= k')%nat ->
  data_corrupted_n k sep n s1 s2 -> data_corrupted_n k' sep n s1 s2.
Proof.
  intros Hk (h & t1 & t2 & E1 & E2 & Hs & Hl & HL & Hh). exists h, t1, t2. repeat split; auto; lia.
Qed.

Lemma split_at_last (c : N) a b a' b' : a ++ c :: b = a' ++ c :: b' -> ~ In c b -> ~ In c b' -> a = a' /\ b = b'.
Proof.
  intros E Hb Hb'. pose proof (rfind_app c a b Hb) as R1. pose proof (rfind_app c a' b' Hb') as R2.
  rewrite E in R1. rewrite R1 in R2. inversion R2 as [L].
  apply app_same_length in E; [|exact L]. destruct E as [-> E]. inversion E. auto.
Qed.

Lemma hamming_bsym a b : small32 a -> small32 b -> hamming (map bsym a) (map bsym b) = hamming a b.
Proof.
  intros Ha Hb. apply hamming_map. intros x y Hx Hy. unfold small32 in *. rewrite Forall_forall in Ha, Hb.
  apply (sym_inj bech32_charset charset_nodup); [apply Ha|apply Hb]; assumption.
Qed.

(* ---- checksum level: Bech32 and Bech32m (any constant K) *)
Theorem b32_verify_detects K hrp d1 d2 : length d1 = length d2 -> (length d1 <= b32_window)%nat ->
  small32 d1 -> small32 d2 -> (1 <= hamming d1 d2 <= 4)%nat ->
  b32_verify_checksum K hrp d1 = true -> b32_verify_checksum K hrp d2 = false.
Proof.
  intros Hl HL H1 H2 Hh V1. unfold b32_verify_checksum in *. apply N.eqb_eq in V1.
  destruct (N.eqb_spec (b32_polymod (b32_hrp_expand hrp ++ d2)) K) as [V2|]; [exfalso|reflexivity].
  rewrite b32_polymod_eq in V1, V2. unfold polymod_raw in V1, V2. rewrite pm_app in V1, V2.
  refine (detects_4 b32_gens bech32_pm_shift bech32_pm_symbits b32_gens_small b32_low_indep b32_mul b32_window
            b32_certificate _ d1 d2 Hl HL H1 H2 Hh _). rewrite V1, V2. reflexivity.
Qed.

(* ---- Bech32Decoder *)
Theorem bech32_detects_4 hrp s1 s2 p1 : bech32_decode hrp s1 = Ok p1 ->
  data_corrupted bech32_sep b32_window s1 s2 -> forall p2, bech32_decode hrp s2 <> Ok p2.
Proof.
  intros D1 (h & t1 & t2 & E1 & E2 & Hsep & Hlen & HL & Hh) p2 D2.
  apply bech32_decode_ok_iff in D1. destruct D1 as (_ & _ & _ & syms1 & L1 & S1 & _ & V1 & _).
  apply bech32_decode_ok_iff in D2. destruct D2 as (_ & _ & _ & syms2 & L2 & S2 & _ & V2 & _).
  assert (Hs : ~ In bech32_sep bech32_charset) by (apply (sep_stable bech32_sep); left; reflexivity).
  rewrite L1 in E1. apply split_at_last in E1; [|apply (sep_not_in_syms bech32_charset bech32_sep Hs); exact S1|exact Hsep].
  destruct E1 as [<- <-]. rewrite L2 in E2. apply app_inv_head in E2. inversion E2 as [E2']. subst t2.
  rewrite !map_length in *. rewrite hamming_bsym in Hh by assumption.
  rewrite (b32_verify_detects bech32_const hrp syms1 syms2 Hlen HL S1 S2 Hh V1) in V2. discriminate.
Qed.

(* ---- SegwitBech32Decoder: the witness-program rule bounds the data part by 72 symbols, so no length
        hypothesis is needed; the guarantee holds as long as the corruption does not switch the checksum
        constant (version symbol 0 <-> non-zero), see segwit_cross_witness below *)
Lemma segwit_data_len rest prog : from_base32 5 8 (drop_last segwit_cklen rest) = Ok prog ->
  (segwit_cklen <= length rest)%nat -> (length prog <= segwit_prog_max)%nat -> (S (length rest) <= b32_window)%nat.
Proof.
  intros F Hl Hp. apply from_base32_length in F. destruct F as [F _]. rewrite drop_last_length in F.
  change segwit_prog_max with 40%nat in Hp. change segwit_cklen with 6%nat in *. unfold b32_window.
  set (n := (length rest - 6)%nat) in *. assert (length rest = n + 6)%nat by lia.
  assert (n <= 65)%nat; [|lia]. destruct (le_lt_dec n 65) as [|Hgt]; [assumption|exfalso].
  assert (41 <= 5 * n / 8)%nat by (apply Nat.div_le_lower_bound; lia). lia.
Qed.

Theorem segwit_detects_4 hrp s1 s2 v1 p1 v2 p2 n : segwit_decode hrp s1 = Ok (v1, p1) ->
  data_corrupted segwit_sep n s1 s2 -> segwit_decode hrp s2 = Ok (v2, p2) -> (v1 =? 0) <> (v2 =? 0).
Proof.
  intros D1 (h & t1 & t2 & E1 & E2 & Hsep & Hlen & _ & Hh) D2 Hv.
  apply segwit_decode_ok_iff in D1. destruct D1 as (_ & _ & _ & r1 & L1 & S1 & Hl1 & V1 & F1 & (Hp1 & _)).
  apply segwit_decode_ok_iff in D2. destruct D2 as (_ & _ & _ & r2 & L2 & S2 & _ & V2 & _).
  assert (Hs : ~ In segwit_sep bech32_charset) by (apply (sep_stable segwit_sep); right; left; reflexivity).
  rewrite L1 in E1. apply split_at_last in E1; [|apply (sep_not_in_syms bech32_charset segwit_sep Hs); exact S1|exact Hsep].
  destruct E1 as [<- <-]. rewrite L2 in E2. apply app_inv_head in E2.
  assert (E2' : t2 = map bsym (v2 :: r2)) by (inversion E2; reflexivity). subst t2.
  rewrite !map_length in *. rewrite hamming_bsym in Hh by assumption.
  assert (HL : (length (v1 :: r1) <= b32_window)%nat) by (cbn [length]; eapply segwit_data_len; eauto; apply Hp1).
  assert (K : segwit_const v2 = segwit_const v1).
  { unfold segwit_const. change segwit_ver_bech32 with 0. rewrite Hv. reflexivity. }
  rewrite K in V2.
  rewrite (b32_verify_detects (segwit_const v1) hrp (v1 :: r1) (v2 :: r2) Hlen HL S1 S2 Hh V1) in V2. discriminate.
Qed.

(* up to three substitutions are detected unconditionally: neither within one checksum constant (above) nor
   across the two (anchored coset certificates, Lemmas/Bech32CertX.v) *)
Lemma v0_rest_len rest prog : from_base32 5 8 (drop_last segwit_cklen rest) = Ok prog ->
  (segwit_cklen <= length rest)%nat -> In (length prog) segwit_v0_lens -> length rest = 38%nat \/ length rest = 58%nat.
Proof.
  intros F Hl Hp. apply from_base32_length in F. destruct F as [F Fm]. rewrite drop_last_length in F, Fm.
  change segwit_cklen with 6%nat in *. change segwit_v0_lens with [20%nat; 32%nat] in Hp.
  set (k := (length rest - 6)%nat) in *. assert (Hk : length rest = (k + 6)%nat) by lia. rewrite Hk.
  pose proof (Nat.div_mod (5 * k) 8 ltac:(lia)) as DM.
  destruct Hp as [E|[E|[]]]; rewrite F in E; [left|right]; lia.
Qed.

Theorem segwit_detects_3 hrp s1 s2 v1 p1 n : segwit_decode hrp s1 = Ok (v1, p1) ->
  data_corrupted_n 3 segwit_sep n s1 s2 -> forall p2, segwit_decode hrp s2 <> Ok p2.
Proof.
  intros D1 C [v2 p2] D2.
  destruct (Bool.bool_dec (v1 =? 0) (v2 =? 0)) as [Hv|Hv].
  - exact (segwit_detects_4 hrp s1 s2 v1 p1 v2 p2 n D1 (data_corrupted_weaken 3 4 _ _ _ _ ltac:(lia) C) D2 Hv).
  - destruct C as (h & t1 & t2 & E1 & E2 & Hsep & Hlen & _ & Hh).
    apply segwit_decode_ok_iff in D1. destruct D1 as (_ & _ & _ & r1 & L1 & S1 & Hl1 & V1 & F1 & (_ & _ & Hz1)).
    apply segwit_decode_ok_iff in D2. destruct D2 as (_ & _ & _ & r2 & L2 & S2 & Hl2 & V2 & F2 & (_ & _ & Hz2)).
    assert (Hs : ~ In segwit_sep bech32_charset) by (apply (sep_stable segwit_sep); right; left; reflexivity).
    rewrite L1 in E1. apply split_at_last in E1; [|apply (sep_not_in_syms bech32_charset segwit_sep Hs); exact S1|exact Hsep].
    destruct E1 as [<- <-]. rewrite L2 in E2. apply app_inv_head in E2.
    assert (E2' : t2 = map bsym (v2 :: r2)) by (inversion E2; reflexivity). subst t2.
    rewrite !map_length in *. rewrite hamming_bsym in Hh by assumption.
    cbn [length] in Hlen. assert (Hlen' : length r1 = length r2) by lia.
    assert (Hne : v1 <> v2) by (intros ->; apply Hv; reflexivity).
    cbn [hamming] in Hh. destruct (N.eqb_spec v1 v2) as [|_]; [contradiction|].
    assert (Hh' : (hamming r1 r2 <= 2)%nat) by lia.
    apply Forall_cons_iff in S1, S2. destruct S1 as [Sv1 Sr1]. destruct S2 as [Sv2 Sr2].
    unfold b32_verify_checksum in V1, V2. apply N.eqb_eq in V1, V2.
    rewrite b32_polymod_eq in V1, V2. unfold polymod_raw in V1, V2. rewrite pm_app in V1, V2.
    (* the version-0 side fixes the length *)
    assert (HL : length r1 = 38%nat \/ length r1 = 58%nat).
    { destruct (N.eqb_spec v1 0) as [Z1|Z1].
      - eapply v0_rest_len; eauto.
      - destruct (N.eqb_spec v2 0) as [Z2|Z2]; [|exfalso; apply Hv; reflexivity].
        rewrite Hlen'. eapply v0_rest_len; eauto. }
    assert (HD : N.lxor (segwit_const v1) (segwit_const v2) = b32_coset_diff).
    { unfold segwit_const, b32_coset_diff. change segwit_ver_bech32 with 0.
      destruct (v1 =? 0), (v2 =? 0); try (exfalso; apply Hv; reflexivity); [reflexivity|apply N.lxor_comm]. }
    destruct HL as [HL|HL].
    + refine (certificateV_sound b32_gens bech32_pm_shift bech32_pm_symbits b32_coset_diff 38
                b32_coset_certificate_38 _ v1 v2 r1 r2 HL ltac:(congruence) Hne Sv1 Sv2 Sr1 Sr2 Hh' _).
      rewrite V1, V2. exact HD.
    + refine (certificateV_sound b32_gens bech32_pm_shift bech32_pm_symbits b32_coset_diff 58
                b32_coset_certificate_58 _ v1 v2 r1 r2 HL ltac:(congruence) Hne Sv1 Sv2 Sr1 Sr2 Hh' _).
      rewrite V1, V2. exact HD.
Qed.

Corollary segwit_detects_3_err hrp s1 s2 v1 p1 n : segwit_decode hrp s1 = Ok (v1, p1) ->
  data_corrupted_n 3 segwit_sep n s1 s2 ->
  exists e, segwit_decode hrp s2 = Err e /\ (e = ValueError \/ e = LibError Bech32ChecksumError).
Proof.
  intros D1 C. destruct (segwit_decode hrp s2) as [p2|e] eqn:D2.
  - exfalso. exact (segwit_detects_3 hrp s1 s2 v1 p1 n D1 C p2 D2).
  - exists e. split; [reflexivity|]. eapply segwit_decode_err; eauto.
Qed.

Lemma not_in_memb c l : memb c l = false -> ~ In c l.
Proof. intros H I. apply memb_In in I. congruence. Qed.

(* The unconditional statement (any 1..4 substitutions in a valid SegWit address are detected) is FALSE:
   four substitutions, one of them turning the version symbol q (0) into p (1), turn this valid P2WPKH
   address into a valid version-1 address with another program.  The Bech32 and Bech32m codes are two
   cosets of one BCH code; their difference 1 xor 0x2bc830a3 is the syndrome of this weight-4 pattern. *)
Definition cross_s1 : list N :=   (* bc1qqqqsyqcyq5rqwzqfpg9scrgwpugpzysn4v0345 *)
  [98; 99; 49; 113; 113; 113; 113; 115; 121; 113; 99; 121; 113; 53; 114; 113; 119; 122; 113; 102; 112; 103;
   57; 115; 99; 114; 103; 119; 112; 117; 103; 112; 122; 121; 115; 110; 52; 118; 48; 51; 52; 53].
Definition cross_s2 : list N :=   (* bc1pqqqseqcyq3rqwzqfpg9scrgwpugpzy2n4v0345 *)
  [98; 99; 49; 112; 113; 113; 113; 115; 101; 113; 99; 121; 113; 51; 114; 113; 119; 122; 113; 102; 112; 103;
   57; 115; 99; 114; 103; 119; 112; 117; 103; 112; 122; 121; 50; 110; 52; 118; 48; 51; 52; 53].

Theorem segwit_cross_witness : exists p1 p2,
  segwit_decode [98; 99] cross_s1 = Ok (0, p1) /\ segwit_decode [98; 99] cross_s2 = Ok (1, p2) /\ p1 <> p2 /\
  data_corrupted segwit_sep b32_window cross_s1 cross_s2.
Proof.
  eexists. eexists. split; [vm_compute; reflexivity|]. split; [vm_compute; reflexivity|]. split; [discriminate|].
  exists [98; 99], (skipn 3 cross_s1), (skipn 3 cross_s2).
  split; [vm_compute; reflexivity|]. split; [vm_compute; reflexivity|].
  split; [apply not_in_memb; vm_compute; reflexivity|]. split; [reflexivity|].
  split; [vm_compute; repeat constructor|]. vm_compute. split; repeat constructor.
Qed.

(* 89 is tight: a word of weight 4 spanning 90 positions with zero syndrome, i.e. the difference of two valid
   data parts of 90 symbols (the library does not enforce BIP-173's 90-character limit on whole strings) *)
Definition light90 : list N := 7 :: repeat 0 9 ++ 2 :: repeat 0 64 ++ 4 :: repeat 0 13 ++ [1].
Lemma b32_window_tight : length light90 = 90%nat /\ weight light90 = 4%nat /\ small32 light90 /\
  pm_from b32_gens bech32_pm_shift (N.ones bech32_pm_shift) bech32_pm_symbits 0 light90 = 0.
Proof.
  split; [reflexivity|]. split; [reflexivity|]. split; [|vm_compute; reflexivity].
  apply Forall_forall. intros x Hx. assert (B : forallb (fun x => x <? 32) light90 = true) by (vm_compute; reflexivity).
  rewrite forallb_forall in B. apply N.ltb_lt. auto.
Qed.

Corollary bech32_detects_4_err hrp s1 s2 p1 : bech32_decode hrp s1 = Ok p1 ->
  data_corrupted bech32_sep b32_window s1 s2 ->
  exists e, bech32_decode hrp s2 = Err e /\ (e = ValueError \/ e = LibError Bech32ChecksumError).
Proof.
  intros D1 C. destruct (bech32_decode hrp s2) as [p2|e] eqn:D2.
  - exfalso. exact (bech32_detects_4 hrp s1 s2 p1 D1 C p2 D2).
  - exists e. split; [reflexivity|]. eapply bech32_decode_err; eauto.
Qed.

Corollary segwit_detects_4_err hrp s1 s2 v1 p1 n : segwit_decode hrp s1 = Ok (v1, p1) ->
  data_corrupted segwit_sep n s1 s2 ->
  (exists e, segwit_decode hrp s2 = Err e /\ (e = ValueError \/ e = LibError Bech32ChecksumError)) \/
  (exists v2 p2, segwit_decode hrp s2 = Ok (v2, p2) /\ (v1 =? 0) <> (v2 =? 0)).
Proof.
  intros D1 C. destruct (segwit_decode hrp s2) as [[v2 p2]|e] eqn:D2.
  - right. exists v2, p2. split; [reflexivity|]. exact (segwit_detects_4 hrp s1 s2 v1 p1 v2 p2 n D1 C D2).
  - left. exists e. split; [reflexivity|]. eapply segwit_decode_err; eauto.
Qed.

(* premises are satisfiable: "bc1pcqqfezxke" with its last character replaced *)
Lemma detects_example : exists p1,
  bech32_decode [98; 99] [98; 99; 49; 112; 99; 113; 113; 102; 101; 122; 120; 107; 101] = Ok p1 /\
  data_corrupted bech32_sep b32_window [98; 99; 49; 112; 99; 113; 113; 102; 101; 122; 120; 107; 101]
                                        [98; 99; 49; 112; 99; 113; 113; 102; 101; 122; 120; 107; 113].
Proof.
  eexists. split; [vm_compute; reflexivity|].
  exists [98; 99], [112; 99; 113; 113; 102; 101; 122; 120; 107; 101], [112; 99; 113; 113; 102; 101; 122; 120; 107; 113].
  split; [vm_compute; reflexivity|]. split; [vm_compute; reflexivity|].
  split; [apply not_in_memb; vm_compute; reflexivity|]. split; [reflexivity|].
  split; [vm_compute; repeat constructor|]. vm_compute. split; repeat constructor.
Qed.

(* premises of segwit_detects_3 are satisfiable: the P2WPKH address above with its last character replaced *)
Lemma segwit_detects_example : exists p1 s2 n,
  segwit_decode [98; 99] cross_s1 = Ok (0, p1) /\ data_corrupted_n 3 segwit_sep n cross_s1 s2.
Proof.
  eexists. exists (firstn 41 cross_s1 ++ [113]), 39%nat. split; [vm_compute; reflexivity|].
  exists [98; 99], (skipn 3 cross_s1), (skipn 3 (firstn 41 cross_s1 ++ [113])).
  split; [vm_compute; reflexivity|]. split; [vm_compute; reflexivity|].
  split; [apply not_in_memb; vm_compute; reflexivity|]. split; [reflexivity|].
  split; [vm_compute; repeat constructor|]. vm_compute. split; repeat constructor.
Qed.

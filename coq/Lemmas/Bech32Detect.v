(* Error detection of the Bech32 / CashAddr BCH codes: no word with 1..4 non-zero symbols among L
   consecutive positions has zero syndrome.

   Route (DESIGN.md, C10): (i) PolyMod is GF(2)-linear (Lemmas/Bech32Poly.v), (ii) two words with the same
   final state differ by a word with syndrome 0, (iii) multiplication by x is injective on W-bit states, so a
   pattern can be anchored at its last non-zero symbol, (iv) a kernel-evaluated certificate: every syndrome of
   an anchored pattern of weight <= 2 is looked up in a map A (checked to return the position of its second
   symbol), and every pattern of weight <= 2 on the other positions is checked not to collide with A except
   at its own positions.  The map itself is untrusted: only look-ups are used by the soundness proof. *)
From Coq Require Import NArith Arith List Lia Bool FMapPositive.
From BU Require Import Base.Exn Base.Bytes Model.Bech32 Lemmas.Bech32Bits Lemmas.Bech32Poly.
Import ListNotations.
Open Scope N_scope.

(* ---- weight and Hamming distance *)
Fixpoint weight (l : list N) : nat :=
  match l with [] => O | x :: t => ((if (x =? 0)%N then 0 else 1) + weight t)%nat end.

Fixpoint hamming (a b : list N) : nat :=
  match a, b with
  | x :: a', y :: b' => ((if (x =? y)%N then 0 else 1) + hamming a' b')%nat
  | _, _ => O
  end.

Lemma hamming_weight a : forall b, hamming a b = weight (xorl a b).
Proof.
  induction a as [|x a IH]; destruct b as [|y b]; try reflexivity. cbn [hamming xorl weight]. rewrite IH. f_equal.
  destruct (N.eqb_spec x y) as [->|Hn].
  - rewrite N.lxor_nilpotent. reflexivity.
  - destruct (N.eqb_spec (N.lxor x y) 0) as [Z|]; [|reflexivity]. apply N.lxor_eq in Z. contradiction.
Qed.

Lemma hamming_map (f : N -> N) a : forall b,
  (forall x y, In x a -> In y b -> f x = f y -> x = y) -> hamming (map f a) (map f b) = hamming a b.
Proof.
  induction a as [|x a IH]; destruct b as [|y b]; intros Hf; try reflexivity. cbn [map hamming]. rewrite IH.
  - f_equal. destruct (N.eqb_spec x y) as [->|Hn]; [rewrite N.eqb_refl; reflexivity|].
    destruct (N.eqb_spec (f x) (f y)) as [E|]; [|reflexivity]. exfalso. apply Hn, Hf; simpl; auto.
  - intros u v Hu Hv. apply Hf; simpl; auto.
Qed.

Lemma weight_zero l : weight l = O -> l = repeat 0 (length l).
Proof.
  induction l as [|x l IH]; [reflexivity|]. cbn [weight length repeat]. destruct (N.eqb_spec x 0) as [->|]; [|discriminate].
  intros H. f_equal. apply IH. exact H.
Qed.

(* peel the last non-zero symbol *)
Lemma peel_end l : forall k, weight l = S k ->
  exists f v a, l = f ++ v :: repeat 0 a /\ v <> 0 /\ weight f = k.
Proof.
  induction l as [|x l IH]; intros k H; [discriminate|]. cbn [weight] in H.
  destruct (weight l) as [|k'] eqn:Wl.
  - destruct (N.eqb_spec x 0) as [->|Hx]; [discriminate|]. inversion H; subst k.
    exists [], x, (length l). split; [cbn [app]; f_equal; apply weight_zero; assumption|]. split; [assumption|reflexivity].
  - destruct (IH k' eq_refl) as (f & v & a & -> & Hv & Wf).
    exists (x :: f), v, a. split; [reflexivity|]. split; [assumption|]. cbn [weight]. rewrite Wf.
    destruct (x =? 0); simpl in *; lia.
Qed.

Lemma weight_in l v : In v l -> v <> 0 -> (1 <= weight l)%nat.
Proof.
  induction l as [|x l IH]; [contradiction|]. intros [->|I] Hv; cbn [weight].
  - destruct (N.eqb_spec v 0); [contradiction|lia].
  - specialize (IH I Hv). lia.
Qed.


(* two additive maps that agree on the powers of two below 2^n agree below 2^n *)
Lemma lin_ext (f g : N -> N) :
  (forall x y, f (N.lxor x y) = N.lxor (f x) (f y)) -> (forall x y, g (N.lxor x y) = N.lxor (g x) (g y)) ->
  forall n : nat, (forall i, (i < n)%nat -> f (2 ^ N.of_nat i) = g (2 ^ N.of_nat i)) ->
  forall c, c < 2 ^ N.of_nat n -> f c = g c.
Proof.
  intros Hf Hg.
  assert (F0 : f 0 = 0) by (pose proof (Hf 0 0) as H; rewrite N.lxor_0_r, N.lxor_nilpotent in H; exact H).
  assert (G0 : g 0 = 0) by (pose proof (Hg 0 0) as H; rewrite N.lxor_0_r, N.lxor_nilpotent in H; exact H).
  induction n as [|n IH]; intros B c Hc.
  - change (2 ^ N.of_nat 0) with 1 in Hc. assert (c = 0) by lia. subst. congruence.
  - assert (IH' : forall c', c' < 2 ^ N.of_nat n -> f c' = g c') by (apply IH; intros; apply B; lia).
    rewrite Nnat.Nat2N.inj_succ in Hc.
    destruct (N.testbit c (N.of_nat n)) eqn:Tb.
    + set (c' := N.lxor c (2 ^ N.of_nat n)).
      assert (Ec : c = N.lxor c' (2 ^ N.of_nat n)) by (unfold c'; rewrite N.lxor_assoc, N.lxor_nilpotent, N.lxor_0_r; reflexivity).
      assert (Hc' : c' < 2 ^ N.of_nat n).
      { apply lt_pow2_bits. intros i Hi. unfold c'. rewrite N.lxor_spec.
        destruct (N.eq_dec i (N.of_nat n)) as [->|Hne].
        - rewrite Tb, N.pow2_bits_true. reflexivity.
        - rewrite N.pow2_bits_false by congruence. rewrite (proj1 (lt_pow2_bits c _) Hc) by lia. reflexivity. }
      rewrite Ec, Hf, Hg, (IH' c' Hc'), (B n) by lia. reflexivity.
    + apply IH'. apply lt_pow2_bits. intros i Hi. destruct (N.eq_dec i (N.of_nat n)) as [->|Hne]; [exact Tb|].
      apply (proj1 (lt_pow2_bits c _) Hc). lia.
Qed.

(* multiplication in GF(2^sb) = GF(2)[x]/(poly): carry-less product, then reduction.  Only used as a candidate
   for the symbol-scaling symmetry of the codes; everything the proofs need about it is checked by
   computation inside the certificates. *)
Fixpoint clmul (n : nat) (a b : N) : N :=
  match n with
  | O => 0
  | S k => N.lxor (if N.testbit b (N.of_nat k) then N.shiftl a (N.of_nat k) else 0) (clmul k a b)
  end.
Fixpoint polyred (k : nat) (poly sb x : N) : N :=
  match k with
  | O => x
  | S k' => polyred k' poly sb (if N.testbit x (sb + N.of_nat k') then N.lxor x (N.shiftl poly (N.of_nat k')) else x)
  end.
Definition gf_mul (poly sb a b : N) : N := polyred (N.to_nat sb - 1) poly sb (clmul (N.to_nat sb) a b).

Section Detect.
  Variable gens : list (N * N).
  Variables shift sb : N.
  Notation W := (shift + sb).
  Notation step := (pm_step gens shift (N.ones shift) sb).
  Notation pm := (pm_from gens shift (N.ones shift) sb).
  Hypothesis gens_small : Forall (fun g => snd g < 2 ^ W) gens.
  Hypothesis low_indep : forall t, t < 2 ^ sb -> N.land (gs gens t) (N.ones sb) = 0 -> t = 0.

  (* multiplication by x^j : j zero symbols *)
  Definition zn (j : nat) (c : N) : N := pm c (repeat 0 j).

  Lemma zn_S j c : zn (S j) c = zn j (step c 0).
  Proof. reflexivity. Qed.

  Lemma zn_add a b c : zn (a + b) c = zn b (zn a c).
  Proof. unfold zn. rewrite repeat_app. apply pm_app. Qed.

  Lemma xorl_zeros k : xorl (repeat 0 k) (repeat 0 k) = repeat 0 k.
  Proof. apply xorl_zeros_l, repeat_length. Qed.

  Lemma zn_lin j a b : zn j (N.lxor a b) = N.lxor (zn j a) (zn j b).
  Proof. unfold zn. rewrite <- (xorl_zeros j) at 1. apply pm_linear. reflexivity. Qed.

  Lemma zn_0 j : zn j 0 = 0.
  Proof. apply pm_zeros. Qed.

  Lemma zeros_small j : Forall (fun v => v < 2 ^ W) (repeat 0 j).
  Proof. apply Forall_forall. intros x Hx. apply repeat_spec in Hx. subst. apply N.neq_0_lt_0, N.pow_nonzero. discriminate. Qed.

  Lemma zn_lt j c : c < 2 ^ W -> zn j c < 2 ^ W.
  Proof. intros H. apply pm_lt; [assumption|assumption|apply zeros_small]. Qed.

  Lemma zero_lt_W : 0 < 2 ^ W.
  Proof. apply N.neq_0_lt_0, N.pow_nonzero. discriminate. Qed.

  Lemma zn_inj j : forall a b, a < 2 ^ W -> b < 2 ^ W -> zn j a = zn j b -> a = b.
  Proof.
    induction j as [|j IH]; intros a b Ha Hb E; [exact E|]. rewrite !zn_S in E.
    apply IH in E; [|apply step_lt; [assumption|apply zero_lt_W]..].
    eapply step0_inj; eauto.
  Qed.

  Lemma zn_nonzero j a : a < 2 ^ W -> a <> 0 -> zn j a <> 0.
  Proof. intros Ha Hn Z. apply Hn. apply (zn_inj j); [assumption|apply zero_lt_W|]. rewrite zn_0. exact Z. Qed.

  Lemma step_0_v v : step 0 v = v.
  Proof.
    rewrite step_eq, N.land_0_l, N.shiftl_0_l, N.shiftr_0_l, gs_0, N.lxor_0_l, N.lxor_0_r. reflexivity.
  Qed.

  Lemma step_v c v : step c v = N.lxor (zn 1 c) v.
  Proof.
    rewrite <- (N.lxor_0_r c) at 1. rewrite <- (N.lxor_0_l v) at 1. rewrite step_linear, step_0_v. reflexivity.
  Qed.

  Lemma small_W v : v < 2 ^ sb -> v < 2 ^ W.
  Proof. intros H. eapply lt_pow2_mono; [exact H|lia]. Qed.

  (* ---- the syndrome of a word as a function of its error pattern, last error first:
          (a, v) = a non-zero symbol v followed by a zeros *)
  Fixpoint synp (p : list (nat * N)) : N :=
    match p with
    | [] => 0
    | (a, v) :: q => zn a (N.lxor (zn 1 (synp q)) v)
    end.

  Fixpoint span (p : list (nat * N)) : nat :=
    match p with [] => O | (a, _) :: q => (S a + span q)%nat end.

  Lemma pm_snoc f v a : pm 0 (f ++ v :: repeat 0 a) = zn a (N.lxor (zn 1 (pm 0 f)) v).
  Proof. rewrite pm_app. unfold pm_from at 1. cbn [fold_left]. rewrite step_v. reflexivity. Qed.

  Lemma decompose k : forall e, weight e = k -> Forall (fun v => v < 2 ^ sb) e ->
    exists p, length p = k /\ pm 0 e = synp p /\ (span p <= length e)%nat /\
              Forall (fun av => snd av <> 0 /\ snd av < 2 ^ sb) p.
  Proof.
    induction k as [|k IH]; intros e We He.
    - exists []. rewrite (weight_zero e We). split; [reflexivity|]. split; [apply pm_zeros|]. split; [simpl; lia|constructor].
    - destruct (peel_end e k We) as (f & v & a & -> & Hv & Wf).
      apply Forall_app in He. destruct He as [Hf Hva]. apply Forall_cons_iff in Hva. destruct Hva as [Hvs _].
      destruct (IH f Wf Hf) as (q & Lq & Eq & Sq & Fq).
      exists ((a, v) :: q). split; [simpl; congruence|]. split; [rewrite pm_snoc, Eq; reflexivity|].
      split; [cbn [span]; rewrite app_length; cbn [length]; rewrite repeat_length; lia|].
      constructor; [split; assumption|assumption].
  Qed.

  (* ---- the certificate *)
  Definition vals : list N := map N.of_nat (seq 1 (N.to_nat (2 ^ sb) - 1)).
  Definition row (j : nat) : list N := map (zn j) vals.
  Definition tableB (L : nat) : list (nat * list N) := map (fun j => (j, row j)) (seq 1 (L - 1)).

  Definition lookup (A : PositiveMap.t nat) (s : N) : option nat := PositiveMap.find (N.succ_pos s) A.
  Definition opt_is (o : option nat) (j : nat) : bool := match o with Some p => Nat.eqb p j | None => false end.

  (* anchored patterns: symbol a at position 0, optionally symbol b at position j *)
  Definition buildA (L : nat) : PositiveMap.t nat :=
    let m1 := fold_left (fun m a => PositiveMap.add (N.succ_pos a) O m) (row 0) (PositiveMap.empty nat) in
    fold_left (fun m jr =>
      fold_left (fun m a =>
        fold_left (fun m b => PositiveMap.add (N.succ_pos (N.lxor a b)) (fst jr) m) (snd jr) m) (row 0) m)
      (tableB L) m1.

  Definition checkA (A : PositiveMap.t nat) (L : nat) : bool :=
    forallb (fun a => negb (a =? 0) && opt_is (lookup A a) O) (row 0) &&
    forallb (fun jr => forallb (fun a => forallb (fun b =>
               negb (N.lxor a b =? 0) && opt_is (lookup A (N.lxor a b)) (fst jr)) (snd jr)) (row 0)) (tableB L).

  (* ---- symbol scaling.  The codes are linear over GF(2^sb): multiplying every symbol of a word by a
          field element a scales its syndrome symbol-wise.  [sigma a] is that scaling of a W-bit state, written as
          a GF(2)-linear map (one column per state bit), for a candidate multiplication [mul]; the four checks
          below are all that is used about [mul]. *)
  Variable mul : N -> N -> N.

  Definition cols (a : N) : list (N * N) :=
    map (fun i => (N.of_nat i, N.shiftl (mul a (2 ^ (N.of_nat i mod sb))) (sb * (N.of_nat i / sb))))
        (seq 0 (N.to_nat W)).
  Definition sigma (a c : N) : N := gs (cols a) c.

  Definition chk_basis : bool :=
    forallb (fun a => forallb (fun i => sigma a (step (2 ^ N.of_nat i) 0) =? step (sigma a (2 ^ N.of_nat i)) 0)
                              (seq 0 (N.to_nat W))) vals.
  Definition chk_low : bool := forallb (fun a => forallb (fun v => sigma a v =? mul a v) (0 :: vals)) vals.
  Definition chk_closed : bool :=
    forallb (fun a => forallb (fun v => negb (mul a v =? 0) && (mul a v <? 2 ^ sb)) vals) vals.
  Definition chk_inv : bool := forallb (fun v => existsb (fun a => mul a v =? 1) vals) vals.

  (* patterns on the other positions, normalised by scaling so that their first symbol is 1 *)
  Definition checkB1 (A : PositiveMap.t nat) (L : nat) : bool :=
    forallb (fun j => match lookup A (zn j 1) with None => true | Some p => Nat.eqb p j end) (seq 1 (L - 1)).

  Definition checkB2 (A : PositiveMap.t nat) (L : nat) : bool :=
    let T := tableB L in
    forallb (fun j3 => let x := zn j3 1 in forallb (fun jr4 =>
      (fst jr4 <=? j3)%nat ||
      forallb (fun y =>
        match lookup A (N.lxor x y) with
        | None => true
        | Some p => Nat.eqb p j3 || Nat.eqb p (fst jr4)
        end) (snd jr4)) T) (seq 1 (L - 1)).

  Definition certificate (L : nat) : bool :=
    let A := buildA L in
    checkA A L && checkB1 A L && checkB2 A L && (chk_basis && chk_low && chk_closed && chk_inv).

  (* ---- soundness *)
  Lemma in_vals v : v <> 0 -> v < 2 ^ sb -> In v vals.
  Proof.
    intros Hn Hv. unfold vals. apply in_map_iff. exists (N.to_nat v). split; [apply Nnat.N2Nat.id|].
    apply in_seq. lia.
  Qed.

  Lemma in_row j v : In v vals -> In (zn j v) (row j).
  Proof. intros H. unfold row. apply in_map. exact H. Qed.

  Lemma in_tableB L j : (1 <= j < L)%nat -> In (j, row j) (tableB L).
  Proof. intros H. unfold tableB. apply in_map_iff. exists j. split; [reflexivity|]. apply in_seq. lia. Qed.

  Lemma zn1_zn a x : zn 1 (zn a x) = zn (a + 1) x.
  Proof. symmetry. apply zn_add. Qed.

  Section Sound.
    Variable A : PositiveMap.t nat.
    Variable L : nat.
    Hypothesis HA : checkA A L = true.
    Hypothesis HB1 : checkB1 A L = true.
    Hypothesis HB2 : checkB2 A L = true.
    Hypothesis HS1 : chk_basis = true.
    Hypothesis HS2 : chk_low = true.
    Hypothesis HS3 : chk_closed = true.
    Hypothesis HS4 : chk_inv = true.

    Lemma FA2 j v w : (1 <= j < L)%nat -> In v vals -> In w vals ->
      N.lxor v (zn j w) <> 0 /\ lookup A (N.lxor v (zn j w)) = Some j.
    Proof.
      intros Hj Hv Hw. unfold checkA in HA. apply andb_true_iff in HA. destruct HA as [_ H2].
      rewrite forallb_forall in H2. specialize (H2 _ (in_tableB L j Hj)). cbn [fst snd] in H2.
      rewrite forallb_forall in H2. specialize (H2 _ (in_row 0 v Hv)).
      rewrite forallb_forall in H2. specialize (H2 _ (in_row j w Hw)).
      change (zn 0 v) with v in H2. apply andb_true_iff in H2. destruct H2 as [N1 N2].
      apply negb_true_iff, N.eqb_neq in N1. split; [exact N1|].
      unfold opt_is in N2. destruct (lookup A (N.lxor v (zn j w))) as [p|]; [|discriminate].
      apply Nat.eqb_eq in N2. congruence.
    Qed.

    (* -- consequences of the symmetry checks *)
    Lemma sigma_lin a x y : sigma a (N.lxor x y) = N.lxor (sigma a x) (sigma a y).
    Proof. apply gs_lin. Qed.

    Lemma sigma_step0 a c : In a vals -> c < 2 ^ W -> sigma a (step c 0) = step (sigma a c) 0.
    Proof.
      intros Ha Hc.
      apply (lin_ext (fun c => sigma a (step c 0)) (fun c => step (sigma a c) 0)) with (n := N.to_nat W).
      - intros x y. rewrite <- (N.lxor_0_r 0) at 1. rewrite step_linear. apply sigma_lin.
      - intros x y. rewrite sigma_lin. rewrite <- (N.lxor_0_r 0) at 1. apply step_linear.
      - intros i Hi. unfold chk_basis in HS1. rewrite forallb_forall in HS1. specialize (HS1 a Ha).
        rewrite forallb_forall in HS1. apply N.eqb_eq. apply HS1. apply in_seq. lia.
      - rewrite Nnat.N2Nat.id. exact Hc.
    Qed.

    Lemma sigma_low a v : In a vals -> v < 2 ^ sb -> sigma a v = mul a v.
    Proof.
      intros Ha Hv. unfold chk_low in HS2. rewrite forallb_forall in HS2. specialize (HS2 a Ha).
      rewrite forallb_forall in HS2. apply N.eqb_eq. apply HS2.
      destruct (N.eq_dec v 0) as [->|Hn]; [left; reflexivity|right; apply in_vals; assumption].
    Qed.

    Lemma mul_closed a v : In a vals -> In v vals -> In (mul a v) vals.
    Proof.
      intros Ha Hv. unfold chk_closed in HS3. rewrite forallb_forall in HS3. specialize (HS3 a Ha).
      rewrite forallb_forall in HS3. specialize (HS3 v Hv). apply andb_true_iff in HS3. destruct HS3 as [C1 C2].
      apply negb_true_iff, N.eqb_neq in C1. apply N.ltb_lt in C2. apply in_vals; assumption.
    Qed.

    Lemma mul_inv v : In v vals -> exists a, In a vals /\ mul a v = 1.
    Proof.
      intros Hv. unfold chk_inv in HS4. rewrite forallb_forall in HS4. specialize (HS4 v Hv).
      apply existsb_exists in HS4. destruct HS4 as (a & Ha & E). exists a. split; [assumption|apply N.eqb_eq; assumption].
    Qed.

    Lemma vals_small v : In v vals -> v < 2 ^ sb.
    Proof.
      unfold vals. intros H. apply in_map_iff in H. destruct H as (n & <- & Hn). apply in_seq in Hn.
      assert (0 < 2 ^ sb) by (apply N.neq_0_lt_0, N.pow_nonzero; discriminate). lia.
    Qed.

    (* scaling a single-symbol syndrome scales the symbol *)
    Lemma sigma_zn a j : forall v, In a vals -> v < 2 ^ sb -> sigma a (zn j v) = zn j (mul a v).
    Proof.
      induction j as [|j IH]; intros v Ha Hv; [apply sigma_low; assumption|].
      replace (S j) with (j + 1)%nat by lia. rewrite !zn_add. change (zn 1 ?x) with (step x 0).
      rewrite sigma_step0 by (try assumption; apply zn_lt, small_W; assumption). rewrite IH by assumption. reflexivity.
    Qed.

    Lemma FB1 j p : (1 <= j < L)%nat -> lookup A (zn j 1) = Some p -> p = j.
    Proof.
      intros Hj E. unfold checkB1 in HB1. rewrite forallb_forall in HB1.
      specialize (HB1 j ltac:(apply in_seq; lia)). rewrite E in HB1. apply Nat.eqb_eq. exact HB1.
    Qed.

    Lemma FB2 j3 j4 y p : (1 <= j3)%nat -> (j3 < j4)%nat -> (j4 < L)%nat -> In y vals ->
      lookup A (N.lxor (zn j3 1) (zn j4 y)) = Some p -> p = j3 \/ p = j4.
    Proof.
      intros H1 H2 H3 Hy E. unfold checkB2 in HB2. rewrite forallb_forall in HB2.
      specialize (HB2 j3 ltac:(apply in_seq; lia)). cbv zeta in HB2. rewrite forallb_forall in HB2.
      specialize (HB2 _ (in_tableB L j4 ltac:(lia))). cbn [fst snd] in HB2.
      apply orb_true_iff in HB2. destruct HB2 as [C|C]; [apply Nat.leb_le in C; lia|].
      rewrite forallb_forall in C. specialize (C _ (in_row j4 y Hy)). rewrite E in C.
      apply orb_true_iff in C. destruct C as [C|C]; apply Nat.eqb_eq in C; auto.
    Qed.

    (* the three collision-freeness facts, in the shape the pattern expansion produces *)
    Lemma core2 d v1 v2 : (1 <= d < L)%nat -> In v1 vals -> In v2 vals -> N.lxor (zn d v1) v2 <> 0.
    Proof. intros Hd H1 H2. rewrite N.lxor_comm. apply FA2; assumption. Qed.

    Lemma core3 da db v1 v2 v3 : (1 <= da)%nat -> (da < db)%nat -> (db < L)%nat ->
      In v1 vals -> In v2 vals -> In v3 vals ->
      N.lxor (N.lxor (zn db v1) (zn da v2)) v3 <> 0.
    Proof.
      intros H1 H2 H3 I1 I2 I3 Z.
      assert (E : N.lxor v3 (zn da v2) = zn db v1).
      { apply N.lxor_eq. rewrite <- Z. apply N.bits_inj. intro i. rewrite !N.lxor_spec.
        destruct (N.testbit v3 i), (N.testbit (zn da v2) i), (N.testbit (zn db v1) i); reflexivity. }
      destruct (mul_inv v1 I1) as (a & Ha & Ea).
      apply (f_equal (sigma a)) in E. rewrite sigma_lin in E.
      rewrite !sigma_zn in E by (try assumption; apply vals_small; assumption).
      rewrite sigma_low in E by (try assumption; apply vals_small; assumption). rewrite Ea in E.
      destruct (FA2 da (mul a v3) (mul a v2) ltac:(lia) (mul_closed a v3 Ha I3) (mul_closed a v2 Ha I2)) as [_ LA].
      rewrite E in LA. apply FB1 in LA; [lia|lia].
    Qed.

    Lemma core4 da db dc v1 v2 v3 v4 : (1 <= da)%nat -> (da < db)%nat -> (db < dc)%nat -> (dc < L)%nat ->
      In v1 vals -> In v2 vals -> In v3 vals -> In v4 vals ->
      N.lxor (N.lxor (N.lxor (zn dc v1) (zn db v2)) (zn da v3)) v4 <> 0.
    Proof.
      intros H1 H2 H3 H4 I1 I2 I3 I4 Z.
      assert (E : N.lxor v4 (zn da v3) = N.lxor (zn db v2) (zn dc v1)).
      { apply N.lxor_eq. rewrite <- Z. apply N.bits_inj. intro i. rewrite !N.lxor_spec.
        destruct (N.testbit v4 i), (N.testbit (zn da v3) i), (N.testbit (zn db v2) i), (N.testbit (zn dc v1) i); reflexivity. }
      destruct (mul_inv v2 I2) as (a & Ha & Ea).
      apply (f_equal (sigma a)) in E. rewrite !sigma_lin in E.
      rewrite !sigma_zn in E by (try assumption; apply vals_small; assumption).
      rewrite sigma_low in E by (try assumption; apply vals_small; assumption). rewrite Ea in E.
      destruct (FA2 da (mul a v4) (mul a v3) ltac:(lia) (mul_closed a v4 Ha I4) (mul_closed a v3 Ha I3)) as [_ LA].
      rewrite E in LA. apply FB2 in LA; [lia|lia|lia|lia|apply mul_closed; assumption].
    Qed.

    Ltac bound := repeat first [assumption | apply zero_lt_W | apply lxor_lt | apply zn_lt].


    Theorem no_light_codeword e : (length e <= L)%nat -> Forall (fun v => v < 2 ^ sb) e ->
      (1 <= weight e <= 4)%nat -> pm 0 e <> 0.
    Proof.
      intros Hlen He Hw.
      destruct (decompose (weight e) e eq_refl He) as (p & Lp & -> & Sp & Fp).
      assert (Hin : forall av, In av p -> In (snd av) vals).
      { intros av I. rewrite Forall_forall in Fp. destruct (Fp av I). apply in_vals; assumption. }
      assert (Hsm : forall av, In av p -> snd av < 2 ^ W /\ snd av <> 0).
      { intros av I. rewrite Forall_forall in Fp. destruct (Fp av I). split; [apply small_W|]; assumption. }
      destruct p as [|[a4 v4] [|[a3 v3] [|[a2 v2] [|[a1 v1] [|? ?]]]]]; cbn [length] in Lp; try lia.
      - (* one error *)
        cbn [synp]. rewrite zn_0, N.lxor_0_l. destruct (Hsm (a4, v4) (or_introl eq_refl)). apply zn_nonzero; assumption.
      - (* two errors *)
        cbn [synp span] in *.
        pose proof (Hin (a4, v4) ltac:(simpl; auto)) as I4. pose proof (Hin (a3, v3) ltac:(simpl; auto)) as I3. cbn [snd] in *.
        destruct (Hsm (a4, v4) ltac:(simpl; auto)) as [S4 _]. destruct (Hsm (a3, v3) ltac:(simpl; auto)) as [S3 _]. cbn [snd] in *.
        apply zn_nonzero; [bound|].
        rewrite zn_0, N.lxor_0_l, !zn1_zn. apply core2; [lia|assumption|assumption].
      - (* three errors *)
        cbn [synp span] in *.
        pose proof (Hin (a4, v4) ltac:(simpl; auto)) as I4. pose proof (Hin (a3, v3) ltac:(simpl; auto)) as I3.
        pose proof (Hin (a2, v2) ltac:(simpl; auto)) as I2. cbn [snd] in *.
        destruct (Hsm (a4, v4) ltac:(simpl; auto)) as [S4 _]. destruct (Hsm (a3, v3) ltac:(simpl; auto)) as [S3 _].
        destruct (Hsm (a2, v2) ltac:(simpl; auto)) as [S2 _]. cbn [snd] in *.
        apply zn_nonzero; [bound|].
        rewrite zn_0, N.lxor_0_l, !zn1_zn, !zn_lin, <- !zn_add.
        apply core3; try assumption; lia.
      - (* four errors *)
        cbn [synp span] in *.
        pose proof (Hin (a4, v4) ltac:(simpl; auto)) as I4. pose proof (Hin (a3, v3) ltac:(simpl; auto)) as I3.
        pose proof (Hin (a2, v2) ltac:(simpl; auto)) as I2. pose proof (Hin (a1, v1) ltac:(simpl; auto)) as I1. cbn [snd] in *.
        destruct (Hsm (a4, v4) ltac:(simpl; auto)) as [S4 _]. destruct (Hsm (a3, v3) ltac:(simpl; auto)) as [S3 _].
        destruct (Hsm (a2, v2) ltac:(simpl; auto)) as [S2 _]. destruct (Hsm (a1, v1) ltac:(simpl; auto)) as [S1 _]. cbn [snd] in *.
        apply zn_nonzero; [bound|].
        rewrite zn_0, N.lxor_0_l, !zn1_zn, !zn_lin, <- !zn_add.
        apply core4; try assumption; lia.
    Qed.
  End Sound.

  Theorem certificate_sound L : certificate L = true ->
    forall e, (length e <= L)%nat -> Forall (fun v => v < 2 ^ sb) e -> (1 <= weight e <= 4)%nat -> pm 0 e <> 0.
  Proof.
    unfold certificate. intros C. apply andb_true_iff in C. destruct C as [C S].
    apply andb_true_iff in C. destruct C as [C C3]. apply andb_true_iff in C. destruct C as [C1 C2].
    apply andb_true_iff in S. destruct S as [S S4]. apply andb_true_iff in S. destruct S as [S S3].
    apply andb_true_iff in S. destruct S as [S1 S2].
    exact (no_light_codeword (buildA L) L C1 C2 C3 S1 S2 S3 S4).
  Qed.

  (* two words of equal length (at most L) that differ in 1..4 symbols never reach the same state *)
  Theorem detects_4 L : certificate L = true ->
    forall c d1 d2, length d1 = length d2 -> (length d1 <= L)%nat ->
      Forall (fun v => v < 2 ^ sb) d1 -> Forall (fun v => v < 2 ^ sb) d2 ->
      (1 <= hamming d1 d2 <= 4)%nat -> pm c d1 <> pm c d2.
  Proof.
    intros C c d1 d2 Hl HL H1 H2 Hh E. rewrite hamming_weight in Hh.
    apply (certificate_sound L C (xorl d1 d2)); [rewrite xorl_length; assumption|apply xorl_small; assumption|assumption|].
    pose proof (pm_linear gens shift sb d1 d2 c c Hl) as P. rewrite N.lxor_nilpotent in P. rewrite P, E.
    apply N.lxor_nilpotent.
  Qed.

  (* ---- a non-zero target D, anchored at the first symbol: two words of n+1 symbols whose FIRST symbols
          differ and whose remaining n symbols differ in at most two places never reach states that differ
          by D.  Used for D = (Bech32 constant) xor (Bech32m constant) and the SegWit version symbol.
          M maps every single-symbol syndrome S(j, v), j < n, to j (checked, not trusted). *)
  Definition tableAll (L : nat) : list (nat * list N) := map (fun j => (j, row j)) (seq 0 L).

  Definition buildM (L : nat) : PositiveMap.t nat :=
    fold_left (fun m jr => fold_left (fun m x => PositiveMap.add (N.succ_pos x) (fst jr) m) (snd jr) m)
              (tableAll L) (PositiveMap.empty nat).

  Definition checkM (M : PositiveMap.t nat) (L : nat) : bool :=
    forallb (fun jr => forallb (fun x => opt_is (lookup M x) (fst jr)) (snd jr)) (tableAll L).

  Definition checkV (M : PositiveMap.t nat) (D : N) (n : nat) : bool :=
    let T := tableAll n in
    forallb (fun t =>
      negb (t =? 0) &&
      match lookup M t with Some _ => false | None => true end &&
      forallb (fun jr => forallb (fun x =>
        match lookup M (N.lxor t x) with None => true | Some p => Nat.eqb p (fst jr) end) (snd jr)) T)
      (map (fun vx => N.lxor D (zn n vx)) vals).

  Definition certificateV (D : N) (n : nat) : bool :=
    let M := buildM n in checkM M n && checkV M D n.

  Lemma in_tableAll L j : (j < L)%nat -> In (j, row j) (tableAll L).
  Proof. intros H. unfold tableAll. apply in_map_iff. exists j. split; [reflexivity|]. apply in_seq. lia. Qed.

  Section SoundV.
    Variable M : PositiveMap.t nat.
    Variable D : N.
    Variable n : nat.
    Hypothesis HM : checkM M n = true.
    Hypothesis HV : checkV M D n = true.

    Lemma GM j v : (j < n)%nat -> In v vals -> lookup M (zn j v) = Some j.
    Proof.
      intros Hj Hv. unfold checkM in HM. rewrite forallb_forall in HM.
      specialize (HM _ (in_tableAll n j Hj)). cbn [fst snd] in HM.
      rewrite forallb_forall in HM. specialize (HM _ (in_row j v Hv)).
      unfold opt_is in HM. destruct (lookup M (zn j v)) as [p|]; [|discriminate]. apply Nat.eqb_eq in HM. congruence.
    Qed.

    Lemma GV vx : In vx vals -> let t := N.lxor D (zn n vx) in
      t <> 0 /\ lookup M t = None /\
      forall j x p, (j < n)%nat -> In x vals -> lookup M (N.lxor t (zn j x)) = Some p -> p = j.
    Proof.
      intros Hvx t. unfold checkV in HV. cbv zeta in HV. rewrite forallb_forall in HV.
      specialize (HV t ltac:(apply in_map_iff; exists vx; split; [reflexivity|assumption])).
      apply andb_true_iff in HV. destruct HV as [H12 H3]. apply andb_true_iff in H12. destruct H12 as [H1 H2].
      apply negb_true_iff, N.eqb_neq in H1. split; [exact H1|]. split; [destruct (lookup M t); [discriminate|reflexivity]|].
      intros j x p Hj Hx E. rewrite forallb_forall in H3. specialize (H3 _ (in_tableAll n j Hj)). cbn [fst snd] in H3.
      rewrite forallb_forall in H3. specialize (H3 _ (in_row j x Hx)). rewrite E in H3. apply Nat.eqb_eq. exact H3.
    Qed.

    Theorem anchored_coset c x1 x2 r1 r2 : length r1 = n -> length r2 = n -> x1 <> x2 ->
      x1 < 2 ^ sb -> x2 < 2 ^ sb -> Forall (fun v => v < 2 ^ sb) r1 -> Forall (fun v => v < 2 ^ sb) r2 ->
      (hamming r1 r2 <= 2)%nat -> N.lxor (pm c (x1 :: r1)) (pm c (x2 :: r2)) <> D.
    Proof.
      intros L1 L2 Hx S1 S2 R1 R2 Hh Z.
      set (vx := N.lxor x1 x2).
      assert (Ivx : In vx vals).
      { apply in_vals; [intro E; apply N.lxor_eq in E; contradiction|apply lxor_lt; assumption]. }
      set (xr := xorl r1 r2).
      assert (Lxr : length xr = n) by (unfold xr; rewrite xorl_length; congruence).
      assert (Sxr : Forall (fun v => v < 2 ^ sb) xr) by (apply xorl_small; assumption).
      (* the difference of the two final states *)
      assert (E : pm 0 xr = N.lxor D (zn n vx)).
      { unfold pm_from in Z. cbn [fold_left] in Z. fold (pm (step c x1) r1) in Z. fold (pm (step c x2) r2) in Z.
        rewrite <- (pm_linear gens shift sb r1 r2 _ _ ltac:(congruence)) in Z. fold xr in Z.
        rewrite <- step_linear, N.lxor_nilpotent, step_0_v in Z. fold vx in Z.
        pose proof (pm_linear gens shift sb (repeat 0 n) xr vx 0 ltac:(rewrite repeat_length; congruence)) as P.
        rewrite N.lxor_0_r, xorl_zeros_l in P by assumption. fold (zn n vx) in P.
        rewrite P in Z. rewrite <- Z. rewrite (N.lxor_comm (zn n vx)), N.lxor_assoc, N.lxor_nilpotent, N.lxor_0_r. reflexivity. }
      rewrite hamming_weight in Hh. fold xr in Hh. clearbody xr vx.
      destruct (GV vx Ivx) as (T0 & TN & T2). cbv zeta in T0, TN, T2. rewrite <- E in T0, TN, T2.
      destruct (decompose (weight xr) xr eq_refl Sxr) as (p & Lp & Ep & Sp & Fp).
      assert (Hin : forall av, In av p -> In (snd av) vals).
      { intros av I. rewrite Forall_forall in Fp. destruct (Fp av I). apply in_vals; assumption. }
      rewrite Ep in T0, TN, T2.
      destruct p as [|[a4 v4] [|[a3 v3] [|? ?]]]; cbn [length] in Lp; try lia.
      - apply T0. reflexivity.
      - cbn [synp span] in *. rewrite zn_0, N.lxor_0_l in TN.
        pose proof (GM a4 v4 ltac:(lia) (Hin (a4, v4) (or_introl eq_refl))) as G. congruence.
      - cbn [synp span] in *.
        pose proof (Hin (a4, v4) ltac:(simpl; auto)) as I4. pose proof (Hin (a3, v3) ltac:(simpl; auto)) as I3. cbn [snd] in *.
        rewrite zn_0, N.lxor_0_l, !zn1_zn, !zn_lin, <- !zn_add in T2.
        specialize (T2 a4 v4 (a3 + 1 + a4)%nat ltac:(lia) I4).
        rewrite N.lxor_assoc, N.lxor_nilpotent, N.lxor_0_r in T2. specialize (T2 (GM (a3 + 1 + a4)%nat v3 ltac:(lia) I3)). lia.
    Qed.
  End SoundV.

  Theorem certificateV_sound D n : certificateV D n = true ->
    forall c x1 x2 r1 r2, length r1 = n -> length r2 = n -> x1 <> x2 ->
      x1 < 2 ^ sb -> x2 < 2 ^ sb -> Forall (fun v => v < 2 ^ sb) r1 -> Forall (fun v => v < 2 ^ sb) r2 ->
      (hamming r1 r2 <= 2)%nat -> N.lxor (pm c (x1 :: r1)) (pm c (x2 :: r2)) <> D.
  Proof.
    unfold certificateV. intros C. apply andb_true_iff in C. destruct C as [C1 C2].
    exact (anchored_coset (buildM n) D n C1 C2).
  Qed.
End Detect.

(* Error detection of the Bech32 / CashAddr BCH codes: no word with 1..4 non-zero symbols among L
   consecutive positions has zero syndrome.

   Route (DESIGN.md, C10): (i) PolyMod is GF(2)-linear (Lemmas/Bech32Poly.v), (ii) two words with the same
   final state differ by a word with syndrome 0, (iii) multiplication by x is injective on W-bit states, so a
   pattern can be anchored at its last non-zero symbol, (iv) a kernel-evaluated certificate: every syndrome of
   an anchored pattern of weight <= 2 is looked up in a map A (checked to return the position of its second
   symbol), and every pattern of weight <= 2 on the other positions is checked not to collide with A except
   at its own positions.  The map itself is untrusted: only look-ups are used by the soundness proof. *)
From Coq Require Import NArith Arith List Lia Bool FMapPositive.
From BU Require Import Base.Exn Base.Bytes Model.Bech32 Lemmas.Bech32Bits Lemmas.Bech32Poly.
Import ListNotations.
Open Scope N_scope.

(* ---- weight and Hamming distance *)
Fixpoint weight (l : list N) : nat :=
  match l with [] => O | x :: t => ((if (x =? 0)%N then 0 else 1) + weight t)%nat end.

Fixpoint hamming (a b : list N) : nat :=
  match a, b with
  | x :: a', y :: b' => ((if (x =? y)%N then 0 else 1) + hamming a' b')%nat
  | _, _ => O
  end.

Lemma hamming_weight a : forall b, hamming a b = weight (xorl a b).
Proof.
  induction a as [|x a IH]; destruct b as [|y b]; try reflexivity. cbn [hamming xorl weight]. rewrite IH. f_equal.
  destruct (N.eqb_spec x y) as [->|Hn].
  - rewrite N.lxor_nilpotent. reflexivity.
  - destruct (N.eqb_spec (N.lxor x y) 0) as [Z|]; [|reflexivity]. apply N.lxor_eq in Z. contradiction.
Qed.

Lemma hamming_map (f : N -> N) a : forall b,
  (forall x y, In x a -> In y b -> f x = f y -> x = y) -> hamming (map f a) (map f b) = hamming a b.
Proof.
  induction a as [|x a IH]; destruct b as [|y b]; intros Hf; try reflexivity. cbn [map hamming]. rewrite IH.
  - f_equal. destruct (N.eqb_spec x y) as [->|Hn]; [rewrite N.eqb_refl; reflexivity|].
    destruct (N.eqb_spec (f x) (f y)) as [E|]; [|reflexivity]. exfalso. apply Hn, Hf; simpl; auto.
  - intros u v Hu Hv. apply Hf; simpl; auto.
Qed.

Lemma weight_zero l : weight l = O -> l = repeat 0 (length l).
Proof.
  induction l as [|x l IH]; [reflexivity|]. cbn [weight length repeat]. destruct (N.eqb_spec x 0) as [->|]; [|discriminate].
  intros H. f_equal. apply IH. exact H.
Qed.

(* peel the last non-zero symbol *)
Lemma peel_end l : forall k, weight l = S k ->
  exists f v a, l = f ++ v :: repeat 0 a /\ v <> 0 /\ weight f = k.
Proof.
  induction l as [|x l IH]; intros k H; [discriminate|]. cbn [weight] in H.
  destruct (weight l) as [|k'] eqn:Wl.
  - destruct (N.eqb_spec x 0) as [->|Hx]; [discriminate|]. inversion H; subst k.
    exists [], x, (length l). split; [cbn [app]; f_equal; apply weight_zero; assumption|]. split; [assumption|reflexivity].
  - destruct (IH k' eq_refl) as (f & v & a & -> & Hv & Wf).
    exists (x :: f), v, a. split; [reflexivity|]. split; [assumption|]. cbn [weight]. rewrite Wf.
    destruct (x =? 0); simpl in *; lia.
Qed.

Lemma weight_in l v : In v l -> v <> 0 -> (1 <= weight l)%nat.
Proof.
  induction l as [|x l IH]; [contradiction|]. intros [->|I] Hv; cbn [weight].
  - destruct (N.eqb_spec v 0); [contradiction|lia].
  - specialize (IH I Hv). lia.
Qed.

Section Detect.
  Variable gens : list (N * N).
  Variables shift sb : N.
  Notation W := (shift + sb).
  Notation step := (pm_step gens shift (N.ones shift) sb).
  Notation pm := (pm_from gens shift (N.ones shift) sb).
  Hypothesis gens_small : Forall (fun g => snd g < 2 ^ W) gens.
  Hypothesis low_indep : forall t, t < 2 ^ sb -> N.land (gs gens t) (N.ones sb) = 0 -> t = 0.

  (* multiplication by x^j : j zero symbols *)
  Definition zn (j : nat) (c : N) : N := pm c (repeat 0 j).

  Lemma zn_S j c : zn (S j) c = zn j (step c 0).
  Proof. reflexivity. Qed.

  Lemma zn_add a b c : zn (a + b) c = zn b (zn a c).
  Proof. unfold zn. rewrite repeat_app. apply pm_app. Qed.

  Lemma xorl_zeros k : xorl (repeat 0 k) (repeat 0 k) = repeat 0 k.
  Proof. apply xorl_zeros_l, repeat_length. Qed.

  Lemma zn_lin j a b : zn j (N.lxor a b) = N.lxor (zn j a) (zn j b).
  Proof. unfold zn. rewrite <- (xorl_zeros j) at 1. apply pm_linear. reflexivity. Qed.

  Lemma zn_0 j : zn j 0 = 0.
  Proof. apply pm_zeros. Qed.

  Lemma zeros_small j : Forall (fun v => v < 2 ^ W) (repeat 0 j).
  Proof. apply Forall_forall. intros x Hx. apply repeat_spec in Hx. subst. apply N.neq_0_lt_0, N.pow_nonzero. discriminate. Qed.

  Lemma zn_lt j c : c < 2 ^ W -> zn j c < 2 ^ W.
  Proof. intros H. apply pm_lt; [assumption|assumption|apply zeros_small]. Qed.

  Lemma zero_lt_W : 0 < 2 ^ W.
  Proof. apply N.neq_0_lt_0, N.pow_nonzero. discriminate. Qed.

  Lemma zn_inj j : forall a b, a < 2 ^ W -> b < 2 ^ W -> zn j a = zn j b -> a = b.
  Proof.
    induction j as [|j IH]; intros a b Ha Hb E; [exact E|]. rewrite !zn_S in E.
    apply IH in E; [|apply step_lt; [assumption|apply zero_lt_W]..].
    eapply step0_inj; eauto.
  Qed.

  Lemma zn_nonzero j a : a < 2 ^ W -> a <> 0 -> zn j a <> 0.
  Proof. intros Ha Hn Z. apply Hn. apply (zn_inj j); [assumption|apply zero_lt_W|]. rewrite zn_0. exact Z. Qed.

  Lemma step_0_v v : step 0 v = v.
  Proof.
    rewrite step_eq, N.land_0_l, N.shiftl_0_l, N.shiftr_0_l, gs_0, N.lxor_0_l, N.lxor_0_r. reflexivity.
  Qed.

  Lemma step_v c v : step c v = N.lxor (zn 1 c) v.
  Proof.
    rewrite <- (N.lxor_0_r c) at 1. rewrite <- (N.lxor_0_l v) at 1. rewrite step_linear, step_0_v. reflexivity.
  Qed.

  Lemma small_W v : v < 2 ^ sb -> v < 2 ^ W.
  Proof. intros H. eapply lt_pow2_mono; [exact H|lia]. Qed.

  (* ---- the syndrome of a word as a function of its error pattern, last error first:
          (a, v) = a non-zero symbol v followed by a zeros *)
  Fixpoint synp (p : list (nat * N)) : N :=
    match p with
    | [] => 0
    | (a, v) :: q => zn a (N.lxor (zn 1 (synp q)) v)
    end.

  Fixpoint span (p : list (nat * N)) : nat :=
    match p with [] => O | (a, _) :: q => (S a + span q)%nat end.

  Lemma pm_snoc f v a : pm 0 (f ++ v :: repeat 0 a) = zn a (N.lxor (zn 1 (pm 0 f)) v).
  Proof. rewrite pm_app. unfold pm_from at 1. cbn [fold_left]. rewrite step_v. reflexivity. Qed.

  Lemma decompose k : forall e, weight e = k -> Forall (fun v => v < 2 ^ sb) e ->
    exists p, length p = k /\ pm 0 e = synp p /\ (span p <= length e)%nat /\
              Forall (fun av => snd av <> 0 /\ snd av < 2 ^ sb) p.
  Proof.
    induction k as [|k IH]; intros e We He.
    - exists []. rewrite (weight_zero e We). split; [reflexivity|]. split; [apply pm_zeros|]. split; [simpl; lia|constructor].
    - destruct (peel_end e k We) as (f & v & a & -> & Hv & Wf).
      apply Forall_app in He. destruct He as [Hf Hva]. apply Forall_cons_iff in Hva. destruct Hva as [Hvs _].
      destruct (IH f Wf Hf) as (q & Lq & Eq & Sq & Fq).
      exists ((a, v) :: q). split; [simpl; congruence|]. split; [rewrite pm_snoc, Eq; reflexivity|].
      split; [cbn [span]; rewrite app_length; cbn [length]; rewrite repeat_length; lia|].
      constructor; [split; assumption|assumption].
  Qed.

  (* ---- the certificate *)
  Definition vals : list N := map N.of_nat (seq 1 (N.to_nat (2 ^ sb) - 1)).
  Definition row (j : nat) : list N := map (zn j) vals.
  Definition tableB (L : nat) : list (nat * list N) := map (fun j => (j, row j)) (seq 1 (L - 1)).

  Definition lookup (A : PositiveMap.t nat) (s : N) : option nat := PositiveMap.find (N.succ_pos s) A.
  Definition opt_is (o : option nat) (j : nat) : bool := match o with Some p => Nat.eqb p j | None => false end.

  (* anchored patterns: symbol a at position 0, optionally symbol b at position j *)
  Definition buildA (L : nat) : PositiveMap.t nat :=
    let m1 := fold_left (fun m a => PositiveMap.add (N.succ_pos a) O m) (row 0) (PositiveMap.empty nat) in
    fold_left (fun m jr =>
      fold_left (fun m a =>
        fold_left (fun m b => PositiveMap.add (N.succ_pos (N.lxor a b)) (fst jr) m) (snd jr) m) (row 0) m)
      (tableB L) m1.

  Definition checkA (A : PositiveMap.t nat) (L : nat) : bool :=
    forallb (fun a => negb (a =? 0) && opt_is (lookup A a) O) (row 0) &&
    forallb (fun jr => forallb (fun a => forallb (fun b =>
               negb (N.lxor a b =? 0) && opt_is (lookup A (N.lxor a b)) (fst jr)) (snd jr)) (row 0)) (tableB L).

  Definition checkB1 (A : PositiveMap.t nat) (L : nat) : bool :=
    forallb (fun jr => forallb (fun x =>
      match lookup A x with None => true | Some p => Nat.eqb p (fst jr) end) (snd jr)) (tableB L).

  Definition checkB2 (A : PositiveMap.t nat) (L : nat) : bool :=
    let T := tableB L in
    forallb (fun jr3 => forallb (fun jr4 =>
      (fst jr4 <=? fst jr3)%nat ||
      forallb (fun x => forallb (fun y =>
        match lookup A (N.lxor x y) with
        | None => true
        | Some p => Nat.eqb p (fst jr3) || Nat.eqb p (fst jr4)
        end) (snd jr4)) (snd jr3)) T) T.

  Definition certificate (L : nat) : bool :=
    let A := buildA L in checkA A L && checkB1 A L && checkB2 A L.

  (* ---- soundness *)
  Lemma in_vals v : v <> 0 -> v < 2 ^ sb -> In v vals.
  Proof.
    intros Hn Hv. unfold vals. apply in_map_iff. exists (N.to_nat v). split; [apply Nnat.N2Nat.id|].
    apply in_seq. lia.
  Qed.

  Lemma in_row j v : In v vals -> In (zn j v) (row j).
  Proof. intros H. unfold row. apply in_map. exact H. Qed.

  Lemma in_tableB L j : (1 <= j < L)%nat -> In (j, row j) (tableB L).
  Proof. intros H. unfold tableB. apply in_map_iff. exists j. split; [reflexivity|]. apply in_seq. lia. Qed.

  Lemma zn1_zn a x : zn 1 (zn a x) = zn (a + 1) x.
  Proof. symmetry. apply zn_add. Qed.

  Section Sound.
    Variable A : PositiveMap.t nat.
    Variable L : nat.
    Hypothesis HA : checkA A L = true.
    Hypothesis HB1 : checkB1 A L = true.
    Hypothesis HB2 : checkB2 A L = true.

    Lemma FA2 j v w : (1 <= j < L)%nat -> In v vals -> In w vals ->
      N.lxor v (zn j w) <> 0 /\ lookup A (N.lxor v (zn j w)) = Some j.
    Proof.
      intros Hj Hv Hw. unfold checkA in HA. apply andb_true_iff in HA. destruct HA as [_ H2].
      rewrite forallb_forall in H2. specialize (H2 _ (in_tableB L j Hj)). cbn [fst snd] in H2.
      rewrite forallb_forall in H2. specialize (H2 _ (in_row 0 v Hv)).
      rewrite forallb_forall in H2. specialize (H2 _ (in_row j w Hw)).
      change (zn 0 v) with v in H2. apply andb_true_iff in H2. destruct H2 as [N1 N2].
      apply negb_true_iff, N.eqb_neq in N1. split; [exact N1|].
      unfold opt_is in N2. destruct (lookup A (N.lxor v (zn j w))) as [p|]; [|discriminate].
      apply Nat.eqb_eq in N2. congruence.
    Qed.

    Lemma FB1 j w p : (1 <= j < L)%nat -> In w vals -> lookup A (zn j w) = Some p -> p = j.
    Proof.
      intros Hj Hw E. unfold checkB1 in HB1. rewrite forallb_forall in HB1.
      specialize (HB1 _ (in_tableB L j Hj)). cbn [fst snd] in HB1.
      rewrite forallb_forall in HB1. specialize (HB1 _ (in_row j w Hw)). rewrite E in HB1.
      apply Nat.eqb_eq. exact HB1.
    Qed.

    Lemma FB2 j3 j4 x y p : (1 <= j3)%nat -> (j3 < j4)%nat -> (j4 < L)%nat -> In x vals -> In y vals ->
      lookup A (N.lxor (zn j3 x) (zn j4 y)) = Some p -> p = j3 \/ p = j4.
    Proof.
      intros H1 H2 H3 Hx Hy E. unfold checkB2 in HB2. rewrite forallb_forall in HB2.
      specialize (HB2 _ (in_tableB L j3 ltac:(lia))). rewrite forallb_forall in HB2.
      specialize (HB2 _ (in_tableB L j4 ltac:(lia))). cbn [fst snd] in HB2.
      apply orb_true_iff in HB2. destruct HB2 as [C|C]; [apply Nat.leb_le in C; lia|].
      rewrite forallb_forall in C. specialize (C _ (in_row j3 x Hx)).
      rewrite forallb_forall in C. specialize (C _ (in_row j4 y Hy)). rewrite E in C.
      apply orb_true_iff in C. destruct C as [C|C]; apply Nat.eqb_eq in C; auto.
    Qed.

    (* the three collision-freeness facts, in the shape the pattern expansion produces *)
    Lemma core2 d v1 v2 : (1 <= d < L)%nat -> In v1 vals -> In v2 vals -> N.lxor (zn d v1) v2 <> 0.
    Proof. intros Hd H1 H2. rewrite N.lxor_comm. apply FA2; assumption. Qed.

    Lemma core3 da db v1 v2 v3 : (1 <= da)%nat -> (da < db)%nat -> (db < L)%nat ->
      In v1 vals -> In v2 vals -> In v3 vals ->
      N.lxor (N.lxor (zn db v1) (zn da v2)) v3 <> 0.
    Proof.
      intros H1 H2 H3 I1 I2 I3 Z.
      destruct (FA2 da v3 v2 ltac:(lia) I3 I2) as [_ LA].
      assert (E : N.lxor v3 (zn da v2) = zn db v1).
      { apply N.lxor_eq. rewrite <- Z. apply N.bits_inj. intro i. rewrite !N.lxor_spec.
        destruct (N.testbit v3 i), (N.testbit (zn da v2) i), (N.testbit (zn db v1) i); reflexivity. }
      rewrite E in LA. apply FB1 in LA; [lia|lia|assumption].
    Qed.

    Lemma core4 da db dc v1 v2 v3 v4 : (1 <= da)%nat -> (da < db)%nat -> (db < dc)%nat -> (dc < L)%nat ->
      In v1 vals -> In v2 vals -> In v3 vals -> In v4 vals ->
      N.lxor (N.lxor (N.lxor (zn dc v1) (zn db v2)) (zn da v3)) v4 <> 0.
    Proof.
      intros H1 H2 H3 H4 I1 I2 I3 I4 Z.
      destruct (FA2 da v4 v3 ltac:(lia) I4 I3) as [_ LA].
      assert (E : N.lxor v4 (zn da v3) = N.lxor (zn db v2) (zn dc v1)).
      { apply N.lxor_eq. rewrite <- Z. apply N.bits_inj. intro i. rewrite !N.lxor_spec.
        destruct (N.testbit v4 i), (N.testbit (zn da v3) i), (N.testbit (zn db v2) i), (N.testbit (zn dc v1) i); reflexivity. }
      rewrite E in LA. apply FB2 in LA; [lia|lia|lia|lia|assumption|assumption].
    Qed.

    Ltac bound := repeat first [assumption | apply zero_lt_W | apply lxor_lt | apply zn_lt].


    Theorem no_light_codeword e : (length e <= L)%nat -> Forall (fun v => v < 2 ^ sb) e ->
      (1 <= weight e <= 4)%nat -> pm 0 e <> 0.
    Proof.
      intros Hlen He Hw.
      destruct (decompose (weight e) e eq_refl He) as (p & Lp & -> & Sp & Fp).
      assert (Hin : forall av, In av p -> In (snd av) vals).
      { intros av I. rewrite Forall_forall in Fp. destruct (Fp av I). apply in_vals; assumption. }
      assert (Hsm : forall av, In av p -> snd av < 2 ^ W /\ snd av <> 0).
      { intros av I. rewrite Forall_forall in Fp. destruct (Fp av I). split; [apply small_W|]; assumption. }
      destruct p as [|[a4 v4] [|[a3 v3] [|[a2 v2] [|[a1 v1] [|? ?]]]]]; cbn [length] in Lp; try lia.
      - (* one error *)
        cbn [synp]. rewrite zn_0, N.lxor_0_l. destruct (Hsm (a4, v4) (or_introl eq_refl)). apply zn_nonzero; assumption.
      - (* two errors *)
        cbn [synp span] in *.
        pose proof (Hin (a4, v4) ltac:(simpl; auto)) as I4. pose proof (Hin (a3, v3) ltac:(simpl; auto)) as I3. cbn [snd] in *.
        destruct (Hsm (a4, v4) ltac:(simpl; auto)) as [S4 _]. destruct (Hsm (a3, v3) ltac:(simpl; auto)) as [S3 _]. cbn [snd] in *.
        apply zn_nonzero; [bound|].
        rewrite zn_0, N.lxor_0_l, !zn1_zn. apply core2; [lia|assumption|assumption].
      - (* three errors *)
        cbn [synp span] in *.
        pose proof (Hin (a4, v4) ltac:(simpl; auto)) as I4. pose proof (Hin (a3, v3) ltac:(simpl; auto)) as I3.
        pose proof (Hin (a2, v2) ltac:(simpl; auto)) as I2. cbn [snd] in *.
        destruct (Hsm (a4, v4) ltac:(simpl; auto)) as [S4 _]. destruct (Hsm (a3, v3) ltac:(simpl; auto)) as [S3 _].
        destruct (Hsm (a2, v2) ltac:(simpl; auto)) as [S2 _]. cbn [snd] in *.
        apply zn_nonzero; [bound|].
        rewrite zn_0, N.lxor_0_l, !zn1_zn, !zn_lin, <- !zn_add.
        apply core3; try assumption; lia.
      - (* four errors *)
        cbn [synp span] in *.
        pose proof (Hin (a4, v4) ltac:(simpl; auto)) as I4. pose proof (Hin (a3, v3) ltac:(simpl; auto)) as I3.
        pose proof (Hin (a2, v2) ltac:(simpl; auto)) as I2. pose proof (Hin (a1, v1) ltac:(simpl; auto)) as I1. cbn [snd] in *.
        destruct (Hsm (a4, v4) ltac:(simpl; auto)) as [S4 _]. destruct (Hsm (a3, v3) ltac:(simpl; auto)) as [S3 _].
        destruct (Hsm (a2, v2) ltac:(simpl; auto)) as [S2 _]. destruct (Hsm (a1, v1) ltac:(simpl; auto)) as [S1 _]. cbn [snd] in *.
        apply zn_nonzero; [bound|].
        rewrite zn_0, N.lxor_0_l, !zn1_zn, !zn_lin, <- !zn_add.
        apply core4; try assumption; lia.
    Qed.
  End Sound.

  Theorem certificate_sound L : certificate L = true ->
    forall e, (length e <= L)%nat -> Forall (fun v => v < 2 ^ sb) e -> (1 <= weight e <= 4)%nat -> pm 0 e <> 0.
  Proof.
    unfold certificate. intros C. apply andb_true_iff in C. destruct C as [C C3].
    apply andb_true_iff in C. destruct C as [C1 C2]. exact (no_light_codeword (buildA L) L C1 C2 C3).
  Qed.

  (* two words of equal length (at most L) that differ in 1..4 symbols never reach the same state *)
  Theorem detects_4 L : certificate L = true ->
    forall c d1 d2, length d1 = length d2 -> (length d1 <= L)%nat ->
      Forall (fun v => v < 2 ^ sb) d1 -> Forall (fun v => v < 2 ^ sb) d2 ->
      (1 <= hamming d1 d2 <= 4)%nat -> pm c d1 <> pm c d2.
  Proof.
    intros C c d1 d2 Hl HL H1 H2 Hh E. rewrite hamming_weight in Hh.
    apply (certificate_sound L C (xorl d1 d2)); [rewrite xorl_length; assumption|apply xorl_small; assumption|assumption|].
    pose proof (pm_linear gens shift sb d1 d2 c c Hl) as P. rewrite N.lxor_nilpotent in P. rewrite P, E.
    apply N.lxor_nilpotent.
  Qed.

  (* ---- a non-zero target: no word of weight <= 3 within L positions has syndrome D.
          Used for D = (Bech32 constant) xor (Bech32m constant): up to three substitutions cannot turn a
          string valid under one constant into a string valid under the other.  Positions are absolute
          (counted from the end of the word): syndrome D is not invariant under shifts. *)
  Definition tableAll (L : nat) : list (nat * list N) := map (fun j => (j, row j)) (seq 0 L).

  Definition buildM (L : nat) : PositiveMap.t nat :=
    fold_left (fun m jr => fold_left (fun m x => PositiveMap.add (N.succ_pos x) (fst jr) m) (snd jr) m)
              (tableAll L) (PositiveMap.empty nat).

  Definition checkM (M : PositiveMap.t nat) (D : N) (L : nat) : bool :=
    forallb (fun jr => forallb (fun x => negb (x =? D) && opt_is (lookup M x) (fst jr)) (snd jr)) (tableAll L).

  Definition checkX2 (M : PositiveMap.t nat) (D : N) (L : nat) : bool :=
    let T := tableAll L in
    forallb (fun jr3 => forallb (fun jr4 =>
      (fst jr4 <=? fst jr3)%nat ||
      forallb (fun x => forallb (fun y =>
        negb (N.lxor x y =? D) &&
        match lookup M (N.lxor D (N.lxor x y)) with
        | None => true
        | Some p => Nat.eqb p (fst jr3) || Nat.eqb p (fst jr4)
        end) (snd jr4)) (snd jr3)) T) T.

  Definition certificateX (D : N) (L : nat) : bool :=
    let M := buildM L in checkM M D L && checkX2 M D L.

  Lemma in_tableAll L j : (j < L)%nat -> In (j, row j) (tableAll L).
  Proof. intros H. unfold tableAll. apply in_map_iff. exists j. split; [reflexivity|]. apply in_seq. lia. Qed.

  Section SoundX.
    Variable M : PositiveMap.t nat.
    Variable D : N.
    Variable L : nat.
    Hypothesis HM : checkM M D L = true.
    Hypothesis HX : checkX2 M D L = true.

    Lemma GM j v : (j < L)%nat -> In v vals -> zn j v <> D /\ lookup M (zn j v) = Some j.
    Proof.
      intros Hj Hv. unfold checkM in HM. rewrite forallb_forall in HM.
      specialize (HM _ (in_tableAll L j Hj)). cbn [fst snd] in HM.
      rewrite forallb_forall in HM. specialize (HM _ (in_row j v Hv)).
      apply andb_true_iff in HM. destruct HM as [N1 N2]. apply negb_true_iff, N.eqb_neq in N1. split; [exact N1|].
      unfold opt_is in N2. destruct (lookup M (zn j v)) as [p|]; [|discriminate]. apply Nat.eqb_eq in N2. congruence.
    Qed.

    Lemma GX j3 j4 x y : (j3 < j4)%nat -> (j4 < L)%nat -> In x vals -> In y vals ->
      N.lxor (zn j3 x) (zn j4 y) <> D /\
      forall p, lookup M (N.lxor D (N.lxor (zn j3 x) (zn j4 y))) = Some p -> p = j3 \/ p = j4.
    Proof.
      intros H1 H2 Hx Hy. unfold checkX2 in HX. rewrite forallb_forall in HX.
      specialize (HX _ (in_tableAll L j3 ltac:(lia))). rewrite forallb_forall in HX.
      specialize (HX _ (in_tableAll L j4 ltac:(lia))). cbn [fst snd] in HX.
      apply orb_true_iff in HX. destruct HX as [C|C]; [apply Nat.leb_le in C; lia|].
      rewrite forallb_forall in C. specialize (C _ (in_row j3 x Hx)).
      rewrite forallb_forall in C. specialize (C _ (in_row j4 y Hy)).
      apply andb_true_iff in C. destruct C as [C1 C2]. apply negb_true_iff, N.eqb_neq in C1. split; [exact C1|].
      intros p E. rewrite E in C2. apply orb_true_iff in C2. destruct C2 as [C2|C2]; apply Nat.eqb_eq in C2; auto.
    Qed.

    Lemma coreX3 ja jb jc v1 v2 v3 : (ja < jb)%nat -> (jb < jc)%nat -> (jc < L)%nat ->
      In v1 vals -> In v2 vals -> In v3 vals ->
      N.lxor (N.lxor (zn jc v1) (zn jb v2)) (zn ja v3) <> D.
    Proof.
      intros H1 H2 H3 I1 I2 I3 Z.
      destruct (GM jc v1 H3 I1) as [_ LM]. destruct (GX ja jb v3 v2 H1 ltac:(lia) I3 I2) as [_ GXp].
      assert (E : N.lxor D (N.lxor (zn ja v3) (zn jb v2)) = zn jc v1).
      { rewrite <- Z. apply N.bits_inj. intro i. rewrite !N.lxor_spec.
        destruct (N.testbit (zn jc v1) i), (N.testbit (zn jb v2) i), (N.testbit (zn ja v3) i); reflexivity. }
      rewrite <- E in LM. apply GXp in LM. lia.
    Qed.

    Theorem no_light_coset e : (length e <= L)%nat -> Forall (fun v => v < 2 ^ sb) e ->
      (1 <= weight e <= 3)%nat -> pm 0 e <> D.
    Proof.
      intros Hlen He Hw.
      destruct (decompose (weight e) e eq_refl He) as (p & Lp & -> & Sp & Fp).
      assert (Hin : forall av, In av p -> In (snd av) vals).
      { intros av I. rewrite Forall_forall in Fp. destruct (Fp av I). apply in_vals; assumption. }
      destruct p as [|[a4 v4] [|[a3 v3] [|[a2 v2] [|? ?]]]]; cbn [length] in Lp; try lia.
      - cbn [synp span] in *. rewrite zn_0, N.lxor_0_l. apply GM; [lia|]. apply (Hin (a4, v4)). simpl; auto.
      - cbn [synp span] in *.
        pose proof (Hin (a4, v4) ltac:(simpl; auto)) as I4. pose proof (Hin (a3, v3) ltac:(simpl; auto)) as I3. cbn [snd] in *.
        rewrite zn_0, N.lxor_0_l, !zn1_zn, !zn_lin, <- !zn_add, N.lxor_comm. apply GX; try assumption; lia.
      - cbn [synp span] in *.
        pose proof (Hin (a4, v4) ltac:(simpl; auto)) as I4. pose proof (Hin (a3, v3) ltac:(simpl; auto)) as I3.
        pose proof (Hin (a2, v2) ltac:(simpl; auto)) as I2. cbn [snd] in *.
        rewrite zn_0, N.lxor_0_l, !zn1_zn, !zn_lin, <- !zn_add. apply coreX3; try assumption; lia.
    Qed.
  End SoundX.

  Theorem certificateX_sound D L : certificateX D L = true ->
    forall c d1 d2, length d1 = length d2 -> (length d1 <= L)%nat ->
      Forall (fun v => v < 2 ^ sb) d1 -> Forall (fun v => v < 2 ^ sb) d2 ->
      (1 <= hamming d1 d2 <= 3)%nat -> N.lxor (pm c d1) (pm c d2) <> D.
  Proof.
    unfold certificateX. intros C c d1 d2 Hl HL H1 H2 Hh. apply andb_true_iff in C. destruct C as [C1 C2].
    rewrite hamming_weight in Hh.
    pose proof (pm_linear gens shift sb d1 d2 c c Hl) as P. rewrite N.lxor_nilpotent in P. rewrite <- P.
    apply (no_light_coset (buildM L) D L C1 C2); [rewrite xorl_length; assumption|apply xorl_small; assumption|assumption].
  Qed.
End Detect.

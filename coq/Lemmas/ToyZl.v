(* A concrete back-end for the companion Examples of Props/C18.v: the cyclic group Z/l (l the ed25519
   order regenerated from the source) with generator 1, and length-based stand-ins for the hash
   functions.  It satisfies every oracle law the C18 theorems assume, including l*G = 0. *)
From Coq Require Import NArith Arith List Lia Bool Eqdep_dec.
From BU Require Import Base.Exn Base.Radix Base.Bytes Gen.ConstsCardmon Model.EdLib Lemmas.CardmonConstsOk Lemmas.EdLib.
Import ListNotations.
Open Scope N_scope.

Definition zl := { n : N | (n <? ed_order) = true }.

Lemma zl_eq (a b : zl) : proj1_sig a = proj1_sig b -> a = b.
Proof.
  destruct a as [x px], b as [y py]. simpl. intros ->. f_equal. apply UIP_dec. apply bool_dec.
Qed.

Lemma mod_ltb n : (n mod ed_order <? ed_order) = true.
Proof. apply N.ltb_lt, mod_order_lt. Qed.

Definition zl_of (n : N) : zl := exist _ (n mod ed_order) (mod_ltb n).
Definition zl_val (a : zl) : N := proj1_sig a.
Definition zl_add (a b : zl) : zl := zl_of (zl_val a + zl_val b).
Definition zl_mul (n : N) (a : zl) : zl := zl_of (n * zl_val a).
Definition zl_base : zl := zl_of 1.
Definition zl_zero : zl := zl_of 0.
Definition zl_is_zero (a : zl) : bool := zl_val a =? 0.
Definition zl_enc (a : zl) : list N := le_pad 32 (zl_val a).
Definition zl_dec (b : list N) : option zl := Some (zl_of (le_to_int b)).

Lemma zl_val_lt a : zl_val a < ed_order.
Proof. destruct a as [x px]. simpl. apply N.ltb_lt; exact px. Qed.
Lemma zl_val_of n : zl_val (zl_of n) = n mod ed_order.
Proof. reflexivity. Qed.

Lemma zl_mul_add x y P : zl_mul (x + y) P = zl_add (zl_mul x P) (zl_mul y P).
Proof.
  apply zl_eq. unfold zl_mul, zl_add. rewrite !zl_val_of.
  pose proof ed_order_pos. rewrite <- N.add_mod by lia. f_equal. lia.
Qed.
Lemma zl_mul_mul x y P : zl_mul x (zl_mul y P) = zl_mul (x * y) P.
Proof.
  apply zl_eq. unfold zl_mul. rewrite !zl_val_of. pose proof ed_order_pos.
  rewrite N.mul_mod_idemp_r by lia. f_equal. lia.
Qed.
Lemma zl_order : zl_mul ed_order zl_base = zl_zero.
Proof.
  apply zl_eq. unfold zl_mul, zl_base, zl_zero. rewrite !zl_val_of. pose proof ed_order_pos.
  rewrite N.mul_mod_idemp_r by lia. rewrite N.mul_1_r, N.mod_same, N.mod_0_l by lia. reflexivity.
Qed.
Lemma zl_mul_zero x : zl_mul x zl_zero = zl_zero.
Proof.
  apply zl_eq. unfold zl_mul, zl_zero. rewrite !zl_val_of. pose proof ed_order_pos.
  rewrite N.mod_0_l by lia. rewrite N.mul_0_r. reflexivity.
Qed.
Lemma zl_add_zero_l P : zl_add zl_zero P = P.
Proof.
  apply zl_eq. unfold zl_add, zl_zero. rewrite !zl_val_of. pose proof ed_order_pos.
  rewrite N.mod_0_l by lia. rewrite N.add_0_l. apply N.mod_small, zl_val_lt.
Qed.

Lemma zl_fits a : zl_val a < 256 ^ N.of_nat 32.
Proof. pose proof (zl_val_lt a). pose proof order_lt_256_32 as Q. rewrite ed_coord_len_32 in Q. lia. Qed.
Lemma zl_enc_len P : length (zl_enc P) = 32%nat.
Proof. apply (le_pad_props 32 _ (zl_fits P)). Qed.
Lemma zl_enc_ok P : bytes_ok (zl_enc P).
Proof. apply (le_pad_props 32 _ (zl_fits P)). Qed.
Lemma zl_dec_enc P : zl_dec (zl_enc P) = Some P.
Proof.
  unfold zl_dec, zl_enc. f_equal. apply zl_eq. rewrite zl_val_of, le_to_int_le_pad. apply N.mod_small, zl_val_lt.
Qed.

(* hash stand-ins: first byte from the input length, the rest zero *)
Definition toy_hashn (len : nat) (x : list N) : list N :=
  firstn len ((2 + N.of_nat (length x) mod 200) :: repeat 0 (len - 1)).
Lemma toy_hashn_len len x : length (toy_hashn len x) = len.
Proof. unfold toy_hashn. rewrite firstn_length. simpl. rewrite repeat_length. lia. Qed.
Lemma toy_hashn_ok len x : bytes_ok (toy_hashn len x).
Proof.
  unfold toy_hashn. apply bytes_ok_firstn. constructor; [|apply bytes_ok_repeat0].
  pose proof (N.mod_lt (N.of_nat (length x)) 200 ltac:(discriminate)). lia.
Qed.

(* Facts about the constants regenerated from /repo (Gen/Bech32Consts.v), re-proved by the kernel on every
   run.  Every theorem of the Bech32 family depends on them: a source edit that breaks one of these facts
   (a changed generator word, mask, charset, separator, length) breaks the build of those theorems. *)
From Coq Require Import NArith Arith List Lia Bool.
From BU Require Import Base.Bytes Gen.Bech32Consts Model.Bech32Str Model.Bech32 Lemmas.Bech32Str Lemmas.Bech32Poly.
Import ListNotations.
Open Scope N_scope.

(* ---- charset and separators *)
Lemma charset_nodup : NoDup bech32_charset.
Proof. apply nodupb_sound. vm_compute. reflexivity. Qed.
Lemma charset_len : length bech32_charset = 32%nat.
Proof. reflexivity. Qed.
Lemma charset_stable : Forall stable bech32_charset.
Proof.
  assert (H : forallb stableb bech32_charset = true) by (vm_compute; reflexivity).
  rewrite forallb_forall in H. apply Forall_forall. intros c Hc. specialize (H c Hc).
  unfold stableb in H. apply andb_true_iff in H. destruct H as [H1 H2].
  apply list_eqb_spec in H1. apply negb_true_iff in H2. split; assumption.
Qed.
Lemma charset_ascii : Forall (fun x => x < 128) bech32_charset.
Proof.
  assert (H : forallb (fun x => x <? 128) bech32_charset = true) by (vm_compute; reflexivity).
  rewrite forallb_forall in H. apply Forall_forall. intros x Hx. apply N.ltb_lt. auto.
Qed.

Lemma sep_stable s : In s [bech32_sep; segwit_sep; cash_sep] -> stable s /\ ~ In s bech32_charset /\ s < 128.
Proof.
  assert (H : forallb (fun s => stableb s && negb (memb s bech32_charset) && (s <? 128)) [bech32_sep; segwit_sep; cash_sep] = true)
    by (vm_compute; reflexivity).
  rewrite forallb_forall in H. intros Hs. specialize (H s Hs).
  apply andb_true_iff in H. destruct H as [H H3]. apply andb_true_iff in H. destruct H as [H1 H2].
  unfold stableb in H1. apply andb_true_iff in H1. destruct H1 as [H1 H1'].
  apply list_eqb_spec in H1. apply negb_true_iff in H1', H2. apply N.ltb_lt in H3.
  split; [split; assumption|]. split; [|assumption]. intro I. apply memb_In in I. congruence.
Qed.

Lemma hrp_range : bech32_hrp_min_cp = 33 /\ bech32_hrp_max_cp = 126.
Proof. split; reflexivity. Qed.

Lemma base32_widths : b32_to_from_bits = 8 /\ b32_to_to_bits = 5 /\ b32_from_from_bits = 5 /\ b32_from_to_bits = 8.
Proof. repeat split; reflexivity. Qed.

(* ---- Bech32 polymod parameters: a 30-bit state, 6 check symbols of 5 bits *)
Definition b32_gens := indexed bech32_gen.

Lemma b32_mask : bech32_pm_mask = N.ones bech32_pm_shift.
Proof. reflexivity. Qed.
Lemma b32_gens_small : Forall (fun g => snd g < 2 ^ (bech32_pm_shift + bech32_pm_symbits)) b32_gens.
Proof.
  assert (H : forallb (fun g => snd g <? 2 ^ (bech32_pm_shift + bech32_pm_symbits)) b32_gens = true) by (vm_compute; reflexivity).
  rewrite forallb_forall in H. apply Forall_forall. intros g Hg. apply N.ltb_lt. auto.
Qed.
Lemma b32_cklen_pos : (1 <= bech32_cklen)%nat.
Proof. vm_compute. lia. Qed.
Lemma b32_shift_eq : bech32_pm_shift = bech32_pm_symbits * (N.of_nat bech32_cklen - 1).
Proof. reflexivity. Qed.
Lemma b32_cs_consts : bech32_cs_bits = bech32_pm_symbits /\ bech32_cs_top = N.of_nat bech32_cklen - 1 /\
  bech32_cs_mask = N.ones bech32_pm_symbits /\ bech32_cs_pad = bech32_cklen /\ segwit_cklen = bech32_cklen /\
  segwit_sep = bech32_sep.
Proof. repeat split; reflexivity. Qed.
Lemma b32_small_consts : bech32_pm_init < 2 ^ (bech32_pm_shift + bech32_pm_symbits) /\
  bech32_const < 2 ^ (bech32_pm_shift + bech32_pm_symbits) /\ bech32m_const < 2 ^ (bech32_pm_shift + bech32_pm_symbits) /\
  bech32_hrp_max_cp < 2 ^ (bech32_pm_shift + bech32_pm_symbits) /\ bech32_hrp_sepval < 2 ^ (bech32_pm_shift + bech32_pm_symbits) /\
  bech32_pm_symbits = 5.
Proof. repeat split; reflexivity. Qed.

(* the low five bits of the five generator words are linearly independent over GF(2) (32-case sweep) *)
Lemma low_indep_of_sweep gens sb :
  forallb (fun t => (t =? 0) || negb (N.land (gs gens t) (N.ones sb) =? 0)) (map N.of_nat (seq 0 (N.to_nat (2 ^ sb)))) = true ->
  forall t, t < 2 ^ sb -> N.land (gs gens t) (N.ones sb) = 0 -> t = 0.
Proof.
  intros S t Ht Z. rewrite forallb_forall in S. specialize (S t).
  assert (I : In t (map N.of_nat (seq 0 (N.to_nat (2 ^ sb))))).
  { apply in_map_iff. exists (N.to_nat t). split; [apply Nnat.N2Nat.id|]. apply in_seq. lia. }
  specialize (S I). apply orb_true_iff in S. destruct S as [S|S]; [apply N.eqb_eq; assumption|].
  rewrite Z in S. discriminate.
Qed.

Lemma b32_low_indep : forall t, t < 2 ^ bech32_pm_symbits ->
  N.land (gs b32_gens t) (N.ones bech32_pm_symbits) = 0 -> t = 0.
Proof. apply low_indep_of_sweep. vm_compute. reflexivity. Qed.

(* ---- CashAddr polymod parameters: a 40-bit state, 8 check symbols *)
Lemma cash_mask : cash_pm_mask = N.ones cash_pm_shift.
Proof. reflexivity. Qed.
Lemma cash_gens_small : Forall (fun g => snd g < 2 ^ (cash_pm_shift + cash_pm_symbits)) cash_gen.
Proof.
  assert (H : forallb (fun g => snd g <? 2 ^ (cash_pm_shift + cash_pm_symbits)) cash_gen = true) by (vm_compute; reflexivity).
  rewrite forallb_forall in H. apply Forall_forall. intros g Hg. apply N.ltb_lt. auto.
Qed.
Lemma cash_cklen_pos : (1 <= cash_cklen)%nat.
Proof. vm_compute. lia. Qed.
Lemma cash_shift_eq : cash_pm_shift = cash_pm_symbits * (N.of_nat cash_cklen - 1).
Proof. reflexivity. Qed.
Lemma cash_cs_consts : cash_cs_bits = cash_pm_symbits /\ cash_cs_top = N.of_nat cash_cklen - 1 /\
  cash_cs_mask = N.ones cash_pm_symbits /\ cash_cs_pad = cash_cklen.
Proof. repeat split; reflexivity. Qed.
Lemma cash_small_consts : cash_pm_init < 2 ^ (cash_pm_shift + cash_pm_symbits) /\
  cash_pm_final < 2 ^ (cash_pm_shift + cash_pm_symbits) /\ cash_hrp_sepval < 2 ^ (cash_pm_shift + cash_pm_symbits) /\
  cash_verify_const = 0 /\ cash_pm_symbits = 5 /\ cash_hrp_mask < 2 ^ (cash_pm_shift + cash_pm_symbits).
Proof. repeat split; reflexivity. Qed.
Lemma cash_low_indep : forall t, t < 2 ^ cash_pm_symbits ->
  N.land (gs cash_gen t) (N.ones cash_pm_symbits) = 0 -> t = 0.
Proof. apply low_indep_of_sweep. vm_compute. reflexivity. Qed.

(* ---- minimum data lengths passed to _DecodeBech32: SegWit and CashAddr need their version symbol / byte *)
Lemma dec_min_data : segwit_decoder_min_data = 1%nat /\ cash_decoder_min_data = 1%nat /\ (bech32_decoder_min_data <= 1)%nat.
Proof. split; [reflexivity|]. split; [reflexivity|]. apply PeanoNat.Nat.leb_le. reflexivity. Qed.

(* ---- SegWit limits *)
Lemma segwit_consts : segwit_prog_min = 2%nat /\ segwit_prog_max = 40%nat /\ segwit_ver_bech32 = 0 /\
  segwit_ver_max = 16 /\ segwit_v0_lens = [20%nat; 32%nat].
Proof. repeat split; reflexivity. Qed.

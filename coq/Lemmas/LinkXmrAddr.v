(* LINK (model-mirroring part): the exact acceptance condition of the Monero address decoder on the decoded bytes,
   and the exclusion of the fuel artefact from its error classes.  These two statements unfold the body of
   Model/AddrXmr.v [decode_addr] as revised after the repair of finding C10-XMR-INTEG-LEN (without an expected payment id
   the plain length; with one: its length, the with-id length of the payload, and the id itself). *)
From Coq Require Import NArith Arith List Lia Bool.
From BU Require Import Base.Exn Base.Radix Base.Bytes Gen.Consts Gen.ConstsCardmon.
From BU Require Model.EdLib Model.AddrXmr.
From BU Require Lemmas.AddrXmr Lemmas.LinkXmr.
Import ListNotations.
Open Scope N_scope.

Notation b58x_encode := AddrXmr.b58x_encode.
Notation b58x_decode := AddrXmr.b58x_decode.

Section Addr.
  Variable keccak : list N -> list N.
  Variable G : Type.
  Variable pdec : list N -> option G.

  Notation decode_addr := (AddrXmr.decode_addr keccak G pdec).
  Notation checksum := (AddrXmr.checksum keccak).

  (* what the decoder checks on the decoded bytes *)
  Definition addr_bytes_accepted (dec net : list N) (payid : option (list N)) (r : list N) : Prop :=
    let payload := drop_last xmr_addr_cklen dec in
    let body := skipn (length net) payload in
    take_last xmr_addr_cklen dec = checksum payload /\
    net = firstn (length net) payload /\
    match payid with
    | None => length body = (2 * ed_pub_len)%nat
    | Some p => length p = xmr_payid_len /\ length body = (2 * ed_pub_len + xmr_payid_len)%nat /\
                p = take_last xmr_payid_len body
    end /\
    EdLib.pub_is_valid G pdec (firstn ed_pub_len body) = true /\
    EdLib.pub_is_valid G pdec (slice ed_pub_len (2 * ed_pub_len) body) = true /\
    r = firstn ed_pub_len body ++ slice ed_pub_len (2 * ed_pub_len) body.

  Lemma decode_addr_on_bytes addr net payid dec r : b58x_decode addr = Ok dec ->
    (decode_addr addr net payid = Ok r <-> addr_bytes_accepted dec net payid r).
  Proof.
    intros D. unfold AddrXmr.decode_addr, addr_bytes_accepted. rewrite D. cbn [bind Ok].
    set (payload := drop_last xmr_addr_cklen dec). set (body := skipn (length net) payload).
    destruct (list_eqb (take_last xmr_addr_cklen dec) (checksum payload)) eqn:E1.
    2:{ split; [discriminate|]. intros (H & _). apply list_eqb_spec in H. unfold Ok in *. congruence. }
    apply list_eqb_spec in E1.
    destruct (list_eqb net (firstn (length net) payload)) eqn:E2.
    2:{ split; [discriminate|]. intros (_ & H & _). apply list_eqb_spec in H. congruence. }
    apply list_eqb_spec in E2.
    destruct payid as [p|].
    - destruct (length p =? xmr_payid_len)%nat eqn:E5.
      2:{ apply Nat.eqb_neq in E5. split; [discriminate|]. intros (_ & _ & (L & _) & _). contradiction. }
      apply Nat.eqb_eq in E5.
      destruct (length body =? 2 * ed_pub_len + xmr_payid_len)%nat eqn:E4.
      2:{ apply Nat.eqb_neq in E4. split; [discriminate|]. intros (_ & _ & (_ & L & _) & _). contradiction. }
      apply Nat.eqb_eq in E4.
      destruct (list_eqb p (take_last xmr_payid_len body)) eqn:E6.
      2:{ cbn [bind]. split; [discriminate|]. intros (_ & _ & (_ & _ & X) & _). apply list_eqb_spec in X. congruence. }
      apply list_eqb_spec in E6. cbn [bind Ok].
      destruct (EdLib.pub_is_valid G pdec (firstn ed_pub_len body)) eqn:V1.
      2:{ split; [discriminate|]. intros (_ & _ & _ & H & _). discriminate. }
      destruct (EdLib.pub_is_valid G pdec (slice ed_pub_len (2 * ed_pub_len) body)) eqn:V2.
      2:{ split; [discriminate|]. intros (_ & _ & _ & _ & H & _). discriminate. }
      split.
      + intros H. inversion H. repeat split; auto.
      + intros (_ & _ & _ & _ & _ & ->). reflexivity.
    - destruct (length body =? 2 * ed_pub_len)%nat eqn:E3.
      2:{ apply Nat.eqb_neq in E3. cbn [bind]. split; [discriminate|]. intros (_ & _ & L & _). contradiction. }
      apply Nat.eqb_eq in E3. cbn [bind Ok].
      destruct (EdLib.pub_is_valid G pdec (firstn ed_pub_len body)) eqn:V1.
      2:{ split; [discriminate|]. intros (_ & _ & _ & H & _). discriminate. }
      destruct (EdLib.pub_is_valid G pdec (slice ed_pub_len (2 * ed_pub_len) body)) eqn:V2.
      2:{ split; [discriminate|]. intros (_ & _ & _ & _ & H & _). discriminate. }
      split.
      + intros H. inversion H. repeat split; auto.
      + intros (_ & _ & _ & _ & _ & ->). reflexivity.
  Qed.

  (* acceptance of the address decoder: exactly the canonical block-Base58 spellings of well-formed byte
     strings that pass the checksum / net / length / key tests -- no second spelling of an address *)
  Theorem decode_addr_accepts_iff addr net payid r :
    decode_addr addr net payid = Ok r <->
    exists dec, bytes_ok dec /\ b58x_encode dec = addr /\ addr_bytes_accepted dec net payid r.
  Proof.
    split.
    - intros H. destruct (b58x_decode addr) as [dec|e] eqn:D.
      + destruct (LinkXmr.b58x_encode_decode addr dec D) as [E Hb]. exists dec. split; [exact Hb|]. split; [exact E|].
        apply (decode_addr_on_bytes addr net payid dec r D). exact H.
      + unfold AddrXmr.decode_addr in H. rewrite D in H. discriminate.
    - intros (dec & Hb & E & A). apply (decode_addr_on_bytes addr net payid dec r); [|exact A].
      subst addr. apply Lemmas.AddrXmr.b58x_decode_encode. exact Hb.
  Qed.

  (* two accepted address strings with the same decoded bytes are the same string *)
  Corollary decode_addr_canonical addr net payid r :
    decode_addr addr net payid = Ok r -> exists dec, b58x_decode addr = Ok dec /\ b58x_encode dec = addr.
  Proof.
    intros H. destruct (b58x_decode addr) as [dec|e] eqn:D.
    - exists dec. split; [reflexivity|]. apply (LinkXmr.b58x_encode_decode addr dec D).
    - unfold AddrXmr.decode_addr in H. rewrite D in H. discriminate.
  Qed.

  (* the decoder refuses with ValueError only; the fuel artefact of Model/XmrB58.v is unreachable *)
  Theorem decode_addr_err_value addr net payid e : decode_addr addr net payid = Err e -> e = ValueError.
  Proof.
    intros H. destruct (b58x_decode addr) as [dec|e0] eqn:D.
    - destruct (Lemmas.AddrXmr.decode_addr_err keccak G pdec addr net payid e H) as [ -> | -> ]; [reflexivity|].
      exfalso. revert H. unfold AddrXmr.decode_addr. rewrite D. cbn [bind Ok].
      repeat match goal with
             | |- context [if ?c then _ else _] => destruct c
             | |- context [match ?p with Some _ => _ | None => _ end] => destruct p
             end; cbn [bind Ok]; try discriminate.
    - unfold AddrXmr.decode_addr in H. rewrite D in H. cbn [bind] in H. inversion H; subst.
      apply (LinkXmr.b58x_decode_err addr e D).
  Qed.
End Addr.

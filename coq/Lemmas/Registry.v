(* GOLDEN SNAPSHOT of the coin constants of bip_utils at the pinned commit -- COMMITTED, not regenerated.

   Produced once by `PYTHONPATH=harness:/repo /venv/bin/python harness/gen_coins.py --registry`
   and reviewed by hand (see the cross-check notes at the end of this comment).
   Theorem `registry_equal` (Lemmas/CoinsOk.v, Props/C08.v) states that the table regenerated from
   /repo on every run equals this snapshot, so ANY edit of a coin constant (SLIP-44 index,
   extended-key / WIF version bytes, address version / HRP / prefix, default path, curve, class,
   names) breaks the build of C08 until the snapshot is deliberately regenerated and re-reviewed.

   What this does and does not establish: `registry_equal` guards against drift.  Agreement of the
   snapshot ITSELF with the external registries (SLIP-0044 coin types, SLIP-0132 version bytes,
   SLIP-0173 human-readable parts, the coins' own chain parameters) is a ONE-TIME MANUAL
   cross-check, not a theorem.

   ONE-TIME MANUAL CROSS-CHECK (done when this snapshot was taken; reviewer's notes).
   Compared against bip_utils/slip/slip44/slip44.py (symbolic names, also checked mechanically by
   the generator: every coin_idx is the Slip44 constant its definition names) and against the
   well-known published values:
   * SLIP-0044 coin types: BTC 0, testnet 1, LTC 2, DOGE 3, DASH 5, ETH 60, ETC 61, ICX 74,
     XVG 77, ATOM 118, XMR 128, ZEC 133, XRP 144, BCH 145, XLM 148, NANO 165, EOS 194, TRX 195,
     BSV 236, NIM 242, ALGO 283, ZIL 313, LUNA 330, DOT 354, NEAR 397, ERG 429, KSM 434,
     KAVA 459, FIL 461, BAND 494, THETA 500, SOL 501, EGLD 508, SCRT 529, NCG 567, APT 637,
     BNB 714, SUI 784, VET 818, NEO 888, OKT 996, ONE 1023, ONT 1024, XTZ 1729, ADA 1815,
     AVAX 9000, CELO 52752, PI 314159 -- all agree.  Cosmos-SDK chains without an own coin type
     (Akash, Axelar, Celestia, Certik, Chihuahua, dYdX, Fetch.ai, IRISnet, Neutron, Osmosis,
     Stafi, Secret "old") use 118; EVM chains (Arbitrum, Optimism, Polygon, BSC, Fantom, Avax-C,
     Metis, Huobi, Harmony-Metamask, OKEx-eth, Injective, Fetch.ai-eth) use 60 -- as their
     wallets do.
   * SLIP-0132 / BIP-32 version bytes: xpub/xprv 0488b21e/0488ade4, tpub/tprv 043587cf/04358394,
     ypub/yprv 049d7cb2/049d7878, upub/uprv 044a5262/044a4e28, zpub/zprv 04b24746/04b2430c,
     vpub/vprv 045f1cf6/045f18bc, Dogecoin dgub/dgpv 02facafd/02fac398 and tgub/tgpv
     0432a9a8/0432a243, Litecoin Ltub/Ltpv 019da462/019d9cfe (alternate) and ttub/ttpv
     0436f6e1/0436ef7d, Cardano (Kholaw) xpub 0488b21e / xprv 0f4331d4 -- all agree.
   * WIF bytes: BTC/BCH/BSV/ZEC/NEO 0x80, test nets 0xef, LTC 0xb0, DOGE 0x9e (test 0xf1),
     DASH 0xcc, XVG 0x9e -- agree.
   * P2PKH / P2SH versions: BTC 00/05, test 6f/c4, LTC 30/32 (deprecated 00/05; test 6f/3a),
     DOGE 1e/16 (test 71/c4), DASH 4c/10 (test 8c/13), XVG 1e, ZEC 1cb8/1cbd (test 1d25/1cba),
     CashAddr type bytes 00/08 with prefixes bitcoincash/bchtest/simpleledger/slptest/ecash/ectest
     -- agree.
   * SLIP-0173 HRPs: bc/tb/bcrt, ltc/tltc, cosmos, akash, axelar, band, bnb, celestia, certik,
     chihuahua, dydx, fetch, iaa, kava, neutron, osmo, secret, stafi, terra, erd, one, inj, ex,
     zil; Cardano addr/addr_test/stake/stake_test; Avalanche avax -- agree.
   * SS58 registry: Polkadot 0, Kusama 2, Plasm 5, Bifrost 6, Edgeware 7, Karura 8, Acala 10,
     Stafi 20, Phala 30, generic 42, ChainX 44, Sora 69, Moonbeam 1284, Moonriver 1285 -- agree.
   * Monero network bytes main 18/19/42, stage 24/25/36, test 53/54/63; NEO address version
     0x17 (legacy, also Ontology) / 0x35 (N3); Tron 0x41; Tezos tz1 prefix 06a19f; Stellar
     account-id version 6<<3 = 48; Ergo network 0x00 / 0x10; Shelley network tag 1 / 0 -- agree.
   DISCREPANCIES FOUND:
   * F19: CoinsConf.BitcoinRegTest "p2wpkh_wit_ver" = 1; P2WPKH is witness version 0 (BIP-141).
     The snapshot holds the RIGHT value 0 there (gen_coins.py REGISTRY_OVERRIDES); the source is
     compared with it modulo Lemmas/CoinsExpected.v cconf_offenders (`registry_tables_equal`),
     and `table_coherent_refuted` exhibits the defect.
   * not defects, recorded for the next reviewer: test-net members ERGO_TESTNET (429) and
     CARDANO_*_TESTNET (1815) keep the main-net coin index (Lemmas/CoinsExpected.v lists them);
     the abbreviations "APTOS" (ticker APT) and "NANO" (ticker XNO) are display names only;
     BIP-49 Litecoin uses ypub/yprv by default with Mtub/Mtpv (01b26ef6/01b26792) as alternate,
     BIP-84 Litecoin test net uses ttub/ttpv (SLIP-0132 defines no segwit test-net bytes for it).
*)
From Coq Require Import NArith List.
From BU Require Import Model.Coins.
Import ListNotations.
Open Scope N_scope.

Definition golden_slip44 : list (list N * N) :=
  [([66; 73; 84; 67; 79; 73; 78], 0); ([84; 69; 83; 84; 78; 69; 84], 1); ([76; 73; 84; 69; 67; 79; 73; 78], 2); ([68; 79; 71; 69; 67; 79; 73; 78], 3); ([68; 65; 83; 72], 5); ([69; 84; 72; 69; 82; 69; 85; 77], 60); ([69; 84; 72; 69; 82; 69; 85; 77; 95; 67; 76; 65; 83; 83; 73; 67], 61); ([73; 67; 79; 78], 74); ([86; 69; 82; 71; 69], 77); ([65; 84; 79; 77], 118); ([77; 79; 78; 69; 82; 79], 128); ([90; 67; 65; 83; 72], 133); ([82; 73; 80; 80; 76; 69], 144); ([66; 73; 84; 67; 79; 73; 78; 95; 67; 65; 83; 72], 145); ([83; 84; 69; 76; 76; 65; 82], 148); ([78; 65; 78; 79], 165); ([69; 79; 83], 194); ([84; 82; 79; 78], 195); ([66; 73; 84; 67; 79; 73; 78; 95; 83; 86], 236); ([78; 73; 77; 73; 81], 242); ([65; 76; 71; 79; 82; 65; 78; 68], 283); ([90; 73; 76; 76; 73; 81; 65], 313); ([84; 69; 82; 82; 65], 330); ([80; 79; 76; 75; 65; 68; 79; 84], 354); ([78; 69; 65; 82; 95; 80; 82; 79; 84; 79; 67; 79; 76], 397); ([69; 82; 71; 79], 429); ([75; 85; 83; 65; 77; 65], 434); ([75; 65; 86; 65], 459); ([70; 73; 76; 69; 67; 79; 73; 78], 461); ([66; 65; 78; 68; 95; 80; 82; 79; 84; 79; 67; 79; 76], 494); ([84; 72; 69; 84; 65], 500); ([83; 79; 76; 65; 78; 65], 501); ([69; 76; 82; 79; 78; 68], 508); ([83; 69; 67; 82; 69; 84; 95; 78; 69; 84; 87; 79; 82; 75], 529); ([78; 73; 78; 69; 95; 67; 72; 82; 79; 78; 73; 67; 76; 69; 83], 567); ([65; 80; 84; 79; 83], 637); ([66; 73; 78; 65; 78; 67; 69; 95; 67; 72; 65; 73; 78], 714); ([83; 85; 73], 784); ([86; 69; 67; 72; 65; 73; 78], 818); ([78; 69; 79], 888); ([79; 75; 69; 88; 95; 67; 72; 65; 73; 78], 996); ([72; 65; 82; 77; 79; 78; 89; 95; 79; 78; 69], 1023); ([79; 78; 84; 79; 76; 79; 71; 89], 1024); ([84; 69; 90; 79; 83], 1729); ([67; 65; 82; 68; 65; 78; 79], 1815); ([65; 86; 65; 76; 65; 78; 67; 72; 69], 9000); ([67; 69; 76; 79], 52752); ([80; 73; 95; 78; 69; 84; 87; 79; 82; 75], 314159)].

Definition golden_coins_conf : list cconf := [
  (* CoinsConf.Acala: Acala, ACA; keys addr_ss58_format *)
  {| cc_attr := [65; 99; 97; 108; 97]; cc_name := [65; 99; 97; 108; 97]; cc_abbr := [65; 67; 65];
     cc_params := [([97; 100; 100; 114; 95; 115; 115; 53; 56; 95; 102; 111; 114; 109; 97; 116], PI 10)] |};
  (* CoinsConf.AkashNetwork: Akash Network, AKT; keys addr_hrp *)
  {| cc_attr := [65; 107; 97; 115; 104; 78; 101; 116; 119; 111; 114; 107]; cc_name := [65; 107; 97; 115; 104; 32; 78; 101; 116; 119; 111; 114; 107]; cc_abbr := [65; 75; 84];
     cc_params := [([97; 100; 100; 114; 95; 104; 114; 112], PS [97; 107; 97; 115; 104])] |};
  (* CoinsConf.Algorand: Algorand, ALGO; keys  *)
  {| cc_attr := [65; 108; 103; 111; 114; 97; 110; 100]; cc_name := [65; 108; 103; 111; 114; 97; 110; 100]; cc_abbr := [65; 76; 71; 79];
     cc_params := [] |};
  (* CoinsConf.Aptos: Aptos, APTOS; keys addr_prefix *)
  {| cc_attr := [65; 112; 116; 111; 115]; cc_name := [65; 112; 116; 111; 115]; cc_abbr := [65; 80; 84; 79; 83];
     cc_params := [([97; 100; 100; 114; 95; 112; 114; 101; 102; 105; 120], PS [48; 120])] |};
  (* CoinsConf.Arbitrum: Arbitrum, ARB; keys  *)
  {| cc_attr := [65; 114; 98; 105; 116; 114; 117; 109]; cc_name := [65; 114; 98; 105; 116; 114; 117; 109]; cc_abbr := [65; 82; 66];
     cc_params := [] |};
  (* CoinsConf.AvaxCChain: Avax C-Chain, AVAX; keys  *)
  {| cc_attr := [65; 118; 97; 120; 67; 67; 104; 97; 105; 110]; cc_name := [65; 118; 97; 120; 32; 67; 45; 67; 104; 97; 105; 110]; cc_abbr := [65; 86; 65; 88];
     cc_params := [] |};
  (* CoinsConf.AvaxPChain: Avax P-Chain, AVAX; keys addr_hrp addr_prefix *)
  {| cc_attr := [65; 118; 97; 120; 80; 67; 104; 97; 105; 110]; cc_name := [65; 118; 97; 120; 32; 80; 45; 67; 104; 97; 105; 110]; cc_abbr := [65; 86; 65; 88];
     cc_params := [([97; 100; 100; 114; 95; 104; 114; 112], PS [97; 118; 97; 120]); ([97; 100; 100; 114; 95; 112; 114; 101; 102; 105; 120], PS [80; 45])] |};
  (* CoinsConf.AvaxXChain: Avax X-Chain, AVAX; keys addr_hrp addr_prefix *)
  {| cc_attr := [65; 118; 97; 120; 88; 67; 104; 97; 105; 110]; cc_name := [65; 118; 97; 120; 32; 88; 45; 67; 104; 97; 105; 110]; cc_abbr := [65; 86; 65; 88];
     cc_params := [([97; 100; 100; 114; 95; 104; 114; 112], PS [97; 118; 97; 120]); ([97; 100; 100; 114; 95; 112; 114; 101; 102; 105; 120], PS [88; 45])] |};
  (* CoinsConf.Axelar: Axelar, AXL; keys addr_hrp *)
  {| cc_attr := [65; 120; 101; 108; 97; 114]; cc_name := [65; 120; 101; 108; 97; 114]; cc_abbr := [65; 88; 76];
     cc_params := [([97; 100; 100; 114; 95; 104; 114; 112], PS [97; 120; 101; 108; 97; 114])] |};
  (* CoinsConf.BandProtocol: Band Protocol, BAND; keys addr_hrp *)
  {| cc_attr := [66; 97; 110; 100; 80; 114; 111; 116; 111; 99; 111; 108]; cc_name := [66; 97; 110; 100; 32; 80; 114; 111; 116; 111; 99; 111; 108]; cc_abbr := [66; 65; 78; 68];
     cc_params := [([97; 100; 100; 114; 95; 104; 114; 112], PS [98; 97; 110; 100])] |};
  (* CoinsConf.Bifrost: Bifrost, BNC; keys addr_ss58_format *)
  {| cc_attr := [66; 105; 102; 114; 111; 115; 116]; cc_name := [66; 105; 102; 114; 111; 115; 116]; cc_abbr := [66; 78; 67];
     cc_params := [([97; 100; 100; 114; 95; 115; 115; 53; 56; 95; 102; 111; 114; 109; 97; 116], PI 6)] |};
  (* CoinsConf.BinanceChain: Binance Chain, BNB; keys addr_hrp *)
  {| cc_attr := [66; 105; 110; 97; 110; 99; 101; 67; 104; 97; 105; 110]; cc_name := [66; 105; 110; 97; 110; 99; 101; 32; 67; 104; 97; 105; 110]; cc_abbr := [66; 78; 66];
     cc_params := [([97; 100; 100; 114; 95; 104; 114; 112], PS [98; 110; 98])] |};
  (* CoinsConf.BinanceSmartChain: Binance Smart Chain, BNB; keys  *)
  {| cc_attr := [66; 105; 110; 97; 110; 99; 101; 83; 109; 97; 114; 116; 67; 104; 97; 105; 110]; cc_name := [66; 105; 110; 97; 110; 99; 101; 32; 83; 109; 97; 114; 116; 32; 67; 104; 97; 105; 110]; cc_abbr := [66; 78; 66];
     cc_params := [] |};
  (* CoinsConf.BitcoinMainNet: Bitcoin, BTC; keys p2pkh_net_ver p2sh_net_ver p2wpkh_hrp p2wpkh_wit_ver p2tr_hrp p2tr_wit_ver wif_net_ver *)
  {| cc_attr := [66; 105; 116; 99; 111; 105; 110; 77; 97; 105; 110; 78; 101; 116]; cc_name := [66; 105; 116; 99; 111; 105; 110]; cc_abbr := [66; 84; 67];
     cc_params := [([112; 50; 112; 107; 104; 95; 110; 101; 116; 95; 118; 101; 114], PB [0]); ([112; 50; 115; 104; 95; 110; 101; 116; 95; 118; 101; 114], PB [5]); ([112; 50; 119; 112; 107; 104; 95; 104; 114; 112], PS [98; 99]); ([112; 50; 119; 112; 107; 104; 95; 119; 105; 116; 95; 118; 101; 114], PI 0); ([112; 50; 116; 114; 95; 104; 114; 112], PS [98; 99]); ([112; 50; 116; 114; 95; 119; 105; 116; 95; 118; 101; 114], PI 1); ([119; 105; 102; 95; 110; 101; 116; 95; 118; 101; 114], PB [128])] |};
  (* CoinsConf.BitcoinTestNet: Bitcoin TestNet, BTC; keys p2pkh_net_ver p2sh_net_ver p2wpkh_hrp p2wpkh_wit_ver p2tr_hrp p2tr_wit_ver wif_net_ver *)
  {| cc_attr := [66; 105; 116; 99; 111; 105; 110; 84; 101; 115; 116; 78; 101; 116]; cc_name := [66; 105; 116; 99; 111; 105; 110; 32; 84; 101; 115; 116; 78; 101; 116]; cc_abbr := [66; 84; 67];
     cc_params := [([112; 50; 112; 107; 104; 95; 110; 101; 116; 95; 118; 101; 114], PB [111]); ([112; 50; 115; 104; 95; 110; 101; 116; 95; 118; 101; 114], PB [196]); ([112; 50; 119; 112; 107; 104; 95; 104; 114; 112], PS [116; 98]); ([112; 50; 119; 112; 107; 104; 95; 119; 105; 116; 95; 118; 101; 114], PI 0); ([112; 50; 116; 114; 95; 104; 114; 112], PS [116; 98]); ([112; 50; 116; 114; 95; 119; 105; 116; 95; 118; 101; 114], PI 1); ([119; 105; 102; 95; 110; 101; 116; 95; 118; 101; 114], PB [239])] |};
  (* CoinsConf.BitcoinRegTest: Bitcoin RegTest, BTC; keys p2pkh_net_ver p2sh_net_ver p2wpkh_hrp p2wpkh_wit_ver p2tr_hrp p2tr_wit_ver wif_net_ver *)
  {| cc_attr := [66; 105; 116; 99; 111; 105; 110; 82; 101; 103; 84; 101; 115; 116]; cc_name := [66; 105; 116; 99; 111; 105; 110; 32; 82; 101; 103; 84; 101; 115; 116]; cc_abbr := [66; 84; 67];
     cc_params := [([112; 50; 112; 107; 104; 95; 110; 101; 116; 95; 118; 101; 114], PB [111]); ([112; 50; 115; 104; 95; 110; 101; 116; 95; 118; 101; 114], PB [196]); ([112; 50; 119; 112; 107; 104; 95; 104; 114; 112], PS [98; 99; 114; 116]); ([112; 50; 119; 112; 107; 104; 95; 119; 105; 116; 95; 118; 101; 114], PI 0); ([112; 50; 116; 114; 95; 104; 114; 112], PS [98; 99; 114; 116]); ([112; 50; 116; 114; 95; 119; 105; 116; 95; 118; 101; 114], PI 1); ([119; 105; 102; 95; 110; 101; 116; 95; 118; 101; 114], PB [239])] |};
  (* CoinsConf.BitcoinCashMainNet: Bitcoin Cash, BCH; keys p2pkh_std_hrp p2pkh_std_net_ver p2pkh_legacy_net_ver p2sh_std_hrp p2sh_std_net_ver p2sh_legacy_net_ver wif_net_ver *)
  {| cc_attr := [66; 105; 116; 99; 111; 105; 110; 67; 97; 115; 104; 77; 97; 105; 110; 78; 101; 116]; cc_name := [66; 105; 116; 99; 111; 105; 110; 32; 67; 97; 115; 104]; cc_abbr := [66; 67; 72];
     cc_params := [([112; 50; 112; 107; 104; 95; 115; 116; 100; 95; 104; 114; 112], PS [98; 105; 116; 99; 111; 105; 110; 99; 97; 115; 104]); ([112; 50; 112; 107; 104; 95; 115; 116; 100; 95; 110; 101; 116; 95; 118; 101; 114], PB [0]); ([112; 50; 112; 107; 104; 95; 108; 101; 103; 97; 99; 121; 95; 110; 101; 116; 95; 118; 101; 114], PB [0]); ([112; 50; 115; 104; 95; 115; 116; 100; 95; 104; 114; 112], PS [98; 105; 116; 99; 111; 105; 110; 99; 97; 115; 104]); ([112; 50; 115; 104; 95; 115; 116; 100; 95; 110; 101; 116; 95; 118; 101; 114], PB [8]); ([112; 50; 115; 104; 95; 108; 101; 103; 97; 99; 121; 95; 110; 101; 116; 95; 118; 101; 114], PB [5]); ([119; 105; 102; 95; 110; 101; 116; 95; 118; 101; 114], PB [128])] |};
  (* CoinsConf.BitcoinCashTestNet: Bitcoin Cash TestNet, BCH; keys p2pkh_std_hrp p2pkh_std_net_ver p2pkh_legacy_net_ver p2sh_std_hrp p2sh_std_net_ver p2sh_legacy_net_ver wif_net_ver *)
  {| cc_attr := [66; 105; 116; 99; 111; 105; 110; 67; 97; 115; 104; 84; 101; 115; 116; 78; 101; 116]; cc_name := [66; 105; 116; 99; 111; 105; 110; 32; 67; 97; 115; 104; 32; 84; 101; 115; 116; 78; 101; 116]; cc_abbr := [66; 67; 72];
     cc_params := [([112; 50; 112; 107; 104; 95; 115; 116; 100; 95; 104; 114; 112], PS [98; 99; 104; 116; 101; 115; 116]); ([112; 50; 112; 107; 104; 95; 115; 116; 100; 95; 110; 101; 116; 95; 118; 101; 114], PB [0]); ([112; 50; 112; 107; 104; 95; 108; 101; 103; 97; 99; 121; 95; 110; 101; 116; 95; 118; 101; 114], PB [111]); ([112; 50; 115; 104; 95; 115; 116; 100; 95; 104; 114; 112], PS [98; 99; 104; 116; 101; 115; 116]); ([112; 50; 115; 104; 95; 115; 116; 100; 95; 110; 101; 116; 95; 118; 101; 114], PB [8]); ([112; 50; 115; 104; 95; 108; 101; 103; 97; 99; 121; 95; 110; 101; 116; 95; 118; 101; 114], PB [196]); ([119; 105; 102; 95; 110; 101; 116; 95; 118; 101; 114], PB [239])] |};
  (* CoinsConf.BitcoinCashSlpMainNet: Bitcoin Cash SLP, SLP; keys p2pkh_std_hrp p2pkh_std_net_ver p2pkh_legacy_net_ver p2sh_std_hrp p2sh_std_net_ver p2sh_legacy_net_ver wif_net_ver *)
  {| cc_attr := [66; 105; 116; 99; 111; 105; 110; 67; 97; 115; 104; 83; 108; 112; 77; 97; 105; 110; 78; 101; 116]; cc_name := [66; 105; 116; 99; 111; 105; 110; 32; 67; 97; 115; 104; 32; 83; 76; 80]; cc_abbr := [83; 76; 80];
     cc_params := [([112; 50; 112; 107; 104; 95; 115; 116; 100; 95; 104; 114; 112], PS [115; 105; 109; 112; 108; 101; 108; 101; 100; 103; 101; 114]); ([112; 50; 112; 107; 104; 95; 115; 116; 100; 95; 110; 101; 116; 95; 118; 101; 114], PB [0]); ([112; 50; 112; 107; 104; 95; 108; 101; 103; 97; 99; 121; 95; 110; 101; 116; 95; 118; 101; 114], PB [0]); ([112; 50; 115; 104; 95; 115; 116; 100; 95; 104; 114; 112], PS [115; 105; 109; 112; 108; 101; 108; 101; 100; 103; 101; 114]); ([112; 50; 115; 104; 95; 115; 116; 100; 95; 110; 101; 116; 95; 118; 101; 114], PB [8]); ([112; 50; 115; 104; 95; 108; 101; 103; 97; 99; 121; 95; 110; 101; 116; 95; 118; 101; 114], PB [5]); ([119; 105; 102; 95; 110; 101; 116; 95; 118; 101; 114], PB [128])] |};
  (* CoinsConf.BitcoinCashSlpTestNet: Bitcoin Cash SLP TestNet, SLP; keys p2pkh_std_hrp p2pkh_std_net_ver p2pkh_legacy_net_ver p2sh_std_hrp p2sh_std_net_ver p2sh_legacy_net_ver wif_net_ver *)
  {| cc_attr := [66; 105; 116; 99; 111; 105; 110; 67; 97; 115; 104; 83; 108; 112; 84; 101; 115; 116; 78; 101; 116]; cc_name := [66; 105; 116; 99; 111; 105; 110; 32; 67; 97; 115; 104; 32; 83; 76; 80; 32; 84; 101; 115; 116; 78; 101; 116]; cc_abbr := [83; 76; 80];
     cc_params := [([112; 50; 112; 107; 104; 95; 115; 116; 100; 95; 104; 114; 112], PS [115; 108; 112; 116; 101; 115; 116]); ([112; 50; 112; 107; 104; 95; 115; 116; 100; 95; 110; 101; 116; 95; 118; 101; 114], PB [0]); ([112; 50; 112; 107; 104; 95; 108; 101; 103; 97; 99; 121; 95; 110; 101; 116; 95; 118; 101; 114], PB [111]); ([112; 50; 115; 104; 95; 115; 116; 100; 95; 104; 114; 112], PS [115; 108; 112; 116; 101; 115; 116]); ([112; 50; 115; 104; 95; 115; 116; 100; 95; 110; 101; 116; 95; 118; 101; 114], PB [8]); ([112; 50; 115; 104; 95; 108; 101; 103; 97; 99; 121; 95; 110; 101; 116; 95; 118; 101; 114], PB [196]); ([119; 105; 102; 95; 110; 101; 116; 95; 118; 101; 114], PB [239])] |};
  (* CoinsConf.BitcoinSvMainNet: BitcoinSV, BSV; keys p2pkh_net_ver p2sh_net_ver wif_net_ver *)
  {| cc_attr := [66; 105; 116; 99; 111; 105; 110; 83; 118; 77; 97; 105; 110; 78; 101; 116]; cc_name := [66; 105; 116; 99; 111; 105; 110; 83; 86]; cc_abbr := [66; 83; 86];
     cc_params := [([112; 50; 112; 107; 104; 95; 110; 101; 116; 95; 118; 101; 114], PB [0]); ([112; 50; 115; 104; 95; 110; 101; 116; 95; 118; 101; 114], PB [5]); ([119; 105; 102; 95; 110; 101; 116; 95; 118; 101; 114], PB [128])] |};
  (* CoinsConf.BitcoinSvTestNet: BitcoinSV TestNet, BSV; keys p2pkh_net_ver p2sh_net_ver wif_net_ver *)
  {| cc_attr := [66; 105; 116; 99; 111; 105; 110; 83; 118; 84; 101; 115; 116; 78; 101; 116]; cc_name := [66; 105; 116; 99; 111; 105; 110; 83; 86; 32; 84; 101; 115; 116; 78; 101; 116]; cc_abbr := [66; 83; 86];
     cc_params := [([112; 50; 112; 107; 104; 95; 110; 101; 116; 95; 118; 101; 114], PB [111]); ([112; 50; 115; 104; 95; 110; 101; 116; 95; 118; 101; 114], PB [196]); ([119; 105; 102; 95; 110; 101; 116; 95; 118; 101; 114], PB [239])] |};
  (* CoinsConf.CardanoMainNet: Cardano, ADA; keys addr_hrp staking_addr_hrp *)
  {| cc_attr := [67; 97; 114; 100; 97; 110; 111; 77; 97; 105; 110; 78; 101; 116]; cc_name := [67; 97; 114; 100; 97; 110; 111]; cc_abbr := [65; 68; 65];
     cc_params := [([97; 100; 100; 114; 95; 104; 114; 112], PS [97; 100; 100; 114]); ([115; 116; 97; 107; 105; 110; 103; 95; 97; 100; 100; 114; 95; 104; 114; 112], PS [115; 116; 97; 107; 101])] |};
  (* CoinsConf.CardanoTestNet: Cardano TestNet, ADA; keys addr_hrp staking_addr_hrp *)
  {| cc_attr := [67; 97; 114; 100; 97; 110; 111; 84; 101; 115; 116; 78; 101; 116]; cc_name := [67; 97; 114; 100; 97; 110; 111; 32; 84; 101; 115; 116; 78; 101; 116]; cc_abbr := [65; 68; 65];
     cc_params := [([97; 100; 100; 114; 95; 104; 114; 112], PS [97; 100; 100; 114; 95; 116; 101; 115; 116]); ([115; 116; 97; 107; 105; 110; 103; 95; 97; 100; 100; 114; 95; 104; 114; 112], PS [115; 116; 97; 107; 101; 95; 116; 101; 115; 116])] |};
  (* CoinsConf.Celestia: Celestia, TIA; keys addr_hrp *)
  {| cc_attr := [67; 101; 108; 101; 115; 116; 105; 97]; cc_name := [67; 101; 108; 101; 115; 116; 105; 97]; cc_abbr := [84; 73; 65];
     cc_params := [([97; 100; 100; 114; 95; 104; 114; 112], PS [99; 101; 108; 101; 115; 116; 105; 97])] |};
  (* CoinsConf.Celo: Celo, CELO; keys  *)
  {| cc_attr := [67; 101; 108; 111]; cc_name := [67; 101; 108; 111]; cc_abbr := [67; 69; 76; 79];
     cc_params := [] |};
  (* CoinsConf.Certik: Certik, CTK; keys addr_hrp *)
  {| cc_attr := [67; 101; 114; 116; 105; 107]; cc_name := [67; 101; 114; 116; 105; 107]; cc_abbr := [67; 84; 75];
     cc_params := [([97; 100; 100; 114; 95; 104; 114; 112], PS [99; 101; 114; 116; 105; 107])] |};
  (* CoinsConf.ChainX: ChainX, PCX; keys addr_ss58_format *)
  {| cc_attr := [67; 104; 97; 105; 110; 88]; cc_name := [67; 104; 97; 105; 110; 88]; cc_abbr := [80; 67; 88];
     cc_params := [([97; 100; 100; 114; 95; 115; 115; 53; 56; 95; 102; 111; 114; 109; 97; 116], PI 44)] |};
  (* CoinsConf.Chihuahua: Chihuahua, HUAHUA; keys addr_hrp *)
  {| cc_attr := [67; 104; 105; 104; 117; 97; 104; 117; 97]; cc_name := [67; 104; 105; 104; 117; 97; 104; 117; 97]; cc_abbr := [72; 85; 65; 72; 85; 65];
     cc_params := [([97; 100; 100; 114; 95; 104; 114; 112], PS [99; 104; 105; 104; 117; 97; 104; 117; 97])] |};
  (* CoinsConf.Cosmos: Cosmos, ATOM; keys addr_hrp *)
  {| cc_attr := [67; 111; 115; 109; 111; 115]; cc_name := [67; 111; 115; 109; 111; 115]; cc_abbr := [65; 84; 79; 77];
     cc_params := [([97; 100; 100; 114; 95; 104; 114; 112], PS [99; 111; 115; 109; 111; 115])] |};
  (* CoinsConf.DashMainNet: Dash, DASH; keys p2pkh_net_ver p2sh_net_ver wif_net_ver *)
  {| cc_attr := [68; 97; 115; 104; 77; 97; 105; 110; 78; 101; 116]; cc_name := [68; 97; 115; 104]; cc_abbr := [68; 65; 83; 72];
     cc_params := [([112; 50; 112; 107; 104; 95; 110; 101; 116; 95; 118; 101; 114], PB [76]); ([112; 50; 115; 104; 95; 110; 101; 116; 95; 118; 101; 114], PB [16]); ([119; 105; 102; 95; 110; 101; 116; 95; 118; 101; 114], PB [204])] |};
  (* CoinsConf.DashTestNet: Dash TestNet, DASH; keys p2pkh_net_ver p2sh_net_ver wif_net_ver *)
  {| cc_attr := [68; 97; 115; 104; 84; 101; 115; 116; 78; 101; 116]; cc_name := [68; 97; 115; 104; 32; 84; 101; 115; 116; 78; 101; 116]; cc_abbr := [68; 65; 83; 72];
     cc_params := [([112; 50; 112; 107; 104; 95; 110; 101; 116; 95; 118; 101; 114], PB [140]); ([112; 50; 115; 104; 95; 110; 101; 116; 95; 118; 101; 114], PB [19]); ([119; 105; 102; 95; 110; 101; 116; 95; 118; 101; 114], PB [239])] |};
  (* CoinsConf.DogecoinMainNet: Dogecoin, DOGE; keys p2pkh_net_ver p2sh_net_ver wif_net_ver *)
  {| cc_attr := [68; 111; 103; 101; 99; 111; 105; 110; 77; 97; 105; 110; 78; 101; 116]; cc_name := [68; 111; 103; 101; 99; 111; 105; 110]; cc_abbr := [68; 79; 71; 69];
     cc_params := [([112; 50; 112; 107; 104; 95; 110; 101; 116; 95; 118; 101; 114], PB [30]); ([112; 50; 115; 104; 95; 110; 101; 116; 95; 118; 101; 114], PB [22]); ([119; 105; 102; 95; 110; 101; 116; 95; 118; 101; 114], PB [158])] |};
  (* CoinsConf.DogecoinTestNet: Dogecoin TestNet, DOGE; keys p2pkh_net_ver p2sh_net_ver wif_net_ver *)
  {| cc_attr := [68; 111; 103; 101; 99; 111; 105; 110; 84; 101; 115; 116; 78; 101; 116]; cc_name := [68; 111; 103; 101; 99; 111; 105; 110; 32; 84; 101; 115; 116; 78; 101; 116]; cc_abbr := [68; 79; 71; 69];
     cc_params := [([112; 50; 112; 107; 104; 95; 110; 101; 116; 95; 118; 101; 114], PB [113]); ([112; 50; 115; 104; 95; 110; 101; 116; 95; 118; 101; 114], PB [196]); ([119; 105; 102; 95; 110; 101; 116; 95; 118; 101; 114], PB [241])] |};
  (* CoinsConf.DYDX: dYdX, DYDX; keys addr_hrp *)
  {| cc_attr := [68; 89; 68; 88]; cc_name := [100; 89; 100; 88]; cc_abbr := [68; 89; 68; 88];
     cc_params := [([97; 100; 100; 114; 95; 104; 114; 112], PS [100; 121; 100; 120])] |};
  (* CoinsConf.EcashMainNet: eCash, XEC; keys p2pkh_std_hrp p2pkh_std_net_ver p2pkh_legacy_net_ver p2sh_std_hrp p2sh_std_net_ver p2sh_legacy_net_ver wif_net_ver *)
  {| cc_attr := [69; 99; 97; 115; 104; 77; 97; 105; 110; 78; 101; 116]; cc_name := [101; 67; 97; 115; 104]; cc_abbr := [88; 69; 67];
     cc_params := [([112; 50; 112; 107; 104; 95; 115; 116; 100; 95; 104; 114; 112], PS [101; 99; 97; 115; 104]); ([112; 50; 112; 107; 104; 95; 115; 116; 100; 95; 110; 101; 116; 95; 118; 101; 114], PB [0]); ([112; 50; 112; 107; 104; 95; 108; 101; 103; 97; 99; 121; 95; 110; 101; 116; 95; 118; 101; 114], PB [0]); ([112; 50; 115; 104; 95; 115; 116; 100; 95; 104; 114; 112], PS [101; 99; 97; 115; 104]); ([112; 50; 115; 104; 95; 115; 116; 100; 95; 110; 101; 116; 95; 118; 101; 114], PB [8]); ([112; 50; 115; 104; 95; 108; 101; 103; 97; 99; 121; 95; 110; 101; 116; 95; 118; 101; 114], PB [5]); ([119; 105; 102; 95; 110; 101; 116; 95; 118; 101; 114], PB [128])] |};
  (* CoinsConf.EcashTestNet: eCash TestNet, XEC; keys p2pkh_std_hrp p2pkh_std_net_ver p2pkh_legacy_net_ver p2sh_std_hrp p2sh_std_net_ver p2sh_legacy_net_ver wif_net_ver *)
  {| cc_attr := [69; 99; 97; 115; 104; 84; 101; 115; 116; 78; 101; 116]; cc_name := [101; 67; 97; 115; 104; 32; 84; 101; 115; 116; 78; 101; 116]; cc_abbr := [88; 69; 67];
     cc_params := [([112; 50; 112; 107; 104; 95; 115; 116; 100; 95; 104; 114; 112], PS [101; 99; 116; 101; 115; 116]); ([112; 50; 112; 107; 104; 95; 115; 116; 100; 95; 110; 101; 116; 95; 118; 101; 114], PB [0]); ([112; 50; 112; 107; 104; 95; 108; 101; 103; 97; 99; 121; 95; 110; 101; 116; 95; 118; 101; 114], PB [111]); ([112; 50; 115; 104; 95; 115; 116; 100; 95; 104; 114; 112], PS [101; 99; 116; 101; 115; 116]); ([112; 50; 115; 104; 95; 115; 116; 100; 95; 110; 101; 116; 95; 118; 101; 114], PB [8]); ([112; 50; 115; 104; 95; 108; 101; 103; 97; 99; 121; 95; 110; 101; 116; 95; 118; 101; 114], PB [196]); ([119; 105; 102; 95; 110; 101; 116; 95; 118; 101; 114], PB [239])] |};
  (* CoinsConf.Edgeware: Edgeware, EDG; keys addr_ss58_format *)
  {| cc_attr := [69; 100; 103; 101; 119; 97; 114; 101]; cc_name := [69; 100; 103; 101; 119; 97; 114; 101]; cc_abbr := [69; 68; 71];
     cc_params := [([97; 100; 100; 114; 95; 115; 115; 53; 56; 95; 102; 111; 114; 109; 97; 116], PI 7)] |};
  (* CoinsConf.Elrond: MultiversX, EGLD; keys addr_hrp *)
  {| cc_attr := [69; 108; 114; 111; 110; 100]; cc_name := [77; 117; 108; 116; 105; 118; 101; 114; 115; 88]; cc_abbr := [69; 71; 76; 68];
     cc_params := [([97; 100; 100; 114; 95; 104; 114; 112], PS [101; 114; 100])] |};
  (* CoinsConf.Eos: EOS, EOS; keys addr_prefix *)
  {| cc_attr := [69; 111; 115]; cc_name := [69; 79; 83]; cc_abbr := [69; 79; 83];
     cc_params := [([97; 100; 100; 114; 95; 112; 114; 101; 102; 105; 120], PS [69; 79; 83])] |};
  (* CoinsConf.ErgoMainNet: Ergo, ERGO; keys  *)
  {| cc_attr := [69; 114; 103; 111; 77; 97; 105; 110; 78; 101; 116]; cc_name := [69; 114; 103; 111]; cc_abbr := [69; 82; 71; 79];
     cc_params := [] |};
  (* CoinsConf.ErgoTestNet: Ergo TestNet, ERGO; keys  *)
  {| cc_attr := [69; 114; 103; 111; 84; 101; 115; 116; 78; 101; 116]; cc_name := [69; 114; 103; 111; 32; 84; 101; 115; 116; 78; 101; 116]; cc_abbr := [69; 82; 71; 79];
     cc_params := [] |};
  (* CoinsConf.Ethereum: Ethereum, ETH; keys addr_prefix *)
  {| cc_attr := [69; 116; 104; 101; 114; 101; 117; 109]; cc_name := [69; 116; 104; 101; 114; 101; 117; 109]; cc_abbr := [69; 84; 72];
     cc_params := [([97; 100; 100; 114; 95; 112; 114; 101; 102; 105; 120], PS [48; 120])] |};
  (* CoinsConf.EthereumClassic: Ethereum Classic, ETC; keys  *)
  {| cc_attr := [69; 116; 104; 101; 114; 101; 117; 109; 67; 108; 97; 115; 115; 105; 99]; cc_name := [69; 116; 104; 101; 114; 101; 117; 109; 32; 67; 108; 97; 115; 115; 105; 99]; cc_abbr := [69; 84; 67];
     cc_params := [] |};
  (* CoinsConf.FantomOpera: Fantom Opera, FTM; keys  *)
  {| cc_attr := [70; 97; 110; 116; 111; 109; 79; 112; 101; 114; 97]; cc_name := [70; 97; 110; 116; 111; 109; 32; 79; 112; 101; 114; 97]; cc_abbr := [70; 84; 77];
     cc_params := [] |};
  (* CoinsConf.FetchAi: Fetch.ai, FET; keys addr_hrp *)
  {| cc_attr := [70; 101; 116; 99; 104; 65; 105]; cc_name := [70; 101; 116; 99; 104; 46; 97; 105]; cc_abbr := [70; 69; 84];
     cc_params := [([97; 100; 100; 114; 95; 104; 114; 112], PS [102; 101; 116; 99; 104])] |};
  (* CoinsConf.Filecoin: Filecoin, FIL; keys addr_prefix *)
  {| cc_attr := [70; 105; 108; 101; 99; 111; 105; 110]; cc_name := [70; 105; 108; 101; 99; 111; 105; 110]; cc_abbr := [70; 73; 76];
     cc_params := [([97; 100; 100; 114; 95; 112; 114; 101; 102; 105; 120], PS [102])] |};
  (* CoinsConf.GenericSubstrate: Generic Substrate, ; keys addr_ss58_format *)
  {| cc_attr := [71; 101; 110; 101; 114; 105; 99; 83; 117; 98; 115; 116; 114; 97; 116; 101]; cc_name := [71; 101; 110; 101; 114; 105; 99; 32; 83; 117; 98; 115; 116; 114; 97; 116; 101]; cc_abbr := [];
     cc_params := [([97; 100; 100; 114; 95; 115; 115; 53; 56; 95; 102; 111; 114; 109; 97; 116], PI 42)] |};
  (* CoinsConf.HarmonyOne: Harmony One, ONE; keys addr_hrp *)
  {| cc_attr := [72; 97; 114; 109; 111; 110; 121; 79; 110; 101]; cc_name := [72; 97; 114; 109; 111; 110; 121; 32; 79; 110; 101]; cc_abbr := [79; 78; 69];
     cc_params := [([97; 100; 100; 114; 95; 104; 114; 112], PS [111; 110; 101])] |};
  (* CoinsConf.HuobiChain: Huobi Token, HT; keys  *)
  {| cc_attr := [72; 117; 111; 98; 105; 67; 104; 97; 105; 110]; cc_name := [72; 117; 111; 98; 105; 32; 84; 111; 107; 101; 110]; cc_abbr := [72; 84];
     cc_params := [] |};
  (* CoinsConf.Icon: Icon, ICX; keys addr_prefix *)
  {| cc_attr := [73; 99; 111; 110]; cc_name := [73; 99; 111; 110]; cc_abbr := [73; 67; 88];
     cc_params := [([97; 100; 100; 114; 95; 112; 114; 101; 102; 105; 120], PS [104; 120])] |};
  (* CoinsConf.Injective: Injective, INJ; keys addr_hrp *)
  {| cc_attr := [73; 110; 106; 101; 99; 116; 105; 118; 101]; cc_name := [73; 110; 106; 101; 99; 116; 105; 118; 101]; cc_abbr := [73; 78; 74];
     cc_params := [([97; 100; 100; 114; 95; 104; 114; 112], PS [105; 110; 106])] |};
  (* CoinsConf.IrisNet: IRIS Network, IRIS; keys addr_hrp *)
  {| cc_attr := [73; 114; 105; 115; 78; 101; 116]; cc_name := [73; 82; 73; 83; 32; 78; 101; 116; 119; 111; 114; 107]; cc_abbr := [73; 82; 73; 83];
     cc_params := [([97; 100; 100; 114; 95; 104; 114; 112], PS [105; 97; 97])] |};
  (* CoinsConf.Karura: Karura, KAR; keys addr_ss58_format *)
  {| cc_attr := [75; 97; 114; 117; 114; 97]; cc_name := [75; 97; 114; 117; 114; 97]; cc_abbr := [75; 65; 82];
     cc_params := [([97; 100; 100; 114; 95; 115; 115; 53; 56; 95; 102; 111; 114; 109; 97; 116], PI 8)] |};
  (* CoinsConf.Kava: Kava, KAVA; keys addr_hrp *)
  {| cc_attr := [75; 97; 118; 97]; cc_name := [75; 97; 118; 97]; cc_abbr := [75; 65; 86; 65];
     cc_params := [([97; 100; 100; 114; 95; 104; 114; 112], PS [107; 97; 118; 97])] |};
  (* CoinsConf.Kusama: Kusama, KSM; keys addr_ss58_format *)
  {| cc_attr := [75; 117; 115; 97; 109; 97]; cc_name := [75; 117; 115; 97; 109; 97]; cc_abbr := [75; 83; 77];
     cc_params := [([97; 100; 100; 114; 95; 115; 115; 53; 56; 95; 102; 111; 114; 109; 97; 116], PI 2)] |};
  (* CoinsConf.LitecoinMainNet: Litecoin, LTC; keys p2pkh_std_net_ver p2pkh_depr_net_ver p2sh_std_net_ver p2sh_depr_net_ver p2wpkh_hrp p2wpkh_wit_ver wif_net_ver *)
  {| cc_attr := [76; 105; 116; 101; 99; 111; 105; 110; 77; 97; 105; 110; 78; 101; 116]; cc_name := [76; 105; 116; 101; 99; 111; 105; 110]; cc_abbr := [76; 84; 67];
     cc_params := [([112; 50; 112; 107; 104; 95; 115; 116; 100; 95; 110; 101; 116; 95; 118; 101; 114], PB [48]); ([112; 50; 112; 107; 104; 95; 100; 101; 112; 114; 95; 110; 101; 116; 95; 118; 101; 114], PB [0]); ([112; 50; 115; 104; 95; 115; 116; 100; 95; 110; 101; 116; 95; 118; 101; 114], PB [50]); ([112; 50; 115; 104; 95; 100; 101; 112; 114; 95; 110; 101; 116; 95; 118; 101; 114], PB [5]); ([112; 50; 119; 112; 107; 104; 95; 104; 114; 112], PS [108; 116; 99]); ([112; 50; 119; 112; 107; 104; 95; 119; 105; 116; 95; 118; 101; 114], PI 0); ([119; 105; 102; 95; 110; 101; 116; 95; 118; 101; 114], PB [176])] |};
  (* CoinsConf.LitecoinTestNet: Litecoin TestNet, LTC; keys p2pkh_std_net_ver p2pkh_depr_net_ver p2sh_std_net_ver p2sh_depr_net_ver p2wpkh_hrp p2wpkh_wit_ver wif_net_ver *)
  {| cc_attr := [76; 105; 116; 101; 99; 111; 105; 110; 84; 101; 115; 116; 78; 101; 116]; cc_name := [76; 105; 116; 101; 99; 111; 105; 110; 32; 84; 101; 115; 116; 78; 101; 116]; cc_abbr := [76; 84; 67];
     cc_params := [([112; 50; 112; 107; 104; 95; 115; 116; 100; 95; 110; 101; 116; 95; 118; 101; 114], PB [111]); ([112; 50; 112; 107; 104; 95; 100; 101; 112; 114; 95; 110; 101; 116; 95; 118; 101; 114], PB [111]); ([112; 50; 115; 104; 95; 115; 116; 100; 95; 110; 101; 116; 95; 118; 101; 114], PB [58]); ([112; 50; 115; 104; 95; 100; 101; 112; 114; 95; 110; 101; 116; 95; 118; 101; 114], PB [196]); ([112; 50; 119; 112; 107; 104; 95; 104; 114; 112], PS [116; 108; 116; 99]); ([112; 50; 119; 112; 107; 104; 95; 119; 105; 116; 95; 118; 101; 114], PI 0); ([119; 105; 102; 95; 110; 101; 116; 95; 118; 101; 114], PB [239])] |};
  (* CoinsConf.Metis: Metis, METIS; keys  *)
  {| cc_attr := [77; 101; 116; 105; 115]; cc_name := [77; 101; 116; 105; 115]; cc_abbr := [77; 69; 84; 73; 83];
     cc_params := [] |};
  (* CoinsConf.MoneroMainNet: Monero, XMR; keys addr_net_ver addr_int_net_ver subaddr_net_ver *)
  {| cc_attr := [77; 111; 110; 101; 114; 111; 77; 97; 105; 110; 78; 101; 116]; cc_name := [77; 111; 110; 101; 114; 111]; cc_abbr := [88; 77; 82];
     cc_params := [([97; 100; 100; 114; 95; 110; 101; 116; 95; 118; 101; 114], PB [18]); ([97; 100; 100; 114; 95; 105; 110; 116; 95; 110; 101; 116; 95; 118; 101; 114], PB [19]); ([115; 117; 98; 97; 100; 100; 114; 95; 110; 101; 116; 95; 118; 101; 114], PB [42])] |};
  (* CoinsConf.MoneroStageNet: Monero StageNet, XMR; keys addr_net_ver addr_int_net_ver subaddr_net_ver *)
  {| cc_attr := [77; 111; 110; 101; 114; 111; 83; 116; 97; 103; 101; 78; 101; 116]; cc_name := [77; 111; 110; 101; 114; 111; 32; 83; 116; 97; 103; 101; 78; 101; 116]; cc_abbr := [88; 77; 82];
     cc_params := [([97; 100; 100; 114; 95; 110; 101; 116; 95; 118; 101; 114], PB [24]); ([97; 100; 100; 114; 95; 105; 110; 116; 95; 110; 101; 116; 95; 118; 101; 114], PB [25]); ([115; 117; 98; 97; 100; 100; 114; 95; 110; 101; 116; 95; 118; 101; 114], PB [36])] |};
  (* CoinsConf.MoneroTestNet: Monero TestNet, XMR; keys addr_net_ver addr_int_net_ver subaddr_net_ver *)
  {| cc_attr := [77; 111; 110; 101; 114; 111; 84; 101; 115; 116; 78; 101; 116]; cc_name := [77; 111; 110; 101; 114; 111; 32; 84; 101; 115; 116; 78; 101; 116]; cc_abbr := [88; 77; 82];
     cc_params := [([97; 100; 100; 114; 95; 110; 101; 116; 95; 118; 101; 114], PB [53]); ([97; 100; 100; 114; 95; 105; 110; 116; 95; 110; 101; 116; 95; 118; 101; 114], PB [54]); ([115; 117; 98; 97; 100; 100; 114; 95; 110; 101; 116; 95; 118; 101; 114], PB [63])] |};
  (* CoinsConf.Moonbeam: Moonbeam, GLMR; keys addr_ss58_format *)
  {| cc_attr := [77; 111; 111; 110; 98; 101; 97; 109]; cc_name := [77; 111; 111; 110; 98; 101; 97; 109]; cc_abbr := [71; 76; 77; 82];
     cc_params := [([97; 100; 100; 114; 95; 115; 115; 53; 56; 95; 102; 111; 114; 109; 97; 116], PI 1284)] |};
  (* CoinsConf.Moonriver: Moonriver, MOVR; keys addr_ss58_format *)
  {| cc_attr := [77; 111; 111; 110; 114; 105; 118; 101; 114]; cc_name := [77; 111; 111; 110; 114; 105; 118; 101; 114]; cc_abbr := [77; 79; 86; 82];
     cc_params := [([97; 100; 100; 114; 95; 115; 115; 53; 56; 95; 102; 111; 114; 109; 97; 116], PI 1285)] |};
  (* CoinsConf.Nano: Nano, NANO; keys addr_prefix *)
  {| cc_attr := [78; 97; 110; 111]; cc_name := [78; 97; 110; 111]; cc_abbr := [78; 65; 78; 79];
     cc_params := [([97; 100; 100; 114; 95; 112; 114; 101; 102; 105; 120], PS [110; 97; 110; 111; 95])] |};
  (* CoinsConf.NearProtocol: Near Protocol, NEAR; keys  *)
  {| cc_attr := [78; 101; 97; 114; 80; 114; 111; 116; 111; 99; 111; 108]; cc_name := [78; 101; 97; 114; 32; 80; 114; 111; 116; 111; 99; 111; 108]; cc_abbr := [78; 69; 65; 82];
     cc_params := [] |};
  (* CoinsConf.NeoLegacy: NEO, NEO; keys addr_ver addr_prefix addr_suffix wif_net_ver *)
  {| cc_attr := [78; 101; 111; 76; 101; 103; 97; 99; 121]; cc_name := [78; 69; 79]; cc_abbr := [78; 69; 79];
     cc_params := [([97; 100; 100; 114; 95; 118; 101; 114], PB [23]); ([97; 100; 100; 114; 95; 112; 114; 101; 102; 105; 120], PB [33]); ([97; 100; 100; 114; 95; 115; 117; 102; 102; 105; 120], PB [172]); ([119; 105; 102; 95; 110; 101; 116; 95; 118; 101; 114], PB [128])] |};
  (* CoinsConf.NeoN3: NEO, NEO; keys addr_ver addr_prefix addr_suffix wif_net_ver *)
  {| cc_attr := [78; 101; 111; 78; 51]; cc_name := [78; 69; 79]; cc_abbr := [78; 69; 79];
     cc_params := [([97; 100; 100; 114; 95; 118; 101; 114], PB [53]); ([97; 100; 100; 114; 95; 112; 114; 101; 102; 105; 120], PB [12; 33]); ([97; 100; 100; 114; 95; 115; 117; 102; 102; 105; 120], PB [65; 86; 231; 179; 39]); ([119; 105; 102; 95; 110; 101; 116; 95; 118; 101; 114], PB [128])] |};
  (* CoinsConf.Neutron: Neutron, NTRN; keys addr_hrp *)
  {| cc_attr := [78; 101; 117; 116; 114; 111; 110]; cc_name := [78; 101; 117; 116; 114; 111; 110]; cc_abbr := [78; 84; 82; 78];
     cc_params := [([97; 100; 100; 114; 95; 104; 114; 112], PS [110; 101; 117; 116; 114; 111; 110])] |};
  (* CoinsConf.Nimiq: Nimiq, NIM; keys addr_prefix *)
  {| cc_attr := [78; 105; 109; 105; 113]; cc_name := [78; 105; 109; 105; 113]; cc_abbr := [78; 73; 77];
     cc_params := [([97; 100; 100; 114; 95; 112; 114; 101; 102; 105; 120], PS [78; 81])] |};
  (* CoinsConf.NineChroniclesGold: NineChroniclesGold, NCG; keys  *)
  {| cc_attr := [78; 105; 110; 101; 67; 104; 114; 111; 110; 105; 99; 108; 101; 115; 71; 111; 108; 100]; cc_name := [78; 105; 110; 101; 67; 104; 114; 111; 110; 105; 99; 108; 101; 115; 71; 111; 108; 100]; cc_abbr := [78; 67; 71];
     cc_params := [] |};
  (* CoinsConf.OkexChain: OKExChain, OKT; keys addr_hrp *)
  {| cc_attr := [79; 107; 101; 120; 67; 104; 97; 105; 110]; cc_name := [79; 75; 69; 120; 67; 104; 97; 105; 110]; cc_abbr := [79; 75; 84];
     cc_params := [([97; 100; 100; 114; 95; 104; 114; 112], PS [101; 120])] |};
  (* CoinsConf.Ontology: Ontology, ONT; keys addr_ver *)
  {| cc_attr := [79; 110; 116; 111; 108; 111; 103; 121]; cc_name := [79; 110; 116; 111; 108; 111; 103; 121]; cc_abbr := [79; 78; 84];
     cc_params := [([97; 100; 100; 114; 95; 118; 101; 114], PB [23])] |};
  (* CoinsConf.Optimism: Optimism, OP; keys  *)
  {| cc_attr := [79; 112; 116; 105; 109; 105; 115; 109]; cc_name := [79; 112; 116; 105; 109; 105; 115; 109]; cc_abbr := [79; 80];
     cc_params := [] |};
  (* CoinsConf.Osmosis: Osmosis, OSMO; keys addr_hrp *)
  {| cc_attr := [79; 115; 109; 111; 115; 105; 115]; cc_name := [79; 115; 109; 111; 115; 105; 115]; cc_abbr := [79; 83; 77; 79];
     cc_params := [([97; 100; 100; 114; 95; 104; 114; 112], PS [111; 115; 109; 111])] |};
  (* CoinsConf.Phala: Phala Network, PHA; keys addr_ss58_format *)
  {| cc_attr := [80; 104; 97; 108; 97]; cc_name := [80; 104; 97; 108; 97; 32; 78; 101; 116; 119; 111; 114; 107]; cc_abbr := [80; 72; 65];
     cc_params := [([97; 100; 100; 114; 95; 115; 115; 53; 56; 95; 102; 111; 114; 109; 97; 116], PI 30)] |};
  (* CoinsConf.PiNetwork: Pi Network, PI; keys  *)
  {| cc_attr := [80; 105; 78; 101; 116; 119; 111; 114; 107]; cc_name := [80; 105; 32; 78; 101; 116; 119; 111; 114; 107]; cc_abbr := [80; 73];
     cc_params := [] |};
  (* CoinsConf.Plasm: Plasm Network, PLM; keys addr_ss58_format *)
  {| cc_attr := [80; 108; 97; 115; 109]; cc_name := [80; 108; 97; 115; 109; 32; 78; 101; 116; 119; 111; 114; 107]; cc_abbr := [80; 76; 77];
     cc_params := [([97; 100; 100; 114; 95; 115; 115; 53; 56; 95; 102; 111; 114; 109; 97; 116], PI 5)] |};
  (* CoinsConf.Polkadot: Polkadot, DOT; keys addr_ss58_format *)
  {| cc_attr := [80; 111; 108; 107; 97; 100; 111; 116]; cc_name := [80; 111; 108; 107; 97; 100; 111; 116]; cc_abbr := [68; 79; 84];
     cc_params := [([97; 100; 100; 114; 95; 115; 115; 53; 56; 95; 102; 111; 114; 109; 97; 116], PI 0)] |};
  (* CoinsConf.Polygon: Polygon, MATIC; keys  *)
  {| cc_attr := [80; 111; 108; 121; 103; 111; 110]; cc_name := [80; 111; 108; 121; 103; 111; 110]; cc_abbr := [77; 65; 84; 73; 67];
     cc_params := [] |};
  (* CoinsConf.Ripple: Ripple, XRP; keys p2pkh_net_ver *)
  {| cc_attr := [82; 105; 112; 112; 108; 101]; cc_name := [82; 105; 112; 112; 108; 101]; cc_abbr := [88; 82; 80];
     cc_params := [([112; 50; 112; 107; 104; 95; 110; 101; 116; 95; 118; 101; 114], PB [0])] |};
  (* CoinsConf.SecretNetwork: Secret Network, SCRT; keys addr_hrp *)
  {| cc_attr := [83; 101; 99; 114; 101; 116; 78; 101; 116; 119; 111; 114; 107]; cc_name := [83; 101; 99; 114; 101; 116; 32; 78; 101; 116; 119; 111; 114; 107]; cc_abbr := [83; 67; 82; 84];
     cc_params := [([97; 100; 100; 114; 95; 104; 114; 112], PS [115; 101; 99; 114; 101; 116])] |};
  (* CoinsConf.Solana: Solana, SOL; keys  *)
  {| cc_attr := [83; 111; 108; 97; 110; 97]; cc_name := [83; 111; 108; 97; 110; 97]; cc_abbr := [83; 79; 76];
     cc_params := [] |};
  (* CoinsConf.Sora: Sora, XOR; keys addr_ss58_format *)
  {| cc_attr := [83; 111; 114; 97]; cc_name := [83; 111; 114; 97]; cc_abbr := [88; 79; 82];
     cc_params := [([97; 100; 100; 114; 95; 115; 115; 53; 56; 95; 102; 111; 114; 109; 97; 116], PI 69)] |};
  (* CoinsConf.Stafi: Stafi, FIS; keys addr_hrp addr_ss58_format *)
  {| cc_attr := [83; 116; 97; 102; 105]; cc_name := [83; 116; 97; 102; 105]; cc_abbr := [70; 73; 83];
     cc_params := [([97; 100; 100; 114; 95; 104; 114; 112], PS [115; 116; 97; 102; 105]); ([97; 100; 100; 114; 95; 115; 115; 53; 56; 95; 102; 111; 114; 109; 97; 116], PI 20)] |};
  (* CoinsConf.Stellar: Stellar, XLM; keys  *)
  {| cc_attr := [83; 116; 101; 108; 108; 97; 114]; cc_name := [83; 116; 101; 108; 108; 97; 114]; cc_abbr := [88; 76; 77];
     cc_params := [] |};
  (* CoinsConf.Sui: Sui, SUI; keys addr_prefix *)
  {| cc_attr := [83; 117; 105]; cc_name := [83; 117; 105]; cc_abbr := [83; 85; 73];
     cc_params := [([97; 100; 100; 114; 95; 112; 114; 101; 102; 105; 120], PS [48; 120])] |};
  (* CoinsConf.Terra: Terra, LUNA; keys addr_hrp *)
  {| cc_attr := [84; 101; 114; 114; 97]; cc_name := [84; 101; 114; 114; 97]; cc_abbr := [76; 85; 78; 65];
     cc_params := [([97; 100; 100; 114; 95; 104; 114; 112], PS [116; 101; 114; 114; 97])] |};
  (* CoinsConf.Tezos: Tezos, XTZ; keys  *)
  {| cc_attr := [84; 101; 122; 111; 115]; cc_name := [84; 101; 122; 111; 115]; cc_abbr := [88; 84; 90];
     cc_params := [] |};
  (* CoinsConf.Theta: Theta Network, THETA; keys  *)
  {| cc_attr := [84; 104; 101; 116; 97]; cc_name := [84; 104; 101; 116; 97; 32; 78; 101; 116; 119; 111; 114; 107]; cc_abbr := [84; 72; 69; 84; 65];
     cc_params := [] |};
  (* CoinsConf.Tron: Tron, TRX; keys addr_prefix *)
  {| cc_attr := [84; 114; 111; 110]; cc_name := [84; 114; 111; 110]; cc_abbr := [84; 82; 88];
     cc_params := [([97; 100; 100; 114; 95; 112; 114; 101; 102; 105; 120], PB [65])] |};
  (* CoinsConf.VeChain: VeChain, VET; keys  *)
  {| cc_attr := [86; 101; 67; 104; 97; 105; 110]; cc_name := [86; 101; 67; 104; 97; 105; 110]; cc_abbr := [86; 69; 84];
     cc_params := [] |};
  (* CoinsConf.Verge: Verge, XVG; keys p2pkh_net_ver wif_net_ver *)
  {| cc_attr := [86; 101; 114; 103; 101]; cc_name := [86; 101; 114; 103; 101]; cc_abbr := [88; 86; 71];
     cc_params := [([112; 50; 112; 107; 104; 95; 110; 101; 116; 95; 118; 101; 114], PB [30]); ([119; 105; 102; 95; 110; 101; 116; 95; 118; 101; 114], PB [158])] |};
  (* CoinsConf.ZcashMainNet: Zcash, ZEC; keys p2pkh_net_ver p2sh_net_ver wif_net_ver *)
  {| cc_attr := [90; 99; 97; 115; 104; 77; 97; 105; 110; 78; 101; 116]; cc_name := [90; 99; 97; 115; 104]; cc_abbr := [90; 69; 67];
     cc_params := [([112; 50; 112; 107; 104; 95; 110; 101; 116; 95; 118; 101; 114], PB [28; 184]); ([112; 50; 115; 104; 95; 110; 101; 116; 95; 118; 101; 114], PB [28; 189]); ([119; 105; 102; 95; 110; 101; 116; 95; 118; 101; 114], PB [128])] |};
  (* CoinsConf.ZcashTestNet: Zcash TestNet, ZEC; keys p2pkh_net_ver p2sh_net_ver wif_net_ver *)
  {| cc_attr := [90; 99; 97; 115; 104; 84; 101; 115; 116; 78; 101; 116]; cc_name := [90; 99; 97; 115; 104; 32; 84; 101; 115; 116; 78; 101; 116]; cc_abbr := [90; 69; 67];
     cc_params := [([112; 50; 112; 107; 104; 95; 110; 101; 116; 95; 118; 101; 114], PB [29; 37]); ([112; 50; 115; 104; 95; 110; 101; 116; 95; 118; 101; 114], PB [28; 186]); ([119; 105; 102; 95; 110; 101; 116; 95; 118; 101; 114], PB [239])] |};
  (* CoinsConf.Zilliqa: Zilliqa, ZIL; keys addr_hrp *)
  {| cc_attr := [90; 105; 108; 108; 105; 113; 97]; cc_name := [90; 105; 108; 108; 105; 113; 97]; cc_abbr := [90; 73; 76];
     cc_params := [([97; 100; 100; 114; 95; 104; 114; 112], PS [122; 105; 108])] |}
].

Definition golden : list coin := [
  (* Bip44 AKASH_NETWORK -> AkashNetwork: Akash Network, AKT *)
  {| c_family := FBip44; c_member := [65; 75; 65; 83; 72; 95; 78; 69; 84; 87; 79; 82; 75]; c_value := 1; c_conf_attr := [65; 107; 97; 115; 104; 78; 101; 116; 119; 111; 114; 107];
     c_cc := [65; 107; 97; 115; 104; 78; 101; 116; 119; 111; 114; 107]; c_cc_refs := [[65; 107; 97; 115; 104; 78; 101; 116; 119; 111; 114; 107]]; c_name := [65; 107; 97; 115; 104; 32; 78; 101; 116; 119; 111; 114; 107]; c_abbr := [65; 75; 84];
     c_body := CBip
     {| b_conf_cls := K_BipCoinConf; b_slip44_sym := [65; 84; 79; 77]; b_coin_idx := 118; b_testnet := false;
        b_def_path := [48; 39; 47; 48; 47; 48]; b_key_pub := [4; 136; 178; 30]; b_key_priv := [4; 136; 173; 228]; b_alt_key := None; b_wif := None;
        b_bip32 := B32_Slip10Secp256k1; b_curve := Cv_SECP256K1;
        b_addr := {| a_cls := A_Atom; a_keys := [[104; 114; 112]]; a_call_keys := []; a_params := APHrp [97; 107; 97; 115; 104] |};
        b_alt_addr := None |} |};
  (* Bip44 ALGORAND -> Algorand: Algorand, ALGO *)
  {| c_family := FBip44; c_member := [65; 76; 71; 79; 82; 65; 78; 68]; c_value := 2; c_conf_attr := [65; 108; 103; 111; 114; 97; 110; 100];
     c_cc := [65; 108; 103; 111; 114; 97; 110; 100]; c_cc_refs := [[65; 108; 103; 111; 114; 97; 110; 100]]; c_name := [65; 108; 103; 111; 114; 97; 110; 100]; c_abbr := [65; 76; 71; 79];
     c_body := CBip
     {| b_conf_cls := K_BipCoinConf; b_slip44_sym := [65; 76; 71; 79; 82; 65; 78; 68]; b_coin_idx := 283; b_testnet := false;
        b_def_path := [48; 39; 47; 48; 39; 47; 48; 39]; b_key_pub := [4; 136; 178; 30]; b_key_priv := [4; 136; 173; 228]; b_alt_key := None; b_wif := None;
        b_bip32 := B32_Slip10Ed25519; b_curve := Cv_ED25519;
        b_addr := {| a_cls := A_Algo; a_keys := []; a_call_keys := []; a_params := APNone |};
        b_alt_addr := None |} |};
  (* Bip44 APTOS -> Aptos: Aptos, APTOS *)
  {| c_family := FBip44; c_member := [65; 80; 84; 79; 83]; c_value := 3; c_conf_attr := [65; 112; 116; 111; 115];
     c_cc := [65; 112; 116; 111; 115]; c_cc_refs := [[65; 112; 116; 111; 115]]; c_name := [65; 112; 116; 111; 115]; c_abbr := [65; 80; 84; 79; 83];
     c_body := CBip
     {| b_conf_cls := K_BipCoinConf; b_slip44_sym := [65; 80; 84; 79; 83]; b_coin_idx := 637; b_testnet := false;
        b_def_path := [48; 39; 47; 48; 39; 47; 48; 39]; b_key_pub := [4; 136; 178; 30]; b_key_priv := [4; 136; 173; 228]; b_alt_key := None; b_wif := None;
        b_bip32 := B32_Slip10Ed25519; b_curve := Cv_ED25519;
        b_addr := {| a_cls := A_Aptos; a_keys := []; a_call_keys := []; a_params := APNone |};
        b_alt_addr := None |} |};
  (* Bip44 ARBITRUM -> Arbitrum: Arbitrum, ARB *)
  {| c_family := FBip44; c_member := [65; 82; 66; 73; 84; 82; 85; 77]; c_value := 4; c_conf_attr := [65; 114; 98; 105; 116; 114; 117; 109];
     c_cc := [65; 114; 98; 105; 116; 114; 117; 109]; c_cc_refs := [[65; 114; 98; 105; 116; 114; 117; 109]]; c_name := [65; 114; 98; 105; 116; 114; 117; 109]; c_abbr := [65; 82; 66];
     c_body := CBip
     {| b_conf_cls := K_BipCoinConf; b_slip44_sym := [69; 84; 72; 69; 82; 69; 85; 77]; b_coin_idx := 60; b_testnet := false;
        b_def_path := [48; 39; 47; 48; 47; 48]; b_key_pub := [4; 136; 178; 30]; b_key_priv := [4; 136; 173; 228]; b_alt_key := None; b_wif := None;
        b_bip32 := B32_Slip10Secp256k1; b_curve := Cv_SECP256K1;
        b_addr := {| a_cls := A_Eth; a_keys := []; a_call_keys := []; a_params := APNone |};
        b_alt_addr := None |} |};
  (* Bip44 AVAX_C_CHAIN -> AvaxCChain: Avax C-Chain, AVAX *)
  {| c_family := FBip44; c_member := [65; 86; 65; 88; 95; 67; 95; 67; 72; 65; 73; 78]; c_value := 5; c_conf_attr := [65; 118; 97; 120; 67; 67; 104; 97; 105; 110];
     c_cc := [65; 118; 97; 120; 67; 67; 104; 97; 105; 110]; c_cc_refs := [[65; 118; 97; 120; 67; 67; 104; 97; 105; 110]]; c_name := [65; 118; 97; 120; 32; 67; 45; 67; 104; 97; 105; 110]; c_abbr := [65; 86; 65; 88];
     c_body := CBip
     {| b_conf_cls := K_BipCoinConf; b_slip44_sym := [69; 84; 72; 69; 82; 69; 85; 77]; b_coin_idx := 60; b_testnet := false;
        b_def_path := [48; 39; 47; 48; 47; 48]; b_key_pub := [4; 136; 178; 30]; b_key_priv := [4; 136; 173; 228]; b_alt_key := None; b_wif := None;
        b_bip32 := B32_Slip10Secp256k1; b_curve := Cv_SECP256K1;
        b_addr := {| a_cls := A_Eth; a_keys := []; a_call_keys := []; a_params := APNone |};
        b_alt_addr := None |} |};
  (* Bip44 AVAX_P_CHAIN -> AvaxPChain: Avax P-Chain, AVAX *)
  {| c_family := FBip44; c_member := [65; 86; 65; 88; 95; 80; 95; 67; 72; 65; 73; 78]; c_value := 6; c_conf_attr := [65; 118; 97; 120; 80; 67; 104; 97; 105; 110];
     c_cc := [65; 118; 97; 120; 80; 67; 104; 97; 105; 110]; c_cc_refs := [[65; 118; 97; 120; 80; 67; 104; 97; 105; 110]]; c_name := [65; 118; 97; 120; 32; 80; 45; 67; 104; 97; 105; 110]; c_abbr := [65; 86; 65; 88];
     c_body := CBip
     {| b_conf_cls := K_BipCoinConf; b_slip44_sym := [65; 86; 65; 76; 65; 78; 67; 72; 69]; b_coin_idx := 9000; b_testnet := false;
        b_def_path := [48; 39; 47; 48; 47; 48]; b_key_pub := [4; 136; 178; 30]; b_key_priv := [4; 136; 173; 228]; b_alt_key := None; b_wif := None;
        b_bip32 := B32_Slip10Secp256k1; b_curve := Cv_SECP256K1;
        b_addr := {| a_cls := A_AvaxPChain; a_keys := []; a_call_keys := []; a_params := APNone |};
        b_alt_addr := None |} |};
  (* Bip44 AVAX_X_CHAIN -> AvaxXChain: Avax X-Chain, AVAX *)
  {| c_family := FBip44; c_member := [65; 86; 65; 88; 95; 88; 95; 67; 72; 65; 73; 78]; c_value := 7; c_conf_attr := [65; 118; 97; 120; 88; 67; 104; 97; 105; 110];
     c_cc := [65; 118; 97; 120; 88; 67; 104; 97; 105; 110]; c_cc_refs := [[65; 118; 97; 120; 88; 67; 104; 97; 105; 110]]; c_name := [65; 118; 97; 120; 32; 88; 45; 67; 104; 97; 105; 110]; c_abbr := [65; 86; 65; 88];
     c_body := CBip
     {| b_conf_cls := K_BipCoinConf; b_slip44_sym := [65; 86; 65; 76; 65; 78; 67; 72; 69]; b_coin_idx := 9000; b_testnet := false;
        b_def_path := [48; 39; 47; 48; 47; 48]; b_key_pub := [4; 136; 178; 30]; b_key_priv := [4; 136; 173; 228]; b_alt_key := None; b_wif := None;
        b_bip32 := B32_Slip10Secp256k1; b_curve := Cv_SECP256K1;
        b_addr := {| a_cls := A_AvaxXChain; a_keys := []; a_call_keys := []; a_params := APNone |};
        b_alt_addr := None |} |};
  (* Bip44 AXELAR -> Axelar: Axelar, AXL *)
  {| c_family := FBip44; c_member := [65; 88; 69; 76; 65; 82]; c_value := 8; c_conf_attr := [65; 120; 101; 108; 97; 114];
     c_cc := [65; 120; 101; 108; 97; 114]; c_cc_refs := [[65; 120; 101; 108; 97; 114]]; c_name := [65; 120; 101; 108; 97; 114]; c_abbr := [65; 88; 76];
     c_body := CBip
     {| b_conf_cls := K_BipCoinConf; b_slip44_sym := [65; 84; 79; 77]; b_coin_idx := 118; b_testnet := false;
        b_def_path := [48; 39; 47; 48; 47; 48]; b_key_pub := [4; 136; 178; 30]; b_key_priv := [4; 136; 173; 228]; b_alt_key := None; b_wif := None;
        b_bip32 := B32_Slip10Secp256k1; b_curve := Cv_SECP256K1;
        b_addr := {| a_cls := A_Atom; a_keys := [[104; 114; 112]]; a_call_keys := []; a_params := APHrp [97; 120; 101; 108; 97; 114] |};
        b_alt_addr := None |} |};
  (* Bip44 BAND_PROTOCOL -> BandProtocol: Band Protocol, BAND *)
  {| c_family := FBip44; c_member := [66; 65; 78; 68; 95; 80; 82; 79; 84; 79; 67; 79; 76]; c_value := 9; c_conf_attr := [66; 97; 110; 100; 80; 114; 111; 116; 111; 99; 111; 108];
     c_cc := [66; 97; 110; 100; 80; 114; 111; 116; 111; 99; 111; 108]; c_cc_refs := [[66; 97; 110; 100; 80; 114; 111; 116; 111; 99; 111; 108]]; c_name := [66; 97; 110; 100; 32; 80; 114; 111; 116; 111; 99; 111; 108]; c_abbr := [66; 65; 78; 68];
     c_body := CBip
     {| b_conf_cls := K_BipCoinConf; b_slip44_sym := [66; 65; 78; 68; 95; 80; 82; 79; 84; 79; 67; 79; 76]; b_coin_idx := 494; b_testnet := false;
        b_def_path := [48; 39; 47; 48; 47; 48]; b_key_pub := [4; 136; 178; 30]; b_key_priv := [4; 136; 173; 228]; b_alt_key := None; b_wif := None;
        b_bip32 := B32_Slip10Secp256k1; b_curve := Cv_SECP256K1;
        b_addr := {| a_cls := A_Atom; a_keys := [[104; 114; 112]]; a_call_keys := []; a_params := APHrp [98; 97; 110; 100] |};
        b_alt_addr := None |} |};
  (* Bip44 BINANCE_CHAIN -> BinanceChain: Binance Chain, BNB *)
  {| c_family := FBip44; c_member := [66; 73; 78; 65; 78; 67; 69; 95; 67; 72; 65; 73; 78]; c_value := 10; c_conf_attr := [66; 105; 110; 97; 110; 99; 101; 67; 104; 97; 105; 110];
     c_cc := [66; 105; 110; 97; 110; 99; 101; 67; 104; 97; 105; 110]; c_cc_refs := [[66; 105; 110; 97; 110; 99; 101; 67; 104; 97; 105; 110]]; c_name := [66; 105; 110; 97; 110; 99; 101; 32; 67; 104; 97; 105; 110]; c_abbr := [66; 78; 66];
     c_body := CBip
     {| b_conf_cls := K_BipCoinConf; b_slip44_sym := [66; 73; 78; 65; 78; 67; 69; 95; 67; 72; 65; 73; 78]; b_coin_idx := 714; b_testnet := false;
        b_def_path := [48; 39; 47; 48; 47; 48]; b_key_pub := [4; 136; 178; 30]; b_key_priv := [4; 136; 173; 228]; b_alt_key := None; b_wif := None;
        b_bip32 := B32_Slip10Secp256k1; b_curve := Cv_SECP256K1;
        b_addr := {| a_cls := A_Atom; a_keys := [[104; 114; 112]]; a_call_keys := []; a_params := APHrp [98; 110; 98] |};
        b_alt_addr := None |} |};
  (* Bip44 BINANCE_SMART_CHAIN -> BinanceSmartChain: Binance Smart Chain, BNB *)
  {| c_family := FBip44; c_member := [66; 73; 78; 65; 78; 67; 69; 95; 83; 77; 65; 82; 84; 95; 67; 72; 65; 73; 78]; c_value := 11; c_conf_attr := [66; 105; 110; 97; 110; 99; 101; 83; 109; 97; 114; 116; 67; 104; 97; 105; 110];
     c_cc := [66; 105; 110; 97; 110; 99; 101; 83; 109; 97; 114; 116; 67; 104; 97; 105; 110]; c_cc_refs := [[66; 105; 110; 97; 110; 99; 101; 83; 109; 97; 114; 116; 67; 104; 97; 105; 110]]; c_name := [66; 105; 110; 97; 110; 99; 101; 32; 83; 109; 97; 114; 116; 32; 67; 104; 97; 105; 110]; c_abbr := [66; 78; 66];
     c_body := CBip
     {| b_conf_cls := K_BipCoinConf; b_slip44_sym := [69; 84; 72; 69; 82; 69; 85; 77]; b_coin_idx := 60; b_testnet := false;
        b_def_path := [48; 39; 47; 48; 47; 48]; b_key_pub := [4; 136; 178; 30]; b_key_priv := [4; 136; 173; 228]; b_alt_key := None; b_wif := None;
        b_bip32 := B32_Slip10Secp256k1; b_curve := Cv_SECP256K1;
        b_addr := {| a_cls := A_Eth; a_keys := []; a_call_keys := []; a_params := APNone |};
        b_alt_addr := None |} |};
  (* Bip44 BITCOIN -> BitcoinMainNet: Bitcoin, BTC *)
  {| c_family := FBip44; c_member := [66; 73; 84; 67; 79; 73; 78]; c_value := 12; c_conf_attr := [66; 105; 116; 99; 111; 105; 110; 77; 97; 105; 110; 78; 101; 116];
     c_cc := [66; 105; 116; 99; 111; 105; 110; 77; 97; 105; 110; 78; 101; 116]; c_cc_refs := [[66; 105; 116; 99; 111; 105; 110; 77; 97; 105; 110; 78; 101; 116]]; c_name := [66; 105; 116; 99; 111; 105; 110]; c_abbr := [66; 84; 67];
     c_body := CBip
     {| b_conf_cls := K_BipCoinConf; b_slip44_sym := [66; 73; 84; 67; 79; 73; 78]; b_coin_idx := 0; b_testnet := false;
        b_def_path := [48; 39; 47; 48; 47; 48]; b_key_pub := [4; 136; 178; 30]; b_key_priv := [4; 136; 173; 228]; b_alt_key := None; b_wif := (Some [128]);
        b_bip32 := B32_Slip10Secp256k1; b_curve := Cv_SECP256K1;
        b_addr := {| a_cls := A_P2PKH; a_keys := [[110; 101; 116; 95; 118; 101; 114]]; a_call_keys := []; a_params := APNetVer [0] |};
        b_alt_addr := None |} |};
  (* Bip44 BITCOIN_CASH -> BitcoinCashMainNet: Bitcoin Cash, BCH *)
  {| c_family := FBip44; c_member := [66; 73; 84; 67; 79; 73; 78; 95; 67; 65; 83; 72]; c_value := 13; c_conf_attr := [66; 105; 116; 99; 111; 105; 110; 67; 97; 115; 104; 77; 97; 105; 110; 78; 101; 116];
     c_cc := [66; 105; 116; 99; 111; 105; 110; 67; 97; 115; 104; 77; 97; 105; 110; 78; 101; 116]; c_cc_refs := [[66; 105; 116; 99; 111; 105; 110; 67; 97; 115; 104; 77; 97; 105; 110; 78; 101; 116]]; c_name := [66; 105; 116; 99; 111; 105; 110; 32; 67; 97; 115; 104]; c_abbr := [66; 67; 72];
     c_body := CBip
     {| b_conf_cls := K_BipBitcoinCashConf; b_slip44_sym := [66; 73; 84; 67; 79; 73; 78; 95; 67; 65; 83; 72]; b_coin_idx := 145; b_testnet := false;
        b_def_path := [48; 39; 47; 48; 47; 48]; b_key_pub := [4; 136; 178; 30]; b_key_priv := [4; 136; 173; 228]; b_alt_key := None; b_wif := (Some [128]);
        b_bip32 := B32_Slip10Secp256k1; b_curve := Cv_SECP256K1;
        b_addr := {| a_cls := A_BchP2PKH; a_keys := [[110; 101; 116; 95; 118; 101; 114]; [104; 114; 112]]; a_call_keys := []; a_params := APBch [98; 105; 116; 99; 111; 105; 110; 99; 97; 115; 104] [0] |};
        b_alt_addr := (Some {| a_cls := A_P2PKH; a_keys := [[110; 101; 116; 95; 118; 101; 114]]; a_call_keys := []; a_params := APNetVer [0] |}) |} |};
  (* Bip44 BITCOIN_CASH_SLP -> BitcoinCashSlpMainNet: Bitcoin Cash SLP, SLP *)
  {| c_family := FBip44; c_member := [66; 73; 84; 67; 79; 73; 78; 95; 67; 65; 83; 72; 95; 83; 76; 80]; c_value := 14; c_conf_attr := [66; 105; 116; 99; 111; 105; 110; 67; 97; 115; 104; 83; 108; 112; 77; 97; 105; 110; 78; 101; 116];
     c_cc := [66; 105; 116; 99; 111; 105; 110; 67; 97; 115; 104; 83; 108; 112; 77; 97; 105; 110; 78; 101; 116]; c_cc_refs := [[66; 105; 116; 99; 111; 105; 110; 67; 97; 115; 104; 83; 108; 112; 77; 97; 105; 110; 78; 101; 116]]; c_name := [66; 105; 116; 99; 111; 105; 110; 32; 67; 97; 115; 104; 32; 83; 76; 80]; c_abbr := [83; 76; 80];
     c_body := CBip
     {| b_conf_cls := K_BipBitcoinCashConf; b_slip44_sym := [66; 73; 84; 67; 79; 73; 78; 95; 67; 65; 83; 72]; b_coin_idx := 145; b_testnet := false;
        b_def_path := [48; 39; 47; 48; 47; 48]; b_key_pub := [4; 136; 178; 30]; b_key_priv := [4; 136; 173; 228]; b_alt_key := None; b_wif := (Some [128]);
        b_bip32 := B32_Slip10Secp256k1; b_curve := Cv_SECP256K1;
        b_addr := {| a_cls := A_BchP2PKH; a_keys := [[110; 101; 116; 95; 118; 101; 114]; [104; 114; 112]]; a_call_keys := []; a_params := APBch [115; 105; 109; 112; 108; 101; 108; 101; 100; 103; 101; 114] [0] |};
        b_alt_addr := (Some {| a_cls := A_P2PKH; a_keys := [[110; 101; 116; 95; 118; 101; 114]]; a_call_keys := []; a_params := APNetVer [0] |}) |} |};
  (* Bip44 BITCOIN_SV -> BitcoinSvMainNet: BitcoinSV, BSV *)
  {| c_family := FBip44; c_member := [66; 73; 84; 67; 79; 73; 78; 95; 83; 86]; c_value := 15; c_conf_attr := [66; 105; 116; 99; 111; 105; 110; 83; 118; 77; 97; 105; 110; 78; 101; 116];
     c_cc := [66; 105; 116; 99; 111; 105; 110; 83; 118; 77; 97; 105; 110; 78; 101; 116]; c_cc_refs := [[66; 105; 116; 99; 111; 105; 110; 83; 118; 77; 97; 105; 110; 78; 101; 116]]; c_name := [66; 105; 116; 99; 111; 105; 110; 83; 86]; c_abbr := [66; 83; 86];
     c_body := CBip
     {| b_conf_cls := K_BipCoinConf; b_slip44_sym := [66; 73; 84; 67; 79; 73; 78; 95; 83; 86]; b_coin_idx := 236; b_testnet := false;
        b_def_path := [48; 39; 47; 48; 47; 48]; b_key_pub := [4; 136; 178; 30]; b_key_priv := [4; 136; 173; 228]; b_alt_key := None; b_wif := (Some [128]);
        b_bip32 := B32_Slip10Secp256k1; b_curve := Cv_SECP256K1;
        b_addr := {| a_cls := A_P2PKH; a_keys := [[110; 101; 116; 95; 118; 101; 114]]; a_call_keys := []; a_params := APNetVer [0] |};
        b_alt_addr := None |} |};
  (* Bip44 CARDANO_BYRON_ICARUS -> CardanoByronIcarus: Cardano, ADA *)
  {| c_family := FBip44; c_member := [67; 65; 82; 68; 65; 78; 79; 95; 66; 89; 82; 79; 78; 95; 73; 67; 65; 82; 85; 83]; c_value := 16; c_conf_attr := [67; 97; 114; 100; 97; 110; 111; 66; 121; 114; 111; 110; 73; 99; 97; 114; 117; 115];
     c_cc := [67; 97; 114; 100; 97; 110; 111; 77; 97; 105; 110; 78; 101; 116]; c_cc_refs := [[67; 97; 114; 100; 97; 110; 111; 77; 97; 105; 110; 78; 101; 116]]; c_name := [67; 97; 114; 100; 97; 110; 111]; c_abbr := [65; 68; 65];
     c_body := CBip
     {| b_conf_cls := K_BipCoinConf; b_slip44_sym := [67; 65; 82; 68; 65; 78; 79]; b_coin_idx := 1815; b_testnet := false;
        b_def_path := [48; 39; 47; 48; 47; 48]; b_key_pub := [4; 136; 178; 30]; b_key_priv := [15; 67; 49; 212]; b_alt_key := None; b_wif := None;
        b_bip32 := B32_CardanoIcarus; b_curve := Cv_ED25519_KHOLAW;
        b_addr := {| a_cls := A_AdaByronIcarus; a_keys := []; a_call_keys := [[99; 104; 97; 105; 110; 95; 99; 111; 100; 101]]; a_params := APChainCode |};
        b_alt_addr := None |} |};
  (* Bip44 CARDANO_BYRON_LEDGER -> CardanoByronLedger: Cardano, ADA *)
  {| c_family := FBip44; c_member := [67; 65; 82; 68; 65; 78; 79; 95; 66; 89; 82; 79; 78; 95; 76; 69; 68; 71; 69; 82]; c_value := 17; c_conf_attr := [67; 97; 114; 100; 97; 110; 111; 66; 121; 114; 111; 110; 76; 101; 100; 103; 101; 114];
     c_cc := [67; 97; 114; 100; 97; 110; 111; 77; 97; 105; 110; 78; 101; 116]; c_cc_refs := [[67; 97; 114; 100; 97; 110; 111; 77; 97; 105; 110; 78; 101; 116]]; c_name := [67; 97; 114; 100; 97; 110; 111]; c_abbr := [65; 68; 65];
     c_body := CBip
     {| b_conf_cls := K_BipCoinConf; b_slip44_sym := [67; 65; 82; 68; 65; 78; 79]; b_coin_idx := 1815; b_testnet := false;
        b_def_path := [48; 39; 47; 48; 47; 48]; b_key_pub := [4; 136; 178; 30]; b_key_priv := [15; 67; 49; 212]; b_alt_key := None; b_wif := None;
        b_bip32 := B32_KholawEd25519; b_curve := Cv_ED25519_KHOLAW;
        b_addr := {| a_cls := A_AdaByronIcarus; a_keys := []; a_call_keys := [[99; 104; 97; 105; 110; 95; 99; 111; 100; 101]]; a_params := APChainCode |};
        b_alt_addr := None |} |};
  (* Bip44 CELESTIA -> Celestia: Celestia, TIA *)
  {| c_family := FBip44; c_member := [67; 69; 76; 69; 83; 84; 73; 65]; c_value := 18; c_conf_attr := [67; 101; 108; 101; 115; 116; 105; 97];
     c_cc := [67; 101; 108; 101; 115; 116; 105; 97]; c_cc_refs := [[67; 101; 108; 101; 115; 116; 105; 97]]; c_name := [67; 101; 108; 101; 115; 116; 105; 97]; c_abbr := [84; 73; 65];
     c_body := CBip
     {| b_conf_cls := K_BipCoinConf; b_slip44_sym := [65; 84; 79; 77]; b_coin_idx := 118; b_testnet := false;
        b_def_path := [48; 39; 47; 48; 47; 48]; b_key_pub := [4; 136; 178; 30]; b_key_priv := [4; 136; 173; 228]; b_alt_key := None; b_wif := None;
        b_bip32 := B32_Slip10Secp256k1; b_curve := Cv_SECP256K1;
        b_addr := {| a_cls := A_Atom; a_keys := [[104; 114; 112]]; a_call_keys := []; a_params := APHrp [99; 101; 108; 101; 115; 116; 105; 97] |};
        b_alt_addr := None |} |};
  (* Bip44 CELO -> Celo: Celo, CELO *)
  {| c_family := FBip44; c_member := [67; 69; 76; 79]; c_value := 19; c_conf_attr := [67; 101; 108; 111];
     c_cc := [67; 101; 108; 111]; c_cc_refs := [[67; 101; 108; 111]]; c_name := [67; 101; 108; 111]; c_abbr := [67; 69; 76; 79];
     c_body := CBip
     {| b_conf_cls := K_BipCoinConf; b_slip44_sym := [67; 69; 76; 79]; b_coin_idx := 52752; b_testnet := false;
        b_def_path := [48; 39; 47; 48; 47; 48]; b_key_pub := [4; 136; 178; 30]; b_key_priv := [4; 136; 173; 228]; b_alt_key := None; b_wif := None;
        b_bip32 := B32_Slip10Secp256k1; b_curve := Cv_SECP256K1;
        b_addr := {| a_cls := A_Eth; a_keys := []; a_call_keys := []; a_params := APNone |};
        b_alt_addr := None |} |};
  (* Bip44 CERTIK -> Certik: Certik, CTK *)
  {| c_family := FBip44; c_member := [67; 69; 82; 84; 73; 75]; c_value := 20; c_conf_attr := [67; 101; 114; 116; 105; 107];
     c_cc := [67; 101; 114; 116; 105; 107]; c_cc_refs := [[67; 101; 114; 116; 105; 107]]; c_name := [67; 101; 114; 116; 105; 107]; c_abbr := [67; 84; 75];
     c_body := CBip
     {| b_conf_cls := K_BipCoinConf; b_slip44_sym := [65; 84; 79; 77]; b_coin_idx := 118; b_testnet := false;
        b_def_path := [48; 39; 47; 48; 47; 48]; b_key_pub := [4; 136; 178; 30]; b_key_priv := [4; 136; 173; 228]; b_alt_key := None; b_wif := None;
        b_bip32 := B32_Slip10Secp256k1; b_curve := Cv_SECP256K1;
        b_addr := {| a_cls := A_Atom; a_keys := [[104; 114; 112]]; a_call_keys := []; a_params := APHrp [99; 101; 114; 116; 105; 107] |};
        b_alt_addr := None |} |};
  (* Bip44 CHIHUAHUA -> Chihuahua: Chihuahua, HUAHUA *)
  {| c_family := FBip44; c_member := [67; 72; 73; 72; 85; 65; 72; 85; 65]; c_value := 21; c_conf_attr := [67; 104; 105; 104; 117; 97; 104; 117; 97];
     c_cc := [67; 104; 105; 104; 117; 97; 104; 117; 97]; c_cc_refs := [[67; 104; 105; 104; 117; 97; 104; 117; 97]]; c_name := [67; 104; 105; 104; 117; 97; 104; 117; 97]; c_abbr := [72; 85; 65; 72; 85; 65];
     c_body := CBip
     {| b_conf_cls := K_BipCoinConf; b_slip44_sym := [65; 84; 79; 77]; b_coin_idx := 118; b_testnet := false;
        b_def_path := [48; 39; 47; 48; 47; 48]; b_key_pub := [4; 136; 178; 30]; b_key_priv := [4; 136; 173; 228]; b_alt_key := None; b_wif := None;
        b_bip32 := B32_Slip10Secp256k1; b_curve := Cv_SECP256K1;
        b_addr := {| a_cls := A_Atom; a_keys := [[104; 114; 112]]; a_call_keys := []; a_params := APHrp [99; 104; 105; 104; 117; 97; 104; 117; 97] |};
        b_alt_addr := None |} |};
  (* Bip44 COSMOS -> Cosmos: Cosmos, ATOM *)
  {| c_family := FBip44; c_member := [67; 79; 83; 77; 79; 83]; c_value := 22; c_conf_attr := [67; 111; 115; 109; 111; 115];
     c_cc := [67; 111; 115; 109; 111; 115]; c_cc_refs := [[67; 111; 115; 109; 111; 115]]; c_name := [67; 111; 115; 109; 111; 115]; c_abbr := [65; 84; 79; 77];
     c_body := CBip
     {| b_conf_cls := K_BipCoinConf; b_slip44_sym := [65; 84; 79; 77]; b_coin_idx := 118; b_testnet := false;
        b_def_path := [48; 39; 47; 48; 47; 48]; b_key_pub := [4; 136; 178; 30]; b_key_priv := [4; 136; 173; 228]; b_alt_key := None; b_wif := None;
        b_bip32 := B32_Slip10Secp256k1; b_curve := Cv_SECP256K1;
        b_addr := {| a_cls := A_Atom; a_keys := [[104; 114; 112]]; a_call_keys := []; a_params := APHrp [99; 111; 115; 109; 111; 115] |};
        b_alt_addr := None |} |};
  (* Bip44 DASH -> DashMainNet: Dash, DASH *)
  {| c_family := FBip44; c_member := [68; 65; 83; 72]; c_value := 23; c_conf_attr := [68; 97; 115; 104; 77; 97; 105; 110; 78; 101; 116];
     c_cc := [68; 97; 115; 104; 77; 97; 105; 110; 78; 101; 116]; c_cc_refs := [[68; 97; 115; 104; 77; 97; 105; 110; 78; 101; 116]]; c_name := [68; 97; 115; 104]; c_abbr := [68; 65; 83; 72];
     c_body := CBip
     {| b_conf_cls := K_BipCoinConf; b_slip44_sym := [68; 65; 83; 72]; b_coin_idx := 5; b_testnet := false;
        b_def_path := [48; 39; 47; 48; 47; 48]; b_key_pub := [4; 136; 178; 30]; b_key_priv := [4; 136; 173; 228]; b_alt_key := None; b_wif := (Some [204]);
        b_bip32 := B32_Slip10Secp256k1; b_curve := Cv_SECP256K1;
        b_addr := {| a_cls := A_P2PKH; a_keys := [[110; 101; 116; 95; 118; 101; 114]]; a_call_keys := []; a_params := APNetVer [76] |};
        b_alt_addr := None |} |};
  (* Bip44 DOGECOIN -> DogecoinMainNet: Dogecoin, DOGE *)
  {| c_family := FBip44; c_member := [68; 79; 71; 69; 67; 79; 73; 78]; c_value := 24; c_conf_attr := [68; 111; 103; 101; 99; 111; 105; 110; 77; 97; 105; 110; 78; 101; 116];
     c_cc := [68; 111; 103; 101; 99; 111; 105; 110; 77; 97; 105; 110; 78; 101; 116]; c_cc_refs := [[68; 111; 103; 101; 99; 111; 105; 110; 77; 97; 105; 110; 78; 101; 116]]; c_name := [68; 111; 103; 101; 99; 111; 105; 110]; c_abbr := [68; 79; 71; 69];
     c_body := CBip
     {| b_conf_cls := K_BipCoinConf; b_slip44_sym := [68; 79; 71; 69; 67; 79; 73; 78]; b_coin_idx := 3; b_testnet := false;
        b_def_path := [48; 39; 47; 48; 47; 48]; b_key_pub := [2; 250; 202; 253]; b_key_priv := [2; 250; 195; 152]; b_alt_key := None; b_wif := (Some [158]);
        b_bip32 := B32_Slip10Secp256k1; b_curve := Cv_SECP256K1;
        b_addr := {| a_cls := A_P2PKH; a_keys := [[110; 101; 116; 95; 118; 101; 114]]; a_call_keys := []; a_params := APNetVer [30] |};
        b_alt_addr := None |} |};
  (* Bip44 DYDX -> DYDX: dYdX, DYDX *)
  {| c_family := FBip44; c_member := [68; 89; 68; 88]; c_value := 25; c_conf_attr := [68; 89; 68; 88];
     c_cc := [68; 89; 68; 88]; c_cc_refs := [[68; 89; 68; 88]]; c_name := [100; 89; 100; 88]; c_abbr := [68; 89; 68; 88];
     c_body := CBip
     {| b_conf_cls := K_BipCoinConf; b_slip44_sym := [65; 84; 79; 77]; b_coin_idx := 118; b_testnet := false;
        b_def_path := [48; 39; 47; 48; 47; 48]; b_key_pub := [4; 136; 178; 30]; b_key_priv := [4; 136; 173; 228]; b_alt_key := None; b_wif := None;
        b_bip32 := B32_Slip10Secp256k1; b_curve := Cv_SECP256K1;
        b_addr := {| a_cls := A_Atom; a_keys := [[104; 114; 112]]; a_call_keys := []; a_params := APHrp [100; 121; 100; 120] |};
        b_alt_addr := None |} |};
  (* Bip44 ECASH -> EcashMainNet: eCash, XEC *)
  {| c_family := FBip44; c_member := [69; 67; 65; 83; 72]; c_value := 26; c_conf_attr := [69; 99; 97; 115; 104; 77; 97; 105; 110; 78; 101; 116];
     c_cc := [69; 99; 97; 115; 104; 77; 97; 105; 110; 78; 101; 116]; c_cc_refs := [[69; 99; 97; 115; 104; 77; 97; 105; 110; 78; 101; 116]]; c_name := [101; 67; 97; 115; 104]; c_abbr := [88; 69; 67];
     c_body := CBip
     {| b_conf_cls := K_BipBitcoinCashConf; b_slip44_sym := [66; 73; 84; 67; 79; 73; 78; 95; 67; 65; 83; 72]; b_coin_idx := 145; b_testnet := false;
        b_def_path := [48; 39; 47; 48; 47; 48]; b_key_pub := [4; 136; 178; 30]; b_key_priv := [4; 136; 173; 228]; b_alt_key := None; b_wif := (Some [128]);
        b_bip32 := B32_Slip10Secp256k1; b_curve := Cv_SECP256K1;
        b_addr := {| a_cls := A_BchP2PKH; a_keys := [[110; 101; 116; 95; 118; 101; 114]; [104; 114; 112]]; a_call_keys := []; a_params := APBch [101; 99; 97; 115; 104] [0] |};
        b_alt_addr := (Some {| a_cls := A_P2PKH; a_keys := [[110; 101; 116; 95; 118; 101; 114]]; a_call_keys := []; a_params := APNetVer [0] |}) |} |};
  (* Bip44 ELROND -> Elrond: MultiversX, EGLD *)
  {| c_family := FBip44; c_member := [69; 76; 82; 79; 78; 68]; c_value := 27; c_conf_attr := [69; 108; 114; 111; 110; 100];
     c_cc := [69; 108; 114; 111; 110; 100]; c_cc_refs := [[69; 108; 114; 111; 110; 100]]; c_name := [77; 117; 108; 116; 105; 118; 101; 114; 115; 88]; c_abbr := [69; 71; 76; 68];
     c_body := CBip
     {| b_conf_cls := K_BipCoinConf; b_slip44_sym := [69; 76; 82; 79; 78; 68]; b_coin_idx := 508; b_testnet := false;
        b_def_path := [48; 39; 47; 48; 39; 47; 48; 39]; b_key_pub := [4; 136; 178; 30]; b_key_priv := [4; 136; 173; 228]; b_alt_key := None; b_wif := None;
        b_bip32 := B32_Slip10Ed25519; b_curve := Cv_ED25519;
        b_addr := {| a_cls := A_Egld; a_keys := []; a_call_keys := []; a_params := APNone |};
        b_alt_addr := None |} |};
  (* Bip44 EOS -> Eos: EOS, EOS *)
  {| c_family := FBip44; c_member := [69; 79; 83]; c_value := 28; c_conf_attr := [69; 111; 115];
     c_cc := [69; 111; 115]; c_cc_refs := [[69; 111; 115]]; c_name := [69; 79; 83]; c_abbr := [69; 79; 83];
     c_body := CBip
     {| b_conf_cls := K_BipCoinConf; b_slip44_sym := [69; 79; 83]; b_coin_idx := 194; b_testnet := false;
        b_def_path := [48; 39; 47; 48; 47; 48]; b_key_pub := [4; 136; 178; 30]; b_key_priv := [4; 136; 173; 228]; b_alt_key := None; b_wif := None;
        b_bip32 := B32_Slip10Secp256k1; b_curve := Cv_SECP256K1;
        b_addr := {| a_cls := A_Eos; a_keys := []; a_call_keys := []; a_params := APNone |};
        b_alt_addr := None |} |};
  (* Bip44 ERGO -> ErgoMainNet: Ergo, ERGO *)
  {| c_family := FBip44; c_member := [69; 82; 71; 79]; c_value := 29; c_conf_attr := [69; 114; 103; 111; 77; 97; 105; 110; 78; 101; 116];
     c_cc := [69; 114; 103; 111; 77; 97; 105; 110; 78; 101; 116]; c_cc_refs := [[69; 114; 103; 111; 77; 97; 105; 110; 78; 101; 116]]; c_name := [69; 114; 103; 111]; c_abbr := [69; 82; 71; 79];
     c_body := CBip
     {| b_conf_cls := K_BipCoinConf; b_slip44_sym := [69; 82; 71; 79]; b_coin_idx := 429; b_testnet := false;
        b_def_path := [48; 39; 47; 48; 47; 48]; b_key_pub := [4; 136; 178; 30]; b_key_priv := [4; 136; 173; 228]; b_alt_key := None; b_wif := None;
        b_bip32 := B32_Slip10Secp256k1; b_curve := Cv_SECP256K1;
        b_addr := {| a_cls := A_ErgoP2PKH; a_keys := [[110; 101; 116; 95; 116; 121; 112; 101]]; a_call_keys := []; a_params := APErgo 0 |};
        b_alt_addr := None |} |};
  (* Bip44 ETHEREUM -> Ethereum: Ethereum, ETH *)
  {| c_family := FBip44; c_member := [69; 84; 72; 69; 82; 69; 85; 77]; c_value := 30; c_conf_attr := [69; 116; 104; 101; 114; 101; 117; 109];
     c_cc := [69; 116; 104; 101; 114; 101; 117; 109]; c_cc_refs := [[69; 116; 104; 101; 114; 101; 117; 109]]; c_name := [69; 116; 104; 101; 114; 101; 117; 109]; c_abbr := [69; 84; 72];
     c_body := CBip
     {| b_conf_cls := K_BipCoinConf; b_slip44_sym := [69; 84; 72; 69; 82; 69; 85; 77]; b_coin_idx := 60; b_testnet := false;
        b_def_path := [48; 39; 47; 48; 47; 48]; b_key_pub := [4; 136; 178; 30]; b_key_priv := [4; 136; 173; 228]; b_alt_key := None; b_wif := None;
        b_bip32 := B32_Slip10Secp256k1; b_curve := Cv_SECP256K1;
        b_addr := {| a_cls := A_Eth; a_keys := []; a_call_keys := []; a_params := APNone |};
        b_alt_addr := None |} |};
  (* Bip44 ETHEREUM_CLASSIC -> EthereumClassic: Ethereum Classic, ETC *)
  {| c_family := FBip44; c_member := [69; 84; 72; 69; 82; 69; 85; 77; 95; 67; 76; 65; 83; 83; 73; 67]; c_value := 31; c_conf_attr := [69; 116; 104; 101; 114; 101; 117; 109; 67; 108; 97; 115; 115; 105; 99];
     c_cc := [69; 116; 104; 101; 114; 101; 117; 109; 67; 108; 97; 115; 115; 105; 99]; c_cc_refs := [[69; 116; 104; 101; 114; 101; 117; 109; 67; 108; 97; 115; 115; 105; 99]]; c_name := [69; 116; 104; 101; 114; 101; 117; 109; 32; 67; 108; 97; 115; 115; 105; 99]; c_abbr := [69; 84; 67];
     c_body := CBip
     {| b_conf_cls := K_BipCoinConf; b_slip44_sym := [69; 84; 72; 69; 82; 69; 85; 77; 95; 67; 76; 65; 83; 83; 73; 67]; b_coin_idx := 61; b_testnet := false;
        b_def_path := [48; 39; 47; 48; 47; 48]; b_key_pub := [4; 136; 178; 30]; b_key_priv := [4; 136; 173; 228]; b_alt_key := None; b_wif := None;
        b_bip32 := B32_Slip10Secp256k1; b_curve := Cv_SECP256K1;
        b_addr := {| a_cls := A_Eth; a_keys := []; a_call_keys := []; a_params := APNone |};
        b_alt_addr := None |} |};
  (* Bip44 FANTOM_OPERA -> FantomOpera: Fantom Opera, FTM *)
  {| c_family := FBip44; c_member := [70; 65; 78; 84; 79; 77; 95; 79; 80; 69; 82; 65]; c_value := 32; c_conf_attr := [70; 97; 110; 116; 111; 109; 79; 112; 101; 114; 97];
     c_cc := [70; 97; 110; 116; 111; 109; 79; 112; 101; 114; 97]; c_cc_refs := [[70; 97; 110; 116; 111; 109; 79; 112; 101; 114; 97]]; c_name := [70; 97; 110; 116; 111; 109; 32; 79; 112; 101; 114; 97]; c_abbr := [70; 84; 77];
     c_body := CBip
     {| b_conf_cls := K_BipCoinConf; b_slip44_sym := [69; 84; 72; 69; 82; 69; 85; 77]; b_coin_idx := 60; b_testnet := false;
        b_def_path := [48; 39; 47; 48; 47; 48]; b_key_pub := [4; 136; 178; 30]; b_key_priv := [4; 136; 173; 228]; b_alt_key := None; b_wif := None;
        b_bip32 := B32_Slip10Secp256k1; b_curve := Cv_SECP256K1;
        b_addr := {| a_cls := A_Eth; a_keys := []; a_call_keys := []; a_params := APNone |};
        b_alt_addr := None |} |};
  (* Bip44 FETCH_AI -> FetchAi: Fetch.ai, FET *)
  {| c_family := FBip44; c_member := [70; 69; 84; 67; 72; 95; 65; 73]; c_value := 33; c_conf_attr := [70; 101; 116; 99; 104; 65; 105];
     c_cc := [70; 101; 116; 99; 104; 65; 105]; c_cc_refs := [[70; 101; 116; 99; 104; 65; 105]]; c_name := [70; 101; 116; 99; 104; 46; 97; 105]; c_abbr := [70; 69; 84];
     c_body := CBip
     {| b_conf_cls := K_BipCoinConf; b_slip44_sym := [65; 84; 79; 77]; b_coin_idx := 118; b_testnet := false;
        b_def_path := [48; 39; 47; 48; 47; 48]; b_key_pub := [4; 136; 178; 30]; b_key_priv := [4; 136; 173; 228]; b_alt_key := None; b_wif := None;
        b_bip32 := B32_Slip10Secp256k1; b_curve := Cv_SECP256K1;
        b_addr := {| a_cls := A_Atom; a_keys := [[104; 114; 112]]; a_call_keys := []; a_params := APHrp [102; 101; 116; 99; 104] |};
        b_alt_addr := None |} |};
  (* Bip44 FETCH_AI_ETH -> FetchAiEth: Fetch.ai, FET *)
  {| c_family := FBip44; c_member := [70; 69; 84; 67; 72; 95; 65; 73; 95; 69; 84; 72]; c_value := 34; c_conf_attr := [70; 101; 116; 99; 104; 65; 105; 69; 116; 104];
     c_cc := [70; 101; 116; 99; 104; 65; 105]; c_cc_refs := [[70; 101; 116; 99; 104; 65; 105]]; c_name := [70; 101; 116; 99; 104; 46; 97; 105]; c_abbr := [70; 69; 84];
     c_body := CBip
     {| b_conf_cls := K_BipCoinConf; b_slip44_sym := [69; 84; 72; 69; 82; 69; 85; 77]; b_coin_idx := 60; b_testnet := false;
        b_def_path := [48; 39; 47; 48; 47; 48]; b_key_pub := [4; 136; 178; 30]; b_key_priv := [4; 136; 173; 228]; b_alt_key := None; b_wif := None;
        b_bip32 := B32_Slip10Secp256k1; b_curve := Cv_SECP256K1;
        b_addr := {| a_cls := A_Atom; a_keys := [[104; 114; 112]]; a_call_keys := []; a_params := APHrp [102; 101; 116; 99; 104] |};
        b_alt_addr := None |} |};
  (* Bip44 FILECOIN -> Filecoin: Filecoin, FIL *)
  {| c_family := FBip44; c_member := [70; 73; 76; 69; 67; 79; 73; 78]; c_value := 35; c_conf_attr := [70; 105; 108; 101; 99; 111; 105; 110];
     c_cc := [70; 105; 108; 101; 99; 111; 105; 110]; c_cc_refs := [[70; 105; 108; 101; 99; 111; 105; 110]]; c_name := [70; 105; 108; 101; 99; 111; 105; 110]; c_abbr := [70; 73; 76];
     c_body := CBip
     {| b_conf_cls := K_BipCoinConf; b_slip44_sym := [70; 73; 76; 69; 67; 79; 73; 78]; b_coin_idx := 461; b_testnet := false;
        b_def_path := [48; 39; 47; 48; 47; 48]; b_key_pub := [4; 136; 178; 30]; b_key_priv := [4; 136; 173; 228]; b_alt_key := None; b_wif := None;
        b_bip32 := B32_Slip10Secp256k1; b_curve := Cv_SECP256K1;
        b_addr := {| a_cls := A_FilSecp256k1; a_keys := []; a_call_keys := []; a_params := APNone |};
        b_alt_addr := None |} |};
  (* Bip44 HARMONY_ONE_ATOM -> HarmonyOneAtom: Harmony One, ONE *)
  {| c_family := FBip44; c_member := [72; 65; 82; 77; 79; 78; 89; 95; 79; 78; 69; 95; 65; 84; 79; 77]; c_value := 36; c_conf_attr := [72; 97; 114; 109; 111; 110; 121; 79; 110; 101; 65; 116; 111; 109];
     c_cc := [72; 97; 114; 109; 111; 110; 121; 79; 110; 101]; c_cc_refs := [[72; 97; 114; 109; 111; 110; 121; 79; 110; 101]]; c_name := [72; 97; 114; 109; 111; 110; 121; 32; 79; 110; 101]; c_abbr := [79; 78; 69];
     c_body := CBip
     {| b_conf_cls := K_BipCoinConf; b_slip44_sym := [72; 65; 82; 77; 79; 78; 89; 95; 79; 78; 69]; b_coin_idx := 1023; b_testnet := false;
        b_def_path := [48; 39; 47; 48; 47; 48]; b_key_pub := [4; 136; 178; 30]; b_key_priv := [4; 136; 173; 228]; b_alt_key := None; b_wif := None;
        b_bip32 := B32_Slip10Secp256k1; b_curve := Cv_SECP256K1;
        b_addr := {| a_cls := A_One; a_keys := []; a_call_keys := []; a_params := APNone |};
        b_alt_addr := None |} |};
  (* Bip44 HARMONY_ONE_ETH -> HarmonyOneEth: Harmony One, ONE *)
  {| c_family := FBip44; c_member := [72; 65; 82; 77; 79; 78; 89; 95; 79; 78; 69; 95; 69; 84; 72]; c_value := 37; c_conf_attr := [72; 97; 114; 109; 111; 110; 121; 79; 110; 101; 69; 116; 104];
     c_cc := [72; 97; 114; 109; 111; 110; 121; 79; 110; 101]; c_cc_refs := [[72; 97; 114; 109; 111; 110; 121; 79; 110; 101]]; c_name := [72; 97; 114; 109; 111; 110; 121; 32; 79; 110; 101]; c_abbr := [79; 78; 69];
     c_body := CBip
     {| b_conf_cls := K_BipCoinConf; b_slip44_sym := [72; 65; 82; 77; 79; 78; 89; 95; 79; 78; 69]; b_coin_idx := 1023; b_testnet := false;
        b_def_path := [48; 39; 47; 48; 47; 48]; b_key_pub := [4; 136; 178; 30]; b_key_priv := [4; 136; 173; 228]; b_alt_key := None; b_wif := None;
        b_bip32 := B32_Slip10Secp256k1; b_curve := Cv_SECP256K1;
        b_addr := {| a_cls := A_Eth; a_keys := []; a_call_keys := []; a_params := APNone |};
        b_alt_addr := None |} |};
  (* Bip44 HARMONY_ONE_METAMASK -> HarmonyOneMetamask: Harmony One, ONE *)
  {| c_family := FBip44; c_member := [72; 65; 82; 77; 79; 78; 89; 95; 79; 78; 69; 95; 77; 69; 84; 65; 77; 65; 83; 75]; c_value := 38; c_conf_attr := [72; 97; 114; 109; 111; 110; 121; 79; 110; 101; 77; 101; 116; 97; 109; 97; 115; 107];
     c_cc := [72; 97; 114; 109; 111; 110; 121; 79; 110; 101]; c_cc_refs := [[72; 97; 114; 109; 111; 110; 121; 79; 110; 101]]; c_name := [72; 97; 114; 109; 111; 110; 121; 32; 79; 110; 101]; c_abbr := [79; 78; 69];
     c_body := CBip
     {| b_conf_cls := K_BipCoinConf; b_slip44_sym := [69; 84; 72; 69; 82; 69; 85; 77]; b_coin_idx := 60; b_testnet := false;
        b_def_path := [48; 39; 47; 48; 47; 48]; b_key_pub := [4; 136; 178; 30]; b_key_priv := [4; 136; 173; 228]; b_alt_key := None; b_wif := None;
        b_bip32 := B32_Slip10Secp256k1; b_curve := Cv_SECP256K1;
        b_addr := {| a_cls := A_Eth; a_keys := []; a_call_keys := []; a_params := APNone |};
        b_alt_addr := None |} |};
  (* Bip44 HUOBI_CHAIN -> HuobiChain: Huobi Token, HT *)
  {| c_family := FBip44; c_member := [72; 85; 79; 66; 73; 95; 67; 72; 65; 73; 78]; c_value := 39; c_conf_attr := [72; 117; 111; 98; 105; 67; 104; 97; 105; 110];
     c_cc := [72; 117; 111; 98; 105; 67; 104; 97; 105; 110]; c_cc_refs := [[72; 117; 111; 98; 105; 67; 104; 97; 105; 110]]; c_name := [72; 117; 111; 98; 105; 32; 84; 111; 107; 101; 110]; c_abbr := [72; 84];
     c_body := CBip
     {| b_conf_cls := K_BipCoinConf; b_slip44_sym := [69; 84; 72; 69; 82; 69; 85; 77]; b_coin_idx := 60; b_testnet := false;
        b_def_path := [48; 39; 47; 48; 47; 48]; b_key_pub := [4; 136; 178; 30]; b_key_priv := [4; 136; 173; 228]; b_alt_key := None; b_wif := None;
        b_bip32 := B32_Slip10Secp256k1; b_curve := Cv_SECP256K1;
        b_addr := {| a_cls := A_Eth; a_keys := []; a_call_keys := []; a_params := APNone |};
        b_alt_addr := None |} |};
  (* Bip44 ICON -> Icon: Icon, ICX *)
  {| c_family := FBip44; c_member := [73; 67; 79; 78]; c_value := 40; c_conf_attr := [73; 99; 111; 110];
     c_cc := [73; 99; 111; 110]; c_cc_refs := [[73; 99; 111; 110]]; c_name := [73; 99; 111; 110]; c_abbr := [73; 67; 88];
     c_body := CBip
     {| b_conf_cls := K_BipCoinConf; b_slip44_sym := [73; 67; 79; 78]; b_coin_idx := 74; b_testnet := false;
        b_def_path := [48; 39; 47; 48; 47; 48]; b_key_pub := [4; 136; 178; 30]; b_key_priv := [4; 136; 173; 228]; b_alt_key := None; b_wif := None;
        b_bip32 := B32_Slip10Secp256k1; b_curve := Cv_SECP256K1;
        b_addr := {| a_cls := A_Icx; a_keys := []; a_call_keys := []; a_params := APNone |};
        b_alt_addr := None |} |};
  (* Bip44 INJECTIVE -> Injective: Injective, INJ *)
  {| c_family := FBip44; c_member := [73; 78; 74; 69; 67; 84; 73; 86; 69]; c_value := 41; c_conf_attr := [73; 110; 106; 101; 99; 116; 105; 118; 101];
     c_cc := [73; 110; 106; 101; 99; 116; 105; 118; 101]; c_cc_refs := [[73; 110; 106; 101; 99; 116; 105; 118; 101]]; c_name := [73; 110; 106; 101; 99; 116; 105; 118; 101]; c_abbr := [73; 78; 74];
     c_body := CBip
     {| b_conf_cls := K_BipCoinConf; b_slip44_sym := [69; 84; 72; 69; 82; 69; 85; 77]; b_coin_idx := 60; b_testnet := false;
        b_def_path := [48; 39; 47; 48; 47; 48]; b_key_pub := [4; 136; 178; 30]; b_key_priv := [4; 136; 173; 228]; b_alt_key := None; b_wif := None;
        b_bip32 := B32_Slip10Secp256k1; b_curve := Cv_SECP256K1;
        b_addr := {| a_cls := A_Inj; a_keys := []; a_call_keys := []; a_params := APNone |};
        b_alt_addr := None |} |};
  (* Bip44 IRIS_NET -> IrisNet: IRIS Network, IRIS *)
  {| c_family := FBip44; c_member := [73; 82; 73; 83; 95; 78; 69; 84]; c_value := 42; c_conf_attr := [73; 114; 105; 115; 78; 101; 116];
     c_cc := [73; 114; 105; 115; 78; 101; 116]; c_cc_refs := [[73; 114; 105; 115; 78; 101; 116]]; c_name := [73; 82; 73; 83; 32; 78; 101; 116; 119; 111; 114; 107]; c_abbr := [73; 82; 73; 83];
     c_body := CBip
     {| b_conf_cls := K_BipCoinConf; b_slip44_sym := [65; 84; 79; 77]; b_coin_idx := 118; b_testnet := false;
        b_def_path := [48; 39; 47; 48; 47; 48]; b_key_pub := [4; 136; 178; 30]; b_key_priv := [4; 136; 173; 228]; b_alt_key := None; b_wif := None;
        b_bip32 := B32_Slip10Secp256k1; b_curve := Cv_SECP256K1;
        b_addr := {| a_cls := A_Atom; a_keys := [[104; 114; 112]]; a_call_keys := []; a_params := APHrp [105; 97; 97] |};
        b_alt_addr := None |} |};
  (* Bip44 KAVA -> Kava: Kava, KAVA *)
  {| c_family := FBip44; c_member := [75; 65; 86; 65]; c_value := 43; c_conf_attr := [75; 97; 118; 97];
     c_cc := [75; 97; 118; 97]; c_cc_refs := [[75; 97; 118; 97]]; c_name := [75; 97; 118; 97]; c_abbr := [75; 65; 86; 65];
     c_body := CBip
     {| b_conf_cls := K_BipCoinConf; b_slip44_sym := [75; 65; 86; 65]; b_coin_idx := 459; b_testnet := false;
        b_def_path := [48; 39; 47; 48; 47; 48]; b_key_pub := [4; 136; 178; 30]; b_key_priv := [4; 136; 173; 228]; b_alt_key := None; b_wif := None;
        b_bip32 := B32_Slip10Secp256k1; b_curve := Cv_SECP256K1;
        b_addr := {| a_cls := A_Atom; a_keys := [[104; 114; 112]]; a_call_keys := []; a_params := APHrp [107; 97; 118; 97] |};
        b_alt_addr := None |} |};
  (* Bip44 KUSAMA_ED25519_SLIP -> KusamaEd25519Slip: Kusama, KSM *)
  {| c_family := FBip44; c_member := [75; 85; 83; 65; 77; 65; 95; 69; 68; 50; 53; 53; 49; 57; 95; 83; 76; 73; 80]; c_value := 44; c_conf_attr := [75; 117; 115; 97; 109; 97; 69; 100; 50; 53; 53; 49; 57; 83; 108; 105; 112];
     c_cc := [75; 117; 115; 97; 109; 97]; c_cc_refs := [[75; 117; 115; 97; 109; 97]]; c_name := [75; 117; 115; 97; 109; 97]; c_abbr := [75; 83; 77];
     c_body := CBip
     {| b_conf_cls := K_BipCoinConf; b_slip44_sym := [75; 85; 83; 65; 77; 65]; b_coin_idx := 434; b_testnet := false;
        b_def_path := [48; 39; 47; 48; 39; 47; 48; 39]; b_key_pub := [4; 136; 178; 30]; b_key_priv := [4; 136; 173; 228]; b_alt_key := None; b_wif := None;
        b_bip32 := B32_Slip10Ed25519; b_curve := Cv_ED25519;
        b_addr := {| a_cls := A_SubstrateEd25519; a_keys := [[115; 115; 53; 56; 95; 102; 111; 114; 109; 97; 116]]; a_call_keys := []; a_params := APSS58 2 |};
        b_alt_addr := None |} |};
  (* Bip44 LITECOIN -> LitecoinMainNet: Litecoin, LTC *)
  {| c_family := FBip44; c_member := [76; 73; 84; 69; 67; 79; 73; 78]; c_value := 45; c_conf_attr := [76; 105; 116; 101; 99; 111; 105; 110; 77; 97; 105; 110; 78; 101; 116];
     c_cc := [76; 105; 116; 101; 99; 111; 105; 110; 77; 97; 105; 110; 78; 101; 116]; c_cc_refs := [[76; 105; 116; 101; 99; 111; 105; 110; 77; 97; 105; 110; 78; 101; 116]]; c_name := [76; 105; 116; 101; 99; 111; 105; 110]; c_abbr := [76; 84; 67];
     c_body := CBip
     {| b_conf_cls := K_BipLitecoinConf; b_slip44_sym := [76; 73; 84; 69; 67; 79; 73; 78]; b_coin_idx := 2; b_testnet := false;
        b_def_path := [48; 39; 47; 48; 47; 48]; b_key_pub := [4; 136; 178; 30]; b_key_priv := [4; 136; 173; 228]; b_alt_key := (Some ([1; 157; 164; 98], [1; 157; 156; 254])); b_wif := (Some [176]);
        b_bip32 := B32_Slip10Secp256k1; b_curve := Cv_SECP256K1;
        b_addr := {| a_cls := A_P2PKH; a_keys := [[110; 101; 116; 95; 118; 101; 114]]; a_call_keys := []; a_params := APNetVer [48] |};
        b_alt_addr := (Some {| a_cls := A_P2PKH; a_keys := [[110; 101; 116; 95; 118; 101; 114]]; a_call_keys := []; a_params := APNetVer [0] |}) |} |};
  (* Bip44 METIS -> Metis: Metis, METIS *)
  {| c_family := FBip44; c_member := [77; 69; 84; 73; 83]; c_value := 46; c_conf_attr := [77; 101; 116; 105; 115];
     c_cc := [77; 101; 116; 105; 115]; c_cc_refs := [[77; 101; 116; 105; 115]]; c_name := [77; 101; 116; 105; 115]; c_abbr := [77; 69; 84; 73; 83];
     c_body := CBip
     {| b_conf_cls := K_BipCoinConf; b_slip44_sym := [69; 84; 72; 69; 82; 69; 85; 77]; b_coin_idx := 60; b_testnet := false;
        b_def_path := [48; 39; 47; 48; 47; 48]; b_key_pub := [4; 136; 178; 30]; b_key_priv := [4; 136; 173; 228]; b_alt_key := None; b_wif := None;
        b_bip32 := B32_Slip10Secp256k1; b_curve := Cv_SECP256K1;
        b_addr := {| a_cls := A_Eth; a_keys := []; a_call_keys := []; a_params := APNone |};
        b_alt_addr := None |} |};
  (* Bip44 MONERO_ED25519_SLIP -> MoneroEd25519Slip: Monero, XMR *)
  {| c_family := FBip44; c_member := [77; 79; 78; 69; 82; 79; 95; 69; 68; 50; 53; 53; 49; 57; 95; 83; 76; 73; 80]; c_value := 47; c_conf_attr := [77; 111; 110; 101; 114; 111; 69; 100; 50; 53; 53; 49; 57; 83; 108; 105; 112];
     c_cc := [77; 111; 110; 101; 114; 111; 77; 97; 105; 110; 78; 101; 116]; c_cc_refs := [[77; 111; 110; 101; 114; 111; 77; 97; 105; 110; 78; 101; 116]]; c_name := [77; 111; 110; 101; 114; 111]; c_abbr := [88; 77; 82];
     c_body := CBip
     {| b_conf_cls := K_BipCoinConf; b_slip44_sym := [77; 79; 78; 69; 82; 79]; b_coin_idx := 128; b_testnet := false;
        b_def_path := [48; 39; 47; 48; 39; 47; 48; 39]; b_key_pub := [4; 136; 178; 30]; b_key_priv := [4; 136; 173; 228]; b_alt_key := None; b_wif := None;
        b_bip32 := B32_Slip10Ed25519; b_curve := Cv_ED25519;
        b_addr := {| a_cls := A_Xmr; a_keys := []; a_call_keys := []; a_params := APNone |};
        b_alt_addr := None |} |};
  (* Bip44 MONERO_SECP256K1 -> MoneroSecp256k1: Monero, XMR *)
  {| c_family := FBip44; c_member := [77; 79; 78; 69; 82; 79; 95; 83; 69; 67; 80; 50; 53; 54; 75; 49]; c_value := 48; c_conf_attr := [77; 111; 110; 101; 114; 111; 83; 101; 99; 112; 50; 53; 54; 107; 49];
     c_cc := [77; 111; 110; 101; 114; 111; 77; 97; 105; 110; 78; 101; 116]; c_cc_refs := [[77; 111; 110; 101; 114; 111; 77; 97; 105; 110; 78; 101; 116]]; c_name := [77; 111; 110; 101; 114; 111]; c_abbr := [88; 77; 82];
     c_body := CBip
     {| b_conf_cls := K_BipCoinConf; b_slip44_sym := [77; 79; 78; 69; 82; 79]; b_coin_idx := 128; b_testnet := false;
        b_def_path := [48; 39; 47; 48; 47; 48]; b_key_pub := [4; 136; 178; 30]; b_key_priv := [4; 136; 173; 228]; b_alt_key := None; b_wif := None;
        b_bip32 := B32_Slip10Secp256k1; b_curve := Cv_SECP256K1;
        b_addr := {| a_cls := A_Xmr; a_keys := []; a_call_keys := []; a_params := APNone |};
        b_alt_addr := None |} |};
  (* Bip44 MULTIVERSX -> Elrond: MultiversX, EGLD *)
  {| c_family := FBip44; c_member := [77; 85; 76; 84; 73; 86; 69; 82; 83; 88]; c_value := 49; c_conf_attr := [69; 108; 114; 111; 110; 100];
     c_cc := [69; 108; 114; 111; 110; 100]; c_cc_refs := [[69; 108; 114; 111; 110; 100]]; c_name := [77; 117; 108; 116; 105; 118; 101; 114; 115; 88]; c_abbr := [69; 71; 76; 68];
     c_body := CBip
     {| b_conf_cls := K_BipCoinConf; b_slip44_sym := [69; 76; 82; 79; 78; 68]; b_coin_idx := 508; b_testnet := false;
        b_def_path := [48; 39; 47; 48; 39; 47; 48; 39]; b_key_pub := [4; 136; 178; 30]; b_key_priv := [4; 136; 173; 228]; b_alt_key := None; b_wif := None;
        b_bip32 := B32_Slip10Ed25519; b_curve := Cv_ED25519;
        b_addr := {| a_cls := A_Egld; a_keys := []; a_call_keys := []; a_params := APNone |};
        b_alt_addr := None |} |};
  (* Bip44 NANO -> Nano: Nano, NANO *)
  {| c_family := FBip44; c_member := [78; 65; 78; 79]; c_value := 50; c_conf_attr := [78; 97; 110; 111];
     c_cc := [78; 97; 110; 111]; c_cc_refs := [[78; 97; 110; 111]]; c_name := [78; 97; 110; 111]; c_abbr := [78; 65; 78; 79];
     c_body := CBip
     {| b_conf_cls := K_BipCoinConf; b_slip44_sym := [78; 65; 78; 79]; b_coin_idx := 165; b_testnet := false;
        b_def_path := [48; 39]; b_key_pub := [4; 136; 178; 30]; b_key_priv := [4; 136; 173; 228]; b_alt_key := None; b_wif := None;
        b_bip32 := B32_Slip10Ed25519Blake2b; b_curve := Cv_ED25519_BLAKE2B;
        b_addr := {| a_cls := A_Nano; a_keys := []; a_call_keys := []; a_params := APNone |};
        b_alt_addr := None |} |};
  (* Bip44 NEAR_PROTOCOL -> NearProtocol: Near Protocol, NEAR *)
  {| c_family := FBip44; c_member := [78; 69; 65; 82; 95; 80; 82; 79; 84; 79; 67; 79; 76]; c_value := 51; c_conf_attr := [78; 101; 97; 114; 80; 114; 111; 116; 111; 99; 111; 108];
     c_cc := [78; 101; 97; 114; 80; 114; 111; 116; 111; 99; 111; 108]; c_cc_refs := [[78; 101; 97; 114; 80; 114; 111; 116; 111; 99; 111; 108]]; c_name := [78; 101; 97; 114; 32; 80; 114; 111; 116; 111; 99; 111; 108]; c_abbr := [78; 69; 65; 82];
     c_body := CBip
     {| b_conf_cls := K_BipCoinConf; b_slip44_sym := [78; 69; 65; 82; 95; 80; 82; 79; 84; 79; 67; 79; 76]; b_coin_idx := 397; b_testnet := false;
        b_def_path := [48; 39]; b_key_pub := [4; 136; 178; 30]; b_key_priv := [4; 136; 173; 228]; b_alt_key := None; b_wif := None;
        b_bip32 := B32_Slip10Ed25519; b_curve := Cv_ED25519;
        b_addr := {| a_cls := A_Near; a_keys := []; a_call_keys := []; a_params := APNone |};
        b_alt_addr := None |} |};
  (* Bip44 NEO -> NeoLegacy: NEO, NEO *)
  {| c_family := FBip44; c_member := [78; 69; 79]; c_value := 52; c_conf_attr := [78; 101; 111; 76; 101; 103; 97; 99; 121];
     c_cc := [78; 101; 111; 76; 101; 103; 97; 99; 121]; c_cc_refs := [[78; 101; 111; 76; 101; 103; 97; 99; 121]]; c_name := [78; 69; 79]; c_abbr := [78; 69; 79];
     c_body := CBip
     {| b_conf_cls := K_BipCoinConf; b_slip44_sym := [78; 69; 79]; b_coin_idx := 888; b_testnet := false;
        b_def_path := [48; 39; 47; 48; 47; 48]; b_key_pub := [4; 136; 178; 30]; b_key_priv := [4; 136; 173; 228]; b_alt_key := None; b_wif := (Some [128]);
        b_bip32 := B32_Slip10Nist256p1; b_curve := Cv_NIST256P1;
        b_addr := {| a_cls := A_NeoLegacy; a_keys := [[118; 101; 114]]; a_call_keys := []; a_params := APNeo [23] |};
        b_alt_addr := None |} |};
  (* Bip44 NEO_LEGACY -> NeoLegacy: NEO, NEO *)
  {| c_family := FBip44; c_member := [78; 69; 79; 95; 76; 69; 71; 65; 67; 89]; c_value := 53; c_conf_attr := [78; 101; 111; 76; 101; 103; 97; 99; 121];
     c_cc := [78; 101; 111; 76; 101; 103; 97; 99; 121]; c_cc_refs := [[78; 101; 111; 76; 101; 103; 97; 99; 121]]; c_name := [78; 69; 79]; c_abbr := [78; 69; 79];
     c_body := CBip
     {| b_conf_cls := K_BipCoinConf; b_slip44_sym := [78; 69; 79]; b_coin_idx := 888; b_testnet := false;
        b_def_path := [48; 39; 47; 48; 47; 48]; b_key_pub := [4; 136; 178; 30]; b_key_priv := [4; 136; 173; 228]; b_alt_key := None; b_wif := (Some [128]);
        b_bip32 := B32_Slip10Nist256p1; b_curve := Cv_NIST256P1;
        b_addr := {| a_cls := A_NeoLegacy; a_keys := [[118; 101; 114]]; a_call_keys := []; a_params := APNeo [23] |};
        b_alt_addr := None |} |};
  (* Bip44 NEO_N3 -> NeoN3: NEO, NEO *)
  {| c_family := FBip44; c_member := [78; 69; 79; 95; 78; 51]; c_value := 54; c_conf_attr := [78; 101; 111; 78; 51];
     c_cc := [78; 101; 111; 78; 51]; c_cc_refs := [[78; 101; 111; 78; 51]]; c_name := [78; 69; 79]; c_abbr := [78; 69; 79];
     c_body := CBip
     {| b_conf_cls := K_BipCoinConf; b_slip44_sym := [78; 69; 79]; b_coin_idx := 888; b_testnet := false;
        b_def_path := [48; 39; 47; 48; 47; 48]; b_key_pub := [4; 136; 178; 30]; b_key_priv := [4; 136; 173; 228]; b_alt_key := None; b_wif := (Some [128]);
        b_bip32 := B32_Slip10Nist256p1; b_curve := Cv_NIST256P1;
        b_addr := {| a_cls := A_NeoN3; a_keys := [[118; 101; 114]]; a_call_keys := []; a_params := APNeo [53] |};
        b_alt_addr := None |} |};
  (* Bip44 NEUTRON -> Neutron: Neutron, NTRN *)
  {| c_family := FBip44; c_member := [78; 69; 85; 84; 82; 79; 78]; c_value := 55; c_conf_attr := [78; 101; 117; 116; 114; 111; 110];
     c_cc := [78; 101; 117; 116; 114; 111; 110]; c_cc_refs := [[78; 101; 117; 116; 114; 111; 110]]; c_name := [78; 101; 117; 116; 114; 111; 110]; c_abbr := [78; 84; 82; 78];
     c_body := CBip
     {| b_conf_cls := K_BipCoinConf; b_slip44_sym := [65; 84; 79; 77]; b_coin_idx := 118; b_testnet := false;
        b_def_path := [48; 39; 47; 48; 47; 48]; b_key_pub := [4; 136; 178; 30]; b_key_priv := [4; 136; 173; 228]; b_alt_key := None; b_wif := None;
        b_bip32 := B32_Slip10Secp256k1; b_curve := Cv_SECP256K1;
        b_addr := {| a_cls := A_Atom; a_keys := [[104; 114; 112]]; a_call_keys := []; a_params := APHrp [110; 101; 117; 116; 114; 111; 110] |};
        b_alt_addr := None |} |};
  (* Bip44 NIMIQ -> Nimiq: Nimiq, NIM *)
  {| c_family := FBip44; c_member := [78; 73; 77; 73; 81]; c_value := 56; c_conf_attr := [78; 105; 109; 105; 113];
     c_cc := [78; 105; 109; 105; 113]; c_cc_refs := [[78; 105; 109; 105; 113]]; c_name := [78; 105; 109; 105; 113]; c_abbr := [78; 73; 77];
     c_body := CBip
     {| b_conf_cls := K_BipCoinConf; b_slip44_sym := [78; 73; 77; 73; 81]; b_coin_idx := 242; b_testnet := false;
        b_def_path := [48; 39; 47; 48; 39]; b_key_pub := [4; 136; 178; 30]; b_key_priv := [4; 136; 173; 228]; b_alt_key := None; b_wif := None;
        b_bip32 := B32_Slip10Ed25519; b_curve := Cv_ED25519;
        b_addr := {| a_cls := A_Nim; a_keys := []; a_call_keys := []; a_params := APNone |};
        b_alt_addr := None |} |};
  (* Bip44 NINE_CHRONICLES_GOLD -> NineChroniclesGold: NineChroniclesGold, NCG *)
  {| c_family := FBip44; c_member := [78; 73; 78; 69; 95; 67; 72; 82; 79; 78; 73; 67; 76; 69; 83; 95; 71; 79; 76; 68]; c_value := 57; c_conf_attr := [78; 105; 110; 101; 67; 104; 114; 111; 110; 105; 99; 108; 101; 115; 71; 111; 108; 100];
     c_cc := [78; 105; 110; 101; 67; 104; 114; 111; 110; 105; 99; 108; 101; 115; 71; 111; 108; 100]; c_cc_refs := [[78; 105; 110; 101; 67; 104; 114; 111; 110; 105; 99; 108; 101; 115; 71; 111; 108; 100]]; c_name := [78; 105; 110; 101; 67; 104; 114; 111; 110; 105; 99; 108; 101; 115; 71; 111; 108; 100]; c_abbr := [78; 67; 71];
     c_body := CBip
     {| b_conf_cls := K_BipCoinConf; b_slip44_sym := [78; 73; 78; 69; 95; 67; 72; 82; 79; 78; 73; 67; 76; 69; 83]; b_coin_idx := 567; b_testnet := false;
        b_def_path := [48; 39; 47; 48; 47; 48]; b_key_pub := [4; 136; 178; 30]; b_key_priv := [4; 136; 173; 228]; b_alt_key := None; b_wif := None;
        b_bip32 := B32_Slip10Secp256k1; b_curve := Cv_SECP256K1;
        b_addr := {| a_cls := A_Eth; a_keys := []; a_call_keys := []; a_params := APNone |};
        b_alt_addr := None |} |};
  (* Bip44 OKEX_CHAIN_ATOM -> OkexChainAtom: OKExChain, OKT *)
  {| c_family := FBip44; c_member := [79; 75; 69; 88; 95; 67; 72; 65; 73; 78; 95; 65; 84; 79; 77]; c_value := 58; c_conf_attr := [79; 107; 101; 120; 67; 104; 97; 105; 110; 65; 116; 111; 109];
     c_cc := [79; 107; 101; 120; 67; 104; 97; 105; 110]; c_cc_refs := [[79; 107; 101; 120; 67; 104; 97; 105; 110]]; c_name := [79; 75; 69; 120; 67; 104; 97; 105; 110]; c_abbr := [79; 75; 84];
     c_body := CBip
     {| b_conf_cls := K_BipCoinConf; b_slip44_sym := [69; 84; 72; 69; 82; 69; 85; 77]; b_coin_idx := 60; b_testnet := false;
        b_def_path := [48; 39; 47; 48; 47; 48]; b_key_pub := [4; 136; 178; 30]; b_key_priv := [4; 136; 173; 228]; b_alt_key := None; b_wif := None;
        b_bip32 := B32_Slip10Secp256k1; b_curve := Cv_SECP256K1;
        b_addr := {| a_cls := A_Okex; a_keys := []; a_call_keys := []; a_params := APNone |};
        b_alt_addr := None |} |};
  (* Bip44 OKEX_CHAIN_ATOM_OLD -> OkexChainAtomOld: OKExChain, OKT *)
  {| c_family := FBip44; c_member := [79; 75; 69; 88; 95; 67; 72; 65; 73; 78; 95; 65; 84; 79; 77; 95; 79; 76; 68]; c_value := 59; c_conf_attr := [79; 107; 101; 120; 67; 104; 97; 105; 110; 65; 116; 111; 109; 79; 108; 100];
     c_cc := [79; 107; 101; 120; 67; 104; 97; 105; 110]; c_cc_refs := [[79; 107; 101; 120; 67; 104; 97; 105; 110]]; c_name := [79; 75; 69; 120; 67; 104; 97; 105; 110]; c_abbr := [79; 75; 84];
     c_body := CBip
     {| b_conf_cls := K_BipCoinConf; b_slip44_sym := [79; 75; 69; 88; 95; 67; 72; 65; 73; 78]; b_coin_idx := 996; b_testnet := false;
        b_def_path := [48; 39; 47; 48; 47; 48]; b_key_pub := [4; 136; 178; 30]; b_key_priv := [4; 136; 173; 228]; b_alt_key := None; b_wif := None;
        b_bip32 := B32_Slip10Secp256k1; b_curve := Cv_SECP256K1;
        b_addr := {| a_cls := A_Okex; a_keys := []; a_call_keys := []; a_params := APNone |};
        b_alt_addr := None |} |};
  (* Bip44 OKEX_CHAIN_ETH -> OkexChainEth: OKExChain, OKT *)
  {| c_family := FBip44; c_member := [79; 75; 69; 88; 95; 67; 72; 65; 73; 78; 95; 69; 84; 72]; c_value := 60; c_conf_attr := [79; 107; 101; 120; 67; 104; 97; 105; 110; 69; 116; 104];
     c_cc := [79; 107; 101; 120; 67; 104; 97; 105; 110]; c_cc_refs := [[79; 107; 101; 120; 67; 104; 97; 105; 110]]; c_name := [79; 75; 69; 120; 67; 104; 97; 105; 110]; c_abbr := [79; 75; 84];
     c_body := CBip
     {| b_conf_cls := K_BipCoinConf; b_slip44_sym := [69; 84; 72; 69; 82; 69; 85; 77]; b_coin_idx := 60; b_testnet := false;
        b_def_path := [48; 39; 47; 48; 47; 48]; b_key_pub := [4; 136; 178; 30]; b_key_priv := [4; 136; 173; 228]; b_alt_key := None; b_wif := None;
        b_bip32 := B32_Slip10Secp256k1; b_curve := Cv_SECP256K1;
        b_addr := {| a_cls := A_Eth; a_keys := []; a_call_keys := []; a_params := APNone |};
        b_alt_addr := None |} |};
  (* Bip44 ONTOLOGY -> Ontology: Ontology, ONT *)
  {| c_family := FBip44; c_member := [79; 78; 84; 79; 76; 79; 71; 89]; c_value := 61; c_conf_attr := [79; 110; 116; 111; 108; 111; 103; 121];
     c_cc := [79; 110; 116; 111; 108; 111; 103; 121]; c_cc_refs := [[79; 110; 116; 111; 108; 111; 103; 121]]; c_name := [79; 110; 116; 111; 108; 111; 103; 121]; c_abbr := [79; 78; 84];
     c_body := CBip
     {| b_conf_cls := K_BipCoinConf; b_slip44_sym := [79; 78; 84; 79; 76; 79; 71; 89]; b_coin_idx := 1024; b_testnet := false;
        b_def_path := [48; 39; 47; 48; 47; 48]; b_key_pub := [4; 136; 178; 30]; b_key_priv := [4; 136; 173; 228]; b_alt_key := None; b_wif := None;
        b_bip32 := B32_Slip10Nist256p1; b_curve := Cv_NIST256P1;
        b_addr := {| a_cls := A_NeoLegacy; a_keys := [[118; 101; 114]]; a_call_keys := []; a_params := APNeo [23] |};
        b_alt_addr := None |} |};
  (* Bip44 OPTIMISM -> Optimism: Optimism, OP *)
  {| c_family := FBip44; c_member := [79; 80; 84; 73; 77; 73; 83; 77]; c_value := 62; c_conf_attr := [79; 112; 116; 105; 109; 105; 115; 109];
     c_cc := [79; 112; 116; 105; 109; 105; 115; 109]; c_cc_refs := [[79; 112; 116; 105; 109; 105; 115; 109]]; c_name := [79; 112; 116; 105; 109; 105; 115; 109]; c_abbr := [79; 80];
     c_body := CBip
     {| b_conf_cls := K_BipCoinConf; b_slip44_sym := [69; 84; 72; 69; 82; 69; 85; 77]; b_coin_idx := 60; b_testnet := false;
        b_def_path := [48; 39; 47; 48; 47; 48]; b_key_pub := [4; 136; 178; 30]; b_key_priv := [4; 136; 173; 228]; b_alt_key := None; b_wif := None;
        b_bip32 := B32_Slip10Secp256k1; b_curve := Cv_SECP256K1;
        b_addr := {| a_cls := A_Eth; a_keys := []; a_call_keys := []; a_params := APNone |};
        b_alt_addr := None |} |};
  (* Bip44 OSMOSIS -> Osmosis: Osmosis, OSMO *)
  {| c_family := FBip44; c_member := [79; 83; 77; 79; 83; 73; 83]; c_value := 63; c_conf_attr := [79; 115; 109; 111; 115; 105; 115];
     c_cc := [79; 115; 109; 111; 115; 105; 115]; c_cc_refs := [[79; 115; 109; 111; 115; 105; 115]]; c_name := [79; 115; 109; 111; 115; 105; 115]; c_abbr := [79; 83; 77; 79];
     c_body := CBip
     {| b_conf_cls := K_BipCoinConf; b_slip44_sym := [65; 84; 79; 77]; b_coin_idx := 118; b_testnet := false;
        b_def_path := [48; 39; 47; 48; 47; 48]; b_key_pub := [4; 136; 178; 30]; b_key_priv := [4; 136; 173; 228]; b_alt_key := None; b_wif := None;
        b_bip32 := B32_Slip10Secp256k1; b_curve := Cv_SECP256K1;
        b_addr := {| a_cls := A_Atom; a_keys := [[104; 114; 112]]; a_call_keys := []; a_params := APHrp [111; 115; 109; 111] |};
        b_alt_addr := None |} |};
  (* Bip44 PI_NETWORK -> PiNetwork: Pi Network, PI *)
  {| c_family := FBip44; c_member := [80; 73; 95; 78; 69; 84; 87; 79; 82; 75]; c_value := 64; c_conf_attr := [80; 105; 78; 101; 116; 119; 111; 114; 107];
     c_cc := [80; 105; 78; 101; 116; 119; 111; 114; 107]; c_cc_refs := [[80; 105; 78; 101; 116; 119; 111; 114; 107]]; c_name := [80; 105; 32; 78; 101; 116; 119; 111; 114; 107]; c_abbr := [80; 73];
     c_body := CBip
     {| b_conf_cls := K_BipCoinConf; b_slip44_sym := [80; 73; 95; 78; 69; 84; 87; 79; 82; 75]; b_coin_idx := 314159; b_testnet := false;
        b_def_path := [48; 39]; b_key_pub := [4; 136; 178; 30]; b_key_priv := [4; 136; 173; 228]; b_alt_key := None; b_wif := None;
        b_bip32 := B32_Slip10Ed25519; b_curve := Cv_ED25519;
        b_addr := {| a_cls := A_Xlm; a_keys := [[97; 100; 100; 114; 95; 116; 121; 112; 101]]; a_call_keys := []; a_params := APXlm 48 |};
        b_alt_addr := None |} |};
  (* Bip44 POLKADOT_ED25519_SLIP -> PolkadotEd25519Slip: Polkadot, DOT *)
  {| c_family := FBip44; c_member := [80; 79; 76; 75; 65; 68; 79; 84; 95; 69; 68; 50; 53; 53; 49; 57; 95; 83; 76; 73; 80]; c_value := 65; c_conf_attr := [80; 111; 108; 107; 97; 100; 111; 116; 69; 100; 50; 53; 53; 49; 57; 83; 108; 105; 112];
     c_cc := [80; 111; 108; 107; 97; 100; 111; 116]; c_cc_refs := [[80; 111; 108; 107; 97; 100; 111; 116]]; c_name := [80; 111; 108; 107; 97; 100; 111; 116]; c_abbr := [68; 79; 84];
     c_body := CBip
     {| b_conf_cls := K_BipCoinConf; b_slip44_sym := [80; 79; 76; 75; 65; 68; 79; 84]; b_coin_idx := 354; b_testnet := false;
        b_def_path := [48; 39; 47; 48; 39; 47; 48; 39]; b_key_pub := [4; 136; 178; 30]; b_key_priv := [4; 136; 173; 228]; b_alt_key := None; b_wif := None;
        b_bip32 := B32_Slip10Ed25519; b_curve := Cv_ED25519;
        b_addr := {| a_cls := A_SubstrateEd25519; a_keys := [[115; 115; 53; 56; 95; 102; 111; 114; 109; 97; 116]]; a_call_keys := []; a_params := APSS58 0 |};
        b_alt_addr := None |} |};
  (* Bip44 POLYGON -> Polygon: Polygon, MATIC *)
  {| c_family := FBip44; c_member := [80; 79; 76; 89; 71; 79; 78]; c_value := 66; c_conf_attr := [80; 111; 108; 121; 103; 111; 110];
     c_cc := [80; 111; 108; 121; 103; 111; 110]; c_cc_refs := [[80; 111; 108; 121; 103; 111; 110]]; c_name := [80; 111; 108; 121; 103; 111; 110]; c_abbr := [77; 65; 84; 73; 67];
     c_body := CBip
     {| b_conf_cls := K_BipCoinConf; b_slip44_sym := [69; 84; 72; 69; 82; 69; 85; 77]; b_coin_idx := 60; b_testnet := false;
        b_def_path := [48; 39; 47; 48; 47; 48]; b_key_pub := [4; 136; 178; 30]; b_key_priv := [4; 136; 173; 228]; b_alt_key := None; b_wif := None;
        b_bip32 := B32_Slip10Secp256k1; b_curve := Cv_SECP256K1;
        b_addr := {| a_cls := A_Eth; a_keys := []; a_call_keys := []; a_params := APNone |};
        b_alt_addr := None |} |};
  (* Bip44 RIPPLE -> Ripple: Ripple, XRP *)
  {| c_family := FBip44; c_member := [82; 73; 80; 80; 76; 69]; c_value := 67; c_conf_attr := [82; 105; 112; 112; 108; 101];
     c_cc := [82; 105; 112; 112; 108; 101]; c_cc_refs := [[82; 105; 112; 112; 108; 101]]; c_name := [82; 105; 112; 112; 108; 101]; c_abbr := [88; 82; 80];
     c_body := CBip
     {| b_conf_cls := K_BipCoinConf; b_slip44_sym := [82; 73; 80; 80; 76; 69]; b_coin_idx := 144; b_testnet := false;
        b_def_path := [48; 39; 47; 48; 47; 48]; b_key_pub := [4; 136; 178; 30]; b_key_priv := [4; 136; 173; 228]; b_alt_key := None; b_wif := None;
        b_bip32 := B32_Slip10Secp256k1; b_curve := Cv_SECP256K1;
        b_addr := {| a_cls := A_Xrp; a_keys := []; a_call_keys := []; a_params := APNone |};
        b_alt_addr := None |} |};
  (* Bip44 SECRET_NETWORK_OLD -> SecretNetworkOld: Secret Network, SCRT *)
  {| c_family := FBip44; c_member := [83; 69; 67; 82; 69; 84; 95; 78; 69; 84; 87; 79; 82; 75; 95; 79; 76; 68]; c_value := 68; c_conf_attr := [83; 101; 99; 114; 101; 116; 78; 101; 116; 119; 111; 114; 107; 79; 108; 100];
     c_cc := [83; 101; 99; 114; 101; 116; 78; 101; 116; 119; 111; 114; 107]; c_cc_refs := [[83; 101; 99; 114; 101; 116; 78; 101; 116; 119; 111; 114; 107]]; c_name := [83; 101; 99; 114; 101; 116; 32; 78; 101; 116; 119; 111; 114; 107]; c_abbr := [83; 67; 82; 84];
     c_body := CBip
     {| b_conf_cls := K_BipCoinConf; b_slip44_sym := [65; 84; 79; 77]; b_coin_idx := 118; b_testnet := false;
        b_def_path := [48; 39; 47; 48; 47; 48]; b_key_pub := [4; 136; 178; 30]; b_key_priv := [4; 136; 173; 228]; b_alt_key := None; b_wif := None;
        b_bip32 := B32_Slip10Secp256k1; b_curve := Cv_SECP256K1;
        b_addr := {| a_cls := A_Atom; a_keys := [[104; 114; 112]]; a_call_keys := []; a_params := APHrp [115; 101; 99; 114; 101; 116] |};
        b_alt_addr := None |} |};
  (* Bip44 SECRET_NETWORK_NEW -> SecretNetworkNew: Secret Network, SCRT *)
  {| c_family := FBip44; c_member := [83; 69; 67; 82; 69; 84; 95; 78; 69; 84; 87; 79; 82; 75; 95; 78; 69; 87]; c_value := 69; c_conf_attr := [83; 101; 99; 114; 101; 116; 78; 101; 116; 119; 111; 114; 107; 78; 101; 119];
     c_cc := [83; 101; 99; 114; 101; 116; 78; 101; 116; 119; 111; 114; 107]; c_cc_refs := [[83; 101; 99; 114; 101; 116; 78; 101; 116; 119; 111; 114; 107]]; c_name := [83; 101; 99; 114; 101; 116; 32; 78; 101; 116; 119; 111; 114; 107]; c_abbr := [83; 67; 82; 84];
     c_body := CBip
     {| b_conf_cls := K_BipCoinConf; b_slip44_sym := [83; 69; 67; 82; 69; 84; 95; 78; 69; 84; 87; 79; 82; 75]; b_coin_idx := 529; b_testnet := false;
        b_def_path := [48; 39; 47; 48; 47; 48]; b_key_pub := [4; 136; 178; 30]; b_key_priv := [4; 136; 173; 228]; b_alt_key := None; b_wif := None;
        b_bip32 := B32_Slip10Secp256k1; b_curve := Cv_SECP256K1;
        b_addr := {| a_cls := A_Atom; a_keys := [[104; 114; 112]]; a_call_keys := []; a_params := APHrp [115; 101; 99; 114; 101; 116] |};
        b_alt_addr := None |} |};
  (* Bip44 SOLANA -> Solana: Solana, SOL *)
  {| c_family := FBip44; c_member := [83; 79; 76; 65; 78; 65]; c_value := 70; c_conf_attr := [83; 111; 108; 97; 110; 97];
     c_cc := [83; 111; 108; 97; 110; 97]; c_cc_refs := [[83; 111; 108; 97; 110; 97]]; c_name := [83; 111; 108; 97; 110; 97]; c_abbr := [83; 79; 76];
     c_body := CBip
     {| b_conf_cls := K_BipCoinConf; b_slip44_sym := [83; 79; 76; 65; 78; 65]; b_coin_idx := 501; b_testnet := false;
        b_def_path := [48; 39]; b_key_pub := [4; 136; 178; 30]; b_key_priv := [4; 136; 173; 228]; b_alt_key := None; b_wif := None;
        b_bip32 := B32_Slip10Ed25519; b_curve := Cv_ED25519;
        b_addr := {| a_cls := A_Sol; a_keys := []; a_call_keys := []; a_params := APNone |};
        b_alt_addr := None |} |};
  (* Bip44 STAFI -> Stafi: Stafi, FIS *)
  {| c_family := FBip44; c_member := [83; 84; 65; 70; 73]; c_value := 71; c_conf_attr := [83; 116; 97; 102; 105];
     c_cc := [83; 116; 97; 102; 105]; c_cc_refs := [[83; 116; 97; 102; 105]]; c_name := [83; 116; 97; 102; 105]; c_abbr := [70; 73; 83];
     c_body := CBip
     {| b_conf_cls := K_BipCoinConf; b_slip44_sym := [65; 84; 79; 77]; b_coin_idx := 118; b_testnet := false;
        b_def_path := [48; 39; 47; 48; 47; 48]; b_key_pub := [4; 136; 178; 30]; b_key_priv := [4; 136; 173; 228]; b_alt_key := None; b_wif := None;
        b_bip32 := B32_Slip10Secp256k1; b_curve := Cv_SECP256K1;
        b_addr := {| a_cls := A_Atom; a_keys := [[104; 114; 112]]; a_call_keys := []; a_params := APHrp [115; 116; 97; 102; 105] |};
        b_alt_addr := None |} |};
  (* Bip44 STELLAR -> Stellar: Stellar, XLM *)
  {| c_family := FBip44; c_member := [83; 84; 69; 76; 76; 65; 82]; c_value := 72; c_conf_attr := [83; 116; 101; 108; 108; 97; 114];
     c_cc := [83; 116; 101; 108; 108; 97; 114]; c_cc_refs := [[83; 116; 101; 108; 108; 97; 114]]; c_name := [83; 116; 101; 108; 108; 97; 114]; c_abbr := [88; 76; 77];
     c_body := CBip
     {| b_conf_cls := K_BipCoinConf; b_slip44_sym := [83; 84; 69; 76; 76; 65; 82]; b_coin_idx := 148; b_testnet := false;
        b_def_path := [48; 39]; b_key_pub := [4; 136; 178; 30]; b_key_priv := [4; 136; 173; 228]; b_alt_key := None; b_wif := None;
        b_bip32 := B32_Slip10Ed25519; b_curve := Cv_ED25519;
        b_addr := {| a_cls := A_Xlm; a_keys := [[97; 100; 100; 114; 95; 116; 121; 112; 101]]; a_call_keys := []; a_params := APXlm 48 |};
        b_alt_addr := None |} |};
  (* Bip44 SUI -> Sui: Sui, SUI *)
  {| c_family := FBip44; c_member := [83; 85; 73]; c_value := 73; c_conf_attr := [83; 117; 105];
     c_cc := [83; 117; 105]; c_cc_refs := [[83; 117; 105]]; c_name := [83; 117; 105]; c_abbr := [83; 85; 73];
     c_body := CBip
     {| b_conf_cls := K_BipCoinConf; b_slip44_sym := [83; 85; 73]; b_coin_idx := 784; b_testnet := false;
        b_def_path := [48; 39; 47; 48; 39; 47; 48; 39]; b_key_pub := [4; 136; 178; 30]; b_key_priv := [4; 136; 173; 228]; b_alt_key := None; b_wif := None;
        b_bip32 := B32_Slip10Ed25519; b_curve := Cv_ED25519;
        b_addr := {| a_cls := A_Sui; a_keys := []; a_call_keys := []; a_params := APNone |};
        b_alt_addr := None |} |};
  (* Bip44 TERRA -> Terra: Terra, LUNA *)
  {| c_family := FBip44; c_member := [84; 69; 82; 82; 65]; c_value := 74; c_conf_attr := [84; 101; 114; 114; 97];
     c_cc := [84; 101; 114; 114; 97]; c_cc_refs := [[84; 101; 114; 114; 97]]; c_name := [84; 101; 114; 114; 97]; c_abbr := [76; 85; 78; 65];
     c_body := CBip
     {| b_conf_cls := K_BipCoinConf; b_slip44_sym := [84; 69; 82; 82; 65]; b_coin_idx := 330; b_testnet := false;
        b_def_path := [48; 39; 47; 48; 47; 48]; b_key_pub := [4; 136; 178; 30]; b_key_priv := [4; 136; 173; 228]; b_alt_key := None; b_wif := None;
        b_bip32 := B32_Slip10Secp256k1; b_curve := Cv_SECP256K1;
        b_addr := {| a_cls := A_Atom; a_keys := [[104; 114; 112]]; a_call_keys := []; a_params := APHrp [116; 101; 114; 114; 97] |};
        b_alt_addr := None |} |};
  (* Bip44 TEZOS -> Tezos: Tezos, XTZ *)
  {| c_family := FBip44; c_member := [84; 69; 90; 79; 83]; c_value := 75; c_conf_attr := [84; 101; 122; 111; 115];
     c_cc := [84; 101; 122; 111; 115]; c_cc_refs := [[84; 101; 122; 111; 115]]; c_name := [84; 101; 122; 111; 115]; c_abbr := [88; 84; 90];
     c_body := CBip
     {| b_conf_cls := K_BipCoinConf; b_slip44_sym := [84; 69; 90; 79; 83]; b_coin_idx := 1729; b_testnet := false;
        b_def_path := [48; 39; 47; 48; 39]; b_key_pub := [4; 136; 178; 30]; b_key_priv := [4; 136; 173; 228]; b_alt_key := None; b_wif := None;
        b_bip32 := B32_Slip10Ed25519; b_curve := Cv_ED25519;
        b_addr := {| a_cls := A_Xtz; a_keys := [[112; 114; 101; 102; 105; 120]]; a_call_keys := []; a_params := APXtz [6; 161; 159] |};
        b_alt_addr := None |} |};
  (* Bip44 THETA -> Theta: Theta Network, THETA *)
  {| c_family := FBip44; c_member := [84; 72; 69; 84; 65]; c_value := 76; c_conf_attr := [84; 104; 101; 116; 97];
     c_cc := [84; 104; 101; 116; 97]; c_cc_refs := [[84; 104; 101; 116; 97]]; c_name := [84; 104; 101; 116; 97; 32; 78; 101; 116; 119; 111; 114; 107]; c_abbr := [84; 72; 69; 84; 65];
     c_body := CBip
     {| b_conf_cls := K_BipCoinConf; b_slip44_sym := [84; 72; 69; 84; 65]; b_coin_idx := 500; b_testnet := false;
        b_def_path := [48; 39; 47; 48; 47; 48]; b_key_pub := [4; 136; 178; 30]; b_key_priv := [4; 136; 173; 228]; b_alt_key := None; b_wif := None;
        b_bip32 := B32_Slip10Secp256k1; b_curve := Cv_SECP256K1;
        b_addr := {| a_cls := A_Eth; a_keys := []; a_call_keys := []; a_params := APNone |};
        b_alt_addr := None |} |};
  (* Bip44 TRON -> Tron: Tron, TRX *)
  {| c_family := FBip44; c_member := [84; 82; 79; 78]; c_value := 77; c_conf_attr := [84; 114; 111; 110];
     c_cc := [84; 114; 111; 110]; c_cc_refs := [[84; 114; 111; 110]]; c_name := [84; 114; 111; 110]; c_abbr := [84; 82; 88];
     c_body := CBip
     {| b_conf_cls := K_BipCoinConf; b_slip44_sym := [84; 82; 79; 78]; b_coin_idx := 195; b_testnet := false;
        b_def_path := [48; 39; 47; 48; 47; 48]; b_key_pub := [4; 136; 178; 30]; b_key_priv := [4; 136; 173; 228]; b_alt_key := None; b_wif := None;
        b_bip32 := B32_Slip10Secp256k1; b_curve := Cv_SECP256K1;
        b_addr := {| a_cls := A_Trx; a_keys := []; a_call_keys := []; a_params := APNone |};
        b_alt_addr := None |} |};
  (* Bip44 VECHAIN -> VeChain: VeChain, VET *)
  {| c_family := FBip44; c_member := [86; 69; 67; 72; 65; 73; 78]; c_value := 78; c_conf_attr := [86; 101; 67; 104; 97; 105; 110];
     c_cc := [86; 101; 67; 104; 97; 105; 110]; c_cc_refs := [[86; 101; 67; 104; 97; 105; 110]]; c_name := [86; 101; 67; 104; 97; 105; 110]; c_abbr := [86; 69; 84];
     c_body := CBip
     {| b_conf_cls := K_BipCoinConf; b_slip44_sym := [86; 69; 67; 72; 65; 73; 78]; b_coin_idx := 818; b_testnet := false;
        b_def_path := [48; 39; 47; 48; 47; 48]; b_key_pub := [4; 136; 178; 30]; b_key_priv := [4; 136; 173; 228]; b_alt_key := None; b_wif := None;
        b_bip32 := B32_Slip10Secp256k1; b_curve := Cv_SECP256K1;
        b_addr := {| a_cls := A_Eth; a_keys := []; a_call_keys := []; a_params := APNone |};
        b_alt_addr := None |} |};
  (* Bip44 VERGE -> Verge: Verge, XVG *)
  {| c_family := FBip44; c_member := [86; 69; 82; 71; 69]; c_value := 79; c_conf_attr := [86; 101; 114; 103; 101];
     c_cc := [86; 101; 114; 103; 101]; c_cc_refs := [[86; 101; 114; 103; 101]]; c_name := [86; 101; 114; 103; 101]; c_abbr := [88; 86; 71];
     c_body := CBip
     {| b_conf_cls := K_BipCoinConf; b_slip44_sym := [86; 69; 82; 71; 69]; b_coin_idx := 77; b_testnet := false;
        b_def_path := [48; 39; 47; 48; 47; 48]; b_key_pub := [4; 136; 178; 30]; b_key_priv := [4; 136; 173; 228]; b_alt_key := None; b_wif := (Some [158]);
        b_bip32 := B32_Slip10Secp256k1; b_curve := Cv_SECP256K1;
        b_addr := {| a_cls := A_P2PKH; a_keys := [[110; 101; 116; 95; 118; 101; 114]]; a_call_keys := []; a_params := APNetVer [30] |};
        b_alt_addr := None |} |};
  (* Bip44 ZCASH -> ZcashMainNet: Zcash, ZEC *)
  {| c_family := FBip44; c_member := [90; 67; 65; 83; 72]; c_value := 80; c_conf_attr := [90; 99; 97; 115; 104; 77; 97; 105; 110; 78; 101; 116];
     c_cc := [90; 99; 97; 115; 104; 77; 97; 105; 110; 78; 101; 116]; c_cc_refs := [[90; 99; 97; 115; 104; 77; 97; 105; 110; 78; 101; 116]]; c_name := [90; 99; 97; 115; 104]; c_abbr := [90; 69; 67];
     c_body := CBip
     {| b_conf_cls := K_BipCoinConf; b_slip44_sym := [90; 67; 65; 83; 72]; b_coin_idx := 133; b_testnet := false;
        b_def_path := [48; 39; 47; 48; 47; 48]; b_key_pub := [4; 136; 178; 30]; b_key_priv := [4; 136; 173; 228]; b_alt_key := None; b_wif := (Some [128]);
        b_bip32 := B32_Slip10Secp256k1; b_curve := Cv_SECP256K1;
        b_addr := {| a_cls := A_P2PKH; a_keys := [[110; 101; 116; 95; 118; 101; 114]]; a_call_keys := []; a_params := APNetVer [28; 184] |};
        b_alt_addr := None |} |};
  (* Bip44 ZILLIQA -> Zilliqa: Zilliqa, ZIL *)
  {| c_family := FBip44; c_member := [90; 73; 76; 76; 73; 81; 65]; c_value := 81; c_conf_attr := [90; 105; 108; 108; 105; 113; 97];
     c_cc := [90; 105; 108; 108; 105; 113; 97]; c_cc_refs := [[90; 105; 108; 108; 105; 113; 97]]; c_name := [90; 105; 108; 108; 105; 113; 97]; c_abbr := [90; 73; 76];
     c_body := CBip
     {| b_conf_cls := K_BipCoinConf; b_slip44_sym := [90; 73; 76; 76; 73; 81; 65]; b_coin_idx := 313; b_testnet := false;
        b_def_path := [48; 39; 47; 48; 47; 48]; b_key_pub := [4; 136; 178; 30]; b_key_priv := [4; 136; 173; 228]; b_alt_key := None; b_wif := None;
        b_bip32 := B32_Slip10Secp256k1; b_curve := Cv_SECP256K1;
        b_addr := {| a_cls := A_Zil; a_keys := []; a_call_keys := []; a_params := APNone |};
        b_alt_addr := None |} |};
  (* Bip44 BITCOIN_CASH_TESTNET -> BitcoinCashTestNet: Bitcoin Cash TestNet, BCH *)
  {| c_family := FBip44; c_member := [66; 73; 84; 67; 79; 73; 78; 95; 67; 65; 83; 72; 95; 84; 69; 83; 84; 78; 69; 84]; c_value := 82; c_conf_attr := [66; 105; 116; 99; 111; 105; 110; 67; 97; 115; 104; 84; 101; 115; 116; 78; 101; 116];
     c_cc := [66; 105; 116; 99; 111; 105; 110; 67; 97; 115; 104; 84; 101; 115; 116; 78; 101; 116]; c_cc_refs := [[66; 105; 116; 99; 111; 105; 110; 67; 97; 115; 104; 84; 101; 115; 116; 78; 101; 116]]; c_name := [66; 105; 116; 99; 111; 105; 110; 32; 67; 97; 115; 104; 32; 84; 101; 115; 116; 78; 101; 116]; c_abbr := [66; 67; 72];
     c_body := CBip
     {| b_conf_cls := K_BipBitcoinCashConf; b_slip44_sym := [84; 69; 83; 84; 78; 69; 84]; b_coin_idx := 1; b_testnet := true;
        b_def_path := [48; 39; 47; 48; 47; 48]; b_key_pub := [4; 53; 135; 207]; b_key_priv := [4; 53; 131; 148]; b_alt_key := None; b_wif := (Some [239]);
        b_bip32 := B32_Slip10Secp256k1; b_curve := Cv_SECP256K1;
        b_addr := {| a_cls := A_BchP2PKH; a_keys := [[110; 101; 116; 95; 118; 101; 114]; [104; 114; 112]]; a_call_keys := []; a_params := APBch [98; 99; 104; 116; 101; 115; 116] [0] |};
        b_alt_addr := (Some {| a_cls := A_P2PKH; a_keys := [[110; 101; 116; 95; 118; 101; 114]]; a_call_keys := []; a_params := APNetVer [111] |}) |} |};
  (* Bip44 BITCOIN_CASH_SLP_TESTNET -> BitcoinCashSlpTestNet: Bitcoin Cash SLP TestNet, SLP *)
  {| c_family := FBip44; c_member := [66; 73; 84; 67; 79; 73; 78; 95; 67; 65; 83; 72; 95; 83; 76; 80; 95; 84; 69; 83; 84; 78; 69; 84]; c_value := 83; c_conf_attr := [66; 105; 116; 99; 111; 105; 110; 67; 97; 115; 104; 83; 108; 112; 84; 101; 115; 116; 78; 101; 116];
     c_cc := [66; 105; 116; 99; 111; 105; 110; 67; 97; 115; 104; 83; 108; 112; 84; 101; 115; 116; 78; 101; 116]; c_cc_refs := [[66; 105; 116; 99; 111; 105; 110; 67; 97; 115; 104; 83; 108; 112; 84; 101; 115; 116; 78; 101; 116]]; c_name := [66; 105; 116; 99; 111; 105; 110; 32; 67; 97; 115; 104; 32; 83; 76; 80; 32; 84; 101; 115; 116; 78; 101; 116]; c_abbr := [83; 76; 80];
     c_body := CBip
     {| b_conf_cls := K_BipBitcoinCashConf; b_slip44_sym := [84; 69; 83; 84; 78; 69; 84]; b_coin_idx := 1; b_testnet := true;
        b_def_path := [48; 39; 47; 48; 47; 48]; b_key_pub := [4; 53; 135; 207]; b_key_priv := [4; 53; 131; 148]; b_alt_key := None; b_wif := (Some [239]);
        b_bip32 := B32_Slip10Secp256k1; b_curve := Cv_SECP256K1;
        b_addr := {| a_cls := A_BchP2PKH; a_keys := [[110; 101; 116; 95; 118; 101; 114]; [104; 114; 112]]; a_call_keys := []; a_params := APBch [115; 108; 112; 116; 101; 115; 116] [0] |};
        b_alt_addr := (Some {| a_cls := A_P2PKH; a_keys := [[110; 101; 116; 95; 118; 101; 114]]; a_call_keys := []; a_params := APNetVer [111] |}) |} |};
  (* Bip44 BITCOIN_SV_TESTNET -> BitcoinSvTestNet: BitcoinSV TestNet, BSV *)
  {| c_family := FBip44; c_member := [66; 73; 84; 67; 79; 73; 78; 95; 83; 86; 95; 84; 69; 83; 84; 78; 69; 84]; c_value := 84; c_conf_attr := [66; 105; 116; 99; 111; 105; 110; 83; 118; 84; 101; 115; 116; 78; 101; 116];
     c_cc := [66; 105; 116; 99; 111; 105; 110; 83; 118; 84; 101; 115; 116; 78; 101; 116]; c_cc_refs := [[66; 105; 116; 99; 111; 105; 110; 83; 118; 84; 101; 115; 116; 78; 101; 116]]; c_name := [66; 105; 116; 99; 111; 105; 110; 83; 86; 32; 84; 101; 115; 116; 78; 101; 116]; c_abbr := [66; 83; 86];
     c_body := CBip
     {| b_conf_cls := K_BipCoinConf; b_slip44_sym := [84; 69; 83; 84; 78; 69; 84]; b_coin_idx := 1; b_testnet := true;
        b_def_path := [48; 39; 47; 48; 47; 48]; b_key_pub := [4; 53; 135; 207]; b_key_priv := [4; 53; 131; 148]; b_alt_key := None; b_wif := (Some [239]);
        b_bip32 := B32_Slip10Secp256k1; b_curve := Cv_SECP256K1;
        b_addr := {| a_cls := A_P2PKH; a_keys := [[110; 101; 116; 95; 118; 101; 114]]; a_call_keys := []; a_params := APNetVer [111] |};
        b_alt_addr := None |} |};
  (* Bip44 BITCOIN_REGTEST -> BitcoinRegTest: Bitcoin RegTest, BTC *)
  {| c_family := FBip44; c_member := [66; 73; 84; 67; 79; 73; 78; 95; 82; 69; 71; 84; 69; 83; 84]; c_value := 85; c_conf_attr := [66; 105; 116; 99; 111; 105; 110; 82; 101; 103; 84; 101; 115; 116];
     c_cc := [66; 105; 116; 99; 111; 105; 110; 82; 101; 103; 84; 101; 115; 116]; c_cc_refs := [[66; 105; 116; 99; 111; 105; 110; 82; 101; 103; 84; 101; 115; 116]]; c_name := [66; 105; 116; 99; 111; 105; 110; 32; 82; 101; 103; 84; 101; 115; 116]; c_abbr := [66; 84; 67];
     c_body := CBip
     {| b_conf_cls := K_BipCoinConf; b_slip44_sym := [84; 69; 83; 84; 78; 69; 84]; b_coin_idx := 1; b_testnet := true;
        b_def_path := [48; 39; 47; 48; 47; 48]; b_key_pub := [4; 53; 135; 207]; b_key_priv := [4; 53; 131; 148]; b_alt_key := None; b_wif := (Some [239]);
        b_bip32 := B32_Slip10Secp256k1; b_curve := Cv_SECP256K1;
        b_addr := {| a_cls := A_P2PKH; a_keys := [[110; 101; 116; 95; 118; 101; 114]]; a_call_keys := []; a_params := APNetVer [111] |};
        b_alt_addr := None |} |};
  (* Bip44 BITCOIN_TESTNET -> BitcoinTestNet: Bitcoin TestNet, BTC *)
  {| c_family := FBip44; c_member := [66; 73; 84; 67; 79; 73; 78; 95; 84; 69; 83; 84; 78; 69; 84]; c_value := 86; c_conf_attr := [66; 105; 116; 99; 111; 105; 110; 84; 101; 115; 116; 78; 101; 116];
     c_cc := [66; 105; 116; 99; 111; 105; 110; 84; 101; 115; 116; 78; 101; 116]; c_cc_refs := [[66; 105; 116; 99; 111; 105; 110; 84; 101; 115; 116; 78; 101; 116]]; c_name := [66; 105; 116; 99; 111; 105; 110; 32; 84; 101; 115; 116; 78; 101; 116]; c_abbr := [66; 84; 67];
     c_body := CBip
     {| b_conf_cls := K_BipCoinConf; b_slip44_sym := [84; 69; 83; 84; 78; 69; 84]; b_coin_idx := 1; b_testnet := true;
        b_def_path := [48; 39; 47; 48; 47; 48]; b_key_pub := [4; 53; 135; 207]; b_key_priv := [4; 53; 131; 148]; b_alt_key := None; b_wif := (Some [239]);
        b_bip32 := B32_Slip10Secp256k1; b_curve := Cv_SECP256K1;
        b_addr := {| a_cls := A_P2PKH; a_keys := [[110; 101; 116; 95; 118; 101; 114]]; a_call_keys := []; a_params := APNetVer [111] |};
        b_alt_addr := None |} |};
  (* Bip44 DASH_TESTNET -> DashTestNet: Dash TestNet, DASH *)
  {| c_family := FBip44; c_member := [68; 65; 83; 72; 95; 84; 69; 83; 84; 78; 69; 84]; c_value := 87; c_conf_attr := [68; 97; 115; 104; 84; 101; 115; 116; 78; 101; 116];
     c_cc := [68; 97; 115; 104; 84; 101; 115; 116; 78; 101; 116]; c_cc_refs := [[68; 97; 115; 104; 84; 101; 115; 116; 78; 101; 116]]; c_name := [68; 97; 115; 104; 32; 84; 101; 115; 116; 78; 101; 116]; c_abbr := [68; 65; 83; 72];
     c_body := CBip
     {| b_conf_cls := K_BipCoinConf; b_slip44_sym := [84; 69; 83; 84; 78; 69; 84]; b_coin_idx := 1; b_testnet := true;
        b_def_path := [48; 39; 47; 48; 47; 48]; b_key_pub := [4; 53; 135; 207]; b_key_priv := [4; 53; 131; 148]; b_alt_key := None; b_wif := (Some [239]);
        b_bip32 := B32_Slip10Secp256k1; b_curve := Cv_SECP256K1;
        b_addr := {| a_cls := A_P2PKH; a_keys := [[110; 101; 116; 95; 118; 101; 114]]; a_call_keys := []; a_params := APNetVer [140] |};
        b_alt_addr := None |} |};
  (* Bip44 DOGECOIN_TESTNET -> DogecoinTestNet: Dogecoin TestNet, DOGE *)
  {| c_family := FBip44; c_member := [68; 79; 71; 69; 67; 79; 73; 78; 95; 84; 69; 83; 84; 78; 69; 84]; c_value := 88; c_conf_attr := [68; 111; 103; 101; 99; 111; 105; 110; 84; 101; 115; 116; 78; 101; 116];
     c_cc := [68; 111; 103; 101; 99; 111; 105; 110; 84; 101; 115; 116; 78; 101; 116]; c_cc_refs := [[68; 111; 103; 101; 99; 111; 105; 110; 84; 101; 115; 116; 78; 101; 116]]; c_name := [68; 111; 103; 101; 99; 111; 105; 110; 32; 84; 101; 115; 116; 78; 101; 116]; c_abbr := [68; 79; 71; 69];
     c_body := CBip
     {| b_conf_cls := K_BipCoinConf; b_slip44_sym := [84; 69; 83; 84; 78; 69; 84]; b_coin_idx := 1; b_testnet := true;
        b_def_path := [48; 39; 47; 48; 47; 48]; b_key_pub := [4; 50; 169; 168]; b_key_priv := [4; 50; 162; 67]; b_alt_key := None; b_wif := (Some [241]);
        b_bip32 := B32_Slip10Secp256k1; b_curve := Cv_SECP256K1;
        b_addr := {| a_cls := A_P2PKH; a_keys := [[110; 101; 116; 95; 118; 101; 114]]; a_call_keys := []; a_params := APNetVer [113] |};
        b_alt_addr := None |} |};
  (* Bip44 ECASH_TESTNET -> EcashTestNet: eCash TestNet, XEC *)
  {| c_family := FBip44; c_member := [69; 67; 65; 83; 72; 95; 84; 69; 83; 84; 78; 69; 84]; c_value := 89; c_conf_attr := [69; 99; 97; 115; 104; 84; 101; 115; 116; 78; 101; 116];
     c_cc := [69; 99; 97; 115; 104; 84; 101; 115; 116; 78; 101; 116]; c_cc_refs := [[69; 99; 97; 115; 104; 84; 101; 115; 116; 78; 101; 116]]; c_name := [101; 67; 97; 115; 104; 32; 84; 101; 115; 116; 78; 101; 116]; c_abbr := [88; 69; 67];
     c_body := CBip
     {| b_conf_cls := K_BipBitcoinCashConf; b_slip44_sym := [84; 69; 83; 84; 78; 69; 84]; b_coin_idx := 1; b_testnet := true;
        b_def_path := [48; 39; 47; 48; 47; 48]; b_key_pub := [4; 53; 135; 207]; b_key_priv := [4; 53; 131; 148]; b_alt_key := None; b_wif := (Some [239]);
        b_bip32 := B32_Slip10Secp256k1; b_curve := Cv_SECP256K1;
        b_addr := {| a_cls := A_BchP2PKH; a_keys := [[110; 101; 116; 95; 118; 101; 114]; [104; 114; 112]]; a_call_keys := []; a_params := APBch [101; 99; 116; 101; 115; 116] [0] |};
        b_alt_addr := (Some {| a_cls := A_P2PKH; a_keys := [[110; 101; 116; 95; 118; 101; 114]]; a_call_keys := []; a_params := APNetVer [111] |}) |} |};
  (* Bip44 ERGO_TESTNET -> ErgoTestNet: Ergo TestNet, ERGO *)
  {| c_family := FBip44; c_member := [69; 82; 71; 79; 95; 84; 69; 83; 84; 78; 69; 84]; c_value := 90; c_conf_attr := [69; 114; 103; 111; 84; 101; 115; 116; 78; 101; 116];
     c_cc := [69; 114; 103; 111; 84; 101; 115; 116; 78; 101; 116]; c_cc_refs := [[69; 114; 103; 111; 84; 101; 115; 116; 78; 101; 116]]; c_name := [69; 114; 103; 111; 32; 84; 101; 115; 116; 78; 101; 116]; c_abbr := [69; 82; 71; 79];
     c_body := CBip
     {| b_conf_cls := K_BipCoinConf; b_slip44_sym := [69; 82; 71; 79]; b_coin_idx := 429; b_testnet := true;
        b_def_path := [48; 39; 47; 48; 47; 48]; b_key_pub := [4; 53; 135; 207]; b_key_priv := [4; 53; 131; 148]; b_alt_key := None; b_wif := None;
        b_bip32 := B32_Slip10Secp256k1; b_curve := Cv_SECP256K1;
        b_addr := {| a_cls := A_ErgoP2PKH; a_keys := [[110; 101; 116; 95; 116; 121; 112; 101]]; a_call_keys := []; a_params := APErgo 16 |};
        b_alt_addr := None |} |};
  (* Bip44 LITECOIN_TESTNET -> LitecoinTestNet: Litecoin TestNet, LTC *)
  {| c_family := FBip44; c_member := [76; 73; 84; 69; 67; 79; 73; 78; 95; 84; 69; 83; 84; 78; 69; 84]; c_value := 91; c_conf_attr := [76; 105; 116; 101; 99; 111; 105; 110; 84; 101; 115; 116; 78; 101; 116];
     c_cc := [76; 105; 116; 101; 99; 111; 105; 110; 84; 101; 115; 116; 78; 101; 116]; c_cc_refs := [[76; 105; 116; 101; 99; 111; 105; 110; 84; 101; 115; 116; 78; 101; 116]]; c_name := [76; 105; 116; 101; 99; 111; 105; 110; 32; 84; 101; 115; 116; 78; 101; 116]; c_abbr := [76; 84; 67];
     c_body := CBip
     {| b_conf_cls := K_BipLitecoinConf; b_slip44_sym := [84; 69; 83; 84; 78; 69; 84]; b_coin_idx := 1; b_testnet := true;
        b_def_path := [48; 39; 47; 48; 47; 48]; b_key_pub := [4; 54; 246; 225]; b_key_priv := [4; 54; 239; 125]; b_alt_key := (Some ([4; 54; 246; 225], [4; 54; 239; 125])); b_wif := (Some [239]);
        b_bip32 := B32_Slip10Secp256k1; b_curve := Cv_SECP256K1;
        b_addr := {| a_cls := A_P2PKH; a_keys := [[110; 101; 116; 95; 118; 101; 114]]; a_call_keys := []; a_params := APNetVer [111] |};
        b_alt_addr := (Some {| a_cls := A_P2PKH; a_keys := [[110; 101; 116; 95; 118; 101; 114]]; a_call_keys := []; a_params := APNetVer [111] |}) |} |};
  (* Bip44 ZCASH_TESTNET -> ZcashTestNet: Zcash TestNet, ZEC *)
  {| c_family := FBip44; c_member := [90; 67; 65; 83; 72; 95; 84; 69; 83; 84; 78; 69; 84]; c_value := 92; c_conf_attr := [90; 99; 97; 115; 104; 84; 101; 115; 116; 78; 101; 116];
     c_cc := [90; 99; 97; 115; 104; 84; 101; 115; 116; 78; 101; 116]; c_cc_refs := [[90; 99; 97; 115; 104; 84; 101; 115; 116; 78; 101; 116]]; c_name := [90; 99; 97; 115; 104; 32; 84; 101; 115; 116; 78; 101; 116]; c_abbr := [90; 69; 67];
     c_body := CBip
     {| b_conf_cls := K_BipCoinConf; b_slip44_sym := [84; 69; 83; 84; 78; 69; 84]; b_coin_idx := 1; b_testnet := true;
        b_def_path := [48; 39; 47; 48; 47; 48]; b_key_pub := [4; 53; 135; 207]; b_key_priv := [4; 53; 131; 148]; b_alt_key := None; b_wif := (Some [239]);
        b_bip32 := B32_Slip10Secp256k1; b_curve := Cv_SECP256K1;
        b_addr := {| a_cls := A_P2PKH; a_keys := [[110; 101; 116; 95; 118; 101; 114]]; a_call_keys := []; a_params := APNetVer [29; 37] |};
        b_alt_addr := None |} |};
  (* Bip49 BITCOIN -> BitcoinMainNet: Bitcoin, BTC *)
  {| c_family := FBip49; c_member := [66; 73; 84; 67; 79; 73; 78]; c_value := 1; c_conf_attr := [66; 105; 116; 99; 111; 105; 110; 77; 97; 105; 110; 78; 101; 116];
     c_cc := [66; 105; 116; 99; 111; 105; 110; 77; 97; 105; 110; 78; 101; 116]; c_cc_refs := [[66; 105; 116; 99; 111; 105; 110; 77; 97; 105; 110; 78; 101; 116]]; c_name := [66; 105; 116; 99; 111; 105; 110]; c_abbr := [66; 84; 67];
     c_body := CBip
     {| b_conf_cls := K_BipCoinConf; b_slip44_sym := [66; 73; 84; 67; 79; 73; 78]; b_coin_idx := 0; b_testnet := false;
        b_def_path := [48; 39; 47; 48; 47; 48]; b_key_pub := [4; 157; 124; 178]; b_key_priv := [4; 157; 120; 120]; b_alt_key := None; b_wif := (Some [128]);
        b_bip32 := B32_Slip10Secp256k1; b_curve := Cv_SECP256K1;
        b_addr := {| a_cls := A_P2SH; a_keys := [[110; 101; 116; 95; 118; 101; 114]]; a_call_keys := []; a_params := APNetVer [5] |};
        b_alt_addr := None |} |};
  (* Bip49 BITCOIN_CASH -> BitcoinCashMainNet: Bitcoin Cash, BCH *)
  {| c_family := FBip49; c_member := [66; 73; 84; 67; 79; 73; 78; 95; 67; 65; 83; 72]; c_value := 2; c_conf_attr := [66; 105; 116; 99; 111; 105; 110; 67; 97; 115; 104; 77; 97; 105; 110; 78; 101; 116];
     c_cc := [66; 105; 116; 99; 111; 105; 110; 67; 97; 115; 104; 77; 97; 105; 110; 78; 101; 116]; c_cc_refs := [[66; 105; 116; 99; 111; 105; 110; 67; 97; 115; 104; 77; 97; 105; 110; 78; 101; 116]]; c_name := [66; 105; 116; 99; 111; 105; 110; 32; 67; 97; 115; 104]; c_abbr := [66; 67; 72];
     c_body := CBip
     {| b_conf_cls := K_BipBitcoinCashConf; b_slip44_sym := [66; 73; 84; 67; 79; 73; 78; 95; 67; 65; 83; 72]; b_coin_idx := 145; b_testnet := false;
        b_def_path := [48; 39; 47; 48; 47; 48]; b_key_pub := [4; 157; 124; 178]; b_key_priv := [4; 157; 120; 120]; b_alt_key := None; b_wif := (Some [128]);
        b_bip32 := B32_Slip10Secp256k1; b_curve := Cv_SECP256K1;
        b_addr := {| a_cls := A_BchP2SH; a_keys := [[110; 101; 116; 95; 118; 101; 114]; [104; 114; 112]]; a_call_keys := []; a_params := APBch [98; 105; 116; 99; 111; 105; 110; 99; 97; 115; 104] [8] |};
        b_alt_addr := (Some {| a_cls := A_P2SH; a_keys := [[110; 101; 116; 95; 118; 101; 114]]; a_call_keys := []; a_params := APNetVer [5] |}) |} |};
  (* Bip49 BITCOIN_CASH_SLP -> BitcoinCashSlpMainNet: Bitcoin Cash SLP, SLP *)
  {| c_family := FBip49; c_member := [66; 73; 84; 67; 79; 73; 78; 95; 67; 65; 83; 72; 95; 83; 76; 80]; c_value := 3; c_conf_attr := [66; 105; 116; 99; 111; 105; 110; 67; 97; 115; 104; 83; 108; 112; 77; 97; 105; 110; 78; 101; 116];
     c_cc := [66; 105; 116; 99; 111; 105; 110; 67; 97; 115; 104; 83; 108; 112; 77; 97; 105; 110; 78; 101; 116]; c_cc_refs := [[66; 105; 116; 99; 111; 105; 110; 67; 97; 115; 104; 83; 108; 112; 77; 97; 105; 110; 78; 101; 116]]; c_name := [66; 105; 116; 99; 111; 105; 110; 32; 67; 97; 115; 104; 32; 83; 76; 80]; c_abbr := [83; 76; 80];
     c_body := CBip
     {| b_conf_cls := K_BipBitcoinCashConf; b_slip44_sym := [66; 73; 84; 67; 79; 73; 78; 95; 67; 65; 83; 72]; b_coin_idx := 145; b_testnet := false;
        b_def_path := [48; 39; 47; 48; 47; 48]; b_key_pub := [4; 157; 124; 178]; b_key_priv := [4; 157; 120; 120]; b_alt_key := None; b_wif := (Some [128]);
        b_bip32 := B32_Slip10Secp256k1; b_curve := Cv_SECP256K1;
        b_addr := {| a_cls := A_BchP2SH; a_keys := [[110; 101; 116; 95; 118; 101; 114]; [104; 114; 112]]; a_call_keys := []; a_params := APBch [115; 105; 109; 112; 108; 101; 108; 101; 100; 103; 101; 114] [8] |};
        b_alt_addr := (Some {| a_cls := A_P2SH; a_keys := [[110; 101; 116; 95; 118; 101; 114]]; a_call_keys := []; a_params := APNetVer [5] |}) |} |};
  (* Bip49 BITCOIN_SV -> BitcoinSvMainNet: BitcoinSV, BSV *)
  {| c_family := FBip49; c_member := [66; 73; 84; 67; 79; 73; 78; 95; 83; 86]; c_value := 4; c_conf_attr := [66; 105; 116; 99; 111; 105; 110; 83; 118; 77; 97; 105; 110; 78; 101; 116];
     c_cc := [66; 105; 116; 99; 111; 105; 110; 83; 118; 77; 97; 105; 110; 78; 101; 116]; c_cc_refs := [[66; 105; 116; 99; 111; 105; 110; 83; 118; 77; 97; 105; 110; 78; 101; 116]]; c_name := [66; 105; 116; 99; 111; 105; 110; 83; 86]; c_abbr := [66; 83; 86];
     c_body := CBip
     {| b_conf_cls := K_BipCoinConf; b_slip44_sym := [66; 73; 84; 67; 79; 73; 78; 95; 83; 86]; b_coin_idx := 236; b_testnet := false;
        b_def_path := [48; 39; 47; 48; 47; 48]; b_key_pub := [4; 157; 124; 178]; b_key_priv := [4; 157; 120; 120]; b_alt_key := None; b_wif := (Some [128]);
        b_bip32 := B32_Slip10Secp256k1; b_curve := Cv_SECP256K1;
        b_addr := {| a_cls := A_P2SH; a_keys := [[110; 101; 116; 95; 118; 101; 114]]; a_call_keys := []; a_params := APNetVer [5] |};
        b_alt_addr := None |} |};
  (* Bip49 DASH -> DashMainNet: Dash, DASH *)
  {| c_family := FBip49; c_member := [68; 65; 83; 72]; c_value := 5; c_conf_attr := [68; 97; 115; 104; 77; 97; 105; 110; 78; 101; 116];
     c_cc := [68; 97; 115; 104; 77; 97; 105; 110; 78; 101; 116]; c_cc_refs := [[68; 97; 115; 104; 77; 97; 105; 110; 78; 101; 116]]; c_name := [68; 97; 115; 104]; c_abbr := [68; 65; 83; 72];
     c_body := CBip
     {| b_conf_cls := K_BipCoinConf; b_slip44_sym := [68; 65; 83; 72]; b_coin_idx := 5; b_testnet := false;
        b_def_path := [48; 39; 47; 48; 47; 48]; b_key_pub := [4; 157; 124; 178]; b_key_priv := [4; 157; 120; 120]; b_alt_key := None; b_wif := (Some [204]);
        b_bip32 := B32_Slip10Secp256k1; b_curve := Cv_SECP256K1;
        b_addr := {| a_cls := A_P2SH; a_keys := [[110; 101; 116; 95; 118; 101; 114]]; a_call_keys := []; a_params := APNetVer [16] |};
        b_alt_addr := None |} |};
  (* Bip49 DOGECOIN -> DogecoinMainNet: Dogecoin, DOGE *)
  {| c_family := FBip49; c_member := [68; 79; 71; 69; 67; 79; 73; 78]; c_value := 6; c_conf_attr := [68; 111; 103; 101; 99; 111; 105; 110; 77; 97; 105; 110; 78; 101; 116];
     c_cc := [68; 111; 103; 101; 99; 111; 105; 110; 77; 97; 105; 110; 78; 101; 116]; c_cc_refs := [[68; 111; 103; 101; 99; 111; 105; 110; 77; 97; 105; 110; 78; 101; 116]]; c_name := [68; 111; 103; 101; 99; 111; 105; 110]; c_abbr := [68; 79; 71; 69];
     c_body := CBip
     {| b_conf_cls := K_BipCoinConf; b_slip44_sym := [68; 79; 71; 69; 67; 79; 73; 78]; b_coin_idx := 3; b_testnet := false;
        b_def_path := [48; 39; 47; 48; 47; 48]; b_key_pub := [2; 250; 202; 253]; b_key_priv := [2; 250; 195; 152]; b_alt_key := None; b_wif := (Some [158]);
        b_bip32 := B32_Slip10Secp256k1; b_curve := Cv_SECP256K1;
        b_addr := {| a_cls := A_P2SH; a_keys := [[110; 101; 116; 95; 118; 101; 114]]; a_call_keys := []; a_params := APNetVer [22] |};
        b_alt_addr := None |} |};
  (* Bip49 ECASH -> EcashMainNet: eCash, XEC *)
  {| c_family := FBip49; c_member := [69; 67; 65; 83; 72]; c_value := 7; c_conf_attr := [69; 99; 97; 115; 104; 77; 97; 105; 110; 78; 101; 116];
     c_cc := [69; 99; 97; 115; 104; 77; 97; 105; 110; 78; 101; 116]; c_cc_refs := [[69; 99; 97; 115; 104; 77; 97; 105; 110; 78; 101; 116]]; c_name := [101; 67; 97; 115; 104]; c_abbr := [88; 69; 67];
     c_body := CBip
     {| b_conf_cls := K_BipBitcoinCashConf; b_slip44_sym := [66; 73; 84; 67; 79; 73; 78; 95; 67; 65; 83; 72]; b_coin_idx := 145; b_testnet := false;
        b_def_path := [48; 39; 47; 48; 47; 48]; b_key_pub := [4; 157; 124; 178]; b_key_priv := [4; 157; 120; 120]; b_alt_key := None; b_wif := (Some [128]);
        b_bip32 := B32_Slip10Secp256k1; b_curve := Cv_SECP256K1;
        b_addr := {| a_cls := A_BchP2SH; a_keys := [[110; 101; 116; 95; 118; 101; 114]; [104; 114; 112]]; a_call_keys := []; a_params := APBch [101; 99; 97; 115; 104] [8] |};
        b_alt_addr := (Some {| a_cls := A_P2SH; a_keys := [[110; 101; 116; 95; 118; 101; 114]]; a_call_keys := []; a_params := APNetVer [5] |}) |} |};
  (* Bip49 LITECOIN -> LitecoinMainNet: Litecoin, LTC *)
  {| c_family := FBip49; c_member := [76; 73; 84; 69; 67; 79; 73; 78]; c_value := 8; c_conf_attr := [76; 105; 116; 101; 99; 111; 105; 110; 77; 97; 105; 110; 78; 101; 116];
     c_cc := [76; 105; 116; 101; 99; 111; 105; 110; 77; 97; 105; 110; 78; 101; 116]; c_cc_refs := [[76; 105; 116; 101; 99; 111; 105; 110; 77; 97; 105; 110; 78; 101; 116]]; c_name := [76; 105; 116; 101; 99; 111; 105; 110]; c_abbr := [76; 84; 67];
     c_body := CBip
     {| b_conf_cls := K_BipLitecoinConf; b_slip44_sym := [76; 73; 84; 69; 67; 79; 73; 78]; b_coin_idx := 2; b_testnet := false;
        b_def_path := [48; 39; 47; 48; 47; 48]; b_key_pub := [4; 157; 124; 178]; b_key_priv := [4; 157; 120; 120]; b_alt_key := (Some ([1; 178; 110; 246], [1; 178; 103; 146])); b_wif := (Some [176]);
        b_bip32 := B32_Slip10Secp256k1; b_curve := Cv_SECP256K1;
        b_addr := {| a_cls := A_P2SH; a_keys := [[110; 101; 116; 95; 118; 101; 114]]; a_call_keys := []; a_params := APNetVer [50] |};
        b_alt_addr := (Some {| a_cls := A_P2SH; a_keys := [[110; 101; 116; 95; 118; 101; 114]]; a_call_keys := []; a_params := APNetVer [5] |}) |} |};
  (* Bip49 ZCASH -> ZcashMainNet: Zcash, ZEC *)
  {| c_family := FBip49; c_member := [90; 67; 65; 83; 72]; c_value := 9; c_conf_attr := [90; 99; 97; 115; 104; 77; 97; 105; 110; 78; 101; 116];
     c_cc := [90; 99; 97; 115; 104; 77; 97; 105; 110; 78; 101; 116]; c_cc_refs := [[90; 99; 97; 115; 104; 77; 97; 105; 110; 78; 101; 116]]; c_name := [90; 99; 97; 115; 104]; c_abbr := [90; 69; 67];
     c_body := CBip
     {| b_conf_cls := K_BipCoinConf; b_slip44_sym := [90; 67; 65; 83; 72]; b_coin_idx := 133; b_testnet := false;
        b_def_path := [48; 39; 47; 48; 47; 48]; b_key_pub := [4; 157; 124; 178]; b_key_priv := [4; 157; 120; 120]; b_alt_key := None; b_wif := (Some [128]);
        b_bip32 := B32_Slip10Secp256k1; b_curve := Cv_SECP256K1;
        b_addr := {| a_cls := A_P2SH; a_keys := [[110; 101; 116; 95; 118; 101; 114]]; a_call_keys := []; a_params := APNetVer [28; 189] |};
        b_alt_addr := None |} |};
  (* Bip49 BITCOIN_CASH_TESTNET -> BitcoinCashTestNet: Bitcoin Cash TestNet, BCH *)
  {| c_family := FBip49; c_member := [66; 73; 84; 67; 79; 73; 78; 95; 67; 65; 83; 72; 95; 84; 69; 83; 84; 78; 69; 84]; c_value := 10; c_conf_attr := [66; 105; 116; 99; 111; 105; 110; 67; 97; 115; 104; 84; 101; 115; 116; 78; 101; 116];
     c_cc := [66; 105; 116; 99; 111; 105; 110; 67; 97; 115; 104; 84; 101; 115; 116; 78; 101; 116]; c_cc_refs := [[66; 105; 116; 99; 111; 105; 110; 67; 97; 115; 104; 84; 101; 115; 116; 78; 101; 116]]; c_name := [66; 105; 116; 99; 111; 105; 110; 32; 67; 97; 115; 104; 32; 84; 101; 115; 116; 78; 101; 116]; c_abbr := [66; 67; 72];
     c_body := CBip
     {| b_conf_cls := K_BipBitcoinCashConf; b_slip44_sym := [84; 69; 83; 84; 78; 69; 84]; b_coin_idx := 1; b_testnet := true;
        b_def_path := [48; 39; 47; 48; 47; 48]; b_key_pub := [4; 74; 82; 98]; b_key_priv := [4; 74; 78; 40]; b_alt_key := None; b_wif := (Some [239]);
        b_bip32 := B32_Slip10Secp256k1; b_curve := Cv_SECP256K1;
        b_addr := {| a_cls := A_BchP2SH; a_keys := [[110; 101; 116; 95; 118; 101; 114]; [104; 114; 112]]; a_call_keys := []; a_params := APBch [98; 99; 104; 116; 101; 115; 116] [8] |};
        b_alt_addr := (Some {| a_cls := A_P2SH; a_keys := [[110; 101; 116; 95; 118; 101; 114]]; a_call_keys := []; a_params := APNetVer [196] |}) |} |};
  (* Bip49 BITCOIN_CASH_SLP_TESTNET -> BitcoinCashSlpTestNet: Bitcoin Cash SLP TestNet, SLP *)
  {| c_family := FBip49; c_member := [66; 73; 84; 67; 79; 73; 78; 95; 67; 65; 83; 72; 95; 83; 76; 80; 95; 84; 69; 83; 84; 78; 69; 84]; c_value := 11; c_conf_attr := [66; 105; 116; 99; 111; 105; 110; 67; 97; 115; 104; 83; 108; 112; 84; 101; 115; 116; 78; 101; 116];
     c_cc := [66; 105; 116; 99; 111; 105; 110; 67; 97; 115; 104; 83; 108; 112; 84; 101; 115; 116; 78; 101; 116]; c_cc_refs := [[66; 105; 116; 99; 111; 105; 110; 67; 97; 115; 104; 83; 108; 112; 84; 101; 115; 116; 78; 101; 116]]; c_name := [66; 105; 116; 99; 111; 105; 110; 32; 67; 97; 115; 104; 32; 83; 76; 80; 32; 84; 101; 115; 116; 78; 101; 116]; c_abbr := [83; 76; 80];
     c_body := CBip
     {| b_conf_cls := K_BipBitcoinCashConf; b_slip44_sym := [84; 69; 83; 84; 78; 69; 84]; b_coin_idx := 1; b_testnet := true;
        b_def_path := [48; 39; 47; 48; 47; 48]; b_key_pub := [4; 74; 82; 98]; b_key_priv := [4; 74; 78; 40]; b_alt_key := None; b_wif := (Some [239]);
        b_bip32 := B32_Slip10Secp256k1; b_curve := Cv_SECP256K1;
        b_addr := {| a_cls := A_BchP2SH; a_keys := [[110; 101; 116; 95; 118; 101; 114]; [104; 114; 112]]; a_call_keys := []; a_params := APBch [115; 108; 112; 116; 101; 115; 116] [8] |};
        b_alt_addr := (Some {| a_cls := A_P2SH; a_keys := [[110; 101; 116; 95; 118; 101; 114]]; a_call_keys := []; a_params := APNetVer [196] |}) |} |};
  (* Bip49 BITCOIN_SV_TESTNET -> BitcoinSvTestNet: BitcoinSV TestNet, BSV *)
  {| c_family := FBip49; c_member := [66; 73; 84; 67; 79; 73; 78; 95; 83; 86; 95; 84; 69; 83; 84; 78; 69; 84]; c_value := 12; c_conf_attr := [66; 105; 116; 99; 111; 105; 110; 83; 118; 84; 101; 115; 116; 78; 101; 116];
     c_cc := [66; 105; 116; 99; 111; 105; 110; 83; 118; 84; 101; 115; 116; 78; 101; 116]; c_cc_refs := [[66; 105; 116; 99; 111; 105; 110; 83; 118; 84; 101; 115; 116; 78; 101; 116]]; c_name := [66; 105; 116; 99; 111; 105; 110; 83; 86; 32; 84; 101; 115; 116; 78; 101; 116]; c_abbr := [66; 83; 86];
     c_body := CBip
     {| b_conf_cls := K_BipCoinConf; b_slip44_sym := [84; 69; 83; 84; 78; 69; 84]; b_coin_idx := 1; b_testnet := true;
        b_def_path := [48; 39; 47; 48; 47; 48]; b_key_pub := [4; 74; 82; 98]; b_key_priv := [4; 74; 78; 40]; b_alt_key := None; b_wif := (Some [239]);
        b_bip32 := B32_Slip10Secp256k1; b_curve := Cv_SECP256K1;
        b_addr := {| a_cls := A_P2SH; a_keys := [[110; 101; 116; 95; 118; 101; 114]]; a_call_keys := []; a_params := APNetVer [196] |};
        b_alt_addr := None |} |};
  (* Bip49 BITCOIN_REGTEST -> BitcoinRegTest: Bitcoin RegTest, BTC *)
  {| c_family := FBip49; c_member := [66; 73; 84; 67; 79; 73; 78; 95; 82; 69; 71; 84; 69; 83; 84]; c_value := 13; c_conf_attr := [66; 105; 116; 99; 111; 105; 110; 82; 101; 103; 84; 101; 115; 116];
     c_cc := [66; 105; 116; 99; 111; 105; 110; 82; 101; 103; 84; 101; 115; 116]; c_cc_refs := [[66; 105; 116; 99; 111; 105; 110; 82; 101; 103; 84; 101; 115; 116]]; c_name := [66; 105; 116; 99; 111; 105; 110; 32; 82; 101; 103; 84; 101; 115; 116]; c_abbr := [66; 84; 67];
     c_body := CBip
     {| b_conf_cls := K_BipCoinConf; b_slip44_sym := [84; 69; 83; 84; 78; 69; 84]; b_coin_idx := 1; b_testnet := true;
        b_def_path := [48; 39; 47; 48; 47; 48]; b_key_pub := [4; 74; 82; 98]; b_key_priv := [4; 74; 78; 40]; b_alt_key := None; b_wif := (Some [239]);
        b_bip32 := B32_Slip10Secp256k1; b_curve := Cv_SECP256K1;
        b_addr := {| a_cls := A_P2SH; a_keys := [[110; 101; 116; 95; 118; 101; 114]]; a_call_keys := []; a_params := APNetVer [196] |};
        b_alt_addr := None |} |};
  (* Bip49 BITCOIN_TESTNET -> BitcoinTestNet: Bitcoin TestNet, BTC *)
  {| c_family := FBip49; c_member := [66; 73; 84; 67; 79; 73; 78; 95; 84; 69; 83; 84; 78; 69; 84]; c_value := 14; c_conf_attr := [66; 105; 116; 99; 111; 105; 110; 84; 101; 115; 116; 78; 101; 116];
     c_cc := [66; 105; 116; 99; 111; 105; 110; 84; 101; 115; 116; 78; 101; 116]; c_cc_refs := [[66; 105; 116; 99; 111; 105; 110; 84; 101; 115; 116; 78; 101; 116]]; c_name := [66; 105; 116; 99; 111; 105; 110; 32; 84; 101; 115; 116; 78; 101; 116]; c_abbr := [66; 84; 67];
     c_body := CBip
     {| b_conf_cls := K_BipCoinConf; b_slip44_sym := [84; 69; 83; 84; 78; 69; 84]; b_coin_idx := 1; b_testnet := true;
        b_def_path := [48; 39; 47; 48; 47; 48]; b_key_pub := [4; 74; 82; 98]; b_key_priv := [4; 74; 78; 40]; b_alt_key := None; b_wif := (Some [239]);
        b_bip32 := B32_Slip10Secp256k1; b_curve := Cv_SECP256K1;
        b_addr := {| a_cls := A_P2SH; a_keys := [[110; 101; 116; 95; 118; 101; 114]]; a_call_keys := []; a_params := APNetVer [196] |};
        b_alt_addr := None |} |};
  (* Bip49 DASH_TESTNET -> DashTestNet: Dash TestNet, DASH *)
  {| c_family := FBip49; c_member := [68; 65; 83; 72; 95; 84; 69; 83; 84; 78; 69; 84]; c_value := 15; c_conf_attr := [68; 97; 115; 104; 84; 101; 115; 116; 78; 101; 116];
     c_cc := [68; 97; 115; 104; 84; 101; 115; 116; 78; 101; 116]; c_cc_refs := [[68; 97; 115; 104; 84; 101; 115; 116; 78; 101; 116]]; c_name := [68; 97; 115; 104; 32; 84; 101; 115; 116; 78; 101; 116]; c_abbr := [68; 65; 83; 72];
     c_body := CBip
     {| b_conf_cls := K_BipCoinConf; b_slip44_sym := [84; 69; 83; 84; 78; 69; 84]; b_coin_idx := 1; b_testnet := true;
        b_def_path := [48; 39; 47; 48; 47; 48]; b_key_pub := [4; 74; 82; 98]; b_key_priv := [4; 74; 78; 40]; b_alt_key := None; b_wif := (Some [239]);
        b_bip32 := B32_Slip10Secp256k1; b_curve := Cv_SECP256K1;
        b_addr := {| a_cls := A_P2SH; a_keys := [[110; 101; 116; 95; 118; 101; 114]]; a_call_keys := []; a_params := APNetVer [19] |};
        b_alt_addr := None |} |};
  (* Bip49 DOGECOIN_TESTNET -> DogecoinTestNet: Dogecoin TestNet, DOGE *)
  {| c_family := FBip49; c_member := [68; 79; 71; 69; 67; 79; 73; 78; 95; 84; 69; 83; 84; 78; 69; 84]; c_value := 16; c_conf_attr := [68; 111; 103; 101; 99; 111; 105; 110; 84; 101; 115; 116; 78; 101; 116];
     c_cc := [68; 111; 103; 101; 99; 111; 105; 110; 84; 101; 115; 116; 78; 101; 116]; c_cc_refs := [[68; 111; 103; 101; 99; 111; 105; 110; 84; 101; 115; 116; 78; 101; 116]]; c_name := [68; 111; 103; 101; 99; 111; 105; 110; 32; 84; 101; 115; 116; 78; 101; 116]; c_abbr := [68; 79; 71; 69];
     c_body := CBip
     {| b_conf_cls := K_BipCoinConf; b_slip44_sym := [84; 69; 83; 84; 78; 69; 84]; b_coin_idx := 1; b_testnet := true;
        b_def_path := [48; 39; 47; 48; 47; 48]; b_key_pub := [4; 50; 169; 168]; b_key_priv := [4; 50; 162; 67]; b_alt_key := None; b_wif := (Some [241]);
        b_bip32 := B32_Slip10Secp256k1; b_curve := Cv_SECP256K1;
        b_addr := {| a_cls := A_P2SH; a_keys := [[110; 101; 116; 95; 118; 101; 114]]; a_call_keys := []; a_params := APNetVer [196] |};
        b_alt_addr := None |} |};
  (* Bip49 ECASH_TESTNET -> EcashTestNet: eCash TestNet, XEC *)
  {| c_family := FBip49; c_member := [69; 67; 65; 83; 72; 95; 84; 69; 83; 84; 78; 69; 84]; c_value := 17; c_conf_attr := [69; 99; 97; 115; 104; 84; 101; 115; 116; 78; 101; 116];
     c_cc := [69; 99; 97; 115; 104; 84; 101; 115; 116; 78; 101; 116]; c_cc_refs := [[69; 99; 97; 115; 104; 84; 101; 115; 116; 78; 101; 116]]; c_name := [101; 67; 97; 115; 104; 32; 84; 101; 115; 116; 78; 101; 116]; c_abbr := [88; 69; 67];
     c_body := CBip
     {| b_conf_cls := K_BipBitcoinCashConf; b_slip44_sym := [84; 69; 83; 84; 78; 69; 84]; b_coin_idx := 1; b_testnet := true;
        b_def_path := [48; 39; 47; 48; 47; 48]; b_key_pub := [4; 74; 82; 98]; b_key_priv := [4; 74; 78; 40]; b_alt_key := None; b_wif := (Some [239]);
        b_bip32 := B32_Slip10Secp256k1; b_curve := Cv_SECP256K1;
        b_addr := {| a_cls := A_BchP2SH; a_keys := [[110; 101; 116; 95; 118; 101; 114]; [104; 114; 112]]; a_call_keys := []; a_params := APBch [101; 99; 116; 101; 115; 116] [8] |};
        b_alt_addr := (Some {| a_cls := A_P2SH; a_keys := [[110; 101; 116; 95; 118; 101; 114]]; a_call_keys := []; a_params := APNetVer [196] |}) |} |};
  (* Bip49 LITECOIN_TESTNET -> LitecoinTestNet: Litecoin TestNet, LTC *)
  {| c_family := FBip49; c_member := [76; 73; 84; 69; 67; 79; 73; 78; 95; 84; 69; 83; 84; 78; 69; 84]; c_value := 18; c_conf_attr := [76; 105; 116; 101; 99; 111; 105; 110; 84; 101; 115; 116; 78; 101; 116];
     c_cc := [76; 105; 116; 101; 99; 111; 105; 110; 84; 101; 115; 116; 78; 101; 116]; c_cc_refs := [[76; 105; 116; 101; 99; 111; 105; 110; 84; 101; 115; 116; 78; 101; 116]]; c_name := [76; 105; 116; 101; 99; 111; 105; 110; 32; 84; 101; 115; 116; 78; 101; 116]; c_abbr := [76; 84; 67];
     c_body := CBip
     {| b_conf_cls := K_BipLitecoinConf; b_slip44_sym := [84; 69; 83; 84; 78; 69; 84]; b_coin_idx := 1; b_testnet := true;
        b_def_path := [48; 39; 47; 48; 47; 48]; b_key_pub := [4; 54; 246; 225]; b_key_priv := [4; 54; 239; 125]; b_alt_key := (Some ([4; 54; 246; 225], [4; 54; 239; 125])); b_wif := (Some [239]);
        b_bip32 := B32_Slip10Secp256k1; b_curve := Cv_SECP256K1;
        b_addr := {| a_cls := A_P2SH; a_keys := [[110; 101; 116; 95; 118; 101; 114]]; a_call_keys := []; a_params := APNetVer [58] |};
        b_alt_addr := (Some {| a_cls := A_P2SH; a_keys := [[110; 101; 116; 95; 118; 101; 114]]; a_call_keys := []; a_params := APNetVer [196] |}) |} |};
  (* Bip49 ZCASH_TESTNET -> ZcashTestNet: Zcash TestNet, ZEC *)
  {| c_family := FBip49; c_member := [90; 67; 65; 83; 72; 95; 84; 69; 83; 84; 78; 69; 84]; c_value := 19; c_conf_attr := [90; 99; 97; 115; 104; 84; 101; 115; 116; 78; 101; 116];
     c_cc := [90; 99; 97; 115; 104; 84; 101; 115; 116; 78; 101; 116]; c_cc_refs := [[90; 99; 97; 115; 104; 84; 101; 115; 116; 78; 101; 116]]; c_name := [90; 99; 97; 115; 104; 32; 84; 101; 115; 116; 78; 101; 116]; c_abbr := [90; 69; 67];
     c_body := CBip
     {| b_conf_cls := K_BipCoinConf; b_slip44_sym := [84; 69; 83; 84; 78; 69; 84]; b_coin_idx := 1; b_testnet := true;
        b_def_path := [48; 39; 47; 48; 47; 48]; b_key_pub := [4; 74; 82; 98]; b_key_priv := [4; 74; 78; 40]; b_alt_key := None; b_wif := (Some [239]);
        b_bip32 := B32_Slip10Secp256k1; b_curve := Cv_SECP256K1;
        b_addr := {| a_cls := A_P2SH; a_keys := [[110; 101; 116; 95; 118; 101; 114]]; a_call_keys := []; a_params := APNetVer [28; 186] |};
        b_alt_addr := None |} |};
  (* Bip84 BITCOIN -> BitcoinMainNet: Bitcoin, BTC *)
  {| c_family := FBip84; c_member := [66; 73; 84; 67; 79; 73; 78]; c_value := 1; c_conf_attr := [66; 105; 116; 99; 111; 105; 110; 77; 97; 105; 110; 78; 101; 116];
     c_cc := [66; 105; 116; 99; 111; 105; 110; 77; 97; 105; 110; 78; 101; 116]; c_cc_refs := [[66; 105; 116; 99; 111; 105; 110; 77; 97; 105; 110; 78; 101; 116]]; c_name := [66; 105; 116; 99; 111; 105; 110]; c_abbr := [66; 84; 67];
     c_body := CBip
     {| b_conf_cls := K_BipCoinConf; b_slip44_sym := [66; 73; 84; 67; 79; 73; 78]; b_coin_idx := 0; b_testnet := false;
        b_def_path := [48; 39; 47; 48; 47; 48]; b_key_pub := [4; 178; 71; 70]; b_key_priv := [4; 178; 67; 12]; b_alt_key := None; b_wif := (Some [128]);
        b_bip32 := B32_Slip10Secp256k1; b_curve := Cv_SECP256K1;
        b_addr := {| a_cls := A_P2WPKH; a_keys := [[104; 114; 112]]; a_call_keys := []; a_params := APHrp [98; 99] |};
        b_alt_addr := None |} |};
  (* Bip84 LITECOIN -> LitecoinMainNet: Litecoin, LTC *)
  {| c_family := FBip84; c_member := [76; 73; 84; 69; 67; 79; 73; 78]; c_value := 2; c_conf_attr := [76; 105; 116; 101; 99; 111; 105; 110; 77; 97; 105; 110; 78; 101; 116];
     c_cc := [76; 105; 116; 101; 99; 111; 105; 110; 77; 97; 105; 110; 78; 101; 116]; c_cc_refs := [[76; 105; 116; 101; 99; 111; 105; 110; 77; 97; 105; 110; 78; 101; 116]]; c_name := [76; 105; 116; 101; 99; 111; 105; 110]; c_abbr := [76; 84; 67];
     c_body := CBip
     {| b_conf_cls := K_BipCoinConf; b_slip44_sym := [76; 73; 84; 69; 67; 79; 73; 78]; b_coin_idx := 2; b_testnet := false;
        b_def_path := [48; 39; 47; 48; 47; 48]; b_key_pub := [4; 178; 71; 70]; b_key_priv := [4; 178; 67; 12]; b_alt_key := None; b_wif := (Some [176]);
        b_bip32 := B32_Slip10Secp256k1; b_curve := Cv_SECP256K1;
        b_addr := {| a_cls := A_P2WPKH; a_keys := [[104; 114; 112]]; a_call_keys := []; a_params := APHrp [108; 116; 99] |};
        b_alt_addr := None |} |};
  (* Bip84 BITCOIN_REGTEST -> BitcoinRegTest: Bitcoin RegTest, BTC *)
  {| c_family := FBip84; c_member := [66; 73; 84; 67; 79; 73; 78; 95; 82; 69; 71; 84; 69; 83; 84]; c_value := 3; c_conf_attr := [66; 105; 116; 99; 111; 105; 110; 82; 101; 103; 84; 101; 115; 116];
     c_cc := [66; 105; 116; 99; 111; 105; 110; 82; 101; 103; 84; 101; 115; 116]; c_cc_refs := [[66; 105; 116; 99; 111; 105; 110; 82; 101; 103; 84; 101; 115; 116]]; c_name := [66; 105; 116; 99; 111; 105; 110; 32; 82; 101; 103; 84; 101; 115; 116]; c_abbr := [66; 84; 67];
     c_body := CBip
     {| b_conf_cls := K_BipCoinConf; b_slip44_sym := [84; 69; 83; 84; 78; 69; 84]; b_coin_idx := 1; b_testnet := true;
        b_def_path := [48; 39; 47; 48; 47; 48]; b_key_pub := [4; 95; 28; 246]; b_key_priv := [4; 95; 24; 188]; b_alt_key := None; b_wif := (Some [239]);
        b_bip32 := B32_Slip10Secp256k1; b_curve := Cv_SECP256K1;
        b_addr := {| a_cls := A_P2WPKH; a_keys := [[104; 114; 112]]; a_call_keys := []; a_params := APHrp [98; 99; 114; 116] |};
        b_alt_addr := None |} |};
  (* Bip84 BITCOIN_TESTNET -> BitcoinTestNet: Bitcoin TestNet, BTC *)
  {| c_family := FBip84; c_member := [66; 73; 84; 67; 79; 73; 78; 95; 84; 69; 83; 84; 78; 69; 84]; c_value := 4; c_conf_attr := [66; 105; 116; 99; 111; 105; 110; 84; 101; 115; 116; 78; 101; 116];
     c_cc := [66; 105; 116; 99; 111; 105; 110; 84; 101; 115; 116; 78; 101; 116]; c_cc_refs := [[66; 105; 116; 99; 111; 105; 110; 84; 101; 115; 116; 78; 101; 116]]; c_name := [66; 105; 116; 99; 111; 105; 110; 32; 84; 101; 115; 116; 78; 101; 116]; c_abbr := [66; 84; 67];
     c_body := CBip
     {| b_conf_cls := K_BipCoinConf; b_slip44_sym := [84; 69; 83; 84; 78; 69; 84]; b_coin_idx := 1; b_testnet := true;
        b_def_path := [48; 39; 47; 48; 47; 48]; b_key_pub := [4; 95; 28; 246]; b_key_priv := [4; 95; 24; 188]; b_alt_key := None; b_wif := (Some [239]);
        b_bip32 := B32_Slip10Secp256k1; b_curve := Cv_SECP256K1;
        b_addr := {| a_cls := A_P2WPKH; a_keys := [[104; 114; 112]]; a_call_keys := []; a_params := APHrp [116; 98] |};
        b_alt_addr := None |} |};
  (* Bip84 LITECOIN_TESTNET -> LitecoinTestNet: Litecoin TestNet, LTC *)
  {| c_family := FBip84; c_member := [76; 73; 84; 69; 67; 79; 73; 78; 95; 84; 69; 83; 84; 78; 69; 84]; c_value := 5; c_conf_attr := [76; 105; 116; 101; 99; 111; 105; 110; 84; 101; 115; 116; 78; 101; 116];
     c_cc := [76; 105; 116; 101; 99; 111; 105; 110; 84; 101; 115; 116; 78; 101; 116]; c_cc_refs := [[76; 105; 116; 101; 99; 111; 105; 110; 84; 101; 115; 116; 78; 101; 116]]; c_name := [76; 105; 116; 101; 99; 111; 105; 110; 32; 84; 101; 115; 116; 78; 101; 116]; c_abbr := [76; 84; 67];
     c_body := CBip
     {| b_conf_cls := K_BipCoinConf; b_slip44_sym := [84; 69; 83; 84; 78; 69; 84]; b_coin_idx := 1; b_testnet := true;
        b_def_path := [48; 39; 47; 48; 47; 48]; b_key_pub := [4; 54; 246; 225]; b_key_priv := [4; 54; 239; 125]; b_alt_key := None; b_wif := (Some [239]);
        b_bip32 := B32_Slip10Secp256k1; b_curve := Cv_SECP256K1;
        b_addr := {| a_cls := A_P2WPKH; a_keys := [[104; 114; 112]]; a_call_keys := []; a_params := APHrp [116; 108; 116; 99] |};
        b_alt_addr := None |} |};
  (* Bip86 BITCOIN -> BitcoinMainNet: Bitcoin, BTC *)
  {| c_family := FBip86; c_member := [66; 73; 84; 67; 79; 73; 78]; c_value := 1; c_conf_attr := [66; 105; 116; 99; 111; 105; 110; 77; 97; 105; 110; 78; 101; 116];
     c_cc := [66; 105; 116; 99; 111; 105; 110; 77; 97; 105; 110; 78; 101; 116]; c_cc_refs := [[66; 105; 116; 99; 111; 105; 110; 77; 97; 105; 110; 78; 101; 116]]; c_name := [66; 105; 116; 99; 111; 105; 110]; c_abbr := [66; 84; 67];
     c_body := CBip
     {| b_conf_cls := K_BipCoinConf; b_slip44_sym := [66; 73; 84; 67; 79; 73; 78]; b_coin_idx := 0; b_testnet := false;
        b_def_path := [48; 39; 47; 48; 47; 48]; b_key_pub := [4; 136; 178; 30]; b_key_priv := [4; 136; 173; 228]; b_alt_key := None; b_wif := (Some [128]);
        b_bip32 := B32_Slip10Secp256k1; b_curve := Cv_SECP256K1;
        b_addr := {| a_cls := A_P2TR; a_keys := [[104; 114; 112]]; a_call_keys := []; a_params := APHrp [98; 99] |};
        b_alt_addr := None |} |};
  (* Bip86 BITCOIN_REGTEST -> BitcoinRegTest: Bitcoin RegTest, BTC *)
  {| c_family := FBip86; c_member := [66; 73; 84; 67; 79; 73; 78; 95; 82; 69; 71; 84; 69; 83; 84]; c_value := 2; c_conf_attr := [66; 105; 116; 99; 111; 105; 110; 82; 101; 103; 84; 101; 115; 116];
     c_cc := [66; 105; 116; 99; 111; 105; 110; 82; 101; 103; 84; 101; 115; 116]; c_cc_refs := [[66; 105; 116; 99; 111; 105; 110; 82; 101; 103; 84; 101; 115; 116]]; c_name := [66; 105; 116; 99; 111; 105; 110; 32; 82; 101; 103; 84; 101; 115; 116]; c_abbr := [66; 84; 67];
     c_body := CBip
     {| b_conf_cls := K_BipCoinConf; b_slip44_sym := [84; 69; 83; 84; 78; 69; 84]; b_coin_idx := 1; b_testnet := true;
        b_def_path := [48; 39; 47; 48; 47; 48]; b_key_pub := [4; 53; 135; 207]; b_key_priv := [4; 53; 131; 148]; b_alt_key := None; b_wif := (Some [239]);
        b_bip32 := B32_Slip10Secp256k1; b_curve := Cv_SECP256K1;
        b_addr := {| a_cls := A_P2TR; a_keys := [[104; 114; 112]]; a_call_keys := []; a_params := APHrp [98; 99; 114; 116] |};
        b_alt_addr := None |} |};
  (* Bip86 BITCOIN_TESTNET -> BitcoinTestNet: Bitcoin TestNet, BTC *)
  {| c_family := FBip86; c_member := [66; 73; 84; 67; 79; 73; 78; 95; 84; 69; 83; 84; 78; 69; 84]; c_value := 3; c_conf_attr := [66; 105; 116; 99; 111; 105; 110; 84; 101; 115; 116; 78; 101; 116];
     c_cc := [66; 105; 116; 99; 111; 105; 110; 84; 101; 115; 116; 78; 101; 116]; c_cc_refs := [[66; 105; 116; 99; 111; 105; 110; 84; 101; 115; 116; 78; 101; 116]]; c_name := [66; 105; 116; 99; 111; 105; 110; 32; 84; 101; 115; 116; 78; 101; 116]; c_abbr := [66; 84; 67];
     c_body := CBip
     {| b_conf_cls := K_BipCoinConf; b_slip44_sym := [84; 69; 83; 84; 78; 69; 84]; b_coin_idx := 1; b_testnet := true;
        b_def_path := [48; 39; 47; 48; 47; 48]; b_key_pub := [4; 53; 135; 207]; b_key_priv := [4; 53; 131; 148]; b_alt_key := None; b_wif := (Some [239]);
        b_bip32 := B32_Slip10Secp256k1; b_curve := Cv_SECP256K1;
        b_addr := {| a_cls := A_P2TR; a_keys := [[104; 114; 112]]; a_call_keys := []; a_params := APHrp [116; 98] |};
        b_alt_addr := None |} |};
  (* Cip1852 CARDANO_ICARUS -> CardanoIcarusMainNet: Cardano, ADA *)
  {| c_family := FCip1852; c_member := [67; 65; 82; 68; 65; 78; 79; 95; 73; 67; 65; 82; 85; 83]; c_value := 1; c_conf_attr := [67; 97; 114; 100; 97; 110; 111; 73; 99; 97; 114; 117; 115; 77; 97; 105; 110; 78; 101; 116];
     c_cc := [67; 97; 114; 100; 97; 110; 111; 77; 97; 105; 110; 78; 101; 116]; c_cc_refs := [[67; 97; 114; 100; 97; 110; 111; 77; 97; 105; 110; 78; 101; 116]]; c_name := [67; 97; 114; 100; 97; 110; 111]; c_abbr := [65; 68; 65];
     c_body := CBip
     {| b_conf_cls := K_BipCoinConf; b_slip44_sym := [67; 65; 82; 68; 65; 78; 79]; b_coin_idx := 1815; b_testnet := false;
        b_def_path := [48; 39; 47; 48; 47; 48]; b_key_pub := [4; 136; 178; 30]; b_key_priv := [15; 67; 49; 212]; b_alt_key := None; b_wif := None;
        b_bip32 := B32_CardanoIcarus; b_curve := Cv_ED25519_KHOLAW;
        b_addr := {| a_cls := A_AdaShelley; a_keys := [[110; 101; 116; 95; 116; 97; 103]]; a_call_keys := []; a_params := APShelley 1 |};
        b_alt_addr := None |} |};
  (* Cip1852 CARDANO_LEDGER -> CardanoLedgerMainNet: Cardano, ADA *)
  {| c_family := FCip1852; c_member := [67; 65; 82; 68; 65; 78; 79; 95; 76; 69; 68; 71; 69; 82]; c_value := 2; c_conf_attr := [67; 97; 114; 100; 97; 110; 111; 76; 101; 100; 103; 101; 114; 77; 97; 105; 110; 78; 101; 116];
     c_cc := [67; 97; 114; 100; 97; 110; 111; 77; 97; 105; 110; 78; 101; 116]; c_cc_refs := [[67; 97; 114; 100; 97; 110; 111; 77; 97; 105; 110; 78; 101; 116]]; c_name := [67; 97; 114; 100; 97; 110; 111]; c_abbr := [65; 68; 65];
     c_body := CBip
     {| b_conf_cls := K_BipCoinConf; b_slip44_sym := [67; 65; 82; 68; 65; 78; 79]; b_coin_idx := 1815; b_testnet := false;
        b_def_path := [48; 39; 47; 48; 47; 48]; b_key_pub := [4; 136; 178; 30]; b_key_priv := [15; 67; 49; 212]; b_alt_key := None; b_wif := None;
        b_bip32 := B32_KholawEd25519; b_curve := Cv_ED25519_KHOLAW;
        b_addr := {| a_cls := A_AdaShelley; a_keys := [[110; 101; 116; 95; 116; 97; 103]]; a_call_keys := []; a_params := APShelley 1 |};
        b_alt_addr := None |} |};
  (* Cip1852 CARDANO_ICARUS_TESTNET -> CardanoIcarusTestNet: Cardano TestNet, ADA *)
  {| c_family := FCip1852; c_member := [67; 65; 82; 68; 65; 78; 79; 95; 73; 67; 65; 82; 85; 83; 95; 84; 69; 83; 84; 78; 69; 84]; c_value := 3; c_conf_attr := [67; 97; 114; 100; 97; 110; 111; 73; 99; 97; 114; 117; 115; 84; 101; 115; 116; 78; 101; 116];
     c_cc := [67; 97; 114; 100; 97; 110; 111; 84; 101; 115; 116; 78; 101; 116]; c_cc_refs := [[67; 97; 114; 100; 97; 110; 111; 84; 101; 115; 116; 78; 101; 116]]; c_name := [67; 97; 114; 100; 97; 110; 111; 32; 84; 101; 115; 116; 78; 101; 116]; c_abbr := [65; 68; 65];
     c_body := CBip
     {| b_conf_cls := K_BipCoinConf; b_slip44_sym := [67; 65; 82; 68; 65; 78; 79]; b_coin_idx := 1815; b_testnet := true;
        b_def_path := [48; 39; 47; 48; 47; 48]; b_key_pub := [4; 53; 135; 207]; b_key_priv := [4; 53; 131; 148]; b_alt_key := None; b_wif := None;
        b_bip32 := B32_CardanoIcarus; b_curve := Cv_ED25519_KHOLAW;
        b_addr := {| a_cls := A_AdaShelley; a_keys := [[110; 101; 116; 95; 116; 97; 103]]; a_call_keys := []; a_params := APShelley 0 |};
        b_alt_addr := None |} |};
  (* Cip1852 CARDANO_LEDGER_TESTNET -> CardanoLedgerTestNet: Cardano TestNet, ADA *)
  {| c_family := FCip1852; c_member := [67; 65; 82; 68; 65; 78; 79; 95; 76; 69; 68; 71; 69; 82; 95; 84; 69; 83; 84; 78; 69; 84]; c_value := 4; c_conf_attr := [67; 97; 114; 100; 97; 110; 111; 76; 101; 100; 103; 101; 114; 84; 101; 115; 116; 78; 101; 116];
     c_cc := [67; 97; 114; 100; 97; 110; 111; 84; 101; 115; 116; 78; 101; 116]; c_cc_refs := [[67; 97; 114; 100; 97; 110; 111; 84; 101; 115; 116; 78; 101; 116]]; c_name := [67; 97; 114; 100; 97; 110; 111; 32; 84; 101; 115; 116; 78; 101; 116]; c_abbr := [65; 68; 65];
     c_body := CBip
     {| b_conf_cls := K_BipCoinConf; b_slip44_sym := [67; 65; 82; 68; 65; 78; 79]; b_coin_idx := 1815; b_testnet := true;
        b_def_path := [48; 39; 47; 48; 47; 48]; b_key_pub := [4; 53; 135; 207]; b_key_priv := [4; 53; 131; 148]; b_alt_key := None; b_wif := None;
        b_bip32 := B32_KholawEd25519; b_curve := Cv_ED25519_KHOLAW;
        b_addr := {| a_cls := A_AdaShelley; a_keys := [[110; 101; 116; 95; 116; 97; 103]]; a_call_keys := []; a_params := APShelley 0 |};
        b_alt_addr := None |} |};
  (* Substrate ACALA -> Acala: Acala, ACA *)
  {| c_family := FSubstrate; c_member := [65; 67; 65; 76; 65]; c_value := 1; c_conf_attr := [65; 99; 97; 108; 97];
     c_cc := [65; 99; 97; 108; 97]; c_cc_refs := [[65; 99; 97; 108; 97]]; c_name := [65; 99; 97; 108; 97]; c_abbr := [65; 67; 65];
     c_body := CSubstrate 10 |};
  (* Substrate BIFROST -> Bifrost: Bifrost, BNC *)
  {| c_family := FSubstrate; c_member := [66; 73; 70; 82; 79; 83; 84]; c_value := 2; c_conf_attr := [66; 105; 102; 114; 111; 115; 116];
     c_cc := [66; 105; 102; 114; 111; 115; 116]; c_cc_refs := [[66; 105; 102; 114; 111; 115; 116]]; c_name := [66; 105; 102; 114; 111; 115; 116]; c_abbr := [66; 78; 67];
     c_body := CSubstrate 6 |};
  (* Substrate CHAINX -> ChainX: ChainX, PCX *)
  {| c_family := FSubstrate; c_member := [67; 72; 65; 73; 78; 88]; c_value := 3; c_conf_attr := [67; 104; 97; 105; 110; 88];
     c_cc := [67; 104; 97; 105; 110; 88]; c_cc_refs := [[67; 104; 97; 105; 110; 88]]; c_name := [67; 104; 97; 105; 110; 88]; c_abbr := [80; 67; 88];
     c_body := CSubstrate 44 |};
  (* Substrate EDGEWARE -> Edgeware: Edgeware, EDG *)
  {| c_family := FSubstrate; c_member := [69; 68; 71; 69; 87; 65; 82; 69]; c_value := 4; c_conf_attr := [69; 100; 103; 101; 119; 97; 114; 101];
     c_cc := [69; 100; 103; 101; 119; 97; 114; 101]; c_cc_refs := [[69; 100; 103; 101; 119; 97; 114; 101]]; c_name := [69; 100; 103; 101; 119; 97; 114; 101]; c_abbr := [69; 68; 71];
     c_body := CSubstrate 7 |};
  (* Substrate GENERIC -> Generic: Generic Substrate,  *)
  {| c_family := FSubstrate; c_member := [71; 69; 78; 69; 82; 73; 67]; c_value := 5; c_conf_attr := [71; 101; 110; 101; 114; 105; 99];
     c_cc := [71; 101; 110; 101; 114; 105; 99; 83; 117; 98; 115; 116; 114; 97; 116; 101]; c_cc_refs := [[71; 101; 110; 101; 114; 105; 99; 83; 117; 98; 115; 116; 114; 97; 116; 101]]; c_name := [71; 101; 110; 101; 114; 105; 99; 32; 83; 117; 98; 115; 116; 114; 97; 116; 101]; c_abbr := [];
     c_body := CSubstrate 42 |};
  (* Substrate KARURA -> Karura: Karura, KAR *)
  {| c_family := FSubstrate; c_member := [75; 65; 82; 85; 82; 65]; c_value := 6; c_conf_attr := [75; 97; 114; 117; 114; 97];
     c_cc := [75; 97; 114; 117; 114; 97]; c_cc_refs := [[75; 97; 114; 117; 114; 97]]; c_name := [75; 97; 114; 117; 114; 97]; c_abbr := [75; 65; 82];
     c_body := CSubstrate 8 |};
  (* Substrate KUSAMA -> Kusama: Kusama, KSM *)
  {| c_family := FSubstrate; c_member := [75; 85; 83; 65; 77; 65]; c_value := 7; c_conf_attr := [75; 117; 115; 97; 109; 97];
     c_cc := [75; 117; 115; 97; 109; 97]; c_cc_refs := [[75; 117; 115; 97; 109; 97]]; c_name := [75; 117; 115; 97; 109; 97]; c_abbr := [75; 83; 77];
     c_body := CSubstrate 2 |};
  (* Substrate MOONBEAM -> Moonbeam: Moonbeam, GLMR *)
  {| c_family := FSubstrate; c_member := [77; 79; 79; 78; 66; 69; 65; 77]; c_value := 8; c_conf_attr := [77; 111; 111; 110; 98; 101; 97; 109];
     c_cc := [77; 111; 111; 110; 98; 101; 97; 109]; c_cc_refs := [[77; 111; 111; 110; 98; 101; 97; 109]]; c_name := [77; 111; 111; 110; 98; 101; 97; 109]; c_abbr := [71; 76; 77; 82];
     c_body := CSubstrate 1284 |};
  (* Substrate MOONRIVER -> Moonriver: Moonriver, MOVR *)
  {| c_family := FSubstrate; c_member := [77; 79; 79; 78; 82; 73; 86; 69; 82]; c_value := 9; c_conf_attr := [77; 111; 111; 110; 114; 105; 118; 101; 114];
     c_cc := [77; 111; 111; 110; 114; 105; 118; 101; 114]; c_cc_refs := [[77; 111; 111; 110; 114; 105; 118; 101; 114]]; c_name := [77; 111; 111; 110; 114; 105; 118; 101; 114]; c_abbr := [77; 79; 86; 82];
     c_body := CSubstrate 1285 |};
  (* Substrate PHALA -> Phala: Phala Network, PHA *)
  {| c_family := FSubstrate; c_member := [80; 72; 65; 76; 65]; c_value := 10; c_conf_attr := [80; 104; 97; 108; 97];
     c_cc := [80; 104; 97; 108; 97]; c_cc_refs := [[80; 104; 97; 108; 97]]; c_name := [80; 104; 97; 108; 97; 32; 78; 101; 116; 119; 111; 114; 107]; c_abbr := [80; 72; 65];
     c_body := CSubstrate 30 |};
  (* Substrate PLASM -> Plasm: Plasm Network, PLM *)
  {| c_family := FSubstrate; c_member := [80; 76; 65; 83; 77]; c_value := 11; c_conf_attr := [80; 108; 97; 115; 109];
     c_cc := [80; 108; 97; 115; 109]; c_cc_refs := [[80; 108; 97; 115; 109]]; c_name := [80; 108; 97; 115; 109; 32; 78; 101; 116; 119; 111; 114; 107]; c_abbr := [80; 76; 77];
     c_body := CSubstrate 5 |};
  (* Substrate POLKADOT -> Polkadot: Polkadot, DOT *)
  {| c_family := FSubstrate; c_member := [80; 79; 76; 75; 65; 68; 79; 84]; c_value := 12; c_conf_attr := [80; 111; 108; 107; 97; 100; 111; 116];
     c_cc := [80; 111; 108; 107; 97; 100; 111; 116]; c_cc_refs := [[80; 111; 108; 107; 97; 100; 111; 116]]; c_name := [80; 111; 108; 107; 97; 100; 111; 116]; c_abbr := [68; 79; 84];
     c_body := CSubstrate 0 |};
  (* Substrate SORA -> Sora: Sora, XOR *)
  {| c_family := FSubstrate; c_member := [83; 79; 82; 65]; c_value := 13; c_conf_attr := [83; 111; 114; 97];
     c_cc := [83; 111; 114; 97]; c_cc_refs := [[83; 111; 114; 97]]; c_name := [83; 111; 114; 97]; c_abbr := [88; 79; 82];
     c_body := CSubstrate 69 |};
  (* Substrate STAFI -> Stafi: Stafi, FIS *)
  {| c_family := FSubstrate; c_member := [83; 84; 65; 70; 73]; c_value := 14; c_conf_attr := [83; 116; 97; 102; 105];
     c_cc := [83; 116; 97; 102; 105]; c_cc_refs := [[83; 116; 97; 102; 105]]; c_name := [83; 116; 97; 102; 105]; c_abbr := [70; 73; 83];
     c_body := CSubstrate 20 |};
  (* Monero MONERO_MAINNET -> MainNet: Monero, XMR *)
  {| c_family := FMonero; c_member := [77; 79; 78; 69; 82; 79; 95; 77; 65; 73; 78; 78; 69; 84]; c_value := 1; c_conf_attr := [77; 97; 105; 110; 78; 101; 116];
     c_cc := [77; 111; 110; 101; 114; 111; 77; 97; 105; 110; 78; 101; 116]; c_cc_refs := [[77; 111; 110; 101; 114; 111; 77; 97; 105; 110; 78; 101; 116]]; c_name := [77; 111; 110; 101; 114; 111]; c_abbr := [88; 77; 82];
     c_body := CMonero [18] [19] [42] |};
  (* Monero MONERO_STAGENET -> StageNet: Monero StageNet, XMR *)
  {| c_family := FMonero; c_member := [77; 79; 78; 69; 82; 79; 95; 83; 84; 65; 71; 69; 78; 69; 84]; c_value := 2; c_conf_attr := [83; 116; 97; 103; 101; 78; 101; 116];
     c_cc := [77; 111; 110; 101; 114; 111; 83; 116; 97; 103; 101; 78; 101; 116]; c_cc_refs := [[77; 111; 110; 101; 114; 111; 83; 116; 97; 103; 101; 78; 101; 116]]; c_name := [77; 111; 110; 101; 114; 111; 32; 83; 116; 97; 103; 101; 78; 101; 116]; c_abbr := [88; 77; 82];
     c_body := CMonero [24] [25] [36] |};
  (* Monero MONERO_TESTNET -> TestNet: Monero TestNet, XMR *)
  {| c_family := FMonero; c_member := [77; 79; 78; 69; 82; 79; 95; 84; 69; 83; 84; 78; 69; 84]; c_value := 3; c_conf_attr := [84; 101; 115; 116; 78; 101; 116];
     c_cc := [77; 111; 110; 101; 114; 111; 84; 101; 115; 116; 78; 101; 116]; c_cc_refs := [[77; 111; 110; 101; 114; 111; 84; 101; 115; 116; 78; 101; 116]]; c_name := [77; 111; 110; 101; 114; 111; 32; 84; 101; 115; 116; 78; 101; 116]; c_abbr := [88; 77; 82];
     c_body := CMonero [53] [54] [63] |}
].

(* Proofs about Model/MnemText.v: when UTF-8 encoding succeeds; a CRC-32 check value. *)
From Coq Require Import NArith Arith List Lia Bool.
From BU Require Import Base.Exn Base.Bytes Model.MnemText Lemmas.MnemWords.
Import ListNotations.
Open Scope N_scope.

(* code points that str.encode("utf-8") accepts: everything but the surrogates *)
Definition cp_okb (c : N) : bool := (c <? 0xD800) || ((0xE000 <=? c) && (c <? 0x110000)).
Definition text_okb (s : list N) : bool := forallb cp_okb s.

Lemma utf8_cp_ok c : cp_okb c = true -> exists b, utf8_cp c = Ok b.
Proof.
  unfold cp_okb, utf8_cp. intros H.
  destruct (N.ltb_spec c 0x80); [eexists; reflexivity|].
  destruct (N.ltb_spec c 0x800); [eexists; reflexivity|].
  destruct (N.ltb_spec c 0x10000).
  - destruct (N.leb_spec 0xD800 c); destruct (N.ltb_spec c 0xE000); simpl; try (eexists; reflexivity).
    exfalso. destruct (N.ltb_spec c 0xD800); [lia|]. destruct (N.leb_spec 0xE000 c); [lia|]. discriminate.
  - destruct (N.ltb_spec c 0x110000); [eexists; reflexivity|].
    exfalso. destruct (N.ltb_spec c 0xD800); [lia|]. simpl in H. rewrite andb_false_r in H. discriminate.
Qed.

Lemma utf8_ok s : text_okb s = true -> exists b, utf8 s = Ok b.
Proof.
  unfold utf8, text_okb. induction s as [|c t IH]; simpl; intros H; [eexists; reflexivity|].
  apply andb_true_iff in H. destruct H as [Hc Ht].
  destruct (utf8_cp_ok c Hc) as [bc ->]. simpl.
  destruct (IH Ht) as [bt E]. destruct (mapM utf8_cp t); simpl in *; [eexists; reflexivity|discriminate].
Qed.

Lemma firstn_In_local {A} k (l : list A) x : In x (firstn k l) -> In x l.
Proof.
  revert l; induction k as [|k IH]; intros [|y t]; simpl; try tauto.
  intros [->|H]; [left; reflexivity|right; apply IH; assumption].
Qed.

Lemma text_okb_app a b : text_okb (a ++ b) = text_okb a && text_okb b.
Proof. unfold text_okb. apply forallb_app. Qed.

Lemma text_okb_firstn k a : text_okb a = true -> text_okb (firstn k a) = true.
Proof.
  unfold text_okb. rewrite !forallb_forall. intros H x Hx. apply H. eapply firstn_In_local; eauto.
Qed.

(* the standard CRC-32 check value: crc32("123456789") = 0xCBF43926 *)
Lemma crc32_check_value : crc32 [49; 50; 51; 52; 53; 54; 55; 56; 57] = 0xCBF43926.
Proof. vm_compute. reflexivity. Qed.

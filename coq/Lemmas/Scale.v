(* Proofs about Model/Scale.v: the SCALE encodings are uniquely decodable (decode . encode = id). *)
From Coq Require Import NArith ZArith Arith List Lia Bool.
From BU Require Import Base.Exn Base.Radix Base.Bytes Model.IntBytes Model.Scale Lemmas.CodecsAux.
From BU Require Lemmas.IntBytes Lemmas.ConvertBits Lemmas.Base58Xmr.
Import ListNotations.
Open Scope N_scope.

(* ---- fixed-width unsigned integers ---- *)
Lemma shiftl1_pow w : (Z.shiftl 1 (Z.of_N (w * 8)) = Z.of_N (256 ^ w))%Z.
Proof.
  rewrite Z.shiftl_1_l. rewrite Lemmas.IntBytes.pow256, N2Z.inj_pow. f_equal. lia.
Qed.

Theorem uint_encode_ok w v : w <> 0 -> v < 256 ^ w ->
  exists b, uint_encode w (Z.of_N v) = Ok b /\ le_to_int b = v /\ length b = N.to_nat w /\ bytes_ok b.
Proof.
  intros Hw Hv. unfold uint_encode. rewrite shiftl1_pow.
  destruct (Z.ltb_spec (Z.of_N v) 0); [lia|]. destruct (Z.ltb_spec (Z.of_N (256 ^ w) - 1) (Z.of_N v)); [lia|].
  cbn [orb]. destruct (Lemmas.IntBytes.to_bytes_fixed v w false Hw Hv) as (b & E & I & L & B).
  exists b. auto.
Qed.

Theorem uint_encode_range w v : (v < 0 \/ Z.of_N (256 ^ w) <= v)%Z -> uint_encode w v = Err ValueError.
Proof.
  intros H. unfold uint_encode. rewrite shiftl1_pow.
  destruct (Z.ltb_spec v 0); [reflexivity|]. destruct (Z.ltb_spec (Z.of_N (256 ^ w) - 1) v); [reflexivity|lia].
Qed.

Theorem uint_decode_encode w v rest : w <> 0 -> v < 256 ^ w ->
  exists b, uint_encode w (Z.of_N v) = Ok b /\ uint_decode (N.to_nat w) (b ++ rest) = Ok (v, rest).
Proof.
  intros Hw Hv. destruct (uint_encode_ok w v Hw Hv) as (b & E & I & L & B). exists b. split; [exact E|].
  unfold uint_decode, take_le. rewrite app_length.
  destruct (Nat.ltb_spec (length b + length rest) (N.to_nat w)); [lia|].
  rewrite (Lemmas.Base58Xmr.firstn_app_exact _ _ _ L), (Lemmas.Base58Xmr.skipn_app_exact _ _ _ L), I. reflexivity.
Qed.

Theorem uint_encode_inj w v1 v2 b : w <> 0 -> v1 < 256 ^ w -> v2 < 256 ^ w ->
  uint_encode w (Z.of_N v1) = Ok b -> uint_encode w (Z.of_N v2) = Ok b -> v1 = v2.
Proof.
  intros Hw H1 H2 E1 E2.
  destruct (uint_encode_ok w v1 Hw H1) as (b1 & F1 & I1 & _). destruct (uint_encode_ok w v2 Hw H2) as (b2 & F2 & I2 & _).
  rewrite E1 in F1. rewrite E2 in F2. assert (b = b1) by (unfold Ok in F1; congruence).
  assert (b = b2) by (unfold Ok in F2; congruence). subst. congruence.
Qed.

Lemma z_tag k : (0 <= k)%Z -> Z.lor (Z.shiftl k 2) 3 = (4 * k + 3)%Z.
Proof. intros H. destruct k as [|p|p]; [reflexivity|reflexivity|lia]. Qed.

(* ---- compact integers ---- *)
Section Compact.
  Variables single_max two_max four_max big_max : N.
  Hypothesis single_def : single_max = 2 ^ 6 - 1.
  Hypothesis two_def : two_max = 2 ^ 14 - 1.
  Hypothesis four_def : four_max = 2 ^ 30 - 1.
  Hypothesis big_def : big_max = 2 ^ 536 - 1.

  Notation compact_encode_N := (compact_encode_N single_max two_max four_max big_max).
  Notation compact_encode := (compact_encode single_max two_max four_max big_max).
  Notation bytes_encode := (bytes_encode single_max two_max four_max big_max).

  Lemma tag_val v m : m < 4 -> N.lor (N.shiftl v 2) m = 4 * v + m.
  Proof. intros H. rewrite (Lemmas.ConvertBits.lor_shift_add v 2 m) by (simpl; lia). change (2 ^ 2) with 4. lia. Qed.

  Lemma hd_mod4 b x : bytes_ok b -> b <> [] -> le_to_int b = x -> (hd 0 b) mod 4 = x mod 4.
  Proof.
    intros _ Hne <-. destruct b as [|b0 r]; [congruence|]. cbn [hd]. unfold le_to_int. cbn [from_le].
    replace (b0 + 256 * from_le 256 r) with (b0 + (64 * from_le 256 r) * 4) by lia.
    rewrite N.mod_add by lia. reflexivity.
  Qed.

  (* fixed-width modes 1 and 2: [w] bytes, tag [m] *)
  Lemma decode_fixed_mode v m w rest : (m = 1 /\ w = 2%nat) \/ (m = 2 /\ w = 4%nat) ->
    4 * v + m < 256 ^ N.of_nat w ->
    exists b, IntBytes.to_bytes (Z.of_N (N.lor (N.shiftl v 2) m)) (N.of_nat w) false = Ok b /\
              compact_decode (b ++ rest) = Ok (v, rest).
  Proof.
    intros Hm Hv. assert (Hm4 : m < 4) by (destruct Hm as [[-> _]|[-> _]]; lia).
    rewrite (tag_val v m Hm4).
    destruct (Lemmas.IntBytes.to_bytes_fixed (4 * v + m) (N.of_nat w) false) as (b & E & I & L & B);
      [destruct Hm as [[_ ->]|[_ ->]]; discriminate|exact Hv|].
    exists b. split; [exact E|]. rewrite Nnat.Nat2N.id in L.
    assert (Hne : b <> []) by (intro Z; subst b; destruct Hm as [[_ ->]|[_ ->]]; discriminate).
    unfold to_integer in I.
    pose proof (hd_mod4 b _ B Hne I) as Hd.
    replace ((4 * v + m) mod 4) with m in Hd
      by (rewrite N.add_comm, N.mul_comm, N.mod_add by lia; symmetry; apply N.mod_small; exact Hm4).
    destruct b as [|b0 r]; [congruence|]. cbn [hd] in Hd.
    cbn [app compact_decode]. rewrite Hd.
    assert (T : take_le w ((b0 :: r) ++ rest) = Ok (4 * v + m, rest)).
    { unfold take_le. rewrite app_length.
      destruct (Nat.ltb_spec (length (b0 :: r) + length rest) w); [lia|].
      rewrite (Lemmas.Base58Xmr.firstn_app_exact _ _ _ L), (Lemmas.Base58Xmr.skipn_app_exact _ _ _ L), I. reflexivity. }
    assert (Q : (4 * v + m) / 4 = v).
    { rewrite N.add_comm, N.mul_comm, N.div_add by lia. rewrite (N.div_small m 4) by exact Hm4. lia. }
    destruct Hm as [[-> ->]|[-> ->]]; cbn [N.eqb Pos.eqb]; change ((b0 :: r) ++ rest) with (b0 :: r ++ rest) in T;
      rewrite T; cbn [bind Ok fst snd]; rewrite Q; reflexivity.
  Qed.

  (* decode (encode v ++ rest) = (v, rest) across all four modes: the encoding is prefix-free *)
  Theorem compact_decode_encode v rest : v <= big_max ->
    exists b, compact_encode (Z.of_N v) = Ok b /\ compact_decode (b ++ rest) = Ok (v, rest) /\ bytes_ok b.
  Proof.
    intros Hv. unfold Scale.compact_encode. destruct (Z.ltb_spec (Z.of_N v) 0); [lia|]. rewrite N2Z.id.
    unfold Scale.compact_encode_N.
    destruct (N.leb_spec v single_max) as [H1|H1].
    - (* single byte *)
      rewrite N.shiftl_mul_pow2. change (2 ^ 2) with 4.
      assert (L : v * 4 < 256 ^ 1).
      { rewrite single_def in H1. change (2 ^ 6 - 1) with 63 in H1. change (256 ^ 1) with 256. lia. }
      destruct (Lemmas.IntBytes.to_bytes_fixed (v * 4) 1 false ltac:(discriminate) L) as (b & E & I & Lb & B).
      exists b. split; [exact E|]. split; [|exact B].
      destruct b as [|b0 [|? ?]]; try discriminate. unfold to_integer, le_to_int in I. cbn [from_le] in I.
      assert (b0 = v * 4) by lia. subst b0. cbn [app compact_decode].
      rewrite N.mod_mul by lia. cbn [N.eqb]. rewrite N.div_mul by lia. reflexivity.
    - destruct (N.leb_spec v two_max) as [H2|H2].
      + assert (L : 4 * v + 1 < 256 ^ N.of_nat 2).
        { rewrite two_def in H2. change (2 ^ 14 - 1) with 16383 in H2. change (256 ^ N.of_nat 2) with 65536. lia. }
        destruct (decode_fixed_mode v 1 2 rest (or_introl (conj eq_refl eq_refl)) L) as (b & E & D).
        exists b. split; [exact E|]. split; [exact D|].
        rewrite (tag_val v 1 ltac:(lia)) in E.
        destruct (Lemmas.IntBytes.to_bytes_fixed (4 * v + 1) 2 false ltac:(discriminate) L) as (b' & E' & _ & _ & B).
        change (N.of_nat 2) with 2 in E. rewrite E in E'. assert (b = b') by (unfold Ok in E'; congruence). subst; exact B.
      + destruct (N.leb_spec v four_max) as [H3|H3].
        * assert (L : 4 * v + 2 < 256 ^ N.of_nat 4).
          { rewrite four_def in H3. change (2 ^ 30 - 1) with 1073741823 in H3. change (256 ^ N.of_nat 4) with 4294967296. lia. }
          destruct (decode_fixed_mode v 2 4 rest (or_intror (conj eq_refl eq_refl)) L) as (b & E & D).
          exists b. split; [exact E|]. split; [exact D|].
          rewrite (tag_val v 2 ltac:(lia)) in E.
          destruct (Lemmas.IntBytes.to_bytes_fixed (4 * v + 2) 4 false ltac:(discriminate) L) as (b' & E' & _ & _ & B).
          change (N.of_nat 4) with 4 in E. rewrite E in E'. assert (b = b') by (unfold Ok in E'; congruence). subst; exact B.
        * (* big-integer mode *)
          destruct (N.leb_spec v big_max) as [_|]; [|lia].
          destruct (Lemmas.IntBytes.to_bytes_auto v false) as (vb & E & I & Lb & B). rewrite E. cbn [bind Ok].
          destruct (Lemmas.IntBytes.bytes_number_spec v) as (W1 & W2 & W3).
          set (n := bytes_number (Z.of_N v)) in *.
          assert (N4 : 4 <= n).
          { destruct (N.le_gt_cases 4 n) as [|G]; [assumption|exfalso].
            assert (256 ^ n <= 256 ^ 3) by (apply N.pow_le_mono_r; lia).
            rewrite four_def in H3. change (256 ^ 3) with 16777216 in H. simpl in H3. lia. }
          assert (N67 : n <= 67).
          { destruct (N.le_gt_cases n 67) as [|G]; [assumption|exfalso].
            assert (256 ^ 67 <= 256 ^ (n - 1)) by (apply N.pow_le_mono_r; lia).
            specialize (W3 ltac:(lia)). rewrite big_def in Hv.
            assert (P : 256 ^ 67 = 2 ^ 536) by (rewrite Lemmas.IntBytes.pow256; reflexivity).
            pose proof (pow2_pos 536). lia. }
          rewrite Lb.
          assert (Tag : (Z.lor (Z.shiftl (Z.of_nat (N.to_nat n) - 4) 2) 3 = Z.of_N (4 * (n - 4) + 3))%Z).
          { rewrite z_tag by lia. lia. }
          rewrite Tag.
          assert (L1 : 4 * (n - 4) + 3 < 256 ^ 1) by (change (256 ^ 1) with 256; lia).
          destruct (Lemmas.IntBytes.to_bytes_fixed _ 1 false ltac:(discriminate) L1) as (lb & E1 & I1 & Ll & B1).
          rewrite E1. cbn [bind Ok]. exists (lb ++ vb). split; [reflexivity|].
          split; [|apply bytes_ok_app; auto].
          destruct lb as [|b0 [|? ?]]; try discriminate. unfold to_integer, le_to_int in I1. cbn [from_le] in I1.
          assert (b0 = 4 * (n - 4) + 3) by lia. subst b0.
          cbn [app compact_decode].
          assert (M : (4 * (n - 4) + 3) mod 4 = 3).
          { rewrite N.add_comm, N.mul_comm, N.mod_add by lia. reflexivity. }
          assert (Q : (4 * (n - 4) + 3) / 4 = n - 4).
          { rewrite N.add_comm, N.mul_comm, N.div_add by lia. reflexivity. }
          rewrite M, Q. cbn [N.eqb Pos.eqb].
          unfold take_le. rewrite app_length.
          assert (Ln : (N.to_nat (n - 4) + 4)%nat = length vb) by lia. rewrite Ln.
          destruct (Nat.ltb_spec (length vb + length rest) (length vb)); [lia|].
          rewrite (Lemmas.Base58Xmr.firstn_app_exact _ _ _ eq_refl), (Lemmas.Base58Xmr.skipn_app_exact _ _ _ eq_refl).
          unfold to_integer in I. rewrite I. reflexivity.
  Qed.

  Theorem compact_encode_range v : (Z.of_N big_max < v)%Z -> compact_encode v = Err ValueError.
  Proof.
    intros H. unfold Scale.compact_encode. destruct (Z.ltb_spec v 0); [lia|].
    unfold Scale.compact_encode_N.
    assert (S1 : single_max <= big_max) by (rewrite single_def, big_def; apply N.sub_le_mono_r, N.pow_le_mono_r; lia).
    assert (S2 : two_max <= big_max) by (rewrite two_def, big_def; apply N.sub_le_mono_r, N.pow_le_mono_r; lia).
    assert (S3 : four_max <= big_max) by (rewrite four_def, big_def; apply N.sub_le_mono_r, N.pow_le_mono_r; lia).
    destruct (N.leb_spec (Z.to_N v) single_max); [lia|]. destruct (N.leb_spec (Z.to_N v) two_max); [lia|].
    destruct (N.leb_spec (Z.to_N v) four_max); [lia|]. destruct (N.leb_spec (Z.to_N v) big_max); [lia|reflexivity].
  Qed.

  Theorem compact_encode_negative v : (v < 0)%Z -> compact_encode v = Err OverflowError.
  Proof. intros H. unfold Scale.compact_encode. destruct (Z.ltb_spec v 0); [reflexivity|lia]. Qed.

  (* injectivity, even as prefixes of longer streams *)
  Theorem compact_encode_inj v1 v2 b1 b2 r1 r2 : v1 <= big_max -> v2 <= big_max ->
    compact_encode (Z.of_N v1) = Ok b1 -> compact_encode (Z.of_N v2) = Ok b2 ->
    b1 ++ r1 = b2 ++ r2 -> v1 = v2 /\ r1 = r2.
  Proof.
    intros H1 H2 E1 E2 E.
    destruct (compact_decode_encode v1 r1 H1) as (c1 & F1 & D1 & _).
    destruct (compact_decode_encode v2 r2 H2) as (c2 & F2 & D2 & _).
    rewrite E1 in F1. rewrite E2 in F2.
    assert (b1 = c1) by (unfold Ok in F1; congruence). assert (b2 = c2) by (unfold Ok in F2; congruence). subst.
    rewrite E in D1. rewrite D1 in D2. unfold Ok in D2. split; congruence.
  Qed.

  (* bytes: compact length prefix, then the bytes *)
  Theorem bytes_decode_encode b rest : bytes_ok b -> N.of_nat (length b) <= big_max ->
    exists s, bytes_encode b = Ok s /\ bytes_decode (s ++ rest) = Ok (b, rest).
  Proof.
    intros Hb Hl. unfold Scale.bytes_encode.
    replace (Z.of_nat (length b)) with (Z.of_N (N.of_nat (length b))) by lia.
    destruct (compact_decode_encode (N.of_nat (length b)) (b ++ rest) Hl) as (c & E & D & _).
    rewrite E. cbn [bind Ok]. eexists; split; [reflexivity|].
    unfold bytes_decode. rewrite <- app_assoc, D. cbn [bind Ok fst snd]. rewrite Nnat.Nat2N.id, app_length.
    destruct (Nat.ltb_spec (length b + length rest) (length b)); [lia|].
    rewrite (Lemmas.Base58Xmr.firstn_app_exact _ _ _ eq_refl), (Lemmas.Base58Xmr.skipn_app_exact _ _ _ eq_refl).
    reflexivity.
  Qed.
End Compact.

(* Electrum v2: each encoder language is a language of the BIP-39 finder, and none of its words occurs in a
   language the finder tries earlier -- so automatic detection finds the encoder's language. *)
From Coq Require Import NArith Arith List Lia Bool.
From BU Require Import Base.Exn Base.Bytes Model.MnemWords Lemmas.MnemWords.
From BU Require Import Gen.MnemConsts Gen.MnemLangs Lemmas.MnemConstsOkEv2a Lemmas.MnemConstsOkEv2b.
Import ListNotations.
Open Scope N_scope.

Lemma ev2_first_okb : forallb (lang_first_okb b39_langs) (combine ev2_langs ev2_lang_pos) = true.
Proof.
  rewrite <- (firstn_skipn 3 (combine ev2_langs ev2_lang_pos)), forallb_app.
  rewrite ev2_first_okb_a, ev2_first_okb_b. reflexivity.
Qed.

Lemma ev2_lengths : length ev2_langs = length ev2_lang_pos.
Proof. reflexivity. Qed.

Lemma ev2_langs_first wl : In wl ev2_langs ->
  exists pre post, b39_langs = pre ++ wl :: post /\
    forall L' w, In L' pre -> In w wl -> ~ In w L'.
Proof.
  intros I. destruct (in_combine_of_in _ _ wl ev2_lengths I) as [pos Hc].
  pose proof ev2_first_okb as F. rewrite forallb_forall in F. exact (lang_first_sound _ _ _ (F _ Hc)).
Qed.

Lemma ev2_langs_in_b39 wl : In wl ev2_langs -> In wl b39_langs.
Proof.
  intros I. destruct (ev2_langs_first wl I) as (pre & post & E & _). rewrite E. apply in_or_app. right. left. reflexivity.
Qed.

Lemma ev2_nums_eq : ev2_word_nums = [12; 24]. Proof. reflexivity. Qed.
Lemma ev2_wbl_eq : ev2_word_bit_len = 11. Proof. reflexivity. Qed.
Lemma ev2_ent_eq : ev2_entropy_bit_lens = [132; 264]. Proof. reflexivity. Qed.

(* Proofs about Model/Bip32Path.v: key index, parser soundness and completeness for the grammar of
   Lemmas/Bip32PathSpec.v, printer/parser round trip, F5, and the path walk of DerivePath. *)
From Coq Require Import NArith ZArith List Bool Lia.
From BU Require Import Base.Exn Base.Radix Base.Bytes Gen.Unicode Gen.PathConsts Model.PyText Model.Bip32Path
  Lemmas.PyText Lemmas.UnicodeOk Lemmas.PathConstsOk Lemmas.Bip32PathSpec.
Import ListNotations.
Open Scope N_scope.

(* ------------------------------------------------------------------ constants *)

Lemma hardened_mask_eq : hardened_mask = hardened_bit.
Proof. unfold hardened_mask, hardened_bit. rewrite bip32_hardened_bit_ok. apply N.shiftl_1_l. Qed.

Lemma ch_slash_eq : ch_slash = slash.
Proof. unfold ch_slash. rewrite bip32_path_sep_ok. reflexivity. Qed.

Lemma index_bound_val : index_bound = 4294967296.
Proof. reflexivity. Qed.
Lemma hardened_bit_val : hardened_bit = 2147483648.
Proof. reflexivity. Qed.

(* ------------------------------------------------------------------ Bip32KeyIndex *)

Lemma N2Z_lor a b : Z.of_N (N.lor a b) = Z.lor (Z.of_N a) (Z.of_N b).
Proof. destruct a, b; reflexivity. Qed.
Lemma N2Z_land a b : Z.of_N (N.land a b) = Z.land (Z.of_N a) (Z.of_N b).
Proof. destruct a, b; reflexivity. Qed.

Lemma key_index_spec z i : key_index z = Ok i <-> (0 <= z < Z.of_N index_bound)%Z /\ i = Z.to_N z.
Proof.
  unfold key_index. rewrite bip32_key_index_max_ok.
  change (Z.of_N (2 ^ 32 - 1)) with 4294967295%Z. change (Z.of_N index_bound) with 4294967296%Z.
  destruct (Z.ltb_spec z 0) as [E1|E1]; destruct (Z.ltb_spec 4294967295 z) as [E2|E2]; cbn [orb].
  - split; [discriminate|intros [H _]; lia].
  - split; [discriminate|intros [H _]; lia].
  - split; [discriminate|intros [H _]; lia].
  - split; [intros H; inversion H; split; [lia|reflexivity]|intros [_ ->]; reflexivity].
Qed.

Lemma key_index_of_N i : i < index_bound -> key_index (Z.of_N i) = Ok i.
Proof.
  intros H. apply key_index_spec. split; [lia|]. rewrite N2Z.id. reflexivity.
Qed.

Lemma key_index_err z e : key_index z = Err e -> e = ValueError.
Proof.
  unfold key_index. destruct ((z <? 0)%Z || (Z.of_N bip32_key_index_max_val <? z)%Z); [|discriminate].
  intros H; inversion H; reflexivity.
Qed.

Lemma harden_index_z_N v : harden_index_z (Z.of_N v) = Z.of_N (N.lor v hardened_bit).
Proof. unfold harden_index_z. rewrite hardened_mask_eq, N2Z_lor. reflexivity. Qed.

Lemma harden_index_N v : harden_index v = N.lor v hardened_bit.
Proof. unfold harden_index. rewrite hardened_mask_eq. reflexivity. Qed.

(* bit 31 set / cleared, arithmetically *)
Lemma high_bits_zero j k n : j < 2 ^ k -> k <= n -> N.testbit j n = false.
Proof.
  intros Hj Hn. destruct (N.eq_dec j 0) as [->|Hz]; [apply N.bits_0|].
  apply N.bits_above_log2. apply N.lt_le_trans with k; [|exact Hn]. apply N.log2_lt_pow2; lia.
Qed.

Lemma land_hardened_low j : j < hardened_bit -> N.land j hardened_bit = 0.
Proof.
  intros H. apply N.bits_inj_0. intros n. rewrite N.land_spec. unfold hardened_bit in *.
  rewrite N.pow2_bits_eqb. destruct (N.eqb_spec 31 n) as [<-|]; [|apply andb_false_r].
  rewrite (high_bits_zero j 31 31 H); [reflexivity|lia].
Qed.

Lemma add_nocarry_lor a b : N.land a b = 0 -> a + b = N.lor a b.
Proof. intros H. rewrite N.add_nocarry_lxor by exact H. apply N.lxor_lor, H. Qed.

Lemma lor_hardened_low j : j < hardened_bit -> N.lor j hardened_bit = j + hardened_bit.
Proof. intros H. symmetry. apply add_nocarry_lor, land_hardened_low, H. Qed.

Lemma hardened_split i : is_hardened_index i = true -> N.lor (unharden_index i) hardened_bit = i.
Proof.
  unfold is_hardened_index, unharden_index. rewrite hardened_mask_eq, negb_true_iff, N.eqb_neq. intros H.
  apply N.bits_inj. intros n. rewrite N.lor_spec, N.ldiff_spec.
  unfold hardened_bit in *. rewrite N.pow2_bits_eqb.
  destruct (N.eqb_spec 31 n) as [<-|Hn].
  - rewrite andb_false_r. simpl. destruct (N.testbit i 31) eqn:T; [reflexivity|].
    exfalso. apply H. apply N.bits_inj_0. intros m. rewrite N.land_spec, N.pow2_bits_eqb.
    destruct (N.eqb_spec 31 m) as [<-|]; [rewrite T; reflexivity|apply andb_false_r].
  - rewrite andb_true_r, orb_false_r. reflexivity.
Qed.

Lemma not_hardened_low i : i < index_bound -> is_hardened_index i = false -> i < hardened_bit.
Proof.
  unfold is_hardened_index. rewrite hardened_mask_eq, negb_false_iff, N.eqb_eq. intros Hi H.
  destruct (N.lt_ge_cases i hardened_bit) as [|Hge]; [assumption|exfalso].
  assert (T : N.testbit (N.land i hardened_bit) 31 = true).
  { assert (Hj : i - hardened_bit < hardened_bit) by (unfold index_bound, hardened_bit in *; lia).
    assert (Ei : i = (i - hardened_bit) + hardened_bit) by lia.
    rewrite Ei, (add_nocarry_lor _ _ (land_hardened_low _ Hj)).
    rewrite N.land_spec, N.lor_spec. unfold hardened_bit at 2 3. rewrite N.pow2_bits_true.
    rewrite orb_true_r. reflexivity. }
  rewrite H in T. rewrite N.bits_0 in T. discriminate.
Qed.

Lemma unharden_lt i : unharden_index i <= i.
Proof.
  unfold unharden_index. set (m := hardened_mask).
  rewrite <- (N.lor_ldiff_and i m) at 2. rewrite <- add_nocarry_lor; [lia|].
  apply N.bits_inj_0. intros n. rewrite !N.land_spec, N.ldiff_spec.
  destruct (N.testbit i n), (N.testbit m n); reflexivity.
Qed.

(* ------------------------------------------------------------------ fields of the parser *)

Lemma filter_nonempty_eq (l : list (list N)) : filter (fun e => negb (is_empty e)) l = filter (@nonempty N) l.
Proof. apply filter_ext. intros [|]; reflexivity. Qed.

Lemma path_fields_eq s : path_fields s = fields slash s.
Proof.
  unfold path_fields. rewrite filter_nonempty_eq, ch_slash_eq, bip32_path_sep_ok. fold (fields slash).
  destruct (ends_with [47] s) eqn:E; [|reflexivity].
  apply ends_with_spec in E. destruct E as (a & ->). rewrite removelast_snoc.
  change [47] with (slash :: []). rewrite fields_app, fields_nil, app_nil_r. reflexivity.
Qed.

(* the parser on an explicit field list *)
Definition parse_fields (int_err : exn) (fs : list (list N)) : res path :=
  let '(is_abs, fs') := match fs with
                        | f :: r => if list_eqb f bip32_master_char then (true, r) else (false, fs)
                        | [] => (false, fs)
                        end in
  idx <- mapM (parse_elem_gen int_err) fs' ;; make_path idx is_abs.

Lemma parse_gen_fields err s : parse_gen err s = parse_fields err (fields slash s).
Proof. unfold parse_gen, parse_fields. rewrite path_fields_eq. reflexivity. Qed.

(* ------------------------------------------------------------------ mapM *)

Lemma mapM_ok {A B} (f : A -> res B) l r : mapM f l = Ok r <-> Forall2 (fun x y => f x = Ok y) l r.
Proof.
  revert r. induction l as [|x t IH]; intros r; simpl.
  - split; [intros H; inversion H; constructor|intros H; inversion H; reflexivity].
  - destruct (f x) as [y|e] eqn:E; simpl.
    + destruct (mapM f t) as [ys|e] eqn:E2; simpl.
      * split; [intros H; inversion H; subst; constructor; [exact E|apply IH; reflexivity]|].
        intros H; inversion H; subst. apply IH in H4. inversion H4; subst.
        rewrite E in H2. inversion H2; reflexivity.
      * split; [discriminate|]. intros H; inversion H; subst. apply IH in H4. discriminate.
    + split; [discriminate|]. intros H; inversion H; subst. rewrite E in H2. discriminate.
Qed.

Lemma mapM_err {A B} (f : A -> res B) l e : mapM f l = Err e -> exists x, In x l /\ f x = Err e.
Proof.
  induction l as [|x t IH]; simpl; [discriminate|].
  destruct (f x) as [y|e'] eqn:E; simpl.
  - destruct (mapM f t) as [ys|e''] eqn:E2; simpl; [discriminate|].
    intros H; inversion H; subst. destruct (IH eq_refl) as (x' & I & Hx). exists x'. auto.
  - intros H; inversion H; subst. exists x. auto.
Qed.

Lemma mapM_ext_in {A B} (f g : A -> res B) l : (forall x, In x l -> f x = g x) -> mapM f l = mapM g l.
Proof.
  induction l as [|x t IH]; intros H; [reflexivity|]. simpl.
  rewrite (H x (or_introl eq_refl)), IH; [reflexivity|]. intros y I. apply H. right. exact I.
Qed.

Lemma make_path_of_N idx ab : Forall (fun i => i < index_bound) idx ->
  make_path (map Z.of_N idx) ab = Ok (mk_path idx ab).
Proof.
  intros H. unfold make_path.
  assert (E : mapM key_index (map Z.of_N idx) = Ok idx).
  { apply mapM_ok. induction H; constructor; [apply key_index_of_N; assumption|assumption]. }
  rewrite E. reflexivity.
Qed.

(* ------------------------------------------------------------------ one element: soundness *)

Lemma all_space_forallb ws : all_space ws -> forallb cp_strip_ws ws = true.
Proof.
  intros H. apply forallb_forall. intros c I. rewrite cp_strip_ws_eq. unfold all_space in H.
  rewrite Forall_forall in H. auto.
Qed.

Lemma decimal_not_strip c : cp_isdecimal c = true -> cp_strip_ws c = false.
Proof. intros H. rewrite cp_strip_ws_eq. apply cp_numeric_not_space, cp_decimal_numeric, H. Qed.

Lemma marker_special m : In m marker_chars -> In m [43; 45; 95; 39; 104; 112; 109; 47].
Proof. unfold marker_chars. simpl. tauto. Qed.

Lemma marker_not_strip m : In m marker_chars -> cp_strip_ws m = false.
Proof. intros H. rewrite cp_strip_ws_eq. apply special_chars, marker_special, H. Qed.

Lemma hard_test_marker ds m : In m marker_chars ->
  existsb (fun suf => ends_with suf (ds ++ [m])) bip32_hardened_chars = true.
Proof.
  intros H. rewrite bip32_hardened_chars_ok. apply existsb_exists. exists [m]. split.
  - unfold marker_chars in H. simpl in *. intuition (subst; auto).
  - apply ends_with_spec. exists ds. reflexivity.
Qed.

Lemma hard_test_digit l y : cp_isdecimal y = true ->
  existsb (fun suf => ends_with suf (l ++ [y])) bip32_hardened_chars = false.
Proof.
  intros H. rewrite bip32_hardened_chars_ok. cbn [existsb].
  assert (N : forall c, In c marker_chars -> y <> c).
  { intros c I ->. apply marker_special, cp_special_not_decimal in I. congruence. }
  rewrite !ends_with_char_false; [reflexivity| | |]; apply N; unfold marker_chars; simpl; auto.
Qed.

Lemma numeral_parts ds : numeral ds ->
  exists x mid m' y, ds = x :: mid /\ ds = m' ++ [y] /\ cp_isdecimal x = true /\ cp_isdecimal y = true /\
    forallb cp_isdecimal ds = true.
Proof.
  intros (Hne & Hd & _). destruct ds as [|x mid]; [congruence|].
  destruct (exists_last (l := x :: mid) ltac:(discriminate)) as (m' & y & E).
  exists x, mid, m', y. rewrite Forall_forall in Hd. repeat split; auto.
  - apply Hd. left. reflexivity.
  - apply Hd. rewrite E. apply in_or_app. right. left. reflexivity.
  - apply forallb_forall. exact Hd.
Qed.

Lemma py_int_numeral ds : numeral ds -> py_isnumeric ds = true /\ py_int ds = Ok (Z.of_N (numeral_value ds)).
Proof.
  intros H. destruct (numeral_parts ds H) as (x & mid & _ & _ & E & _ & _ & _ & Hall).
  destruct H as (_ & Hd & Hl).
  assert (Hn : forallb cp_isnumeric ds = true).
  { apply forallb_forall. intros c I. apply cp_decimal_numeric. rewrite Forall_forall in Hd. auto. }
  split.
  - unfold py_isnumeric. rewrite Hn, E. reflexivity.
  - rewrite py_int_numeric by exact Hn. rewrite Hall, Hl, E. reflexivity.
Qed.

Theorem parse_elem_sound e i : elem_spells e i -> forall err, parse_elem_gen err e = Ok (Z.of_N i).
Proof.
  intros (ws1 & ds & mk & ws2 & -> & H1 & H2 & Hnum & Hcase & Hi) err.
  destruct (numeral_parts ds Hnum) as (x & mid & m' & y & Ex & Ey & Dx & Dy & _).
  destruct (py_int_numeral ds Hnum) as (Hisnum & Hint).
  unfold parse_elem_gen, py_strip.
  destruct Hcase as [[-> ->]|(m & -> & Hm & ->)].
  - (* plain index *)
    rewrite app_nil_l.
    rewrite (strip_by_core cp_strip_ws ws1 x mid y ws2 (all_space_forallb _ H1) (all_space_forallb _ H2)
               ds Ex (ex_intro _ m' Ey) (decimal_not_strip _ Dx) (decimal_not_strip _ Dy)).
    assert (Hh : existsb (fun suf => ends_with suf ds) bip32_hardened_chars = false)
      by (rewrite Ey; apply hard_test_digit; exact Dy).
    rewrite Hh, Hisnum. cbn [negb]. rewrite Hint. reflexivity.
  - (* hardened marker *)
    replace (ws1 ++ ds ++ [m] ++ ws2) with (ws1 ++ (ds ++ [m]) ++ ws2) by (rewrite <- app_assoc; reflexivity).
    rewrite (strip_by_core cp_strip_ws ws1 x (mid ++ [m]) m ws2 (all_space_forallb _ H1) (all_space_forallb _ H2)
               (ds ++ [m]) ltac:(rewrite Ex; reflexivity) (ex_intro _ ds eq_refl)
               (decimal_not_strip _ Dx) (marker_not_strip _ Hm)).
    rewrite (hard_test_marker ds m Hm), removelast_snoc, Hisnum. cbn [negb]. rewrite Hint.
    unfold Ok. rewrite harden_index_z_N. reflexivity.
Qed.

(* what an accepted element looks like *)
Lemma elem_spells_tok e i : elem_spells e i -> tok_ok slash e /\ e <> master_tok.
Proof.
  intros (ws1 & ds & mk & ws2 & -> & H1 & H2 & Hnum & Hcase & _).
  destruct (numeral_parts ds Hnum) as (x & mid & _ & _ & Ex & _ & Dx & _ & Hall).
  assert (Hx : In x (ws1 ++ ds ++ mk ++ ws2)).
  { apply in_or_app. right. apply in_or_app. left. rewrite Ex. left. reflexivity. }
  split; [split|].
  - intros E. rewrite E in Hx. destruct Hx.
  - intros I. assert (S : cp_isspace slash = false /\ cp_isdecimal slash = false).
    { split; [apply special_chars|apply cp_special_not_decimal]; unfold slash; simpl; auto 10. }
    destruct S as [S1 S2].
    apply in_app_or in I. destruct I as [I|I].
    { unfold all_space in H1. rewrite Forall_forall in H1. apply H1 in I. congruence. }
    apply in_app_or in I. destruct I as [I|I].
    { rewrite forallb_forall in Hall. apply Hall in I. congruence. }
    apply in_app_or in I. destruct I as [I|I].
    { destruct Hcase as [[-> _]|(m & -> & Hm & _)]; [destruct I|].
      destruct I as [E|[]]. subst m. unfold marker_chars in Hm. simpl in Hm.
      unfold slash in Hm. intuition discriminate. }
    unfold all_space in H2. rewrite Forall_forall in H2. apply H2 in I. congruence.
  - intros E. rewrite E in Hx. destruct Hx as [<-|[]].
    rewrite (cp_special_not_decimal 109) in Dx by (simpl; auto 10). discriminate.
Qed.

(* ------------------------------------------------------------------ whole path: soundness *)

Lemma list_eqb_false a b : a <> b -> list_eqb a b = false.
Proof. intros H. destruct (list_eqb a b) eqn:E; [apply list_eqb_spec in E; contradiction|reflexivity]. Qed.

Lemma spells_mapM err es idx : Forall2 elem_spells es idx ->
  mapM (parse_elem_gen err) es = Ok (map Z.of_N idx).
Proof.
  intros H. apply mapM_ok. induction H; constructor; [apply parse_elem_sound; assumption|assumption].
Qed.

Lemma spells_bound es idx : Forall2 elem_spells es idx -> Forall (fun i => i < index_bound) idx.
Proof.
  induction 1 as [|e i es idx He _ IH]; constructor; [|exact IH].
  destruct He as (?&?&?&?&_&_&_&_&_&Hi). exact Hi.
Qed.

Lemma parse_fields_sound err (es : list (list N)) idx (ab : bool) :
  Forall2 elem_spells es idx ->
  parse_fields err ((if ab then [master_tok] else []) ++ es) = Ok (mk_path idx ab).
Proof.
  intros H. pose proof (spells_mapM err es idx H) as Hm. pose proof (spells_bound es idx H) as Hb.
  unfold parse_fields. destruct ab.
  - cbn [app]. rewrite bip32_master_char_ok. unfold master_tok. rewrite list_eqb_refl.
    rewrite Hm. cbn [bind]. apply make_path_of_N, Hb.
  - cbn [app]. destruct H as [|e i es idx He Hr].
    + reflexivity.
    + rewrite bip32_master_char_ok.
      rewrite list_eqb_false by (apply (elem_spells_tok e i He)).
      rewrite Hm. cbn [bind]. apply make_path_of_N, Hb.
Qed.

Theorem parse_sound err s ab idx : path_spells s ab idx -> parse_gen err s = Ok (mk_path idx ab).
Proof.
  intros (k0 & km & etoks & -> & H). rewrite parse_gen_fields, fields_seps, fields_joined.
  - rewrite map_app. replace (map fst (if ab then [(master_tok, km)] else []))
      with (if ab then [master_tok] else []) by (destruct ab; reflexivity).
    apply parse_fields_sound, H.
  - rewrite map_app. apply Forall_app. split.
    + destruct ab; [|constructor]. constructor; [|constructor].
      split; [discriminate|]. unfold master_tok, slash. intros [?|[]]. discriminate.
    + clear - H. remember (map fst etoks) as es. clear Heqes. induction H; constructor; [|assumption].
      eapply elem_spells_tok; eauto.
Qed.

(* ------------------------------------------------------------------ one element: completeness *)

Lemma forallb_all_space ws : forallb cp_strip_ws ws = true -> all_space ws.
Proof.
  intros H. unfold all_space. apply Forall_forall. intros c I. rewrite forallb_forall in H.
  rewrite <- cp_strip_ws_eq. auto.
Qed.

Lemma hard_test_true e1 : existsb (fun suf => ends_with suf e1) bip32_hardened_chars = true ->
  exists body m, e1 = body ++ [m] /\ In m marker_chars.
Proof.
  rewrite bip32_hardened_chars_ok. intros H. apply existsb_exists in H. destruct H as (suf & I & E).
  apply ends_with_spec in E. destruct E as (a & ->).
  simpl in I. destruct I as [<-|[<-|[<-|[]]]]; eexists; eexists; (split; [reflexivity|]);
    unfold marker_chars; simpl; auto.
Qed.

(* an element on which isnumeric succeeds and int() succeeds is a numeral *)
Lemma numeric_int_numeral e2 v : py_isnumeric e2 = true -> py_int e2 = Ok v ->
  numeral e2 /\ v = Z.of_N (numeral_value e2).
Proof.
  unfold py_isnumeric. rewrite andb_true_iff. intros [Hne Hn] Hi.
  rewrite py_int_numeric in Hi by exact Hn. rewrite Hne in Hi. cbn [andb] in Hi.
  destruct (forallb cp_isdecimal e2) eqn:Hd; [|discriminate].
  destruct (int_limit_ok (length e2)) eqn:Hl; [|discriminate].
  inversion Hi. split; [|reflexivity]. split; [destruct e2; [discriminate|discriminate]|].
  split; [apply Forall_forall; rewrite forallb_forall in Hd; exact Hd|exact Hl].
Qed.

Theorem parse_elem_complete err e z i :
  parse_elem_gen err e = Ok z -> key_index z = Ok i -> elem_spells e i.
Proof.
  unfold parse_elem_gen, py_strip. intros H K.
  destruct (strip_by_decomp cp_strip_ws e) as (a & b & Ee & Ha & Hb).
  set (e1 := strip_by cp_strip_ws e) in *.
  apply key_index_spec in K. destruct K as [Kr ->].
  destruct (existsb (fun suf => ends_with suf e1) bip32_hardened_chars) eqn:Hh.
  - destruct (hard_test_true e1 Hh) as (body & m & E1 & Hm). rewrite E1, removelast_snoc in H.
    destruct (py_isnumeric body) eqn:Hn; [|discriminate]. cbn [negb] in H.
    destruct (py_int body) as [v|] eqn:Hv; [|discriminate]. inversion H; subst z.
    destruct (numeric_int_numeral body v Hn Hv) as [Hnum ->].
    rewrite harden_index_z_N, N2Z.id in *.
    exists a, body, [m], b. rewrite Ee, E1, <- app_assoc.
    split; [reflexivity|]. split; [apply forallb_all_space, Ha|]. split; [apply forallb_all_space, Hb|].
    split; [exact Hnum|]. split; [right; exists m; auto|]. change (Z.of_N index_bound) with 4294967296%Z in Kr.
    unfold index_bound. lia.
  - destruct (py_isnumeric e1) eqn:Hn; [|discriminate]. cbn [negb] in H.
    destruct (py_int e1) as [v|] eqn:Hv; [|discriminate]. inversion H; subst z.
    destruct (numeric_int_numeral e1 v Hn Hv) as [Hnum ->].
    rewrite N2Z.id in *.
    exists a, e1, [], b. rewrite Ee.
    split; [reflexivity|]. split; [apply forallb_all_space, Ha|]. split; [apply forallb_all_space, Hb|].
    split; [exact Hnum|]. split; [left; auto|]. change (Z.of_N index_bound) with 4294967296%Z in Kr.
    unfold index_bound. lia.
Qed.

Theorem parse_elem_accepts_iff e i :
  (exists z, parse_elem e = Ok z /\ key_index z = Ok i) <-> elem_spells e i.
Proof.
  split.
  - intros (z & H & K). exact (parse_elem_complete _ e z i H K).
  - intros H. exists (Z.of_N i). split; [exact (parse_elem_sound e i H _)|].
    apply key_index_of_N. destruct H as (?&?&?&?&_&_&_&_&_&Hi). exact Hi.
Qed.

(* ------------------------------------------------------------------ whole path: completeness *)

Lemma make_path_ok zs ab p : make_path zs ab = Ok p ->
  p_abs p = ab /\ Forall2 (fun z i => key_index z = Ok i) zs (p_elems p).
Proof.
  unfold make_path. destruct (mapM key_index zs) as [l|] eqn:E; [|discriminate].
  intros H; inversion H; subst. split; [reflexivity|]. apply mapM_ok. exact E.
Qed.

Lemma elems_complete err es zs idx :
  Forall2 (fun e z => parse_elem_gen err e = Ok z) es zs ->
  Forall2 (fun z i => key_index z = Ok i) zs idx -> Forall2 elem_spells es idx.
Proof.
  intros H. revert idx. induction H as [|e z es zs He _ IH]; intros idx K; inversion K; subst; constructor.
  - eapply parse_elem_complete; eauto.
  - apply IH. assumption.
Qed.

Lemma parse_fields_complete err fs p : parse_fields err fs = Ok p ->
  exists es, fs = (if p_abs p then [master_tok] else []) ++ es /\ Forall2 elem_spells es (p_elems p).
Proof.
  unfold parse_fields.
  assert (G : forall ab fs', (idx <- mapM (parse_elem_gen err) fs' ;; make_path idx ab) = Ok p ->
            p_abs p = ab /\ Forall2 elem_spells fs' (p_elems p)).
  { intros ab fs' H. destruct (mapM (parse_elem_gen err) fs') as [zs|] eqn:E; [|discriminate].
    cbn [bind] in H. apply make_path_ok in H. destruct H as [Hab K]. split; [exact Hab|].
    apply mapM_ok in E. eapply elems_complete; eauto. }
  destruct fs as [|f r].
  - intros H. apply G in H. destruct H as [Hab K]. rewrite Hab. exists []. auto.
  - rewrite bip32_master_char_ok. destruct (list_eqb f [109]) eqn:E.
    + apply list_eqb_spec in E. subst f. intros H. apply G in H. destruct H as [Hab K].
      rewrite Hab. exists r. auto.
    + intros H. apply G in H. destruct H as [Hab K]. rewrite Hab. exists (f :: r). auto.
Qed.

Theorem parse_complete err s p : parse_gen err s = Ok p -> path_spells s (p_abs p) (p_elems p).
Proof.
  rewrite parse_gen_fields. intros H. apply parse_fields_complete in H. destruct H as (es & Ef & K).
  destruct (fields_decomp slash s) as (k0 & toks & Es & Et & _).
  rewrite Ef in Et. unfold path_spells.
  destruct (p_abs p).
  - destruct toks as [|[t km] etoks]; [discriminate|]. simpl in Et. inversion Et; subst t.
    exists k0, km, etoks. split; [exact Es|]. rewrite H1. exact K.
  - exists k0, 0%nat, toks. split; [exact Es|]. simpl in Et. rewrite Et. exact K.
Qed.

Theorem parse_accepts_iff s p : parse s = Ok p <-> path_spells s (p_abs p) (p_elems p).
Proof.
  split; [apply parse_complete|]. intros H. destruct p as [idx ab]. apply parse_sound. exact H.
Qed.

(* ------------------------------------------------------------------ rejections *)

Lemma parse_elem_err e err : parse_elem e = Err err -> err = LibError Bip32PathError.
Proof.
  unfold parse_elem, parse_elem_gen.
  destruct (negb (py_isnumeric _)); [intros H; inversion H; reflexivity|].
  destruct (py_int _); [discriminate|intros H; inversion H; reflexivity].
Qed.

Lemma make_path_err zs ab e : make_path zs ab = Err e -> e = LibError Bip32PathError.
Proof. unfold make_path. destruct (mapM key_index zs); [discriminate|intros H; inversion H; reflexivity]. Qed.

Theorem parse_rejects_with_path_error s e : parse s = Err e -> e = LibError Bip32PathError.
Proof.
  unfold parse, parse_gen.
  destruct (match path_fields s with
            | f :: r => if list_eqb f bip32_master_char then (true, r) else (false, path_fields s)
            | [] => (false, path_fields s) end) as [ab fs'].
  destruct (mapM (parse_elem_gen (LibError Bip32PathError)) fs') as [zs|e'] eqn:E; cbn [bind].
  - apply make_path_err.
  - intros H; inversion H; subst. apply mapM_err in E. destruct E as (x & _ & Hx).
    eapply parse_elem_err; eauto.
Qed.

(* ------------------------------------------------------------------ HISTORICAL: the parser before fix 751715b (F5) *)

(* the two parsers differ only in the class of the exception raised when int() fails *)
Lemma parse_elem_gen_cases e err1 err2 :
  parse_elem_gen err1 e = parse_elem_gen err2 e \/
  (parse_elem_gen err1 e = Err err1 /\ parse_elem_gen err2 e = Err err2).
Proof.
  unfold parse_elem_gen. destruct (negb (py_isnumeric _)); [left; reflexivity|].
  destruct (py_int _); [left; reflexivity|right; auto].
Qed.

Lemma mapM_cases err1 err2 fs :
  mapM (parse_elem_gen err1) fs = mapM (parse_elem_gen err2) fs \/
  (mapM (parse_elem_gen err1) fs = Err err1 /\ mapM (parse_elem_gen err2) fs = Err err2).
Proof.
  induction fs as [|e t IH]; [left; reflexivity|]. cbn [mapM].
  destruct (parse_elem_gen_cases e err1 err2) as [E|[E1 E2]].
  - rewrite E. destruct (parse_elem_gen err2 e); cbn [bind]; [|left; reflexivity].
    destruct IH as [->|[-> ->]]; [left; reflexivity|right; auto].
  - rewrite E1, E2. right. auto.
Qed.

Theorem parse_before_fix_vs_parse s :
  parse_before_fix s = parse s \/
  (parse_before_fix s = Err ValueError /\ parse s = Err (LibError Bip32PathError)).
Proof.
  unfold parse_before_fix, parse, parse_gen.
  destruct (match path_fields s with
            | f :: r => if list_eqb f bip32_master_char then (true, r) else (false, path_fields s)
            | [] => (false, path_fields s) end) as [ab fs'].
  destruct (mapM_cases ValueError (LibError Bip32PathError) fs') as [->|[-> ->]]; [left|right]; auto.
Qed.

Theorem parse_before_fix_refuted : exists s, parse_before_fix s = Err ValueError /\ parse s = Err (LibError Bip32PathError).
Proof. exists [109; 47; 178]. vm_compute. auto. Qed.

(* where every numeric character is a decimal digit (e.g. ASCII text) and no run of digits can
   exceed the interpreter's int() limit, the current parser already behaves as demanded *)
Lemma removelast_length (l : list N) : (length (removelast l) <= length l)%nat.
Proof.
  destruct l as [|x t]; [simpl; lia|]. rewrite (app_removelast_last (l := x :: t) 0) at 2 by discriminate.
  rewrite app_length. lia.
Qed.

Theorem parse_before_fix_partial s :
  (forall c, In c s -> cp_isnumeric c = true -> cp_isdecimal c = true) ->
  int_limit_ok (length s) = true ->
  parse_before_fix s = parse s.
Proof.
  intros Hd Hl. unfold parse_before_fix, parse. rewrite !parse_gen_fields. unfold parse_fields.
  assert (G : forall fs', (forall e, In e fs' -> incl e s /\ (length e <= length s)%nat) ->
            mapM (parse_elem_gen ValueError) fs' = mapM (parse_elem_gen (LibError Bip32PathError)) fs').
  { intros fs' Hin'. apply mapM_ext_in. intros e Ie. destruct (Hin' e Ie) as [Hin Hlen0].
    unfold parse_elem_gen. set (e1 := py_strip e).
    set (e2 := if existsb (fun suf => ends_with suf e1) bip32_hardened_chars then removelast e1 else e1).
    assert (I2 : incl e2 s).
    { assert (I1 : incl e1 s) by (intros c Ic; apply Hin; apply (strip_by_incl cp_strip_ws e); exact Ic).
      unfold e2. destruct (existsb _ _); [|exact I1].
      intros c Ic. apply I1. destruct e1 as [|x t]; [destruct Ic|].
      rewrite (app_removelast_last (l := x :: t) 0) by discriminate. apply in_or_app. left. exact Ic. }
    assert (L2 : (length e2 <= length s)%nat).
    { assert (L1 : (length e1 <= length e)%nat) by apply strip_by_length.
      unfold e2. destruct (existsb _ _); [|lia]. pose proof (removelast_length e1). lia. }
    destruct (py_isnumeric e2) eqn:Hn; [|reflexivity]. cbn [negb].
    unfold py_isnumeric in Hn. apply andb_true_iff in Hn. destruct Hn as [Hne Hn].
    rewrite py_int_numeric by exact Hn. rewrite Hne. cbn [andb].
    assert (Hdec : forallb cp_isdecimal e2 = true).
    { apply forallb_forall. intros c Ic. apply Hd; [apply I2; exact Ic|].
      rewrite forallb_forall in Hn. auto. }
    rewrite Hdec. cbn [andb].
    assert (Hlen : int_limit_ok (length e2) = true).
    { apply (int_limit_ok_le _ (length s)); [|exact Hl]. exact L2. }
    rewrite Hlen. reflexivity. }
  assert (F : forall e, In e (fields slash s) -> incl e s /\ (length e <= length s)%nat).
  { intros e I. split; [apply (fields_incl slash s e I)|apply (fields_length slash s e I)]. }
  destruct (fields slash s) as [|f r]; [reflexivity|].
  destruct (list_eqb f bip32_master_char).
  - rewrite G; [reflexivity|]. intros e I. apply F. right. exact I.
  - rewrite G; [reflexivity|exact F].
Qed.

(* ------------------------------------------------------------------ printing and re-parsing *)

Definition elem_body (i : N) : list N :=
  if is_hardened_index i then str_of_N (unharden_index i) ++ [39] else str_of_N i.

Lemma elem_to_str_body i : elem_to_str i = elem_body i ++ [slash].
Proof.
  unfold elem_to_str, elem_body. destruct bip32_tostr_suffixes_ok as (_ & -> & ->).
  destruct (is_hardened_index i); [rewrite <- app_assoc|]; reflexivity.
Qed.

Lemma to_str_joined p :
  to_str p = joined slash (map (fun t => (t, 0%nat)) ((if p_abs p then [master_tok] else []) ++ map elem_body (p_elems p))).
Proof.
  unfold to_str. rewrite <- removelast_flat_map. f_equal.
  rewrite flat_map_app. f_equal.
  - destruct bip32_tostr_suffixes_ok as (-> & _ & _). rewrite bip32_master_char_ok.
    destruct (p_abs p); reflexivity.
  - induction (p_elems p) as [|i t IH]; [reflexivity|]. simpl. rewrite IH, elem_to_str_body. reflexivity.
Qed.

Lemma str_numeral n : n < index_bound -> numeral (str_of_N n).
Proof.
  intros H. split; [apply str_of_N_nonempty|]. split.
  - apply Forall_forall. pose proof (str_of_N_decimal n) as D. rewrite forallb_forall in D. exact D.
  - apply (int_limit_ok_le _ 10); [|exact int_limit_small_t].
    apply str_of_N_length; [lia|]. unfold index_bound in H. simpl. lia.
Qed.

Lemma elem_body_spells i : i < index_bound -> elem_spells (elem_body i) i.
Proof.
  intros Hi. unfold elem_body. destruct (is_hardened_index i) eqn:Hh.
  - exists [], (str_of_N (unharden_index i)), [39], []. rewrite app_nil_r.
    split; [reflexivity|]. split; [constructor|]. split; [constructor|].
    split; [apply str_numeral; pose proof (unharden_lt i); lia|].
    split; [|exact Hi]. right. exists 39. split; [reflexivity|]. split; [unfold marker_chars; simpl; auto|].
    rewrite str_of_N_value. symmetry. apply hardened_split, Hh.
  - exists [], (str_of_N i), [], []. rewrite !app_nil_r.
    split; [reflexivity|]. split; [constructor|]. split; [constructor|].
    split; [apply str_numeral, Hi|]. split; [|exact Hi]. left. split; [reflexivity|].
    symmetry. apply str_of_N_value.
Qed.

Lemma to_str_spells p : Forall (fun i => i < index_bound) (p_elems p) ->
  path_spells (to_str p) (p_abs p) (p_elems p).
Proof.
  intros H. exists 0%nat, 0%nat, (map (fun t => (t, 0%nat)) (map elem_body (p_elems p))). split.
  - rewrite to_str_joined, map_app. destruct (p_abs p); reflexivity.
  - rewrite map_map. simpl. rewrite map_id.
    induction H; constructor; [apply elem_body_spells; assumption|assumption].
Qed.

Theorem parse_to_str p : Forall (fun i => i < index_bound) (p_elems p) -> parse (to_str p) = Ok p.
Proof. intros H. destruct p as [idx ab]. apply parse_sound. exact (to_str_spells (mk_path idx ab) H). Qed.

(* parsing and printing again yields the canonical spelling, which parses to the same path *)
Corollary parse_print_parse s p : parse s = Ok p -> parse (to_str p) = Ok p.
Proof.
  intros H. apply parse_to_str. apply parse_complete in H. destruct H as (k0 & km & etoks & _ & H).
  eapply spells_bound; eauto.
Qed.

(* a raw index >= 2^31 and its hardened form denote the same index *)
Lemma raw_vs_hardened j m : j < hardened_bit -> In m marker_chars ->
  parse_elem (str_of_N (j + hardened_bit)) = parse_elem (str_of_N j ++ [m]).
Proof.
  intros Hj Hm. unfold parse_elem.
  assert (Hb : j + hardened_bit < index_bound) by (unfold hardened_bit, index_bound in *; lia).
  rewrite (parse_elem_sound (str_of_N (j + hardened_bit)) (j + hardened_bit)).
  - rewrite (parse_elem_sound (str_of_N j ++ [m]) (j + hardened_bit)); [reflexivity|].
    exists [], (str_of_N j), [m], []. rewrite app_nil_r. split; [reflexivity|].
    split; [constructor|]. split; [constructor|]. split; [apply str_numeral; unfold hardened_bit, index_bound in *; lia|].
    split; [|exact Hb]. right. exists m. split; [reflexivity|]. split; [exact Hm|].
    rewrite str_of_N_value. symmetry. apply lor_hardened_low, Hj.
  - exists [], (str_of_N (j + hardened_bit)), [], []. rewrite !app_nil_r. split; [reflexivity|].
    split; [constructor|]. split; [constructor|]. split; [apply str_numeral, Hb|].
    split; [|exact Hb]. left. split; [reflexivity|]. symmetry. apply str_of_N_value.
Qed.

(* ------------------------------------------------------------------ key index bytes *)

Lemma key_index_bytes_roundtrip i : i < index_bound ->
  exists b, key_index_to_bytes true i = Ok b /\ length b = 4%nat /\ bytes_ok b /\
            key_index_from_bytes b = Ok i.
Proof.
  intros Hi. unfold key_index_to_bytes, key_index_from_bytes. rewrite bip32_key_index_len_ok.
  destruct (int_to_le_fixed_fits 4 i) as (l & El); [unfold index_bound in Hi; simpl; lia|].
  unfold int_to_be_fixed. rewrite El. cbn [rmap]. exists (rev l).
  destruct (int_to_le_fixed_ok 4 i l El) as (Hok & Hlen & Hv).
  split; [reflexivity|]. split; [rewrite rev_length; exact Hlen|]. split; [apply bytes_ok_rev, Hok|].
  unfold be_to_int, from_be. rewrite rev_involutive. fold (le_to_int l). rewrite Hv.
  apply key_index_of_N, Hi.
Qed.

Lemma key_index_le_bytes i : i < index_bound ->
  exists b, key_index_to_bytes false i = Ok b /\ length b = 4%nat /\ le_to_int b = i.
Proof.
  intros Hi. unfold key_index_to_bytes. rewrite bip32_key_index_len_ok.
  destruct (int_to_le_fixed_fits 4 i) as (l & El); [unfold index_bound in Hi; simpl; lia|].
  exists l. destruct (int_to_le_fixed_ok 4 i l El) as (Hok & Hlen & Hv). auto.
Qed.

Lemma harden_laws j : j < hardened_bit ->
  harden_index j = j + hardened_bit /\ is_hardened_index (harden_index j) = true /\
  unharden_index (harden_index j) = j /\ is_hardened_index j = false.
Proof.
  intros Hj. rewrite harden_index_N, (lor_hardened_low j Hj).
  assert (E : N.land (j + hardened_bit) hardened_bit = hardened_bit).
  { rewrite <- (lor_hardened_low j Hj). rewrite N.land_lor_distr_l, (land_hardened_low j Hj), N.land_diag. reflexivity. }
  split; [reflexivity|]. split; [|split].
  - unfold is_hardened_index. rewrite hardened_mask_eq, E. reflexivity.
  - unfold unharden_index. rewrite hardened_mask_eq, <- (lor_hardened_low j Hj).
    apply N.bits_inj. intros n. rewrite N.ldiff_spec, N.lor_spec. unfold hardened_bit in *.
    rewrite N.pow2_bits_eqb. destruct (N.eqb_spec 31 n) as [<-|].
    + rewrite (high_bits_zero j 31 31 Hj) by lia. reflexivity.
    + rewrite orb_false_r, andb_true_r. reflexivity.
  - unfold is_hardened_index. rewrite hardened_mask_eq, (land_hardened_low j Hj). reflexivity.
Qed.

(* ------------------------------------------------------------------ DerivePath *)

Section DeriveLemmas.
  Variable key : Type.
  Variable depth : key -> N.
  Variable ckd : key -> N -> res key.

  Notation derive_elems := (derive_elems key ckd).
  Notation derive_path := (derive_path key depth ckd).
  Notation derive_path_str := (derive_path_str key depth ckd).

  Lemma derive_elems_app p q k :
    derive_elems k (p ++ q) = (k' <- derive_elems k p ;; derive_elems k' q).
  Proof.
    revert k. induction p as [|i p IH]; intros k; [reflexivity|]. simpl.
    destruct (ckd k i) as [k'|e]; [apply IH|reflexivity].
  Qed.

  (* the walk is the left fold of the child function *)
  Lemma derive_elems_fold p k :
    derive_elems k p = fold_left (fun r i => k' <- r ;; ckd k' i) p (Ok k).
  Proof.
    assert (G : forall r, (k' <- r ;; derive_elems k' p) = fold_left (fun r i => k' <- r ;; ckd k' i) p r).
    { induction p as [|i p IH]; intros r; [destruct r; reflexivity|]. simpl. rewrite <- IH.
      destruct r as [k'|e]; [reflexivity|reflexivity]. }
    rewrite <- G. reflexivity.
  Qed.

  Theorem derive_app k ab p q :
    derive_path k (mk_path (p ++ q) ab) =
    (k' <- derive_path k (mk_path p ab) ;; derive_path k' (mk_path q false)).
  Proof.
    unfold derive_path. cbn [p_abs p_elems].
    destruct ((0 <? depth k) && ab); [reflexivity|]. rewrite derive_elems_app.
    destruct (derive_elems k p) as [k'|e]; [|reflexivity]. cbn [bind]. rewrite andb_false_r. reflexivity.
  Qed.

  Theorem absolute_on_child_refused k p : 0 < depth k -> derive_path k (mk_path p true) = Err ValueError.
  Proof. intros H. unfold derive_path. cbn [p_abs]. apply N.ltb_lt in H. rewrite H. reflexivity. Qed.

  Theorem relative_or_master_walks k p : depth k = 0 \/ p_abs p = false ->
    derive_path k p = derive_elems k (p_elems p).
  Proof.
    intros H. unfold derive_path. destruct H as [H|H]; rewrite H; [reflexivity|].
    rewrite andb_false_r. reflexivity.
  Qed.

  Section DepthLaw.
    Hypothesis ckd_depth : forall k i k', ckd k i = Ok k' -> depth k' = depth k + 1.

    Lemma derive_elems_depth p : forall k k', derive_elems k p = Ok k' -> depth k' = depth k + N.of_nat (length p).
    Proof.
      induction p as [|i p IH]; intros k k' H; simpl in H.
      - inversion H; subst. simpl. lia.
      - destruct (ckd k i) as [k1|] eqn:E; [|discriminate]. cbn [bind] in H.
        rewrite (IH _ _ H), (ckd_depth _ _ _ E). cbn [length]. lia.
    Qed.

    (* any key reached by a non-empty walk refuses every absolute path *)
    Theorem absolute_on_derived_refused k p k' q : p_elems p <> [] ->
      derive_path k p = Ok k' -> derive_path k' (mk_path q true) = Err ValueError.
    Proof.
      intros Hne H. apply absolute_on_child_refused. unfold derive_path in H.
      destruct ((0 <? depth k) && p_abs p); [discriminate|].
      rewrite (derive_elems_depth _ _ _ H). destruct (p_elems p); [congruence|]. cbn [length]. lia.
    Qed.
  End DepthLaw.

  (* spelling independence carried to derivation *)
  Theorem derive_spelling_independent k s1 s2 ab idx :
    path_spells s1 ab idx -> path_spells s2 ab idx -> derive_path_str k s1 = derive_path_str k s2.
  Proof.
    intros H1 H2. unfold derive_path_str, parse. rewrite (parse_sound _ _ _ _ H1), (parse_sound _ _ _ _ H2). reflexivity.
  Qed.

  (* from a master key the leading m is optional as well *)
  Theorem derive_master_m_optional k s1 s2 ab1 ab2 idx : depth k = 0 ->
    path_spells s1 ab1 idx -> path_spells s2 ab2 idx -> derive_path_str k s1 = derive_path_str k s2.
  Proof.
    intros Hd H1 H2. unfold derive_path_str, parse. rewrite (parse_sound _ _ _ _ H1), (parse_sound _ _ _ _ H2).
    cbn [bind]. unfold derive_path. rewrite Hd. reflexivity.
  Qed.

  (* DerivePath allocates a new object and writes nothing: every existing object is unchanged *)
  Theorem heap_derive_unchanged h i p h' r j :
    heap_derive key depth ckd h i p = (h', r) -> (j < length h)%nat -> nth_error h' j = nth_error h j.
  Proof.
    unfold heap_derive. destruct (nth_error h i) as [k|]; [|intros E; inversion E; reflexivity].
    destruct (Bip32Path.derive_path key depth ckd k p); intros E; inversion E; subst; [|reflexivity].
    intros Hj. apply nth_error_app1. exact Hj.
  Qed.
End DeriveLemmas.

(* ------------------------------------------------------------------ a checker for concrete spellings (used by Examples) *)

Definition elem_check (ws1 ds mk ws2 : list N) (i : N) : bool :=
  forallb cp_isspace ws1 && forallb cp_isspace ws2 && nonempty ds && forallb cp_isdecimal ds &&
  int_limit_ok (length ds) &&
  match mk with
  | [] => i =? numeral_value ds
  | [m] => memb m marker_chars && (i =? N.lor (numeral_value ds) hardened_bit)
  | _ => false
  end && (i <? index_bound).

Lemma elem_check_sound ws1 ds mk ws2 i : elem_check ws1 ds mk ws2 i = true ->
  elem_spells (ws1 ++ ds ++ mk ++ ws2) i.
Proof.
  unfold elem_check. rewrite !andb_true_iff. intros [[[[[[H1 H2] H3] H4] H5] H6] H7].
  exists ws1, ds, mk, ws2. split; [reflexivity|].
  split; [apply Forall_forall; rewrite forallb_forall in H1; exact H1|].
  split; [apply Forall_forall; rewrite forallb_forall in H2; exact H2|].
  split; [split; [destruct ds; [discriminate|discriminate]|split; [apply Forall_forall; rewrite forallb_forall in H4; exact H4|exact H5]]|].
  split; [|apply N.ltb_lt; exact H7].
  destruct mk as [|m [|? ?]]; [left|right|discriminate].
  - split; [reflexivity|apply N.eqb_eq; exact H6].
  - apply andb_true_iff in H6. destruct H6 as [Hm He]. exists m. split; [reflexivity|].
    split; [apply memb_In; exact Hm|apply N.eqb_eq; exact He].
Qed.

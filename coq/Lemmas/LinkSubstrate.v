(* LINK: Substrate wallet path -> SS58 address, on the concrete SS58 codec (Lemmas/SS58Ok.v through Lemmas/AddrInst.v).
   Oracles left: Blake2b-512 (checksum), Blake2b-256 (long junctions), sr25519 derivation, the sr25519 key test. *)
From Coq Require Import NArith ZArith List Bool Lia.
From BU Require Import Base.Exn Base.Bytes Model.Codecs Model.AddrText Model.SubstratePath Model.LinkSubstrate.
From BU Require Lemmas.AddrInst Lemmas.SubstratePath.
Import ListNotations.
Open Scope N_scope.

Section Link.
  Variables blake2b_256 blake2b_512 : list N -> list N.
  Variable hard_derive : list N -> list N -> list N -> list N * list N.
  Variable soft_derive : list N -> list N -> list N -> list N * list N.
  Variable soft_derive_pub : list N -> list N -> list N.
  Variable valid_pub : N -> list N -> bool.
  Hypothesis b512_len : forall x, length (blake2b_512 x) = 64%nat.
  Hypothesis b512_ok : forall x, bytes_ok (blake2b_512 x).

  Notation derive_str := (derive_path_str blake2b_256 hard_derive soft_derive soft_derive_pub).
  Notation derive := (derive_path blake2b_256 hard_derive soft_derive soft_derive_pub).
  Notation address := (sub_address blake2b_512).
  Notation decode := (sub_address_decode blake2b_512 valid_pub).
  Notation wallet_address := (sub_wallet_address blake2b_256 blake2b_512 hard_derive soft_derive soft_derive_pub).

  (* the address of a key decodes to its public key, for every SS58 format the encoder accepts *)
  Theorem address_dec_enc fmt k s : bytes_ok (k_pub k) -> valid_pub 4 (k_pub k) = true ->
    address fmt k = Ok s -> decode fmt s = Ok (k_pub k).
  Proof.
    intros Hb Hv E. unfold sub_address_decode.
    exact (Lemmas.AddrInst.substrate_rt blake2b_512 valid_pub b512_len b512_ok 4 fmt (k_pub k) s Hb Hv E).
  Qed.

  (* path string -> key -> address -> decoder: the decoder returns the derived public key *)
  Theorem wallet_address_dec_enc fmt k path s : wallet_address fmt k path = Ok s ->
    exists p k', parse path = Ok p /\ derive k p = Ok k' /\ address fmt k' = Ok s /\
      (bytes_ok (k_pub k') -> valid_pub 4 (k_pub k') = true -> decode fmt s = Ok (k_pub k')).
  Proof.
    unfold sub_wallet_address, derive_path_str.
    destruct (parse path) as [p|]; cbn [bind Ok]; [|discriminate].
    destruct (derive k p) as [k'|] eqn:D; cbn [bind Ok]; [|discriminate].
    intros E. exists p, k'. repeat split; auto. intros Hb Hv. apply address_dec_enc; assumption.
  Qed.

  (* watch-only: along soft junctions the public-only object gives the same address as the full one,
     given the schnorrkel law (the one C19 assumes) *)
  Hypothesis soft_law : forall cc pk sk, fst (soft_derive cc pk sk) = soft_derive_pub cc pk.

  Theorem watch_only_same_address fmt k p : Forall (fun el => e_hard el = false) p ->
    (k' <- derive (to_public k) p ;; address fmt k') = (k' <- derive k p ;; address fmt k').
  Proof.
    intros Hs. rewrite <- (Lemmas.SubstratePath.soft_commutes_public blake2b_256 hard_derive soft_derive soft_derive_pub soft_law p k Hs).
    destruct (derive k p) as [k'|]; reflexivity.
  Qed.
End Link.

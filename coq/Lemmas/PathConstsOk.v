(* Facts about the constants regenerated from /repo into Gen/PathConsts.v (harness/gen_paths.py).
   Re-proved on every run; the theorems of C06/C19 are stated with the property's own numbers
   (2^31, 2^32, the three markers, 32 bytes, 2^6 / 2^14 / 2^30) and use these equalities. *)
From Coq Require Import NArith List Lia.
From BU Require Import Gen.PathConsts.
Import ListNotations.
Open Scope N_scope.

Lemma bip32_hardened_chars_ok : bip32_hardened_chars = [[39]; [104]; [112]].
Proof. vm_compute. reflexivity. Qed.
Lemma bip32_master_char_ok : bip32_master_char = [109].
Proof. vm_compute. reflexivity. Qed.
Lemma bip32_path_sep_ok : bip32_path_sep = [47].
Proof. vm_compute. reflexivity. Qed.
Lemma bip32_tostr_suffixes_ok :
  bip32_tostr_master_suffix = [47] /\ bip32_tostr_soft_suffix = [47] /\ bip32_tostr_hard_suffix = [39; 47].
Proof. vm_compute. auto. Qed.
Lemma bip32_key_index_max_ok : bip32_key_index_max_val = 2 ^ 32 - 1.
Proof. vm_compute. reflexivity. Qed.
Lemma bip32_hardened_bit_ok : bip32_key_index_hardened_bit = 31.
Proof. vm_compute. reflexivity. Qed.
Lemma bip32_key_index_len_ok : bip32_key_index_byte_len = 4%nat.
Proof. vm_compute. reflexivity. Qed.

(* ---- Substrate path / SCALE ---- *)
Lemma sub_body_slash_ok : sub_body_slash = [47].
Proof. vm_compute. reflexivity. Qed.
Lemma sub_prefixes_ok : sub_soft_prefix = [47] /\ sub_hard_prefix = [47; 47].
Proof. vm_compute. auto. Qed.
Lemma sub_rfind_bound_ok : sub_rfind_bound = 2%nat.
Proof. vm_compute. reflexivity. Qed.
Lemma sub_enc_elem_max_len_ok : sub_enc_elem_max_len = 32%nat.
Proof. vm_compute. reflexivity. Qed.
(* the regular expression the scanner of Model/SubstratePath.v implements:  \/+[^/]+  *)
Lemma sub_re_path_ok : sub_re_path = [92; 47; 43; 91; 94; 47; 93; 43].
Proof. vm_compute. reflexivity. Qed.
(* u8 .. u256: every encoder is as wide as its bit bound, bounds increase, the widest is 256 bits / 32 bytes *)
Lemma sub_scale_int_encoders_ok :
  sub_scale_int_encoders = [(8, 1%nat); (16, 2%nat); (32, 4%nat); (64, 8%nat); (128, 16%nat); (256, 32%nat)].
Proof. vm_compute. reflexivity. Qed.

(* Declarative grammar of BIP-32 path strings, as property C06 words it: "a decimal number with at
   most one hardened marker denoting an index in [0, 2^32)", elements separated by slashes, redundant
   slashes or spaces allowed, optional leading m.  No proofs here; the parser of Model/Bip32Path.v is
   proved sound and complete for this grammar in Lemmas/Bip32Path.v. *)
From Coq Require Import NArith List.
From BU Require Import Base.Radix Model.PyText Lemmas.PyText Lemmas.UnicodeOk.
Import ListNotations.
Open Scope N_scope.

Definition slash : N := 47.
Definition master_tok : list N := [109].                 (* "m" *)
Definition marker_chars : list N := [39; 104; 112].      (* ' h p *)
Definition hardened_bit : N := 2 ^ 31.
Definition index_bound : N := 2 ^ 32.

(* a numeral: one or more Unicode decimal digits (any script, leading zeros allowed), short enough for the
   interpreter's int() (sys.get_int_max_str_digits(), 4300 by default).  Its value is [numeral_value]. *)
Definition numeral (ds : list N) : Prop :=
  ds <> [] /\ Forall (fun c => cp_isdecimal c = true) ds /\ int_limit_ok (length ds) = true.

Definition all_space (ws : list N) : Prop := Forall (fun c => cp_isspace c = true) ws.

(* the element string [e] denotes the index [i] *)
Definition elem_spells (e : list N) (i : N) : Prop :=
  exists ws1 ds mk ws2,
    e = ws1 ++ ds ++ mk ++ ws2 /\ all_space ws1 /\ all_space ws2 /\ numeral ds /\
    ((mk = [] /\ i = numeral_value ds) \/
     (exists m, mk = [m] /\ In m marker_chars /\ i = N.lor (numeral_value ds) hardened_bit)) /\
    i < index_bound.

(* the string [s] spells the path with index list [idx]; [is_abs] = it starts with the master token.
   [joined slash toks]: each token is followed by a run of slashes, of length >= 1 except after the last. *)
Definition path_spells (s : list N) (is_abs : bool) (idx : list N) : Prop :=
  exists (k0 km : nat) (etoks : list (list N * nat)),
    s = repeat slash k0 ++ joined slash ((if is_abs then [(master_tok, km)] else []) ++ etoks) /\
    Forall2 elem_spells (map fst etoks) idx.

(* Proofs about Model/Wif.v *)
From Coq Require Import NArith Arith List Lia Bool.
From BU Require Import Base.Exn Base.Radix Base.Bytes Model.Base58 Model.Wif Lemmas.Base58.
Import ListNotations.
Open Scope N_scope.

Section WifProofs.
  Variable alph : list N.
  Variable radix : N.
  Variable cklen : nat.
  Variable sha256 : list N -> list N.
  Variable valid_key : list N -> bool.
  Variable suffix : N.

  (* Secp256k1PrivateKey.IsValidBytes accepts 32-byte strings only *)
  Hypothesis valid_len : forall k, valid_key k = true -> length k = 32%nat.

  Notation check_encode := (check_encode alph radix cklen sha256).
  Notation check_decode := (check_decode alph radix cklen sha256).
  Notation wif_encode := (wif_encode alph radix cklen sha256 valid_key suffix).
  Notation wif_decode := (wif_decode alph radix cklen sha256 valid_key suffix).

  Definition wif_payload (nv : N) (k : list N) (compressed : bool) : list N :=
    nv :: k ++ (if compressed then [suffix] else []).

  Lemma drop_last_snoc (k : list N) x : drop_last 1 (k ++ [x]) = k.
  Proof. apply (drop_last_app k [x]). Qed.

  Lemma last_byte_snoc (k : list N) x : last_byte (k ++ [x]) = Ok x.
  Proof. unfold last_byte. rewrite rev_app_distr. reflexivity. Qed.

  Lemma drop_last_short (k : list N) : valid_key k = true -> valid_key (drop_last 1 k) = false.
  Proof.
    intros H. apply valid_len in H. destruct (valid_key (drop_last 1 k)) eqn:E; [|reflexivity].
    apply valid_len in E. unfold drop_last in E. rewrite firstn_length in E. lia.
  Qed.

  (* the decoder run on a Base58Check string whose payload is known *)
  Lemma wif_decode_payload s nv k c : check_decode s = Ok (wif_payload nv k c) -> valid_key k = true ->
    wif_decode s [nv] = Ok (k, c).
  Proof.
    intros D V. unfold Wif.wif_decode. cbn [length Nat.eqb negb]. rewrite D. unfold wif_payload.
    cbn [bind Ok length Nat.eqb hd_error of_option ord1 tl app].
    rewrite N.eqb_refl. cbn [negb]. destruct c.
    - rewrite drop_last_snoc, V, last_byte_snoc. cbn [bind Ok]. rewrite N.eqb_refl. reflexivity.
    - rewrite app_nil_r. rewrite (drop_last_short k V), V. reflexivity.
  Qed.

  Theorem wif_accepts_iff s nvb k c :
    wif_decode s nvb = Ok (k, c) <->
    exists nv, nvb = [nv] /\ valid_key k = true /\ check_decode s = Ok (wif_payload nv k c).
  Proof.
    split.
    - unfold Wif.wif_decode.
      destruct nvb as [|nv [|? ?]]; cbn [length Nat.eqb negb]; try discriminate.
      destruct (check_decode s) as [p|] eqn:D; cbn [bind Ok]; [|discriminate].
      destruct p as [|first rest]; cbn [length Nat.eqb hd_error of_option bind Ok tl]; [discriminate|].
      cbn [ord1 bind Ok].
      destruct (N.eqb_spec first nv) as [->|]; cbn [negb]; [|discriminate].
      destruct (valid_key (drop_last 1 rest)) eqn:V1.
      + destruct (last_byte rest) as [l|] eqn:L; cbn [bind Ok]; [|discriminate].
        destruct (N.eqb_spec l suffix) as [->|]; cbn [negb]; [|discriminate].
        intros X. inversion X; subst. exists nv. split; [reflexivity|]. split; [assumption|].
        unfold wif_payload. f_equal. f_equal.
        unfold last_byte in L. destruct (rev rest) as [|x r] eqn:R; [discriminate|]. inversion L; subst.
        assert (E : rest = rev r ++ [suffix]) by (rewrite <- (rev_involutive rest), R; reflexivity).
        rewrite E. rewrite drop_last_snoc. reflexivity.
      + destruct (valid_key rest) eqn:V2; cbn [negb]; [|discriminate].
        intros X. inversion X; subst. exists nv. split; [reflexivity|]. split; [assumption|].
        unfold wif_payload. rewrite app_nil_r. reflexivity.
    - intros (nv & -> & V & D). apply wif_decode_payload; assumption.
  Qed.

  Theorem wif_encode_err k nvb c e : wif_encode k nvb c = Err e -> e = ValueError /\ valid_key k = false.
  Proof. unfold Wif.wif_encode. destruct (valid_key k); cbn [negb]; [discriminate|]. intros X; inversion X; auto. Qed.

  (* failures: ValueError or Base58ChecksumError only (a net_ver that is not one byte is a ValueError) *)
  Theorem wif_decode_bad_net_ver s nvb : length nvb <> 1%nat -> wif_decode s nvb = Err ValueError.
  Proof.
    intros L. unfold Wif.wif_decode. destruct nvb as [|nv [|? ?]]; cbn [length Nat.eqb negb]; try reflexivity.
    exfalso; apply L; reflexivity.
  Qed.

  Theorem wif_decode_err s nvb e : wif_decode s nvb = Err e ->
    e = ValueError \/ e = LibError Base58ChecksumError.
  Proof.
    unfold Wif.wif_decode.
    destruct nvb as [|nv [|? ?]]; cbn [length Nat.eqb negb]; try solve [intros X; inversion X; auto].
    destruct (check_decode s) as [p|e'] eqn:D; cbn [bind Ok].
    2:{ intros X; inversion X; subst. apply (check_decode_err alph radix cklen sha256) in D. tauto. }
    destruct p as [|first rest]; cbn [length Nat.eqb hd_error of_option bind Ok tl]; [intros X; inversion X; auto|].
    cbn [ord1 bind Ok].
    destruct (first =? nv); cbn [negb]; [|intros X; inversion X; auto].
    destruct (valid_key (drop_last 1 rest)) eqn:V1.
    - destruct (last_byte rest) as [l|] eqn:L; cbn [bind Ok].
      + destruct (l =? suffix); cbn [negb]; [discriminate|intros X; inversion X; auto].
      + exfalso. apply valid_len in V1. unfold last_byte in L. destruct (rev rest) eqn:R; [|discriminate].
        apply (f_equal (@length N)) in R. rewrite rev_length in R. unfold drop_last in V1. rewrite firstn_length in V1.
        cbn [length] in R. lia.
    - destruct (valid_key rest); cbn [negb]; [discriminate|intros X; inversion X; auto].
  Qed.

  Hypothesis alph_nodup : NoDup alph.
  Hypothesis alph_len : length alph = N.to_nat radix.
  Hypothesis radix_ge2 : 2 <= radix.
  Hypothesis sha_len : forall x, length (sha256 x) = 32%nat.
  Hypothesis sha_ok : forall x, bytes_ok (sha256 x).
  Hypothesis cklen_le : (cklen <= 32)%nat.
  Hypothesis suffix_byte : suffix < 256.

  Theorem wif_roundtrip k nv c : bytes_ok k -> nv < 256 -> valid_key k = true ->
    exists s, wif_encode k [nv] c = Ok s /\ wif_decode s [nv] = Ok (k, c).
  Proof.
    intros Hk Hnv V. unfold Wif.wif_encode. rewrite V. cbn [negb].
    eexists. split; [reflexivity|]. apply wif_decode_payload; [|assumption].
    replace ([nv] ++ (if c then k ++ [suffix] else k)) with (wif_payload nv k c)
      by (unfold wif_payload; destruct c; [reflexivity|rewrite app_nil_r; reflexivity]).
    apply check_decode_encode; auto. unfold wif_payload. constructor; [assumption|].
    apply bytes_ok_app. split; [assumption|]. destruct c; constructor; auto.
  Qed.

End WifProofs.

(* Proofs about Model/AlgorandMnemonic.v. *)
From Coq Require Import NArith Arith List Lia Bool.
From BU Require Import Base.Exn Base.Radix Base.Bytes Model.MnemWords Model.AlgorandMnemonic
  Lemmas.MnemWords.
Import ListNotations.
Open Scope N_scope.

Local Arguments N.pow : simpl never.
Local Arguments N.mul : simpl never.
Local Arguments N.add : simpl never.
Local Arguments N.div : simpl never.
Local Arguments N.modulo : simpl never.
Local Arguments N.shiftl : simpl never.
Local Arguments N.shiftr : simpl never.
Local Arguments N.land : simpl never.
Local Arguments N.lor : simpl never.
Local Arguments N.of_nat : simpl never.
Local Arguments N.to_nat : simpl never.

(* ------------------------------------------------------------------ bit operations as arithmetic *)
Lemma pow2_pos k : 0 < 2 ^ k.
Proof. apply N.neq_0_lt_0. apply N.pow_nonzero. discriminate. Qed.

Lemma land_mask a k : N.land a (N.shiftl 1 k - 1) = a mod 2 ^ k.
Proof.
  rewrite N.shiftl_1_l. rewrite <- N.pred_sub, <- N.ones_equiv. apply N.land_ones.
Qed.

Lemma shiftr_zero_iff v k : (N.shiftr v k =? 0) = true <-> v < 2 ^ k.
Proof.
  rewrite N.eqb_eq, N.shiftr_div_pow2. pose proof (pow2_pos k).
  split; intros H0.
  - apply N.div_small_iff in H0; lia.
  - apply N.div_small; assumption.
Qed.

Lemma lor_shiftl_add a v k : a < 2 ^ k -> N.lor a (N.shiftl v k) = a + v * 2 ^ k.
Proof.
  intros Ha. rewrite N.shiftl_mul_pow2.
  assert (D : N.land a (v * 2 ^ k) = 0).
  { apply N.bits_inj_0. intros i. rewrite N.land_spec.
    destruct (N.lt_ge_cases i k) as [L|L].
    - rewrite N.mul_pow2_bits_low by assumption. apply andb_false_r.
    - replace a with (a mod 2 ^ k) by (apply N.mod_small; assumption).
      rewrite N.mod_pow2_bits_high by assumption. reflexivity. }
  rewrite <- N.lxor_lor by assumption. symmetry. apply N.add_nocarry_lxor. assumption.
Qed.

Lemma pow_pow_mul t k : (2 ^ t) ^ k = 2 ^ (t * k).
Proof. symmetry. apply N.pow_mul_r. Qed.

Lemma r2pow_ge2 t : 0 < t -> 2 <= 2 ^ t.
Proof.
  intros H. replace t with (N.succ (N.pred t)) by lia. rewrite N.pow_succ_r'.
  pose proof (pow2_pos (N.pred t)). lia.
Qed.

(* digit lists of equal length with equal value are equal *)
Lemma from_le_inj_len r : 2 <= r -> forall a b, digits_ok r a -> digits_ok r b ->
  length a = length b -> from_le r a = from_le r b -> a = b.
Proof.
  intros Hr. induction a as [|x a IH]; intros [|y b] Ha Hb Hl E; try discriminate; [reflexivity|].
  inversion Ha as [|? ? Hx Ha']; subst. inversion Hb as [|? ? Hy Hb']; subst.
  cbn [from_le] in E. simpl in Hl.
  destruct (N.div_mod_unique r (from_le r a) (from_le r b) x y Hx Hy) as [Eq Er]; [lia|].
  subst. f_equal. apply IH; auto.
Qed.

Lemma r2048 : 2 <= 2048. Proof. lia. Qed.

Lemma from_le_single r x : from_le r [x] = x.
Proof. cbn [from_le]. lia. Qed.

(* ------------------------------------------------------------------ ConvertBits *)
Section ConvertBits.
  Variables from to : N.
  Hypothesis to_pos : 0 < to.

  Lemma drain_spec : forall fuel acc bits, (N.to_nat bits <= fuel)%nat -> acc < 2 ^ bits ->
    exists o a b, cb_drain fuel to acc bits = (o, a, b) /\
      digits_ok (2 ^ to) o /\
      acc = from_le (2 ^ to) o + 2 ^ (to * N.of_nat (length o)) * a /\
      bits = to * N.of_nat (length o) + b /\ b < to /\ a < 2 ^ b.
  Proof.
    induction fuel as [|f IH]; intros acc bits Hf Hacc.
    - exists [], acc, bits. assert (bits = 0) by lia. subst.
      split; [reflexivity|]. split; [constructor|]. cbn [from_le length]. change (N.of_nat 0) with 0.
      rewrite N.mul_0_r. change (2 ^ 0) with 1. repeat split; lia.
    - cbn [cb_drain]. destruct (N.leb_spec to bits) as [L|L].
      + assert (Hq : N.shiftr acc to < 2 ^ (bits - to)).
        { rewrite N.shiftr_div_pow2. apply N.div_lt_upper_bound; [pose proof (pow2_pos to); lia|].
          rewrite <- N.pow_add_r. replace (to + (bits - to)) with bits by lia. assumption. }
        destruct (IH (N.shiftr acc to) (bits - to) ltac:(lia) Hq) as (o & a & b & E & D & V & B & Bl & Al).
        rewrite E. exists (N.land acc (N.shiftl 1 to - 1) :: o), a, b.
        split; [reflexivity|]. rewrite land_mask.
        split; [constructor; [apply N.mod_lt; pose proof (pow2_pos to); lia|assumption]|].
        split; [|split; [|split; assumption]].
        * cbn [from_le length]. rewrite Nnat.Nat2N.inj_succ.
          replace (to * N.succ (N.of_nat (length o))) with (to + to * N.of_nat (length o)) by lia.
          rewrite N.pow_add_r. rewrite N.shiftr_div_pow2 in V.
          pose proof (N.div_mod acc (2 ^ to) ltac:(pose proof (pow2_pos to); lia)) as DM.
          rewrite V in DM at 1. lia.
        * cbn [length]. rewrite Nnat.Nat2N.inj_succ. lia.
      + exists [], acc, bits. split; [reflexivity|]. split; [constructor|].
        cbn [from_le length]. change (N.of_nat 0) with 0.
        rewrite N.mul_0_r. change (2 ^ 0) with 1. repeat split; lia.
  Qed.

  Lemma loop_spec : forall data acc bits, acc < 2 ^ bits -> bits < to ->
    Forall (fun v => v < 2 ^ from) data ->
    exists out, cb_loop from to data acc bits = Some out /\ digits_ok (2 ^ to) out /\
      from_le (2 ^ to) out = acc + 2 ^ bits * from_le (2 ^ from) data /\
      to * N.of_nat (length out) < bits + from * N.of_nat (length data) + to /\
      bits + from * N.of_nat (length data) <= to * N.of_nat (length out).
  Proof.
    induction data as [|v t IH]; intros acc bits Hacc Hb Hd.
    - cbn [cb_loop]. destruct (N.eqb_spec bits 0) as [->|Hn].
      + exists []. simpl in Hacc. split; [reflexivity|]. split; [constructor|]. simpl. lia.
      + exists [N.land acc (N.shiftl 1 to - 1)]. split; [reflexivity|]. rewrite land_mask.
        assert (Hlt : acc < 2 ^ to).
        { eapply N.lt_le_trans; [exact Hacc|]. apply N.pow_le_mono_r; lia. }
        rewrite N.mod_small by assumption.
        split; [constructor; [assumption|constructor]|]. rewrite from_le_single. simpl. lia.
    - inversion Hd as [|? ? Hv Hd']; subst. cbn [cb_loop].
      rewrite (proj2 (shiftr_zero_iff v from) Hv).
      rewrite (lor_shiftl_add acc v bits Hacc).
      assert (Hacc' : acc + v * 2 ^ bits < 2 ^ (bits + from)).
      { rewrite N.pow_add_r. pose proof (pow2_pos bits). nia. }
      destruct (drain_spec (N.to_nat (bits + from)) _ (bits + from) ltac:(lia) Hacc')
        as (o & a & b & E & D & V & B & Bl & Al).
      rewrite E. destruct (IH a b Al Bl Hd') as (out & L & Do & Vo & L1 & L2). rewrite L. simpl.
      exists (o ++ out). split; [reflexivity|]. split; [apply digits_ok_app; auto|].
      split.
      + rewrite (from_le_app (2 ^ to) (r2pow_ge2 to to_pos)), pow_pow_mul, Vo. cbn [from_le].
        assert (P : 2 ^ (to * N.of_nat (length o)) * 2 ^ b = 2 ^ bits * 2 ^ from).
        { rewrite <- !N.pow_add_r. f_equal. lia. }
        rewrite N.mul_add_distr_l, N.mul_assoc, P.
        rewrite (N.mul_add_distr_l (2 ^ bits)), (N.mul_assoc (2 ^ bits)). lia.
      + rewrite app_length, Nnat.Nat2N.inj_add. cbn [length]. rewrite Nnat.Nat2N.inj_succ. lia.
  Qed.

  Lemma convert_bits_spec data : Forall (fun v => v < 2 ^ from) data ->
    exists out, convert_bits data from to = Some out /\ digits_ok (2 ^ to) out /\
      from_le (2 ^ to) out = from_le (2 ^ from) data /\
      to * N.of_nat (length out) < from * N.of_nat (length data) + to /\
      from * N.of_nat (length data) <= to * N.of_nat (length out).
  Proof.
    intros H. destruct (loop_spec data 0 0 ltac:(simpl; lia) to_pos H) as (out & E & D & V & L1 & L2).
    exists out. split; [exact E|]. split; [assumption|]. simpl in V. split; lia.
  Qed.

End ConvertBits.

Lemma length_S_split' {A} (d : A) k (l : list A) : length l = S k ->
  exists p x, l = p ++ [x] /\ length p = k /\ removelast l = p /\ last l d = x.
Proof.
  intros H. assert (Hne : l <> []) by (intro; subst; discriminate).
  pose proof (app_removelast_last d Hne) as E.
  exists (removelast l), (last l d). split; [exact E|]. split; [|split; reflexivity].
  apply (f_equal (@length A)) in E. rewrite app_length in E. simpl in E. lia.
Qed.

(* ------------------------------------------------------------------ the codec *)
Section AlgorandProofs.
  Variable wl : list (list N).
  Variable word_nums : list N.
  Variable cklen : nat.
  Variable ent_bit_lens : list N.
  Variable word_bits : N.
  Variable sha : list N -> list N.

  Hypothesis wl_nodup : NoDup wl.
  Hypothesis wl_size : wl_len wl = 2048.
  Hypothesis nums_eq : word_nums = [25].
  Hypothesis cklen_eq : cklen = 2%nat.
  Hypothesis ent_eq : ent_bit_lens = [256].
  Hypothesis bits_eq : word_bits = 11.
  Hypothesis sha_len : forall x, length (sha x) = 32%nat.
  Hypothesis sha_ok : forall x, bytes_ok (sha x).

  Notation checksum_idx := (checksum_idx cklen word_bits sha).
  Notation encode := (encode wl cklen ent_bit_lens word_bits sha).
  Notation decode := (decode wl word_nums cklen word_bits sha).

  Lemma p11 : 2 ^ 11 = 2048. Proof. reflexivity. Qed.
  Lemma p8 : 2 ^ 8 = 256. Proof. reflexivity. Qed.

  Lemma bytes_lt b : bytes_ok b -> Forall (fun v => v < 2 ^ 8) b.
  Proof. rewrite p8. auto. Qed.

  (* 8 -> 11 on k bytes *)
  Lemma cb_8_11 b : bytes_ok b ->
    exists idx, convert_bits b 8 11 = Some idx /\ digits_ok 2048 idx /\
      from_le 2048 idx = le_to_int b /\
      11 * N.of_nat (length idx) < 8 * N.of_nat (length b) + 11 /\
      8 * N.of_nat (length b) <= 11 * N.of_nat (length idx).
  Proof.
    intros Hb. destruct (convert_bits_spec 8 11 ltac:(lia) b (bytes_lt b Hb)) as (o & E & D & V & L1 & L2).
    exists o. rewrite p11, p8 in *. auto.
  Qed.

  (* 11 -> 8 on k word indices *)
  Lemma cb_11_8 idx : digits_ok 2048 idx ->
    exists l, convert_bits idx 11 8 = Some l /\ bytes_ok l /\ le_to_int l = from_le 2048 idx /\
      8 * N.of_nat (length l) < 11 * N.of_nat (length idx) + 8 /\
      11 * N.of_nat (length idx) <= 8 * N.of_nat (length l).
  Proof.
    intros Hd. assert (Hd' : Forall (fun v => v < 2 ^ 11) idx) by (rewrite p11; exact Hd).
    destruct (convert_bits_spec 11 8 ltac:(lia) idx Hd') as (o & E & D & V & L1 & L2).
    exists o. rewrite p11, p8 in *. auto.
  Qed.

  Notation chk11 := (AlgorandMnemonic.checksum_idx cklen 11 sha).

  Lemma chk_total11 b : exists c, chk11 b = Ok c /\ c < 2048.
  Proof.
    unfold AlgorandMnemonic.checksum_idx. rewrite cklen_eq.
    assert (Hf : bytes_ok (firstn 2 (sha b))) by (apply bytes_ok_firstn, sha_ok).
    assert (Hl : length (firstn 2 (sha b)) = 2%nat) by (rewrite firstn_length, sha_len; reflexivity).
    destruct (cb_8_11 _ Hf) as (idx & E & D & _ & L1 & L2). rewrite E. simpl.
    rewrite Hl in *. destruct idx as [|c t]; [simpl in L2; lia|].
    exists c. split; [reflexivity|]. inversion D; assumption.
  Qed.

  Lemma chk_total b : exists c, checksum_idx b = Ok c /\ c < 2048.
  Proof. rewrite bits_eq. apply chk_total11. Qed.

  (* the 24 indices of a 32-byte entropy and the 33 bytes of 24 indices *)
  Lemma enc_idx b : bytes_ok b -> length b = 32%nat ->
    exists idx, convert_bits b 8 11 = Some idx /\ digits_ok 2048 idx /\ length idx = 24%nat /\
                from_le 2048 idx = le_to_int b.
  Proof.
    intros Hb Hl. destruct (cb_8_11 b Hb) as (idx & E & D & V & L1 & L2). rewrite Hl in *.
    exists idx. repeat split; auto. lia.
  Qed.

  Lemma dec_bytes idx : digits_ok 2048 idx -> length idx = 24%nat ->
    exists e z, convert_bits idx 11 8 = Some (e ++ [z]) /\ bytes_ok e /\ length e = 32%nat /\ z < 256 /\
                from_le 2048 idx = le_to_int e + 2 ^ 256 * z.
  Proof.
    intros Hd Hl. destruct (cb_11_8 idx Hd) as (l & E & B & V & L1 & L2). rewrite Hl in *.
    assert (Hll : length l = 33%nat) by lia.
    destruct (length_S_split' 0 32 l Hll) as (e & z & -> & He & _ & _).
    apply bytes_ok_app in B. destruct B as [Be Bz]. inversion Bz; subst.
    exists e, z. repeat split; auto. rewrite <- V. unfold le_to_int.
    rewrite (from_le_app 256 r256), He, from_le_single. reflexivity.
  Qed.

  Lemma le_to_int_lt32 e : bytes_ok e -> length e = 32%nat -> le_to_int e < 2 ^ 256.
  Proof.
    intros B L. pose proof (from_le_lt 256 r256 e B) as H. rewrite L in H. exact H.
  Qed.

  Lemma words_of_idx idx : digits_ok 2048 idx ->
    exists ws, mapM (word_at wl) idx = Ok ws /\ mapM (word_idx wl) ws = Ok idx /\ length ws = length idx.
  Proof.
    induction 1 as [|i idx Hi _ (ws & E & D & L)]; [exists (@nil (list N)); repeat split; reflexivity|].
    destruct (word_at_total wl i ltac:(rewrite wl_size; exact Hi)) as [w W].
    destruct (word_at_idx wl i w wl_nodup W) as [I _].
    exists (w :: ws). simpl. rewrite W, E, I, D. simpl. repeat split; congruence.
  Qed.

  Lemma idx_of_words ws idx : mapM (word_idx wl) ws = Ok idx ->
    digits_ok 2048 idx /\ mapM (word_at wl) idx = Ok ws /\ length idx = length ws /\
    Forall (fun w => In w wl) ws.
  Proof.
    revert idx; induction ws as [|w ws IH]; simpl; intros idx E.
    - inversion E; subst. repeat split; constructor.
    - destruct (word_idx wl w) as [i|] eqn:I; simpl in E; [|discriminate].
      destruct (mapM (word_idx wl) ws) as [t|] eqn:M; simpl in E; [|discriminate]. inversion E; subst.
      destruct (IH t eq_refl) as (D & A & L & F). destruct (word_idx_at _ _ _ I) as [W Lt].
      rewrite wl_size in Lt. simpl. rewrite W, A. simpl.
      repeat split; try constructor; auto. apply word_idx_ok_iff; eauto.
  Qed.

  Lemma ent_ok (b : list N) : memb (N.of_nat (length b) * 8) ent_bit_lens = true <-> length b = 32%nat.
  Proof. rewrite ent_eq. cbn [memb]. rewrite orb_false_r, N.eqb_eq. lia. Qed.

  Lemma nums_ok k : memb (N.of_nat k) word_nums = true <-> k = 25%nat.
  Proof. rewrite nums_eq. cbn [memb]. rewrite orb_false_r, N.eqb_eq. lia. Qed.

  (* ---- the decoder, as arithmetic on the index list ---- *)
  Lemma decode_spec conformant ws e :
    decode conformant ws = Ok e <->
    (length ws = 25%nat /\ exists idx, mapM (word_idx wl) ws = Ok idx /\
       (conformant = true -> from_le 2048 (removelast idx) < 2 ^ 256) /\
       int_to_le_fixed 32 (from_le 2048 (removelast idx) mod 2 ^ 256) = Ok e /\
       checksum_idx e = Ok (last idx 0)).
  Proof.
    unfold AlgorandMnemonic.decode. rewrite bits_eq.
    destruct (memb (N.of_nat (length ws)) word_nums) eqn:Mn.
    2:{ split; [discriminate|]. intros [L _]. apply nums_ok in L. congruence. }
    apply nums_ok in Mn.
    destruct (mapM (word_idx wl) ws) as [idx|] eqn:Mi; simpl.
    2:{ split; [discriminate|]. intros (_ & idx & Q & _). discriminate. }
    destruct (idx_of_words ws idx Mi) as (D & _ & Li & _). rewrite Mn in Li.
    destruct (length_S_split' 0 24 idx Li) as (p & c & Ei & Lp & Rp & Lc). rewrite Rp, Lc.
    assert (Dp : digits_ok 2048 p).
    { rewrite Ei in D. apply digits_ok_app in D. tauto. }
    destruct (dec_bytes p Dp Lp) as (b & z & Ec & Bb & Lb & Zl & V). rewrite Ec. simpl.
    rewrite removelast_last, last_last.
    pose proof (le_to_int_lt32 b Bb Lb) as Hb32.
    assert (Hmod : from_le 2048 p mod 2 ^ 256 = le_to_int b).
    { rewrite V. rewrite N.mul_comm, N.mod_add by (apply N.pow_nonzero; discriminate).
      apply N.mod_small; assumption. }
    assert (Hz : z = 0 <-> from_le 2048 p < 2 ^ 256).
    { rewrite V. pose proof (pow2_pos 256). split; [intros ->; lia|nia]. }
    assert (Hfix : int_to_le_fixed 32 (le_to_int b) = Ok b) by (rewrite <- Lb; apply le_fixed_roundtrip; assumption).
    split.
    - intros H. split; [assumption|]. exists idx. split; [reflexivity|]. rewrite Rp, Lc, Hmod, Hfix.
      destruct (chk11 b) as [c'|] eqn:C; simpl in H; [|discriminate].
      destruct (N.eqb_spec c' c) as [->|]; [|discriminate].
      destruct conformant.
      + destruct (N.eqb_spec z 0) as [Z|Z]; [|discriminate]. inversion H as [Hbe]. rewrite <- Hbe.
        split; [intros _; apply Hz; assumption|]. split; [reflexivity|assumption].
      + inversion H as [Hbe]. rewrite <- Hbe. split; [discriminate|]. split; [reflexivity|assumption].
    - intros (_ & idx' & Q & Hc & Hf & Hk). inversion Q as [Qi]. rewrite <- Qi in *. rewrite Rp, Hmod, Hfix in Hf.
      inversion Hf as [Hbe]. rewrite <- Hbe in *. rewrite Rp in Hc. rewrite Lc in Hk.
      assert (G : (if conformant then z =? 0 else true) = true).
      { destruct conformant; [|reflexivity]. apply N.eqb_eq. apply Hz. auto. }
      rewrite Hk. simpl. rewrite N.eqb_refl, G. reflexivity.
  Qed.

  (* ---- round trip ---- *)
  Theorem dec_enc conformant b : bytes_ok b -> length b = 32%nat ->
    exists ws, encode b = Ok ws /\ length ws = 25%nat /\ Forall (fun w => In w wl) ws /\
               decode conformant ws = Ok b.
  Proof using All.
    intros Hb Hl. destruct (enc_idx b Hb Hl) as (idx & E & D & L & V).
    destruct (chk_total b) as (c & C & Cl).
    assert (D' : digits_ok 2048 (idx ++ [c])) by (apply digits_ok_app; split; [assumption|constructor; [assumption|constructor]]).
    destruct (words_of_idx _ D') as (ws & W & I & Lw).
    exists ws. rewrite app_length, L in Lw. simpl in Lw.
    split; [|split; [assumption|split]].
    - unfold AlgorandMnemonic.encode. rewrite (proj2 (ent_ok b) Hl), C, bits_eq, E. simpl. exact W.
    - apply (idx_of_words ws _ I).
    - apply decode_spec. split; [assumption|]. exists (idx ++ [c]). split; [assumption|].
      rewrite removelast_last, last_last, V.
      pose proof (le_to_int_lt32 b Hb Hl) as Lt. rewrite (N.mod_small _ _ Lt).
      split; [intros _; assumption|]. split; [|assumption].
      rewrite <- Hl. apply le_fixed_roundtrip; assumption.
  Qed.

  (* ---- canonicity of the conformant decoder ---- *)
  Theorem accepted_is_canonical ws b : decode true ws = Ok b ->
    bytes_ok b /\ length b = 32%nat /\ encode b = Ok ws.
  Proof using All.
    intros H. apply decode_spec in H. destruct H as (Lw & idx & Mi & Hc & Hf & Hk).
    destruct (idx_of_words ws idx Mi) as (D & A & Li & _). rewrite Lw in Li.
    destruct (length_S_split' 0 24 idx Li) as (p & c & Ei & Lp & Rp & Lc). rewrite Rp in *. rewrite Lc in Hk.
    specialize (Hc eq_refl). rewrite (N.mod_small _ _ Hc) in Hf.
    apply int_to_le_fixed_ok in Hf. destruct Hf as (Bb & Lb & Vb).
    split; [assumption|]. split; [assumption|].
    destruct (enc_idx b Bb Lb) as (idx' & E & D' & L' & V').
    assert (idx' = p).
    { apply (from_le_inj_len 2048 ltac:(lia)); try assumption.
      - rewrite Ei in D. apply digits_ok_app in D. tauto.
      - congruence.
      - congruence. }
    subst idx'. unfold AlgorandMnemonic.encode.
    rewrite (proj2 (ent_ok b) Lb), Hk, bits_eq, E. simpl. rewrite <- Ei. exact A.
  Qed.

  (* ---- acceptance ---- *)
  Lemma high_iff p x : digits_ok 2048 p -> length p = 23%nat -> x < 2048 ->
    (from_le 2048 (p ++ [x]) < 2 ^ 256 <-> x < 8).
  Proof.
    intros D L X. clear - D L X. rewrite (from_le_app 2048 r2048), L, from_le_single.
    pose proof (from_le_lt 2048 ltac:(lia) p D) as B. rewrite L in B.
    change (2048 ^ N.of_nat 23) with (2 ^ 253) in B |- *. change (2 ^ 256) with (2 ^ 253 * 8).
    pose proof (pow2_pos 253). nia.
  Qed.

  Theorem accepts_iff conformant ws :
    (exists b, decode conformant ws = Ok b) <->
    (length ws = 25%nat /\ Forall (fun w => In w wl) ws /\
     exists idx, mapM (word_idx wl) ws = Ok idx /\
       (conformant = true -> nth 23 idx 0 < 8) /\
       exists b, int_to_le_fixed 32 (from_le 2048 (removelast idx) mod 2 ^ 256) = Ok b /\
                 checksum_idx b = Ok (last idx 0)).
  Proof using All.
    assert (Hi : forall idx, mapM (word_idx wl) ws = Ok idx -> length ws = 25%nat ->
                 (from_le 2048 (removelast idx) < 2 ^ 256 <-> nth 23 idx 0 < 8)).
    { intros idx Mi Lw. destruct (idx_of_words ws idx Mi) as (D & _ & Li & _). rewrite Lw in Li.
      destruct (length_S_split' 0 24 idx Li) as (p & c & Ei & Lp & Rp & Lc). rewrite Rp.
      rewrite Ei in D. apply digits_ok_app in D. destruct D as [Dp _].
      destruct (length_S_split' 0 23 p Lp) as (q & x & Ep & Lq & _ & _).
      rewrite Ep in Dp. apply digits_ok_app in Dp. destruct Dp as [Dq Dx]. inversion Dx; subst.
      rewrite <- app_assoc. rewrite app_nth2 by lia. rewrite Lq. simpl.
      apply high_iff; assumption. }
    split.
    - intros [b H]. apply decode_spec in H. destruct H as (Lw & idx & Mi & Hc & Hf & Hk).
      split; [assumption|]. split; [apply (idx_of_words ws idx Mi)|].
      exists idx. split; [assumption|]. split; [|eauto].
      intros C. apply (Hi idx Mi Lw). auto.
    - intros (Lw & _ & idx & Mi & Hc & b & Hf & Hk). exists b. apply decode_spec.
      split; [assumption|]. exists idx. split; [assumption|]. split; [|split; assumption].
      intros C. apply (Hi idx Mi Lw). auto.
  Qed.

  (* failures stay in the documented family *)
  Theorem decode_err_family conformant ws e : decode conformant ws = Err e ->
    e = ValueError \/ e = LibError MnemonicChecksumError.
  Proof using All.
    unfold AlgorandMnemonic.decode. rewrite bits_eq.
    destruct (memb (N.of_nat (length ws)) word_nums) eqn:Mn; [|intros Q; inversion Q; auto].
    apply nums_ok in Mn.
    destruct (mapM (word_idx wl) ws) as [idx|] eqn:Mi; simpl.
    2:{ intros Q; inversion Q; subst. apply mapM_err_inv in Mi. destruct Mi as (w & _ & Hw).
        apply word_idx_err in Hw. tauto. }
    destruct (idx_of_words ws idx Mi) as (D & _ & Li & _). rewrite Mn in Li.
    destruct (length_S_split' 0 24 idx Li) as (p & c & Ei & Lp & Rp & Lc). rewrite Rp, Lc.
    assert (Dp : digits_ok 2048 p) by (rewrite Ei in D; apply digits_ok_app in D; tauto).
    destruct (dec_bytes p Dp Lp) as (b & z & Ec & _). rewrite Ec. simpl.
    destruct (chk_total11 (removelast (b ++ [z]))) as (c' & C & _). rewrite C. simpl.
    destruct (c' =? c); [|intros Q; inversion Q; auto].
    destruct (if conformant then _ else _); [discriminate|intros Q; inversion Q; auto].
  Qed.

  (* ---- F9: the 255 other 24th words ---- *)
  Theorem f9_family b k : bytes_ok b -> length b = 32%nat -> 0 < k < 256 ->
    exists pre w23 wc i23 w23',
      encode b = Ok (pre ++ [w23; wc]) /\ length pre = 23%nat /\
      word_idx wl w23 = Ok i23 /\ i23 < 8 /\ word_at wl (i23 + 8 * k) = Ok w23' /\ w23' <> w23 /\
      decode false (pre ++ [w23'; wc]) = Ok b /\
      decode true (pre ++ [w23'; wc]) = Err ValueError.
  Proof using All.
    intros Hb Hl Hk. destruct (enc_idx b Hb Hl) as (idx & E & D & L & V).
    destruct (chk_total b) as (c & C & Cl).
    destruct (length_S_split' 0 23 idx L) as (q & x & Eq & Lq & _ & _). subst idx.
    apply digits_ok_app in D. destruct D as [Dq Dx]. pose proof (Forall_inv Dx) as Hx. simpl in Hx.
    pose proof (le_to_int_lt32 b Hb Hl) as B32.
    assert (Hx8 : x < 8) by (apply (high_iff q x Dq Lq Hx); rewrite V; assumption).
    destruct (words_of_idx q Dq) as (pre & Wq & Iq & Lpre).
    destruct (word_at_total wl x ltac:(rewrite wl_size; assumption)) as [w23 W23].
    destruct (word_at_total wl c ltac:(rewrite wl_size; assumption)) as [wc Wc].
    destruct (word_at_total wl (x + 8 * k) ltac:(rewrite wl_size; lia)) as [w23' W23'].
    destruct (word_at_idx wl _ _ wl_nodup W23) as [I23 _].
    destruct (word_at_idx wl _ _ wl_nodup Wc) as [Ic _].
    destruct (word_at_idx wl _ _ wl_nodup W23') as [I23' _].
    exists pre, w23, wc, x, w23'.
    assert (Enc : encode b = Ok (pre ++ [w23; wc])).
    { unfold AlgorandMnemonic.encode. rewrite (proj2 (ent_ok b) Hl), C, bits_eq, E. simpl.
      rewrite <- app_assoc. simpl. rewrite mapM_app_local, Wq. simpl. rewrite W23, Wc. reflexivity. }
    assert (Mi : mapM (word_idx wl) (pre ++ [w23'; wc]) = Ok (q ++ [x + 8 * k; c])).
    { rewrite mapM_app_local, Iq. simpl. rewrite I23', Ic. reflexivity. }
    assert (Rl : removelast (q ++ [x + 8 * k; c]) = q ++ [x + 8 * k]).
    { change (q ++ [x + 8 * k; c]) with (q ++ [x + 8 * k] ++ [c]). rewrite app_assoc. apply removelast_last. }
    assert (Ll : last (q ++ [x + 8 * k; c]) 0 = c).
    { change (q ++ [x + 8 * k; c]) with (q ++ [x + 8 * k] ++ [c]). rewrite app_assoc. apply last_last. }
    assert (Vq : from_le 2048 (q ++ [x + 8 * k]) = le_to_int b + 2 ^ 256 * k).
    { rewrite (from_le_app 2048 r2048), from_le_single, Lq.
      rewrite (from_le_app 2048 r2048), from_le_single, Lq in V.
      change (2048 ^ N.of_nat 23) with (2 ^ 253) in V |- *. change (2 ^ 256) with (2 ^ 253 * 8). lia. }
    split; [exact Enc|]. split; [congruence|]. split; [assumption|]. split; [assumption|].
    split; [assumption|]. split.
    { intros Q. subst w23'. rewrite I23 in I23'. inversion I23'. lia. }
    split.
    - apply decode_spec. split; [rewrite app_length; simpl; lia|].
      exists (q ++ [x + 8 * k; c]). split; [exact Mi|]. rewrite Rl, Ll, Vq.
      split; [discriminate|].
      rewrite N.mul_comm, N.mod_add by (apply N.pow_nonzero; discriminate).
      rewrite (N.mod_small _ _ B32). split; [|assumption].
      rewrite <- Hl. apply le_fixed_roundtrip; assumption.
    - destruct (AlgorandMnemonic.decode wl word_nums cklen word_bits sha true (pre ++ [w23'; wc])) as [b'|e] eqn:Dt.
      + exfalso. apply decode_spec in Dt. destruct Dt as (_ & idx' & Mi' & Hc & _).
        rewrite Mi in Mi'. inversion Mi'; subst idx'. specialize (Hc eq_refl). rewrite Rl, Vq in Hc.
        pose proof (pow2_pos 256). nia.
      + (* which error: the checksum verifies, so it is the dropped-byte test that fails *)
        unfold AlgorandMnemonic.decode in Dt. rewrite bits_eq in Dt.
        rewrite (proj2 (nums_ok _)) in Dt by (rewrite app_length; simpl; lia).
        rewrite Mi in Dt. simpl in Dt. rewrite Rl, Ll in Dt.
        assert (Dd : digits_ok 2048 (q ++ [x + 8 * k])).
        { apply digits_ok_app. split; [assumption|]. constructor; [lia|constructor]. }
        destruct (dec_bytes _ Dd ltac:(rewrite app_length; simpl; lia)) as (e' & z & Ec & Be & Le & Zl & Vz).
        rewrite Ec in Dt. simpl in Dt. rewrite last_last, removelast_last in Dt.
        assert (Ee : e' = b).
        { apply (from_le_inj_len 256 r256); try assumption; [congruence|].
          change (from_le 256 e') with (le_to_int e'). change (from_le 256 b) with (le_to_int b).
          rewrite Vq in Vz. pose proof (le_to_int_lt32 e' Be Le). pose proof (pow2_pos 256). nia. }
        rewrite Ee in Dt. rewrite bits_eq in C. rewrite C in Dt. simpl in Dt. rewrite N.eqb_refl in Dt.
        destruct (N.eqb_spec z 0) as [Z|Z]; [|inversion Dt; reflexivity].
        exfalso. rewrite Z, Ee in Vz. rewrite Vq in Vz. pose proof (pow2_pos 256). nia.
  Qed.
End AlgorandProofs.

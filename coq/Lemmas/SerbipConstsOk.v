(* Facts about the constants regenerated from /repo into Gen/SerbipConsts.v, re-proved by the kernel on
   every run.  A source edit that changes a width, an offset, a version pair, ... breaks one of these and
   with it every theorem that depends on the fact. *)
From Coq Require Import NArith ZArith List Lia Bool.
From BU Require Import Base.Bytes Gen.SerbipConsts.
Import ListNotations.
Open Scope N_scope.

(* ---- BIP-32 key data / serialisation widths ---- *)
Lemma c_ver_len : bip32_ver_len = 4%nat.            Proof. reflexivity. Qed.
Lemma c_depth_len : bip32_depth_len = 1%nat.        Proof. reflexivity. Qed.
Lemma c_fprint_len : bip32_fprint_len = 4%nat.      Proof. reflexivity. Qed.
Lemma c_index_len : bip32_index_len = 4%nat.        Proof. reflexivity. Qed.
Lemma c_cc_len : bip32_chaincode_len = 32%nat.      Proof. reflexivity. Qed.
Lemma c_index_max : bip32_index_max = 4294967295.   Proof. reflexivity. Qed.
Lemma c_fprint_master : bip32_fprint_master = [0; 0; 0; 0].  Proof. reflexivity. Qed.
Lemma c_ser_pub_len : bip32_ser_pub_len = 78%nat.   Proof. reflexivity. Qed.
Lemma c_ser_priv_lens : bip32_ser_priv_lens = [78%nat; 110%nat].  Proof. reflexivity. Qed.
Lemma c_priv_pad : bip32_priv_pad = 0.              Proof. reflexivity. Qed.
Lemma c_priv_pad_expected : bip32_priv_pad_expected = 0.  Proof. reflexivity. Qed.
Lemma c_slip32_pad : slip32_priv_pad = 0 /\ slip32_priv_pad_expected = 0.  Proof. split; reflexivity. Qed.

(* every configured (public, private) version pair: 4 bytes each, well-formed bytes, and distinct *)
Definition ver_pair_okb (v : list N * list N) : bool :=
  (length (fst v) =? bip32_ver_len)%nat && (length (snd v) =? bip32_ver_len)%nat &&
  bytes_okb (fst v) && bytes_okb (snd v) && negb (list_eqb (fst v) (snd v)).

Lemma key_net_versions_okb : forallb ver_pair_okb bip32_key_net_versions = true.
Proof. vm_compute. reflexivity. Qed.

Lemma key_net_versions_nonempty : bip32_key_net_versions <> [].
Proof. vm_compute. discriminate. Qed.

Lemma key_net_versions_ok v : In v bip32_key_net_versions ->
  length (fst v) = 4%nat /\ length (snd v) = 4%nat /\ bytes_ok (fst v) /\ bytes_ok (snd v) /\ fst v <> snd v.
Proof.
  intros I. pose proof key_net_versions_okb as H. rewrite forallb_forall in H. specialize (H v I).
  unfold ver_pair_okb in H. rewrite !andb_true_iff in H. destruct H as ((((A & B) & C) & D) & E).
  apply Nat.eqb_eq in A, B. rewrite c_ver_len in A, B.
  apply bytes_okb_spec in C, D. repeat split; auto.
  intro F. rewrite F, list_eqb_refl in E. discriminate.
Qed.

(* SLIP-32 standard human-readable parts: equal length, distinct *)
Lemma slip32_std_ok : length slip32_std_pub = length slip32_std_priv /\ slip32_std_pub <> slip32_std_priv.
Proof. split; [reflexivity|]. vm_compute. discriminate. Qed.

(* Facts about the constants regenerated from /repo into Gen/SerbipConsts.v, re-proved by the kernel on
   every run.  A source edit that changes a width, an offset, a version pair, ... breaks one of these and
   with it every theorem that depends on the fact. *)
From Coq Require Import NArith ZArith List Lia Bool.
From BU Require Import Base.Bytes Gen.SerbipConsts.
Import ListNotations.
Open Scope N_scope.

(* ---- BIP-32 key data / serialisation widths ---- *)
Lemma c_ver_len : bip32_ver_len = 4%nat.            Proof. reflexivity. Qed.
Lemma c_depth_len : bip32_depth_len = 1%nat.        Proof. reflexivity. Qed.
Lemma c_fprint_len : bip32_fprint_len = 4%nat.      Proof. reflexivity. Qed.
Lemma c_index_len : bip32_index_len = 4%nat.        Proof. reflexivity. Qed.
Lemma c_cc_len : bip32_chaincode_len = 32%nat.      Proof. reflexivity. Qed.
Lemma c_index_max : bip32_index_max = 4294967295.   Proof. reflexivity. Qed.
Lemma c_fprint_master : bip32_fprint_master = [0; 0; 0; 0].  Proof. reflexivity. Qed.
Lemma c_ser_pub_len : bip32_ser_pub_len = 78%nat.   Proof. reflexivity. Qed.
Lemma c_ser_priv_lens : bip32_ser_priv_lens = [78%nat; 110%nat].  Proof. reflexivity. Qed.
Lemma c_priv_pad : bip32_priv_pad = 0.              Proof. reflexivity. Qed.
Lemma c_priv_pad_expected : bip32_priv_pad_expected = 0.  Proof. reflexivity. Qed.
Lemma c_slip32_pad : slip32_priv_pad = 0 /\ slip32_priv_pad_expected = 0.  Proof. split; reflexivity. Qed.

(* every configured (public, private) version pair: 4 bytes each, well-formed bytes, and distinct *)
Definition ver_pair_okb (v : list N * list N) : bool :=
  (length (fst v) =? bip32_ver_len)%nat && (length (snd v) =? bip32_ver_len)%nat &&
  bytes_okb (fst v) && bytes_okb (snd v) && negb (list_eqb (fst v) (snd v)).

Lemma key_net_versions_okb : forallb ver_pair_okb bip32_key_net_versions = true.
Proof. vm_compute. reflexivity. Qed.

Lemma key_net_versions_nonempty : bip32_key_net_versions <> [].
Proof. vm_compute. discriminate. Qed.

Lemma key_net_versions_ok v : In v bip32_key_net_versions ->
  length (fst v) = 4%nat /\ length (snd v) = 4%nat /\ bytes_ok (fst v) /\ bytes_ok (snd v) /\ fst v <> snd v.
Proof.
  intros I. pose proof key_net_versions_okb as H. rewrite forallb_forall in H. specialize (H v I).
  unfold ver_pair_okb in H. rewrite !andb_true_iff in H. destruct H as ((((A & B) & C) & D) & E).
  apply Nat.eqb_eq in A, B. rewrite c_ver_len in A, B.
  apply bytes_okb_spec in C, D. repeat split; auto.
  intro F. rewrite F, list_eqb_refl in E. discriminate.
Qed.

(* SLIP-32 standard human-readable parts: equal length, distinct *)
Lemma slip32_std_ok : length slip32_std_pub = length slip32_std_priv /\ slip32_std_pub <> slip32_std_priv.
Proof. split; [reflexivity|]. vm_compute. discriminate. Qed.

(* ---- WIF / BIP-38 constants ---- *)
Lemma c_ecdsa_priv_len : ecdsa_priv_len = 32%nat.           Proof. reflexivity. Qed.
Lemma c_wif_suffix : wif_compr_suffix = 1.                   Proof. reflexivity. Qed.
Lemma c_order_lt : secp256k1_order < 256 ^ 32.               Proof. vm_compute. reflexivity. Qed.
Lemma c_order_pos : 1 < secp256k1_order.                     Proof. vm_compute. reflexivity. Qed.
Lemma c_addr_hash_len : bip38_addr_hash_len = 4%nat.        Proof. reflexivity. Qed.
Lemma c_noec_enc_len : bip38_noec_enc_len = 39%nat.         Proof. reflexivity. Qed.
Lemma c_noec_prefix : bip38_noec_prefix = [1; 66].           Proof. reflexivity. Qed.   (* 0x01 0x42 *)
Lemma c_noec_flags : bip38_noec_flag_compr = 224 /\ bip38_noec_flag_uncompr = 192.   (* 0xe0, 0xc0 *)
Proof. split; reflexivity. Qed.
Lemma c_noec_scrypt : bip38_noec_scrypt_n = 16384 /\ bip38_noec_scrypt_r = 8 /\ bip38_noec_scrypt_p = 8 /\
                      bip38_noec_scrypt_len = 64.
Proof. repeat split; reflexivity. Qed.
(* the literal slice bounds in the function bodies are the standard's field offsets *)
Lemma c_noec_dec_slices : bip38_noec_dec_slices = [(0, 2); (2, 3); (3, 7); (7, 23); (23, 0)]%nat.
Proof. reflexivity. Qed.
Lemma c_noec_enc_slices : bip38_noec_enc_slices = [(0, 16); (0, 16); (16, 0); (16, 0)]%nat.
Proof. reflexivity. Qed.

Lemma c_ec_lot_seq : bip38_ec_lot_min = 0%Z /\ bip38_ec_lot_max = 1048575%Z /\ bip38_ec_seq_min = 0%Z /\
                     bip38_ec_seq_max = 4095%Z /\ bip38_ec_lotseq_len = 4%nat /\ bip38_ec_salt_lotseq_len = 4%nat /\
                     bip38_ec_salt_nolotseq_len = 8%nat.
Proof. repeat split; reflexivity. Qed.
Lemma c_ec_misc : bip38_ec_intpass_len = 49%nat /\ bip38_ec_enc_len = 39%nat /\ bip38_ec_seedb_len = 24%nat /\
                  bip38_ec_prefix = [1; 67] /\ bip38_ec_flag_bit_compr = 5 /\ bip38_ec_flag_bit_lotseq = 2.
Proof. repeat split; reflexivity. Qed.
Lemma c_ec_magic : bip38_ec_magic_lotseq = [44; 233; 179; 225; 255; 57; 226; 81] /\
                   bip38_ec_magic_nolotseq = [44; 233; 179; 225; 255; 57; 226; 83].
Proof. split; reflexivity. Qed.
Lemma c_ec_scrypt : bip38_ec_pre_n = 16384 /\ bip38_ec_pre_r = 8 /\ bip38_ec_pre_p = 8 /\ bip38_ec_pre_len = 32 /\
                    bip38_ec_halves_n = 1024 /\ bip38_ec_halves_r = 1 /\ bip38_ec_halves_p = 1 /\ bip38_ec_halves_len = 64.
Proof. repeat split; reflexivity. Qed.
Lemma c_ec_gen_slices : bip38_ec_gen_slices = [(0, 8); (8, 16); (16, 0); (0, 8)]%nat.  Proof. reflexivity. Qed.
Lemma c_ec_encseedb_slices : bip38_ec_encseedb_slices = [(0, 16); (0, 16); (8, 0); (16, 0); (16, 0)]%nat.
Proof. reflexivity. Qed.
Lemma c_ec_dec_slices : bip38_ec_dec_slices = [(0, 2); (2, 3); (3, 7); (7, 15); (15, 23); (23, 0)]%nat.
Proof. reflexivity. Qed.
Lemma c_ec_factorb_slices : bip38_ec_factorb_slices = [(16, 0); (0, 8); (8, 0); (0, 16)]%nat.
Proof. reflexivity. Qed.

(* ---- Electrum / brainwallet / SPL token constants ---- *)
Lemma c_v1_seq : electrum_v1_seq_addr_first = true /\ electrum_v1_seq_sep = [58].   (* f"{addr_idx}:{change_idx}:" *)
Proof. split; reflexivity. Qed.
Lemma c_v2_paths : electrum_v2_std_change_first = true /\ electrum_v2_segwit_change_first = true /\
                   electrum_v2_segwit_acc_index = 2147483648.                          (* m/c/i, m/0'/c/i *)
Proof. repeat split; reflexivity. Qed.
Lemma c_bw_defaults : bw_pbkdf2_key_len = 32 /\ bw_pbkdf2_def_itr = 2097152 /\ bw_scrypt_key_len = 32 /\
                      bw_scrypt_def_n = 131072 /\ bw_scrypt_def_r = 8 /\ bw_scrypt_def_p = 8.
Proof. repeat split; reflexivity. Qed.
Lemma c_spl : spl_bump_max = 255 /\ spl_seeds_max_num = 16%nat /\ ed25519_pub_len = 32%nat /\ ed25519_pub_prefix = [0] /\
              spl_pda_marker = [80; 114; 111; 103; 114; 97; 109; 68; 101; 114; 105; 118; 101; 100; 65; 100; 100; 114; 101; 115; 115].
Proof. repeat split; reflexivity. Qed.

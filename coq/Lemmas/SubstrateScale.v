(* Proofs about Model/SubstrateScale.v: the UTF-8 encoder against the reference decoder, and the
   SCALE compact / fixed-width integer encoders. *)
From Coq Require Import NArith ZArith List Bool Lia.
From BU Require Import Base.Exn Base.Radix Base.Bytes Gen.PathConsts Model.PyText Model.SubstrateScale
  Lemmas.PathConstsOk.
From BU Require Lemmas.Bip32Path.
Import ListNotations.
Open Scope N_scope.

(* ------------------------------------------------------------------ UTF-8 *)

(* Unicode scalar values: what a str may contain and UTF-8 can encode *)
Definition scalar (c : N) : Prop := c < 1114112 /\ ~ (55296 <= c /\ c <= 57343).

Definition utf8_len (c : N) : nat :=
  if c <? 128 then 1 else if c <? 2048 then 2 else if c <? 65536 then 3 else 4.

Ltac split_div c d :=
  let q := fresh "q" in let r := fresh "r" in
  pose proof (N.div_mod c d ltac:(lia)); pose proof (N.mod_lt c d ltac:(lia));
  set (q := c / d) in *; set (r := c mod d) in *; clearbody q r.

Ltac btest :=
  repeat match goal with
         | |- context [?a <? ?b] => destruct (N.ltb_spec a b); try lia
         | |- context [?a <=? ?b] => destruct (N.leb_spec a b); try lia
         end.

Lemma dec1 c rest : c < 128 -> utf8_decode (c :: rest) = option_map (cons c) (utf8_decode rest).
Proof. intros H. cbn [utf8_decode]. btest. reflexivity. Qed.

Ltac dec_finish :=
  cbn [andb negb orb]; try lia;
  match goal with
  | |- option_map (cons ?a) _ = option_map (cons ?b) _ => replace a with b by lia; reflexivity
  end.

Lemma dec2 q r rest : 2 <= q -> q < 32 -> r < 64 ->
  utf8_decode (192 + q :: 128 + r :: rest) = option_map (cons (q * 64 + r)) (utf8_decode rest).
Proof. intros. cbn [utf8_decode]. unfold is_cont. btest; dec_finish. Qed.

Lemma dec3 q r s rest : q < 16 -> r < 64 -> s < 64 -> 2048 <= q * 4096 + r * 64 + s ->
  ~ (55296 <= q * 4096 + r * 64 + s <= 57343) ->
  utf8_decode (224 + q :: 128 + r :: 128 + s :: rest) =
  option_map (cons (q * 4096 + r * 64 + s)) (utf8_decode rest).
Proof. intros. cbn [utf8_decode]. unfold is_cont. btest; dec_finish. Qed.

Lemma dec4 q r s t rest : q < 8 -> r < 64 -> s < 64 -> t < 64 ->
  65536 <= q * 262144 + r * 4096 + s * 64 + t -> q * 262144 + r * 4096 + s * 64 + t <= 1114111 ->
  utf8_decode (240 + q :: 128 + r :: 128 + s :: 128 + t :: rest) =
  option_map (cons (q * 262144 + r * 4096 + s * 64 + t)) (utf8_decode rest).
Proof. intros. cbn [utf8_decode]. unfold is_cont. btest; dec_finish. Qed.

(* one code point: success exactly on scalar values, bytes, length, and the decoder inverts it *)
Lemma utf8_cp_spec c :
  (scalar c -> exists b, utf8_cp c = Ok b /\ bytes_ok b /\ length b = utf8_len c /\
                        forall rest, utf8_decode (b ++ rest) = option_map (cons c) (utf8_decode rest)) /\
  (~ scalar c -> utf8_cp c = Err UnicodeError).
Proof.
  unfold scalar, utf8_cp, utf8_len. split.
  - intros [Hc Hs].
    destruct (N.ltb_spec c 128); [|destruct (N.ltb_spec c 2048); [|destruct (N.ltb_spec c 65536)]].
    + exists [c]. split; [reflexivity|]. split; [repeat constructor; lia|]. split; [reflexivity|].
      intros rest. apply dec1. assumption.
    + eexists. split; [reflexivity|]. split_div c 64.
      split; [repeat constructor; lia|]. split; [reflexivity|]. intros rest. cbn [app].
      rewrite dec2 by lia. replace (q * 64 + r) with c by lia. reflexivity.
    + assert (E : (55296 <=? c) && (c <=? 57343) = false).
      { destruct (N.leb_spec 55296 c); destruct (N.leb_spec c 57343); try reflexivity. lia. }
      rewrite E. eexists. split; [reflexivity|].
      pose proof (N.div_mod c 64 ltac:(lia)). pose proof (N.mod_lt c 64 ltac:(lia)).
      set (s := c mod 64) in *. set (u := c / 64) in *.
      replace (c / 4096) with (u / 64) by (unfold u; rewrite N.div_div by lia; reflexivity).
      clearbody s u. split_div u 64.
      split; [repeat constructor; lia|]. split; [reflexivity|]. intros rest. cbn [app].
      rewrite dec3 by lia. replace (q * 4096 + r * 64 + s) with c by lia. reflexivity.
    + destruct (N.ltb_spec c 1114112); [|lia]. eexists. split; [reflexivity|].
      pose proof (N.div_mod c 64 ltac:(lia)). pose proof (N.mod_lt c 64 ltac:(lia)).
      set (t := c mod 64) in *. set (u := c / 64) in *.
      replace (c / 4096) with (u / 64) by (unfold u; rewrite N.div_div by lia; reflexivity).
      replace (c / 262144) with (u / 64 / 64) by (unfold u; rewrite !N.div_div by lia; reflexivity).
      clearbody t u.
      pose proof (N.div_mod u 64 ltac:(lia)). pose proof (N.mod_lt u 64 ltac:(lia)).
      set (s := u mod 64) in *. set (w := u / 64) in *. clearbody s w. split_div w 64.
      split; [repeat constructor; lia|]. split; [reflexivity|]. intros rest. cbn [app].
      rewrite dec4 by lia. replace (q * 262144 + r * 4096 + s * 64 + t) with c by lia. reflexivity.
  - intros Hn.
    destruct (N.ltb_spec c 128); [exfalso; apply Hn; lia|].
    destruct (N.ltb_spec c 2048); [exfalso; apply Hn; lia|].
    destruct (N.ltb_spec c 65536).
    + destruct (N.leb_spec 55296 c); destruct (N.leb_spec c 57343); cbn [andb]; try reflexivity; exfalso; apply Hn; lia.
    + destruct (N.ltb_spec c 1114112); [exfalso; apply Hn; lia|reflexivity].
Qed.

Theorem utf8_encode_spec s :
  (Forall scalar s -> exists b, utf8_encode s = Ok b /\ bytes_ok b /\
      length b = fold_right (fun c n => (utf8_len c + n)%nat) 0%nat s /\ utf8_decode b = Some s) /\
  (~ Forall scalar s -> utf8_encode s = Err UnicodeError).
Proof.
  induction s as [|c t [IH1 IH2]].
  - split; [intros _; exists []; repeat split; constructor|intros H; exfalso; apply H; constructor].
  - split.
    + intros H. inversion H as [|? ? Hc Ht]; subst.
      destruct (proj1 (utf8_cp_spec c) Hc) as (b & Eb & Bb & Lb & Db).
      destruct (IH1 Ht) as (r & Er & Br & Lr & Dr).
      exists (b ++ r). cbn [utf8_encode]. rewrite Eb, Er. cbn [bind]. split; [reflexivity|].
      split; [apply bytes_ok_app; auto|]. split; [rewrite app_length, Lb, Lr; reflexivity|].
      rewrite Db, Dr. reflexivity.
    + intros H. cbn [utf8_encode].
      destruct (utf8_cp c) as [b|e] eqn:Eb.
      * assert (Hc : scalar c).
        { destruct (N.lt_ge_cases c 1114112) as [H1|H1].
          - destruct (N.le_gt_cases 55296 c) as [H2|H2]; [destruct (N.le_gt_cases c 57343) as [H3|H3]|].
            + rewrite (proj2 (utf8_cp_spec c)) in Eb; [discriminate|]. unfold scalar. lia.
            + unfold scalar. lia.
            + unfold scalar. lia.
          - rewrite (proj2 (utf8_cp_spec c)) in Eb; [discriminate|]. unfold scalar. lia. }
        cbn [bind]. rewrite IH2; [reflexivity|]. intros Ht. apply H. constructor; assumption.
      * destruct (N.lt_ge_cases c 1114112) as [H1|H1].
        -- destruct (N.le_gt_cases 55296 c) as [H2|H2]; [destruct (N.le_gt_cases c 57343) as [H3|H3]|].
           ++ rewrite (proj2 (utf8_cp_spec c)) in Eb by (unfold scalar; lia). inversion Eb. reflexivity.
           ++ destruct (proj1 (utf8_cp_spec c)) as (b & Eb' & _); [unfold scalar; lia|]. rewrite Eb' in Eb; discriminate.
           ++ destruct (proj1 (utf8_cp_spec c)) as (b & Eb' & _); [unfold scalar; lia|]. rewrite Eb' in Eb; discriminate.
        -- rewrite (proj2 (utf8_cp_spec c)) in Eb by (unfold scalar; lia). inversion Eb. reflexivity.
Qed.

Definition scalarb (c : N) : bool := (c <? 1114112) && negb ((55296 <=? c) && (c <=? 57343)).
Lemma scalarb_spec c : scalarb c = true <-> scalar c.
Proof.
  unfold scalarb, scalar.
  destruct (N.ltb_spec c 1114112); destruct (N.leb_spec 55296 c); destruct (N.leb_spec c 57343); cbn [andb negb];
    split; try discriminate; try lia; intros; try reflexivity; lia.
Qed.

Lemma Forall_scalar_dec s : Forall scalar s \/ ~ Forall scalar s.
Proof.
  destruct (forallb scalarb s) eqn:E.
  - left. apply Forall_forall. intros c I. rewrite forallb_forall in E. apply scalarb_spec. auto.
  - right. intros F. rewrite Forall_forall in F.
    assert (forallb scalarb s = true) by (apply forallb_forall; intros c I; apply scalarb_spec; auto). congruence.
Qed.

Corollary utf8_decode_encode s b : utf8_encode s = Ok b -> utf8_decode b = Some s.
Proof.
  intros H. destruct (utf8_encode_spec s) as [H1 H2].
  destruct (Forall_scalar_dec s) as [F|F]; [|rewrite (H2 F) in H; discriminate].
  destruct (H1 F) as (b' & E & _ & _ & D). rewrite E in H. inversion H; subst. exact D.
Qed.

Corollary utf8_encode_inj s1 s2 b : utf8_encode s1 = Ok b -> utf8_encode s2 = Ok b -> s1 = s2.
Proof. intros H1 H2. apply utf8_decode_encode in H1, H2. congruence. Qed.

Lemma utf8_encode_err s e : utf8_encode s = Err e -> e = UnicodeError.
Proof.
  intros H. destruct (utf8_encode_spec s) as [H1 H2].
  destruct (Forall_scalar_dec s) as [F|F].
  - destruct (H1 F) as (b & E & _). rewrite E in H. discriminate.
  - rewrite (H2 F) in H. inversion H. reflexivity.
Qed.

(* ------------------------------------------------------------------ SCALE compact integers *)

Lemma scale_consts :
  scale_cuint_modes = [(2, 0, 1%nat); (2, 1, 2%nat); (2, 2, 4%nat)] /\
  scale_single_byte_max = 2 ^ 6 - 1 /\ scale_two_byte_max = 2 ^ 14 - 1 /\ scale_four_byte_max = 2 ^ 30 - 1.
Proof. vm_compute. auto. Qed.

Lemma shift2_flag v f : f < 4 -> N.lor (N.shiftl v 2) f = 4 * v + f.
Proof.
  intros Hf. rewrite <- Lemmas.Bip32Path.add_nocarry_lor.
  - rewrite N.shiftl_mul_pow2. change (2 ^ 2) with 4. lia.
  - apply N.bits_inj_0. intros n. rewrite N.land_spec.
    destruct (N.lt_ge_cases n 2) as [Hn|Hn].
    + rewrite N.shiftl_spec_low by exact Hn. reflexivity.
    + rewrite (Lemmas.Bip32Path.high_bits_zero f 2 n) by (simpl; lia). apply andb_false_r.
Qed.

Theorem cuint_encode_spec v :
  (v < 2 ^ 6 -> cuint_encode v = Ok [4 * v]) /\
  (2 ^ 6 <= v < 2 ^ 14 -> exists b, cuint_encode v = Ok b /\ length b = 2%nat /\ bytes_ok b /\ le_to_int b = 4 * v + 1) /\
  (2 ^ 14 <= v < 2 ^ 30 -> exists b, cuint_encode v = Ok b /\ length b = 4%nat /\ bytes_ok b /\ le_to_int b = 4 * v + 2).
Proof.
  unfold cuint_encode. destruct scale_consts as (-> & -> & -> & ->). unfold cuint_fixed.
  change (2 ^ 6 - 1) with 63. change (2 ^ 14 - 1) with 16383. change (2 ^ 30 - 1) with 1073741823.
  change (2 ^ 6) with 64. change (2 ^ 14) with 16384. change (2 ^ 30) with 1073741824.
  split; [|split].
  - intros H. destruct (N.leb_spec v 63); [|lia]. rewrite shift2_flag by lia. rewrite N.add_0_r.
    unfold int_to_le_fixed. destruct (N.eq_dec v 0) as [->|Hv]; [reflexivity|].
    assert (E : to_le 256 (4 * v) = [4 * v]).
    { apply (from_le_inj 256 r256); [apply to_le_canon, r256|cbn [canon_le]; lia|].
      rewrite (from_to_le 256 r256). cbn [from_le]. lia. }
    rewrite E. reflexivity.
  - intros H. destruct (N.leb_spec v 63); [lia|]. destruct (N.leb_spec v 16383); [|lia].
    rewrite shift2_flag by lia.
    destruct (int_to_le_fixed_fits 2 (4 * v + 1)) as (b & Eb); [change (256 ^ N.of_nat 2) with 65536; lia|].
    exists b. destruct (int_to_le_fixed_ok _ _ _ Eb) as (B1 & B2 & B3). auto.
  - intros H. destruct (N.leb_spec v 63); [lia|]. destruct (N.leb_spec v 16383); [lia|].
    destruct (N.leb_spec v 1073741823); [|lia]. rewrite shift2_flag by lia.
    destruct (int_to_le_fixed_fits 4 (4 * v + 2)) as (b & Eb); [change (256 ^ N.of_nat 4) with 4294967296; lia|].
    exists b. destruct (int_to_le_fixed_ok _ _ _ Eb) as (B1 & B2 & B3). auto.
Qed.

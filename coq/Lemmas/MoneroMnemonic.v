(* Proofs about Model/MoneroMnemonic.v. *)
From Coq Require Import NArith Arith List Lia Bool.
From BU Require Import Base.Exn Base.Bytes Model.MnemWords Model.MnemText Model.ChunkMnemonic
  Model.MoneroMnemonic Lemmas.MnemWords Lemmas.MnemText Lemmas.ChunkMnemonic.
From BU Require Import Gen.MnemConsts.
Import ListNotations.
Open Scope N_scope.

Local Arguments Nat.div _ _ : simpl never.

Definition cnt_ok (k : nat) : Prop := (k = 12 \/ k = 13 \/ k = 24 \/ k = 25)%nat.
Definition cnt_chk (k : nat) : Prop := (k = 13 \/ k = 25)%nat.

(* what the theorems need of a language: no duplicate word, n words, every word UTF-8 encodable *)
Definition lang_ok (n : N) (L : list (list N) * nat) : Prop :=
  NoDup (fst L) /\ wl_len (fst L) = n /\ forallb text_okb (fst L) = true.

(* a word triple the conformant decoder accepts: three list words packing below 2^32 *)
Definition triple_canon (wl : list (list N)) (g : list (list N)) : Prop :=
  match g with
  | [a; b; c] => exists v, words_packed wl a b c = Ok v /\ v < chunk_limit
  | _ => False
  end.

Lemma bytes_ok_groups k m l : bytes_ok l -> Forall bytes_ok (groups k m l).
Proof.
  revert l; induction m as [|m IH]; intros l H; simpl; constructor.
  - apply bytes_ok_firstn; assumption.
  - apply IH. apply bytes_ok_skipn; assumption.
Qed.

Lemma length_S_split {A} (d : A) k (l : list A) : length l = S k ->
  removelast l = firstn k l /\ l = firstn k l ++ [last l d].
Proof.
  intros H. assert (Hne : l <> []) by (intro; subst; discriminate).
  pose proof (app_removelast_last d Hne) as E.
  assert (Hl : length (removelast l) = k).
  { apply (f_equal (@length A)) in E. rewrite app_length in E. simpl in E. lia. }
  assert (F : firstn k l = removelast l).
  { rewrite E at 1. rewrite firstn_app, Hl, Nat.sub_diag, firstn_O, app_nil_r.
    rewrite <- Hl. apply firstn_all. }
  rewrite F. split; [reflexivity|exact E].
Qed.

Lemma bytes_groups b m : bytes_ok b -> length b = (4 * m)%nat ->
  Forall (fun c => bytes_ok c /\ length c = 4%nat) (groups 4 m b) /\ concat (groups 4 m b) = b.
Proof.
  intros Hb Hl. split.
  - pose proof (bytes_ok_groups 4 m b Hb) as A.
    pose proof (groups_all_len 4 m b ltac:(lia)) as B.
    rewrite Forall_forall in *. intros c Hc. split; auto.
  - rewrite concat_groups by lia. rewrite <- Hl. apply firstn_all.
Qed.

Lemma groups3_shape (ws : list (list N)) m : (3 * m <= length ws)%nat ->
  Forall (fun g => exists a b c, g = [a; b; c]) (groups 3 m ws).
Proof.
  intros H. pose proof (groups_all_len 3 m ws H) as A. rewrite Forall_forall in *.
  intros g Hg. specialize (A g Hg). destruct g as [|a [|b [|c [|d t]]]]; simpl in A; try lia. eauto.
Qed.

Lemma triples_in (wl : list (list N)) (gs : list (list (list N))) : Forall (fun g => exists a b c, g = [a; b; c]) gs ->
  (Forall (fun w => In w wl) (concat gs) <->
   Forall (fun g => match g with [a; b; c] => In a wl /\ In b wl /\ In c wl | _ => False end) gs).
Proof.
  induction 1 as [|g gs (a & b & c & ->) _ IH]; simpl; [split; constructor|].
  rewrite !Forall_cons_iff, IH. tauto.
Qed.

Lemma mapM_total_iff {A B} (f : A -> res B) l :
  (exists r, mapM f l = Ok r) <-> Forall (fun x => exists y, f x = Ok y) l.
Proof.
  split.
  - intros [r H]. apply mapM_ok_inv in H. induction H; constructor; eauto.
  - induction 1 as [|x l [y Hy] _ [r IH]]; [exists []; reflexivity|].
    exists (y :: r). simpl. rewrite Hy. simpl. rewrite IH. reflexivity.
Qed.

Section MoneroProofs.
  Variable langs : list (list (list N) * nat).
  Variables word_nums word_nums_chk ent_bit_lens : list N.
  Variable n : N.
  Hypothesis n_pos : 0 < n.
  Hypothesis n_cube : chunk_limit <= n * n * n.
  Hypothesis langs_ok : Forall (lang_ok n) langs.
  Hypothesis ent_spec : forall b,
    valid_entropy_len ent_bit_lens b = true <-> (length b = 16 \/ length b = 32)%nat.
  Hypothesis nums_spec : forall k, memb (N.of_nat k) word_nums = true <-> cnt_ok k.
  Hypothesis chk_spec : forall k, memb (N.of_nat k) word_nums_chk = true <-> cnt_chk k.

  Notation encode := (encode langs ent_bit_lens).
  Notation decode := (decode langs word_nums word_nums_chk).

  Lemma lang_of i L : nth_error langs i = Some L -> lang_ok n L.
  Proof. intros H. apply nth_error_In in H. rewrite Forall_forall in langs_ok. auto. Qed.

  Lemma chk_false k : ~ cnt_chk k -> memb (N.of_nat k) word_nums_chk = false.
  Proof. intros H. destruct (memb _ _) eqn:E; [|reflexivity]. apply chk_spec in E. contradiction. Qed.

  (* ---- encoding chunks, and decoding them back with either chunk decoder ---- *)
  Lemma encode_chunks wl cs : NoDup wl -> wl_len wl = n ->
    Forall (fun c => bytes_ok c /\ length c = 4%nat) cs ->
    exists gs, mapM (bytes_chunk_to_words wl Little) cs = Ok gs /\
      Forall (fun g => length g = 3%nat) gs /\ length gs = length cs /\
      Forall (fun w => In w wl) (concat gs) /\
      mapM (decode_triple words_to_chunk wl) gs = Ok cs /\
      mapM (decode_triple words_to_chunk_current wl) gs = Ok cs.
  Proof.
    intros Hnd Hlen. assert (Hpos : 0 < wl_len wl) by lia.
    assert (Hcube : chunk_limit <= wl_len wl * wl_len wl * wl_len wl) by (rewrite Hlen; assumption).
    induction 1 as [|c cs [Hc Hl] _ (gs & M & G3 & Gl & Gin & D1 & D2)].
    - exists []. simpl. repeat split; constructor.
    - destruct (b2w_total wl Hnd Hpos Little c) as (x & y & z & E & Ix & Iy & Iz).
      destruct (w2c_b2w wl Hnd Hpos Little c _ Hcube Hc Hl E) as (x' & y' & z' & Q & W1 & W2).
      inversion Q; subst x' y' z'; clear Q.
      exists ([x; y; z] :: gs). simpl. rewrite E, M. simpl. rewrite W1, W2, D1, D2. simpl.
      repeat split; try reflexivity.
      + constructor; [reflexivity|assumption].
      + congruence.
      + repeat constructor; try assumption; apply word_idx_ok_iff; eauto.
  Qed.


  (* ---- the checksum word always exists for list words ---- *)
  Lemma prefixes_text_ok wl plen ws : forallb text_okb wl = true -> Forall (fun w => In w wl) ws ->
    text_okb (concat (map (firstn plen) ws)) = true.
  Proof.
    intros Hwl. induction 1 as [|w ws Hw _ IH]; simpl; [reflexivity|].
    rewrite text_okb_app, IH, andb_true_r. apply text_okb_firstn.
    rewrite forallb_forall in Hwl. auto.
  Qed.

  Lemma checksum_total wl plen ws : forallb text_okb wl = true -> Forall (fun w => In w wl) ws ->
    ws <> [] -> exists c, compute_checksum plen ws = Ok c /\ In c ws.
  Proof.
    intros Hwl Hin Hne. unfold compute_checksum.
    destruct (utf8_ok _ (prefixes_text_ok wl plen ws Hwl Hin)) as [enc ->]. simpl.
    assert (Hl : (0 < length ws)%nat) by (destruct ws; [congruence|simpl; lia]).
    set (k := N.to_nat (crc32 enc mod N.of_nat (length ws))).
    assert (Hk : (k < length ws)%nat).
    { unfold k. pose proof (N.mod_lt (crc32 enc) (N.of_nat (length ws)) ltac:(lia)). lia. }
    destruct (nth_error ws k) as [c|] eqn:E.
    - exists c. split; [reflexivity|]. eapply nth_error_In; eauto.
    - apply nth_error_None in E. lia.
  Qed.

  (* ---- unfolding the decoder for a given language ---- *)
  Lemma decode_some_unfold w2c i L ws : nth_error langs i = Some L ->
    decode w2c (Some i) ws =
      (guard memb (N.of_nat (length ws)) word_nums else ValueError ;;
       _ <- validate_checksum word_nums_chk (snd L) ws ;;
       cs <- mapM (decode_triple w2c (fst L)) (groups 3 (Nat.div (length ws) 3) ws) ;;
       Ok (concat cs)).
  Proof. intros H. unfold MoneroMnemonic.decode, get_lang. rewrite H. reflexivity. Qed.

  Lemma decode_none_unfold w2c ws :
    decode w2c None ws =
      (guard memb (N.of_nat (length ws)) word_nums else ValueError ;;
       L <- find_language (@fst _ _) langs ws ;;
       _ <- validate_checksum word_nums_chk (snd L) ws ;;
       cs <- mapM (decode_triple w2c (fst L)) (groups 3 (Nat.div (length ws) 3) ws) ;;
       Ok (concat cs)).
  Proof. reflexivity. Qed.

  (* automatic detection behaves as the explicit language it finds *)
  Lemma decode_auto_as w2c i L ws : nth_error langs i = Some L ->
    find_language (@fst _ _) langs ws = Ok L -> decode w2c None ws = decode w2c (Some i) ws.
  Proof.
    intros H F. rewrite decode_none_unfold, (decode_some_unfold _ _ _ _ H), F. reflexivity.
  Qed.

  Lemma validate_ok_iff plen ws :
    validate_checksum word_nums_chk plen ws = Ok tt <->
    (cnt_chk (length ws) -> compute_checksum plen (removelast ws) = Ok (last ws [])).
  Proof.
    unfold validate_checksum. destruct (memb (N.of_nat (length ws)) word_nums_chk) eqn:M.
    - apply chk_spec in M. split.
      + intros H _. destruct (compute_checksum plen (removelast ws)) as [c|] eqn:C; simpl in H; [|discriminate].
        destruct (list_eqb (last ws []) c) eqn:Q; [|discriminate]. apply list_eqb_spec in Q. subst. reflexivity.
      + intros H. rewrite (H M). simpl. rewrite list_eqb_refl. reflexivity.
    - split; [|reflexivity]. intros _ H. apply chk_spec in H. congruence.
  Qed.

  Lemma validate_unit plen ws u : validate_checksum word_nums_chk plen ws = Ok u -> u = tt.
  Proof. destruct u; reflexivity. Qed.

  Lemma decode_some_ok_iff w2c i L ws b : nth_error langs i = Some L ->
    (decode w2c (Some i) ws = Ok b <->
     cnt_ok (length ws) /\
     (cnt_chk (length ws) -> compute_checksum (snd L) (removelast ws) = Ok (last ws [])) /\
     exists cs, mapM (decode_triple w2c (fst L)) (groups 3 (Nat.div (length ws) 3) ws) = Ok cs /\
                b = concat cs).
  Proof.
    intros H. rewrite (decode_some_unfold _ _ _ _ H). split.
    - destruct (memb (N.of_nat (length ws)) word_nums) eqn:M; [|discriminate].
      apply nums_spec in M.
      destruct (validate_checksum word_nums_chk (snd L) ws) as [[]|] eqn:V; simpl; [|discriminate].
      pose proof (proj1 (validate_ok_iff _ _) V) as V'.
      destruct (mapM _ _) as [cs|] eqn:D; simpl; [|discriminate].
      intros E; inversion E; subst. split; [assumption|]. split; [assumption|]. exists cs. split; reflexivity.
    - intros (C & V & cs & D & ->). apply nums_spec in C. rewrite C.
      rewrite (proj2 (validate_ok_iff _ _) V). simpl. rewrite D. reflexivity.
  Qed.

  (* ---- round trip ---- *)
  Lemma cnt_div3 k : cnt_ok k ->
    exists m r, (k = 3 * m + r /\ Nat.div k 3 = m /\ (m = 4 \/ m = 8) /\
                 ((r = 0 /\ ~ cnt_chk k) \/ (r = 1 /\ cnt_chk k)))%nat.
  Proof.
    unfold cnt_ok, cnt_chk.
    intros [-> | [-> | [-> | ->]]]; [exists 4%nat, 0%nat|exists 4%nat, 1%nat|exists 8%nat, 0%nat|exists 8%nat, 1%nat];
      (split; [reflexivity|]); (split; [reflexivity|]); (split; [lia|]); lia.
  Qed.

  Theorem dec_enc w2c i L chk b :
    w2c = words_to_chunk \/ w2c = words_to_chunk_current ->
    nth_error langs i = Some L -> bytes_ok b -> valid_entropy_len ent_bit_lens b = true ->
    exists ws, encode i chk b = Ok ws /\
      length ws = (3 * Nat.div (length b) 4 + (if chk then 1 else 0))%nat /\
      Forall (fun w => In w (fst L)) ws /\
      decode w2c (Some i) ws = Ok b.
  Proof.
    intros Hw HL Hb Hv. destruct (lang_of _ _ HL) as (Hnd & Hlen & Htxt).
    pose proof (proj1 (ent_spec b) Hv) as H16.
    remember (Nat.div (length b) 4) as m eqn:Hmdef.
    assert (Hm : (length b = 4 * m /\ (m = 4 \/ m = 8))%nat).
    { rewrite Hmdef. destruct H16 as [E|E]; rewrite E; vm_compute; lia. }
    destruct Hm as [Hbl Hm48].
    destruct (bytes_groups b m Hb Hbl) as [Hcs Hcat].
    destruct (encode_chunks (fst L) _ Hnd Hlen Hcs) as (gs & M & G3 & Gl & Gin & D1 & D2).
    rewrite groups_length in Gl.
    assert (D : mapM (decode_triple w2c (fst L)) gs = Ok (groups 4 m b)) by (destruct Hw; subst; assumption).
    assert (Hws0 : length (concat gs) = (3 * m)%nat) by (rewrite (concat_length_const 3 gs G3); lia).
    assert (E0 : encode_to_list langs ent_bit_lens i b = Ok (concat gs)).
    { unfold encode_to_list, get_lang. rewrite HL. simpl. rewrite Hv, <- Hmdef, M. reflexivity. }
    assert (Hgr : forall rest, (length rest <= 1)%nat ->
              groups 3 (Nat.div (length (concat gs ++ rest)) 3) (concat gs ++ rest) = gs).
    { intros rest Hr. rewrite app_length, Hws0.
      replace (Nat.div (3 * m + length rest) 3) with (length gs).
      - apply groups_concat; assumption.
      - rewrite Gl. destruct Hm48 as [Q|Q]; rewrite Q; destruct rest as [|x [|y r]]; simpl in Hr; try lia; reflexivity. }
    destruct chk.
    - (* with checksum *)
      assert (Hne : concat gs <> []) by (intro Q; rewrite Q in Hws0; simpl in Hws0; lia).
      destruct (checksum_total (fst L) (snd L) (concat gs) Htxt Gin Hne) as (c & C & Cin).
      exists (concat gs ++ [c]). split; [|split; [|split]].
      + unfold MoneroMnemonic.encode. rewrite E0. simpl. unfold get_lang. rewrite HL. simpl. rewrite C. reflexivity.
      + rewrite app_length, Hws0. simpl. lia.
      + apply Forall_app. split; [assumption|]. constructor; [|constructor].
        rewrite Forall_forall in Gin. auto.
      + apply (decode_some_ok_iff w2c i L _ b HL). split; [|split].
        * rewrite app_length, Hws0. simpl. unfold cnt_ok. lia.
        * intros _. rewrite removelast_last, last_last. exact C.
        * exists (groups 4 m b). rewrite (Hgr [c]) by (simpl; lia). split; [assumption|]. symmetry; assumption.
    - exists (concat gs). split; [|split; [|split]].
      + unfold MoneroMnemonic.encode. rewrite E0. reflexivity.
      + rewrite Hws0. lia.
      + assumption.
      + apply (decode_some_ok_iff w2c i L _ b HL). split; [|split].
        * rewrite Hws0. unfold cnt_ok. lia.
        * intros Q. exfalso. rewrite Hws0 in Q. unfold cnt_chk in Q. lia.
        * exists (groups 4 m b). pose proof (Hgr [] ltac:(simpl; lia)) as G. rewrite app_nil_r in G.
          rewrite G. split; [assumption|]. symmetry; assumption.
  Qed.

  (* automatic language detection: correct when no earlier language contains all the words *)
  Theorem dec_enc_auto w2c i L chk b ws :
    w2c = words_to_chunk \/ w2c = words_to_chunk_current ->
    nth_error langs i = Some L -> bytes_ok b -> valid_entropy_len ent_bit_lens b = true ->
    encode i chk b = Ok ws ->
    (forall j L', (j < i)%nat -> nth_error langs j = Some L' -> ~ Forall (fun w => In w (fst L')) ws) ->
    decode w2c None ws = Ok b.
  Proof.
    intros Hw HL Hb Hv E Hfirst.
    destruct (dec_enc w2c i L chk b Hw HL Hb Hv) as (ws' & E' & _ & Hin & D).
    rewrite E in E'. inversion E'; subst ws'.
    rewrite (decode_auto_as w2c i L ws HL); [exact D|].
    destruct (nth_error_split langs i HL) as (pre & post & -> & Hi).
    apply find_language_first; [|assumption].
    intros L' I. destruct (In_nth_error _ _ I) as [j Hj].
    assert (Hjl : (j < length pre)%nat) by (apply nth_error_Some; congruence).
    apply (Hfirst j L'); [lia|]. rewrite nth_error_app1; assumption.
  Qed.

  (* ---- acceptance ---- *)

  (* the words of a phrase, in terms of its triples and its last word *)
  Lemma phrase_split (ws : list (list N)) : cnt_ok (length ws) ->
    (~ cnt_chk (length ws) /\ ws = concat (groups 3 (Nat.div (length ws) 3) ws)) \/
    (cnt_chk (length ws) /\ removelast ws = concat (groups 3 (Nat.div (length ws) 3) ws) /\
     ws = removelast ws ++ [last ws []]).
  Proof.
    intros C. destruct (cnt_div3 _ C) as (m & r & Hk & Hd & _ & [[-> Hn]|[-> Hc]]).
    - left. split; [assumption|]. rewrite Hd, concat_groups by lia.
      replace (3 * m)%nat with (length ws) by lia. symmetry. apply firstn_all.
    - right. split; [assumption|]. rewrite Hd, concat_groups by lia.
      destruct (length_S_split (@nil N) (3 * m) ws ltac:(lia)) as [A B]. rewrite A. split; [reflexivity|exact B].
  Qed.

  Definition accepts_spec (canon : bool) (L : list (list N) * nat) (ws : list (list N)) : Prop :=
    cnt_ok (length ws) /\
    Forall (fun w => In w (fst L)) ws /\
    (cnt_chk (length ws) -> compute_checksum (snd L) (removelast ws) = Ok (last ws [])) /\
    (canon = true -> Forall (triple_canon (fst L)) (groups 3 (Nat.div (length ws) 3) ws)).



  Theorem accepts_iff (canon : bool) i L ws : nth_error langs i = Some L ->
    ((exists b, decode (if canon then words_to_chunk else words_to_chunk_current) (Some i) ws = Ok b)
     <-> accepts_spec canon L ws).
  Proof.
    intros HL. destruct (lang_of _ _ HL) as (Hnd & Hlen & Htxt).
    assert (Hpos : 0 < wl_len (fst L)) by lia.
    set (w2c := if canon then words_to_chunk else words_to_chunk_current).
    set (gs := groups 3 (Nat.div (length ws) 3) ws).
    assert (Dec : forall g, (exists a b c, g = [a; b; c]) ->
      ((exists y, decode_triple w2c (fst L) g = Ok y) <->
       (match g with [a; b; c] => In a (fst L) /\ In b (fst L) /\ In c (fst L) | _ => False end /\
        (canon = true -> triple_canon (fst L) g)))).
    { intros g (a & b & c & ->). unfold w2c. simpl. destruct canon.
      - rewrite (w2c_ok_iff (fst L) Hpos Little a b c). split.
        + intros (v & P & Lt). split; [|intros _; eauto].
          destruct (words_packed_ok _ _ _ _ _ P) as (i1 & i2 & i3 & A & B & C & _).
          repeat split; apply word_idx_ok_iff; eauto.
        + intros [_ H]. exact (H eq_refl).
      - rewrite (w2c_current_ok_iff (fst L) Hpos Little a b c). split; [intros H; split; [exact H|discriminate]|tauto]. }
    split.
    - intros [b H]. apply (decode_some_ok_iff w2c i L ws b HL) in H. destruct H as (C & V & cs & D & _).
      destruct (cnt_div3 _ C) as (m & r & Hk & Hd & _ & _).
      assert (Sh : Forall (fun g => exists a b c, g = [a; b; c]) gs)
        by (unfold gs; rewrite Hd; apply groups3_shape; lia).
      assert (T : Forall (fun g => exists y, decode_triple w2c (fst L) g = Ok y) gs)
        by (apply mapM_total_iff; eauto).
      assert (T' : Forall (fun g => match g with [a; b; c] => In a (fst L) /\ In b (fst L) /\ In c (fst L) | _ => False end /\
                                    (canon = true -> triple_canon (fst L) g)) gs).
      { rewrite Forall_forall in *. intros g Hg. apply Dec; auto. }
      assert (Gin : Forall (fun w => In w (fst L)) (concat gs)).
      { apply triples_in; [assumption|]. rewrite Forall_forall in *. intros g Hg. apply T'; assumption. }
      split; [assumption|]. split; [|split; [assumption|]].
      + destruct (phrase_split ws C) as [[_ E]|(Cc & E1 & E2)].
        * rewrite E. exact Gin.
        * rewrite E2. apply Forall_app. fold gs in E1. rewrite E1. split; [assumption|].
          constructor; [|constructor].
          specialize (V Cc). unfold compute_checksum in V.
          destruct (utf8 _); simpl in V; [|discriminate].
          destruct (nth_error (removelast ws) _) eqn:Q; simpl in V; [|discriminate].
          inversion V; subst. apply nth_error_In in Q. rewrite E1 in Q.
          rewrite Forall_forall in Gin. auto.
      + intros Hc. rewrite Forall_forall in *. intros g Hg. apply T'; assumption.
    - intros (C & Hin & V & T).
      destruct (cnt_div3 _ C) as (m & r & Hk & Hd & _ & _).
      assert (Sh : Forall (fun g => exists a b c, g = [a; b; c]) gs)
        by (unfold gs; rewrite Hd; apply groups3_shape; lia).
      assert (Gin : Forall (fun w => In w (fst L)) (concat gs)).
      { destruct (phrase_split ws C) as [[_ E]|(Cc & E1 & E2)].
        - fold gs in E. rewrite <- E. assumption.
        - fold gs in E1. rewrite <- E1. rewrite E2 in Hin. apply Forall_app in Hin. tauto. }
      apply (triples_in (fst L) gs Sh) in Gin.
      assert (T' : Forall (fun g => exists y, decode_triple w2c (fst L) g = Ok y) gs).
      { rewrite Forall_forall in Sh, Gin |- *. intros g Hg. apply Dec; [auto|]. split; [apply Gin; assumption|].
        intros Hc. specialize (T Hc). rewrite Forall_forall in T. auto. }
      apply mapM_total_iff in T'. destruct T' as [cs D].
      exists (concat cs). apply (decode_some_ok_iff w2c i L ws _ HL). split; [assumption|]. split; [assumption|].
      exists cs. split; [exact D|reflexivity].
  Qed.

  (* ---- canonicity of the conformant decoder ---- *)
  Theorem accepted_is_canonical i L ws b : nth_error langs i = Some L ->
    decode words_to_chunk (Some i) ws = Ok b ->
    (length b = 16 \/ length b = 32)%nat /\ bytes_ok b /\
    encode i (memb (N.of_nat (length ws)) word_nums_chk) b = Ok ws.
  Proof.
    intros HL H. destruct (lang_of _ _ HL) as (Hnd & Hlen & Htxt).
    assert (Hpos : 0 < wl_len (fst L)) by lia.
    apply (decode_some_ok_iff words_to_chunk i L ws b HL) in H. destruct H as (C & V & cs & D & ->).
    destruct (cnt_div3 _ C) as (m & r & Hk & Hd & Hm48 & Hr).
    set (gs := groups 3 (Nat.div (length ws) 3) ws) in *.
    assert (Sh : Forall (fun g => exists a b c, g = [a; b; c]) gs)
      by (unfold gs; rewrite Hd; apply groups3_shape; lia).
    apply mapM_ok_inv in D.
    assert (Hcl : length cs = m).
    { rewrite <- (Forall2_length' _ _ _ D). unfold gs. rewrite groups_length. exact Hd. }
    assert (F : Forall2 (fun c g => bytes_chunk_to_words (fst L) Little c = Ok g) cs gs /\
                Forall (fun c => bytes_ok c /\ length c = 4%nat) cs).
    { clear Hcl. induction D as [|g c gs' cs' Hgc _ IH]; [split; constructor|].
      inversion Sh as [|? ? (x & y & z & ->) Sh']; subst. simpl in Hgc.
      destruct (b2w_w2c (fst L) Hpos Little x y z c Hgc) as (B1 & B2 & B3).
      destruct (IH Sh') as [I1 I2]. split; constructor; auto. }
    destruct F as [F Fc].
    assert (Hbl : length (concat cs) = (4 * m)%nat).
    { rewrite (concat_length_const 4 cs); [lia|]. rewrite Forall_forall in *. intros c Hc. apply Fc; assumption. }
    assert (Hbok : bytes_ok (concat cs)).
    { unfold bytes_ok. apply Forall_concat. rewrite Forall_forall in *. intros c Hc. apply Fc; assumption. }
    assert (H16 : (length (concat cs) = 16 \/ length (concat cs) = 32)%nat) by lia.
    split; [assumption|]. split; [assumption|].
    assert (E0 : encode_to_list langs ent_bit_lens i (concat cs) = Ok (concat gs)).
    { unfold encode_to_list, get_lang. rewrite HL. simpl. rewrite (proj2 (ent_spec _) H16).
      replace (Nat.div (length (concat cs)) 4) with (length cs).
      2:{ rewrite Hbl, Hcl. destruct Hm48 as [Q|Q]; rewrite Q; reflexivity. }
      rewrite groups_concat'.
      2:{ rewrite Forall_forall in *. intros c Hc. apply Fc; assumption. }
      rewrite (mapM_ok_intro _ _ _ F). reflexivity. }
    unfold MoneroMnemonic.encode. rewrite E0. simpl.
    destruct (phrase_split ws C) as [[Hn E]|(Cc & E1 & E2)]; [fold gs in E|fold gs in E1].
    - rewrite (chk_false _ Hn). rewrite <- E. reflexivity.
    - rewrite (proj2 (chk_spec _) Cc). unfold get_lang. rewrite HL. simpl.
      rewrite <- E1, (V Cc). simpl. rewrite <- E2. reflexivity.
  Qed.

  (* the decoder fails only with the documented family: ValueError (incl. UnicodeError) or the checksum error *)
  Theorem decode_err_family (canon : bool) i L ws e : nth_error langs i = Some L ->
    decode (if canon then words_to_chunk else words_to_chunk_current) (Some i) ws = Err e ->
    e = ValueError \/ e = UnicodeError \/ e = LibError MnemonicChecksumError.
  Proof.
    intros HL. rewrite (decode_some_unfold _ _ _ _ HL).
    destruct (memb (N.of_nat (length ws)) word_nums) eqn:M; [|intros Q; inversion Q; auto].
    apply nums_spec in M.
    destruct (validate_checksum word_nums_chk (snd L) ws) as [u|x] eqn:V; simpl.
    - destruct (mapM _ _) as [cs|x] eqn:D; simpl; [discriminate|].
      intros Q; inversion Q; subst. apply mapM_err_inv in D. destruct D as (g & Hg & Dg).
      destruct (cnt_div3 _ M) as (m & r & Hk & Hd & _ & _).
      pose proof (groups3_shape ws m ltac:(lia)) as Sh. rewrite Hd in Hg.
      rewrite Forall_forall in Sh. destruct (Sh g Hg) as (a & b & c & ->). simpl in Dg.
      destruct (lang_of _ _ HL) as (Hnd & Hlen & _).
      left. destruct canon.
      + eapply w2c_err; [|eauto]. lia.
      + unfold words_to_chunk_current in Dg.
        destruct (words_packed (fst L) a b c) as [v|] eqn:P; simpl in Dg.
        * destruct (Nat.ltb 3 (get_bytes_number v)) eqn:G; [discriminate|].
          apply (int_to_bytes_fixed_err Little) in Dg. apply Nat.ltb_ge in G.
          assert (G4 : (get_bytes_number v <= 4)%nat) by lia.
          apply (gbn_le 4 v ltac:(lia)) in G4. unfold chunk_byte_len in Dg. lia.
        * inversion Dg; subst. apply words_packed_err in P. tauto.
    - intros Q; inversion Q; subst. unfold validate_checksum in V.
      destruct (memb (N.of_nat (length ws)) word_nums_chk) eqn:Mc; [|discriminate].
      unfold compute_checksum in V.
      destruct (utf8 _) as [enc|x] eqn:U; simpl in V.
      + destruct (nth_error (removelast ws) _) eqn:Nn; simpl in V.
        * destruct (list_eqb _ _); [discriminate|]. inversion V; auto.
        * exfalso. apply nth_error_None in Nn. apply chk_spec in Mc.
          assert (Hl : (0 < length (removelast ws))%nat).
          { destruct ws as [|w [|w' t]]; simpl in *; unfold cnt_chk in Mc; simpl in Mc; lia. }
          pose proof (N.mod_lt (crc32 enc) (N.of_nat (length (removelast ws))) ltac:(lia)). lia.
      + inversion V; subst. unfold utf8 in U.
        destruct (mapM utf8_cp _) eqn:Mm; simpl in U; [discriminate|]. inversion U; subst.
        apply mapM_err_inv in Mm. destruct Mm as (cp & _ & Hcp). unfold utf8_cp in Hcp.
        repeat match type of Hcp with (if ?c then _ else _) = _ => destruct c end;
          try discriminate; inversion Hcp; auto.
  Qed.
End MoneroProofs.

(* C14, Cardano area: Shelley and Byron address decoders, the HD-path decryption, the master keys and the private
   derivation of the Khovratovich-Law family (Bip32KholawEd25519, CardanoIcarusBip32, CardanoByronLegacyBip32).

   Part 1-2 (addresses): no hypothesis about any oracle.
   Part 3 (keys): the only hypotheses are the digest sizes of the hashes (a Python bytes object of that length) --
   without them the models' b[31] on a too short digest is an IndexError, which is what the real hashes exclude.
   The Khovratovich-Law child key: the 32-byte rendering of 8*zL + kL does not fit for a parent with kL >= 2^256 - 2^227;
   since fix 71d2424 of /repo (finding C14-KHOLAW-OVERFLOW) that child is discarded with Bip32KeyError, and so it is in
   Model/Bip32Kholaw.v: the no-escape statements of parts 7-8 are unconditional.  Parts 4-5 keep what the bound gave
   before the repair, now as a fact of its own: a key derived from a seed has kL < 2^255 and every level adds less than
   2^227, so the new refusal is out of reach of seed-derived keys for 2^28 levels. *)
From Coq Require Import NArith ZArith Arith List Lia Bool.
From BU Require Import Base.Exn Base.Radix Base.Bytes Gen.Consts Gen.ConstsCardmon.
From BU Require Import Model.EdLib Model.CborEnc Model.Bip32Kholaw Model.ByronLegacyDeriv Model.AddrAdaShelley Model.AddrAdaByron.
From BU Require Model.Base58 Model.Cbor Model.Codecs Model.Bip32Path Model.C14b.
From BU Require Import Lemmas.NoEscape Lemmas.NoEscapeDeriv Lemmas.CardmonConstsOk Lemmas.EdLib Lemmas.Tweak.
From BU Require Lemmas.Base58 Lemmas.CborEnc Lemmas.Bip32Kholaw Lemmas.ByronLegacyDeriv Lemmas.NoEscapePaths.
Import ListNotations.
Open Scope N_scope.

(* ================================================================== 1. Shelley addresses *)
Section Shelley.
  Variable b32_dec : list N -> list N -> option (list N).

  Lemma strip_prefix_family p d : in_family (AddrAdaShelley.strip_prefix p d) = true.
  Proof. unfold AddrAdaShelley.strip_prefix. fam. Qed.

  (* AdaShelleyAddrDecoder.DecodeAddr *)
  Lemma decode_payment_family net addr : in_family (AddrAdaShelley.decode_payment b32_dec net addr) = true.
  Proof. unfold AddrAdaShelley.decode_payment. fam. apply strip_prefix_family. Qed.
  (* AdaShelleyStakingAddrDecoder.DecodeAddr / AdaShelleyRewardAddrDecoder.DecodeAddr *)
  Lemma decode_staking_family net addr : in_family (AddrAdaShelley.decode_staking b32_dec net addr) = true.
  Proof. unfold AddrAdaShelley.decode_staking. fam. apply strip_prefix_family. Qed.
End Shelley.

(* ================================================================== 2. Byron addresses and the HD path *)
Lemma byron_b58dec_family s : in_family (AddrAdaByron.b58dec s) = true.
Proof. apply family_of_errs. intros e E. rewrite (Lemmas.Base58.decode_err _ _ s e E). reflexivity. Qed.

(* ---- the model's own indefinite-length array decoder: the fuel (input length) is never exhausted ---- *)
Lemma lookup_len_pos x tab : forallb (fun kv => (1 <=? snd kv)%nat) tab = true -> (1 <= AddrAdaByron.lookup_len x tab)%nat.
Proof.
  induction tab as [|[k v] t IH]; simpl; intros H; [lia|].
  apply andb_true_iff in H. destruct H as [H1 H2]. destruct (x =? k); [apply Nat.leb_le; exact H1|apply IH; exact H2].
Qed.
Lemma indef_elem_len_pos x : (1 <= indef_elem_len x)%nat.
Proof. apply lookup_len_pos. vm_compute. reflexivity. Qed.

Lemma indef_elem_family s : in_family (indef_elem s) = true.
Proof. unfold indef_elem. fam. Qed.

Lemma indef_elems_family fuel : forall b, (length b < fuel)%nat -> in_family (indef_elems fuel b) = true.
Proof.
  induction fuel as [|f IH]; intros b H; [lia|]. cbn [indef_elems].
  destruct b as [|x t]; [reflexivity|].
  destruct (x =? cbor_indef_end); [reflexivity|].
  apply fam_bind; [apply indef_elem_family|]. intros e _.
  apply fam_bind; [|reflexivity].
  apply IH. rewrite skipn_length. pose proof (indef_elem_len_pos x) as P. cbn [length] in *.
  remember (indef_elem_len x) as n. lia.
Qed.

(* CborIndefiniteLenArrayDecoder.Decode as modelled in Model/AddrAdaByron.v *)
Lemma indef_decode_family b : in_family (indef_decode b) = true.
Proof.
  unfold indef_decode. destruct (_ <=? _)%nat; [|reflexivity].
  destruct b as [|x t].
  - destruct Lemmas.CborEnc.indef_consts as (S & _). cbn [hd]. rewrite S. reflexivity.
  - destruct (hd 0 (x :: t) =? cbor_indef_start); [|reflexivity].
    destruct (last (x :: t) 0 =? cbor_indef_end); [|reflexivity].
    apply indef_elems_family. simpl. lia.
Qed.

Section Byron.
  Variable pbkdf2_sha512 : list N -> list N -> N -> N -> list N.
  Variable chacha_dec : list N -> list N -> list N -> list N -> list N -> option (list N).
  Variable crc32 : list N -> N.
  Variable parse_outer : list N -> option (N * list N * N).
  Variable parse_payload : list N -> option (list N * option (list N) * N).
  Variable parse_bytes : list N -> option (list N).

  (* AdaByronAddrDecoder.DecodeAddr *)
  Lemma byron_decode_addr_family addr :
    in_family (AddrAdaByron.decode_addr crc32 parse_outer parse_payload parse_bytes addr) = true.
  Proof.
    unfold AddrAdaByron.decode_addr.
    apply fam_bind; [apply byron_b58dec_family|]. intros ser _.
    apply fam_bind; [apply fam_of_option; reflexivity|]. intros [[tag value] crc] _.
    destruct (tag =? _); [|reflexivity]. destruct (crc32 value =? crc); [|reflexivity].
    apply fam_bind; [apply fam_of_option; reflexivity|]. intros [[rh attr1] ty] _.
    destruct (_ =? _)%nat; [|reflexivity].
    apply fam_bind.
    - destruct attr1 as [v|]; [|reflexivity]. apply fam_rmap, fam_of_option. reflexivity.
    - intros enc _. destruct (ty =? _); reflexivity.
  Qed.

  (* _AdaByronAddrHdPath.Decrypt (the C18 model) *)
  Lemma byron_model_decrypt_path_family key enc : in_family (AddrAdaByron.decrypt_path chacha_dec key enc) = true.
  Proof.
    unfold AddrAdaByron.decrypt_path.
    apply fam_bind; [apply fam_of_option; reflexivity|]. intros pt _.
    apply fam_bind; [apply indef_decode_family|]. intros elems _.
    destruct (forallb _ _); reflexivity.
  Qed.

  (* CardanoByronLegacy.HdPathFromAddress *)
  Lemma byron_hd_path_from_address_family master addr :
    in_family (AddrAdaByron.hd_path_from_address pbkdf2_sha512 chacha_dec crc32 parse_outer parse_payload parse_bytes
                 master addr) = true.
  Proof.
    unfold AddrAdaByron.hd_path_from_address.
    apply fam_bind; [apply byron_decode_addr_family|]. intros dec _. apply byron_model_decrypt_path_family.
  Qed.

  (* AdaByronAddrDecoder.DecryptHdPath, library-faithful (Model/C14b.v, on the C11 model of the array decoder) *)
  Lemma byron_decrypt_path_family key enc : in_family (C14b.byron_decrypt_path chacha_dec key enc) = true.
  Proof.
    unfold C14b.byron_decrypt_path.
    apply fam_bind; [apply fam_of_option; reflexivity|]. intros pt _.
    apply fam_bind; [apply NoEscape.cbor_decode_family|]. intros items _.
    destruct (forallb _ _); reflexivity.
  Qed.
End Byron.

(* ================================================================== 3. master keys and private derivation *)
Lemma bits_set_family i m b : (i < length b)%nat -> in_family (bits_set i m b) = true.
Proof. intros H. unfold bits_set. destruct (nth_error b i) eqn:E; [reflexivity|]. apply nth_error_None in E. lia. Qed.

Lemma tweak_family (ops : list (N * nat * N)) b : (forall op, In op ops -> (snd (fst op) < length b)%nat) -> in_family (tweak ops b) = true.
Proof. intros H. destruct (tweak_spec ops b H) as (b' & E & _). rewrite E. reflexivity. Qed.

Lemma tweak_length (ops : list (N * nat * N)) b b' : (forall op, In op ops -> (snd (fst op) < length b)%nat) -> tweak ops b = Ok b' -> length b' = length b.
Proof. intros H E. destruct (tweak_spec ops b H) as (b2 & E2 & L & _). rewrite E in E2. inversion E2; subst. exact L. Qed.

Lemma ops_lt32 (ops : list (N * nat * N)) : forallb (fun op => (snd (fst op) <? 32)%nat) ops = true -> forall op, In op ops -> (snd (fst op) < 32)%nat.
Proof. intros H op Hop. rewrite forallb_forall in H. apply Nat.ltb_lt, H, Hop. Qed.
Lemma kh_ops_lt32 : forall op, In op kh_tweak_ops -> (snd (fst op) < 32)%nat.
Proof. apply ops_lt32. vm_compute. reflexivity. Qed.
Lemma ic_ops_lt32 : forall op, In op ic_tweak_ops -> (snd (fst op) < 32)%nat.
Proof. apply ops_lt32. vm_compute. reflexivity. Qed.
Lemma by_ops_lt32 : forall op, In op by_tweak_ops -> (snd (fst op) < 32)%nat.
Proof. apply ops_lt32. vm_compute. reflexivity. Qed.

Lemma kh_key_err_family {A} (r : res A) : in_family r = true -> in_family (Bip32Kholaw.key_err r) = true.
Proof. destruct r as [a|e]; [reflexivity|]. destruct e; simpl; intros H; try discriminate; reflexivity. Qed.

Lemma fof_of_fam {A} (r : res A) : in_family r = true -> in_family_or_fuel r = true.
Proof. apply family_or_fuel_of_family. Qed.

Definition KL (k : list N) : N := le_to_int (firstn kh_half_len k).

Section Keys.
  Variable hmac_sha512 : list N -> list N -> list N.
  Variable hmac_sha256 : list N -> list N -> list N.
  Variable pbkdf2_sha512 : list N -> list N -> N -> N -> list N.
  Variable sha512 : list N -> list N.
  Variable G : Type.
  Variable gadd : G -> G -> G.
  Variable gmul : N -> G -> G.
  Variable gbase : G.
  Variable g_is_zero : G -> bool.
  Variable penc : G -> list N.
  Variable pdec : list N -> option G.

  Notation node_from_priv := (Bip32Kholaw.node_from_priv G gmul gbase g_is_zero penc).
  Notation ckd_priv := (Bip32Kholaw.ckd_priv hmac_sha512 G gmul gbase g_is_zero penc).
  Notation kh_derivator := (Bip32Kholaw.kh_derivator G gmul gbase g_is_zero penc).
  Notation by_derivator := (ByronLegacyDeriv.by_derivator G gmul gbase g_is_zero penc).

  (* ---------------- Bip32Base.__init__(priv_key = bytes): every byte string, no hypothesis ---------------- *)
  Lemma priv_check_ok k k' : priv_check k = Ok k' ->
    k' = k /\ length (firstn ed_priv_len k) = ed_priv_len.
  Proof.
    unfold priv_check.
    destruct (Nat.eqb_spec (length (firstn ed_priv_len k)) ed_priv_len) as [L|]; cbn [Bip32Kholaw.key_err is_value_error]; [|discriminate].
    destruct (_ =? _)%nat; cbn [Bip32Kholaw.key_err is_value_error]; [|discriminate].
    intros H; inversion H; subst. split; [reflexivity|exact L].
  Qed.

  Lemma priv_check_family k : in_family (priv_check k) = true.
  Proof. unfold priv_check. apply kh_key_err_family. fam. Qed.

  Lemma node_from_priv_family k cc d : in_family (node_from_priv k cc d) = true.
  Proof.
    unfold Bip32Kholaw.node_from_priv.
    apply fam_bind; [apply priv_check_family|]. intros k' Hk. destruct (priv_check_ok _ _ Hk) as [-> L].
    apply fam_bind; [|reflexivity]. apply kh_key_err_family.
    unfold pub_of_priv, mul_base_bytes. rewrite L, ed_priv_len_32, ed_coord_len_32. cbn [Nat.eqb].
    unfold mul_base_n. destruct (_ || _); reflexivity.
  Qed.

  (* ---------------- master keys ---------------- *)
  Section Kholaw.
    Hypothesis hmac512_len : forall k m, length (hmac_sha512 k m) = 64%nat.

    Lemma halves_fst_len k m : length (fst (halves (hmac_sha512 k m))) = 32%nat.
    Proof. unfold halves. cbn [fst]. destruct Lemmas.Bip32Kholaw.kh_consts as (-> & _). rewrite firstn_length, hmac512_len. reflexivity. Qed.

    Lemma kh_hash_repeatedly_len fuel : forall data kl kr,
      kh_hash_repeatedly hmac_sha512 fuel data = Ok (kl, kr) -> length kl = 32%nat.
    Proof.
      induction fuel as [|f IH]; intros data kl kr H; cbn [kh_hash_repeatedly] in H; [discriminate|].
      pose proof (halves_fst_len kh_hmac_key data) as L.
      destruct (halves (hmac_sha512 kh_hmac_key data)) as [l r]. cbn [fst] in L.
      destruct (bits_set kh_repeat_idx kh_repeat_mask l) as [again|e]; cbn [bind] in H; [|discriminate].
      destruct again; [exact (IH _ _ _ H)|]. inversion H; subst. exact L.
    Qed.

    Lemma kh_hash_repeatedly_fof fuel : forall data, in_family_or_fuel (kh_hash_repeatedly hmac_sha512 fuel data) = true.
    Proof.
      induction fuel as [|f IH]; intros data; cbn [kh_hash_repeatedly]; [reflexivity|].
      pose proof (halves_fst_len kh_hmac_key data) as L.
      destruct (halves (hmac_sha512 kh_hmac_key data)) as [l r]. cbn [fst] in L.
      apply fof_bind.
      - apply fof_of_fam, bits_set_family. destruct repeat_idx_31 as [-> _]. lia.
      - intros again _. destruct again; [apply IH|reflexivity].
    Qed.

    (* Bip32KholawEd25519MstKeyGenerator.GenerateFromSeed *)
    Lemma kh_master_fof fuel seed : in_family_or_fuel (kh_master hmac_sha512 hmac_sha256 fuel seed) = true.
    Proof.
      unfold kh_master. destruct (_ <=? _)%nat; [|reflexivity].
      apply fof_bind; [apply kh_hash_repeatedly_fof|]. intros [kl kr] Hk. cbn [fst snd].
      pose proof (kh_hash_repeatedly_len _ _ _ _ Hk) as L.
      apply fof_of_fam. apply fam_bind; [|reflexivity].
      apply tweak_family. intros op Hop. rewrite L. apply kh_ops_lt32, Hop.
    Qed.

    (* Bip32KholawEd25519.FromSeed *)
    Lemma kh_from_seed_fof fuel seed :
      in_family_or_fuel (kh_from_seed hmac_sha512 hmac_sha256 G gmul gbase g_is_zero penc fuel seed) = true.
    Proof.
      unfold kh_from_seed. apply fof_bind; [apply kh_master_fof|]. intros m _. apply fof_of_fam, node_from_priv_family.
    Qed.
  End Kholaw.

  Section Icarus.
    Hypothesis pbkdf2_len : forall p s r n, length (pbkdf2_sha512 p s r n) = N.to_nat n.

    (* CardanoIcarusMstKeyGenerator.GenerateFromSeed / CardanoIcarusBip32.FromSeed *)
    Lemma ic_master_family seed : in_family (ic_master pbkdf2_sha512 seed) = true.
    Proof.
      unfold ic_master. destruct (_ <=? _)%nat; [|reflexivity].
      apply fam_bind; [|reflexivity].
      apply tweak_family. intros op Hop. rewrite pbkdf2_len, Nnat.Nat2N.id.
      pose proof (ic_ops_lt32 op Hop). assert (E : (32 <= ic_pbkdf2_out_len)%nat) by (vm_compute; lia). lia.
    Qed.
    Lemma ic_from_seed_family seed : in_family (ic_from_seed pbkdf2_sha512 G gmul gbase g_is_zero penc seed) = true.
    Proof. unfold ic_from_seed. apply fam_bind; [apply ic_master_family|]. intros m _. apply node_from_priv_family. Qed.
  End Icarus.

  Section ByronMaster.
    Hypothesis sha512_len : forall x, length (sha512 x) = 64%nat.

    Lemma by_hash_repeatedly_fof fuel : forall data itr,
      in_family_or_fuel (by_hash_repeatedly hmac_sha512 sha512 fuel data itr) = true.
    Proof.
      induction fuel as [|f IH]; intros data itr; cbn [by_hash_repeatedly]; [reflexivity|].
      destruct (halves (hmac_sha512 data (format_d by_hmac_msg_format itr))) as [il ir].
      assert (Hidx : forall op, In op by_tweak_ops -> (snd (fst op) < length (sha512 il))%nat).
      { intros op Hop. rewrite sha512_len. pose proof (by_ops_lt32 op Hop). lia. }
      apply fof_bind; [apply fof_of_fam, tweak_family, Hidx|]. intros key Hkey.
      apply fof_bind.
      - apply fof_of_fam, bits_set_family. rewrite (tweak_length _ _ _ Hidx Hkey), sha512_len.
        destruct repeat_idx_31 as [_ ->]. lia.
      - intros again _. destruct again; [apply IH|reflexivity].
    Qed.

    (* CardanoByronLegacyMstKeyGenerator.GenerateFromSeed / CardanoByronLegacyBip32.FromSeed / CardanoByronLegacy.FromSeed *)
    Lemma by_master_fof fuel seed : in_family_or_fuel (by_master hmac_sha512 sha512 fuel seed) = true.
    Proof. unfold by_master. destruct (_ =? _)%nat; [apply by_hash_repeatedly_fof|reflexivity]. Qed.
    Lemma by_from_seed_fof fuel seed :
      in_family_or_fuel (by_from_seed hmac_sha512 sha512 G gmul gbase g_is_zero penc fuel seed) = true.
    Proof.
      unfold by_from_seed. apply fof_bind; [apply by_master_fof|]. intros m _. apply fof_of_fam, node_from_priv_family.
    Qed.
  End ByronMaster.
End Keys.

(* ================================================================== 4. private child keys and DerivePath / FromSeedAndPath *)
Lemma pow256_le a b : (a <= b)%nat -> 256 ^ N.of_nat a <= 256 ^ N.of_nat b.
Proof. intros H. apply N.pow_le_mono_r; lia. Qed.

Section Children.
  Variable hmac_sha512 : list N -> list N -> list N.
  Variable G : Type.
  Variable gadd : G -> G -> G.
  Variable gmul : N -> G -> G.
  Variable gbase : G.
  Variable g_is_zero : G -> bool.
  Variable penc : G -> list N.
  Variable pdec : list N -> option G.

  Notation node_from_priv := (Bip32Kholaw.node_from_priv G gmul gbase g_is_zero penc).
  Notation ckd_priv := (Bip32Kholaw.ckd_priv hmac_sha512 G gmul gbase g_is_zero penc).
  Notation child_key := (Bip32Kholaw.child_key hmac_sha512 G gadd gmul gbase g_is_zero penc pdec).
  Notation kh_derivator := (Bip32Kholaw.kh_derivator G gmul gbase g_is_zero penc).
  Notation by_derivator := (ByronLegacyDeriv.by_derivator G gmul gbase g_is_zero penc).
  Notation kh_ckd := (C14b.kh_ckd hmac_sha512 G gadd gmul gbase g_is_zero penc pdec).

  Lemma index_ok_lt i : index_ok (Z.of_N i) = true -> i < 2 ^ 32.
  Proof.
    unfold index_ok. destruct Lemmas.Bip32Kholaw.kh_consts as (_ & _ & _ & _ & _ & _ & _ & -> & _).
    intros H. apply andb_true_iff in H. destruct H as [_ H]. apply Z.leb_le in H. lia.
  Qed.

  (* ---------------- Byron legacy: the child arithmetic reduces mod l and adds byte-wise: nothing can overflow;
                      every parent key, every index below 2^32, arbitrary HMAC ---------------- *)
  Lemma by_ckd_priv_family n k i : i < 2 ^ 32 -> in_family (ckd_priv by_derivator n k i) = true.
  Proof.
    intros Hi. unfold Bip32Kholaw.ckd_priv. cbn [d_ser_index d_new_left d_new_right by_derivator].
    rewrite (Lemmas.ByronLegacyDeriv.ser_index_be i Hi). cbn [bind Ok Err].
    destruct (is_hardened i); cbv zeta;
      (unfold by_new_left, by_new_right;
       destruct Lemmas.ByronLegacyDeriv.by_consts as (_ & _ & -> & _);
       destruct Lemmas.Bip32Kholaw.kh_consts as (_ & _ & _ & _ & _ & _ & _ & _ & -> & _);
       rewrite Lemmas.ByronLegacyDeriv.mod_order_fits; cbn [bind Ok Err]; apply node_from_priv_family).
  Qed.

  Lemma by_child_key_priv_family n k i : n_priv n = Some k -> in_family (child_key by_derivator n (Z.of_N i)) = true.
  Proof.
    intros P. unfold Bip32Kholaw.child_key. destruct (index_ok (Z.of_N i)) eqn:I; [|reflexivity].
    rewrite P, N2Z.id. apply by_ckd_priv_family, index_ok_lt, I.
  Qed.

  (* ---------------- Khovratovich-Law ---------------- *)
  Section KholawChild.
    Hypothesis hmac512_ok : forall k m, bytes_ok (hmac_sha512 k m).

    Lemma zl8_lt z : bytes_ok z -> zl8 (firstn kh_half_len z) < 2 ^ 227.
    Proof.
      intros Hz. unfold zl8. destruct Lemmas.Bip32Kholaw.kh_consts as (_ & _ & -> & -> & _).
      assert (B : bytes_ok (firstn 28 (firstn kh_half_len z))) by (apply bytes_ok_firstn, bytes_ok_firstn, Hz).
      pose proof (le_to_int_lt _ B) as L.
      assert (Ln : (length (firstn 28 (firstn kh_half_len z)) <= 28)%nat) by (rewrite firstn_length; lia).
      pose proof (pow256_le _ _ Ln) as P. change (256 ^ N.of_nat 28) with (2 ^ 224) in P.
      change (2 ^ 227) with (2 ^ 224 * 8). lia.
    Qed.

    (* the child of a parent with room for one more step: a value whose kL grew by less than 2^227, or an error of
       the family *)
    Lemma kh_ckd_priv_spec n k i : i < 2 ^ 32 -> KL k + 2 ^ 227 <= 2 ^ 256 ->
      match ckd_priv kh_derivator n k i with
      | inl n' => exists k', n_priv n' = Some k' /\ KL k' < KL k + 2 ^ 227
      | inr e => exn_in_family e = true
      end.
    Proof.
      intros Hi Hk. unfold Bip32Kholaw.ckd_priv. cbn [d_ser_index d_new_left d_new_right kh_derivator].
      rewrite (Lemmas.Bip32Kholaw.ser_index_le i Hi). cbn [bind Ok Err].
      set (ib := le_pad 4 i).
      assert (Main : forall z cc', bytes_ok z ->
        match (kl <- kh_new_left (firstn kh_half_len z) (firstn kh_half_len k) ;;
               kr <- kh_new_right (skipn kh_half_len z) (skipn kh_half_len k) ;;
               node_from_priv (kl ++ kr) cc' (n_depth n + 1)) with
        | inl n' => exists k', n_priv n' = Some k' /\ KL k' < KL k + 2 ^ 227
        | inr e => exn_in_family e = true
        end).
      { intros z cc' Hz. unfold kh_new_left, kh_new_right.
        pose proof (zl8_lt z Hz) as Z8. fold (KL k).
        destruct Lemmas.Bip32Kholaw.kh_consts as (_ & _ & _ & _ & -> & _ & _ & _ & _ & ->).
        set (prvl := zl8 (firstn kh_half_len z) + KL k) in *.
        destruct (negb (prvl mod ed_curve_order =? 0)); [|reflexivity].
        assert (Hp : prvl < 256 ^ N.of_nat 32) by (rewrite pow256_32; unfold prvl; lia).
        destruct (N.ltb_spec prvl (256 ^ N.of_nat 32)) as [_|Hge]; [|lia].
        rewrite (le_pad_fixed 32 prvl Hp). cbn [bind Ok Err].
        set (r := (le_to_int (skipn kh_half_len z) + le_to_int (skipn kh_half_len k)) mod 2 ^ 256).
        assert (Hr : r < 256 ^ N.of_nat 32) by (rewrite pow256_32; unfold r; apply N.mod_upper_bound; discriminate).
        rewrite (le_pad_fixed 32 r Hr). cbn [bind Ok Err].
        destruct (node_from_priv (le_pad 32 prvl ++ le_pad 32 r) cc' (n_depth n + 1)) as [n'|e] eqn:E.
        - destruct (Lemmas.Bip32Kholaw.node_from_priv_ok _ _ _ _ _ _ _ _ _ E) as (_ & P & _).
          eexists. split; [exact P|]. unfold KL at 1.
          destruct Lemmas.Bip32Kholaw.kh_consts as (-> & _).
          destruct (le_pad_props 32 prvl Hp) as (_ & L & V).
          rewrite firstn_app, L, Nat.sub_diag, firstn_O, app_nil_r, firstn_all2 by lia. rewrite V. unfold prvl. lia.
        - pose proof (node_from_priv_family G gmul gbase g_is_zero penc (le_pad 32 prvl ++ le_pad 32 r) cc' (n_depth n + 1)) as F.
          rewrite E in F. exact F. }
      destruct (is_hardened i); cbv zeta; apply Main, hmac512_ok.
    Qed.

    (* Bip32Base.ChildKey on a private Khovratovich-Law object whose kL leaves room for [m + 1] more steps *)
    Lemma kh_child_key_spec n k i m : n_priv n = Some k -> KL k + N.of_nat (S m) * 2 ^ 227 <= 2 ^ 256 ->
      match kh_ckd kh_derivator n i with
      | inl n' => exists k', n_priv n' = Some k' /\ KL k' + N.of_nat m * 2 ^ 227 <= 2 ^ 256
      | inr e => exn_in_family e = true
      end.
    Proof.
      intros P B. unfold C14b.kh_ckd, Bip32Kholaw.child_key.
      destruct (index_ok (Z.of_N i)) eqn:I; [|reflexivity]. rewrite P, N2Z.id.
      assert (B1 : KL k + 2 ^ 227 <= 2 ^ 256) by lia.
      pose proof (kh_ckd_priv_spec n k i (index_ok_lt _ I) B1) as S.
      destruct (ckd_priv kh_derivator n k i) as [n'|e]; [|exact S].
      destruct S as (k' & P' & Lt). exists k'. split; [exact P'|]. lia.
    Qed.

    (* Bip32Base.DerivePath on the parsed path: as many steps as the bound leaves room for *)
    Lemma kh_derive_elems_family p : forall n k, n_priv n = Some k -> KL k + N.of_nat (length p) * 2 ^ 227 <= 2 ^ 256 ->
      in_family (Bip32Path.derive_elems node (kh_ckd kh_derivator) n p) = true.
    Proof.
      induction p as [|i t IH]; intros n k P B; cbn [Bip32Path.derive_elems]; [reflexivity|].
      cbn [length] in B. pose proof (kh_child_key_spec n k i (length t) P B) as S.
      destruct (kh_ckd kh_derivator n i) as [n'|e]; cbn [bind Ok Err]; [|exact S].
      destruct S as (k' & P' & B'). exact (IH n' k' P' B').
    Qed.
  End KholawChild.

  (* Byron legacy: DerivePath of any length from a private object *)
  Lemma by_derive_elems_family p : forall n k, n_priv n = Some k ->
    in_family (Bip32Path.derive_elems node (kh_ckd by_derivator) n p) = true.
  Proof.
    induction p as [|i t IH]; intros n k P; cbn [Bip32Path.derive_elems]; [reflexivity|].
    pose proof (by_child_key_priv_family n k i P) as F. unfold C14b.kh_ckd.
    destruct (child_key by_derivator n (Z.of_N i)) as [n'|e] eqn:E; cbn [bind Ok Err]; [|exact F].
    (* the child of a private object is private *)
    unfold Bip32Kholaw.child_key in E. destruct (index_ok (Z.of_N i)); [|discriminate]. rewrite P in E.
    unfold Bip32Kholaw.ckd_priv in E.
    destruct (d_ser_index by_derivator (Z.to_N (Z.of_N i))) as [ib|]; cbn [bind Ok Err] in E; [|discriminate].
    destruct (is_hardened (Z.to_N (Z.of_N i))); cbv zeta in E;
      (match type of E with bind ?x _ = _ => destruct x as [kl|]; cbn [bind Ok Err] in E; [|discriminate] end;
       match type of E with bind ?x _ = _ => destruct x as [kr|]; cbn [bind Ok Err] in E; [|discriminate] end;
       destruct (Lemmas.Bip32Kholaw.node_from_priv_ok _ _ _ _ _ _ _ _ _ E) as (_ & P' & _);
       exact (IH n' _ P')).
  Qed.
End Children.

(* ================================================================== 5. FromSeedAndPath(seed, str) *)
Section SeedAndPath.
  Variable hmac_sha512 : list N -> list N -> list N.
  Variable hmac_sha256 : list N -> list N -> list N.
  Variable pbkdf2_sha512 : list N -> list N -> N -> N -> list N.
  Variable sha512 : list N -> list N.
  Variable G : Type.
  Variable gadd : G -> G -> G.
  Variable gmul : N -> G -> G.
  Variable gbase : G.
  Variable g_is_zero : G -> bool.
  Variable penc : G -> list N.
  Variable pdec : list N -> option G.

  Notation node_from_priv := (Bip32Kholaw.node_from_priv G gmul gbase g_is_zero penc).
  Notation kh_derivator := (Bip32Kholaw.kh_derivator G gmul gbase g_is_zero penc).
  Notation by_derivator := (ByronLegacyDeriv.by_derivator G gmul gbase g_is_zero penc).
  Notation from_seed_and_path_str := (C14b.kh_from_seed_and_path_str hmac_sha512 G gadd gmul gbase g_is_zero penc pdec).
  Notation kh_from_seed := (Bip32Kholaw.kh_from_seed hmac_sha512 hmac_sha256 G gmul gbase g_is_zero penc).
  Notation ic_from_seed := (Bip32Kholaw.ic_from_seed pbkdf2_sha512 G gmul gbase g_is_zero penc).
  Notation by_from_seed := (ByronLegacyDeriv.by_from_seed hmac_sha512 sha512 G gmul gbase g_is_zero penc).

  Lemma half32 : kh_half_len = 32%nat.
  Proof. exact (proj1 Lemmas.Bip32Kholaw.kh_consts). Qed.

  Lemma kh_hash_repeatedly_from fuel : forall data kl kr,
    kh_hash_repeatedly hmac_sha512 fuel data = Ok (kl, kr) -> exists d, kl = fst (halves (hmac_sha512 kh_hmac_key d)).
  Proof.
    induction fuel as [|f IH]; intros data kl kr H; cbn [kh_hash_repeatedly] in H; [discriminate|].
    destruct (halves (hmac_sha512 kh_hmac_key data)) as [l r] eqn:E.
    destruct (bits_set kh_repeat_idx kh_repeat_mask l) as [again|e]; cbn [bind Ok Err] in H; [|discriminate].
    destruct again; [exact (IH _ _ _ H)|]. inversion H; subst. exists data. rewrite E. reflexivity.
  Qed.

  Section KhIc.
    Hypothesis hmac512_len : forall k m, length (hmac_sha512 k m) = 64%nat.
    Hypothesis hmac512_ok : forall k m, bytes_ok (hmac_sha512 k m).

    (* the master key's kL has bit 255 clear *)
    Lemma kh_master_bound fuel seed k cc : kh_master hmac_sha512 hmac_sha256 fuel seed = Ok (k, cc) -> KL k < 2 ^ 255.
    Proof.
      unfold kh_master. destruct (_ <=? _)%nat; [|discriminate].
      destruct (kh_hash_repeatedly hmac_sha512 fuel seed) as [[kl kr]|] eqn:E; cbn [bind Ok Err fst snd]; [|discriminate].
      destruct (kh_hash_repeatedly_from _ _ _ _ E) as [d ->].
      set (kl := fst (halves (hmac_sha512 kh_hmac_key d))).
      assert (L : length kl = 32%nat) by apply (halves_fst_len hmac_sha512 hmac512_len).
      assert (O : bytes_ok kl) by (unfold kl, halves; cbn [fst]; apply bytes_ok_firstn, hmac512_ok).
      destruct (tweak kh_tweak_ops kl) as [kl'|] eqn:T; cbn [bind Ok Err]; [|discriminate].
      intros H. inversion H; subst k cc; clear H.
      destruct (tweak_bits kh_tweak_ops 128 kl kl' kh_tweak_cert ltac:(lia) O ltac:(lia) T) as (L' & _ & _ & _ & _ & Hi & _).
      unfold KL. rewrite half32, firstn_app, L', L, Nat.sub_diag, firstn_O, app_nil_r.
      change (2 ^ 255) with (128 * 2 ^ 248). exact Hi.
    Qed.

    Lemma kh_from_seed_bound fuel seed n : kh_from_seed fuel seed = Ok n -> exists k, n_priv n = Some k /\ KL k < 2 ^ 255.
    Proof.
      unfold Bip32Kholaw.kh_from_seed.
      destruct (kh_master hmac_sha512 hmac_sha256 fuel seed) as [[k cc]|] eqn:M; cbn [bind Ok Err fst snd]; [|discriminate].
      intros E. destruct (Lemmas.Bip32Kholaw.node_from_priv_ok _ _ _ _ _ _ _ _ _ E) as (_ & P & _).
      exists k. split; [exact P|exact (kh_master_bound _ _ _ _ M)].
    Qed.

    Section Ic.
      Hypothesis pbkdf2_len : forall p s r n, length (pbkdf2_sha512 p s r n) = N.to_nat n.
      Hypothesis pbkdf2_ok : forall p s r n, bytes_ok (pbkdf2_sha512 p s r n).

      Lemma ic_master_bound seed k cc : ic_master pbkdf2_sha512 seed = Ok (k, cc) -> KL k < 2 ^ 255.
      Proof.
        unfold ic_master. destruct (_ <=? _)%nat; [|discriminate].
        set (raw := pbkdf2_sha512 _ _ _ _).
        assert (Lr : (32 <= length raw)%nat).
        { unfold raw. rewrite pbkdf2_len, Nnat.Nat2N.id. vm_compute. lia. }
        destruct (tweak ic_tweak_ops raw) as [key|] eqn:T; cbn [bind Ok Err]; [|discriminate].
        remember (firstn kh_priv_len key) as K eqn:EK. remember (skipn kh_priv_len key) as C eqn:EC.
        intros H. assert (EE : K = k /\ C = cc) by (unfold Ok in H; injection H; auto). destruct EE as [<- <-]. subst K. clear H.
        destruct (tweak_bits ic_tweak_ops 96 raw key ic_tweak_cert ltac:(lia) (pbkdf2_ok _ _ _ _) Lr T) as (_ & _ & _ & _ & _ & Hi & _).
        unfold KL. rewrite half32, firstn_firstn.
        replace (Nat.min 32 kh_priv_len) with 32%nat by (vm_compute; reflexivity).
        assert (96 * 2 ^ 248 < 2 ^ 255) by (vm_compute; reflexivity). lia.
      Qed.

      Lemma ic_from_seed_bound seed n : ic_from_seed seed = Ok n -> exists k, n_priv n = Some k /\ KL k < 2 ^ 255.
      Proof.
        unfold Bip32Kholaw.ic_from_seed.
        destruct (ic_master pbkdf2_sha512 seed) as [[k cc]|] eqn:M; cbn [bind Ok Err fst snd]; [|discriminate].
        intros E. destruct (Lemmas.Bip32Kholaw.node_from_priv_ok _ _ _ _ _ _ _ _ _ E) as (_ & P & _).
        exists k. split; [exact P|exact (ic_master_bound _ _ _ M)].
      Qed.
    End Ic.

  End KhIc.

  (* CardanoByronLegacyBip32.FromSeedAndPath(seed, str): paths of any length *)
  Lemma by_from_seed_and_path_str_fof fuel seed s : (forall x, length (sha512 x) = 64%nat) ->
    in_family_or_fuel (from_seed_and_path_str by_derivator (by_from_seed fuel) seed s) = true.
  Proof.
    intros Hs. unfold C14b.kh_from_seed_and_path_str.
    apply fof_bind; [apply (by_from_seed_fof hmac_sha512 sha512 G gmul gbase g_is_zero penc Hs)|]. intros n Hn.
    apply fof_of_fam. unfold Bip32Path.derive_path_str.
    apply fam_bind; [apply NoEscapePaths.bip32_parse_family|]. intros p _.
    unfold Bip32Path.derive_path. destruct (_ && _); [reflexivity|].
    unfold ByronLegacyDeriv.by_from_seed in Hn.
    destruct (by_master hmac_sha512 sha512 fuel seed) as [[k cc]|]; cbn [bind Ok Err fst snd] in Hn; [|discriminate].
    destruct (Lemmas.Bip32Kholaw.node_from_priv_ok _ _ _ _ _ _ _ _ _ Hn) as (_ & P & _).
    exact (by_derive_elems_family hmac_sha512 G gadd gmul gbase g_is_zero penc pdec _ n k P).
  Qed.
End SeedAndPath.

(* ================================================================== 6. the former witness of the unguarded statement *)
(* Bip32KholawEd25519.FromPrivateKey(ff * 64).ChildKey(0) with an HMAC that returns ff * 64: 8*zL + kL >= 2^256.
   Before fix 71d2424 this was the OverflowError that refuted the no-escape statement; now the child is discarded. *)
Definition refute_hmac (_ _ : list N) : list N := repeat 255 64.
Definition refute_node : node := mk_node (Some (repeat 255 64)) (repeat 0 32) (repeat 0 32) 0.
Lemma kh_child_key_out_of_range :
  Bip32Kholaw.child_key refute_hmac unit (fun _ _ => tt) (fun _ _ => tt) tt (fun _ => false) (fun _ => repeat 0 32)
    (fun _ => Some tt) (Bip32Kholaw.kh_derivator unit (fun _ _ => tt) tt (fun _ => false) (fun _ => repeat 0 32))
    refute_node 0%Z = Err (LibError Bip32KeyError).
Proof. vm_compute. reflexivity. Qed.
(* ... and that parent is an object the constructor accepts *)
Lemma refute_node_constructed :
  Bip32Kholaw.node_from_priv unit (fun _ _ => tt) tt (fun _ => false) (fun _ => repeat 0 32) (repeat 255 64) (repeat 0 32) 0
  = Ok refute_node.
Proof. vm_compute. reflexivity. Qed.

(* ================================================================== 7. ChildKey(int) statements for Props/C14.v *)
Section ChildKeyZ.
  Variable hmac_sha512 : list N -> list N -> list N.
  Variable G : Type.
  Variable gadd : G -> G -> G.
  Variable gmul : N -> G -> G.
  Variable gbase : G.
  Variable g_is_zero : G -> bool.
  Variable penc : G -> list N.
  Variable pdec : list N -> option G.
  Notation child_key := (Bip32Kholaw.child_key hmac_sha512 G gadd gmul gbase g_is_zero penc pdec).
  Notation kh_derivator := (Bip32Kholaw.kh_derivator G gmul gbase g_is_zero penc).
  Notation by_derivator := (ByronLegacyDeriv.by_derivator G gmul gbase g_is_zero penc).

  Lemma index_ok_of_N i : index_ok i = true -> i = Z.of_N (Z.to_N i).
  Proof. unfold index_ok. intros H. apply andb_true_iff in H. destruct H as [H _]. apply Z.leb_le in H. rewrite Z2N.id; auto. Qed.

  (* CardanoByronLegacyBip32.ChildKey(int) on a private object: every int *)
  Lemma by_child_key_family n k (i : Z) : n_priv n = Some k -> in_family (child_key by_derivator n i) = true.
  Proof.
    intros P. destruct (index_ok i) eqn:I.
    - rewrite (index_ok_of_N i I). exact (by_child_key_priv_family hmac_sha512 G gadd gmul gbase g_is_zero penc pdec n k _ P).
    - unfold Bip32Kholaw.child_key. rewrite I. reflexivity.
  Qed.

End ChildKeyZ.

(* ================================================================== 8. the Khovratovich-Law derivator (as repaired by fix 71d2424):
   no bound on the parent key, no hypothesis on the HMAC *)
Section Conformant.
  Variable hmac_sha512 : list N -> list N -> list N.
  Variable hmac_sha256 : list N -> list N -> list N.
  Variable pbkdf2_sha512 : list N -> list N -> N -> N -> list N.
  Variable G : Type.
  Variable gadd : G -> G -> G.
  Variable gmul : N -> G -> G.
  Variable gbase : G.
  Variable g_is_zero : G -> bool.
  Variable penc : G -> list N.
  Variable pdec : list N -> option G.
  Notation node_from_priv := (Bip32Kholaw.node_from_priv G gmul gbase g_is_zero penc).
  Notation ckd_priv := (Bip32Kholaw.ckd_priv hmac_sha512 G gmul gbase g_is_zero penc).
  Notation child_key := (Bip32Kholaw.child_key hmac_sha512 G gadd gmul gbase g_is_zero penc pdec).
  Notation conf := (Bip32Kholaw.kh_derivator G gmul gbase g_is_zero penc).
  Notation kh_ckd := (C14b.kh_ckd hmac_sha512 G gadd gmul gbase g_is_zero penc pdec).

  Lemma kh_new_left_family zl kl : in_family (kh_new_left zl kl) = true.
  Proof.
    unfold kh_new_left. cbv zeta.
    destruct (negb _); [|reflexivity].
    destruct (N.ltb_spec (zl8 zl + le_to_int kl) (256 ^ N.of_nat (kh_priv_len / 2))) as [H|H]; [|reflexivity].
    rewrite (le_pad_fixed _ _ H). reflexivity.
  Qed.

  Lemma kh_new_right_family zr kr : in_family (kh_new_right zr kr) = true.
  Proof.
    unfold kh_new_right. destruct Lemmas.Bip32Kholaw.kh_consts as (_ & _ & _ & _ & -> & _ & _ & _ & _ & ->).
    rewrite le_pad_fixed; [reflexivity|]. rewrite pow256_32. apply N.mod_upper_bound. discriminate.
  Qed.

  Lemma conf_ckd_priv_family n k i : i < 2 ^ 32 -> in_family (ckd_priv conf n k i) = true.
  Proof.
    intros Hi. unfold Bip32Kholaw.ckd_priv. cbn [d_ser_index d_new_left d_new_right Bip32Kholaw.kh_derivator].
    rewrite (Lemmas.Bip32Kholaw.ser_index_le i Hi). cbn [bind Ok Err].
    destruct (is_hardened i); cbv zeta;
      (apply fam_bind; [apply kh_new_left_family|]; intros kl _;
       apply fam_bind; [apply kh_new_right_family|]; intros kr _; apply node_from_priv_family).
  Qed.

  (* the child of a private object is private *)
  Lemma ckd_priv_child_private d n k i n' : ckd_priv d n k i = Ok n' -> exists k', n_priv n' = Some k'.
  Proof.
    unfold Bip32Kholaw.ckd_priv. intros E.
    destruct (d_ser_index d i) as [ib|]; cbn [bind Ok Err] in E; [|discriminate].
    destruct (is_hardened i); cbv zeta in E;
      (match type of E with bind ?x _ = _ => destruct x as [kl|]; cbn [bind Ok Err] in E; [|discriminate] end;
       match type of E with bind ?x _ = _ => destruct x as [kr|]; cbn [bind Ok Err] in E; [|discriminate] end;
       destruct (Lemmas.Bip32Kholaw.node_from_priv_ok _ _ _ _ _ _ _ _ _ E) as (_ & P' & _); eexists; exact P').
  Qed.

  (* Bip32KholawEd25519 / CardanoIcarusBip32 .ChildKey(int) on a private object: every key, every int *)
  Lemma conf_child_key_family n k (i : Z) : n_priv n = Some k -> in_family (child_key conf n i) = true.
  Proof.
    intros P. unfold Bip32Kholaw.child_key. destruct (index_ok i) eqn:I; [|reflexivity]. rewrite P.
    apply conf_ckd_priv_family.
    pose proof (index_ok_of_N i I) as Ei. rewrite Ei in I. exact (index_ok_lt _ I).
  Qed.

  Lemma conf_derive_elems_family p : forall n k, n_priv n = Some k ->
    in_family (Bip32Path.derive_elems node (kh_ckd conf) n p) = true.
  Proof.
    induction p as [|i t IH]; intros n k P; cbn [Bip32Path.derive_elems]; [reflexivity|].
    pose proof (conf_child_key_family n k (Z.of_N i) P) as F. unfold C14b.kh_ckd.
    destruct (child_key conf n (Z.of_N i)) as [n'|e] eqn:E; cbn [bind Ok Err]; [|exact F].
    unfold Bip32Kholaw.child_key in E. destruct (index_ok (Z.of_N i)); [|discriminate]. rewrite P in E.
    destruct (ckd_priv_child_private _ _ _ _ _ E) as [k' P']. exact (IH n' k' P').
  Qed.

  (* <class>.FromSeedAndPath(seed, str), paths of any length *)
  Lemma conf_from_seed_and_path_str_fof (from_seed : list N -> res node) seed s :
    in_family_or_fuel (from_seed seed) = true ->
    (forall n, from_seed seed = Ok n -> exists k, n_priv n = Some k) ->
    in_family_or_fuel (C14b.kh_from_seed_and_path_str hmac_sha512 G gadd gmul gbase g_is_zero penc pdec conf from_seed seed s) = true.
  Proof.
    intros Hf Hp. unfold C14b.kh_from_seed_and_path_str. apply fof_bind; [exact Hf|]. intros n Hn.
    destruct (Hp n Hn) as [k P].
    apply fof_of_fam. unfold Bip32Path.derive_path_str.
    apply fam_bind; [apply NoEscapePaths.bip32_parse_family|]. intros p _.
    unfold Bip32Path.derive_path. destruct (_ && _); [reflexivity|]. exact (conf_derive_elems_family _ n k P).
  Qed.

  Lemma from_seed_private (m : res (list N * list N)) n :
    (x <- m ;; node_from_priv (fst x) (snd x) 0) = Ok n -> exists k, n_priv n = Some k.
  Proof.
    destruct m as [[k cc]|]; cbn [bind Ok Err fst snd]; [|discriminate]. intros E.
    destruct (Lemmas.Bip32Kholaw.node_from_priv_ok _ _ _ _ _ _ _ _ _ E) as (_ & P & _). eexists; exact P.
  Qed.

  Lemma conf_kh_from_seed_and_path_str_fof fuel seed s : (forall k m, length (hmac_sha512 k m) = 64%nat) ->
    in_family_or_fuel (C14b.kh_from_seed_and_path_str hmac_sha512 G gadd gmul gbase g_is_zero penc pdec conf
                         (kh_from_seed hmac_sha512 hmac_sha256 G gmul gbase g_is_zero penc fuel) seed s) = true.
  Proof.
    intros H. apply conf_from_seed_and_path_str_fof.
    - apply (kh_from_seed_fof hmac_sha512 hmac_sha256 G gmul gbase g_is_zero penc H).
    - intros n. apply from_seed_private.
  Qed.
  Lemma conf_ic_from_seed_and_path_str_family seed s : (forall p s r n, length (pbkdf2_sha512 p s r n) = N.to_nat n) ->
    in_family_or_fuel (C14b.kh_from_seed_and_path_str hmac_sha512 G gadd gmul gbase g_is_zero penc pdec conf
                         (ic_from_seed pbkdf2_sha512 G gmul gbase g_is_zero penc) seed s) = true.
  Proof.
    intros H. apply conf_from_seed_and_path_str_fof.
    - apply fof_of_fam, (ic_from_seed_family pbkdf2_sha512 G gmul gbase g_is_zero penc H).
    - intros n. apply from_seed_private.
  Qed.
End Conformant.

(* C14, Cardano area: Shelley and Byron address decoders, the HD-path decryption, the master keys and the private
   derivation of the Khovratovich-Law family (Bip32KholawEd25519, CardanoIcarusBip32, CardanoByronLegacyBip32).

   Part 1-2 (addresses): no hypothesis about any oracle.
   Part 3 (keys): the only hypotheses are the digest sizes of the hashes (a Python bytes object of that length) --
   without them the models' b[31] on a too short digest is an IndexError, which is what the real hashes exclude.
   The Khovratovich-Law child key is the one place where the full statement is FALSE of the faithful model: the
   32-byte rendering of 8*zL + kL overflows for a parent with kL >= 2^256 - 2^227 ([kh_child_key_refuted]; /repo
   behaves the same: OverflowError).  What holds is the statement under the bound that every key derived from a seed
   satisfies for 2^28 levels ([kh_derive_fof]). *)
From Coq Require Import NArith ZArith Arith List Lia Bool.
From BU Require Import Base.Exn Base.Radix Base.Bytes Gen.Consts Gen.ConstsCardmon.
From BU Require Import Model.EdLib Model.CborEnc Model.Bip32Kholaw Model.ByronLegacyDeriv Model.AddrAdaShelley Model.AddrAdaByron.
From BU Require Model.Base58 Model.Cbor Model.Codecs Model.Bip32Path Model.C14b.
From BU Require Import Lemmas.NoEscape Lemmas.NoEscapeDeriv Lemmas.CardmonConstsOk Lemmas.EdLib Lemmas.Tweak.
From BU Require Lemmas.Base58 Lemmas.CborEnc Lemmas.Bip32Kholaw Lemmas.ByronLegacyDeriv Lemmas.NoEscapePaths.
Import ListNotations.
Open Scope N_scope.

(* ================================================================== 1. Shelley addresses *)
Section Shelley.
  Variable b32_dec : list N -> list N -> option (list N).

  Lemma strip_prefix_family p d : in_family (AddrAdaShelley.strip_prefix p d) = true.
  Proof. unfold AddrAdaShelley.strip_prefix. fam. Qed.

  (* AdaShelleyAddrDecoder.DecodeAddr *)
  Lemma decode_payment_family net addr : in_family (AddrAdaShelley.decode_payment b32_dec net addr) = true.
  Proof. unfold AddrAdaShelley.decode_payment. fam. apply strip_prefix_family. Qed.
  (* AdaShelleyStakingAddrDecoder.DecodeAddr / AdaShelleyRewardAddrDecoder.DecodeAddr *)
  Lemma decode_staking_family net addr : in_family (AddrAdaShelley.decode_staking b32_dec net addr) = true.
  Proof. unfold AddrAdaShelley.decode_staking. fam. apply strip_prefix_family. Qed.
End Shelley.

(* ================================================================== 2. Byron addresses and the HD path *)
Lemma byron_b58dec_family s : in_family (AddrAdaByron.b58dec s) = true.
Proof. apply family_of_errs. intros e E. rewrite (Lemmas.Base58.decode_err _ _ s e E). reflexivity. Qed.

(* ---- the model's own indefinite-length array decoder: the fuel (input length) is never exhausted ---- *)
Lemma lookup_len_pos x tab : forallb (fun kv => (1 <=? snd kv)%nat) tab = true -> (1 <= AddrAdaByron.lookup_len x tab)%nat.
Proof.
  induction tab as [|[k v] t IH]; simpl; intros H; [lia|].
  apply andb_true_iff in H. destruct H as [H1 H2]. destruct (x =? k); [apply Nat.leb_le; exact H1|apply IH; exact H2].
Qed.
Lemma indef_elem_len_pos x : (1 <= indef_elem_len x)%nat.
Proof. apply lookup_len_pos. vm_compute. reflexivity. Qed.

Lemma indef_elem_family s : in_family (indef_elem s) = true.
Proof. unfold indef_elem. fam. Qed.

Lemma indef_elems_family fuel : forall b, (length b < fuel)%nat -> in_family (indef_elems fuel b) = true.
Proof.
  induction fuel as [|f IH]; intros b H; [lia|]. cbn [indef_elems].
  destruct b as [|x t]; [reflexivity|].
  destruct (x =? cbor_indef_end); [reflexivity|].
  apply fam_bind; [apply indef_elem_family|]. intros e _.
  apply fam_bind; [|reflexivity].
  apply IH. rewrite skipn_length. pose proof (indef_elem_len_pos x) as P. cbn [length] in *.
  remember (indef_elem_len x) as n. lia.
Qed.

(* CborIndefiniteLenArrayDecoder.Decode as modelled in Model/AddrAdaByron.v *)
Lemma indef_decode_family b : in_family (indef_decode b) = true.
Proof.
  unfold indef_decode. destruct (_ <=? _)%nat; [|reflexivity].
  destruct b as [|x t].
  - destruct Lemmas.CborEnc.indef_consts as (S & _). cbn [hd]. rewrite S. reflexivity.
  - destruct (hd 0 (x :: t) =? cbor_indef_start); [|reflexivity].
    destruct (last (x :: t) 0 =? cbor_indef_end); [|reflexivity].
    apply indef_elems_family. simpl. lia.
Qed.

Section Byron.
  Variable pbkdf2_sha512 : list N -> list N -> N -> N -> list N.
  Variable chacha_dec : list N -> list N -> list N -> list N -> list N -> option (list N).
  Variable crc32 : list N -> N.
  Variable parse_outer : list N -> option (N * list N * N).
  Variable parse_payload : list N -> option (list N * option (list N) * N).
  Variable parse_bytes : list N -> option (list N).

  (* AdaByronAddrDecoder.DecodeAddr *)
  Lemma byron_decode_addr_family addr :
    in_family (AddrAdaByron.decode_addr crc32 parse_outer parse_payload parse_bytes addr) = true.
  Proof.
    unfold AddrAdaByron.decode_addr.
    apply fam_bind; [apply byron_b58dec_family|]. intros ser _.
    apply fam_bind; [apply fam_of_option; reflexivity|]. intros [[tag value] crc] _.
    destruct (tag =? _); [|reflexivity]. destruct (crc32 value =? crc); [|reflexivity].
    apply fam_bind; [apply fam_of_option; reflexivity|]. intros [[rh attr1] ty] _.
    destruct (_ =? _)%nat; [|reflexivity].
    apply fam_bind.
    - destruct attr1 as [v|]; [|reflexivity]. apply fam_rmap, fam_of_option. reflexivity.
    - intros enc _. destruct (ty =? _); reflexivity.
  Qed.

  (* _AdaByronAddrHdPath.Decrypt (the C18 model) *)
  Lemma byron_model_decrypt_path_family key enc : in_family (AddrAdaByron.decrypt_path chacha_dec key enc) = true.
  Proof.
    unfold AddrAdaByron.decrypt_path.
    apply fam_bind; [apply fam_of_option; reflexivity|]. intros pt _.
    apply fam_bind; [apply indef_decode_family|]. intros elems _.
    destruct (forallb _ _); reflexivity.
  Qed.

  (* CardanoByronLegacy.HdPathFromAddress *)
  Lemma byron_hd_path_from_address_family master addr :
    in_family (AddrAdaByron.hd_path_from_address pbkdf2_sha512 chacha_dec crc32 parse_outer parse_payload parse_bytes
                 master addr) = true.
  Proof.
    unfold AddrAdaByron.hd_path_from_address.
    apply fam_bind; [apply byron_decode_addr_family|]. intros dec _. apply byron_model_decrypt_path_family.
  Qed.

  (* AdaByronAddrDecoder.DecryptHdPath, library-faithful (Model/C14b.v, on the C11 model of the array decoder) *)
  Lemma byron_decrypt_path_family key enc : in_family (C14b.byron_decrypt_path chacha_dec key enc) = true.
  Proof.
    unfold C14b.byron_decrypt_path.
    apply fam_bind; [apply fam_of_option; reflexivity|]. intros pt _.
    apply fam_bind; [apply NoEscape.cbor_decode_family|]. intros items _.
    destruct (forallb _ _); reflexivity.
  Qed.
End Byron.

(* Electrum v2 encoder languages 4.. are found first by the BIP-39 language finder. *)
From Coq Require Import NArith List.
From BU Require Import Model.MnemWords Lemmas.MnemWords Gen.MnemConsts Gen.MnemLangs.
Lemma ev2_first_okb_b :
  forallb (lang_first_okb b39_langs) (skipn 3 (combine ev2_langs ev2_lang_pos)) = true.
Proof. vm_compute. reflexivity. Qed.

(* The Z-module laws of an elliptic-curve group as a bundled HYPOTHESIS record, and what follows
   from them.  Nothing here is an axiom: [group_laws G] is a proposition that theorems about a
   [G : group_ops] take as a premise.  For secp256k1 / P-256 / ed25519 the laws are mathematical
   facts that are assumed, not proved (no EC library is installed; DESIGN.md section 9). *)
From Coq Require Import NArith List Lia.
From BU Require Import Model.Group.
Import ListNotations.
Open Scope N_scope.

Record group_laws (G : group_ops) : Prop := mk_group_laws {
  (* commutative group *)
  add_comm : forall P Q : pt G, add P Q = add Q P;
  add_assoc : forall P Q R : pt G, add P (add Q R) = add (add P Q) R;
  add_zero_l : forall P : pt G, add zero P = P;
  add_inv : forall P : pt G, exists Q, add P Q = zero;
  (* scalar multiplication is the Z-module action restricted to N *)
  smul_0 : forall P : pt G, smul 0 P = zero;
  smul_1 : forall P : pt G, smul 1 P = P;
  smul_add : forall a b (P : pt G), smul (a + b) P = add (smul a P) (smul b P);
  smul_mul : forall a b (P : pt G), smul a (smul b P) = smul (a * b) P;
  (* the generator has order n *)
  order_pos : 0 < order G;
  smul_order : smul (order G) (@base G) = zero;
  (* the zero test decides equality with the neutral element *)
  is_zero_spec : forall P : pt G, is_zero P = true <-> P = zero
}.

(* n is the exact order of the generator (true of all three curves: n is prime and G <> 0).
   Needed only where a statement must recognise the point at infinity on the public side. *)
Definition order_exact (G : group_ops) : Prop :=
  forall a, smul a (@base G) = zero -> a mod order G = 0.

Section Derived.
  Variable G : group_ops.
  Hypothesis L : group_laws G.
  Notation n := (order G).

  Lemma add_zero_r (P : pt G) : add P zero = P.
  Proof. rewrite (add_comm G L). apply (add_zero_l G L). Qed.

  Lemma smul_zero_pt a : smul a (@zero G) = zero.
  Proof.
    rewrite <- (smul_0 G L (@base G)), (smul_mul G L), N.mul_0_r. reflexivity.
  Qed.

  Lemma smul_mult_order q : smul (q * n) (@base G) = zero.
  Proof.
    rewrite <- (smul_mul G L), (smul_order G L). apply smul_zero_pt.
  Qed.

  Lemma n_neq0 : n <> 0.
  Proof. pose proof (order_pos G L). lia. Qed.

  (* scalars act on the generator modulo n *)
  Lemma smul_mod a : smul (a mod n) (@base G) = smul a base.
  Proof.
    pose proof n_neq0 as Hn.
    rewrite (N.div_mod a n Hn) at 2.
    rewrite (smul_add G L), (N.mul_comm n), smul_mult_order, (add_zero_l G L). reflexivity.
  Qed.

  Lemma smul_add_mod a b : smul ((a + b) mod n) (@base G) = add (smul a base) (smul b base).
  Proof. rewrite smul_mod. apply (smul_add G L). Qed.

  Lemma point_of_add_mod a b : @point_of G ((a + b) mod n) = add (point_of a) (point_of b).
  Proof. apply smul_add_mod. Qed.

  Lemma smul_congr a b : a mod n = b mod n -> smul a (@base G) = smul b base.
  Proof. intros E. rewrite <- (smul_mod a), <- (smul_mod b), E. reflexivity. Qed.

  Lemma smul_mod_zero a : a mod n = 0 -> smul a (@base G) = zero.
  Proof. intros E. rewrite <- smul_mod, E. apply (smul_0 G L). Qed.

  Lemma add_cancel_l (P Q R : pt G) : add P Q = add P R -> Q = R.
  Proof.
    intros E. destruct (add_inv G L P) as [M HM].
    assert (add M (add P Q) = add M (add P R)) as E2 by (rewrite E; reflexivity).
    rewrite !(add_assoc G L), (add_comm G L M P), HM, !(add_zero_l G L) in E2. exact E2.
  Qed.

  (* with the exact-order hypothesis: a*G = 0 iff n | a *)
  Lemma smul_zero_iff (X : order_exact G) a : smul a (@base G) = zero <-> a mod n = 0.
  Proof. split; [apply X | apply smul_mod_zero]. Qed.

  Lemma is_zero_sum_iff (X : order_exact G) a b :
    is_zero (add (smul a (@base G)) (smul b base)) = true <-> (a + b) mod n = 0.
  Proof.
    rewrite (is_zero_spec G L), <- (smul_add G L). apply smul_zero_iff, X.
  Qed.

  Lemma is_zero_false_iff (P : pt G) : is_zero P = false <-> P <> zero.
  Proof.
    pose proof (is_zero_spec G L P) as S. destruct (is_zero P); split; intros H; try congruence.
    - exfalso. apply H, S. reflexivity.
    - intro E. apply S in E. discriminate.
  Qed.

  Lemma point_of_valid_nonzero (X : order_exact G) k : 0 < k < n -> @point_of G k <> zero.
  Proof.
    intros [H0 Hn] E. apply X in E. rewrite N.mod_small in E by exact Hn. lia.
  Qed.
End Derived.

(* ---- the hypothesis bundle is satisfiable: Z/2Z (carrier bool) is a faithful model of
   [group_laws] and [order_exact].  Used by the [Example]s of Props/C03.v and Props/C04.v to show
   that the premises of the theorems are not vacuous; it says nothing about the real curves. ---- *)
Definition Z2_group : group_ops :=
  mk_group_ops bool false xorb (fun k P => if N.odd k then P else false) true 2
               negb (fun P => [if P then 3 else 2]) (fun P => [4; if P then 1 else 0]).

Lemma Z2_laws : group_laws Z2_group.
Proof.
  constructor; cbn.
  - intros [] []; reflexivity.
  - intros [] [] []; reflexivity.
  - intros []; reflexivity.
  - intros P. exists P. destruct P; reflexivity.
  - reflexivity.
  - reflexivity.
  - intros a b P. rewrite N.odd_add. destruct (N.odd a), (N.odd b), P; reflexivity.
  - intros a b P. rewrite N.odd_mul. destruct (N.odd a), (N.odd b), P; reflexivity.
  - reflexivity.
  - reflexivity.
  - intros []; cbn; split; congruence.
Qed.

Lemma Z2_order_exact : order_exact Z2_group.
Proof.
  intros a. cbn. destruct (N.odd a) eqn:E; [discriminate|]. intros _.
  rewrite <- N.negb_even in E. apply Bool.negb_false_iff, N.even_spec in E.
  destruct E as [m ->]. rewrite N.mul_comm. apply N.mod_mul. discriminate.
Qed.

(* The master-key bit tweaks (programs of ResetBits/SetBits on single bytes, regenerated from the
   source) and what they guarantee about the little-endian integer kL. *)
From Coq Require Import NArith Arith List Lia Bool.
From BU Require Import Base.Exn Base.Radix Base.Bytes Gen.ConstsCardmon Model.Bip32Kholaw.
Import ListNotations.
Open Scope N_scope.

Lemma set_nth_length i v l : length (set_nth i v l) = length l.
Proof. revert i; induction l as [|x t IH]; intros [|i]; simpl; auto. Qed.

Lemma set_nth_nth i v l j : nth_error (set_nth i v l) j =
  if (i =? j)%nat then (match nth_error l j with Some _ => Some v | None => None end) else nth_error l j.
Proof.
  revert i j; induction l as [|x t IH]; intros i j.
  - destruct i, j; simpl; try reflexivity; destruct (_ =? _)%nat; reflexivity.
  - destruct i as [|i], j as [|j]; simpl; try reflexivity. apply IH.
Qed.

Lemma nth_error_ext' {A} (l1 : list A) : forall l2, (forall j, nth_error l1 j = nth_error l2 j) -> l1 = l2.
Proof.
  induction l1 as [|x t IH]; intros [|y u] H; [reflexivity|specialize (H 0%nat); discriminate|specialize (H 0%nat); discriminate|].
  pose proof (H 0%nat) as H0. simpl in H0. inversion H0; subst. f_equal. apply IH. intros j. exact (H (S j)).
Qed.

Lemma nth_error_skipn' {A} k : forall (l : list A) j, nth_error (skipn k l) j = nth_error l (k + j).
Proof. induction k as [|k IH]; intros [|x t] j; simpl; try reflexivity; [destruct j; reflexivity|apply IH]. Qed.

Lemma skipn_skipn' {A} a b' (l : list A) : skipn a (skipn b' l) = skipn (b' + a) l.
Proof. apply nth_error_ext'. intros j. rewrite !nth_error_skipn'. f_equal. lia. Qed.

Lemma bytes_ok_nth b j v : bytes_ok b -> nth_error b j = Some v -> v < 256.
Proof. intros H E. exact (proj1 (Forall_forall _ _) H v (nth_error_In _ _ E)). Qed.

(* the effect of a tweak program on the byte at position j *)
Definition op_byte (op : N * nat * N) (j : nat) (v : N) : N :=
  let '(k, i, m) := op in
  if (i =? j)%nat then (if k =? 0 then N.ldiff v m else N.lor v m) else v.
Fixpoint tweak_byte (ops : list (N * nat * N)) (j : nat) (v : N) : N :=
  match ops with [] => v | op :: t => tweak_byte t j (op_byte op j v) end.

Lemma apply_bit_op_spec op b : (snd (fst op) < length b)%nat ->
  exists b', apply_bit_op op b = Ok b' /\ length b' = length b /\
             forall j, nth_error b' j = option_map (op_byte op j) (nth_error b j).
Proof.
  destruct op as [[k i] m]. simpl. intros Hi. unfold apply_bit_op.
  destruct (nth_error b i) as [v|] eqn:E; [|apply nth_error_None in E; lia].
  eexists. split; [reflexivity|]. split; [apply set_nth_length|]. intros j. rewrite set_nth_nth.
  unfold op_byte. destruct (Nat.eqb_spec i j) as [->|]; [rewrite E; reflexivity|].
  destruct (nth_error b j); reflexivity.
Qed.

Lemma tweak_spec ops : forall b, (forall op, In op ops -> (snd (fst op) < length b)%nat) ->
  exists b', tweak ops b = Ok b' /\ length b' = length b /\
             forall j, nth_error b' j = option_map (tweak_byte ops j) (nth_error b j).
Proof.
  induction ops as [|op t IH]; intros b H; simpl.
  - exists b. repeat split. intros j. destruct (nth_error b j); reflexivity.
  - destruct (apply_bit_op_spec op b (H op (or_introl eq_refl))) as (b1 & E1 & L1 & N1). rewrite E1. cbn [bind].
    destruct (IH b1) as (b2 & E2 & L2 & N2); [intros o Ho; rewrite L1; apply H; right; exact Ho|].
    exists b2. split; [exact E2|]. split; [congruence|]. intros j. rewrite N2, N1.
    destruct (nth_error b j); reflexivity.
Qed.

(* certificate decided over all 256 byte values: byte 0 becomes a multiple of 8, byte 31 lands in
   [64, hi), every other byte is untouched, bytes stay bytes *)
Definition ops_cert (ops : list (N * nat * N)) (hi : N) : bool :=
  forallb (fun op => (snd (fst op) =? 0)%nat || (snd (fst op) =? 31)%nat) ops &&
  forallb (fun v => let a := tweak_byte ops 0 (N.of_nat v) in let c := tweak_byte ops 31 (N.of_nat v) in
                    (a mod 8 =? 0) && (a <? 256) && (64 <=? c) && (c <? hi)) (seq 0 256).

Lemma tweak_byte_other ops j v : forallb (fun op => (snd (fst op) =? 0)%nat || (snd (fst op) =? 31)%nat) ops = true ->
  j <> 0%nat -> j <> 31%nat -> tweak_byte ops j v = v.
Proof.
  intros H J0 J31. revert v. induction ops as [|[[k i] m] t IH]; intros v; simpl; [reflexivity|].
  simpl in H. apply andb_true_iff in H. destruct H as [H1 H2]. rewrite (IH H2).
  cbn [fst snd] in H1. unfold op_byte.
  destruct (Nat.eqb_spec i j) as [->|]; [|reflexivity].
  exfalso. apply orb_true_iff in H1. destruct H1 as [H1|H1]; apply Nat.eqb_eq in H1; lia.
Qed.

Lemma cert_bytes ops hi v : ops_cert ops hi = true -> v < 256 ->
  let a := tweak_byte ops 0 v in let c := tweak_byte ops 31 v in
  a mod 8 = 0 /\ a < 256 /\ 64 <= c /\ c < hi.
Proof.
  intros H Hv. unfold ops_cert in H. apply andb_true_iff in H. destruct H as [_ H].
  rewrite forallb_forall in H. specialize (H (N.to_nat v)). rewrite in_seq in H.
  specialize (H ltac:(lia)). rewrite Nnat.N2Nat.id in H. cbv zeta in H.
  repeat (apply andb_true_iff in H; destruct H as [H ?]).
  apply N.eqb_eq in H. repeat match goal with X : (_ <? _) = true |- _ => apply N.ltb_lt in X
                                         | X : (_ <=? _) = true |- _ => apply N.leb_le in X end.
  cbv zeta. tauto.
Qed.

Lemma nth_error_split32 (b : list N) : (32 <= length b)%nat ->
  exists b0 mid b31, firstn 32 b = b0 :: mid ++ [b31] /\ length mid = 30%nat /\
                     nth_error b 0 = Some b0 /\ nth_error b 31 = Some b31.
Proof.
  intros H.
  assert (L : length (firstn 32 b) = 32%nat) by (rewrite firstn_length; lia).
  destruct (firstn 32 b) as [|b0 t] eqn:E; [discriminate|].
  assert (Lt : length t = 31%nat) by (simpl in L; lia).
  destruct (exists_last (l := t)) as (mid & b31 & ->); [intros ->; discriminate|].
  rewrite app_length in Lt. simpl in Lt.
  exists b0, mid, b31. split; [reflexivity|]. split; [lia|].
  assert (N0 : forall j, (j < 32)%nat -> nth_error b j = nth_error (firstn 32 b) j).
  { intros j Hj. rewrite <- (firstn_skipn 32 b) at 1. rewrite nth_error_app1; [reflexivity|rewrite firstn_length; lia]. }
  split.
  - rewrite N0 by lia. rewrite E. reflexivity.
  - rewrite N0 by lia. rewrite E. change (nth_error (b0 :: mid ++ [b31]) 31) with (nth_error (mid ++ [b31]) 30).
    rewrite nth_error_app2 by lia.
    replace (30 - length mid)%nat with 0%nat by lia. reflexivity.
Qed.

Lemma le_to_int_ends b0 mid b31 : bytes_ok mid -> length mid = 30%nat ->
  exists r, le_to_int (b0 :: mid ++ [b31]) = b0 + 256 * r + 256 ^ 31 * b31 /\ r < 256 ^ 30.
Proof.
  intros Hm Lm. exists (le_to_int mid). split.
  - unfold le_to_int. cbn [from_le]. rewrite (from_le_app 256 r256). cbn [from_le]. rewrite Lm.
    change (256 ^ N.of_nat 30) with (256 ^ 30). change (256 ^ 31) with (256 * 256 ^ 30). lia.
  - pose proof (from_le_lt 256 r256 mid Hm) as H. rewrite Lm in H. exact H.
Qed.

(* the integer read from the first 32 bytes after a certified tweak *)
Theorem tweak_bits ops hi b b' : ops_cert ops hi = true -> hi <= 256 -> bytes_ok b -> (32 <= length b)%nat ->
  tweak ops b = Ok b' ->
  let kl := le_to_int (firstn 32 b') in
  length b' = length b /\ bytes_ok b' /\ skipn 32 b' = skipn 32 b /\
  kl mod 8 = 0 /\ 2 ^ 254 <= kl /\ kl < hi * 2 ^ 248 /\
  nth_error b' 31 = option_map (tweak_byte ops 31) (nth_error b 31).
Proof.
  intros C Hhi Hb L E.
  assert (Hidx : forall op, In op ops -> (snd (fst op) < length b)%nat).
  { intros op Ho. pose proof C as C'. unfold ops_cert in C'. apply andb_true_iff in C'. destruct C' as [C1 _].
    rewrite forallb_forall in C1. specialize (C1 op Ho). apply orb_true_iff in C1.
    destruct C1 as [C1|C1]; apply Nat.eqb_eq in C1; lia. }
  destruct (tweak_spec ops b Hidx) as (b2 & E2 & L2 & N2). rewrite E in E2. inversion E2; subst b2; clear E2.
  assert (C1 : forallb (fun op => (snd (fst op) =? 0)%nat || (snd (fst op) =? 31)%nat) ops = true).
  { unfold ops_cert in C. apply andb_true_iff in C. tauto. }
  assert (Hb' : bytes_ok b').
  { apply Forall_forall. intros x Hx. apply In_nth_error in Hx. destruct Hx as [j Hj]. rewrite N2 in Hj.
    destruct (nth_error b j) as [v|] eqn:Ev; [|discriminate]. simpl in Hj. inversion Hj; subst x.
    assert (Hv : v < 256) by exact (bytes_ok_nth b j v Hb Ev).
    destruct (Nat.eq_dec j 0) as [->|J0]; [apply (cert_bytes ops hi v C Hv)|].
    destruct (Nat.eq_dec j 31) as [->|J31]; [pose proof (cert_bytes ops hi v C Hv); cbv zeta in *; lia|].
    rewrite (tweak_byte_other ops j v C1 J0 J31). exact Hv. }
  split; [exact L2|]. split; [exact Hb'|]. split.
  { apply nth_error_ext'. intros j. rewrite !nth_error_skipn', N2.
    destruct (nth_error b (32 + j)) as [v|]; [|reflexivity]. cbn [option_map].
    rewrite (tweak_byte_other ops (32 + j) v C1); [reflexivity|lia|lia]. }
  destruct (nth_error_split32 b' ltac:(lia)) as (a0 & mid & a31 & F & Lm & Z0 & Z31).
  destruct (nth_error_split32 b L) as (v0 & _ & v31 & _ & _ & Y0 & Y31).
  rewrite N2, Y0 in Z0. rewrite N2, Y31 in Z31. simpl in Z0, Z31. inversion Z0; inversion Z31; clear Z0 Z31.
  assert (Hv0 : v0 < 256) by exact (bytes_ok_nth b 0 v0 Hb Y0).
  assert (Hv31 : v31 < 256) by exact (bytes_ok_nth b 31 v31 Hb Y31).
  pose proof (cert_bytes ops hi v0 C Hv0) as [K1 _]. pose proof (cert_bytes ops hi v31 C Hv31) as (_ & _ & K3 & K4).
  cbv zeta in *.
  assert (Hmid : bytes_ok mid).
  { assert (Hf : bytes_ok (firstn 32 b')) by (apply bytes_ok_firstn; exact Hb'). rewrite F in Hf.
    inversion Hf; subst. apply bytes_ok_app in H4. tauto. }
  destruct (le_to_int_ends a0 mid a31 Hmid Lm) as (r & EQ & Hr).
  rewrite F, EQ. subst a0 a31.
  split; [|split; [|split]].
  - change (256 ^ 31) with (256 * 256 ^ 30). set (P := 256 ^ 30) in *.
    replace (tweak_byte ops 0 v0 + 256 * r + 256 * P * tweak_byte ops 31 v31)
      with (tweak_byte ops 0 v0 + (32 * r + 32 * P * tweak_byte ops 31 v31) * 8) by ring.
    rewrite N.mod_add by discriminate. exact K1.
  - change (2 ^ 254) with (256 ^ 31 * 64). nia.
  - change (2 ^ 248) with (256 ^ 31). change (256 ^ 31) with (256 * 256 ^ 30).
    assert (tweak_byte ops 0 v0 < 256) by apply (cert_bytes ops hi v0 C Hv0). set (P := 256 ^ 30) in *. nia.
  - rewrite N2. reflexivity.
Qed.

(* the three generated programs *)
Lemma kh_tweak_cert : ops_cert kh_tweak_ops 128 = true.
Proof. vm_compute. reflexivity. Qed.
Lemma ic_tweak_cert : ops_cert ic_tweak_ops 96 = true.
Proof. vm_compute. reflexivity. Qed.
Lemma by_tweak_cert : ops_cert by_tweak_ops 128 = true.
Proof. vm_compute. reflexivity. Qed.

(* a byte that failed the Kholaw repeat test ends, after the Kholaw tweak, below 96 *)
Lemma kh_tweak_after_test : forallb (fun v => negb (N.land (N.of_nat v) kh_repeat_mask =? 0) ||
                                               (tweak_byte kh_tweak_ops 31 (N.of_nat v) <? 96)) (seq 0 256) = true.
Proof. vm_compute. reflexivity. Qed.
(* a byte that passes the Byron test (applied after the tweak) is below 96 *)
Lemma by_test_after_tweak : forallb (fun v => negb (N.land (N.of_nat v) by_repeat_mask =? 0) ||
                                               (N.of_nat v <? 64) || (128 <=? N.of_nat v) || (N.of_nat v <? 96)) (seq 0 256) = true.
Proof. vm_compute. reflexivity. Qed.
Lemma repeat_idx_31 : kh_repeat_idx = 31%nat /\ by_repeat_idx = 31%nat.
Proof. split; reflexivity. Qed.

(* a 32-byte little-endian integer is bounded by its top byte *)
Lemma top_byte_bound b v : bytes_ok b -> length b = 32%nat -> nth_error b 31 = Some v ->
  v * 2 ^ 248 <= le_to_int b < (v + 1) * 2 ^ 248.
Proof.
  intros Hb L E.
  destruct (nth_error_split32 b ltac:(lia)) as (a0 & mid & a31 & F & Lm & _ & Z31).
  rewrite firstn_all2 in F by lia. rewrite E in Z31. inversion Z31; subst a31.
  assert (Hmid : bytes_ok mid /\ a0 < 256).
  { rewrite F in Hb. inversion Hb; subst. apply bytes_ok_app in H2. tauto. }
  destruct (le_to_int_ends a0 mid v (proj1 Hmid) Lm) as (r & EQ & Hr).
  rewrite F, EQ. change (2 ^ 248) with (256 ^ 31). change (256 ^ 31) with (256 * 256 ^ 30).
  destruct Hmid as [_ Ha0]. set (P := 256 ^ 30) in *. nia.
Qed.

(* Facts about the constants regenerated from /repo into Gen/ConstsCardmon.v, re-proved on every run. *)
From Coq Require Import NArith ZArith Arith List Lia Bool.
From BU Require Import Base.Bytes Gen.ConstsCardmon Model.XmrB58.
Import ListNotations.
Open Scope N_scope.

(* ---- Monero block Base58 table ---- *)
Lemma xb58_radix_ge2 : 2 <= xb58_radix.
Proof. vm_compute. discriminate. Qed.
Lemma xb58_alph_nodup : NoDup xb58_alph.
Proof. apply nodupb_sound. vm_compute. reflexivity. Qed.
Lemma xb58_alph_len : length xb58_alph = N.to_nat xb58_radix.
Proof. vm_compute. reflexivity. Qed.
Lemma xb58_dec_max_pos : (0 < xb58_block_dec_max)%nat.
Proof. vm_compute. lia. Qed.
Lemma xb58_enc_max_pos : (0 < xb58_block_enc_max)%nat.
Proof. vm_compute. lia. Qed.

Notation xenc_len := (enc_len xb58_block_enc_lens).

Definition tab_fits_b : bool :=
  forallb (fun n => forallb (fun lz =>
      (lz <=? xenc_len n)%nat && (256 ^ N.of_nat (n - lz) <=? xb58_radix ^ N.of_nat (xenc_len n - lz)))
    (seq 0 (S n))) (seq 0 (S xb58_block_dec_max)).

Lemma xb58_tab_fits : forall n lz, (lz <= n)%nat -> (n <= xb58_block_dec_max)%nat ->
  (lz <= xenc_len n)%nat /\ 256 ^ N.of_nat (n - lz) <= xb58_radix ^ N.of_nat (xenc_len n - lz).
Proof.
  assert (H : tab_fits_b = true) by (vm_compute; reflexivity).
  intros n lz H1 H2. unfold tab_fits_b in H. rewrite forallb_forall in H.
  specialize (H n). rewrite in_seq in H. specialize (H ltac:(lia)).
  rewrite forallb_forall in H. specialize (H lz). rewrite in_seq in H. specialize (H ltac:(lia)).
  apply andb_true_iff in H. destruct H as [A B]. apply Nat.leb_le in A. apply N.leb_le in B. tauto.
Qed.

Lemma xb58_tab_full : xenc_len xb58_block_dec_max = xb58_block_enc_max.
Proof. vm_compute. reflexivity. Qed.

Lemma small_forall (P : nat -> Prop) (f : nat -> bool) (m : nat) :
  (forall k, f k = true -> P k) -> forallb f (seq 0 m) = true -> forall k, (k < m)%nat -> P k.
Proof.
  intros Hf H k Hk. rewrite forallb_forall in H. apply Hf, H. apply in_seq. lia.
Qed.

Lemma xb58_tab_partial : forall k, (k < xb58_block_dec_max)%nat -> (xenc_len k < xb58_block_enc_max)%nat.
Proof.
  apply (small_forall _ (fun k => (xenc_len k <? xb58_block_enc_max)%nat)).
  - intros k H. apply Nat.ltb_lt in H. exact H.
  - vm_compute. reflexivity.
Qed.

Lemma xb58_tab_pos : forall k, (0 < k)%nat -> (k <= xb58_block_dec_max)%nat -> (0 < xenc_len k)%nat.
Proof.
  intros k H1 H2. revert H1.
  apply (small_forall (fun k => (0 < k)%nat -> (0 < xenc_len k)%nat)
           (fun k => (k =? 0)%nat || (0 <? xenc_len k)%nat) (S xb58_block_dec_max)); [| |lia].
  - clear. intros k H P. apply orb_true_iff in H. destruct H as [H|H].
    + apply Nat.eqb_eq in H. lia.
    + apply Nat.ltb_lt in H. exact H.
  - vm_compute. reflexivity.
Qed.

Lemma xb58_tab_zero : xenc_len 0 = 0%nat.
Proof. vm_compute. reflexivity. Qed.

Lemma xb58_tab_index : forall k, (k < xb58_block_dec_max)%nat ->
  index_nat (xenc_len k) xb58_block_enc_lens = Some k.
Proof.
  apply (small_forall _ (fun k => match index_nat (xenc_len k) xb58_block_enc_lens with
                                  | Some j => (j =? k)%nat | None => false end)).
  - intros k H. destruct (index_nat _ _); [|discriminate]. apply Nat.eqb_eq in H. congruence.
  - vm_compute. reflexivity.
Qed.

(* ---- ed25519 sizes ---- *)
Lemma ed_order_pos : 0 < ed_order.
Proof. vm_compute. reflexivity. Qed.
Lemma ed_order_lt_2_253 : ed_order < 2 ^ 253.
Proof. vm_compute. reflexivity. Qed.
Lemma ed_coord_len_32 : ed_coord_len = 32%nat.
Proof. vm_compute. reflexivity. Qed.
Lemma ed_priv_len_32 : ed_priv_len = 32%nat.
Proof. vm_compute. reflexivity. Qed.
Lemma ed_pub_len_32 : ed_pub_len = 32%nat.
Proof. vm_compute. reflexivity. Qed.
Lemma ed_pub_prefix_len : length ed_pub_prefix = 1%nat.
Proof. vm_compute. reflexivity. Qed.

(* ---- Monero ---- *)
Lemma xmr_sub_max_idx_val : xmr_sub_max_idx = (2 ^ 32 - 1)%Z.
Proof. vm_compute. reflexivity. Qed.
Lemma xmr_sub_idx_len_4 : xmr_sub_idx_len = 4%nat.
Proof. vm_compute. reflexivity. Qed.
Lemma xmr_addr_cklen_le : (xmr_addr_cklen <= 32)%nat.
Proof. vm_compute. lia. Qed.
Lemma xmr_payid_len_8 : xmr_payid_len = 8%nat.
Proof. vm_compute. reflexivity. Qed.
Lemma xmr_sub_prefix_ok : bytes_ok xmr_sub_prefix.
Proof. apply bytes_okb_spec. vm_compute. reflexivity. Qed.

(* the nine configured net-version strings are single bytes, pairwise distinct *)
Definition xmr_net_bytes : list (list N) :=
  flat_map (fun c => [fst (fst c); snd (fst c); snd c]) xmr_nets.
Lemma xmr_net_bytes_ok : Forall (fun b => bytes_ok b /\ length b = 1%nat) xmr_net_bytes.
Proof. repeat constructor; vm_compute; intuition discriminate. Qed.
Lemma xmr_nets_len : length xmr_nets = 3%nat.
Proof. vm_compute. reflexivity. Qed.
Lemma xmr_net_bytes_distinct : NoDup (map (fun b => hd 0 b) xmr_net_bytes).
Proof. apply nodupb_sound. vm_compute. reflexivity. Qed.

Lemma xmr_nets_ok : forall c, In c xmr_nets -> bytes_ok (fst (fst c)) /\ bytes_ok (snd (fst c)) /\ bytes_ok (snd c).
Proof.
  assert (H : forallb (fun c => bytes_okb (fst (fst c)) && bytes_okb (snd (fst c)) && bytes_okb (snd c)) xmr_nets = true)
    by (vm_compute; reflexivity).
  rewrite forallb_forall in H. intros c Hc. specialize (H c Hc).
  apply andb_true_iff in H. destruct H as [H H3]. apply andb_true_iff in H. destruct H as [H1 H2].
  rewrite !bytes_okb_spec in *. tauto.
Qed.

(* ---- Cardano ---- *)
Lemma shelley_staking_path_val : shelley_staking_path = [2%Z; 0%Z].
Proof. reflexivity. Qed.
Lemma ada_keyhash_len_28 : ada_keyhash_len = 28%nat.
Proof. reflexivity. Qed.
Lemma chacha_lens : chacha_tag_len = 16%nat /\ chacha_key_len = 32%nat.
Proof. split; reflexivity. Qed.
Lemma b32_index_max_val : b32_index_max = (2 ^ 32 - 1)%Z.
Proof. reflexivity. Qed.

(* Acceptance characterisations of the address decoders of Model/AddrText.v layered on Bech32 / SegWit /
   CashAddr / SS58 (property C10, address level).  First relative to the codec (a Section variable: the
   characterisation needs no law about it), then on the concrete codec models of C10 / C11, where the codec's own
   canonicity theorem gives the corollary "every accepted string is the encoder's text for the returned
   payload, up to the format's case rule" (Bech32 family: py_lower s; SS58: exact).
   The Base32 families are in Lemmas/AddrAcceptB32.v. *)
From Coq Require Import NArith ZArith Arith List Bool Lia.
From BU Require Import Base.Exn Base.Bytes Gen.Consts Gen.AddrConsts Gen.AddrTextConsts Gen.Bech32Consts
  Model.Bech32Str Model.Bech32 Model.AddrUtils Model.AddrB58 Model.AddrText.
From BU Require Lemmas.Bech32 Lemmas.Bech32Bits Lemmas.AddrText Lemmas.AddrInst Lemmas.SS58Ok.
From BU Require Import Lemmas.AddrB58 Lemmas.AddrAcceptB58.
Import ListNotations.
Open Scope N_scope.

(* a hex digit symbol is a hex character only for digits below 16: to_hex of a non-byte is never all-hex *)
Lemma hex_digit_hex_inv d : is_hex_char (hex_digit d) = true -> d < 16.
Proof.
  unfold is_hex_char, hex_digit, hex_val. destruct (N.ltb_spec d 10) as [L|G]; [intros _; lia|].
  assert (E1 : (48 <=? 87 + d) && (87 + d <=? 57) = false) by (apply andb_false_iff; right; apply N.leb_gt; lia).
  rewrite E1. destruct ((97 <=? 87 + d) && (87 + d <=? 102)) eqn:E2.
  - intros _. apply andb_true_iff in E2. destruct E2 as [_ B]. apply N.leb_le in B. lia.
  - assert (E3 : (65 <=? 87 + d) && (87 + d <=? 70) = false) by (apply andb_false_iff; right; apply N.leb_gt; lia).
    rewrite E3. discriminate.
Qed.

Lemma to_hex_all_hex_inv b : forallb is_hex_char (to_hex b) = true -> bytes_ok b.
Proof.
  induction b as [|x t IH]; [constructor|]. cbn [to_hex flat_map app forallb]. fold (to_hex t). intros H.
  apply andb_true_iff in H. destruct H as [H1 H]. apply andb_true_iff in H. destruct H as [_ H].
  constructor; [|apply IH; exact H]. apply hex_digit_hex_inv in H1.
  pose proof (N.div_mod x 16 ltac:(lia)) as DM. pose proof (N.mod_lt x 16 ltac:(lia)) as ML.
  change (x / 16 < 16) in H1. cbv beta. lia.
Qed.

Lemma c2v_inv {A} (r : res A) a : checksum_to_value_error r = Ok a -> r = Ok a.
Proof. apply c2v_ok_iff. Qed.
Lemma c2v_intro {A} (r : res A) a : r = Ok a -> checksum_to_value_error r = Ok a.
Proof. apply c2v_ok_iff. Qed.

Section Generic.
  Set Default Proof Using "Type".
  Variables sha256 ripemd160 keccak256 : list N -> list N.
  Variable valid_pub : N -> list N -> bool.
  Variable bech32_dec : list N -> list N -> res (list N).
  Variable segwit_dec : list N -> list N -> res (N * list N).
  Variable cash_dec : list N -> list N -> res (list N * list N).
  Variable ss58_dec : list N -> res (N * list N).

  Theorem bech32_fixed_accepts_iff hrp n s d :
    bech32_fixed_decode bech32_dec hrp n s = Ok d <-> bech32_dec hrp s = Ok d /\ length d = n.
  Proof.
    unfold bech32_fixed_decode. split.
    - destruct (checksum_to_value_error (bech32_dec hrp s)) as [x|] eqn:E; cbn [bind]; [|discriminate].
      destruct (validate_length x n) eqn:L; cbn [bind]; [|discriminate].
      intros H; inversion H; subst x. apply c2v_inv in E. apply validate_length_inv in L. split; assumption.
    - intros [E L]. apply c2v_intro in E. rewrite E. cbn [bind Ok].
      rewrite validate_length_ok by exact L. reflexivity.
  Qed.

  Theorem atom_accepts_iff hrp s d :
    atom_decode bech32_dec hrp s = Ok d <-> bech32_dec hrp s = Ok d /\ length d = hash160_len.
  Proof. apply bech32_fixed_accepts_iff. Qed.

  Theorem avax_accepts_iff prefix hrp s d :
    avax_decode bech32_dec prefix hrp s = Ok d <->
    exists a, s = prefix ++ a /\ bech32_dec hrp a = Ok d /\ length d = hash160_len.
  Proof.
    unfold avax_decode. split.
    - destruct (validate_and_remove_prefix s prefix) as [a|] eqn:P; cbn [bind]; [|discriminate].
      intros H. apply atom_accepts_iff in H. destruct H as [E L]. apply remove_prefix_inv in P. exists a.
      split; [exact P|]. split; assumption.
    - intros (a & -> & H). rewrite remove_prefix_app. cbn [bind Ok]. apply atom_accepts_iff. exact H.
  Qed.

  Theorem egld_accepts_iff s d :
    egld_decode valid_pub bech32_dec s = Ok d <->
    bech32_dec egld_hrp s = Ok d /\ length d = (ed25519_compr_len - 1)%nat /\ valid_pub 2 d = true.
  Proof.
    unfold egld_decode. split.
    - destruct (bech32_fixed_decode _ _ _ _) as [x|] eqn:E; cbn [bind]; [|discriminate].
      destruct (valid_pub 2 x) eqn:V; [|discriminate]. intros H; inversion H; subst x.
      apply bech32_fixed_accepts_iff in E. destruct E as [E L]. split; [exact E|]. split; assumption.
    - intros (E & L & V). rewrite (proj2 (bech32_fixed_accepts_iff _ _ _ _) (conj E L)). cbn [bind Ok].
      rewrite V. reflexivity.
  Qed.

  Theorem inj_accepts_iff s d :
    inj_decode bech32_dec s = Ok d <-> bech32_dec inj_hrp s = Ok d /\ length d = Nat.div eth_addr_len 2.
  Proof. apply bech32_fixed_accepts_iff. Qed.

  Theorem zil_accepts_iff s d :
    zil_decode bech32_dec s = Ok d <-> bech32_dec zil_hrp s = Ok d /\ length d = zil_hash_len.
  Proof. apply bech32_fixed_accepts_iff. Qed.

  (* Okex / One: through EthAddrDecoder without checksum encoding: exactly 20 byte values *)
  Theorem ethb32_accepts_iff hrp s d :
    ethb32_decode keccak256 bech32_dec hrp s = Ok d <->
    bech32_dec hrp s = Ok d /\ length d = Nat.div eth_addr_len 2 /\ bytes_ok d.
  Proof.
    unfold ethb32_decode. split.
    - destruct (checksum_to_value_error (bech32_dec hrp s)) as [raw|] eqn:E; cbn [bind]; [|discriminate].
      intros H. apply c2v_inv in E.
      apply eth_decode_accepts_iff_gen in H. destruct H as (a & Ea & L & Hh & _ & F).
      apply app_inv_head in Ea. subst a. pose proof (to_hex_all_hex_inv raw Hh) as B.
      rewrite (from_hex_to_hex raw B) in F. assert (raw = d) by (unfold Ok in F; congruence). subst d.
      split; [exact E|]. split; [|exact B]. rewrite to_hex_length in L. unfold eth_addr_len in *. simpl. lia.
    - intros (E & L & B). apply c2v_intro in E. rewrite E. cbn [bind Ok].
      apply eth_decode_accepts_iff_gen. exists (to_hex d). split; [reflexivity|].
      split; [rewrite to_hex_length, L; reflexivity|]. split; [apply to_hex_all_hex; exact B|].
      split; [discriminate|apply from_hex_to_hex; exact B].
  Qed.

  Theorem p2wpkh_accepts_iff hrp s d :
    p2wpkh_decode segwit_dec hrp s = Ok d <-> segwit_dec hrp s = Ok (p2wpkh_wit_ver, d) /\ length d = hash160_len.
  Proof.
    unfold p2wpkh_decode. split.
    - destruct (checksum_to_value_error (segwit_dec hrp s)) as [[v x]|] eqn:E; cbn [bind]; [|discriminate].
      destruct (validate_length x _) eqn:L; cbn [bind]; [|discriminate].
      destruct (N.eqb_spec v p2wpkh_wit_ver) as [->|]; [|discriminate]. intros H; inversion H; subst x.
      apply c2v_inv in E. apply validate_length_inv in L. split; assumption.
    - intros [E L]. apply c2v_intro in E. rewrite E. cbn [bind Ok].
      rewrite validate_length_ok by exact L. cbn [bind Ok]. rewrite N.eqb_refl. reflexivity.
  Qed.

  Theorem p2tr_accepts_iff hrp s d :
    p2tr_decode segwit_dec hrp s = Ok d <->
    segwit_dec hrp s = Ok (p2tr_wit_ver, d) /\ length d = (secp_compr_len - 1)%nat.
  Proof.
    unfold p2tr_decode. split.
    - destruct (checksum_to_value_error (segwit_dec hrp s)) as [[v x]|] eqn:E; cbn [bind]; [|discriminate].
      destruct (validate_length x _) eqn:L; cbn [bind]; [|discriminate].
      destruct (N.eqb_spec v p2tr_wit_ver) as [->|]; [|discriminate]. intros H; inversion H; subst x.
      apply c2v_inv in E. apply validate_length_inv in L. auto.
    - intros [E L]. apply c2v_intro in E. rewrite E. cbn [bind Ok].
      rewrite validate_length_ok by exact L. cbn [bind Ok]. rewrite N.eqb_refl. reflexivity.
  Qed.

  Theorem bch_accepts_iff hrp net_ver s d :
    bch_decode cash_dec hrp net_ver s = Ok d <-> cash_dec hrp s = Ok (net_ver, d) /\ length d = hash160_len.
  Proof.
    unfold bch_decode. split.
    - destruct (checksum_to_value_error (cash_dec hrp s)) as [[nv x]|] eqn:E; cbn [bind]; [|discriminate].
      destruct (list_eqb net_ver nv) eqn:V; cbn [negb]; [|discriminate].
      destruct (validate_length x hash160_len) eqn:L; cbn [bind]; [|discriminate].
      intros H; inversion H; subst x. apply c2v_inv in E. apply list_eqb_spec in V. subst nv.
      apply validate_length_inv in L. auto.
    - intros [E L]. apply c2v_intro in E. rewrite E. cbn [bind Ok]. rewrite list_eqb_refl. cbn [negb].
      rewrite validate_length_ok by exact L. reflexivity.
  Qed.

  Theorem substrate_accepts_iff curve fmt s d :
    substrate_decode valid_pub ss58_dec curve fmt s = Ok d <-> ss58_dec s = Ok (fmt, d) /\ valid_pub curve d = true.
  Proof.
    unfold substrate_decode. split.
    - destruct (checksum_to_value_error (ss58_dec s)) as [[f x]|] eqn:E; cbn [bind]; [|discriminate].
      destruct (N.eqb_spec f fmt) as [->|]; cbn [negb]; [|discriminate].
      destruct (valid_pub curve x) eqn:V; [|discriminate]. intros H; inversion H; subst x.
      apply c2v_inv in E. auto.
    - intros [E V]. apply c2v_intro in E. rewrite E. cbn [bind Ok]. rewrite N.eqb_refl. cbn [negb].
      rewrite V. reflexivity.
  Qed.
End Generic.

(* ================================================================== on the concrete codecs *)
Section Concrete.
  Set Default Proof Using "Type".
  Variables sha256 ripemd160 keccak256 blake2b512 : list N -> list N.
  Variable valid_pub : N -> list N -> bool.

  (* Bech32 case rule: the decoder accepts an all-upper-case or all-lower-case string (never mixed);
     the encoder writes py_lower s *)
  Theorem atom_accepted_is_encoding hrp s d : atom_decode bech32_decode hrp s = Ok d ->
    bech32_encode hrp d = Ok (py_lower s) /\ is_string_mixed s = false /\ length d = hash160_len.
  Proof.
    intros H. apply atom_accepts_iff in H. destruct H as [E L].
    split; [apply Lemmas.Bech32.bech32_dec_then_enc; exact E|]. split; [|exact L].
    apply Lemmas.Bech32.bech32_decode_ok_iff in E. destruct E as (_ & M & _). exact M.
  Qed.

  Theorem avax_accepted_is_encoding prefix hrp s d : avax_decode bech32_decode prefix hrp s = Ok d ->
    exists a, s = prefix ++ a /\ bech32_encode hrp d = Ok (py_lower a) /\ length d = hash160_len.
  Proof.
    intros H. apply avax_accepts_iff in H. destruct H as (a & -> & E & L). exists a.
    split; [reflexivity|]. split; [apply Lemmas.Bech32.bech32_dec_then_enc; exact E|exact L].
  Qed.

  (* Elrond: the payload is the key, so the statement is about the real encoder *)
  Theorem egld_accepted_is_encoding s d : egld_decode valid_pub bech32_decode s = Ok d ->
    egld_encode bech32_encode d = Ok (py_lower s) /\ valid_pub 2 d = true /\ length d = (ed25519_compr_len - 1)%nat.
  Proof.
    intros H. apply egld_accepts_iff in H. destruct H as (E & L & V).
    split; [apply Lemmas.Bech32.bech32_dec_then_enc; exact E|auto].
  Qed.

  Theorem inj_accepted_is_encoding s d : inj_decode bech32_decode s = Ok d ->
    bech32_encode inj_hrp d = Ok (py_lower s) /\ length d = 20%nat.
  Proof.
    intros H. apply inj_accepts_iff in H. destruct H as [E L].
    split; [apply Lemmas.Bech32.bech32_dec_then_enc; exact E|exact L].
  Qed.

  Theorem zil_accepted_is_encoding s d : zil_decode bech32_decode s = Ok d ->
    bech32_encode zil_hrp d = Ok (py_lower s) /\ length d = zil_hash_len.
  Proof.
    intros H. apply zil_accepts_iff in H. destruct H as [E L].
    split; [apply Lemmas.Bech32.bech32_dec_then_enc; exact E|exact L].
  Qed.

  Theorem ethb32_accepted_is_encoding hrp s d : ethb32_decode keccak256 bech32_decode hrp s = Ok d ->
    bech32_encode hrp d = Ok (py_lower s) /\ length d = 20%nat.
  Proof.
    intros H. apply ethb32_accepts_iff in H. destruct H as (E & L & _).
    split; [apply Lemmas.Bech32.bech32_dec_then_enc; exact E|exact L].
  Qed.

  (* on the concrete codec the byte condition is automatic *)
  Theorem ethb32_accepts_iff_concrete hrp s d :
    ethb32_decode keccak256 bech32_decode hrp s = Ok d <-> bech32_decode hrp s = Ok d /\ length d = 20%nat.
  Proof.
    rewrite ethb32_accepts_iff. split; [intros (E & L & _); split; assumption|]. intros [E L]. split; [exact E|]. split; [exact L|].
    apply Lemmas.Bech32.bech32_decode_ok_iff in E. destruct E as (_ & _ & _ & syms & _ & _ & _ & _ & F).
    apply Lemmas.Bech32Bits.to_from_base32 in F. apply F.
  Qed.

  (* P2WPKH: version 0 and a 20-byte program (the SegWit layer alone also admits 32-byte programs, P2WSH; the
     address decoder now checks the length: finding C10-P2WPKH-LEN, fixed) *)
  Theorem p2wpkh_accepted_is_encoding hrp s d : p2wpkh_decode segwit_decode hrp s = Ok d ->
    segwit_encode hrp p2wpkh_wit_ver d = Ok (py_lower s) /\ length d = hash160_len.
  Proof.
    intros H. apply p2wpkh_accepts_iff in H. destruct H as [E L].
    split; [apply Lemmas.Bech32.segwit_dec_then_enc; exact E|exact L].
  Qed.

  (* the rejected P2WSH witness of the former refutation:
     bc1qqqqsyqcyq5rqwzqfpg9scrgwpugpzysnzs23v9ccrydpk8qarc0szrtjt7 (version 0, program 00 01 .. 1f) *)
  Theorem p2wpkh_rejects_p2wsh : exists hrp s prog,
    segwit_decode hrp s = Ok (0, prog) /\ length prog = 32%nat /\ p2wpkh_decode segwit_decode hrp s = Err ValueError.
  Proof.
    exists [98; 99],
      [98; 99; 49; 113; 113; 113; 113; 115; 121; 113; 99; 121; 113; 53; 114; 113; 119; 122; 113; 102; 112; 103; 57; 115;
       99; 114; 103; 119; 112; 117; 103; 112; 122; 121; 115; 110; 122; 115; 50; 51; 118; 57; 99; 99; 114; 121; 100; 112;
       107; 56; 113; 97; 114; 99; 48; 115; 122; 114; 116; 106; 116; 55],
      (map N.of_nat (seq 0 32)).
    repeat split; vm_compute; reflexivity.
  Qed.

  Theorem p2tr_accepted_is_encoding hrp s d : p2tr_decode segwit_decode hrp s = Ok d ->
    segwit_encode hrp p2tr_wit_ver d = Ok (py_lower s) /\ length d = 32%nat.
  Proof.
    intros H. apply p2tr_accepts_iff in H. destruct H as [E L].
    split; [apply Lemmas.Bech32.segwit_dec_then_enc; exact E|exact L].
  Qed.

  Theorem bch_accepted_is_encoding hrp net_ver s d : bch_decode cash_decode hrp net_ver s = Ok d ->
    cash_encode hrp net_ver d = Ok (py_lower s) /\ length d = hash160_len /\ length net_ver = 1%nat.
  Proof.
    intros H. apply bch_accepts_iff in H. destruct H as [E L].
    split; [apply Lemmas.Bech32.cash_dec_then_enc; exact E|]. split; [exact L|].
    apply Lemmas.Bech32.cash_decode_ok_iff in E. destruct E as (_ & _ & _ & syms & b & _ & _ & _ & _ & _ & ->). reflexivity.
  Qed.

  (* Substrate / SS58: exact equality (Base58 has no case rule) and the real encoder *)
  Hypothesis b512_len : forall x, length (blake2b512 x) = 64%nat.
  Hypothesis b512_ok : forall x, bytes_ok (blake2b512 x).

  Theorem substrate_accepts_iff_concrete curve fmt s d :
    substrate_decode valid_pub (AddrCodecs.ss58_dec blake2b512) curve fmt s = Ok d <->
    substrate_encode (AddrCodecs.ss58_enc blake2b512) fmt d = Ok s /\ bytes_ok d /\ valid_pub curve d = true.
  Proof using b512_len b512_ok.
    rewrite substrate_accepts_iff. unfold AddrCodecs.ss58_dec, AddrCodecs.ss58_enc, substrate_encode.
    rewrite (SS58Ok.ss58_accepts_iff blake2b512 b512_len b512_ok).
    split; [intros ((A & B) & C)|intros (A & B & C)]; repeat split; assumption.
  Qed.
End Concrete.

(* Vocabulary of Props/C18.v: the oracle bundle, the laws theorems may assume, the model's entry points
   over a back-end, and the concrete back-end (Z/l, Lemmas/ToyZl.v) used by the companion Examples. *)
From Coq Require Import NArith ZArith List Lia.
From BU Require Import Base.Exn Base.Bytes Gen.ConstsCardmon.
From BU Require Import Model.EdLib Model.Bip32Kholaw Model.ByronLegacyDeriv.
From BU Require Lemmas.ToyZl Lemmas.Bip32Kholaw.
Import ListNotations.
Open Scope N_scope.

Record cbackend := {
  hmac512 : list N -> list N -> list N;
  hmac256 : list N -> list N -> list N;
  pbkdf2 : list N -> list N -> N -> N -> list N;
  sha512 : list N -> list N;
  G : Type;
  gadd : G -> G -> G;
  gmul : N -> G -> G;
  gbase : G;
  gzero : G;
  g_is_zero : G -> bool;
  penc : G -> list N;
  pdec : list N -> option G }.

Definition hash_laws (o : cbackend) : Prop :=
  (forall k m, length (hmac512 o k m) = 64%nat) /\ (forall k m, bytes_ok (hmac512 o k m)) /\
  (forall k m, length (hmac256 o k m) = 32%nat) /\
  (forall p s r n, length (pbkdf2 o p s r n) = N.to_nat n) /\ (forall p s r n, bytes_ok (pbkdf2 o p s r n)) /\
  (forall x, length (sha512 o x) = 64%nat) /\ (forall x, bytes_ok (sha512 o x)).
Definition encoding_laws (o : cbackend) : Prop :=
  (forall P, length (penc o P) = 32%nat) /\ (forall P, pdec o (penc o P) = Some P).
(* Z-module laws as far as they are used, and l*G = 0 *)
Definition module_laws (o : cbackend) : Prop :=
  (forall x y P, gmul o (x + y) P = gadd o (gmul o x P) (gmul o y P)) /\
  (forall x y P, gmul o x (gmul o y P) = gmul o (x * y) P) /\
  gmul o ed_order (gbase o) = gzero o /\
  (forall x, gmul o x (gzero o) = gzero o) /\
  (forall P, gadd o (gzero o) P = P).

Definition kh_master o := Bip32Kholaw.kh_master (hmac512 o) (hmac256 o).
Definition ic_master o := Bip32Kholaw.ic_master (pbkdf2 o).
Definition by_master o := ByronLegacyDeriv.by_master (hmac512 o) (sha512 o).
Definition kh_from_seed o := Bip32Kholaw.kh_from_seed (hmac512 o) (hmac256 o) (G o) (gmul o) (gbase o) (g_is_zero o) (penc o).
Definition ic_from_seed o := Bip32Kholaw.ic_from_seed (pbkdf2 o) (G o) (gmul o) (gbase o) (g_is_zero o) (penc o).
Definition by_from_seed o := ByronLegacyDeriv.by_from_seed (hmac512 o) (sha512 o) (G o) (gmul o) (gbase o) (g_is_zero o) (penc o).
Definition node_from_priv o := Bip32Kholaw.node_from_priv (G o) (gmul o) (gbase o) (g_is_zero o) (penc o).
Definition kh_derivator o := Bip32Kholaw.kh_derivator (G o) (gmul o) (gbase o) (g_is_zero o) (penc o).
Definition by_derivator o := ByronLegacyDeriv.by_derivator (G o) (gmul o) (gbase o) (g_is_zero o) (penc o).
Definition ckd_priv o := Bip32Kholaw.ckd_priv (hmac512 o) (G o) (gmul o) (gbase o) (g_is_zero o) (penc o).
Definition ckd_pub o := Bip32Kholaw.ckd_pub (hmac512 o) (G o) (gadd o) (g_is_zero o) (penc o) (pdec o).
Definition child_key o := Bip32Kholaw.child_key (hmac512 o) (G o) (gadd o) (gmul o) (gbase o) (g_is_zero o) (penc o) (pdec o).
Definition derive o := Bip32Kholaw.derive (hmac512 o) (G o) (gadd o) (gmul o) (gbase o) (g_is_zero o) (penc o) (pdec o).

Definition kl_of := Lemmas.Bip32Kholaw.kl_of.
Definition kr_of := Lemmas.Bip32Kholaw.kr_of.
Definition node_wf o := Lemmas.Bip32Kholaw.node_wf (G o) (gmul o) (gbase o) (penc o).
Definition pub_of o (n : N) : list N := penc o (gmul o n (gbase o)).

(* ---- the concrete back-end ---- *)
Definition toy : cbackend := {|
  hmac512 := fun k m => ToyZl.toy_hashn 64 (k ++ m);
  hmac256 := fun k m => ToyZl.toy_hashn 32 (k ++ m);
  pbkdf2 := fun p s r n => ToyZl.toy_hashn (N.to_nat n) (p ++ s);
  sha512 := fun x => ToyZl.toy_hashn 64 x;
  G := ToyZl.zl; gadd := ToyZl.zl_add; gmul := ToyZl.zl_mul; gbase := ToyZl.zl_base; gzero := ToyZl.zl_zero;
  g_is_zero := ToyZl.zl_is_zero; penc := ToyZl.zl_enc; pdec := ToyZl.zl_dec |}.

Lemma toy_laws_proof : hash_laws toy /\ encoding_laws toy /\ module_laws toy.
Proof.
  split; [|split].
  - repeat split; intros; (apply ToyZl.toy_hashn_len || apply ToyZl.toy_hashn_ok).
  - split; [exact ToyZl.zl_enc_len|exact ToyZl.zl_dec_enc].
  - repeat split; [exact ToyZl.zl_mul_add|exact ToyZl.zl_mul_mul|exact ToyZl.zl_order|exact ToyZl.zl_mul_zero|exact ToyZl.zl_add_zero_l].
Qed.

Definition toy_seed : list N := map N.of_nat (seq 1 32).

Lemma toy_derivation_proof :
  exists m k, kh_from_seed toy 10 toy_seed = Ok m /\ n_priv m = Some k /\ node_wf toy m /\ bytes_ok k /\
    length k = 64%nat /\ kl_of k mod 8 = 0 /\
    (exists c1 c2 k1, ckd_priv toy (kh_derivator toy) m k 5 = Ok c1 /\
        ckd_pub toy (kh_derivator toy) (to_public m) 5 = Ok c2 /\
        n_priv c1 = Some k1 /\ kl_of k1 < 2 ^ 255 /\ n_pub c1 = n_pub c2 /\ n_pub c1 <> n_pub m) /\
    (exists c3, ckd_priv toy (kh_derivator toy) m k (2 ^ 31 + 7) = Ok c3 /\ n_pub c3 <> n_pub m) /\
    child_key toy (kh_derivator toy) (to_public m) (2 ^ 31 + 7) = Err (LibError Bip32KeyError) /\
    (exists mi, ic_from_seed toy toy_seed = Ok mi /\ node_wf toy mi) /\
    (exists mb kb, by_from_seed toy 10 toy_seed = Ok mb /\ n_priv mb = Some kb /\ node_wf toy mb /\ bytes_ok kb /\
        exists b1 b2, ckd_priv toy (by_derivator toy) mb kb 5 = Ok b1 /\
                      ckd_pub toy (by_derivator toy) (to_public mb) 5 = Ok b2 /\ n_pub b1 = n_pub b2).
Proof.
  destruct (kh_from_seed toy 10 toy_seed) as [m|] eqn:E; [|vm_compute in E; discriminate].
  vm_compute in E. inversion E; subst m; clear E.
  eexists. eexists. split; [reflexivity|]. split; [reflexivity|].
  split; [vm_compute; repeat split; reflexivity|].
  split; [apply bytes_okb_spec; vm_compute; reflexivity|].
  split; [reflexivity|]. split; [vm_compute; reflexivity|].
  split.
  { do 3 eexists. split; [vm_compute; reflexivity|]. split; [vm_compute; reflexivity|].
    split; [reflexivity|]. split; [vm_compute; reflexivity|]. split; [reflexivity|vm_compute; discriminate]. }
  split.
  { eexists. split; [vm_compute; reflexivity|vm_compute; discriminate]. }
  split; [vm_compute; reflexivity|].
  split.
  { destruct (ic_from_seed toy toy_seed) as [mi|] eqn:E; [|vm_compute in E; discriminate].
    vm_compute in E. inversion E; subst mi; clear E. eexists. split; [reflexivity|].
    vm_compute. repeat split; reflexivity. }
  destruct (by_from_seed toy 10 toy_seed) as [mb|] eqn:E; [|vm_compute in E; discriminate].
  vm_compute in E. inversion E; subst mb; clear E.
  do 2 eexists. split; [reflexivity|]. split; [reflexivity|].
  split; [vm_compute; repeat split; reflexivity|].
  split; [apply bytes_okb_spec; vm_compute; reflexivity|].
  do 2 eexists. split; [vm_compute; reflexivity|]. split; [vm_compute; reflexivity|]. reflexivity.
Qed.

(* Vocabulary of Props/C18.v: the oracle bundle, the laws theorems may assume, the model's entry points
   over a back-end, and the concrete back-end (Z/l, Lemmas/ToyZl.v) used by the companion Examples. *)
From Coq Require Import NArith ZArith List Lia.
From BU Require Import Base.Exn Base.Bytes Gen.ConstsCardmon.
From BU Require Import Model.EdLib Model.Bip32Kholaw Model.ByronLegacyDeriv.
From BU Require Lemmas.ToyZl Lemmas.Bip32Kholaw.
Import ListNotations.
Open Scope N_scope.

Record cbackend := {
  hmac512 : list N -> list N -> list N;
  hmac256 : list N -> list N -> list N;
  pbkdf2 : list N -> list N -> N -> N -> list N;
  sha512 : list N -> list N;
  G : Type;
  gadd : G -> G -> G;
  gmul : N -> G -> G;
  gbase : G;
  gzero : G;
  g_is_zero : G -> bool;
  penc : G -> list N;
  pdec : list N -> option G }.

Definition hash_laws (o : cbackend) : Prop :=
  (forall k m, length (hmac512 o k m) = 64%nat) /\ (forall k m, bytes_ok (hmac512 o k m)) /\
  (forall k m, length (hmac256 o k m) = 32%nat) /\
  (forall p s r n, length (pbkdf2 o p s r n) = N.to_nat n) /\ (forall p s r n, bytes_ok (pbkdf2 o p s r n)) /\
  (forall x, length (sha512 o x) = 64%nat) /\ (forall x, bytes_ok (sha512 o x)).
Definition encoding_laws (o : cbackend) : Prop :=
  (forall P, length (penc o P) = 32%nat) /\ (forall P, pdec o (penc o P) = Some P).
(* Z-module laws as far as they are used, and l*G = 0 *)
Definition module_laws (o : cbackend) : Prop :=
  (forall x y P, gmul o (x + y) P = gadd o (gmul o x P) (gmul o y P)) /\
  (forall x y P, gmul o x (gmul o y P) = gmul o (x * y) P) /\
  gmul o ed_order (gbase o) = gzero o /\
  (forall x, gmul o x (gzero o) = gzero o) /\
  (forall P, gadd o (gzero o) P = P).

Definition kh_master o := Bip32Kholaw.kh_master (hmac512 o) (hmac256 o).
Definition ic_master o := Bip32Kholaw.ic_master (pbkdf2 o).
Definition by_master o := ByronLegacyDeriv.by_master (hmac512 o) (sha512 o).
Definition kh_from_seed o := Bip32Kholaw.kh_from_seed (hmac512 o) (hmac256 o) (G o) (gmul o) (gbase o) (g_is_zero o) (penc o).
Definition ic_from_seed o := Bip32Kholaw.ic_from_seed (pbkdf2 o) (G o) (gmul o) (gbase o) (g_is_zero o) (penc o).
Definition by_from_seed o := ByronLegacyDeriv.by_from_seed (hmac512 o) (sha512 o) (G o) (gmul o) (gbase o) (g_is_zero o) (penc o).
Definition node_from_priv o := Bip32Kholaw.node_from_priv (G o) (gmul o) (gbase o) (g_is_zero o) (penc o).
Definition kh_derivator o := Bip32Kholaw.kh_derivator (G o) (gmul o) (gbase o) (g_is_zero o) (penc o).
Definition by_derivator o := ByronLegacyDeriv.by_derivator (G o) (gmul o) (gbase o) (g_is_zero o) (penc o).
Definition ckd_priv o := Bip32Kholaw.ckd_priv (hmac512 o) (G o) (gmul o) (gbase o) (g_is_zero o) (penc o).
Definition ckd_pub o := Bip32Kholaw.ckd_pub (hmac512 o) (G o) (gadd o) (g_is_zero o) (penc o) (pdec o).
Definition child_key o := Bip32Kholaw.child_key (hmac512 o) (G o) (gadd o) (gmul o) (gbase o) (g_is_zero o) (penc o) (pdec o).
Definition derive o := Bip32Kholaw.derive (hmac512 o) (G o) (gadd o) (gmul o) (gbase o) (g_is_zero o) (penc o) (pdec o).

Definition kl_of := Lemmas.Bip32Kholaw.kl_of.
Definition kr_of := Lemmas.Bip32Kholaw.kr_of.
Definition node_wf o := Lemmas.Bip32Kholaw.node_wf (G o) (gmul o) (gbase o) (penc o).
Definition pub_of o (n : N) : list N := penc o (gmul o n (gbase o)).

(* ---- the concrete back-end ---- *)
Definition toy : cbackend := {|
  hmac512 := fun k m => ToyZl.toy_hashn 64 (k ++ m);
  hmac256 := fun k m => ToyZl.toy_hashn 32 (k ++ m);
  pbkdf2 := fun p s r n => ToyZl.toy_hashn (N.to_nat n) (p ++ s);
  sha512 := fun x => ToyZl.toy_hashn 64 x;
  G := ToyZl.zl; gadd := ToyZl.zl_add; gmul := ToyZl.zl_mul; gbase := ToyZl.zl_base; gzero := ToyZl.zl_zero;
  g_is_zero := ToyZl.zl_is_zero; penc := ToyZl.zl_enc; pdec := ToyZl.zl_dec |}.

Lemma toy_laws_proof : hash_laws toy /\ encoding_laws toy /\ module_laws toy.
Proof.
  split; [|split].
  - repeat split; intros; (apply ToyZl.toy_hashn_len || apply ToyZl.toy_hashn_ok).
  - split; [exact ToyZl.zl_enc_len|exact ToyZl.zl_dec_enc].
  - repeat split; [exact ToyZl.zl_mul_add|exact ToyZl.zl_mul_mul|exact ToyZl.zl_order|exact ToyZl.zl_mul_zero|exact ToyZl.zl_add_zero_l].
Qed.

Definition toy_seed : list N := map N.of_nat (seq 1 32).

Lemma toy_derivation_proof :
  exists m k, kh_from_seed toy 10 toy_seed = Ok m /\ n_priv m = Some k /\ node_wf toy m /\ bytes_ok k /\
    length k = 64%nat /\ kl_of k mod 8 = 0 /\
    (exists c1 c2 k1, ckd_priv toy (kh_derivator toy) m k 5 = Ok c1 /\
        ckd_pub toy (kh_derivator toy) (to_public m) 5 = Ok c2 /\
        n_priv c1 = Some k1 /\ kl_of k1 < 2 ^ 255 /\ n_pub c1 = n_pub c2 /\ n_pub c1 <> n_pub m) /\
    (exists c3, ckd_priv toy (kh_derivator toy) m k (2 ^ 31 + 7) = Ok c3 /\ n_pub c3 <> n_pub m) /\
    child_key toy (kh_derivator toy) (to_public m) (2 ^ 31 + 7) = Err (LibError Bip32KeyError) /\
    (exists mi, ic_from_seed toy toy_seed = Ok mi /\ node_wf toy mi) /\
    (exists mb kb, by_from_seed toy 10 toy_seed = Ok mb /\ n_priv mb = Some kb /\ node_wf toy mb /\ bytes_ok kb /\
        exists b1 b2, ckd_priv toy (by_derivator toy) mb kb 5 = Ok b1 /\
                      ckd_pub toy (by_derivator toy) (to_public mb) 5 = Ok b2 /\ n_pub b1 = n_pub b2).
Proof.
  destruct (kh_from_seed toy 10 toy_seed) as [m|] eqn:E; [|vm_compute in E; discriminate].
  vm_compute in E. inversion E; subst m; clear E.
  eexists. eexists. split; [reflexivity|]. split; [reflexivity|].
  split; [vm_compute; repeat split; reflexivity|].
  split; [apply bytes_okb_spec; vm_compute; reflexivity|].
  split; [reflexivity|]. split; [vm_compute; reflexivity|].
  split.
  { do 3 eexists. split; [vm_compute; reflexivity|]. split; [vm_compute; reflexivity|].
    split; [reflexivity|]. split; [vm_compute; reflexivity|]. split; [reflexivity|vm_compute; discriminate]. }
  split.
  { eexists. split; [vm_compute; reflexivity|vm_compute; discriminate]. }
  split; [vm_compute; reflexivity|].
  split.
  { destruct (ic_from_seed toy toy_seed) as [mi|] eqn:E; [|vm_compute in E; discriminate].
    vm_compute in E. inversion E; subst mi; clear E. eexists. split; [reflexivity|].
    vm_compute. repeat split; reflexivity. }
  destruct (by_from_seed toy 10 toy_seed) as [mb|] eqn:E; [|vm_compute in E; discriminate].
  vm_compute in E. inversion E; subst mb; clear E.
  do 2 eexists. split; [reflexivity|]. split; [reflexivity|].
  split; [vm_compute; repeat split; reflexivity|].
  split; [apply bytes_okb_spec; vm_compute; reflexivity|].
  do 2 eexists. split; [vm_compute; reflexivity|]. split; [vm_compute; reflexivity|]. reflexivity.
Qed.

(* ------------------------------------------------------------------ address oracles *)
From BU Require Import Model.CborEnc Model.AddrAdaShelley Model.AddrAdaByron.
From BU Require Lemmas.CborEnc.

Record abackend := {
  blake224 : list N -> list N;
  sha3 : list N -> list N;
  chacha_enc : list N -> list N -> list N -> list N -> list N;
  chacha_dec : list N -> list N -> list N -> list N -> list N -> option (list N);
  crc32 : list N -> N;
  parse_outer : list N -> option (N * list N * N);
  parse_payload : list N -> option (list N * option (list N) * N);
  parse_bytes : list N -> option (list N);
  b32_enc : list N -> list N -> list N;
  b32_dec : list N -> list N -> option (list N) }.

(* Blake2b-224 length; the Bech32 text layer decodes what it encodes *)
Definition shelley_laws (a : abackend) : Prop :=
  (forall x, length (blake224 a x) = 28%nat) /\ (forall hrp b, b32_dec a hrp (b32_enc a hrp b) = Some b).
(* byte-ness and length of the oracle outputs, AEAD decrypt-after-encrypt, cbor2 inverting RFC 8949 on the
   three shapes of a Byron address (for inputs below 4096 bytes) *)
Definition byron_laws (a : abackend) : Prop :=
  (forall x, length (blake224 a x) = 28%nat) /\ (forall x, bytes_ok (blake224 a x)) /\
  (forall k n d p, bytes_ok (chacha_enc a k n d p)) /\
  (forall k n d p, length (chacha_enc a k n d p) = (length p + 16)%nat) /\
  (forall k n d p, bytes_ok p ->
     chacha_dec a k n d (drop_last 16 (chacha_enc a k n d p)) (take_last 16 (chacha_enc a k n d p)) = Some p) /\
  (forall p, (length p < 4096)%nat ->
     parse_outer a (AddrAdaByron.addr_cbor (crc32 a) p) = Some (ada_byron_payload_tag, p, crc32 a p)) /\
  (forall rh enc ty, (length rh < 4096)%nat -> ty < 2 ^ 64 ->
     (match enc with Some e => (length e < 4000)%nat | None => True end) ->
     parse_payload a (payload_cbor rh enc ty) = Some (rh, option_map cbor_bytes enc, ty)) /\
  (forall b, (length b < 4096)%nat -> parse_bytes a (cbor_bytes b) = Some b).

Definition sh_encode o a := AddrAdaShelley.encode_payment (blake224 a) (G o) (pdec o) (b32_enc a).
Definition sh_decode a := AddrAdaShelley.decode_payment (b32_dec a).
Definition st_encode o a := AddrAdaShelley.encode_staking (blake224 a) (G o) (pdec o) (b32_enc a).
Definition st_decode a := AddrAdaShelley.decode_staking (b32_dec a).
Definition shelley_address o a :=
  AddrAdaShelley.shelley_address (blake224 a) (G o) (pdec o) (b32_enc a) (derive o (kh_derivator o)).
Definition shelley_staking_address o a :=
  AddrAdaShelley.shelley_staking_address (blake224 a) (G o) (pdec o) (b32_enc a) (derive o (kh_derivator o)).
Definition cip1852_account o := AddrAdaShelley.cip1852_account (derive o (kh_derivator o)).
Definition byron_encode_key a := AddrAdaByron.encode_key (sha3 a) (blake224 a) (crc32 a).
Definition byron_root_hash a := AddrAdaByron.root_hash (sha3 a) (blake224 a).
Definition byron_decode a := AddrAdaByron.decode_addr (crc32 a) (parse_outer a) (parse_payload a) (parse_bytes a).
Definition byron_encrypt_path a := AddrAdaByron.encrypt_path (chacha_enc a).
Definition byron_decrypt_path a := AddrAdaByron.decrypt_path (chacha_dec a).
Definition byron_get_address o a :=
  AddrAdaByron.get_address (sha3 a) (blake224 a) (pbkdf2 o) (chacha_enc a) (crc32 a) (G o) (pdec o) (derive o (by_derivator o)).
Definition byron_path_from_address o a :=
  AddrAdaByron.hd_path_from_address (pbkdf2 o) (chacha_dec a) (crc32 a) (parse_outer a) (parse_payload a) (parse_bytes a).

(* ---- concrete address oracles for the Examples ---- *)
Definition toy_b32_enc (hrp b : list N) : list N := hrp ++ [49] ++ b.
Definition toy_b32_dec (hrp s : list N) : option (list N) :=
  if list_eqb (firstn (length hrp + 1) s) (hrp ++ [49]) then Some (skipn (length hrp + 1) s) else None.
Definition toy_tag : list N := repeat 7 16.
Definition atoy : abackend := {|
  blake224 := fun x => ToyZl.toy_hashn 28 x;
  sha3 := fun x => ToyZl.toy_hashn 32 x;
  chacha_enc := fun k n d p => map (fun x => x mod 256) p ++ toy_tag;
  chacha_dec := fun k n d c t => if list_eqb t toy_tag then Some c else None;
  crc32 := fun b => N.of_nat (length b) mod 2 ^ 32;
  parse_outer := Lemmas.CborEnc.toy_parse_outer;
  parse_payload := Lemmas.CborEnc.toy_parse_payload;
  parse_bytes := Lemmas.CborEnc.toy_parse_bytes;
  b32_enc := toy_b32_enc; b32_dec := toy_b32_dec |}.

Lemma map_mod_ok (p : list N) : bytes_ok (map (fun x => x mod 256) p).
Proof. induction p; simpl; constructor; [apply N.mod_lt; discriminate|assumption]. Qed.
Lemma map_mod_id (p : list N) : bytes_ok p -> map (fun x => x mod 256) p = p.
Proof. induction 1; simpl; [reflexivity|]. rewrite N.mod_small by assumption. f_equal; assumption. Qed.

Lemma atoy_laws_proof : shelley_laws atoy /\ byron_laws atoy.
Proof.
  split; [split|].
  - intros x. apply ToyZl.toy_hashn_len.
  - intros hrp b. unfold atoy, b32_dec, b32_enc, toy_b32_dec, toy_b32_enc.
    rewrite app_assoc.
    replace (length hrp + 1)%nat with (length (hrp ++ [49])) by (rewrite app_length; reflexivity).
    rewrite firstn_app, Nat.sub_diag, firstn_all. cbn [firstn]. rewrite app_nil_r, list_eqb_refl.
    rewrite skipn_app, Nat.sub_diag, skipn_all. reflexivity.
  - refine (conj _ (conj _ (conj _ (conj _ (conj _ (conj _ (conj _ _))))))).
    + intros x. apply ToyZl.toy_hashn_len.
    + intros x. apply ToyZl.toy_hashn_ok.
    + intros k n d p. cbn. apply bytes_ok_app; split; [apply map_mod_ok|]. repeat constructor; lia.
    + intros k n d p. cbn. rewrite app_length, map_length. reflexivity.
    + intros k n d p Hp. cbn [atoy chacha_enc chacha_dec]. rewrite (map_mod_id p Hp).
      rewrite (drop_last_app' 16 p toy_tag eq_refl), (take_last_app' 16 p toy_tag eq_refl), list_eqb_refl. reflexivity.
    + intros p Hp. cbn [atoy parse_outer crc32]. unfold AddrAdaByron.addr_cbor.
      apply (Lemmas.CborEnc.toy_parse_outer_enc (fun b => N.of_nat (length b) mod 2 ^ 32)); [exact Hp|reflexivity|].
      assert (N.of_nat (length p) mod 2 ^ 32 < 2 ^ 32) by (apply N.mod_lt; discriminate).
      assert (2 ^ 32 < 2 ^ 64) by reflexivity. lia.
    + intros rh enc ty. apply Lemmas.CborEnc.toy_parse_payload_enc.
    + intros b. apply Lemmas.CborEnc.toy_parse_bytes_enc.
Qed.

Definition toy_net : ada_net := nth 0 ada_nets (0, [], []).

Lemma toy_addresses_proof :
  In toy_net ada_nets /\
  exists m acct, ic_from_seed toy toy_seed = Ok m /\ cip1852_account toy m 0 = Ok acct /\
    (exists s, shelley_address toy atoy toy_net acct 0 5 = Ok s) /\
    (exists s, shelley_staking_address toy atoy toy_net acct = Ok s) /\
    exists mb addr, by_from_seed toy 10 toy_seed = Ok mb /\
      byron_get_address toy atoy mb 3 (2 ^ 31 + 4) = Ok addr /\
      byron_path_from_address toy atoy mb addr = Ok [2 ^ 31 + 3; 2 ^ 31 + 4].
Proof.
  split; [left; reflexivity|].
  let v := eval vm_compute in (ic_from_seed toy toy_seed) in match v with inl ?m => exists m end.
  let v := eval vm_compute in (m <- ic_from_seed toy toy_seed ;; cip1852_account toy m 0) in
    match v with inl ?a => exists a end.
  split; [vm_compute; reflexivity|]. split; [vm_compute; reflexivity|].
  split.
  { let v := eval vm_compute in (m <- ic_from_seed toy toy_seed ;; a <- cip1852_account toy m 0 ;;
                                 shelley_address toy atoy toy_net a 0 5) in match v with inl ?s => exists s end.
    vm_compute; reflexivity. }
  split.
  { let v := eval vm_compute in (m <- ic_from_seed toy toy_seed ;; a <- cip1852_account toy m 0 ;;
                                 shelley_staking_address toy atoy toy_net a) in match v with inl ?s => exists s end.
    vm_compute; reflexivity. }
  let v := eval vm_compute in (by_from_seed toy 10 toy_seed) in match v with inl ?m => exists m end.
  let v := eval vm_compute in (mb <- by_from_seed toy 10 toy_seed ;; byron_get_address toy atoy mb 3 (2 ^ 31 + 4)) in
    match v with inl ?a => exists a end.
  split; [vm_compute; reflexivity|]. split; vm_compute; reflexivity.
Qed.
